/-
  Lemmas/Funcs/FcW: the WRITE side of the generated structs, TRANSLATED from protocol/thrift/base/k-base.go and
  protocol/thrift/binary.go (`Verif.Funcs.Base_BLength`, `Base_FastWriteNocopy`, `Base_FastWrite`, the same three of
  `BaseResp`, `Binary_WriteStringNocopy`, `Binary_WriteBinaryNocopy`; generated), is the hand-written model of
  `Model/FastCodec` (`bLengthBase`, `fastWriteNocopyBase`, `fastWriteBase`, …, `writeStringNocopy`).

  * Go's map iteration order: the translated functions take the sequence of entries the `range` loop visits as an
    explicit parameter (`ord1`), the model takes it as `it : SMap`. Every theorem holds for EVERY such sequence (no
    relation to the map is needed: the code only uses `len(p.Extra)` and the visited entries).
  * the receiver may be nil: the translation takes `Option S_base_Base`, the model `Option Base`.
  * the `thrift.NocopyWriter` parameter: the translation takes `Option ν` (`none` = the nil interface) and the behaviour
    `J : NocopyI ν` of `WriteDirect`; the theorems instantiate it with the recorder `recJ e` over the model's `Directs`
    (`WriteDirect(b, remainCap)` appends `(b, remainCap)` and returns the arbitrary error `e …`, which the code ignores),
    for both `w == nil` (`wOpt false ds = none`) and a real writer (`wOpt true ds = some ds`). The threshold is
    `Facts.nocopyWriteThreshold`.
  * in-place writers: the generated function works on the view `(whole, off)`; the theorems are stated for the view
    `(pre ++ sb, pre.length)` against the model on `sb` (`*_view`: the bytes in front of the view are not touched), and
    for a whole slice (`*_eq`, offset 0). Panics are carried over with their kind.

  Method: every store statement of the generated code is a block with a normal form at `(pre ++ sb, pre.length, o)`
  (`if <fits> then ok (pre ++ patch sb …) else panic "index"`), the model statement has the same normal form; `WSim`
  relates the two outcomes and is closed under sequencing (`sim_*`, continuation-passing), the `range` loop is an
  induction on the visited sequence.
-/
import Verif.Lemmas.Funcs.Fc
namespace Verif.FuncsEq
open Verif Verif.GoSem

/-! ## the recording no-copy writer, lifts -/

/-- the model's recorder of direct writes as a `thrift.NocopyWriter`: `WriteDirect(b, remainCap)` appends the pair; the
    error it returns is arbitrary (the callers drop it) -/
def recJ (e : Directs → Bytes → Int → GoErr) : NocopyI Directs :=
  ⟨fun ds b n => .ok (e ds b n, ds ++ [(b, n.toNat)])⟩

/-- the `w` argument: `none` = nil -/
def wOpt (w : Bool) (ds : Directs) : Option Directs := if w then some ds else none

/-- what the theorems need of a `NocopyWriter` value `enc ds` (`none` = nil) with behaviour `J`, seen as a rendering of the
    model's recorder contents `ds`: it is nil exactly when `w = false`, and `WriteDirect(b, n)` records `(b, n)` — whatever
    error it returns -/
structure NCOK {ν : Type} (J : NocopyI ν) (w : Bool) (enc : Directs → Option ν) : Prop where
  isNone : ∀ ds, (enc ds).isNone = !w
  step : w = true → ∀ (ds : Directs) (b : Bytes) (n : Int), ∃ x er x', enc ds = some x ∧
    J.writeDirect x b n = .ok (er, x') ∧ enc (ds ++ [(b, n.toNat)]) = some x'

theorem recJ_ok (e : Directs → Bytes → Int → GoErr) (w : Bool) : NCOK (recJ e) w (wOpt w) where
  isNone ds := by cases w <;> rfl
  step hw ds b n := by subst hw; exact ⟨ds, e ds b n, ds ++ [(b, n.toNat)], rfl, rfl, rfl⟩

/-- the literal `nil` writer that `FastWrite` passes on -/
theorem nilNocopy_ok : NCOK nilNocopy false (fun _ => (none : Option Unit)) where
  isNone _ := rfl
  step hw := by cases hw

/-- result `(b', w', n)` of a translated no-copy writer as the model's `(WS, n)`; `ds0`: what the recorder held before (a
    nil writer stays nil) -/
def liftWN (ds0 : Directs) (x : GM (Bytes × Option Directs × Int)) : TOut (WS × Nat) :=
  match x with
  | .ok r => .ok (⟨r.1, r.2.1.getD ds0⟩, r.2.2.toNat)
  | .panic s => .panic s
  | .oob => .oob
  | .err e => nomatch e

/-! ## normal forms of the view primitives at `(pre ++ sb, pre.length)`, offset `o` inside the view -/

theorem vset_pre (pre sb : Bytes) (o : Nat) (x : Int) :
    vset (pre ++ sb) (pre.length : Int) (o : Int) x =
      if o < sb.length then .ok (pre ++ patch sb o [byteOf x]) else .panic "index" := by
  rw [vset_nf _ _ _ _ (by omega), Int.toNat_natCast, putAt_append]
  by_cases c : o < sb.length
  · rw [if_pos (by simp; omega), if_pos c]
  · rw [if_neg (by simp; omega), if_neg c]

theorem vfrom_pre (pre sb : Bytes) (o : Nat) :
    vfrom (pre ++ sb) (pre.length : Int) (o : Int) =
      if o ≤ sb.length then .ok ((pre.length + o : Nat) : Int) else .panic "slice" := by
  rw [vfrom_nf _ _ _ (by omega), Int.toNat_natCast]
  by_cases c : o ≤ sb.length
  · rw [if_pos (by simp; omega), if_pos c]
  · rw [if_neg (by simp; omega), if_neg c]

theorem vputU16_pre (pre sb : Bytes) (o : Nat) (x : Int) :
    vputU16 (pre ++ sb) ((pre.length + o : Nat) : Int) x =
      if o + 2 ≤ sb.length then .ok (pre ++ patch sb o (be16 (ofInt 16 x))) else .panic "index" := by
  rw [vputU16_nf, putAt_append]
  by_cases c : o + 2 ≤ sb.length
  · rw [if_pos (by simp; omega), if_pos c]
  · rw [if_neg (by simp; omega), if_neg c]

theorem vputU32_pre (pre sb : Bytes) (o : Nat) (x : Int) :
    vputU32 (pre ++ sb) ((pre.length + o : Nat) : Int) x =
      if o + 4 ≤ sb.length then .ok (pre ++ patch sb o (be32 (ofInt 32 x))) else .panic "index" := by
  rw [vputU32_nf, putAt_append]
  by_cases c : o + 4 ≤ sb.length
  · rw [if_pos (by simp; omega), if_pos c]
  · rw [if_neg (by simp; omega), if_neg c]

theorem vlen_pre (pre sb : Bytes) (o : Nat) :
    vlen (pre ++ sb) ((pre.length + o : Nat) : Int) = (sb.length : Int) - o := by
  simp [vlen, len]; omega

/-! ## `Binary.WriteStringNocopy` / `WriteBinaryNocopy` -/

/-- the model statement in normal form (`o ≤ sb.length`: the slice `b[off:]` exists) -/
theorem writeStringNocopy_nf (thr : Nat) (w : Bool) (sb : Bytes) (ds : Directs) (o : Nat) (v : Bytes)
    (h : o ≤ sb.length) :
    writeStringNocopy thr w ⟨sb, ds⟩ o v =
      if o + 4 ≤ sb.length then
        if (!w || decide (v.length < thr)) = true then
          .ok (⟨patch (patch sb o (be32 v.length)) (o + 4) (v.take (min (sb.length - (o + 4)) v.length)), ds⟩,
            4 + min (sb.length - (o + 4)) v.length)
        else .ok (⟨patch sb o (be32 v.length), ds ++ [(v, sb.length - o - 4)]⟩, 4)
      else .panic "index" := by
  unfold writeStringNocopy writeString put32 copyAt
  have a : ¬ o > sb.length := by omega
  by_cases c : o + 4 ≤ sb.length
  · have a2 : ¬ sb.length - o < 4 := by omega
    have l1 : (patch sb o (be32 v.length)).length = sb.length := patch_length _ _ _ (by simp; omega)
    have a3 : ¬ o + 4 > sb.length := by omega
    by_cases c2 : (!w || decide (v.length < thr)) = true
    · simp [a, a2, a3, c, l1, c2]
    · simp [a, a2, c, l1, c2]
  · have a2 : sb.length - o < 4 := by omega
    by_cases c2 : (!w || decide (v.length < thr)) = true
    · simp [a, a2, c, c2]
    · simp [a, a2, c, c2]

/-- the in-place string writer on the view, in normal form -/
theorem gWriteString_nf (pre sb : Bytes) (o : Nat) (v : Bytes) (h : o ≤ sb.length)
    (hlen : (pre ++ sb).length < 2 ^ 63) :
    Funcs.Binary_WriteString (pre ++ sb) ((pre.length + o : Nat) : Int) v =
      if o + 4 ≤ sb.length then
        .ok (pre ++ patch (patch sb o (be32 v.length)) (o + 4) (v.take (min (sb.length - (o + 4)) v.length)),
          ((4 + min (sb.length - (o + 4)) v.length : Nat) : Int))
      else .panic "index" := by
  have hw := Binary_WriteString_eq (pre ++ sb) (pre.length + o) v (by simp; omega) hlen
  rw [wBinary_nf _ _ _ (by simp; omega)] at hw
  by_cases c : o + 4 ≤ sb.length
  · have c' : pre.length + o + 4 ≤ (pre ++ sb).length := by simp; omega
    rw [if_pos c'] at hw
    rw [if_pos c]
    have e1 : (pre ++ sb).length - (pre.length + o + 4) = sb.length - (o + 4) := by simp; omega
    rw [e1, show 4 + min (sb.length - (o + 4)) v.length = (3 + min (sb.length - (o + 4)) v.length) + 1 from by omega] at hw
    rw [liftW_ok_inv hw, putAt_append, Nat.add_assoc, putAt_append]
    congr 3; omega
  · have c' : ¬ pre.length + o + 4 ≤ (pre ++ sb).length := by simp; omega
    rw [if_neg c'] at hw
    rw [if_neg c]
    exact liftW_panic_inv hw

theorem gWriteBinary_nf (pre sb : Bytes) (o : Nat) (v : Bytes) (h : o ≤ sb.length)
    (hlen : (pre ++ sb).length < 2 ^ 63) :
    Funcs.Binary_WriteBinary (pre ++ sb) ((pre.length + o : Nat) : Int) v =
      if o + 4 ≤ sb.length then
        .ok (pre ++ patch (patch sb o (be32 v.length)) (o + 4) (v.take (min (sb.length - (o + 4)) v.length)),
          ((4 + min (sb.length - (o + 4)) v.length : Nat) : Int))
      else .panic "index" := by
  have hw := Binary_WriteBinary_eq (pre ++ sb) (pre.length + o) v (by simp; omega) hlen
  rw [wBinary_nf _ _ _ (by simp; omega)] at hw
  by_cases c : o + 4 ≤ sb.length
  · have c' : pre.length + o + 4 ≤ (pre ++ sb).length := by simp; omega
    rw [if_pos c'] at hw
    rw [if_pos c]
    have e1 : (pre ++ sb).length - (pre.length + o + 4) = sb.length - (o + 4) := by simp; omega
    rw [e1, show 4 + min (sb.length - (o + 4)) v.length = (3 + min (sb.length - (o + 4)) v.length) + 1 from by omega] at hw
    rw [liftW_ok_inv hw, putAt_append, Nat.add_assoc, putAt_append]
    congr 3; omega
  · have c' : ¬ pre.length + o + 4 ≤ (pre ++ sb).length := by simp; omega
    rw [if_neg c'] at hw
    rw [if_neg c]
    exact liftW_panic_inv hw

/-- the tail shared by both no-copy writers once the threshold test has failed: header, then `WriteDirect` -/
theorem gDirect_nf {ν : Type} (J : NocopyI ν) (enc : Directs → Option ν) (H : NCOK J true enc) (pre sb : Bytes)
    (ds : Directs) (o : Nat) (v : Bytes) :
    ((vputU32 (pre ++ sb) ((pre.length + o : Nat) : Int) (wrap .u32 (len v))).bind fun b1 =>
      (vfrom b1 ((pre.length + o : Nat) : Int) 4).bind fun t2 =>
      (derefP (enc ds)).bind fun t3 =>
      (J.writeDirect t3 v (vlen b1 t2)).bind fun t4 =>
      (.ok (b1, some t4.2, 4) : GM (Bytes × Option ν × Int))) =
      if o + 4 ≤ sb.length then .ok (pre ++ patch sb o (be32 v.length), enc (ds ++ [(v, sb.length - o - 4)]), 4)
      else .panic "index" := by
  rw [vputU32_pre]
  by_cases c : o + 4 ≤ sb.length
  · have l1 : (patch sb o (be32 (ofInt 32 (wrap .u32 (len v))))).length = sb.length :=
      patch_length _ _ _ (by simp; omega)
    have hv : vfrom (pre ++ patch sb o (be32 (ofInt 32 (wrap .u32 (len v))))) ((pre.length + o : Nat) : Int) 4 =
        .ok ((pre.length + (o + 4) : Nat) : Int) := by
      rw [vfrom_nf _ _ _ (by omega), if_pos (by rw [List.length_append, l1]; simp; omega)]; simp; omega
    obtain ⟨x, er, x', h1, h2, h3⟩ := H.step rfl ds v ((sb.length : Int) - ((o + 4 : Nat) : Int))
    have e2 : ((sb.length : Int) - ((o + 4 : Nat) : Int)).toNat = sb.length - o - 4 := by omega
    rw [e2] at h3
    rw [if_pos c, if_pos c, Out.bind_ok, hv, Out.bind_ok, h1]
    simp only [derefP, Out.bind_ok, vlen_pre, l1, h2, h3]
    rw [ofInt_wrap 32 .u32 _ (by decide)]
    unfold len
    rw [be32_ofInt_nat]
  · rw [if_neg c, if_neg c]; rfl

theorem wOpt_isNone (w : Bool) (ds : Directs) : Option.isNone (wOpt w ds) = !w := by
  cases w <;> rfl

theorem gWriteStringNocopy_nf {ν : Type} (J : NocopyI ν) (w : Bool) (enc : Directs → Option ν) (H : NCOK J w enc)
    (pre sb : Bytes) (ds : Directs) (o : Nat) (v : Bytes) (h : o ≤ sb.length) (hlen : (pre ++ sb).length < 2 ^ 63) :
    Funcs.Binary_WriteStringNocopy J (pre ++ sb) ((pre.length + o : Nat) : Int) (enc ds) v =
      if o + 4 ≤ sb.length then
        if (!w || decide (v.length < 4096)) = true then
          .ok (pre ++ patch (patch sb o (be32 v.length)) (o + 4) (v.take (min (sb.length - (o + 4)) v.length)),
            enc ds, ((4 + min (sb.length - (o + 4)) v.length : Nat) : Int))
        else .ok (pre ++ patch sb o (be32 v.length), enc (ds ++ [(v, sb.length - o - 4)]), 4)
      else .panic "index" := by
  unfold Funcs.Binary_WriteStringNocopy
  have hc : (Option.isNone (enc ds) || decide (len v < 4096)) = (!w || decide (v.length < 4096)) := by
    rw [H.isNone]
    have : decide (len v < 4096) = decide (v.length < 4096) := by
      unfold len; exact decide_eq_decide.mpr (by omega)
    rw [this]
  rw [hc]
  by_cases c2 : (!w || decide (v.length < 4096)) = true
  · rw [if_pos c2, gWriteString_nf _ _ _ _ h hlen]
    by_cases c : o + 4 ≤ sb.length
    · simp [c, c2]
    · simp [c]
  · rw [if_neg c2]
    have hw : w = true := by cases w <;> simp_all
    subst hw
    have := gDirect_nf J enc H pre sb ds o v
    simp only [Out.bind_eq, Out.pure_eq] at this ⊢
    rw [this]
    by_cases c : o + 4 ≤ sb.length
    · rw [if_pos c, if_pos c, if_neg c2]
    · rw [if_neg c, if_neg c]

theorem gWriteBinaryNocopy_nf {ν : Type} (J : NocopyI ν) (w : Bool) (enc : Directs → Option ν) (H : NCOK J w enc)
    (pre sb : Bytes) (ds : Directs) (o : Nat) (v : Bytes) (h : o ≤ sb.length) (hlen : (pre ++ sb).length < 2 ^ 63) :
    Funcs.Binary_WriteBinaryNocopy J (pre ++ sb) ((pre.length + o : Nat) : Int) (enc ds) v =
      if o + 4 ≤ sb.length then
        if (!w || decide (v.length < 4096)) = true then
          .ok (pre ++ patch (patch sb o (be32 v.length)) (o + 4) (v.take (min (sb.length - (o + 4)) v.length)),
            enc ds, ((4 + min (sb.length - (o + 4)) v.length : Nat) : Int))
        else .ok (pre ++ patch sb o (be32 v.length), enc (ds ++ [(v, sb.length - o - 4)]), 4)
      else .panic "index" := by
  unfold Funcs.Binary_WriteBinaryNocopy
  have hc : (Option.isNone (enc ds) || decide (len v < 4096)) = (!w || decide (v.length < 4096)) := by
    rw [H.isNone]
    have : decide (len v < 4096) = decide (v.length < 4096) := by
      unfold len; exact decide_eq_decide.mpr (by omega)
    rw [this]
  rw [hc]
  by_cases c2 : (!w || decide (v.length < 4096)) = true
  · rw [if_pos c2, gWriteBinary_nf _ _ _ _ h hlen]
    by_cases c : o + 4 ≤ sb.length
    · simp [c, c2]
    · simp [c]
  · rw [if_neg c2]
    have hw : w = true := by cases w <;> simp_all
    subst hw
    have := gDirect_nf J enc H pre sb ds o v
    simp only [Out.bind_eq, Out.pure_eq] at this ⊢
    rw [this]
    by_cases c : o + 4 ≤ sb.length
    · rw [if_pos c, if_pos c, if_neg c2]
    · rw [if_neg c, if_neg c]

theorem wOpt_getD (w : Bool) (ds ds0 : Directs) (h : w = false → ds = ds0) : (wOpt w ds).getD ds0 = ds := by
  cases w
  · simp [wOpt, h rfl]
  · simp [wOpt]

/-- `Binary.WriteStringNocopy(buf[off:], w, v)` translated from the Go source IS the model `writeStringNocopy` at the
    threshold the extractor reads off the source, for a nil writer (`w = false`) and for a recording one -/
theorem Binary_WriteStringNocopy_eq (e : Directs → Bytes → Int → GoErr) (w : Bool) (buf : Bytes) (off : Nat)
    (ds : Directs) (v : Bytes) (h : off ≤ buf.length) (hlen : buf.length < 2 ^ 63) :
    liftWN ds (Funcs.Binary_WriteStringNocopy (recJ e) buf (off : Int) (wOpt w ds) v) =
      writeStringNocopy Facts.nocopyWriteThreshold w ⟨buf, ds⟩ off v := by
  have hg := gWriteStringNocopy_nf (recJ e) w (wOpt w) (recJ_ok e w) [] buf ds off v h (by simpa using hlen)
  simp only [List.nil_append, List.length_nil, Nat.zero_add] at hg
  rw [hg, writeStringNocopy_nf _ _ _ _ _ _ h]
  unfold Facts.nocopyWriteThreshold
  by_cases c : off + 4 ≤ buf.length
  · by_cases c2 : (!w || decide (v.length < 4096)) = true
    · simp only [if_pos c, if_pos c2, liftWN, wOpt_getD w ds ds (fun _ => rfl), Int.toNat_natCast]
    · have hw : w = true := by cases w <;> simp_all
      subst hw
      simp only [if_pos c, if_neg c2, liftWN, wOpt, if_true, Option.getD_some]; rfl
  · simp only [if_neg c, liftWN]

theorem Binary_WriteBinaryNocopy_eq (e : Directs → Bytes → Int → GoErr) (w : Bool) (buf : Bytes) (off : Nat)
    (ds : Directs) (v : Bytes) (h : off ≤ buf.length) (hlen : buf.length < 2 ^ 63) :
    liftWN ds (Funcs.Binary_WriteBinaryNocopy (recJ e) buf (off : Int) (wOpt w ds) v) =
      writeStringNocopy Facts.nocopyWriteThreshold w ⟨buf, ds⟩ off v := by
  have hg := gWriteBinaryNocopy_nf (recJ e) w (wOpt w) (recJ_ok e w) [] buf ds off v h (by simpa using hlen)
  simp only [List.nil_append, List.length_nil, Nat.zero_add] at hg
  rw [hg, writeStringNocopy_nf _ _ _ _ _ _ h]
  unfold Facts.nocopyWriteThreshold
  by_cases c : off + 4 ≤ buf.length
  · by_cases c2 : (!w || decide (v.length < 4096)) = true
    · simp only [if_pos c, if_pos c2, liftWN, wOpt_getD w ds ds (fun _ => rfl), Int.toNat_natCast]
    · have hw : w = true := by cases w <;> simp_all
      subst hw
      simp only [if_pos c, if_neg c2, liftWN, wOpt, if_true, Option.getD_some]; rfl
  · simp only [if_neg c, liftWN]

/-! ## blocks of a generated struct writer (continuation-passing, in the shape the translator emits) -/

section blocks
variable {α : Type}

/-- `b[off] = t; binary.BigEndian.PutUint16(b[off+1:], id); off += 3` -/
def gFB (t id : Int) (b : Bytes) (base off : Int) (K : Bytes → Int → GM α) : GM α :=
  (vset b base off t).bind fun b => (vfrom b base (wrap .i64 (off + 1))).bind fun t1 =>
    (vputU16 b t1 id).bind fun b => K b (wrap .i64 (off + 3))

/-- `off += thrift.Binary.WriteStringNocopy(b[off:], w, v)` -/
def gStr {ν : Type} (J : NocopyI ν) (v : Bytes) (b : Bytes) (base : Int) (w : Option ν) (off : Int)
    (K : Bytes → Option ν → Int → GM α) : GM α :=
  (vfrom b base off).bind fun t => (Funcs.Binary_WriteStringNocopy J b t w v).bind fun r =>
    K r.1 r.2.1 (wrap .i64 (off + r.2.2))

/-- `b[off] = kt; b[off+1] = vt; binary.BigEndian.PutUint32(b[off+2:], sz); off += 6` -/
def gMapBegin (kt vt sz : Int) (b : Bytes) (base off : Int) (K : Bytes → Int → GM α) : GM α :=
  (vset b base off kt).bind fun b => (vset b base (wrap .i64 (off + 1)) vt).bind fun b =>
    (vfrom b base (wrap .i64 (off + 2))).bind fun t => (vputU32 b t sz).bind fun b => K b (wrap .i64 (off + 6))

/-- `binary.BigEndian.PutUint32(b[off:], v); off += 4` -/
def gI32 (v : Int) (b : Bytes) (base off : Int) (K : Bytes → Int → GM α) : GM α :=
  (vfrom b base off).bind fun t => (vputU32 b t v).bind fun b => K b (wrap .i64 (off + 4))

/-- `b[off] = 0; return off + 1` -/
def gStop {ν : Type} (b : Bytes) (base : Int) (w : Option ν) (off : Int) : GM (Bytes × Option ν × Int) :=
  (vset b base off 0).bind fun b => .ok (b, w, wrap .i64 (off + 1))

end blocks

/-! ## the simulation: translated code on `(pre ++ sb, pre.length)` against model statements on `sb` -/

/-- outcome `x` of translated code against outcome `y` of the model statements: same buffer behind `pre`, same recorder
    contents (a nil writer stays nil and the model's recorder is untouched), same offset, same panic -/
def WSim {ν : Type} (enc : Directs → Option ν) (pre : Bytes) (n : Nat) (w : Bool) (ds0 : Directs)
    (x : GM (Bytes × Option ν × Int)) (y : TOut (WS × Nat)) : Prop :=
  match y with
  | .ok r => r.1.buf.length = n ∧ r.2 ≤ n ∧ (w = false → r.1.ds = ds0) ∧
      x = .ok (pre ++ r.1.buf, enc r.1.ds, (r.2 : Int))
  | .panic s => x = .panic s
  | _ => False

theorem wrap_nat_lit (o : Nat) (k : Int) (hk : 0 ≤ k) (h : (o : Int) + k < 2 ^ 63) :
    wrap .i64 ((o : Int) + k) = ((o + k.toNat : Nat) : Int) := by
  rw [wrap_i64_of_range _ (by omega) (by omega)]; omega

section sim
variable {ν : Type} (J : NocopyI ν) (enc : Directs → Option ν) (pre : Bytes) (n : Nat) (w : Bool) (ds0 : Directs)
  (hn : pre.length + n < 2 ^ 62)
include hn

theorem sim_FB (t id : Int) (t' : UInt8) (id' : Nat) (ht : t' = byteOf t) (hid : be16 id' = be16 (ofInt 16 id))
    (sb : Bytes) (ds : Directs) (o : Nat) (hsb : sb.length = n) (ho : o ≤ n)
    (oi : Int) (hoi : oi = (o : Int)) (K : Bytes → Int → GM (Bytes × Option ν × Int))
    (Ky : WS × Nat → TOut (WS × Nat))
    (hK : ∀ (sb' : Bytes) (oi' : Int), sb'.length = n → o + 3 ≤ n → oi' = ((o + 3 : Nat) : Int) →
      WSim enc pre n w ds0 (K (pre ++ sb') oi') (Ky (⟨sb', ds⟩, o + 3))) :
    WSim enc pre n w ds0 (gFB t id (pre ++ sb) (pre.length : Int) oi K)
      ((stFieldBegin t' id' (⟨sb, ds⟩, o)).bind Ky) := by
  subst hoi
  rw [stFieldBegin_nf _ _ _ _ _ (by omega)]
  unfold gFB
  rw [vset_pre, wrap_nat_lit o 1 (by omega) (by omega), wrap_nat_lit o 3 (by omega) (by omega)]
  simp only [Int.reduceToNat]
  by_cases c1 : o < sb.length
  · have l1 : (patch sb o [byteOf t]).length = sb.length := patch_length _ _ _ (by simp; omega)
    rw [if_pos c1, Out.bind_ok, vfrom_pre, if_pos (by rw [l1]; omega), Out.bind_ok, vputU16_pre]
    by_cases c3 : o + 3 ≤ sb.length
    · have l2 : (patch (patch sb o [byteOf t]) (o + 1) (be16 (ofInt 16 id))).length = sb.length := by
        rw [patch_length _ _ _ (by simp; omega), l1]
      rw [if_pos (by rw [l1]; omega), if_pos c3, Out.bind_ok, Out.bind_ok, ht, hid]
      exact hK _ _ (by rw [l2, hsb]) (by omega) (by simp)
    · rw [if_neg (by rw [l1]; omega), if_neg c3]; rfl
  · rw [if_neg c1, if_neg (by omega)]; rfl

theorem sim_Str (H : NCOK J w enc) (v : Bytes) (sb : Bytes) (ds : Directs) (o : Nat) (hsb : sb.length = n) (ho : o ≤ n)
    (hds : w = false → ds = ds0)
    (oi : Int) (hoi : oi = (o : Int)) (K : Bytes → Option ν → Int → GM (Bytes × Option ν × Int))
    (Ky : WS × Nat → TOut (WS × Nat))
    (hK : ∀ (sb' : Bytes) (ds' : Directs) (k : Nat) (oi' : Int), sb'.length = n → o + k ≤ n →
      (w = false → ds' = ds0) → oi' = ((o + k : Nat) : Int) →
      WSim enc pre n w ds0 (K (pre ++ sb') (enc ds') oi') (Ky (⟨sb', ds'⟩, o + k))) :
    WSim enc pre n w ds0 (gStr J v (pre ++ sb) (pre.length : Int) (enc ds) oi K)
      ((stStr Facts.nocopyWriteThreshold w v (⟨sb, ds⟩, o)).bind Ky) := by
  subst hoi
  have hm : stStr Facts.nocopyWriteThreshold w v (⟨sb, ds⟩, o) =
      (writeStringNocopy Facts.nocopyWriteThreshold w ⟨sb, ds⟩ o v).bind fun r => .ok (r.1, o + r.2) := rfl
  rw [hm]
  unfold gStr
  rw [vfrom_pre, if_pos (by omega), Out.bind_ok,
    gWriteStringNocopy_nf J w enc H pre sb ds o v (by omega) (by simp; omega),
    writeStringNocopy_nf _ _ _ _ _ _ (by omega)]
  unfold Facts.nocopyWriteThreshold
  by_cases c : o + 4 ≤ sb.length
  · by_cases c2 : (!w || decide (v.length < 4096)) = true
    · have l1 : (patch sb o (be32 v.length)).length = sb.length := patch_length _ _ _ (by simp; omega)
      have l2 : (patch (patch sb o (be32 v.length)) (o + 4) (v.take (min (sb.length - (o + 4)) v.length))).length
          = sb.length := by
        rw [patch_length _ _ _ (by simp; omega), l1]
      simp only [if_pos c, if_pos c2, Out.bind_ok]
      exact hK _ ds (4 + min (sb.length - (o + 4)) v.length) _ (by rw [l2, hsb]) (by omega) hds
        (by rw [wrap_i64_of_range _ (by omega) (by omega)]; omega)
    · have hw : w = true := by cases w <;> simp_all
      have l1 : (patch sb o (be32 v.length)).length = sb.length := patch_length _ _ _ (by simp; omega)
      simp only [if_pos c, if_neg c2, Out.bind_ok]
      have := hK (patch sb o (be32 v.length)) (ds ++ [(v, sb.length - o - 4)]) 4
        (wrap .i64 ((o : Int) + 4)) (by rw [l1, hsb]) (by omega) (by intro h; rw [hw] at h; cases h)
        (by rw [wrap_i64_of_range _ (by omega) (by omega)]; omega)
      exact this
  · simp only [if_neg c, Out.bind_panic]; rfl

omit hn in
theorem stMapBegin_nf (sb : Bytes) (ds : Directs) (o : Nat) (kt vt : UInt8) (sz : Nat) :
    stMapBegin kt vt sz (⟨sb, ds⟩, o) =
      if o + 6 ≤ sb.length then
        .ok (⟨patch (patch (patch sb o [kt]) (o + 1) [vt]) (o + 2) (be32 sz), ds⟩, o + 6)
      else .panic "index" := by
  unfold stMapBegin putByte put32
  by_cases c1 : o < sb.length
  · have l1 : (patch sb o [kt]).length = sb.length := patch_length _ _ _ (by simp; omega)
    by_cases c2 : o + 1 < sb.length
    · have l2 : (patch (patch sb o [kt]) (o + 1) [vt]).length = sb.length := by
        rw [patch_length _ _ _ (by simp; omega), l1]
      have a : ¬ o + 2 > sb.length := by omega
      by_cases c6 : o + 6 ≤ sb.length
      · have a2 : ¬ sb.length - (o + 2) < 4 := by omega
        simp [c1, c2, c6, l1, l2, a, a2]
      · have a2 : sb.length - (o + 2) < 4 := by omega
        simp [c1, c2, c6, l1, l2, a, a2]
    · have c6 : ¬ o + 6 ≤ sb.length := by omega
      simp [c1, c2, c6, l1]
  · have c6 : ¬ o + 6 ≤ sb.length := by omega
    simp [c1, c6]

theorem sim_MapBegin (kt vt sz : Int) (kt' vt' : UInt8) (sz' : Nat) (hkt : kt' = byteOf kt) (hvt : vt' = byteOf vt)
    (hsz : be32 sz' = be32 (ofInt 32 sz))
    (sb : Bytes) (ds : Directs) (o : Nat) (hsb : sb.length = n) (ho : o ≤ n)
    (oi : Int) (hoi : oi = (o : Int)) (K : Bytes → Int → GM (Bytes × Option ν × Int))
    (Ky : WS × Nat → TOut (WS × Nat))
    (hK : ∀ (sb' : Bytes) (oi' : Int), sb'.length = n → o + 6 ≤ n → oi' = ((o + 6 : Nat) : Int) →
      WSim enc pre n w ds0 (K (pre ++ sb') oi') (Ky (⟨sb', ds⟩, o + 6))) :
    WSim enc pre n w ds0 (gMapBegin kt vt sz (pre ++ sb) (pre.length : Int) oi K)
      ((stMapBegin kt' vt' sz' (⟨sb, ds⟩, o)).bind Ky) := by
  subst hoi
  rw [stMapBegin_nf]
  unfold gMapBegin
  rw [vset_pre, wrap_nat_lit o 1 (by omega) (by omega), wrap_nat_lit o 2 (by omega) (by omega),
    wrap_nat_lit o 6 (by omega) (by omega)]
  simp only [Int.reduceToNat]
  by_cases c1 : o < sb.length
  · have l1 : (patch sb o [byteOf kt]).length = sb.length := patch_length _ _ _ (by simp; omega)
    rw [if_pos c1, Out.bind_ok, vset_pre]
    by_cases c2 : o + 1 < sb.length
    · have l2 : (patch (patch sb o [byteOf kt]) (o + 1) [byteOf vt]).length = sb.length := by
        rw [patch_length _ _ _ (by simp; omega), l1]
      rw [if_pos (by rw [l1]; omega), Out.bind_ok, vfrom_pre, if_pos (by rw [l2]; omega), Out.bind_ok, vputU32_pre]
      by_cases c6 : o + 6 ≤ sb.length
      · have l3 : (patch (patch (patch sb o [byteOf kt]) (o + 1) [byteOf vt]) (o + 2) (be32 (ofInt 32 sz))).length
            = sb.length := by
          rw [patch_length _ _ _ (by simp; omega), l2]
        rw [if_pos (by rw [l2]; omega), if_pos c6, Out.bind_ok, Out.bind_ok, hkt, hvt, hsz]
        exact hK _ _ (by rw [l3, hsb]) (by omega) (by simp)
      · rw [if_neg (by rw [l2]; omega), if_neg c6]; rfl
    · rw [if_neg (by rw [l1]; omega), if_neg (by omega)]; rfl
  · rw [if_neg c1, if_neg (by omega)]; rfl

theorem sim_I32 (vi v : Int) (hv : be32 (ofInt 32 vi) = be32 (ofInt 32 v))
    (sb : Bytes) (ds : Directs) (o : Nat) (hsb : sb.length = n) (ho : o ≤ n)
    (oi : Int) (hoi : oi = (o : Int)) (K : Bytes → Int → GM (Bytes × Option ν × Int))
    (Ky : WS × Nat → TOut (WS × Nat))
    (hK : ∀ (sb' : Bytes) (oi' : Int), sb'.length = n → o + 4 ≤ n → oi' = ((o + 4 : Nat) : Int) →
      WSim enc pre n w ds0 (K (pre ++ sb') oi') (Ky (⟨sb', ds⟩, o + 4))) :
    WSim enc pre n w ds0 (gI32 vi (pre ++ sb) (pre.length : Int) oi K)
      ((stI32 v (⟨sb, ds⟩, o)).bind Ky) := by
  subst hoi
  rw [stI32_nf _ _ _ _ (by omega)]
  unfold gI32
  rw [vfrom_pre, if_pos (by omega), Out.bind_ok, vputU32_pre, wrap_nat_lit o 4 (by omega) (by omega)]
  simp only [Int.reduceToNat]
  by_cases c : o + 4 ≤ sb.length
  · have l1 : (patch sb o (be32 (ofInt 32 vi))).length = sb.length := patch_length _ _ _ (by simp; omega)
    rw [if_pos c, if_pos c, Out.bind_ok, Out.bind_ok, ← hv]
    exact hK _ _ (by rw [l1, hsb]) (by omega) (by simp)
  · rw [if_neg c, if_neg c]; rfl

theorem sim_Stop (sb : Bytes) (ds : Directs) (o : Nat) (hsb : sb.length = n) (ho : o ≤ n)
    (hds : w = false → ds = ds0) (oi : Int) (hoi : oi = (o : Int)) :
    WSim enc pre n w ds0 (gStop (pre ++ sb) (pre.length : Int) (enc ds) oi)
      ((stStop (⟨sb, ds⟩, o)).bind (wAll [])) := by
  subst hoi
  rw [stStop_nf]
  unfold gStop
  rw [vset_pre, wrap_nat_lit o 1 (by omega) (by omega)]
  simp only [Int.reduceToNat]
  by_cases c : o + 1 ≤ sb.length
  · have l1 : (patch sb o [0]).length = sb.length := patch_length _ _ _ (by simp; omega)
    rw [if_pos (by omega), if_pos c, Out.bind_ok, Out.bind_ok, byteOf_zero]
    exact ⟨by simp only [l1, hsb], by simp only; omega, hds, rfl⟩
  · rw [if_neg (by omega), if_neg c]; rfl

/-! ### the `range` loop over the map: `for k, v := range p.Extra { off += WriteStringNocopy(k); off += WriteStringNocopy(v) }` -/

omit hn in
theorem Out_bind_assoc {ε α β γ : Type} (x : Out ε α) (f : α → Out ε β) (g : β → Out ε γ) :
    (x.bind f).bind g = x.bind fun a => (f a).bind g := by
  cases x <;> rfl

omit hn in
theorem gStr_bind {α β : Type} {ν : Type} (J : NocopyI ν) (v b : Bytes) (base : Int) (wv : Option ν) (off : Int)
    (K : Bytes → Option ν → Int → GM α) (F : α → GM β) :
    (gStr J v b base wv off K).bind F = gStr J v b base wv off fun b w off => (K b w off).bind F := by
  unfold gStr
  simp only [Out_bind_assoc]

/-- what the enclosing function does with the outcome of a loop: `ret` returns, `done` continues -/
def finishL {ρ σ : Type} (Kd : σ → GM ρ) : LoopR ρ σ → GM ρ
  | .ret r => .ok r
  | .done s => Kd s

omit hn in
theorem wAll_cons (f : WStep) (fs : List WStep) (s : WS × Nat) : wAll (f :: fs) s = (f s).bind (wAll fs) := rfl

omit hn in
theorem wAll_append (a b : List WStep) (s : WS × Nat) : wAll (a ++ b) s = (wAll a s).bind (wAll b) := by
  induction a generalizing s with
  | nil => rfl
  | cons f fs ih =>
    simp only [List.cons_append, wAll_cons, Out_bind_assoc]
    congr 1; funext s'; exact ih s'

/-- any function with the two defining equations of the generated loop simulates the model's `stKVs` -/
theorem sim_kvLoop
    (H : NCOK J w enc)
    (L : Nat → List (Bytes × Bytes) → Bytes → Option ν → Int →
      GM (LoopR (Bytes × Option ν × Int) (List (Bytes × Bytes) × Bytes × Option ν × Int)))
    (h0 : ∀ fuel b wv off, L (fuel + 1) [] b wv off = .ok (.done ([], b, wv, off)))
    (h1 : ∀ fuel kv rest b wv off, L (fuel + 1) (kv :: rest) b wv off =
      gStr J kv.1 b (pre.length : Int) wv off fun b wv off =>
        gStr J kv.2 b (pre.length : Int) wv off fun b wv off => L fuel rest b wv off)
    (Kd : List (Bytes × Bytes) × Bytes × Option ν × Int → GM (Bytes × Option ν × Int))
    (Ky : WS × Nat → TOut (WS × Nat)) :
    ∀ (it : List (Bytes × Bytes)) (fuel : Nat) (sb : Bytes) (ds : Directs) (o : Nat) (oi : Int),
      it.length < fuel → sb.length = n → o ≤ n → (w = false → ds = ds0) → oi = (o : Int) →
      (∀ (sb' : Bytes) (ds' : Directs) (o' : Nat) (oi' : Int), sb'.length = n → o' ≤ n →
        (w = false → ds' = ds0) → oi' = (o' : Int) →
        WSim enc pre n w ds0 (Kd ([], pre ++ sb', enc ds', oi')) (Ky (⟨sb', ds'⟩, o'))) →
      WSim enc pre n w ds0 ((L fuel it (pre ++ sb) (enc ds) oi).bind (finishL Kd))
        ((wAll (stKVs Facts.nocopyWriteThreshold w it) (⟨sb, ds⟩, o)).bind Ky) := by
  intro it
  induction it with
  | nil =>
    intro fuel sb ds o oi hf hsb ho hds hoi hK
    obtain ⟨fuel, rfl⟩ : ∃ k, fuel = k + 1 := ⟨fuel - 1, by simp at hf; omega⟩
    rw [h0]
    exact hK sb ds o oi hsb ho hds hoi
  | cons kv rest ih =>
    intro fuel sb ds o oi hf hsb ho hds hoi hK
    obtain ⟨fuel, rfl⟩ : ∃ k, fuel = k + 1 := ⟨fuel - 1, by simp at hf; omega⟩
    have hs : stKVs Facts.nocopyWriteThreshold w (kv :: rest) =
        stStr Facts.nocopyWriteThreshold w kv.1 :: stStr Facts.nocopyWriteThreshold w kv.2 ::
          stKVs Facts.nocopyWriteThreshold w rest := by
      simp [stKVs]
    rw [h1, hs, wAll_cons, gStr_bind, Out_bind_assoc]
    refine sim_Str J enc pre n w ds0 hn H _ sb ds o hsb ho hds oi hoi _ _ ?_
    intro sb1 ds1 k1 oi1 hsb1 ho1 hds1 hoi1
    rw [wAll_cons, gStr_bind, Out_bind_assoc]
    refine sim_Str J enc pre n w ds0 hn H _ sb1 ds1 (o + k1) hsb1 ho1 hds1 oi1 hoi1 _ _ ?_
    intro sb2 ds2 k2 oi2 hsb2 ho2 hds2 hoi2
    exact ih fuel sb2 ds2 (o + k1 + k2) oi2 (by simp at hf; omega) hsb2 ho2 hds2 hoi2 hK

end sim

/-! ## the generated writers as block sequences (the shape of the translator's output: definitional) -/

/-- the tail of a generated struct writer after its `range` loop: a `return` inside the loop returns (there is none),
    otherwise `b[off] = 0; return off + 1` -/
def afterLoop {ν : Type} (base : Int)
    (t : LoopR (Bytes × Option ν × Int) (List (Bytes × Bytes) × Bytes × Option ν × Int)) : GM (Bytes × Option ν × Int) :=
  match t with
  | LoopR.ret r => pure r
  | LoopR.done s => do
    let v_b := s.2.1
    let v_w := s.2.2.1
    let v_off := s.2.2.2
    let v_b ← vset v_b base v_off 0
    pure (v_b, v_w, wrap .i64 (v_off + 1))

theorem afterLoop_eq {ν : Type} (base : Int) :
    afterLoop (ν := ν) base = finishL fun s => gStop s.2.1 base s.2.2.1 s.2.2.2 := by
  funext t; cases t <;> rfl

theorem Base_FastWriteNocopy_blocks {ν : Type} (J : NocopyI ν) (fuel : Nat) (it : List (Bytes × Bytes))
    (p : Funcs.S_base_Base) (b : Bytes) (base : Int) (wv : Option ν) :
    Funcs.Base_FastWriteNocopy J fuel it (some p) b base wv =
      gFB 11 1 b base 0 fun b off => gStr J p.LogID b base wv off fun b wv off =>
      gFB 11 2 b base off fun b off => gStr J p.Caller b base wv off fun b wv off =>
      gFB 11 3 b base off fun b off => gStr J p.Addr b base wv off fun b wv off =>
      if decide (p.Extra ≠ none) = true then
        gFB 13 6 b base off fun b off => gMapBegin 11 11 (wrap .u32 (mapLen p.Extra)) b base off fun b off =>
          (Funcs.Base_FastWriteNocopy_loop1 J base fuel it b wv off).bind fun t => afterLoop base t
      else gStop b base wv off := rfl

theorem BaseResp_FastWriteNocopy_blocks {ν : Type} (J : NocopyI ν) (fuel : Nat) (it : List (Bytes × Bytes))
    (p : Funcs.S_base_BaseResp) (b : Bytes) (base : Int) (wv : Option ν) :
    Funcs.BaseResp_FastWriteNocopy J fuel it (some p) b base wv =
      gFB 11 1 b base 0 fun b off => gStr J p.StatusMessage b base wv off fun b wv off =>
      gFB 8 2 b base off fun b off => gI32 (wrap .u32 p.StatusCode) b base off fun b off =>
      if decide (p.Extra ≠ none) = true then
        gFB 13 3 b base off fun b off => gMapBegin 11 11 (wrap .u32 (mapLen p.Extra)) b base off fun b off =>
          (Funcs.BaseResp_FastWriteNocopy_loop1 J base fuel it b wv off).bind fun t => afterLoop base t
      else gStop b base wv off := rfl

theorem Base_FastWriteNocopy_nil {ν : Type} (J : NocopyI ν) (fuel : Nat) (it : List (Bytes × Bytes))
    (b : Bytes) (base : Int) (wv : Option ν) :
    Funcs.Base_FastWriteNocopy J fuel it none b base wv = gStop b base wv 0 := rfl

theorem BaseResp_FastWriteNocopy_nil {ν : Type} (J : NocopyI ν) (fuel : Nat) (it : List (Bytes × Bytes))
    (b : Bytes) (base : Int) (wv : Option ν) :
    Funcs.BaseResp_FastWriteNocopy J fuel it none b base wv = gStop b base wv 0 := rfl

/-! ## `len(p.Extra)`: the translation's association list (newest first, keys may repeat) against the model's `SMap` -/

theorem set_keys (m : SMap) (k v : Bytes) (k' : Bytes) :
    k' ∈ (m.set k v).map Prod.fst ↔ k' = k ∨ k' ∈ m.map Prod.fst := by
  induction m with
  | nil => simp [SMap.set]
  | cons x r ih =>
    obtain ⟨a, b⟩ := x
    unfold SMap.set
    by_cases h : a = k
    · subst h; simp
    · simp only [h, if_false, List.map_cons, List.mem_cons, ih]
      constructor
      · rintro (h1 | h1 | h1) <;> simp [h1]
      · rintro (h1 | h1 | h1) <;> simp [h1]

theorem set_length (m : SMap) (k v : Bytes) :
    (m.set k v).length = if k ∈ m.map Prod.fst then m.length else m.length + 1 := by
  induction m with
  | nil => simp [SMap.set]
  | cons x r ih =>
    obtain ⟨a, b⟩ := x
    unfold SMap.set
    by_cases h : a = k
    · subst h; simp
    · have h' : ¬ k = a := fun e => h e.symm
      simp only [h, if_false, List.length_cons, ih, List.map_cons, List.mem_cons, h', false_or]
      split <;> rfl

theorem toSMap_keys (l : List (Bytes × Bytes)) (k : Bytes) :
    k ∈ (toSMap l).map Prod.fst ↔ k ∈ l.map Prod.fst := by
  induction l with
  | nil => simp [toSMap]
  | cons x r ih => simp [toSMap, set_keys, ih]

theorem mapEntriesL_keys (l : List (Bytes × Bytes)) (k : Bytes) :
    k ∈ (mapEntriesL l).map Prod.fst ↔ k ∈ l.map Prod.fst := by
  induction l with
  | nil => simp [mapEntriesL]
  | cons x r ih =>
    simp only [mapEntriesL, List.map_cons, List.mem_cons]
    constructor
    · rintro (h | h)
      · exact Or.inl h
      · right
        rw [← ih]
        simp only [List.mem_map, List.mem_filter] at h ⊢
        obtain ⟨y, ⟨hy, _⟩, rfl⟩ := h
        exact ⟨y, hy, rfl⟩
    · rintro (h | h)
      · exact Or.inl h
      · by_cases hk : k = x.1
        · exact Or.inl hk
        · right
          rw [← ih] at h
          simp only [List.mem_map, List.mem_filter] at h ⊢
          obtain ⟨y, hy, rfl⟩ := h
          exact ⟨y, ⟨hy, by simpa using hk⟩, rfl⟩

theorem mapEntriesL_nodup (l : List (Bytes × Bytes)) : ((mapEntriesL l).map Prod.fst).Nodup := by
  induction l with
  | nil => simp [mapEntriesL]
  | cons x r ih =>
    simp only [mapEntriesL, List.map_cons, List.nodup_cons]
    constructor
    · simp only [List.mem_map, List.mem_filter]
      rintro ⟨y, ⟨_, hy⟩, h⟩
      simp [h] at hy
    · exact (ih.sublist ((List.filter_sublist).map _))

theorem filter_key_length (m : List (Bytes × Bytes)) (k : Bytes) (h : (m.map Prod.fst).Nodup) :
    (m.filter (fun x => !(x.1 == k))).length + (if k ∈ m.map Prod.fst then 1 else 0) = m.length := by
  induction m with
  | nil => simp
  | cons x r ih =>
    simp only [List.map_cons, List.nodup_cons] at h
    have ih' := ih h.2
    by_cases hx : x.1 = k
    · subst hx
      have hn : ¬ x.1 ∈ r.map Prod.fst := h.1
      have : r.filter (fun y => !(y.1 == x.1)) = r := by
        apply List.filter_eq_self.mpr
        intro y hy
        have : y.1 ≠ x.1 := fun e => hn (e ▸ List.mem_map_of_mem hy)
        simpa using this
      simp [this]
    · have hx' : ¬ k = x.1 := fun e => hx e.symm
      have hf : (x :: r).filter (fun y => !(y.1 == k)) = x :: r.filter (fun y => !(y.1 == k)) := by
        simp [hx]
      have hm : (k ∈ (x :: r).map Prod.fst) = (k ∈ r.map Prod.fst) := by simp [hx']
      simp only [hf, hm, List.length_cons]
      omega

theorem mapLen_toSMap (l : List (Bytes × Bytes)) : mapLen (some l) = ((toSMap l).length : Int) := by
  unfold mapLen mapEntries
  simp only
  congr 1
  induction l with
  | nil => rfl
  | cons x r ih =>
    have hf := filter_key_length (mapEntriesL r) x.1 (mapEntriesL_nodup r)
    simp only [mapEntriesL, List.length_cons, toSMap, set_length, toSMap_keys]
    simp only [mapEntriesL_keys] at hf
    split <;> simp_all <;> omega

/-! ## from the simulation to the statements -/

theorem WSim.lift {pre : Bytes} {n : Nat} {w : Bool} {ds0 : Directs} {x : GM (Bytes × Option Directs × Int)}
    {y : TOut (WS × Nat)} (h : WSim (wOpt w) pre n w ds0 x y) :
    liftWN ds0 x = y.bind fun r => .ok (⟨pre ++ r.1.buf, r.1.ds⟩, r.2) := by
  cases y with
  | ok r =>
    obtain ⟨_, _, hds, rfl⟩ := h
    simp only [liftWN, Out.bind_ok, wOpt_getD w r.1.ds ds0 hds, Int.toNat_natCast]
  | panic s => subst h; rfl
  | err te => exact h.elim
  | oob => exact h.elim

theorem bind_wAll_nil (x : TOut (WS × Nat)) : x.bind (wAll []) = x := by
  cases x <;> rfl

theorem wAll_cons' (f : WStep) (fs : List WStep) : wAll (f :: fs) = fun s => (f s).bind (wAll fs) := rfl

theorem stHdr_base0 : stHdr Facts.fastWriteHeadersBase 0 = stFieldBegin 11 1 := rfl
theorem stHdr_base1 : stHdr Facts.fastWriteHeadersBase 1 = stFieldBegin 11 2 := rfl
theorem stHdr_base2 : stHdr Facts.fastWriteHeadersBase 2 = stFieldBegin 11 3 := rfl
theorem stHdr_base3 : stHdr Facts.fastWriteHeadersBase 3 = stFieldBegin 13 6 := rfl
theorem stHdr_resp0 : stHdr Facts.fastWriteHeadersBaseResp 0 = stFieldBegin 11 1 := rfl
theorem stHdr_resp1 : stHdr Facts.fastWriteHeadersBaseResp 1 = stFieldBegin 8 2 := rfl
theorem stHdr_resp2 : stHdr Facts.fastWriteHeadersBaseResp 2 = stFieldBegin 13 3 := rfl

theorem be32_mapLen (l : List (Bytes × Bytes)) :
    be32 (toSMap l).length = be32 (ofInt 32 (wrap .u32 (mapLen (some l)))) := by
  rw [mapLen_toSMap, ofInt_wrap 32 .u32 _ (by decide), be32_ofInt_nat]

/-- the optional map field and the closing STOP, shared by both structs (`tag`, `id`: the field header) -/
theorem sim_extra {ν : Type} (J : NocopyI ν) (enc : Directs → Option ν) (pre : Bytes) (n : Nat) (w : Bool)
    (ds0 : Directs) (hn : pre.length + n < 2 ^ 62) (H : NCOK J w enc)
    (id : Int) (id' : Nat) (hid : be16 id' = be16 (ofInt 16 id))
    (L : Int → Nat → List (Bytes × Bytes) → Bytes → Option ν → Int →
      GM (LoopR (Bytes × Option ν × Int) (List (Bytes × Bytes) × Bytes × Option ν × Int)))
    (h0 : ∀ base fuel b wv off, L base (fuel + 1) [] b wv off = .ok (.done ([], b, wv, off)))
    (h1 : ∀ base fuel kv rest b wv off, L base (fuel + 1) (kv :: rest) b wv off =
      gStr J kv.1 b base wv off fun b wv off =>
        gStr J kv.2 b base wv off fun b wv off => L base fuel rest b wv off)
    (extra : GoMap Bytes Bytes) (it : List (Bytes × Bytes)) (fuel : Nat) (hfuel : it.length < fuel)
    (sb : Bytes) (ds : Directs) (o : Nat) (hsb : sb.length = n) (ho : o ≤ n) (hds : w = false → ds = ds0)
    (oi : Int) (hoi : oi = (o : Int)) :
    WSim enc pre n w ds0
      (if decide (extra ≠ none) = true then
        gFB 13 id (pre ++ sb) (pre.length : Int) oi fun b off =>
          gMapBegin 11 11 (wrap .u32 (mapLen extra)) b (pre.length : Int) off fun b off =>
            (L (pre.length : Int) fuel it b (enc ds) off).bind fun t => afterLoop (pre.length : Int) t
      else gStop (pre ++ sb) (pre.length : Int) (enc ds) oi)
      (wAll ((match extra.map toSMap with
              | none => []
              | some m => [stFieldBegin 13 id', stMapBegin 11 11 m.length] ++
                  stKVs Facts.nocopyWriteThreshold w it) ++ [stStop]) (⟨sb, ds⟩, o)) := by
  cases extra with
  | none =>
    simp only [ne_eq, not_true_eq_false, decide_false, Bool.false_eq_true, if_false, Option.map_none,
      List.nil_append, wAll_cons]
    exact sim_Stop enc pre n w ds0 hn sb ds o hsb ho hds oi hoi
  | some l =>
    simp only [ne_eq, reduceCtorEq, not_false_eq_true, decide_true, if_true, Option.map_some, List.cons_append,
      List.nil_append, wAll_cons]
    refine sim_FB enc pre n w ds0 hn 13 id 13 id' (by decide) hid sb ds o hsb ho oi hoi _ _ ?_
    intro sb1 oi1 hsb1 ho1 hoi1
    refine sim_MapBegin enc pre n w ds0 hn 11 11 _ 11 11 _ (by decide) (by decide) (be32_mapLen l) sb1 ds (o + 3) hsb1 ho1
      oi1 hoi1 _ _ ?_
    intro sb2 oi2 hsb2 ho2 hoi2
    rw [wAll_append]
    have ha : (fun t => afterLoop (ν := ν) (pre.length : Int) t) =
        finishL fun s => gStop s.2.1 (pre.length : Int) s.2.2.1 s.2.2.2 := afterLoop_eq _
    rw [ha]
    refine sim_kvLoop J enc pre n w ds0 hn H (L (pre.length : Int)) (h0 _) (h1 _) _ _ it fuel sb2 ds (o + 3 + 6) oi2 hfuel
      hsb2 ho2 hds hoi2 ?_
    intro sb3 ds3 o3 oi3 hsb3 ho3 hds3 hoi3
    rw [wAll_cons]
    exact sim_Stop enc pre n w ds0 hn sb3 ds3 o3 hsb3 ho3 hds3 oi3 hoi3

theorem base_loop_h0 {ν : Type} (J : NocopyI ν) (base : Int) (fuel : Nat) (b : Bytes)
    (wv : Option ν) (off : Int) :
    Funcs.Base_FastWriteNocopy_loop1 J base (fuel + 1) [] b wv off = .ok (.done ([], b, wv, off)) := rfl

theorem base_loop_h1 {ν : Type} (J : NocopyI ν) (base : Int) (fuel : Nat) (kv : Bytes × Bytes)
    (rest : List (Bytes × Bytes)) (b : Bytes) (wv : Option ν) (off : Int) :
    Funcs.Base_FastWriteNocopy_loop1 J base (fuel + 1) (kv :: rest) b wv off =
      gStr J kv.1 b base wv off fun b wv off =>
        gStr J kv.2 b base wv off fun b wv off =>
          Funcs.Base_FastWriteNocopy_loop1 J base fuel rest b wv off := rfl

theorem resp_loop_h0 {ν : Type} (J : NocopyI ν) (base : Int) (fuel : Nat) (b : Bytes)
    (wv : Option ν) (off : Int) :
    Funcs.BaseResp_FastWriteNocopy_loop1 J base (fuel + 1) [] b wv off = .ok (.done ([], b, wv, off)) := rfl

theorem resp_loop_h1 {ν : Type} (J : NocopyI ν) (base : Int) (fuel : Nat) (kv : Bytes × Bytes)
    (rest : List (Bytes × Bytes)) (b : Bytes) (wv : Option ν) (off : Int) :
    Funcs.BaseResp_FastWriteNocopy_loop1 J base (fuel + 1) (kv :: rest) b wv off =
      gStr J kv.1 b base wv off fun b wv off =>
        gStr J kv.2 b base wv off fun b wv off =>
          Funcs.BaseResp_FastWriteNocopy_loop1 J base fuel rest b wv off := rfl

/-! # (*Base).FastWriteNocopy / FastWrite / BLength -/

/-- the receiver: `none` = the nil pointer -/
def toBaseO (p : Option Funcs.S_base_Base) : Option Base := p.map toBase
def toBaseRespO (p : Option Funcs.S_base_BaseResp) : Option BaseResp := p.map toBaseResp

theorem Base_FastWriteNocopy_sim {ν : Type} (J : NocopyI ν) (enc : Directs → Option ν) (w : Bool) (H : NCOK J w enc)
    (fuel : Nat) (it : List (Bytes × Bytes)) (p : Option Funcs.S_base_Base) (pre sb : Bytes) (hfuel : it.length < fuel)
    (hlen : (pre ++ sb).length < 2 ^ 62) :
    WSim enc pre sb.length w []
      (Funcs.Base_FastWriteNocopy J fuel it p (pre ++ sb) (pre.length : Int) (enc []))
      (fastWriteNocopyBase Facts.nocopyWriteThreshold w (toBaseO p) it sb) := by
  have hn : pre.length + sb.length < 2 ^ 62 := by simpa using hlen
  cases p with
  | none =>
    rw [Base_FastWriteNocopy_nil]
    have hm : fastWriteNocopyBase Facts.nocopyWriteThreshold w (toBaseO none) it sb =
        (stStop (⟨sb, []⟩, 0)).bind (wAll []) := by rw [bind_wAll_nil]; rfl
    rw [hm]
    exact sim_Stop enc pre sb.length w [] hn sb [] 0 rfl (by omega) (fun _ => rfl) 0 rfl
  | some p =>
    rw [Base_FastWriteNocopy_blocks]
    simp only [toBaseO, Option.map_some, fastWriteNocopyBase, toBase, stExtraH, stHdr_base0, stHdr_base1,
      stHdr_base2, stHdr_base3, List.cons_append, List.nil_append, wAll_cons]
    refine sim_FB enc pre _ w [] hn 11 1 11 1 (by decide) (by decide) sb [] 0 rfl (by omega) 0 rfl _ _ ?_
    intro sb1 oi1 hsb1 ho1 hoi1
    refine sim_Str J enc pre _ w [] hn H _ sb1 [] _ hsb1 ho1 (fun _ => rfl) oi1 hoi1 _ _ ?_
    intro sb2 ds2 k2 oi2 hsb2 ho2 hds2 hoi2
    rw [wAll_cons]
    refine sim_FB enc pre _ w [] hn 11 2 11 2 (by decide) (by decide) sb2 ds2 _ hsb2 ho2 oi2 hoi2 _ _ ?_
    intro sb3 oi3 hsb3 ho3 hoi3
    rw [wAll_cons]
    refine sim_Str J enc pre _ w [] hn H _ sb3 ds2 _ hsb3 ho3 hds2 oi3 hoi3 _ _ ?_
    intro sb4 ds4 k4 oi4 hsb4 ho4 hds4 hoi4
    rw [wAll_cons]
    refine sim_FB enc pre _ w [] hn 11 3 11 3 (by decide) (by decide) sb4 ds4 _ hsb4 ho4 oi4 hoi4 _ _ ?_
    intro sb5 oi5 hsb5 ho5 hoi5
    rw [wAll_cons]
    refine sim_Str J enc pre _ w [] hn H _ sb5 ds4 _ hsb5 ho5 hds4 oi5 hoi5 _ _ ?_
    intro sb6 ds6 k6 oi6 hsb6 ho6 hds6 hoi6
    exact sim_extra J enc pre _ w [] hn H 6 6 (by decide) (fun base => Funcs.Base_FastWriteNocopy_loop1 J base)
      (base_loop_h0 J) (base_loop_h1 J) p.Extra it fuel hfuel sb6 ds6 _ hsb6 ho6 hds6 oi6 hoi6

/-- (*Base).FastWriteNocopy(b[off:], w) on the view `(pre ++ sb, pre.length)` IS the model `fastWriteNocopyBase` on
    `sb`, for every sequence `it` the `range` over `p.Extra` visits, a nil or non-nil receiver, a nil (`w = false`) or a
    recording (`w = true`) no-copy writer: same stores behind `pre`, same direct writes, same length, same panic -/
theorem Base_FastWriteNocopy_view (e : Directs → Bytes → Int → GoErr) (w : Bool) (fuel : Nat)
    (it : List (Bytes × Bytes)) (p : Option Funcs.S_base_Base) (pre sb : Bytes) (hfuel : it.length < fuel)
    (hlen : (pre ++ sb).length < 2 ^ 62) :
    liftWN [] (Funcs.Base_FastWriteNocopy (recJ e) fuel it p (pre ++ sb) (pre.length : Int) (wOpt w [])) =
      (fastWriteNocopyBase Facts.nocopyWriteThreshold w (toBaseO p) it sb).bind fun r =>
        .ok (⟨pre ++ r.1.buf, r.1.ds⟩, r.2) :=
  (Base_FastWriteNocopy_sim (recJ e) (wOpt w) w (recJ_ok e w) fuel it p pre sb hfuel hlen).lift

theorem bind_id_ws (y : TOut (WS × Nat)) : (y.bind fun r => .ok (⟨[] ++ r.1.buf, r.1.ds⟩, r.2)) = y := by
  cases y <;> rfl

/-- `p.FastWriteNocopy(b, w)` translated from the Go source IS the model `fastWriteNocopyBase … p it b` -/
theorem Base_FastWriteNocopy_eq (e : Directs → Bytes → Int → GoErr) (w : Bool) (fuel : Nat)
    (it : List (Bytes × Bytes)) (p : Option Funcs.S_base_Base) (b : Bytes) (hfuel : it.length < fuel)
    (hlen : b.length < 2 ^ 62) :
    liftWN [] (Funcs.Base_FastWriteNocopy (recJ e) fuel it p b 0 (wOpt w [])) =
      fastWriteNocopyBase Facts.nocopyWriteThreshold w (toBaseO p) it b := by
  have h := Base_FastWriteNocopy_view e w fuel it p [] b hfuel (by simpa using hlen)
  rw [bind_id_ws] at h
  exact h

/-- outcome of a struct writer without a no-copy writer `(b', n)` from the simulation with the literal nil writer -/
theorem WSim.liftNil {pre : Bytes} {n : Nat} {x : GM (Bytes × Option Unit × Int)} {y : TOut (WS × Nat)}
    (h : WSim (fun _ => (none : Option Unit)) pre n false [] x y) :
    liftWS (x.bind fun t => .ok (t.1, t.2.2)) = y.bind fun r => .ok (⟨pre ++ r.1.buf, r.1.ds⟩, r.2) := by
  cases y with
  | ok r =>
    obtain ⟨_, _, hds, rfl⟩ := h
    obtain ⟨⟨rb, rds⟩, rn⟩ := r
    have : rds = [] := hds rfl
    subst this
    simp only [liftWS, Out.bind_ok, Int.toNat_natCast]
  | panic s => subst h; rfl
  | err te => exact h.elim
  | oob => exact h.elim

theorem Base_FastWrite_unfold (fuel : Nat) (it : List (Bytes × Bytes)) (p : Option Funcs.S_base_Base) (b : Bytes)
    (base : Int) :
    Funcs.Base_FastWrite fuel it p b base =
      (Funcs.Base_FastWriteNocopy nilNocopy fuel it p b base (none : Option Unit)).bind fun t => .ok (t.1, t.2.2) := rfl

/-- (*Base).FastWrite(b[off:]) on the view: `FastWriteNocopy(b, nil)` -/
theorem Base_FastWrite_view (fuel : Nat) (it : List (Bytes × Bytes)) (p : Option Funcs.S_base_Base) (pre sb : Bytes)
    (hfuel : it.length < fuel) (hlen : (pre ++ sb).length < 2 ^ 62) :
    liftWS (Funcs.Base_FastWrite fuel it p (pre ++ sb) (pre.length : Int)) =
      (fastWriteBase Facts.nocopyWriteThreshold (toBaseO p) it sb).bind fun r =>
        .ok (⟨pre ++ r.1.buf, r.1.ds⟩, r.2) := by
  rw [Base_FastWrite_unfold]
  exact (Base_FastWriteNocopy_sim nilNocopy (fun _ => none) false nilNocopy_ok fuel it p pre sb hfuel hlen).liftNil

/-- `p.FastWrite(b)` translated from the Go source IS the model `fastWriteBase … p it b` -/
theorem Base_FastWrite_eq (fuel : Nat) (it : List (Bytes × Bytes)) (p : Option Funcs.S_base_Base) (b : Bytes)
    (hfuel : it.length < fuel) (hlen : b.length < 2 ^ 62) :
    liftWS (Funcs.Base_FastWrite fuel it p b 0) = fastWriteBase Facts.nocopyWriteThreshold (toBaseO p) it b := by
  have h := Base_FastWrite_view fuel it p [] b hfuel (by simpa using hlen)
  rw [bind_id_ws] at h
  exact h

/-! # (*BaseResp).FastWriteNocopy / FastWrite -/

theorem BaseResp_FastWriteNocopy_sim {ν : Type} (J : NocopyI ν) (enc : Directs → Option ν) (w : Bool)
    (H : NCOK J w enc) (fuel : Nat) (it : List (Bytes × Bytes)) (p : Option Funcs.S_base_BaseResp) (pre sb : Bytes)
    (hfuel : it.length < fuel) (hlen : (pre ++ sb).length < 2 ^ 62) :
    WSim enc pre sb.length w []
      (Funcs.BaseResp_FastWriteNocopy J fuel it p (pre ++ sb) (pre.length : Int) (enc []))
      (fastWriteNocopyBaseResp Facts.nocopyWriteThreshold w (toBaseRespO p) it sb) := by
  have hn : pre.length + sb.length < 2 ^ 62 := by simpa using hlen
  cases p with
  | none =>
    rw [BaseResp_FastWriteNocopy_nil]
    have hm : fastWriteNocopyBaseResp Facts.nocopyWriteThreshold w (toBaseRespO none) it sb =
        (stStop (⟨sb, []⟩, 0)).bind (wAll []) := by rw [bind_wAll_nil]; rfl
    rw [hm]
    exact sim_Stop enc pre sb.length w [] hn sb [] 0 rfl (by omega) (fun _ => rfl) 0 rfl
  | some p =>
    rw [BaseResp_FastWriteNocopy_blocks]
    simp only [toBaseRespO, Option.map_some, fastWriteNocopyBaseResp, toBaseResp, stExtraH, stHdr_resp0, stHdr_resp1,
      stHdr_resp2, List.cons_append, List.nil_append, wAll_cons]
    refine sim_FB enc pre _ w [] hn 11 1 11 1 (by decide) (by decide) sb [] 0 rfl (by omega) 0 rfl _ _ ?_
    intro sb1 oi1 hsb1 ho1 hoi1
    refine sim_Str J enc pre _ w [] hn H _ sb1 [] _ hsb1 ho1 (fun _ => rfl) oi1 hoi1 _ _ ?_
    intro sb2 ds2 k2 oi2 hsb2 ho2 hds2 hoi2
    rw [wAll_cons]
    refine sim_FB enc pre _ w [] hn 8 2 8 2 (by decide) (by decide) sb2 ds2 _ hsb2 ho2 oi2 hoi2 _ _ ?_
    intro sb3 oi3 hsb3 ho3 hoi3
    rw [wAll_cons]
    refine sim_I32 enc pre _ w [] hn (wrap .u32 p.StatusCode) p.StatusCode
      (by rw [ofInt_wrap 32 .u32 _ (by decide)]) sb3 ds2 _ hsb3 ho3 oi3 hoi3 _ _ ?_
    intro sb4 oi4 hsb4 ho4 hoi4
    exact sim_extra J enc pre _ w [] hn H 3 3 (by decide) (fun base => Funcs.BaseResp_FastWriteNocopy_loop1 J base)
      (resp_loop_h0 J) (resp_loop_h1 J) p.Extra it fuel hfuel sb4 ds2 _ hsb4 ho4 hds2 oi4 hoi4

/-- (*BaseResp).FastWriteNocopy(b[off:], w) on the view `(pre ++ sb, pre.length)` IS the model on `sb` -/
theorem BaseResp_FastWriteNocopy_view (e : Directs → Bytes → Int → GoErr) (w : Bool) (fuel : Nat)
    (it : List (Bytes × Bytes)) (p : Option Funcs.S_base_BaseResp) (pre sb : Bytes) (hfuel : it.length < fuel)
    (hlen : (pre ++ sb).length < 2 ^ 62) :
    liftWN [] (Funcs.BaseResp_FastWriteNocopy (recJ e) fuel it p (pre ++ sb) (pre.length : Int) (wOpt w [])) =
      (fastWriteNocopyBaseResp Facts.nocopyWriteThreshold w (toBaseRespO p) it sb).bind fun r =>
        .ok (⟨pre ++ r.1.buf, r.1.ds⟩, r.2) :=
  (BaseResp_FastWriteNocopy_sim (recJ e) (wOpt w) w (recJ_ok e w) fuel it p pre sb hfuel hlen).lift

/-- `p.FastWriteNocopy(b, w)` translated from the Go source IS the model `fastWriteNocopyBaseResp … p it b` -/
theorem BaseResp_FastWriteNocopy_eq (e : Directs → Bytes → Int → GoErr) (w : Bool) (fuel : Nat)
    (it : List (Bytes × Bytes)) (p : Option Funcs.S_base_BaseResp) (b : Bytes) (hfuel : it.length < fuel)
    (hlen : b.length < 2 ^ 62) :
    liftWN [] (Funcs.BaseResp_FastWriteNocopy (recJ e) fuel it p b 0 (wOpt w [])) =
      fastWriteNocopyBaseResp Facts.nocopyWriteThreshold w (toBaseRespO p) it b := by
  have h := BaseResp_FastWriteNocopy_view e w fuel it p [] b hfuel (by simpa using hlen)
  rw [bind_id_ws] at h
  exact h

theorem BaseResp_FastWrite_unfold (fuel : Nat) (it : List (Bytes × Bytes)) (p : Option Funcs.S_base_BaseResp)
    (b : Bytes) (base : Int) :
    Funcs.BaseResp_FastWrite fuel it p b base =
      (Funcs.BaseResp_FastWriteNocopy nilNocopy fuel it p b base (none : Option Unit)).bind fun t =>
        .ok (t.1, t.2.2) := rfl

theorem BaseResp_FastWrite_view (fuel : Nat) (it : List (Bytes × Bytes)) (p : Option Funcs.S_base_BaseResp)
    (pre sb : Bytes) (hfuel : it.length < fuel) (hlen : (pre ++ sb).length < 2 ^ 62) :
    liftWS (Funcs.BaseResp_FastWrite fuel it p (pre ++ sb) (pre.length : Int)) =
      (fastWriteBaseResp Facts.nocopyWriteThreshold (toBaseRespO p) it sb).bind fun r =>
        .ok (⟨pre ++ r.1.buf, r.1.ds⟩, r.2) := by
  rw [BaseResp_FastWrite_unfold]
  exact (BaseResp_FastWriteNocopy_sim nilNocopy (fun _ => none) false nilNocopy_ok fuel it p pre sb hfuel
    hlen).liftNil

/-- `p.FastWrite(b)` translated from the Go source IS the model `fastWriteBaseResp … p it b` -/
theorem BaseResp_FastWrite_eq (fuel : Nat) (it : List (Bytes × Bytes)) (p : Option Funcs.S_base_BaseResp) (b : Bytes)
    (hfuel : it.length < fuel) (hlen : b.length < 2 ^ 62) :
    liftWS (Funcs.BaseResp_FastWrite fuel it p b 0) =
      fastWriteBaseResp Facts.nocopyWriteThreshold (toBaseRespO p) it b := by
  have h := BaseResp_FastWrite_view fuel it p [] b hfuel (by simpa using hlen)
  rw [bind_id_ws] at h
  exact h

/-! # BLength -/

theorem blenKVs_ge (it : SMap) (off : Nat) : off ≤ blenKVs it off := by
  induction it generalizing off with
  | nil => exact Nat.le_refl _
  | cons kv r ih =>
    obtain ⟨k, v⟩ := kv
    have := ih (off + (4 + k.length) + (4 + v.length))
    simp only [blenKVs]; omega

/-- any function with the two defining equations of the generated BLength loop computes `blenKVs` -/
theorem blen_loop
    (L : Nat → List (Bytes × Bytes) → Int → GM (LoopR Int (List (Bytes × Bytes) × Int)))
    (h0 : ∀ fuel off, L (fuel + 1) [] off = .ok (.done ([], off)))
    (h1 : ∀ fuel kv rest off, L (fuel + 1) (kv :: rest) off =
      L fuel rest (wrap .i64 (wrap .i64 (off + wrap .i64 (4 + len kv.1)) + wrap .i64 (4 + len kv.2)))) :
    ∀ (it : List (Bytes × Bytes)) (fuel : Nat) (off : Nat) (oi : Int), it.length < fuel → blenKVs it off < 2 ^ 62 →
      oi = (off : Int) → L fuel it oi = .ok (.done ([], ((blenKVs it off : Nat) : Int))) := by
  intro it
  induction it with
  | nil =>
    intro fuel off oi hf _ hoi
    subst hoi
    obtain ⟨fuel, rfl⟩ : ∃ k, fuel = k + 1 := ⟨fuel - 1, by simp at hf; omega⟩
    rw [h0]; rfl
  | cons kv rest ih =>
    intro fuel off oi hf hb hoi
    subst hoi
    obtain ⟨fuel, rfl⟩ : ∃ k, fuel = k + 1 := ⟨fuel - 1, by simp at hf; omega⟩
    obtain ⟨k, v⟩ := kv
    have hge := blenKVs_ge rest (off + (4 + k.length) + (4 + v.length))
    simp only [blenKVs] at hb
    have e : wrap .i64 (wrap .i64 ((off : Int) + wrap .i64 (4 + len k)) + wrap .i64 (4 + len v)) =
        ((off + (4 + k.length) + (4 + v.length) : Nat) : Int) := by
      unfold len
      rw [wrap_i64_of_range (4 + (k.length : Int)) (by omega) (by omega),
        wrap_i64_of_range (4 + (v.length : Int)) (by omega) (by omega),
        wrap_i64_of_range ((off : Int) + (4 + (k.length : Int))) (by omega) (by omega),
        wrap_i64_of_range _ (by omega) (by omega)]
      omega
    rw [h1, e, ih fuel _ _ (by simp at hf; omega) hb rfl]
    rfl

/-- `p.BLength()` translated from the Go source IS the model `bLengthBase p it`, for every visited sequence `it`
    (as long as the sum fits a Go `int` with room to spare) -/
theorem Base_BLength_eq (fuel : Nat) (it : List (Bytes × Bytes)) (p : Option Funcs.S_base_Base)
    (hfuel : it.length < fuel) (hb : bLengthBase (toBaseO p) it < 2 ^ 62) :
    Funcs.Base_BLength fuel it p = .ok ((bLengthBase (toBaseO p) it : Nat) : Int) := by
  cases p with
  | none => rfl
  | some p =>
    unfold Funcs.Base_BLength
    simp only [toBaseO, Option.map_some, bLengthBase, toBase, blenExtra] at hb ⊢
    cases hx : p.Extra with
    | none =>
      simp only [hx, Option.map_none] at hb ⊢
      unfold len
      go_simp [derefP, hx, wrap_i64_of_range]
    | some l =>
      simp only [hx, Option.map_some, Nat.zero_add] at hb ⊢
      generalize hN : 3 + (4 + p.LogID.length) + 3 + (4 + p.Caller.length) + 3 + (4 + p.Addr.length) + 3 + 6 = N
        at hb ⊢
      have hge := blenKVs_ge it N
      unfold len
      go_simp [derefP, hx, wrap_i64_of_range]
      rw [blen_loop Funcs.Base_BLength_loop1 (fun _ _ => rfl) (fun _ _ _ _ => rfl) it fuel N _ hfuel (by omega)
        (by omega)]
      simp only [Out.bind_ok]
      rw [wrap_i64_of_range _ (by omega) (by omega)]

/-- `p.BLength()` of a `*BaseResp` IS the model `bLengthBaseResp p it` -/
theorem BaseResp_BLength_eq (fuel : Nat) (it : List (Bytes × Bytes)) (p : Option Funcs.S_base_BaseResp)
    (hfuel : it.length < fuel) (hb : bLengthBaseResp (toBaseRespO p) it < 2 ^ 62) :
    Funcs.BaseResp_BLength fuel it p = .ok ((bLengthBaseResp (toBaseRespO p) it : Nat) : Int) := by
  cases p with
  | none => rfl
  | some p =>
    unfold Funcs.BaseResp_BLength
    simp only [toBaseRespO, Option.map_some, bLengthBaseResp, toBaseResp, blenExtra] at hb ⊢
    cases hx : p.Extra with
    | none =>
      simp only [hx, Option.map_none] at hb ⊢
      unfold len
      go_simp [derefP, hx, wrap_i64_of_range]
    | some l =>
      simp only [hx, Option.map_some, Nat.zero_add] at hb ⊢
      generalize hN : 3 + (4 + p.StatusMessage.length) + 3 + 4 + 3 + 6 = N at hb ⊢
      have hge := blenKVs_ge it N
      unfold len
      go_simp [derefP, hx, wrap_i64_of_range]
      rw [blen_loop Funcs.BaseResp_BLength_loop1 (fun _ _ => rfl) (fun _ _ _ _ => rfl) it fuel N _ hfuel (by omega)
        (by omega)]
      simp only [Out.bind_ok]
      rw [wrap_i64_of_range _ (by omega) (by omega)]

/-! ## the generated functions compute (non-vacuity) -/

/-- a `Base` with a 2-entry `Extra`, written with the entries visited in either order (no no-copy writer) -/
example : Funcs.Base_FastWrite 5 [([107], [118]), ([75], [86, 86])]
    (some ⟨[65], [], [66, 67], some [([75], [86, 86]), ([107], [118])]⟩) (List.replicate 59 9) 0 =
    .ok ([11, 0, 1, 0, 0, 0, 1, 65,  11, 0, 2, 0, 0, 0, 0,  11, 0, 3, 0, 0, 0, 2, 66, 67,
          13, 0, 6, 11, 11, 0, 0, 0, 2,  0, 0, 0, 1, 107, 0, 0, 0, 1, 118,  0, 0, 0, 1, 75, 0, 0, 0, 2, 86, 86,  0,
          9, 9, 9, 9], 55) := by decide +kernel
example : Funcs.Base_FastWrite 5 [([75], [86, 86]), ([107], [118])]
    (some ⟨[65], [], [66, 67], some [([75], [86, 86]), ([107], [118])]⟩) (List.replicate 59 9) 0 =
    .ok ([11, 0, 1, 0, 0, 0, 1, 65,  11, 0, 2, 0, 0, 0, 0,  11, 0, 3, 0, 0, 0, 2, 66, 67,
          13, 0, 6, 11, 11, 0, 0, 0, 2,  0, 0, 0, 1, 75, 0, 0, 0, 2, 86, 86,  0, 0, 0, 1, 107, 0, 0, 0, 1, 118,  0,
          9, 9, 9, 9], 55) := by decide +kernel
-- the same through the model
example : (fastWriteBase Facts.nocopyWriteThreshold (some ⟨[65], [], [66, 67], some [([75], [86, 86]), ([107], [118])]⟩)
    [([107], [118]), ([75], [86, 86])] (List.replicate 59 9)).bind (fun r => .ok (r.1.buf.take 55, r.1.ds, r.2)) =
    .ok ([11, 0, 1, 0, 0, 0, 1, 65,  11, 0, 2, 0, 0, 0, 0,  11, 0, 3, 0, 0, 0, 2, 66, 67,
          13, 0, 6, 11, 11, 0, 0, 0, 2,  0, 0, 0, 1, 107, 0, 0, 0, 1, 118,  0, 0, 0, 1, 75, 0, 0, 0, 2, 86, 86,  0], [], 55) := by
  decide +kernel
example : Funcs.Base_BLength 5 [([107], [118]), ([75], [86, 86])]
    (some ⟨[65], [], [66, 67], some [([75], [86, 86]), ([107], [118])]⟩) = .ok 55 := by decide +kernel
-- a key stored twice in the association list counts once (`len(p.Extra)` = 1 in the map header)
example : Funcs.Base_FastWrite 5 [([75], [1])] (some ⟨[], [], [], some [([75], [1]), ([75], [2])]⟩)
    (List.replicate 41 9) 0 =
    .ok ([11, 0, 1, 0, 0, 0, 0,  11, 0, 2, 0, 0, 0, 0,  11, 0, 3, 0, 0, 0, 0,
          13, 0, 6, 11, 11, 0, 0, 0, 1,  0, 0, 0, 1, 75, 0, 0, 0, 1, 1,  0], 41) := by decide +kernel
-- a nil receiver: the empty struct
example : Funcs.Base_FastWrite 1 [] none [9, 9] 1 = .ok ([9, 0], 1) := by decide +kernel
example : Funcs.Base_BLength 1 [] none = .ok 1 := by decide +kernel
example : Funcs.BaseResp_FastWriteNocopy nilNocopy 1 [] none [9] 0 none = .ok ([0], none, 1) := by decide +kernel
-- a buffer that is too short: the index panic of the first store that does not fit
example : Funcs.Base_FastWrite 5 [] (some ⟨[65], [], [], none⟩) (List.replicate 21 9) 0 = .panic "index" := by
  decide +kernel
example : (fastWriteBase Facts.nocopyWriteThreshold (some ⟨[65], [], [], none⟩) [] (List.replicate 21 9)).bind
    (fun r => .ok r.2) = .panic "index" := by decide +kernel
-- the loop runs out of fuel (an artefact of the translation, excluded by `it.length < fuel`)
example : Funcs.Base_BLength 1 [([107], [118])] (some ⟨[], [], [], some [([107], [118])]⟩) = .panic "nofuel" := by
  decide +kernel
-- BaseResp with a status code, a real no-copy writer and a short string: everything inline, nothing recorded
example : Funcs.BaseResp_FastWriteNocopy (recJ fun _ _ _ => .named "ignored") 3 [([75], [86])]
    (some ⟨[79, 75], -2, some [([75], [86])]⟩) (List.replicate 36 9) 0 (some []) =
    .ok ([11, 0, 1, 0, 0, 0, 2, 79, 75,  8, 0, 2, 255, 255, 255, 254,
          13, 0, 3, 11, 11, 0, 0, 0, 1,  0, 0, 0, 1, 75, 0, 0, 0, 1, 86,  0], some [], 36) := by decide +kernel
-- WriteStringNocopy at the threshold: 4096 bytes go to the writer with remainCap = len(buf[4:]), 4095 are copied
example : (Funcs.Binary_WriteStringNocopy (recJ fun _ _ _ => .named "ignored") (List.replicate 10 9) 2 (some [])
    (List.replicate 4096 7)).bind (fun r => .ok (r.1, r.2.1.map (fun ds => ds.map (fun d => (d.1.length, d.2))), r.2.2)) =
    .ok ([9, 9, 0, 0, 16, 0, 9, 9, 9, 9], some [(4096, 4)], 4) := by decide +kernel
example : (Funcs.Binary_WriteBinaryNocopy (recJ fun _ _ _ => .nil) (List.replicate 10 9) 2 (some [])
    (List.replicate 4095 7)).bind (fun r => .ok (r.1, r.2.1, r.2.2)) =
    .ok ([9, 9, 0, 0, 15, 255, 7, 7, 7, 7], some [], 8) := by decide +kernel
-- a nil writer that the code would have to call cannot happen (w == nil takes the copying branch)
example : (Funcs.Binary_WriteStringNocopy nilNocopy (List.replicate 6 9) 0 none (List.replicate 4096 7)).bind
    (fun r => .ok (r.1, r.2.2)) = .ok ([0, 0, 16, 0, 7, 7], 6) := by decide +kernel

end Verif.FuncsEq

/-
  Lemmas/Funcs/StreamSkip: `(*BufferReader).Skip` / `skipType` (self-recursive, three `for` loops) / `skipstr` / `skipn` / `next`
  TRANSLATED from protocol/thrift/bufferreader.go (`Verif.Funcs.BR_Skip`, `BR_skipType[_loop1/2/3]`, `BR_skipstr`, `BR_skipn`,
  `BR_next` over an abstract `bufiox.Reader` `ReaderI ρ`: generated) instantiated at the reader MODEL `iOfRd … : ReaderI Rd`
  (Lemmas/Funcs/RdI.lean) ARE the hand-written stream skipper of Model/SkipStream.lean (`skipBR`, `skipBRAt`, `brSkipStr`,
  `brSkipn`, `brNext`; loops `brMapLoop`, `brListLoop`, `brStructLoop`).

    BR_Skip_eq : Inv r → |remaining r| + ri + 2^35 ≤ 2^63 → |remaining r| + 66 ≤ fuel →
        liftBR N.absE (Funcs.BR_Skip (iOfRd (fun e => N.errOf (.raw e))) fuel r (toI8 t.toNat)) = skipBR t r

  * the lift `liftBR` carries the final reader state, sends a returned Go error to the model error (`N.absE`) — the model
    drops the reader state next to an error, so does the lift — and carries panics / oob over with their kind.
  * errors: an `ErrNaming` `N` (Lemmas/Funcs/Tpl.lean) that names a WRAPPED reader error as `GoSem.wrapErr` does
    (`hw : wrapErr (N.errOf (.raw e)) = N.errOf (.wrap e)`); `stdNaming` is one (`BR_Skip_eq_std`).
  * `BR_next`, `BR_skipn`, `BR_skipstr` need NO hypothesis on the reader: the model mirrors the Go methods case by case
    (`fail none` = `(nil, nil)` goes on with a nil slice on both sides, the reader model's `nofuel` is `panic "nofuel"` on both).
  * fuel: the translation has ONE fuel for the recursion and for its three loops; the model's STRUCT loop has its own
    (`r.avail + 1`) and its counted loops run `sz < 2^31` times.  The two sides agree because every successful step CONSUMES:
    under the reader invariant `Inv` and with requests in the range `Rd.Small` in which the reader model is well behaved, a
    successful `Next(n)` / `Skip(n)` (n ≤ 2^35, the largest request `skipType` makes: `(2^31 - 1) * 16`) lowers
    `|remaining|` by exactly n and never returns `(nil, nil)`  (`rd_meas`, from `next_cases` / `skip_cases` of
    Lemmas/ReaderOps).  Then every successful `skipBRAt` consumes ≥ 1 (`skipBRAt_dec`), every loop runs at most `|remaining|`
    times, and `|remaining| + depth + 2` is enough fuel (the proof is over an abstract measure `RMeas μ P`).

  Theorems: `BR_skipstr_eq`, `BR_skipType_eq` (every depth), `BR_Skip_eq`, `BR_Skip_eq_std` at top level; `SSkip.BR_next_eq`,
  `SSkip.BR_skipn_eq` (the top-level names `BR_next_eq` / `BR_skipn_eq` belong to Lemmas/Funcs/StreamR.lean); every helper
  lives in the namespace `Verif.FuncsEq.SSkip`.

  Structure (as Lemmas/Funcs/Tpl.lean): `BSim` (same outcome); the loops ABSTRACTLY — `mloop_sim` / `lloop_sim` / `sloop_sim` are
  about ANY function `L` satisfying the loop's step equation (elements in the form `elemB` / `elemF`, counter described by the
  number of REMAINING iterations: `Counter`, instances `counter_up` and `counter_down`), by induction on the fuel under
  `RecOK`; `map_case` / `list_case` / `struct_case` / `skipType_sim` by induction on the depth.  Robustness against harmless
  reshaping of the Go source: no statement mentions a generated loop function (their names follow the source order and their
  parameter lists change with a counter direction or a hoisted `maxdepth-1`): at the use site `L` is found by unification,
  the step equation is proved by `unfold_loop`, a case split on the semantic conditions and `simp`; the if-chains are resolved
  by semantic case splits with all tag facts given to `simp only` (any clause order); size products up to commutativity.
-/
import Verif.Lemmas.Funcs.Tpl
import Verif.Lemmas.Funcs.RdI
set_option linter.unusedSimpArgs false
set_option linter.unusedVariables false
namespace Verif.FuncsEq
open Verif Verif.GoSem

/-- result `(r, err)` of a translated `BufferReader` method without a value, as the model's `RM Unit` outcome: the reader
    state is carried, a non-nil Go error is the model error `absE err` (the model keeps no state next to an error) -/
def liftBR (absE : GoErr → TErr) (x : GM (Rd × GoErr)) : TOut (Unit × Rd) :=
  match x with
  | .ok r => if r.2 = GoErr.nil then .ok ((), r.1) else .err (absE r.2)
  | .panic s => .panic s
  | .oob => .oob
  | .err e => nomatch e

namespace SSkip

/-- result `(r, v, err)` of a translated `BufferReader` method with a value, as the model's `RM α` outcome -/
def liftBRv {α : Type} (absE : GoErr → TErr) (x : GM (Rd × α × GoErr)) : TOut (α × Rd) :=
  match x with
  | .ok r => if r.2.2 = GoErr.nil then .ok (r.2.1, r.1) else .err (absE r.2.2)
  | .panic s => .panic s
  | .oob => .oob
  | .err e => nomatch e

/-- the reader interface value the theorems are about: a raw reader error `e` is the Go value `N.errOf (.raw e)` -/
abbrev rdI (N : ErrNaming) : ReaderI Rd := iOfRd (fun e => N.errOf (.raw e))

/-- `N` names a wrapped reader error as `NewProtocolExceptionWithErr` (`GoSem.wrapErr`) renders it -/
def WrapOK (N : ErrNaming) : Prop := ∀ e : RErr, wrapErr (N.errOf (.raw e)) = N.errOf (.wrap e)

theorem wrapOK_std : WrapOK stdNaming := fun _ => rfl

/-! ## the simulation relation -/

/-- `x` (translation) and `y` (model) are the same outcome, final reader state included -/
inductive BSim (N : ErrNaming) : GM (Rd × GoErr) → TOut (Unit × Rd) → Prop where
  | ok (r : Rd) : BSim N (.ok (r, GoErr.nil)) (.ok ((), r))
  | err (r : Rd) (e : GoErr) (h : e ≠ GoErr.nil) : BSim N (.ok (r, e)) (.err (N.absE e))
  | panic (m : String) : BSim N (.panic m) (.panic m)
  | oob : BSim N .oob .oob

theorem BSim.lift {N : ErrNaming} {x : GM (Rd × GoErr)} {y : TOut (Unit × Rd)} (h : BSim N x y) :
    liftBR N.absE x = y := by
  cases h <;> simp [liftBR, *]

theorem BSim.berr (N : ErrNaming) (r : Rd) (e : TErr) : BSim N (.ok (r, N.errOf e)) (.err e) := by
  have := BSim.err (N := N) r (N.errOf e) (N.ne_nil e)
  rwa [N.inv] at this

theorem BSim.perr (N : ErrNaming) (r : Rd) (id : Int) (msg : String) :
    BSim N (.ok (r, GoErr.pe id msg)) (.err (TErr.pe id)) := by
  have := BSim.err (N := N) r (GoErr.pe id msg) (by simp)
  rwa [N.pe] at this

/-- the same for a method with a value -/
inductive VSim {α : Type} (N : ErrNaming) : GM (Rd × α × GoErr) → TOut (α × Rd) → Prop where
  | ok (r : Rd) (a : α) : VSim N (.ok (r, a, GoErr.nil)) (.ok (a, r))
  | err (r : Rd) (a : α) (e : GoErr) (h : e ≠ GoErr.nil) : VSim N (.ok (r, a, e)) (.err (N.absE e))
  | panic (m : String) : VSim N (.panic m) (.panic m)
  | oob : VSim N .oob .oob

theorem VSim.lift {α : Type} {N : ErrNaming} {x : GM (Rd × α × GoErr)} {y : TOut (α × Rd)} (h : VSim N x y) :
    liftBRv N.absE x = y := by
  cases h <;> simp [liftBRv, *]

theorem VSim.berr {α : Type} (N : ErrNaming) (r : Rd) (a : α) (e : TErr) : VSim N (.ok (r, a, N.errOf e)) (.err e) := by
  have := VSim.err (N := N) r a (N.errOf e) (N.ne_nil e)
  rwa [N.inv] at this

/-! ## `next`, `skipn`, `ReadI32`, `skipstr`: no hypothesis on the reader -/

theorem next_sim (N : ErrNaming) (hw : WrapOK N) (r : Rd) (n : Int) :
    VSim N (Funcs.BR_next (rdI N) r n) (brNext n r) := by
  unfold Funcs.BR_next brNext
  simp only [rdI, iOfRd]
  generalize r.next n = x
  obtain ⟨res, r'⟩ := x
  cases res with
  | ok b => simp [resI]; exact VSim.ok _ _
  | fail e =>
    cases e with
    | none => simp [resI]; exact VSim.ok _ _
    | some e =>
      simp [resI, N.ne_nil, hw e]
      exact VSim.berr N _ _ _
  | nofuel => exact VSim.panic _

theorem skipn_sim (N : ErrNaming) (hw : WrapOK N) (r : Rd) (n : Int) :
    BSim N (Funcs.BR_skipn (rdI N) r n) (brSkipn n r) := by
  unfold Funcs.BR_skipn brSkipn
  by_cases hn : n < 0
  · simp only [hn, decide_true, if_true, Out.pure_eq]
    exact BSim.perr N _ _ _
  · simp only [hn, decide_false, if_false, Bool.false_eq_true, rdI, iOfRd]
    generalize r.skip n = x
    obtain ⟨res, r'⟩ := x
    cases res with
    | ok b => simp; exact BSim.ok _
    | fail e =>
      cases e with
      | none => simp; exact BSim.ok _
      | some e =>
        simp [N.ne_nil, hw e]
        exact BSim.berr N _ _
    | nofuel => exact BSim.panic _

theorem readI32_sim (N : ErrNaming) (hw : WrapOK N) (r : Rd) :
    VSim N (Funcs.BR_ReadI32 (rdI N) r) (brReadI32 r) := by
  unfold Funcs.BR_ReadI32 brReadI32
  have hs := next_sim N hw r 4
  generalize Funcs.BR_next (rdI N) r 4 = x at hs ⊢
  generalize brNext 4 r = y at hs ⊢
  cases hs with
  | ok r1 b =>
    simp only [Out.bind_eq, Out.bind_ok, ne_eq, not_true_eq_false, decide_false, if_false, Bool.false_eq_true,
      Tpl.beU32_eq, u32of]
    by_cases h4 : 4 ≤ b.length
    · simp only [h4, if_true, Out.bind_ok, Out.pure_eq, wrap_i32_nat _ (rd32_lt b)]
      exact VSim.ok _ _
    · simp only [h4, if_false, Out.bind_panic]
      exact VSim.panic _
  | err r1 b e h =>
    simp only [Out.bind_eq, Out.bind_ok, Out.bind_err, ne_eq, h, not_false_eq_true, decide_true, if_true, Out.pure_eq]
    exact VSim.err _ _ e h
  | panic m => exact VSim.panic m
  | oob => exact VSim.oob

/-- closes a simulation goal whose two sides are already outcomes -/
macro "bsim_close" : tactic => `(tactic| first
  | exact BSim.ok _ | exact BSim.panic _ | exact BSim.oob | exact BSim.perr _ _ _ _
  | (apply BSim.err; assumption))

theorem skipstr_sim (N : ErrNaming) (hw : WrapOK N) (r : Rd) :
    BSim N (Funcs.BR_skipstr (rdI N) r) (brSkipStr r) := by
  unfold Funcs.BR_skipstr brSkipStr
  have hs := readI32_sim N hw r
  generalize Funcs.BR_ReadI32 (rdI N) r = x at hs ⊢
  generalize brReadI32 r = y at hs ⊢
  cases hs with
  | ok r1 n =>
    simp only [Out.bind_eq, Out.bind_ok]
    have h2 := skipn_sim N hw r1 n
    generalize hx2 : Funcs.BR_skipn (rdI N) r1 n = x2 at h2
    generalize hy2 : brSkipn n r1 = y2 at h2
    cases h2 with
    | ok r2 => simp [hx2, hy2]; bsim_close
    | err r2 e h => simp [hx2, hy2, h]; bsim_close
    | panic m => simp [hx2, hy2]; bsim_close
    | oob => simp [hx2, hy2]; bsim_close
  | err r1 n e h => simp [h]; bsim_close
  | panic m => exact BSim.panic m
  | oob => exact BSim.oob

/-! ## the generated loops, abstractly

  The loop functions the translator generates change their SIGNATURE when the Go source is refactored harmlessly (a counter
  that runs down needs no bound parameter, a hoisted `maxdepth-1` is passed instead of `maxdepth`).  The loop lemmas are
  therefore stated about ANY function `L` that satisfies the loop's step equation (what one iteration does to the state:
  element(s), early return on error, counter step), with the counter described by the number of iterations that REMAIN
  (`Counter`: count-up `j < sz, j++` and count-down `left > 0, left--` are two instances).  At the use site `L` is found by
  unification and the step equation is proved by unfolding the generated function, case split on the semantic conditions,
  `simp`. -/

/-- the element step that the translated loops inline: fixed size, `skipstr`, or the recursive call at depth `dep` -/
def elemB {ρ : Type} (I : ReaderI ρ) (rec : ρ → Int → Int → GM (ρ × GoErr)) (dep t sz : Int) (r : ρ) : GM (ρ × GoErr) :=
  if sz > 0 then Funcs.BR_skipn I r sz
  else if t = 11 then Funcs.BR_skipstr I r
  else rec r t dep

/-- the field value step of the STRUCT loop: fixed size or the recursive call -/
def elemF {ρ : Type} (I : ReaderI ρ) (rec : ρ → Int → Int → GM (ρ × GoErr)) (dep t sz : Int) (r : ρ) : GM (ρ × GoErr) :=
  if sz > 0 then Funcs.BR_skipn I r sz else rec r t dep

/-- a loop counter: on the values `J` it takes, the loop goes on (`cont`) iff iterations remain, and the step `next` lowers
    the number `left` of remaining iterations by one -/
structure Counter (J : Int → Prop) (cont : Int → Prop) (next : Int → Int) (left : Int → Nat) : Prop where
  cont_iff : ∀ j, J j → (cont j ↔ 0 < left j)
  step : ∀ j, J j → 0 < left j → J (next j) ∧ left (next j) + 1 = left j

/-- `for j := 0; j < sz; j++` -/
theorem counter_up (sz : Nat) (hsz : sz < 2 ^ 31) :
    Counter (fun j => 0 ≤ j ∧ j ≤ (sz : Int)) (fun j => j < (sz : Int)) (fun j => wrap .i64 (j + 1))
      (fun j => ((sz : Int) - j).toNat) := by
  constructor
  · intro j hj; omega
  · intro j hj hl
    rw [wrap_i64_of_range _ (by omega) (by omega)]; omega

/-- `for left := sz; left > 0; left--` -/
theorem counter_down (sz : Nat) (hsz : sz < 2 ^ 31) :
    Counter (fun j => 0 ≤ j ∧ j ≤ (sz : Int)) (fun j => j > 0) (fun j => wrap .i64 (j - 1)) (fun j => j.toNat) := by
  constructor
  · intro j hj; omega
  · intro j hj hl
    rw [wrap_i64_of_range _ (by omega) (by omega)]; omega

theorem wrap_mul_small (a b : Int) (ha0 : 0 ≤ a) (ha : a < 2147483648) (hb0 : 0 ≤ b) (hb : b ≤ 16) :
    wrap .i64 (a * b) = a * b := by
  have h1 : a * b ≤ 2147483648 * 16 := Int.mul_le_mul (by omega) hb hb0 (by omega)
  have h2 : 0 ≤ a * b := Int.mul_nonneg ha0 hb0
  exact wrap_i64_of_range _ (by omega) (by omega)

theorem wrap_mul_small' (a b : Int) (ha0 : 0 ≤ a) (ha : a < 2147483648) (hb0 : 0 ≤ b) (hb : b ≤ 16) :
    wrap .i64 (b * a) = b * a := by
  rw [Int.mul_comm]; exact wrap_mul_small a b ha0 ha hb0 hb

/-! ## the model consumes: a measure of what the reader still owes -/

/-- under the reader invariant `P`, a request `0 ≤ n ≤ 2^35` to `Next` / `Skip` either succeeds and lowers the measure by
    at least `n` (keeping `P`), or fails with a NON-nil error (never `(nil, nil)`, never the model's own `nofuel`);
    the measure is at most what the model's STRUCT loop takes as its fuel -/
structure RMeas (μ : Rd → Nat) (P : Rd → Prop) : Prop where
  next : ∀ r (n : Int), P r → 0 ≤ n → n ≤ 34359738368 →
    (∃ b r', r.next n = (.ok b, r') ∧ P r' ∧ μ r' + n.toNat ≤ μ r) ∨ (∃ e r', r.next n = (.fail (some e), r'))
  skip : ∀ r (n : Int), P r → 0 ≤ n → n ≤ 34359738368 →
    (∃ b r', r.skip n = (.ok b, r') ∧ P r' ∧ μ r' + n.toNat ≤ μ r) ∨ (∃ e r', r.skip n = (.fail (some e), r'))
  le_avail : ∀ r, P r → μ r ≤ r.avail

section dec
variable {μ : Rd → Nat} {P : Rd → Prop}

theorem brNext_dec (hM : RMeas μ P) {r : Rd} {n : Int} {b : Bytes} {r' : Rd} (hp : P r) (h0 : 0 ≤ n)
    (hn : n ≤ 34359738368) (h : brNext n r = .ok (b, r')) : P r' ∧ μ r' + n.toNat ≤ μ r := by
  rcases hM.next r n hp h0 hn with ⟨b1, r1, hx, hp1, hd⟩ | ⟨e, r1, hx⟩
  · simp only [brNext, hx, Out.ok.injEq, Prod.mk.injEq] at h
    obtain ⟨_, rfl⟩ := h
    exact ⟨hp1, hd⟩
  · simp [brNext, hx] at h

theorem brSkipn_dec (hM : RMeas μ P) {r : Rd} {n : Int} {u : Unit} {r' : Rd} (hp : P r)
    (hn : n ≤ 34359738368) (h : brSkipn n r = .ok (u, r')) : P r' ∧ μ r' + n.toNat ≤ μ r := by
  by_cases hn0 : n < 0
  · simp [brSkipn, hn0] at h
  · rcases hM.skip r n hp (by omega) hn with ⟨b1, r1, hx, hp1, hd⟩ | ⟨e, r1, hx⟩
    · simp only [brSkipn, hn0, if_false, hx, Out.ok.injEq, Prod.mk.injEq] at h
      obtain ⟨_, rfl⟩ := h
      exact ⟨hp1, hd⟩
    · simp [brSkipn, hn0, hx] at h

theorem u32of_lt {b : Bytes} {v : Nat} (h : u32of b = .ok v) : v < 4294967296 := by
  unfold u32of at h
  by_cases h4 : 4 ≤ b.length
  · simp only [h4, if_true, Out.ok.injEq] at h
    subst h; exact rd32_lt b
  · simp [h4] at h

theorem brReadI32_dec (hM : RMeas μ P) {r : Rd} {v : Int} {r' : Rd} (hp : P r) (h : brReadI32 r = .ok (v, r')) :
    P r' ∧ μ r' + 4 ≤ μ r ∧ v < 2147483648 := by
  simp only [brReadI32, Out.bind_eq] at h
  obtain ⟨⟨b, r1⟩, h1, h2⟩ := Tpl.bind_ok_inv h
  obtain ⟨w, hw, h3⟩ := Tpl.bind_ok_inv h2
  obtain ⟨hp1, hd1⟩ := brNext_dec hM hp (by omega) (by omega) h1
  simp only [Out.pure_eq, Out.ok.injEq, Prod.mk.injEq] at h3
  obtain ⟨rfl, rfl⟩ := h3
  have := toI32_range w (u32of_lt hw)
  have e4 : (4 : Int).toNat = 4 := rfl
  rw [e4] at hd1
  exact ⟨hp1, hd1, this.2⟩

theorem brSkipStr_dec (hM : RMeas μ P) {r : Rd} {u : Unit} {r' : Rd} (hp : P r) (h : brSkipStr r = .ok (u, r')) :
    P r' ∧ μ r' + 4 ≤ μ r := by
  simp only [brSkipStr, Out.bind_eq] at h
  obtain ⟨⟨n, r1⟩, h1, h2⟩ := Tpl.bind_ok_inv h
  obtain ⟨hp1, hd1, hn⟩ := brReadI32_dec hM hp h1
  obtain ⟨hp2, hd2⟩ := brSkipn_dec hM hp1 (by omega) h2
  exact ⟨hp2, by omega⟩

/-- what the loops need of the model's recursive call: a successful call consumes -/
def RecDec (μ : Rd → Nat) (P : Rd → Prop) (rec' : UInt8 → RM Unit) : Prop :=
  ∀ r t u r', P r → rec' t r = .ok (u, r') → P r' ∧ μ r' + 1 ≤ μ r

theorem brElem_dec (hM : RMeas μ P) {rec' : UInt8 → RM Unit} (hrec : RecDec μ P rec') (t : UInt8) (sz : Int) (hsz : sz ≤ 8)
    {r : Rd} {u : Unit} {r' : Rd} (hp : P r) (h : brElem rec' t sz r = .ok (u, r')) : P r' ∧ μ r' + 1 ≤ μ r := by
  unfold brElem at h
  by_cases hs : sz > 0
  · simp only [hs, if_true] at h
    obtain ⟨hp1, hd1⟩ := brSkipn_dec hM hp (by omega) h
    exact ⟨hp1, by omega⟩
  · simp only [hs, if_false] at h
    by_cases ht : t = T_STRING
    · simp only [ht, if_true] at h
      obtain ⟨hp1, hd1⟩ := brSkipStr_dec hM hp h
      exact ⟨hp1, by omega⟩
    · simp only [ht, if_false] at h
      exact hrec _ _ _ _ hp h

theorem brMapLoop_le (hM : RMeas μ P) {rec' : UInt8 → RM Unit} (hrec : RecDec μ P rec') (kt vt : UInt8) (ksz vsz : Int)
    (hk : ksz ≤ 8) (hv : vsz ≤ 8) :
    ∀ cnt r u r', P r → brMapLoop rec' kt vt ksz vsz cnt r = .ok (u, r') → P r' ∧ μ r' ≤ μ r := by
  intro cnt
  induction cnt with
  | zero =>
    intro r u r' hp h
    simp only [brMapLoop, Out.ok.injEq, Prod.mk.injEq] at h
    obtain ⟨_, rfl⟩ := h; exact ⟨hp, Nat.le_refl _⟩
  | succ cnt ih =>
    intro r u r' hp h
    simp only [brMapLoop, Out.bind_eq] at h
    obtain ⟨⟨u1, r1⟩, h1, h2⟩ := Tpl.bind_ok_inv h
    obtain ⟨⟨u2, r2⟩, h3, h4⟩ := Tpl.bind_ok_inv h2
    obtain ⟨hp1, _⟩ := brElem_dec hM hrec kt ksz hk hp h1
    obtain ⟨hp2, _⟩ := brElem_dec hM hrec vt vsz hv hp1 h3
    obtain ⟨hp3, _⟩ := ih _ _ _ hp2 h4
    exact ⟨hp3, by omega⟩

theorem brListLoop_eq (rec' : UInt8 → RM Unit) (vt : UInt8) (cnt : Nat) (r : Rd) :
    brListLoop rec' vt (cnt + 1) r =
      (brElem rec' vt 0 r).bind fun a => brListLoop rec' vt cnt a.2 := by
  simp only [brListLoop, brElem, Out.bind_eq, gt_iff_lt, Int.lt_irrefl, if_false]

theorem brListLoop_le (hM : RMeas μ P) {rec' : UInt8 → RM Unit} (hrec : RecDec μ P rec') (vt : UInt8) :
    ∀ cnt r u r', P r → brListLoop rec' vt cnt r = .ok (u, r') → P r' ∧ μ r' ≤ μ r := by
  intro cnt
  induction cnt with
  | zero =>
    intro r u r' hp h
    simp only [brListLoop, Out.ok.injEq, Prod.mk.injEq] at h
    obtain ⟨_, rfl⟩ := h; exact ⟨hp, Nat.le_refl _⟩
  | succ cnt ih =>
    intro r u r' hp h
    rw [brListLoop_eq] at h
    obtain ⟨⟨u1, r1⟩, h1, h2⟩ := Tpl.bind_ok_inv h
    obtain ⟨hp1, _⟩ := brElem_dec hM hrec vt 0 (by omega) hp h1
    obtain ⟨hp2, _⟩ := ih _ _ _ hp1 h2
    exact ⟨hp2, by omega⟩

theorem brFieldBegin_dec (hM : RMeas μ P) {r : Rd} {t : UInt8} {r' : Rd} (hp : P r) (h : brFieldBegin r = .ok (t, r')) :
    P r' ∧ μ r' + 1 ≤ μ r := by
  simp only [brFieldBegin, Out.bind_eq] at h
  obtain ⟨⟨b, r1⟩, h1, h2⟩ := Tpl.bind_ok_inv h
  obtain ⟨hp1, hd1⟩ := brNext_dec hM hp (by omega) (by omega) h1
  have e1 : (1 : Int).toNat = 1 := rfl
  rw [e1] at hd1
  obtain ⟨tp, _, h3⟩ := Tpl.bind_ok_inv h2
  by_cases hstop : tp = T_STOP
  · simp only [hstop, if_true, Out.pure_eq, Out.ok.injEq, Prod.mk.injEq] at h3
    obtain ⟨_, rfl⟩ := h3
    exact ⟨hp1, hd1⟩
  · simp only [hstop, if_false] at h3
    obtain ⟨⟨b2, r2⟩, h4, h5⟩ := Tpl.bind_ok_inv h3
    obtain ⟨hp2, hd2⟩ := brNext_dec hM hp1 (by omega) (by omega) h4
    obtain ⟨x, _, h6⟩ := Tpl.bind_ok_inv h5
    simp only [Out.pure_eq, Out.ok.injEq, Prod.mk.injEq] at h6
    obtain ⟨_, rfl⟩ := h6
    exact ⟨hp2, by omega⟩

theorem brStructLoop_lt (hM : RMeas μ P) {rec' : UInt8 → RM Unit} (hrec : RecDec μ P rec') :
    ∀ fuel r u r', P r → brStructLoop rec' fuel r = .ok (u, r') → P r' ∧ μ r' + 1 ≤ μ r := by
  intro fuel
  induction fuel with
  | zero => intro r u r' _ h; simp [brStructLoop] at h
  | succ fuel ih =>
    intro r u r' hp h
    simp only [brStructLoop, Out.bind_eq] at h
    obtain ⟨⟨ft, r1⟩, h1, h2⟩ := Tpl.bind_ok_inv h
    obtain ⟨hp1, hd1⟩ := brFieldBegin_dec hM hp h1
    by_cases hstop : ft = T_STOP
    · simp only [hstop, if_true, Out.pure_eq, Out.ok.injEq, Prod.mk.injEq] at h2
      obtain ⟨_, rfl⟩ := h2
      exact ⟨hp1, hd1⟩
    · simp only [hstop, if_false, typeSize_eq, Out.bind_ok] at h2
      obtain ⟨⟨u2, r2⟩, h3, h4⟩ := Tpl.bind_ok_inv h2
      have hle := fixedSize_le ft
      have hp2 : P r2 ∧ μ r2 ≤ μ r1 := by
        by_cases hs : ((fixedSize ft : Nat) : Int) > 0
        · simp only [hs, if_true] at h3
          obtain ⟨hp2, _⟩ := brSkipn_dec hM hp1 (by omega) h3
          exact ⟨hp2, by omega⟩
        · simp only [hs, if_false] at h3
          obtain ⟨hp2, _⟩ := hrec _ _ _ _ hp1 h3
          exact ⟨hp2, by omega⟩
      obtain ⟨hp3, _⟩ := ih _ _ _ hp2.1 h4
      exact ⟨hp3, by omega⟩

end dec

section dec2
variable {μ : Rd → Nat} {P : Rd → Prop}

/-- a count that passed the `int32(sz) < 0` test is below 2^31 -/
theorem count_lt {b : Bytes} {v : Nat} (h : u32of b = .ok v) (hn : ¬ toI32 v < 0) : v < 2147483648 := by
  have hi := toI32_neg_iff v (u32of_lt h)
  by_cases hv : v < 2147483648
  · exact hv
  · exact absurd (hi.mpr hv) hn

theorem map_dec (hM : RMeas μ P) (d : Nat) (hrec : RecDec μ P (skipBRAt d)) {r : Rd} {u : Unit} {r' : Rd} (hp : P r)
    (h : skipBRAt (d + 1) T_MAP r = .ok (u, r')) : P r' ∧ μ r' + 1 ≤ μ r := by
  simp only [skipBRAt, typeSize_eq, Out.bind_eq, Out.bind_ok] at h
  have hfix : ¬ ((fixedSize T_MAP : Nat) : Int) > 0 := by decide
  have h1 : ¬ T_MAP = T_STRING := by decide
  simp only [hfix, h1, if_false, if_true] at h
  obtain ⟨⟨b, r1⟩, h1, h2⟩ := Tpl.bind_ok_inv h
  obtain ⟨hp1, hd1⟩ := brNext_dec hM hp (by omega) (by omega) h1
  have e6 : (6 : Int).toNat = 6 := rfl
  rw [e6] at hd1
  obtain ⟨kt, _, h3⟩ := Tpl.bind_ok_inv h2
  obtain ⟨vt, _, h4⟩ := Tpl.bind_ok_inv h3
  obtain ⟨v, hv, h5⟩ := Tpl.bind_ok_inv h4
  by_cases hn : toI32 v < 0
  · simp [hn] at h5
  · simp only [hn, if_false] at h5
    have hvl := count_lt hv hn
    have hk := fixedSize_le kt
    have hv8 := fixedSize_le vt
    by_cases hfast : ((fixedSize kt : Nat) : Int) > 0 ∧ ((fixedSize vt : Nat) : Int) > 0
    · simp only [hfast, and_self, if_true] at h5
      have hq : v * (fixedSize kt + fixedSize vt) ≤ 2147483648 * 16 := Nat.mul_le_mul (by omega) (by omega)
      have e : (v : Int) * (((fixedSize kt : Nat) : Int) + ((fixedSize vt : Nat) : Int)) =
          ((v * (fixedSize kt + fixedSize vt) : Nat) : Int) := by simp
      rw [e] at h5
      obtain ⟨hp2, _⟩ := brSkipn_dec hM hp1 (by omega) h5
      exact ⟨hp2, by omega⟩
    · simp only [hfast, if_false] at h5
      obtain ⟨hp2, _⟩ := brMapLoop_le hM hrec kt vt _ _ (by omega) (by omega) _ _ _ _ hp1 h5
      exact ⟨hp2, by omega⟩

theorem list_dec (hM : RMeas μ P) (d : Nat) (hrec : RecDec μ P (skipBRAt d)) (t : UInt8) (ht : t = T_LIST ∨ t = T_SET)
    {r : Rd} {u : Unit} {r' : Rd} (hp : P r)
    (h : skipBRAt (d + 1) t r = .ok (u, r')) : P r' ∧ μ r' + 1 ≤ μ r := by
  simp only [skipBRAt, typeSize_eq, Out.bind_eq, Out.bind_ok] at h
  have hfix : ¬ ((fixedSize t : Nat) : Int) > 0 := by rcases ht with rfl | rfl <;> decide
  have h1 : ¬ t = T_STRING := by rcases ht with rfl | rfl <;> decide
  have h2 : ¬ t = T_MAP := by rcases ht with rfl | rfl <;> decide
  simp only [hfix, h1, h2, ht, if_false, if_true] at h
  obtain ⟨⟨b, r1⟩, h1, h2⟩ := Tpl.bind_ok_inv h
  obtain ⟨hp1, hd1⟩ := brNext_dec hM hp (by omega) (by omega) h1
  have e5 : (5 : Int).toNat = 5 := rfl
  rw [e5] at hd1
  obtain ⟨vt, _, h4⟩ := Tpl.bind_ok_inv h2
  obtain ⟨v, hv, h5⟩ := Tpl.bind_ok_inv h4
  by_cases hn : toI32 v < 0
  · simp [hn] at h5
  · simp only [hn, if_false] at h5
    have hvl := count_lt hv hn
    have hv8 := fixedSize_le vt
    by_cases hfast : ((fixedSize vt : Nat) : Int) > 0
    · simp only [hfast, if_true] at h5
      have hq : v * fixedSize vt ≤ 2147483648 * 8 := Nat.mul_le_mul (by omega) hv8
      have e : (v : Int) * ((fixedSize vt : Nat) : Int) = ((v * fixedSize vt : Nat) : Int) := by simp
      rw [e] at h5
      obtain ⟨hp2, _⟩ := brSkipn_dec hM hp1 (by omega) h5
      exact ⟨hp2, by omega⟩
    · simp only [hfast, if_false] at h5
      obtain ⟨hp2, _⟩ := brListLoop_le hM hrec vt _ _ _ _ hp1 h5
      exact ⟨hp2, by omega⟩

/-- every successful `skipType` of the model consumes at least one unit of the measure (and keeps the invariant) -/
theorem skipBRAt_dec (hM : RMeas μ P) : ∀ d, RecDec μ P (skipBRAt d) := by
  intro d
  induction d with
  | zero => intro r t u r' _ h; simp [skipBRAt] at h
  | succ d ih =>
    intro r t u r' hp h
    by_cases hmap : t = T_MAP
    · subst hmap; exact map_dec hM d ih hp h
    · by_cases hlist : t = T_LIST ∨ t = T_SET
      · exact list_dec hM d ih t hlist hp h
      · simp only [skipBRAt, typeSize_eq, Out.bind_eq, Out.bind_ok, hmap, hlist, if_false] at h
        have hle := fixedSize_le t
        by_cases hfix : ((fixedSize t : Nat) : Int) > 0
        · simp only [hfix, if_true] at h
          obtain ⟨hp1, _⟩ := brSkipn_dec hM hp (by omega) h
          exact ⟨hp1, by omega⟩
        · simp only [hfix, if_false] at h
          by_cases hstr : t = T_STRING
          · simp only [hstr, if_true] at h
            obtain ⟨hp1, _⟩ := brSkipStr_dec hM hp h
            exact ⟨hp1, by omega⟩
          · simp only [hstr, if_false] at h
            by_cases hst : t = T_STRUCT
            · simp only [hst, if_true] at h
              exact brStructLoop_lt hM ih _ _ _ _ hp h
            · simp [hst] at h

end dec2

/-! ## elements and loops under a hypothesis on the recursive call -/

/-- what the loops assume about the recursive call `rec` (translation, at the Go depth `dep`) and `rec'` (model): they agree
    on every reader state within the measure bound for which the fuel was chosen, and a successful call consumes -/
structure RecOK (N : ErrNaming) (μ : Rd → Nat) (P : Rd → Prop) (rec : Rd → Int → Int → GM (Rd × GoErr))
    (rec' : UInt8 → RM Unit) (dep : Int) (bound : Nat) : Prop where
  sim : ∀ r t, P r → μ r ≤ bound → BSim N (rec r (toI8 t.toNat) dep) (rec' t r)
  dec : RecDec μ P rec'

section sim
variable {N : ErrNaming} {μ : Rd → Nat} {P : Rd → Prop} {rec : Rd → Int → Int → GM (Rd × GoErr)}
  {rec' : UInt8 → RM Unit} {dep : Int} {bound : Nat}

theorem elem_sim (hw : WrapOK N) (H : RecOK N μ P rec rec' dep bound) (t : UInt8) (sz : Int) (r : Rd) (hp : P r)
    (hb : μ r ≤ bound) :
    BSim N (elemB (rdI N) rec dep (toI8 t.toNat) sz r) (brElem rec' t sz r) := by
  unfold elemB brElem
  by_cases hs : sz > 0
  · simp only [hs, if_true]; exact skipn_sim N hw r sz
  · simp only [hs, if_false]
    by_cases ht : t = T_STRING
    · have ht' : toI8 t.toNat = 11 := (toI8_eq_11 t).mpr ht
      simp only [if_pos ht, ht', if_true]
      exact skipstr_sim N hw r
    · have ht' : ¬ toI8 t.toNat = 11 := fun h => ht ((toI8_eq_11 t).mp h)
      simp only [if_neg ht, ht', if_false]
      exact H.sim r t hp hb

/-- outcome of a translated counted loop (MAP, LIST/SET) against the model loop -/
inductive LSim (N : ErrNaming) : GM (LoopR (Rd × GoErr) (Rd × GoErr × Int)) → TOut (Unit × Rd) → Prop where
  | done (r : Rd) (e : GoErr) (j : Int) : LSim N (.ok (LoopR.done (r, e, j))) (.ok ((), r))
  | err (r : Rd) (e : GoErr) (h : e ≠ GoErr.nil) : LSim N (.ok (LoopR.ret (r, e))) (.err (N.absE e))
  | panic (m : String) : LSim N (.panic m) (.panic m)
  | oob : LSim N .oob .oob

/-- what the enclosing function does with the outcome of a counted loop: `return` of the early return, `return nil` after
    the loop -/
theorem LSim.finish {X : GM (LoopR (Rd × GoErr) (Rd × GoErr × Int))} {Y : TOut (Unit × Rd)}
    {K : LoopR (Rd × GoErr) (Rd × GoErr × Int) → GM (Rd × GoErr)} (h : LSim N X Y)
    (hK1 : ∀ a, K (LoopR.ret a) = .ok a) (hK2 : ∀ s, K (LoopR.done s) = .ok (s.1, GoErr.nil)) :
    BSim N (X.bind K) Y := by
  cases h with
  | done r e j => simp only [Out.bind_ok, hK2]; exact BSim.ok r
  | err r e h => simp only [Out.bind_ok, hK1]; exact BSim.err r e h
  | panic m => exact BSim.panic m
  | oob => exact BSim.oob

/-- the MAP loop: ANY function `L` with the step equation `hs` (key element, value element, counter step) -/
theorem mloop_sim (hw : WrapOK N) (hM : RMeas μ P) (hdec : RecDec μ P rec')
    {J cont : Int → Prop} {next : Int → Int} {left : Int → Nat} [DecidablePred cont] (C : Counter J cont next left)
    (L : Nat → Rd → GoErr → Int → GM (LoopR (Rd × GoErr) (Rd × GoErr × Int)))
    (ek ev : Rd → GM (Rd × GoErr)) (kt vt : UInt8) (ksz vsz : Int) (hk : ksz ≤ 8) (hv : vsz ≤ 8)
    (hek : ∀ r, P r → μ r ≤ bound → BSim N (ek r) (brElem rec' kt ksz r))
    (hev : ∀ r, P r → μ r ≤ bound → BSim N (ev r) (brElem rec' vt vsz r))
    (hs : ∀ f r e j, L (f + 1) r e j =
      if cont j then
        (ek r).bind fun a =>
          if a.2 ≠ GoErr.nil then .ok (LoopR.ret (a.1, a.2))
          else (ev a.1).bind fun b =>
            if b.2 ≠ GoErr.nil then .ok (LoopR.ret (b.1, b.2))
            else L f b.1 b.2 (next j)
      else .ok (LoopR.done (r, e, j))) :
    ∀ (f : Nat) (r : Rd) (e : GoErr) (j : Int) (cnt : Nat), J j → left j = cnt → μ r + 1 ≤ f → μ r ≤ bound → P r →
      LSim N (L f r e j) (brMapLoop rec' kt vt ksz vsz cnt r) := by
  intro f
  induction f with
  | zero => intro r e j cnt _ _ hf; omega
  | succ f ih =>
    intro r e j cnt hJ hcnt hf hb hp
    rw [hs]
    cases cnt with
    | zero =>
      have c : ¬ cont j := by rw [C.cont_iff j hJ]; omega
      rw [if_neg c]
      simp only [brMapLoop]
      exact LSim.done r e j
    | succ cnt =>
      have c : cont j := (C.cont_iff j hJ).mpr (by omega)
      obtain ⟨hJ', hl'⟩ := C.step j hJ (by omega)
      rw [if_pos c]
      simp only [brMapLoop, Out.bind_eq]
      have hs1 := hek r hp hb
      have hd := fun u r' => brElem_dec hM hdec kt ksz hk (u := u) (r' := r') hp
      generalize ek r = x at hs1 ⊢
      generalize brElem rec' kt ksz r = y at hs1 hd ⊢
      cases hs1 with
      | ok r1 =>
        obtain ⟨hp1, hd1⟩ := hd () r1 rfl
        simp only [Out.bind_ok, ne_eq, not_true_eq_false, if_false]
        have hs2 := hev r1 hp1 (by omega)
        have hd2 := fun u r' => brElem_dec hM hdec vt vsz hv (u := u) (r' := r') hp1
        generalize ev r1 = x2 at hs2 ⊢
        generalize brElem rec' vt vsz r1 = y2 at hs2 hd2 ⊢
        cases hs2 with
        | ok r2 =>
          obtain ⟨hp2, hd2'⟩ := hd2 () r2 rfl
          simp only [Out.bind_ok, ne_eq, not_true_eq_false, if_false]
          exact ih r2 _ (next j) cnt hJ' (by omega) (by omega) (by omega) hp2
        | err r2 e2 h =>
          simp only [Out.bind_ok, Out.bind_err, ne_eq, h, not_false_eq_true, if_true]
          exact LSim.err _ e2 h
        | panic m => exact LSim.panic m
        | oob => exact LSim.oob
      | err r1 e1 h =>
        simp only [Out.bind_ok, Out.bind_err, ne_eq, h, not_false_eq_true, if_true]
        exact LSim.err _ e1 h
      | panic m => exact LSim.panic m
      | oob => exact LSim.oob

/-- the LIST/SET loop: ANY function `L` with the step equation `hs` (element, counter step) -/
theorem lloop_sim (hw : WrapOK N) (hM : RMeas μ P) (hdec : RecDec μ P rec')
    {J cont : Int → Prop} {next : Int → Int} {left : Int → Nat} [DecidablePred cont] (C : Counter J cont next left)
    (L : Nat → Rd → GoErr → Int → GM (LoopR (Rd × GoErr) (Rd × GoErr × Int)))
    (ev : Rd → GM (Rd × GoErr)) (vt : UInt8)
    (hev : ∀ r, P r → μ r ≤ bound → BSim N (ev r) (brElem rec' vt 0 r))
    (hs : ∀ f r e j, L (f + 1) r e j =
      if cont j then
        (ev r).bind fun a =>
          if a.2 ≠ GoErr.nil then .ok (LoopR.ret (a.1, a.2))
          else L f a.1 a.2 (next j)
      else .ok (LoopR.done (r, e, j))) :
    ∀ (f : Nat) (r : Rd) (e : GoErr) (j : Int) (cnt : Nat), J j → left j = cnt → μ r + 1 ≤ f → μ r ≤ bound → P r →
      LSim N (L f r e j) (brListLoop rec' vt cnt r) := by
  intro f
  induction f with
  | zero => intro r e j cnt _ _ hf; omega
  | succ f ih =>
    intro r e j cnt hJ hcnt hf hb hp
    rw [hs]
    cases cnt with
    | zero =>
      have c : ¬ cont j := by rw [C.cont_iff j hJ]; omega
      rw [if_neg c]
      simp only [brListLoop]
      exact LSim.done r e j
    | succ cnt =>
      have c : cont j := (C.cont_iff j hJ).mpr (by omega)
      obtain ⟨hJ', hl'⟩ := C.step j hJ (by omega)
      rw [if_pos c, brListLoop_eq]
      have hs1 := hev r hp hb
      have hd := fun u r' => brElem_dec hM hdec vt 0 (by omega) (u := u) (r' := r') hp
      generalize ev r = x at hs1 ⊢
      generalize brElem rec' vt 0 r = y at hs1 hd ⊢
      cases hs1 with
      | ok r1 =>
        obtain ⟨hp1, hd1⟩ := hd () r1 rfl
        simp only [Out.bind_ok, ne_eq, not_true_eq_false, if_false]
        exact ih r1 _ (next j) cnt hJ' (by omega) (by omega) (by omega) hp1
      | err r1 e1 h =>
        simp only [Out.bind_ok, Out.bind_err, ne_eq, h, not_false_eq_true, if_true]
        exact LSim.err _ e1 h
      | panic m => exact LSim.panic m
      | oob => exact LSim.oob

/-- `ReadFieldBegin` against the model: the type byte as a Go `int8` -/
inductive FSim (N : ErrNaming) : GM (Rd × Int × Int × GoErr) → TOut (UInt8 × Rd) → Prop where
  | ok (r : Rd) (t : UInt8) (id : Int) : FSim N (.ok (r, toI8 t.toNat, id, GoErr.nil)) (.ok (t, r))
  | err (r : Rd) (a b : Int) (e : GoErr) (h : e ≠ GoErr.nil) : FSim N (.ok (r, a, b, e)) (.err (N.absE e))
  | panic (m : String) : FSim N (.panic m) (.panic m)
  | oob : FSim N .oob .oob

theorem beU16_eq (b : Bytes) :
    beU16 b = match b[1]? with | some _ => .ok (rd16 b : Int) | none => .panic "index" := by
  unfold beU16
  by_cases h : b.length < 2
  · have : b[1]? = none := List.getElem?_eq_none (by omega)
    simp [h, this]
  · have : 1 < b.length := by omega
    simp [h, List.getElem?_eq_getElem this]

theorem fieldBegin_sim (hw : WrapOK N) (r : Rd) :
    FSim N (Funcs.BR_ReadFieldBegin (rdI N) r) (brFieldBegin r) := by
  unfold Funcs.BR_ReadFieldBegin brFieldBegin
  have hs := next_sim N hw r 1
  generalize Funcs.BR_next (rdI N) r 1 = x at hs ⊢
  generalize brNext 1 r = y at hs ⊢
  cases hs with
  | ok r1 b =>
    simp only [Out.bind_eq, Out.bind_ok, ne_eq, not_true_eq_false, decide_false, if_false, Bool.false_eq_true,
      Tpl.gidx0, Verif.idx]
    cases hb0 : b[0]? with
    | none => exact FSim.panic _
    | some tp =>
      simp only [Out.bind_ok, wrap_i8_nat _ tp.toNat_lt]
      by_cases hstop : tp = T_STOP
      · have c0 : toI8 tp.toNat = 0 := (toI8_eq_0 tp).mpr hstop
        simp only [if_pos hstop, c0, decide_true, if_true, Out.pure_eq]
        have := FSim.ok (N := N) r1 tp 0
        rwa [c0] at this
      · have c0 : ¬ toI8 tp.toNat = 0 := fun h => hstop ((toI8_eq_0 tp).mp h)
        simp only [if_neg hstop, c0, decide_false, if_false, Bool.false_eq_true]
        have hs2 := next_sim N hw r1 2
        generalize Funcs.BR_next (rdI N) r1 2 = x2 at hs2 ⊢
        generalize brNext 2 r1 = y2 at hs2 ⊢
        cases hs2 with
        | ok r2 b2 =>
          simp only [Out.bind_ok, ne_eq, not_true_eq_false, decide_false, if_false, Bool.false_eq_true, beU16_eq]
          cases hb1 : b2[1]? with
          | none => exact FSim.panic _
          | some x => exact FSim.ok _ _ _
        | err r2 b2 e h =>
          simp only [Out.bind_ok, Out.bind_err, ne_eq, h, not_false_eq_true, decide_true, if_true, Out.pure_eq]
          exact FSim.err _ _ _ e h
        | panic m => exact FSim.panic m
        | oob => exact FSim.oob
  | err r1 b e h =>
    simp only [Out.bind_eq, Out.bind_ok, Out.bind_err, ne_eq, h, not_false_eq_true, decide_true, if_true, Out.pure_eq]
    exact FSim.err _ _ _ e h
  | panic m => exact FSim.panic m
  | oob => exact FSim.oob

/-- outcome of the translated STRUCT loop (it only leaves by `return`) against the model loop -/
inductive LSim3 (N : ErrNaming) : GM (LoopR (Rd × GoErr) Rd) → TOut (Unit × Rd) → Prop where
  | ret (r : Rd) : LSim3 N (.ok (LoopR.ret (r, GoErr.nil))) (.ok ((), r))
  | err (r : Rd) (e : GoErr) (h : e ≠ GoErr.nil) : LSim3 N (.ok (LoopR.ret (r, e))) (.err (N.absE e))
  | panic (m : String) : LSim3 N (.panic m) (.panic m)
  | oob : LSim3 N .oob .oob

theorem LSim3.finish {X : GM (LoopR (Rd × GoErr) Rd)} {Y : TOut (Unit × Rd)}
    {K : LoopR (Rd × GoErr) Rd → GM (Rd × GoErr)} (h : LSim3 N X Y) (hK1 : ∀ a, K (LoopR.ret a) = .ok a) :
    BSim N (X.bind K) Y := by
  cases h with
  | ret r => simp only [Out.bind_ok, hK1]; exact BSim.ok r
  | err r e h => simp only [Out.bind_ok, hK1]; exact BSim.err r e h
  | panic m => exact BSim.panic m
  | oob => exact BSim.oob

/-- the STRUCT loop: ANY function `L` with the step equation `hs` (field header, STOP, field value) -/
theorem sloop_sim (hw : WrapOK N) (hM : RMeas μ P) (H : RecOK N μ P rec rec' dep bound)
    (L : Nat → Rd → GM (LoopR (Rd × GoErr) Rd))
    (hs : ∀ f r, L (f + 1) r =
      (Funcs.BR_ReadFieldBegin (rdI N) r).bind fun a =>
        if a.2.2.2 ≠ GoErr.nil then .ok (LoopR.ret (a.1, a.2.2.2))
        else if a.2.1 = 0 then .ok (LoopR.ret (a.1, GoErr.nil))
        else (tblIdx Funcs.tbl_typeToSize (wrap .u8 a.2.1)).bind fun s =>
          (elemF (rdI N) rec dep a.2.1 s a.1).bind fun b =>
            if b.2 ≠ GoErr.nil then .ok (LoopR.ret (b.1, b.2))
            else L f b.1) :
    ∀ (f1 f2 : Nat) (r : Rd), μ r + 1 ≤ f1 → μ r + 1 ≤ f2 → μ r ≤ bound → P r →
      LSim3 N (L f1 r) (brStructLoop rec' f2 r) := by
  intro f1
  induction f1 with
  | zero => intro f2 r hf; omega
  | succ f1 ih =>
    intro f2 r hf1 hf2 hb hp
    cases f2 with
    | zero => omega
    | succ f2 =>
      rw [hs, brStructLoop]
      have hs1 := fieldBegin_sim (N := N) hw r
      have hd := fun t r' => brFieldBegin_dec hM (t := t) (r' := r') hp
      generalize Funcs.BR_ReadFieldBegin (rdI N) r = x at hs1 ⊢
      generalize brFieldBegin r = y at hs1 hd ⊢
      cases hs1 with
      | ok r1 ft id =>
        obtain ⟨hp1, hd1⟩ := hd ft r1 rfl
        simp only [Out.bind_eq, Out.bind_ok, ne_eq, not_true_eq_false, if_false]
        by_cases hstop : ft = T_STOP
        · have c0 : toI8 ft.toNat = 0 := (toI8_eq_0 ft).mpr hstop
          simp only [if_pos hstop, c0, if_true, Out.pure_eq]
          exact LSim3.ret r1
        · have c0 : ¬ toI8 ft.toNat = 0 := fun h => hstop ((toI8_eq_0 ft).mp h)
          simp only [if_neg hstop, c0, if_false, tblIdx_fixed, typeSize_eq, Out.bind_ok, elemF]
          have hle := fixedSize_le ft
          by_cases hfix : ((fixedSize ft : Nat) : Int) > 0
          · simp only [hfix, if_true]
            have hs2 := skipn_sim N hw r1 ((fixedSize ft : Nat) : Int)
            have hd2 := fun u r' => brSkipn_dec hM (n := ((fixedSize ft : Nat) : Int)) (u := u) (r' := r') hp1 (by omega)
            generalize Funcs.BR_skipn (rdI N) r1 ((fixedSize ft : Nat) : Int) = x2 at hs2 ⊢
            generalize brSkipn ((fixedSize ft : Nat) : Int) r1 = y2 at hs2 hd2 ⊢
            cases hs2 with
            | ok r2 =>
              obtain ⟨hp2, hd2'⟩ := hd2 () r2 rfl
              simp only [Out.bind_ok, ne_eq, not_true_eq_false, if_false]
              exact ih f2 r2 (by omega) (by omega) (by omega) hp2
            | err r2 e2 h =>
              simp only [Out.bind_ok, Out.bind_err, ne_eq, h, not_false_eq_true, if_true]
              exact LSim3.err _ e2 h
            | panic m => exact LSim3.panic m
            | oob => exact LSim3.oob
          · simp only [hfix, if_false]
            have hs2 := H.sim r1 ft hp1 (by omega)
            have hd2 := fun u r' => H.dec r1 ft u r' hp1
            generalize rec r1 (toI8 ft.toNat) dep = x2 at hs2 ⊢
            generalize rec' ft r1 = y2 at hs2 hd2 ⊢
            cases hs2 with
            | ok r2 =>
              obtain ⟨hp2, hd2'⟩ := hd2 () r2 rfl
              simp only [Out.bind_ok, ne_eq, not_true_eq_false, if_false]
              exact ih f2 r2 (by omega) (by omega) (by omega) hp2
            | err r2 e2 h =>
              simp only [Out.bind_ok, Out.bind_err, ne_eq, h, not_false_eq_true, if_true]
              exact LSim3.err _ e2 h
            | panic m => exact LSim3.panic m
            | oob => exact LSim3.oob
      | err r1 a b e h =>
        simp only [Out.bind_eq, Out.bind_ok, Out.bind_err, ne_eq, h, not_false_eq_true, if_true]
        exact LSim3.err _ e h
      | panic m => exact LSim3.panic m
      | oob => exact LSim3.oob

theorem BSim.bind_eta {x : GM (Rd × GoErr)} {y : TOut (Unit × Rd)} (h : BSim N x y) :
    BSim N (x.bind fun t => .ok (t.1, t.2)) y := by
  cases h with
  | ok r => exact BSim.ok r
  | err r e h => exact BSim.err r e h
  | panic m => exact BSim.panic m
  | oob => exact BSim.oob

/-- `skipn` with the request computed differently on the two sides -/
theorem skipn_sim' (hw : WrapOK N) (r : Rd) (a b : Int) (h : a = b) :
    BSim N (Funcs.BR_skipn (rdI N) r a) (brSkipn b r) := by
  subst h; exact skipn_sim N hw r a

end sim

/-! ## the whole function: one lemma per container kind, then induction on the depth -/

section cases
variable {N : ErrNaming} {μ : Rd → Nat} {P : Rd → Prop}

/-- unfolds the generated loop function at `fuel + 1` (the loops are numbered in source order: whichever it is) -/
macro "unfold_loop" : tactic => `(tactic| first
  | rw [Funcs.BR_skipType_loop1] | rw [Funcs.BR_skipType_loop2] | rw [Funcs.BR_skipType_loop3])

/-- the recursive call as the translator passes it to the loops -/
abbrev recOf (N : ErrNaming) (f : Nat) : Rd → Int → Int → GM (Rd × GoErr) :=
  fun a0 a1 a2 => Funcs.BR_skipType (rdI N) f a0 a1 a2

/-- the Go depth of the elements of a container at depth `d + 1` -/
abbrev depOf (d : Nat) : Int := wrap .i64 (((d + 1 : Nat) : Int) - 1)

theorem map_case (hw : WrapOK N) (hM : RMeas μ P) (d f : Nat) (r : Rd) (t : UInt8) (hmap : t = T_MAP) (hp : P r)
    (hf : μ r + 1 ≤ f) (H : RecOK N μ P (recOf N f) (skipBRAt d) (depOf d) (μ r)) :
    BSim N (Funcs.BR_skipType (rdI N) (f + 1) r (toI8 t.toNat) ((d + 1 : Nat) : Int)) (skipBRAt (d + 1) t r) := by
  rw [Funcs.BR_skipType]
  have cD : ¬ ((d + 1 : Nat) : Int) = 0 := by omega
  have hfix : ¬ ((fixedSize t : Nat) : Int) > 0 := by rw [hmap]; decide
  have hstr : ¬ t = T_STRING := by rw [hmap]; decide
  have hlist : ¬ (t = T_LIST ∨ t = T_SET) := by rw [hmap]; decide
  have hst : ¬ t = T_STRUCT := by rw [hmap]; decide
  have c11 : ¬ toI8 t.toNat = 11 := fun h => hstr ((toI8_eq_11 t).mp h)
  have c12 : ¬ toI8 t.toNat = 12 := fun h => hst ((toI8_eq_tag t 12 (by omega)).mp h)
  have c14 : ¬ toI8 t.toNat = 14 := fun h => hlist (Or.inr ((toI8_eq_tag t 14 (by omega)).mp h))
  have c15 : ¬ toI8 t.toNat = 15 := fun h => hlist (Or.inl ((toI8_eq_tag t 15 (by omega)).mp h))
  have c13 : toI8 t.toNat = 13 := (toI8_eq_tag t 13 (by omega)).mpr hmap
  simp only [skipBRAt, cD, hfix, if_neg hstr, if_neg hlist, if_neg hst, c11, c12, c13, c14, c15, if_pos hmap, decide_false,
    decide_true, if_false, if_true, Bool.false_eq_true, Bool.or_self, tblIdx_fixed, typeSize_eq, Out.bind_ok, Out.bind_eq,
    Out.pure_eq]
  unfold Funcs.BR_ReadMapBegin
  have hs := next_sim N hw r 6
  have hd := fun b r' => brNext_dec hM (n := 6) (b := b) (r' := r') hp (by omega) (by omega)
  generalize Funcs.BR_next (rdI N) r 6 = x at hs ⊢
  generalize brNext 6 r = y at hs hd ⊢
  cases hs with
  | ok r1 b =>
    obtain ⟨hp1, hd1⟩ := hd b r1 rfl
    have e6 : (6 : Int).toNat = 6 := rfl
    rw [e6] at hd1
    simp only [Out.bind_eq, Out.bind_ok, Out.pure_eq, ne_eq, not_true_eq_false, decide_false, if_false,
      Bool.false_eq_true, Tpl.gidx0, Tpl.gidx1, Verif.idx]
    cases hb0 : b[0]? with
    | none => exact BSim.panic _
    | some kt =>
      simp only [Out.bind_ok]
      cases hb1 : b[1]? with
      | none => exact BSim.panic _
      | some vt =>
        have hlen : 2 ≤ b.length := by
          obtain ⟨h, _⟩ := List.getElem?_eq_some_iff.mp hb1; omega
        simp only [Out.bind_ok, Tpl.sliceFrom_ok b 2 (by omega) (by unfold len; omega), Tpl.beU32_eq, u32of]
        have e2 : (2 : Int).toNat = 2 := rfl
        rw [e2]
        generalize b.drop 2 = b2
        by_cases h4 : 4 ≤ b2.length
        · simp only [h4, if_true, Out.bind_ok, wrap_i32_nat _ (rd32_lt b2)]
          have hlt := rd32_lt b2
          generalize rd32 b2 = sz at hlt ⊢
          by_cases hn : toI32 sz < 0
          · simp only [hn, decide_true, if_true]
            exact BSim.perr N r1 2 _
          · have hs31 : sz < 2 ^ 31 := by
              have hi := toI32_neg_iff sz hlt
              by_cases hv : sz < 2147483648
              · exact hv
              · exact absurd (hi.mpr hv) hn
            simp only [hn, decide_false, if_false, Bool.false_eq_true, wrap_i8_nat _ vt.toNat_lt,
              wrap_i8_nat _ kt.toNat_lt, tblIdx_fixed, Out.bind_ok]
            have hk := fixedSize_le kt
            have hv := fixedSize_le vt
            by_cases hfast : ((fixedSize kt : Nat) : Int) > 0 ∧ ((fixedSize vt : Nat) : Int) > 0
            · simp only [hfast, and_self, decide_true, Bool.and_self, if_true]
              refine BSim.bind_eta (skipn_sim' hw r1 _ _ ?_)
              simp (disch := omega) only [wrap_i64_of_range, wrap_mul_small, wrap_mul_small']
              try (first | rfl | ac_rfl)
            · have cfast : (decide (((fixedSize kt : Nat) : Int) > 0) &&
                  decide (((fixedSize vt : Nat) : Int) > 0)) = false := by
                simpa using hfast
              simp only [hfast, cfast, if_false, Bool.false_eq_true]
              have hk8 : ((fixedSize kt : Nat) : Int) ≤ 8 := by omega
              have hv8 : ((fixedSize vt : Nat) : Int) ≤ 8 := by omega
              generalize ((fixedSize kt : Nat) : Int) = ksz at hk8 ⊢
              generalize ((fixedSize vt : Nat) : Int) = vsz at hv8 ⊢
              refine LSim.finish ?_ (fun _ => rfl) (fun _ => rfl)
              -- the counter runs up (`j < sz`, `j++`) or down (`left > 0`, `left--`)
              first
              | (refine mloop_sim (bound := μ r) hw hM H.dec (counter_up sz hs31) _
                    (elemB (rdI N) (recOf N f) (depOf d) (toI8 kt.toNat) ksz)
                    (elemB (rdI N) (recOf N f) (depOf d) (toI8 vt.toNat) vsz)
                    kt vt _ _ hk8 hv8 (fun r hp hb => elem_sim hw H kt _ r hp hb)
                    (fun r hp hb => elem_sim hw H vt _ r hp hb) ?_ f r1 _ 0 sz ⟨by omega, by omega⟩ (by simp)
                    (by omega) (by omega) hp1
                 intro f' r' e' j'
                 unfold_loop
                 by_cases hj : j' < (sz : Int)
                 · by_cases hk0 : ksz > 0 <;> by_cases hkt : toI8 kt.toNat = 11 <;>
                     by_cases hv0 : vsz > 0 <;> by_cases hvt : toI8 vt.toNat = 11 <;>
                     simp [elemB, recOf, depOf, hj, hk0, hkt, hv0, hvt]
                 · simp [hj])
              | (refine mloop_sim (bound := μ r) hw hM H.dec (counter_down sz hs31) _
                    (elemB (rdI N) (recOf N f) (depOf d) (toI8 kt.toNat) ksz)
                    (elemB (rdI N) (recOf N f) (depOf d) (toI8 vt.toNat) vsz)
                    kt vt _ _ hk8 hv8 (fun r hp hb => elem_sim hw H kt _ r hp hb)
                    (fun r hp hb => elem_sim hw H vt _ r hp hb) ?_ f r1 _ (sz : Int) sz ⟨by omega, by omega⟩ (by simp)
                    (by omega) (by omega) hp1
                 intro f' r' e' j'
                 unfold_loop
                 by_cases hj : j' > 0
                 · by_cases hk0 : ksz > 0 <;> by_cases hkt : toI8 kt.toNat = 11 <;>
                     by_cases hv0 : vsz > 0 <;> by_cases hvt : toI8 vt.toNat = 11 <;>
                     simp [elemB, recOf, depOf, hj, hk0, hkt, hv0, hvt]
                 · simp [hj])
        · simp only [h4, if_false, Out.bind_panic]
          exact BSim.panic _
  | err r1 b e h =>
    simp only [Out.bind_eq, Out.bind_ok, Out.bind_err, Out.pure_eq, ne_eq, h, not_false_eq_true, decide_true, if_true]
    exact BSim.err _ e h
  | panic m => exact BSim.panic m
  | oob => exact BSim.oob

theorem list_case (hw : WrapOK N) (hM : RMeas μ P) (d f : Nat) (r : Rd) (t : UInt8) (hlist : t = T_LIST ∨ t = T_SET)
    (hp : P r) (hf : μ r + 1 ≤ f) (H : RecOK N μ P (recOf N f) (skipBRAt d) (depOf d) (μ r)) :
    BSim N (Funcs.BR_skipType (rdI N) (f + 1) r (toI8 t.toNat) ((d + 1 : Nat) : Int)) (skipBRAt (d + 1) t r) := by
  rw [Funcs.BR_skipType]
  have cD : ¬ ((d + 1 : Nat) : Int) = 0 := by omega
  have hfix : ¬ ((fixedSize t : Nat) : Int) > 0 := by rcases hlist with h | h <;> rw [h] <;> decide
  have hstr : ¬ t = T_STRING := by rcases hlist with h | h <;> rw [h] <;> decide
  have hmap : ¬ t = T_MAP := by rcases hlist with h | h <;> rw [h] <;> decide
  have hst : ¬ t = T_STRUCT := by rcases hlist with h | h <;> rw [h] <;> decide
  have c11 : ¬ toI8 t.toNat = 11 := fun h => hstr ((toI8_eq_11 t).mp h)
  have c12 : ¬ toI8 t.toNat = 12 := fun h => hst ((toI8_eq_tag t 12 (by omega)).mp h)
  have c13 : ¬ toI8 t.toNat = 13 := fun h => hmap ((toI8_eq_tag t 13 (by omega)).mp h)
  have c : (decide (toI8 t.toNat = 15) || decide (toI8 t.toNat = 14)) = true := by
    rcases hlist with h | h
    · have := (toI8_eq_tag t 15 (by omega)).mpr h; simp [this]
    · have := (toI8_eq_tag t 14 (by omega)).mpr h; simp [this]
  have c' : (decide (toI8 t.toNat = 14) || decide (toI8 t.toNat = 15)) = true := by
    rw [Bool.or_comm]; exact c
  simp only [skipBRAt, cD, hfix, if_neg hstr, if_neg hmap, if_neg hst, c11, c12, c13, c, c', if_pos hlist, decide_false,
    decide_true, if_false, if_true, Bool.false_eq_true, tblIdx_fixed, typeSize_eq, Out.bind_ok, Out.bind_eq, Out.pure_eq]
  unfold Funcs.BR_ReadListBegin
  have hs := next_sim N hw r 5
  have hd := fun b r' => brNext_dec hM (n := 5) (b := b) (r' := r') hp (by omega) (by omega)
  generalize Funcs.BR_next (rdI N) r 5 = x at hs ⊢
  generalize brNext 5 r = y at hs hd ⊢
  cases hs with
  | ok r1 b =>
    obtain ⟨hp1, hd1⟩ := hd b r1 rfl
    have e5 : (5 : Int).toNat = 5 := rfl
    rw [e5] at hd1
    simp only [Out.bind_eq, Out.bind_ok, Out.pure_eq, ne_eq, not_true_eq_false, decide_false, if_false,
      Bool.false_eq_true, Tpl.gidx0, Verif.idx]
    cases hb0 : b[0]? with
    | none => exact BSim.panic _
    | some vt =>
      have hlen : 1 ≤ b.length := by
        obtain ⟨h, _⟩ := List.getElem?_eq_some_iff.mp hb0; omega
      simp only [Out.bind_ok, Tpl.sliceFrom_ok b 1 (by omega) (by unfold len; omega), Tpl.beU32_eq, u32of]
      have e1 : (1 : Int).toNat = 1 := rfl
      rw [e1]
      generalize b.drop 1 = b2
      by_cases h4 : 4 ≤ b2.length
      · simp only [h4, if_true, Out.bind_ok, wrap_i32_nat _ (rd32_lt b2)]
        have hlt := rd32_lt b2
        generalize rd32 b2 = sz at hlt ⊢
        by_cases hn : toI32 sz < 0
        · simp only [hn, decide_true, if_true]
          exact BSim.perr N r1 2 _
        · have hs31 : sz < 2 ^ 31 := by
            have hi := toI32_neg_iff sz hlt
            by_cases hv : sz < 2147483648
            · exact hv
            · exact absurd (hi.mpr hv) hn
          simp only [hn, decide_false, if_false, Bool.false_eq_true, wrap_i8_nat _ vt.toNat_lt, tblIdx_fixed,
            Out.bind_ok]
          have hv := fixedSize_le vt
          by_cases hfast : ((fixedSize vt : Nat) : Int) > 0
          · simp only [hfast, decide_true, if_true]
            refine BSim.bind_eta (skipn_sim' hw r1 _ _ ?_)
            simp (disch := omega) only [wrap_i64_of_range, wrap_mul_small, wrap_mul_small']
            try (first | rfl | ac_rfl)
          · simp only [hfast, decide_false, if_false, Bool.false_eq_true]
            refine LSim.finish ?_ (fun _ => rfl) (fun _ => rfl)
            -- the counter runs up (`j < sz`, `j++`) or down (`left > 0`, `left--`)
            first
            | (refine lloop_sim (bound := μ r) hw hM H.dec (counter_up sz hs31) _
                  (elemB (rdI N) (recOf N f) (depOf d) (toI8 vt.toNat) 0) vt
                  (fun r hp hb => elem_sim hw H vt _ r hp hb) ?_ f r1 _ 0 sz ⟨by omega, by omega⟩ (by simp)
                  (by omega) (by omega) hp1
               intro f' r' e' j'
               unfold_loop
               by_cases hj : j' < (sz : Int)
               · by_cases hvt : toI8 vt.toNat = 11 <;> simp [elemB, recOf, depOf, hj, hvt]
               · simp [hj])
            | (refine lloop_sim (bound := μ r) hw hM H.dec (counter_down sz hs31) _
                  (elemB (rdI N) (recOf N f) (depOf d) (toI8 vt.toNat) 0) vt
                  (fun r hp hb => elem_sim hw H vt _ r hp hb) ?_ f r1 _ (sz : Int) sz ⟨by omega, by omega⟩ (by simp)
                  (by omega) (by omega) hp1
               intro f' r' e' j'
               unfold_loop
               by_cases hj : j' > 0
               · by_cases hvt : toI8 vt.toNat = 11 <;> simp [elemB, recOf, depOf, hj, hvt]
               · simp [hj])
      · simp only [h4, if_false, Out.bind_panic]
        exact BSim.panic _
  | err r1 b e h =>
    simp only [Out.bind_eq, Out.bind_ok, Out.bind_err, Out.pure_eq, ne_eq, h, not_false_eq_true, decide_true, if_true]
    exact BSim.err _ e h
  | panic m => exact BSim.panic m
  | oob => exact BSim.oob

theorem struct_case (hw : WrapOK N) (hM : RMeas μ P) (d f : Nat) (r : Rd) (t : UInt8) (hst : t = T_STRUCT)
    (hp : P r) (hf : μ r + 1 ≤ f) (H : RecOK N μ P (recOf N f) (skipBRAt d) (depOf d) (μ r)) :
    BSim N (Funcs.BR_skipType (rdI N) (f + 1) r (toI8 t.toNat) ((d + 1 : Nat) : Int)) (skipBRAt (d + 1) t r) := by
  rw [Funcs.BR_skipType]
  have cD : ¬ ((d + 1 : Nat) : Int) = 0 := by omega
  have hfix : ¬ ((fixedSize t : Nat) : Int) > 0 := by rw [hst]; decide
  have hstr : ¬ t = T_STRING := by rw [hst]; decide
  have hmap : ¬ t = T_MAP := by rw [hst]; decide
  have hlist : ¬ (t = T_LIST ∨ t = T_SET) := by rw [hst]; decide
  have c11 : ¬ toI8 t.toNat = 11 := fun h => hstr ((toI8_eq_11 t).mp h)
  have c13 : ¬ toI8 t.toNat = 13 := fun h => hmap ((toI8_eq_tag t 13 (by omega)).mp h)
  have c14 : ¬ toI8 t.toNat = 14 := fun h => hlist (Or.inr ((toI8_eq_tag t 14 (by omega)).mp h))
  have c15 : ¬ toI8 t.toNat = 15 := fun h => hlist (Or.inl ((toI8_eq_tag t 15 (by omega)).mp h))
  have c12 : toI8 t.toNat = 12 := (toI8_eq_tag t 12 (by omega)).mpr hst
  simp only [skipBRAt, cD, hfix, if_neg hstr, if_neg hmap, if_neg hlist, if_pos hst, c11, c12, c13, c14, c15, decide_false,
    decide_true, if_false, if_true, Bool.false_eq_true, Bool.or_self, tblIdx_fixed, typeSize_eq, Out.bind_ok, Out.bind_eq,
    Out.pure_eq]
  refine LSim3.finish ?_ (fun _ => rfl)
  refine sloop_sim (bound := μ r) (rec := recOf N f) (dep := depOf d) hw hM H _ ?_ f (r.avail + 1) r hf
    (by have := hM.le_avail r hp; omega) (Nat.le_refl _) hp
  intro f' r'
  unfold_loop
  simp only [Out.bind_eq]
  apply bind_congr'; intro a
  by_cases he : a.2.2.2 = GoErr.nil
  · by_cases h0 : a.2.1 = 0
    · simp [he, h0]
    · simp only [he, h0, ne_eq, not_true_eq_false, decide_false, if_false, Bool.false_eq_true]
      apply bind_congr'; intro s
      by_cases hs : s > 0 <;> simp [elemF, recOf, depOf, hs]
  · simp [he]

theorem recOK_of_ih (N : ErrNaming) (hM : RMeas μ P) (d f bound : Nat) (hd : d + 1 < 2 ^ 63) (hf : bound + d + 2 ≤ f)
    (ih : ∀ (f : Nat) (r : Rd) (t : UInt8) (D : Int), P r → μ r + d + 2 ≤ f → D = (d : Int) →
      BSim N (Funcs.BR_skipType (rdI N) f r (toI8 t.toNat) D) (skipBRAt d t r)) :
    RecOK N μ P (recOf N f) (skipBRAt d) (depOf d) bound := by
  constructor
  · intro r t hp hb
    exact ih f r t _ hp (by omega) (by unfold depOf; rw [wrap_i64_of_range _ (by omega) (by omega)]; omega)
  · exact skipBRAt_dec hM d

/-- `BufferReader.skipType`, whole function, translated from the Go source, over the reader model: the model `skipBRAt`,
    final reader state, error, and every panic included -/
theorem skipType_sim (hw : WrapOK N) (hM : RMeas μ P) :
    ∀ (d f : Nat) (r : Rd) (t : UInt8) (D : Int), d < 2 ^ 63 → P r → μ r + d + 2 ≤ f → D = (d : Int) →
      BSim N (Funcs.BR_skipType (rdI N) f r (toI8 t.toNat) D) (skipBRAt d t r) := by
  intro d
  induction d with
  | zero =>
    intro f r t D hd hp hf hD
    cases f with
    | zero => omega
    | succ f =>
      subst hD
      rw [Funcs.BR_skipType]
      simp only [skipBRAt, Int.natCast_zero, decide_true, if_true, Out.pure_eq]
      exact BSim.perr N r 6 _
  | succ d ih =>
    intro f r t D hd hp hf hD
    cases f with
    | zero => omega
    | succ f =>
      have H := recOK_of_ih N hM d f (μ r) hd (by omega) (fun f r t D h0 h1 h2 => ih f r t D (by omega) h0 h1 h2)
      subst hD
      by_cases hmap : t = T_MAP
      · exact map_case hw hM d f r t hmap hp (by omega) H
      · by_cases hlist : t = T_LIST ∨ t = T_SET
        · exact list_case hw hM d f r t hlist hp (by omega) H
        · by_cases hst : t = T_STRUCT
          · exact struct_case hw hM d f r t hst hp (by omega) H
          · rw [Funcs.BR_skipType]
            have cD : ¬ ((d + 1 : Nat) : Int) = 0 := by omega
            simp only [skipBRAt, cD, decide_false, if_false, Bool.false_eq_true, tblIdx_fixed, typeSize_eq,
              Out.bind_ok, Out.bind_eq, Out.pure_eq]
            by_cases hfix : ((fixedSize t : Nat) : Int) > 0
            · simp only [hfix, decide_true, if_true]
              exact BSim.bind_eta (skipn_sim N hw r _)
            · simp only [hfix, decide_false, if_false, Bool.false_eq_true]
              by_cases hstr : t = T_STRING
              · have c : toI8 t.toNat = 11 := (toI8_eq_11 t).mpr hstr
                have c12 : ¬ toI8 t.toNat = 12 := fun h => hst ((toI8_eq_tag t 12 (by omega)).mp h)
                have c13 : ¬ toI8 t.toNat = 13 := fun h => hmap ((toI8_eq_tag t 13 (by omega)).mp h)
                have c14 : ¬ toI8 t.toNat = 14 := fun h => hlist (Or.inr ((toI8_eq_tag t 14 (by omega)).mp h))
                have c15 : ¬ toI8 t.toNat = 15 := fun h => hlist (Or.inl ((toI8_eq_tag t 15 (by omega)).mp h))
                simp only [if_pos hstr, c, c12, c13, c14, c15, decide_true, decide_false, if_true, if_false,
                  Bool.false_eq_true, Bool.or_self]
                exact BSim.bind_eta (skipstr_sim N hw r)
              · have c11 : ¬ toI8 t.toNat = 11 := fun h => hstr ((toI8_eq_11 t).mp h)
                have c13 : ¬ toI8 t.toNat = 13 := fun h => hmap ((toI8_eq_tag t 13 (by omega)).mp h)
                have c14 : ¬ toI8 t.toNat = 14 := fun h => hlist (Or.inr ((toI8_eq_tag t 14 (by omega)).mp h))
                have c15 : ¬ toI8 t.toNat = 15 := fun h => hlist (Or.inl ((toI8_eq_tag t 15 (by omega)).mp h))
                have c12 : ¬ toI8 t.toNat = 12 := fun h => hst ((toI8_eq_tag t 12 (by omega)).mp h)
                simp only [if_neg hstr, if_neg hmap, if_neg hlist, if_neg hst, c11, c12, c13, c14, c15, decide_false,
                  if_false, Bool.false_eq_true, Bool.or_self]
                exact BSim.perr N r 1 _

end cases

/-! ## the reader model satisfies the contract -/

/-- the reader invariant of C04 (`Inv`), and sizes for which every request `≤ 2^35` is in the range `Rd.Small`
    (`n + ri ≤ 2^63`) in which the reader MODEL is well behaved -/
def RdSmall (r : Rd) : Prop := Inv r ∧ r.remaining.length + r.ri + 34359738368 ≤ 9223372036854775808

theorem rd_meas : RMeas (fun r => r.remaining.length) RdSmall := by
  refine ⟨?_, ?_, ?_⟩
  · intro r n hp h0 hn
    obtain ⟨hinv, hsm⟩ := hp
    rcases next_cases r n hinv (by unfold Rd.Small; omega) with ⟨hneg, _⟩ | ⟨_, m, r1, _, hpost, ⟨hgt, hx⟩ | ⟨hle, hx⟩⟩
    · omega
    · right
      have he := (hpost.short hgt).1
      cases hre : r1.err with
      | none => exact absurd hre he
      | some e => exact ⟨e, r1, by rw [hx, hre]⟩
    · left
      have hen := hpost.enough hle
      have hrem := hpost.remaining hinv.ri_le
      have hri := hpost.ri
      have hsplit := remaining_split r1 n.toNat
      have hlen := take_length_of_le r1 n.toNat hen
      have hl : r1.remaining.length = n.toNat + ({ r1 with ri := r1.ri + n.toNat } : Rd).remaining.length := by
        rw [hsplit, List.length_append, hlen]
      refine ⟨_, _, hx, ⟨inv_advance r1 _ hpost.inv hen, ?_⟩, ?_⟩
      · simp only []; rw [hrem] at hl; omega
      · rw [hrem] at hl; omega
  · intro r n hp h0 hn
    obtain ⟨hinv, hsm⟩ := hp
    rcases skip_cases r n hinv (by unfold Rd.Small; omega) with ⟨hneg, _⟩ | ⟨_, m, r1, _, hpost, ⟨hgt, hx⟩ | ⟨hle, hx⟩⟩
    · omega
    · right
      have he := (hpost.short hgt).1
      cases hre : r1.err with
      | none => exact absurd hre he
      | some e => exact ⟨e, r1, by rw [hx, hre]⟩
    · left
      have hen := hpost.enough hle
      have hrem := hpost.remaining hinv.ri_le
      have hri := hpost.ri
      have hsplit := remaining_split r1 n.toNat
      have hlen := take_length_of_le r1 n.toNat hen
      have hl : r1.remaining.length = n.toNat + ({ r1 with ri := r1.ri + n.toNat } : Rd).remaining.length := by
        rw [hsplit, List.length_append, hlen]
      refine ⟨_, _, hx, ⟨inv_advance r1 _ hpost.inv hen, ?_⟩, ?_⟩
      · simp only []; rw [hrem] at hl; omega
      · rw [hrem] at hl; omega
  · intro r _
    simp only [Rd.avail, Rd.remaining, List.length_append, List.length_drop]
    omega

/-- `BufferReader.next` (no hypothesis on the reader) -/
theorem BR_next_eq (N : ErrNaming) (hw : WrapOK N) (r : Rd) (n : Int) :
    liftBRv N.absE (Funcs.BR_next (rdI N) r n) = brNext n r := (next_sim N hw r n).lift

/-- `BufferReader.skipn` (no hypothesis on the reader) -/
theorem BR_skipn_eq (N : ErrNaming) (hw : WrapOK N) (r : Rd) (n : Int) :
    liftBR N.absE (Funcs.BR_skipn (rdI N) r n) = brSkipn n r := (skipn_sim N hw r n).lift

end SSkip

/-! ## the theorems -/

open SSkip

/-- `BufferReader.skipstr` translated from the Go source IS the model `brSkipStr` (no hypothesis on the reader) -/
theorem BR_skipstr_eq (N : ErrNaming) (hw : WrapOK N) (r : Rd) :
    liftBR N.absE (Funcs.BR_skipstr (rdI N) r) = brSkipStr r := (SSkip.skipstr_sim N hw r).lift

/-- `BufferReader.skipType` translated from the Go source IS the model `skipBRAt`, for every depth.
    Hypotheses: `hinv` the reader invariant (C04 proves every reachable reader has it) — with it a failing `Next`/`Skip`
    returns a non-nil error, so no loop goes on without consuming; `hsm` the sizes for which the reader MODEL's
    fuel-64 doubling loops are exact (`Rd.Small`: request + ri ≤ 2^63; the largest request is 2^35); `hd` the depth is a Go
    `int`; `hf` the ONE fuel of the translation covers the recursion depth and every loop (each iteration consumes). -/
theorem BR_skipType_eq (N : ErrNaming) (hw : WrapOK N) (r : Rd) (t : UInt8) (d fuel : Nat) (hinv : Inv r)
    (hsm : r.remaining.length + r.ri + 34359738368 ≤ 9223372036854775808) (hd : d < 2 ^ 63)
    (hf : r.remaining.length + d + 2 ≤ fuel) :
    liftBR N.absE (Funcs.BR_skipType (rdI N) fuel r (toI8 t.toNat) (d : Int)) = skipBRAt d t r :=
  (SSkip.skipType_sim hw rd_meas d fuel r t _ hd ⟨hinv, hsm⟩ hf rfl).lift

/-- `BufferReader.Skip` translated from the Go source IS the model `skipBR` (hypotheses: see `BR_skipType_eq`) -/
theorem BR_Skip_eq (N : ErrNaming) (hw : WrapOK N) (r : Rd) (t : UInt8) (fuel : Nat) (hinv : Inv r)
    (hsm : r.remaining.length + r.ri + 34359738368 ≤ 9223372036854775808) (hf : r.remaining.length + 66 ≤ fuel) :
    liftBR N.absE (Funcs.BR_Skip (rdI N) fuel r (toI8 t.toNat)) = skipBR t r := by
  have h := SSkip.skipType_sim hw rd_meas 64 fuel r t 64 (by omega) ⟨hinv, hsm⟩ (by show r.remaining.length + 64 + 2 ≤ fuel; omega) rfl
  unfold Funcs.BR_Skip skipBR
  have e : Facts.defaultRecursionDepth = 64 := rfl
  rw [e]
  generalize Funcs.BR_skipType (rdI N) fuel r (toI8 t.toNat) 64 = x at h ⊢
  generalize skipBRAt 64 t r = y at h ⊢
  cases h <;> simp [liftBR, *]

/-- the standard naming (`raw io.EOF` ↦ `named "io.EOF"`, `wrap e` ↦ `named "wrap:<name>"` as `GoSem.wrapErr`) -/
theorem BR_Skip_eq_std (r : Rd) (t : UInt8) (fuel : Nat) (hinv : Inv r)
    (hsm : r.remaining.length + r.ri + 34359738368 ≤ 9223372036854775808) (hf : r.remaining.length + 66 ≤ fuel) :
    liftBR absStd (Funcs.BR_Skip (iOfRd (fun e => errOfStd (.raw e))) fuel r (toI8 t.toNat)) = skipBR t r :=
  BR_Skip_eq stdNaming wrapOK_std r t fuel hinv hsm hf

/-! ## the generated function computes (non-vacuity) -/

/-- the translation over a `BytesReader` on `b` (the reader model `Rd.newBytes`), standard error naming -/
def brBytes (fuel : Nat) (b : Bytes) (t : Int) : GM (Rd × GoErr) :=
  Funcs.BR_Skip (iOfRd (fun e => errOfStd (.raw e))) fuel (Rd.newBytes b b.length) t

/-- the translation over a `DefaultReader` whose source delivers `stream` three bytes per `Read` -/
def brStream (fuel : Nat) (stream : Bytes) (t : Int) : GM (Rd × GoErr) :=
  Funcs.BR_Skip (iOfRd (fun e => errOfStd (.raw e))) fuel (Rd.newDefault ⟨stream, List.replicate 12 ⟨3, none⟩⟩) t

/-- bytes consumed (ReadLen) and the error -/
def riErr (x : GM (Rd × GoErr)) : GM (Nat × GoErr) := x.bind (fun r => .ok (r.1.ri, r.2))

-- an i32
example : riErr (brBytes 80 [0, 0, 0, 1] 8) = .ok (4, GoErr.nil) := by decide +kernel
-- a struct {1: i32 5} (STRUCT loop), from a bytes reader and from a source that delivers 3 bytes at a time
example : riErr (brBytes 80 [8, 0, 1, 0, 0, 0, 5, 0] 12) = .ok (8, GoErr.nil) := by decide +kernel
example : riErr (brStream 80 [8, 0, 1, 0, 0, 0, 5, 0, 99] 12) = .ok (8, GoErr.nil) := by decide +kernel
-- list<string> ["a", ""] (LIST loop), map<string,i32> {"a": 7} (MAP loop), map<i32,i64> x 1 (MAP fast path)
example : riErr (brBytes 80 [11, 0, 0, 0, 2, 0, 0, 0, 1, 97, 0, 0, 0, 0] 15) = .ok (14, GoErr.nil) := by decide +kernel
example : riErr (brBytes 80 [11, 8, 0, 0, 0, 1, 0, 0, 0, 1, 97, 0, 0, 0, 7] 13) = .ok (15, GoErr.nil) := by decide +kernel
example : riErr (brBytes 80 [8, 10, 0, 0, 0, 1, 0, 0, 0, 1, 0, 0, 0, 0, 0, 0, 0, 2] 13) = .ok (18, GoErr.nil) := by
  decide +kernel
-- the lifted translation and the model, computed side by side
example : liftBR absStd (brBytes 80 [11, 8, 0, 0, 0, 1, 0, 0, 0, 1, 97, 0, 0, 0, 7] 13) =
    skipBR 13 (Rd.newBytes [11, 8, 0, 0, 0, 1, 0, 0, 0, 1, 97, 0, 0, 0, 7] 15) := by decide +kernel
-- errors: the reader's EOF wrapped by `next` (NewProtocolExceptionWithErr), negative size, unknown type, depth limit
example : riErr (brBytes 80 [0] 8) = .ok (0, GoErr.named "wrap:io.EOF") := by decide +kernel
example : liftBR absStd (brBytes 80 [0] 8) = .err (.wrap .eof) := by decide +kernel
example : skipBR 8 (Rd.newBytes [0] 1) = .err (.wrap .eof) := by decide +kernel
example : riErr (brStream 80 [8, 0, 1, 0, 0] 12) = .ok (3, GoErr.named "wrap:io.EOF") := by decide +kernel
example : riErr (brBytes 80 [255, 255, 255, 255] 11) = .ok (4, GoErr.pe 2 "negative size") := by decide +kernel
example : riErr (brBytes 80 [11, 255, 255, 255, 255] 15) = .ok (5, GoErr.pe 2 "negative size") := by decide +kernel
example : riErr (brBytes 80 [0] 1) = .ok (0, GoErr.pe 1 "") := by decide +kernel
example : liftBR absStd (brBytes 300 (List.replicate 200 12) 12) = .err errDepth := by decide +kernel
example : skipBR 12 (Rd.newBytes (List.replicate 200 12) 200) = .err errDepth := by decide +kernel
-- panics: fuel exhausted (excluded by `hf`); a reader interface that answers `(nil, nil)` makes `b[0]` panic in the
-- translation as in the model (`fail none`, excluded for `Rd` under `Inv` by `rd_meas`)
example : brBytes 0 [0] 8 = .panic "nofuel" := by decide +kernel
example : brBytes 3 [12, 0, 1, 12, 0, 1, 0, 0] 12 = .panic "nofuel" := by decide +kernel
def nilReader : ReaderI Unit :=
  { next := fun s _ => .ok (([], GoErr.nil), s), peek := fun s _ => .ok (([], GoErr.nil), s),
    skip := fun s _ => .ok (GoErr.nil, s), readBinary := fun s _ => .ok (([], 0, GoErr.nil), s), readLen := fun _ => 0 }
example : Funcs.BR_Skip nilReader 10 () 12 = .panic "index" := by decide +kernel
example : Funcs.BR_Skip nilReader 10 () 11 = .panic "index" := by decide +kernel

end Verif.FuncsEq

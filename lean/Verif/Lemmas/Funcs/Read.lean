/-
  Lemmas/Funcs/Read: the 13 buffer readers `Binary.Read*` TRANSLATED from protocol/thrift/binary.go
  (`Verif.Funcs.Binary_Read*`, generated) are the hand-written model readers `Wire.binRead*`, for every byte list
  (no length hypothesis) and, for ReadBinary / ReadString / ReadMessageBegin, for both values of `spanCacheEnable`.

  Where the model's result type is the Go result type up to `liftRd` (Bool, Byte, I16, I32, I64, Binary, String) the
  statement is `liftRd (gen b) = model b`.  Elsewhere an explicit result lift built from `liftRdG` maps the Go result
  into the model's type: a `TType` (Go int8) to the model's type byte (`tyByte`), a container size (Go `int`, from
  `int(uint32)`, so non-negative) and the bit pattern of a double to `Nat` (`Int.toNat`).
-/
import Verif.Lemmas.Funcs.Base
set_option linter.unusedSimpArgs false
namespace Verif.FuncsEq
open Verif Verif.GoSem

/-! ## result lifts for readers whose model result type differs from the Go result type -/

/-- generic form of `liftRd`: `l`/`e` select the returned length and error of the Go result `ρ`, `v` builds the
    model's result from the Go result and the length -/
def liftRdG {ρ β : Type} (l : ρ → Int) (e : ρ → GoErr) (v : ρ → Nat → β) (x : GM ρ) : Wire.BOut β :=
  match x with
  | .ok r => if e r = .nil then .ok (v r (l r).toNat) else .err (absErr (e r), (l r).toNat)
  | .panic s => .panic s
  | .oob => .oob
  | .err e => nomatch e

/-- a Go `TType` (int8) as the model's type byte -/
def tyByte (t : Int) : UInt8 := UInt8.ofNat (ofInt 8 t)

/-- ReadDouble: `(bits, l, err)`, the model has the bit pattern as a `Nat` -/
def liftRdDouble (x : GM (Int × Int × GoErr)) : Wire.BOut (Nat × Nat) :=
  liftRdG (fun r => r.2.1) (fun r => r.2.2) (fun r n => (r.1.toNat, n)) x

/-- ReadFieldBegin: `(typeID, id, l, err)` -/
def liftRdField (x : GM (Int × Int × Int × GoErr)) : Wire.BOut (UInt8 × Int × Nat) :=
  liftRdG (fun r => r.2.2.1) (fun r => r.2.2.2) (fun r n => (tyByte r.1, r.2.1, n)) x

/-- ReadListBegin / ReadSetBegin: `(et, size, l, err)` (Go `size` is a non-negative `int`) -/
def liftRdList (x : GM (Int × Int × Int × GoErr)) : Wire.BOut (UInt8 × Nat × Nat) :=
  liftRdG (fun r => r.2.2.1) (fun r => r.2.2.2) (fun r n => (tyByte r.1, r.2.1.toNat, n)) x

/-- ReadMapBegin: `(kt, vt, size, l, err)` -/
def liftRdMap (x : GM (Int × Int × Int × Int × GoErr)) : Wire.BOut (UInt8 × UInt8 × Nat × Nat) :=
  liftRdG (fun r => r.2.2.2.1) (fun r => r.2.2.2.2) (fun r n => (tyByte r.1, tyByte r.2.1, r.2.2.1.toNat, n)) x

/-- ReadMessageBegin: `(name, typeID, seq, l, err)` -/
def liftRdMsg (x : GM (Bytes × Int × Int × Int × GoErr)) : Wire.BOut (Bytes × Int × Int × Nat) :=
  liftRdG (fun r => r.2.2.2.1) (fun r => r.2.2.2.2) (fun r n => (r.1, r.2.1, r.2.2.1, n)) x

/-! ## primitives -/

theorem idx_zero (b : Bytes) (h : 0 < b.length) : GoSem.idx b 0 = .ok ((b[0]'h).toNat : Int) := by
  simp [GoSem.idx, h]

theorem idx_one (b : Bytes) (h : 1 < b.length) : GoSem.idx b 1 = .ok ((b[1]'h).toNat : Int) := by
  simp [GoSem.idx, h]

theorem sliceFrom_ok (b : Bytes) (lo : Int) (h0 : 0 ≤ lo) (h1 : lo ≤ (b.length : Int)) :
    sliceFrom b lo = .ok (b.drop lo.toNat) := by
  have : ¬ (lo < 0 ∨ lo > (b.length : Int)) := by omega
  simp [sliceFrom, len, this]

theorem slice_four (b : Bytes) (k : Nat) (h : 4 + k ≤ b.length) :
    slice b 4 (4 + (k : Int)) = .ok ((b.drop 4).take k) := by
  have h1 : ¬ (4 + (k : Int) < 0 ∨ 4 + (k : Int) > (b.length : Int)) := by omega
  have h2 : ¬ ((4 : Int) < 0 ∨ (4 : Int) > 4 + (k : Int)) := by omega
  have h3 : (4 + (k : Int)).toNat = 4 + k := by omega
  unfold slice len
  rw [if_neg h1, if_neg h2, h3]
  simp [List.drop_take]

theorem u8_int_eq_one (x : UInt8) : ((x.toNat : Int) = 1) ↔ x = 1 := by
  constructor
  · intro h
    have : x.toNat = (1 : UInt8).toNat := by simp; omega
    exact UInt8.toNat_inj.mp this
  · intro h; subst h; simp

theorem toI8_eq_zero (x : UInt8) : toI8 x.toNat = 0 ↔ x = 0 := by
  have := x.toNat_lt
  constructor
  · intro h
    have : x.toNat = (0 : UInt8).toNat := by
      unfold toI8 at h; simp; split at h <;> omega
    exact UInt8.toNat_inj.mp this
  · intro h; subst h; simp [toI8]

theorem tyByte_toI8 (x : UInt8) : tyByte (toI8 x.toNat) = x := by
  have := x.toNat_lt
  have h : ofInt 8 (toI8 x.toNat) = x.toNat := by
    unfold ofInt toI8; split <;> omega
  simp [tyByte, h]

theorem toI32_range (n : Nat) (h : n < 4294967296) : -2147483648 ≤ toI32 n ∧ toI32 n < 2147483648 := by
  unfold toI32; split <;> omega


theorem rd64_lt (b : Bytes) : rd64 b < 18446744073709551616 := by
  unfold rd64; have := rd32_lt b; have := rd32_lt (b.drop 4); omega

/-! ## scalar readers

  Every proof below: unfold both sides, split on the SEMANTIC condition (`b.length < n`), `go_simp` — which decides each
  `if` of either side with `omega` from that hypothesis, whatever its polarity or arithmetic shape. -/

theorem Binary_ReadBool_eq (b : Bytes) : liftRd (Funcs.Binary_ReadBool b) = Wire.binReadBool b := by
  unfold Funcs.Binary_ReadBool Wire.binReadBool
  by_cases h : b.length < 1
  · go_simp [h, liftRd, absErr, errShort, Facts.peINVALID_DATA]
  · have h0 : 0 < b.length := by omega
    by_cases hx : b[0] = 1 <;>
    go_simp [h, h0, hx, liftRd, idx_zero, u8_int_eq_one]

theorem Binary_ReadByte_eq (b : Bytes) : liftRd (Funcs.Binary_ReadByte b) = Wire.binReadByte b := by
  unfold Funcs.Binary_ReadByte Wire.binReadByte
  by_cases h : b.length < 1
  · go_simp [h, liftRd, absErr, errShort, Facts.peINVALID_DATA]
  · have h0 : 0 < b.length := by omega
    go_simp [h, h0, liftRd, idx_zero, wrap_i8_nat _ (b[0]'h0).toNat_lt]

theorem Binary_ReadI16_eq (b : Bytes) : liftRd (Funcs.Binary_ReadI16 b) = Wire.binReadI16 b := by
  unfold Funcs.Binary_ReadI16 Wire.binReadI16
  by_cases h : b.length < 2
  · go_simp [liftRd, absErr, errShort, Facts.peINVALID_DATA]
  · go_simp [liftRd, beU16, Wire.getU16, wrap_i16_nat _ (rd16_lt b)]

theorem Binary_ReadI32_eq (b : Bytes) : liftRd (Funcs.Binary_ReadI32 b) = Wire.binReadI32 b := by
  unfold Funcs.Binary_ReadI32 Wire.binReadI32
  by_cases h : b.length < 4
  · go_simp [liftRd, absErr, errShort, Facts.peINVALID_DATA]
  · go_simp [liftRd, beU32, Wire.getU32, wrap_i32_nat _ (rd32_lt b)]

theorem Binary_ReadI64_eq (b : Bytes) : liftRd (Funcs.Binary_ReadI64 b) = Wire.binReadI64 b := by
  unfold Funcs.Binary_ReadI64 Wire.binReadI64
  by_cases h : b.length < 8
  · go_simp [liftRd, absErr, errShort, Facts.peINVALID_DATA]
  · go_simp [liftRd, beU64, Wire.getU64, wrap_i64_nat _ (rd64_lt b)]

theorem Binary_ReadDouble_eq (b : Bytes) : liftRdDouble (Funcs.Binary_ReadDouble b) = Wire.binReadDouble b := by
  unfold Funcs.Binary_ReadDouble Wire.binReadDouble
  by_cases h : b.length < 8
  · go_simp [liftRdDouble, liftRdG, absErr, errShort, Facts.peINVALID_DATA]
  · go_simp [liftRdDouble, liftRdG, beU64, Wire.getU64]

/-! ## container headers -/

theorem Binary_ReadFieldBegin_eq (b : Bytes) :
    liftRdField (Funcs.Binary_ReadFieldBegin b) = Wire.binReadFieldBegin b := by
  unfold Funcs.Binary_ReadFieldBegin Wire.binReadFieldBegin
  by_cases h : b.length < 1
  · go_simp [h, liftRdField, liftRdG, absErr, errShort, Facts.peINVALID_DATA]
  · have h0 : 0 < b.length := by omega
    have hw := wrap_i8_nat _ (b[0]'h0).toNat_lt
    by_cases hs : b[0] = 0
    · go_simp [h, h0, hs, liftRdField, liftRdG, idx_zero, Wire.bAt, T_STOP, Facts.tSTOP, wrap, toU,
        IT.bits, IT.signed, tyByte, ofInt]
    · have hs' : ¬ toI8 (b[0]'h0).toNat = 0 := fun hc => hs ((toI8_eq_zero _).mp hc)
      by_cases h3 : b.length < 3
      · go_simp [h, h0, hs, hs', hw, liftRdField, liftRdG, idx_zero, Wire.bAt, T_STOP, Facts.tSTOP,
          absErr, errShort, Facts.peINVALID_DATA]
      · go_simp [h, h0, hs, hs', hw, sliceFrom_ok, liftRdField, liftRdG, idx_zero, Wire.bAt, T_STOP,
          Facts.tSTOP, Wire.bFrom, beU16, Wire.getU16, wrap_i16_nat _ (rd16_lt _), tyByte_toI8]

theorem Binary_ReadMapBegin_eq (b : Bytes) :
    liftRdMap (Funcs.Binary_ReadMapBegin b) = Wire.binReadMapBegin b := by
  unfold Funcs.Binary_ReadMapBegin Wire.binReadMapBegin
  by_cases h : b.length < 6
  · go_simp [liftRdMap, liftRdG, absErr, errShort, Facts.peINVALID_DATA]
  · have h0 : 0 < b.length := by omega
    have h1 : 1 < b.length := by omega
    have hw0 := wrap_i8_nat _ (b[0]'h0).toNat_lt
    have hw1 := wrap_i8_nat _ (b[1]'h1).toNat_lt
    go_simp [h0, h1, hw0, hw1, sliceFrom_ok, liftRdMap, liftRdG, idx_zero, idx_one, Wire.bAt, Wire.bFrom,
      beU32, Wire.getU32, tyByte_toI8]

theorem Binary_ReadListBegin_eq (b : Bytes) :
    liftRdList (Funcs.Binary_ReadListBegin b) = Wire.binReadListBegin b := by
  unfold Funcs.Binary_ReadListBegin Wire.binReadListBegin
  by_cases h : b.length < 5
  · go_simp [liftRdList, liftRdG, absErr, errShort, Facts.peINVALID_DATA]
  · have h0 : 0 < b.length := by omega
    have hne : b ≠ [] := List.ne_nil_of_length_pos h0
    have hw0 := wrap_i8_nat _ (b[0]'h0).toNat_lt
    go_simp [h0, hne, hw0, sliceFrom_ok, liftRdList, liftRdG, idx_zero, Wire.bAt, Wire.bFrom,
      beU32, Wire.getU32, tyByte_toI8]

theorem Binary_ReadSetBegin_eq (b : Bytes) :
    liftRdList (Funcs.Binary_ReadSetBegin b) = Wire.binReadSetBegin b := by
  unfold Funcs.Binary_ReadSetBegin Wire.binReadSetBegin
  by_cases h : b.length < 5
  · go_simp [liftRdList, liftRdG, absErr, errShort, Facts.peINVALID_DATA]
  · have h0 : 0 < b.length := by omega
    have hne : b ≠ [] := List.ne_nil_of_length_pos h0
    have hw0 := wrap_i8_nat _ (b[0]'h0).toNat_lt
    go_simp [h0, hne, hw0, sliceFrom_ok, liftRdList, liftRdG, idx_zero, Wire.bAt, Wire.bFrom,
      beU32, Wire.getU32, tyByte_toI8]

/-! ## ReadBinary / ReadString -/

theorem binReadI32_short (b : Bytes) (h : b.length < 4) : Wire.binReadI32 b = .err (errShort, 0) := by
  simp [Wire.binReadI32, h]

theorem binReadI32_long (b : Bytes) (h : ¬ b.length < 4) : Wire.binReadI32 b = .ok (toI32 (rd32 b), 4) := by
  simp [Wire.binReadI32, h, Wire.getU32]

/-- what `ReadI32` returns, in the Go result type (used where a caller inspects the result) -/
theorem Binary_ReadI32_cases (b : Bytes) :
    (b.length < 4 ∧ ∃ r, Funcs.Binary_ReadI32 b = .ok r ∧ r.2.2 ≠ GoErr.nil) ∨
    (¬ b.length < 4 ∧ Funcs.Binary_ReadI32 b = .ok (toI32 (rd32 b), 4, GoErr.nil)) := by
  unfold Funcs.Binary_ReadI32
  by_cases h : b.length < 4
  · left; refine ⟨h, ?_⟩
    go_simp
  · right; refine ⟨h, ?_⟩
    go_simp [beU32, wrap_i32_nat _ (rd32_lt b)]

/-- `b[lo:hi]` in range, in the models' form; the side conditions are discharged by `omega` in `go_simp` -/
theorem rd_slice_ok (b : Bytes) (lo hi : Int) (h0 : 0 ≤ lo) (h1 : lo ≤ hi) (h2 : hi ≤ (b.length : Int)) :
    slice b lo hi = .ok ((b.drop lo.toNat).take (hi.toNat - lo.toNat)) := by
  have hn : ¬ (hi < 0 ∨ hi > (b.length : Int)) := by omega
  have hm : ¬ (lo < 0 ∨ lo > hi) := by omega
  simp [slice, len, hn, hm, List.drop_take]

/-- `take`/`drop` with arithmetically equal counts -/
theorem rd_take_drop_congr (b : Bytes) (m m' k k' : Nat) (hm : m = m') (hk : k = k') :
    (b.drop m).take k = (b.drop m').take k' := by subst hm; subst hk; rfl

theorem Binary_ReadBinary_cases (g : Bool) (b : Bytes) :
    (∃ r, Funcs.Binary_ReadBinary g b = .ok r ∧ r.2.2 ≠ GoErr.nil ∧
        Wire.binReadBinary b = .err (absErr r.2.2, r.2.1.toNat)) ∨
    (∃ (s : Bytes) (n : Nat), Funcs.Binary_ReadBinary g b = .ok (s, (n : Int), GoErr.nil) ∧ Wire.binReadBinary b = .ok (s, n) ∧
        4 ≤ n ∧ n ≤ b.length ∧ n < 4294967296) := by
  unfold Funcs.Binary_ReadBinary Wire.binReadBinary
  rcases Binary_ReadI32_cases b with ⟨h, r, hr, he⟩ | ⟨h, hr⟩
  · left
    have hm := binReadI32_short b h
    go_simp [hr, he, hm, absErr, errShort, Facts.peINVALID_DATA]
  · have hm := binReadI32_long b h
    have ⟨hlo, hhi⟩ := toI32_range _ (rd32_lt b)
    by_cases hneg : toI32 (rd32 b) < 0
    · left; go_simp [hr, hm, absErr, errNeg, Facts.peNEGATIVE_SIZE]
    · obtain ⟨k, hk⟩ : ∃ k : Nat, toI32 (rd32 b) = (k : Int) := ⟨(toI32 (rd32 b)).toNat, by omega⟩
      rw [hk] at hlo hhi hneg
      by_cases hl : b.length < 4 + k
      · left
        go_simp [hr, hm, hk, wrap_i64_of_range, absErr, errShort, Facts.peINVALID_DATA]
      · right
        refine ⟨(b.drop 4).take k, 4 + k, ?_, ?_, by omega, by omega, by omega⟩
        · cases g <;> go_simp [hr, hk, wrap_i64_of_range, rd_slice_ok] <;>
            first | omega | (refine ⟨?_, by omega⟩; apply rd_take_drop_congr <;> omega)
        · go_simp [hm, hk]

theorem Binary_ReadString_cases (g : Bool) (b : Bytes) :
    (∃ r, Funcs.Binary_ReadString g b = .ok r ∧ r.2.2 ≠ GoErr.nil ∧
        Wire.binReadBinary b = .err (absErr r.2.2, r.2.1.toNat)) ∨
    (∃ (s : Bytes) (n : Nat), Funcs.Binary_ReadString g b = .ok (s, (n : Int), GoErr.nil) ∧ Wire.binReadBinary b = .ok (s, n) ∧
        4 ≤ n ∧ n ≤ b.length ∧ n < 4294967296) := by
  unfold Funcs.Binary_ReadString Wire.binReadBinary
  rcases Binary_ReadI32_cases b with ⟨h, r, hr, he⟩ | ⟨h, hr⟩
  · left
    have hm := binReadI32_short b h
    go_simp [hr, he, hm, absErr, errShort, Facts.peINVALID_DATA]
  · have hm := binReadI32_long b h
    have ⟨hlo, hhi⟩ := toI32_range _ (rd32_lt b)
    by_cases hneg : toI32 (rd32 b) < 0
    · left; go_simp [hr, hm, absErr, errNeg, Facts.peNEGATIVE_SIZE]
    · obtain ⟨k, hk⟩ : ∃ k : Nat, toI32 (rd32 b) = (k : Int) := ⟨(toI32 (rd32 b)).toNat, by omega⟩
      rw [hk] at hlo hhi hneg
      by_cases hl : b.length < 4 + k
      · left
        go_simp [hr, hm, hk, wrap_i64_of_range, absErr, errShort, Facts.peINVALID_DATA]
      · right
        refine ⟨(b.drop 4).take k, 4 + k, ?_, ?_, by omega, by omega, by omega⟩
        · cases g <;> go_simp [hr, hk, wrap_i64_of_range, rd_slice_ok] <;>
            first | omega | (refine ⟨?_, by omega⟩; apply rd_take_drop_congr <;> omega)
        · go_simp [hm, hk]

theorem Binary_ReadBinary_eq (g : Bool) (b : Bytes) :
    liftRd (Funcs.Binary_ReadBinary g b) = Wire.binReadBinary b := by
  rcases Binary_ReadBinary_cases g b with ⟨r, hr, he, hm⟩ | ⟨s, n, hr, hm, _⟩
  · simp [hr, hm, he, liftRd]
  · simp [hr, hm, liftRd]

theorem Binary_ReadString_eq (g : Bool) (b : Bytes) :
    liftRd (Funcs.Binary_ReadString g b) = Wire.binReadBinary b := by
  rcases Binary_ReadString_cases g b with ⟨r, hr, he, hm⟩ | ⟨s, n, hr, hm, _⟩
  · simp [hr, hm, he, liftRd]
  · simp [hr, hm, liftRd]

/-! ## ReadMessageBegin -/

theorem band_u32_nat (a m : Nat) (ha : a < 4294967296) (hm : m < 4294967296) :
    band .u32 (a : Int) (m : Int) = ((a &&& m : Nat) : Int) := by
  have h1 : toU 32 (a : Int) = (a : Int) := toU_of_range (by omega) (by simpa using (by omega : (a : Int) < 4294967296))
  have h2 : toU 32 (m : Int) = (m : Int) := toU_of_range (by omega) (by simpa using (by omega : (m : Int) < 4294967296))
  have h3 : a &&& m < 4294967296 := Nat.lt_of_le_of_lt Nat.and_le_left ha
  unfold band
  simp only [IT.bits, h1, h2, Int.toNat_natCast, Int.ofNat_eq_natCast]
  rw [wrap_u32]
  unfold ofInt
  omega

/-- `b[lo:]` at an offset arithmetically equal to the natural `m` (whatever expression computes it) -/
theorem rd_sliceFrom_at (b : Bytes) (m : Nat) (hm : m ≤ b.length) (lo : Int) (h : lo = (m : Int)) :
    sliceFrom b lo = .ok (b.drop m) := by
  subst h; rw [sliceFrom_ok b _ (by omega) (by omega)]; simp

theorem Binary_ReadMessageBegin_eq (g : Bool) (b : Bytes) :
    liftRdMsg (Funcs.Binary_ReadMessageBegin g b) = Wire.binReadMessageBegin b := by
  unfold Funcs.Binary_ReadMessageBegin Wire.binReadMessageBegin
  by_cases h : b.length < 4
  · go_simp [liftRdMsg, liftRdG, absErr, errShort, Facts.peINVALID_DATA]
  · have hv : band .u32 (rd32 b : Int) 4294901760 = ((rd32 b &&& 4294901760 : Nat) : Int) := by
      simpa using band_u32_nat (rd32 b) 4294901760 (rd32_lt b) (by omega)
    have ht : band .u32 (rd32 b : Int) 65535 = ((rd32 b &&& 65535 : Nat) : Int) := by
      simpa using band_u32_nat (rd32 b) 65535 (rd32_lt b) (by omega)
    have htl : rd32 b &&& 65535 ≤ 65535 := Nat.and_le_right
    have hsl := rd_sliceFrom_at b 4 (by omega)
    by_cases hver : rd32 b &&& 4294901760 = 2147549184
    · rcases Binary_ReadString_cases g (b.drop 4) with ⟨r, hr, he, hm⟩ | ⟨s, n, hr, hm, hn4, hnl, hnu⟩
      · go_simp [hv, ht, hsl, hver, hr, he, hm, wrap_i32_of_range, liftRdMsg, liftRdG, beU32, Wire.getU32,
          Wire.bFrom, Wire.orErr, Facts.msgVersionMask, Facts.msgVersion1, Facts.msgTypeMask, absErr, errShort,
          Facts.peINVALID_DATA]
      · have hdl : (b.drop 4).length = b.length - 4 := by simp
        have hn : 4 + n ≤ b.length := by omega
        have hsl2 := rd_sliceFrom_at b (4 + n) hn
        rcases Binary_ReadI32_cases (b.drop (4 + n)) with ⟨h2, r2, hr2, he2⟩ | ⟨h2, hr2⟩
        · have hm2 := binReadI32_short _ h2
          go_simp [hv, ht, hsl, hsl2, hver, hr, hm, hr2, he2, hm2, wrap_i32_of_range, wrap_i64_of_range, liftRdMsg,
            liftRdG, beU32, Wire.getU32, Wire.bFrom, Wire.orErr, Facts.msgVersionMask, Facts.msgVersion1,
            Facts.msgTypeMask, absErr, errShort, Facts.peINVALID_DATA]
        · have hm2 := binReadI32_long _ h2
          go_simp [hv, ht, hsl, hsl2, hver, hr, hm, hr2, hm2, wrap_i32_of_range, wrap_i64_of_range, liftRdMsg,
            liftRdG, beU32, Wire.getU32, Wire.bFrom, Wire.orErr, Facts.msgVersionMask, Facts.msgVersion1,
            Facts.msgTypeMask]
          all_goals omega   -- the returned length, whatever expression computes it
    · go_simp [hv, hver, liftRdMsg, liftRdG, beU32, Wire.getU32, Facts.msgVersionMask,
        Facts.msgVersion1, absErr, Wire.errBadVersion, Facts.peBAD_VERSION]

/-! ## the generated functions compute (non-vacuity) -/

example : Funcs.Binary_ReadI32 [0xff, 0xff, 0xff, 0xfe] = .ok (-2, 4, .nil) := by decide +kernel
example : Funcs.Binary_ReadBool [1, 7] = .ok (true, 1, .nil) := by decide
example : Funcs.Binary_ReadByte [0x80] = .ok (-128, 1, .nil) := by decide
example : Funcs.Binary_ReadI16 [0x80, 0x01] = .ok (-32767, 2, .nil) := by decide +kernel
example : Funcs.Binary_ReadFieldBegin [8, 0xff, 0xff] = .ok (8, -1, 3, .nil) := by decide +kernel
example : Funcs.Binary_ReadFieldBegin [0] = .ok (0, 0, 1, .nil) := by decide
example : Funcs.Binary_ReadMapBegin [11, 12, 0, 0, 1, 0] = .ok (11, 12, 256, 6, .nil) := by decide
example : Funcs.Binary_ReadListBegin [0x8b, 0xff, 0xff, 0xff, 0xff] = .ok (-117, 4294967295, 5, .nil) := by decide
example : liftRdList (Funcs.Binary_ReadListBegin [0x8b, 0xff, 0xff, 0xff, 0xff]) = .ok (0x8b, 4294967295, 5) := by decide
example : Funcs.Binary_ReadBinary true [0, 0, 0, 2, 0x68, 0x69, 0x21] = .ok ([0x68, 0x69], 6, .nil) := by decide +kernel
example : Funcs.Binary_ReadString false [0, 0, 0, 2, 0x68, 0x69, 0x21] = .ok ([0x68, 0x69], 6, .nil) := by decide +kernel
example : Funcs.Binary_ReadMessageBegin false [0x80, 1, 0, 1, 0, 0, 0, 1, 0x66, 0, 0, 0, 7] =
    .ok ([0x66], 1, 7, 13, .nil) := by decide +kernel
-- error values
example : Funcs.Binary_ReadI32 [1, 2, 3] = .ok (0, 0, .pe 1 "ReadI32: len(buf) < 4") := by decide
example : liftRd (Funcs.Binary_ReadString true [0xff, 0xff, 0xff, 0xff]) = .err (errNeg, 0) := by decide
example : liftRd (Funcs.Binary_ReadBinary false [0, 0, 0, 2, 0x68]) = .err (errShort, 4) := by decide
example : liftRdMsg (Funcs.Binary_ReadMessageBegin true [0x80, 2, 0, 1, 0, 0, 0, 0, 0, 0, 0, 7]) =
    .err (Wire.errBadVersion, 0) := by decide
-- panics: no reader panics on any input (every access is guarded, which is what the `_eq` theorems transport);
-- the primitives they are built from do
example : beU32 [1, 2, 3] = .panic "index" := by decide
example : GoSem.idx [] 0 = .panic "index" := by decide
example : slice [1, 2, 3, 4, 5] 4 3 = .panic "slice" := by decide
example : liftRd (do let t ← beU32 [1, 2, 3]; pure (wrap .i32 t, 4, GoErr.nil)) = (.panic "index" : Wire.BOut (Int × Nat)) := by
  decide

end Verif.FuncsEq

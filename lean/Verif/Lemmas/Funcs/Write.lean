/-
  Lemmas/Funcs/Write: the 14 in-place writers `Binary.Write*` TRANSLATED from protocol/thrift/binary.go
  (`Verif.Funcs.Binary_Write*`, generated) are the hand-written model writers `Wire.w*`.

  Shape of every theorem: `liftW (Funcs.Binary_WriteX buf (off : Int) args) = Wire.wX buf off args'` under
  `off ≤ buf.length` (the view `buf[off:]` exists: in Go the caller's slicing would have panicked otherwise),
  including the KIND of panic.  `Binary_WriteBinary/String/MessageBegin` also need `buf.length < 2^63`
  (`len` is a Go `int`): the returned count `4 + copy(…)` is computed in `int`.

  Method: every view primitive of `GoSem` and every slice primitive of `Model/Wire` has a normal form
  `if <arithmetic on Nat> then ok (Wire.putAt …) else panic …` (`*_nf`); a theorem unfolds both sides, splits on
  the semantic conditions (`off + k ≤ buf.length`) and calls `wsimp`, which decides every `if` with `omega`
  from those hypotheses — whatever syntactic shape the generated conditions have.
-/
import Verif.Lemmas.Funcs.Base
namespace Verif.FuncsEq
open Verif Verif.GoSem

/-! ## primitives: the views of `GoSem` against the slice primitives of `Model/Wire` -/

theorem putAt_eq (b : Bytes) (o : Nat) (bs : Bytes) : GoSem.putAt b o bs = Wire.putAt b o bs := rfl

theorem putAt_length (b : Bytes) (o : Nat) (bs : Bytes) (h : o + bs.length ≤ b.length) :
    (Wire.putAt b o bs).length = b.length := by
  simp [Wire.putAt]; omega

/-- normal forms of the view operations at a natural offset -/
theorem vset_nf (whole : Bytes) (off : Nat) (i x : Int) (hi : 0 ≤ i) :
    vset whole (off : Int) i x =
      if off + i.toNat < whole.length then .ok (Wire.putAt whole (off + i.toNat) [byteOf x]) else .panic "index" := by
  have e : ((off : Int) + i).toNat = off + i.toNat := by omega
  unfold vset vlen len
  by_cases c : off + i.toNat < whole.length
  · have c' : ¬ (i < 0 ∨ i ≥ (whole.length : Int) - off) := by omega
    simp [c, c', e, putAt_eq]
  · have c' : (i < 0 ∨ i ≥ (whole.length : Int) - off) := by omega
    simp [c, c']

theorem vfrom_nf (whole : Bytes) (off : Nat) (lo : Int) (hlo : 0 ≤ lo) :
    vfrom whole (off : Int) lo =
      if off + lo.toNat ≤ whole.length then .ok ((off + lo.toNat : Nat) : Int) else .panic "slice" := by
  unfold vfrom vlen len
  by_cases c : off + lo.toNat ≤ whole.length
  · have c' : ¬ (lo < 0 ∨ lo > (whole.length : Int) - off) := by omega
    simp [c, c']; omega
  · have c' : (lo < 0 ∨ lo > (whole.length : Int) - off) := by omega
    simp [c, c']

theorem vputU16_nf (whole : Bytes) (off : Nat) (x : Int) :
    vputU16 whole (off : Int) x =
      if off + 2 ≤ whole.length then .ok (Wire.putAt whole off (be16 (ofInt 16 x))) else .panic "index" := by
  unfold vputU16 vlen len
  by_cases c : off + 2 ≤ whole.length
  · have c' : ¬ ((whole.length : Int) - off < 2) := by omega
    simp [c, c', putAt_eq, toU, ofInt]
  · have c' : ((whole.length : Int) - off < 2) := by omega
    simp [c, c']

theorem vputU32_nf (whole : Bytes) (off : Nat) (x : Int) :
    vputU32 whole (off : Int) x =
      if off + 4 ≤ whole.length then .ok (Wire.putAt whole off (be32 (ofInt 32 x))) else .panic "index" := by
  unfold vputU32 vlen len
  by_cases c : off + 4 ≤ whole.length
  · have c' : ¬ ((whole.length : Int) - off < 4) := by omega
    simp [c, c', putAt_eq, toU, ofInt]
  · have c' : ((whole.length : Int) - off < 4) := by omega
    simp [c, c']

theorem vputU64_nf (whole : Bytes) (off : Nat) (x : Int) :
    vputU64 whole (off : Int) x =
      if off + 8 ≤ whole.length then .ok (Wire.putAt whole off (be64 (ofInt 64 x))) else .panic "index" := by
  unfold vputU64 vlen len
  by_cases c : off + 8 ≤ whole.length
  · have c' : ¬ ((whole.length : Int) - off < 8) := by omega
    simp [c, c', putAt_eq, toU, ofInt]
  · have c' : ((whole.length : Int) - off < 8) := by omega
    simp [c, c']

theorem vcopy_nf (whole : Bytes) (off : Nat) (src : Bytes) :
    vcopy whole (off : Int) src =
      (Wire.putAt whole off (src.take (min (whole.length - off) src.length)),
       ((min (whole.length - off) src.length : Nat) : Int)) := by
  have e : ((whole.length : Int) - (off : Int)).toNat = whole.length - off := by omega
  simp only [vcopy, vlen, len, e, putAt_eq, Int.toNat_natCast]

/-- normal forms of the model's slice primitives -/
theorem setB_nf (buf : Bytes) (off i : Nat) (x : UInt8) :
    Wire.setB buf off i x =
      if off + i < buf.length then .ok (Wire.putAt buf (off + i) [x])
      else if off ≤ buf.length then .panic "index" else .panic "slice" := by
  unfold Wire.setB
  by_cases c0 : off > buf.length
  · have c : ¬ off + i < buf.length := by omega
    have c1 : ¬ off ≤ buf.length := by omega
    simp [c0, c, c1]
  · have c1 : off ≤ buf.length := by omega
    by_cases c : off + i < buf.length
    · have c' : i < buf.length - off := by omega
      simp [c, c', c0]
    · have c' : ¬ i < buf.length - off := by omega
      simp [c, c', c0, c1]

theorem putU16_nf (buf : Bytes) (off n : Nat) :
    Wire.putU16 buf off n =
      if off + 2 ≤ buf.length then .ok (Wire.putAt buf off (be16 n))
      else if off ≤ buf.length then .panic "index" else .panic "slice" := by
  unfold Wire.putU16
  by_cases c0 : off > buf.length
  · have c : ¬ off + 2 ≤ buf.length := by omega
    have c1 : ¬ off ≤ buf.length := by omega
    simp [c0, c, c1]
  · have c1 : off ≤ buf.length := by omega
    by_cases c : off + 2 ≤ buf.length
    · have c' : ¬ buf.length - off < 2 := by omega
      simp [c, c', c0]
    · have c' : buf.length - off < 2 := by omega
      simp [c, c', c0, c1]

theorem putU32_nf (buf : Bytes) (off n : Nat) :
    Wire.putU32 buf off n =
      if off + 4 ≤ buf.length then .ok (Wire.putAt buf off (be32 n))
      else if off ≤ buf.length then .panic "index" else .panic "slice" := by
  unfold Wire.putU32
  by_cases c0 : off > buf.length
  · have c : ¬ off + 4 ≤ buf.length := by omega
    have c1 : ¬ off ≤ buf.length := by omega
    simp [c0, c, c1]
  · have c1 : off ≤ buf.length := by omega
    by_cases c : off + 4 ≤ buf.length
    · have c' : ¬ buf.length - off < 4 := by omega
      simp [c, c', c0]
    · have c' : buf.length - off < 4 := by omega
      simp [c, c', c0, c1]

theorem putU64_nf (buf : Bytes) (off n : Nat) :
    Wire.putU64 buf off n =
      if off + 8 ≤ buf.length then .ok (Wire.putAt buf off (be64 n))
      else if off ≤ buf.length then .panic "index" else .panic "slice" := by
  unfold Wire.putU64
  by_cases c0 : off > buf.length
  · have c : ¬ off + 8 ≤ buf.length := by omega
    have c1 : ¬ off ≤ buf.length := by omega
    simp [c0, c, c1]
  · have c1 : off ≤ buf.length := by omega
    by_cases c : off + 8 ≤ buf.length
    · have c' : ¬ buf.length - off < 8 := by omega
      simp [c, c', c0]
    · have c' : buf.length - off < 8 := by omega
      simp [c, c', c0, c1]

theorem copyAt_nf (buf : Bytes) (off : Nat) (src : Bytes) :
    Wire.copyAt buf off src =
      if off ≤ buf.length then
        .ok (Wire.putAt buf off (src.take (min (buf.length - off) src.length)), min (buf.length - off) src.length)
      else .panic "slice" := by
  unfold Wire.copyAt
  by_cases c : off ≤ buf.length
  · have c0 : ¬ off > buf.length := by omega
    simp [c, c0]
  · have c0 : off > buf.length := by omega
    simp [c, c0]

/-! ## the primitive correspondences themselves (under `off ≤ len`, the view exists) -/

theorem vset_eq (buf : Bytes) (off : Nat) (i x : Int) (hi : 0 ≤ i) (h : off ≤ buf.length) :
    liftP (vset buf (off : Int) i x) = Wire.setB buf off i.toNat (byteOf x) := by
  rw [vset_nf _ _ _ _ hi, setB_nf]; simp only [h, if_true]; split <;> rfl

theorem vputU16_eq (buf : Bytes) (off : Nat) (x : Int) (h : off ≤ buf.length) :
    liftP (vputU16 buf (off : Int) x) = Wire.putU16 buf off (ofInt 16 x) := by
  rw [vputU16_nf, putU16_nf]; simp only [h, if_true]; split <;> rfl

theorem vputU32_eq (buf : Bytes) (off : Nat) (x : Int) (h : off ≤ buf.length) :
    liftP (vputU32 buf (off : Int) x) = Wire.putU32 buf off (ofInt 32 x) := by
  rw [vputU32_nf, putU32_nf]; simp only [h, if_true]; split <;> rfl

theorem vputU64_eq (buf : Bytes) (off : Nat) (x : Int) (h : off ≤ buf.length) :
    liftP (vputU64 buf (off : Int) x) = Wire.putU64 buf off (ofInt 64 x) := by
  rw [vputU64_nf, putU64_nf]; simp only [h, if_true]; split <;> rfl

theorem vcopy_eq (buf : Bytes) (off : Nat) (src : Bytes) (h : off ≤ buf.length) :
    (.ok ((vcopy buf (off : Int) src).1, (vcopy buf (off : Int) src).2.toNat) : TOut (Bytes × Nat)) =
      Wire.copyAt buf off src := by
  rw [vcopy_nf, copyAt_nf]; simp [h]


/-! ## values -/

theorem ofInt_wrap_u8 (x : Int) : ofInt 8 (wrap .u8 x) = ofInt 8 x := by
  rw [wrap_u8]; unfold ofInt; omega
theorem ofInt_wrap_u16 (x : Int) : ofInt 16 (wrap .u16 x) = ofInt 16 x := by
  rw [wrap_u16]; unfold ofInt; omega
theorem ofInt_wrap_u32 (x : Int) : ofInt 32 (wrap .u32 x) = ofInt 32 x := by
  rw [wrap_u32]; unfold ofInt; omega
theorem ofInt_wrap_u64 (x : Int) : ofInt 64 (wrap .u64 x) = ofInt 64 x := by
  rw [wrap_u64]; unfold ofInt; omega

theorem byteOf_wrap_u8 (x : Int) : byteOf (wrap .u8 x) = UInt8.ofNat (ofInt 8 x) := by
  rw [byteOf_eq, ofInt_wrap_u8]

theorem ofNat_toI8 (t : UInt8) : UInt8.ofNat (ofInt 8 (toI8 t.toNat)) = t := by
  have := t.toNat_lt
  have e : ofInt 8 (toI8 t.toNat) = t.toNat := by
    unfold ofInt toI8; split <;> omega
  rw [e]; simp


theorem byteOf_zero : byteOf 0 = 0 := by decide
theorem byteOf_one : byteOf 1 = 1 := by decide

theorem ofNat_congr (a b : Nat) (h : a % 256 = b % 256) : UInt8.ofNat a = UInt8.ofNat b := by
  apply UInt8.toNat_inj.mp; simp [UInt8.toNat_ofNat']; exact h

theorem be32_mod (n : Nat) : be32 (n % 4294967296) = be32 n := by
  unfold be32
  congr 1
  · apply ofNat_congr; omega
  congr 1
  · apply ofNat_congr; omega
  congr 1
  · apply ofNat_congr; omega
  congr 1
  · apply ofNat_congr; omega

theorem be32_ofInt_nat (n : Nat) : be32 (ofInt 32 (n : Int)) = be32 n := by
  have : ofInt 32 (n : Int) = n % 4294967296 := by unfold ofInt; omega
  rw [this, be32_mod]

theorem be64_ofInt_nat (n : Nat) : be64 (ofInt 64 (n : Int)) = be64 n := by
  have e : ofInt 64 (n : Int) = n % 18446744073709551616 := by unfold ofInt; omega
  have e1 : n % 18446744073709551616 / 4294967296 = (n / 4294967296) % 4294967296 := by omega
  have e2 : be32 (n % 18446744073709551616) = be32 n := by
    rw [← be32_mod, ← be32_mod n]; congr 1; omega
  rw [e]; unfold be64; rw [e1, be32_mod, e2]

theorem ofInt_nat_small (n : Nat) (h : n < 4294967296) : ofInt 32 (n : Int) = n := by
  unfold ofInt; omega

theorem msgHeader_eq (typ : Int) :
    ofInt 32 (bor .u32 2147549184 (wrap .u32 (band .i32 typ 65535))) = Wire.msgHeader typ := by
  have e1 : (toU 32 typ).toNat = ofInt 32 typ := rfl
  have e2 : (toU 32 65535).toNat = 65535 := by decide
  have e3 : (toU 32 2147549184).toNat = 2147549184 := by decide
  have ha : ofInt 32 typ &&& 65535 ≤ 65535 := Nat.and_le_right
  generalize hA : ofInt 32 typ &&& 65535 = A at ha
  have hb : band .i32 typ 65535 = (A : Int) := by
    unfold band; simp only [IT.bits, e1, e2, Int.ofNat_eq_natCast, hA]
    apply wrap_i32_of_range <;> omega
  have hc : wrap .u32 (A : Int) = (A : Int) := by
    rw [wrap_u32, ofInt_nat_small]; omega
  have hd : (toU 32 (A : Int)).toNat = A := by
    rw [toU_ofInt, Int.toNat_natCast, ofInt_nat_small]; omega
  have hlt : 2147549184 ||| A < 2 ^ 32 :=
    Nat.or_lt_two_pow (by omega) (by omega)
  rw [hb, hc]; unfold bor; simp only [IT.bits, e3, hd, Int.ofNat_eq_natCast]
  rw [ofInt_wrap_u32, ofInt_nat_small _ (by omega)]
  unfold Wire.msgHeader Facts.msgVersion1 Facts.msgTypeMask
  rw [hA]

/-- Go's `|`, `&`, `^` commute: a refactoring that swaps the operands changes the generated term, not its value -/
theorem bor_comm (t : IT) (a b : Int) : bor t a b = bor t b a := by unfold bor; rw [Nat.or_comm]
theorem band_comm (t : IT) (a b : Int) : band t a b = band t b a := by unfold band; rw [Nat.and_comm]
theorem bxor_comm (t : IT) (a b : Int) : bxor t a b = bxor t b a := by unfold bxor; rw [Nat.xor_comm]

/-- `msgHeader_eq` with the operands of `|` swapped -/
theorem msgHeader_eq' (typ : Int) :
    ofInt 32 (bor .u32 (wrap .u32 (band .i32 typ 65535)) 2147549184) = Wire.msgHeader typ := by
  rw [bor_comm]; exact msgHeader_eq typ

theorem liftW_ok (b : Bytes) (n : Int) : liftW (.ok (b, n)) = .ok (b, n.toNat) := rfl
theorem liftW_panic (s : String) : liftW (.panic s) = .panic s := rfl

/-- lengths after a store, unconditionally (so that nested stores reduce to arithmetic on `buf.length`) -/
theorem putAt_len1 (b : Bytes) (o : Nat) (x : UInt8) :
    (Wire.putAt b o [x]).length = min o b.length + 1 + (b.length - (o + 1)) := by
  simp [Wire.putAt]; omega
theorem putAt_len_be16 (b : Bytes) (o n : Nat) :
    (Wire.putAt b o (be16 n)).length = min o b.length + 2 + (b.length - (o + 2)) := by
  simp [Wire.putAt]; omega
theorem putAt_len_be32 (b : Bytes) (o n : Nat) :
    (Wire.putAt b o (be32 n)).length = min o b.length + 4 + (b.length - (o + 4)) := by
  simp [Wire.putAt]; omega
theorem putAt_len_be64 (b : Bytes) (o n : Nat) :
    (Wire.putAt b o (be64 n)).length = min o b.length + 8 + (b.length - (o + 8)) := by
  simp [Wire.putAt]; omega
theorem putAt_len_take (b : Bytes) (o k : Nat) (src : Bytes) :
    (Wire.putAt b o (src.take k)).length =
      min o b.length + min k src.length + (b.length - (o + min k src.length)) := by
  simp [Wire.putAt]; omega

theorem T_STOP_eq : T_STOP = 0 := by decide

/-- unfolds every translated writer that occurs in the goal, repeatedly: a writer that the Go source makes delegate to a
    sibling (`WriteSetBegin` → `p.WriteListBegin`, `WriteDouble` → `p.WriteI64`) is opened down to the view primitives,
    whoever calls whom -/
macro "unfold_writers" : tactic => `(tactic| repeat (first
  | unfold Funcs.Binary_WriteMessageBegin | unfold Funcs.Binary_WriteFieldBegin | unfold Funcs.Binary_WriteFieldStop
  | unfold Funcs.Binary_WriteMapBegin | unfold Funcs.Binary_WriteListBegin | unfold Funcs.Binary_WriteSetBegin
  | unfold Funcs.Binary_WriteBool | unfold Funcs.Binary_WriteByte | unfold Funcs.Binary_WriteI16
  | unfold Funcs.Binary_WriteI32 | unfold Funcs.Binary_WriteI64 | unfold Funcs.Binary_WriteDouble
  | unfold Funcs.Binary_WriteBinary | unfold Funcs.Binary_WriteString))

/-- one simp set for all writers: primitives to their normal forms, `if`s decided by `omega` from the semantic
    case hypotheses in the context, whatever arithmetic shape the conditions have; what is left is an equation between
    two `putAt` towers whose offsets / counts are arithmetically equal (`congr_omega`) -/
macro "wsimp" : tactic => `(tactic| (
  unfold_writers
  simp (disch := go_disch) only [vset_nf, vfrom_nf, vputU16_nf, vputU32_nf, vputU64_nf, vcopy_nf,
    setB_nf, putU16_nf, putU32_nf, putU64_nf, copyAt_nf,
    putAt_len1, putAt_len_be16, putAt_len_be32, putAt_len_be64, putAt_len_take,
    wrap_i64_of_range, Int.toNat_add, Int.toNat_natCast, Int.toNat_zero, Int.toNat_one, Int.reduceToNat,
    Nat.add_zero, Nat.add_assoc, Nat.reduceAdd,
    if_pos, if_neg, Bool.false_eq_true, Bool.not_true, Bool.not_false, eq_self, if_true, if_false, T_STOP_eq, be64_ofInt_nat, Out.bind_ok, Out.bind_panic, Out.pure_eq, Out.bind_eq, liftW_ok, liftW_panic,
    wrap_wrap, ofInt_wrap, byteOf_wrap_u8, ofNat_toI8, byteOf_zero, byteOf_one,
    ofInt_wrap_u16, ofInt_wrap_u32, ofInt_wrap_u64, be32_ofInt_nat, msgHeader_eq, msgHeader_eq', len]
  <;> congr_omega))

theorem Binary_WriteFieldStop_eq (buf : Bytes) (off : Nat) (h : off ≤ buf.length) :
    liftW (Funcs.Binary_WriteFieldStop buf (off : Int)) = Wire.wFieldStop buf off := by
  unfold Wire.wFieldStop
  unfold_writers
  by_cases h1 : off + 1 ≤ buf.length
  · wsimp
  · wsimp

theorem Binary_WriteFieldBegin_eq (buf : Bytes) (off : Nat) (t : UInt8) (id : Int) (h : off ≤ buf.length) :
    liftW (Funcs.Binary_WriteFieldBegin buf (off : Int) (toI8 t.toNat) id) = Wire.wFieldBegin buf off t id := by
  unfold Wire.wFieldBegin
  unfold_writers
  by_cases h1 : off + 1 ≤ buf.length
  · by_cases h3 : off + 3 ≤ buf.length
    · wsimp
    · wsimp
  · wsimp

theorem Binary_WriteMapBegin_eq (buf : Bytes) (off : Nat) (kt vt : UInt8) (size : Int) (h : off ≤ buf.length) :
    liftW (Funcs.Binary_WriteMapBegin buf (off : Int) (toI8 kt.toNat) (toI8 vt.toNat) size) =
      Wire.wMapBegin buf off kt vt size := by
  unfold Wire.wMapBegin
  unfold_writers
  by_cases h1 : off + 1 ≤ buf.length
  · by_cases h2 : off + 2 ≤ buf.length
    · by_cases h6 : off + 6 ≤ buf.length
      · wsimp
      · wsimp
    · wsimp
  · wsimp

theorem Binary_WriteListBegin_eq (buf : Bytes) (off : Nat) (et : UInt8) (size : Int) (h : off ≤ buf.length) :
    liftW (Funcs.Binary_WriteListBegin buf (off : Int) (toI8 et.toNat) size) = Wire.wListBegin buf off et size := by
  unfold Wire.wListBegin
  unfold_writers
  by_cases h1 : off + 1 ≤ buf.length
  · by_cases h5 : off + 5 ≤ buf.length
    · wsimp
    · wsimp
  · wsimp

theorem Binary_WriteSetBegin_eq (buf : Bytes) (off : Nat) (et : UInt8) (size : Int) (h : off ≤ buf.length) :
    liftW (Funcs.Binary_WriteSetBegin buf (off : Int) (toI8 et.toNat) size) = Wire.wSetBegin buf off et size := by
  unfold Wire.wSetBegin
  unfold_writers
  by_cases h1 : off + 1 ≤ buf.length
  · by_cases h5 : off + 5 ≤ buf.length
    · wsimp
    · wsimp
  · wsimp

theorem Binary_WriteBool_eq (buf : Bytes) (off : Nat) (v : Bool) (h : off ≤ buf.length) :
    liftW (Funcs.Binary_WriteBool buf (off : Int) v) = Wire.wBool buf off v := by
  unfold Wire.wBool
  unfold_writers
  by_cases h1 : off + 1 ≤ buf.length <;> cases v
  all_goals wsimp

theorem Binary_WriteByte_eq (buf : Bytes) (off : Nat) (v : Int) (h : off ≤ buf.length) :
    liftW (Funcs.Binary_WriteByte buf (off : Int) v) = Wire.wByte buf off v := by
  unfold Wire.wByte
  unfold_writers
  by_cases h1 : off + 1 ≤ buf.length
  · wsimp
  · wsimp

theorem Binary_WriteI16_eq (buf : Bytes) (off : Nat) (v : Int) (h : off ≤ buf.length) :
    liftW (Funcs.Binary_WriteI16 buf (off : Int) v) = Wire.wI16 buf off v := by
  unfold Wire.wI16
  unfold_writers
  by_cases h1 : off + 2 ≤ buf.length
  · wsimp
  · wsimp

theorem Binary_WriteI32_eq (buf : Bytes) (off : Nat) (v : Int) (h : off ≤ buf.length) :
    liftW (Funcs.Binary_WriteI32 buf (off : Int) v) = Wire.wI32 buf off v := by
  unfold Wire.wI32
  unfold_writers
  by_cases h1 : off + 4 ≤ buf.length
  · wsimp
  · wsimp

theorem Binary_WriteI64_eq (buf : Bytes) (off : Nat) (v : Int) (h : off ≤ buf.length) :
    liftW (Funcs.Binary_WriteI64 buf (off : Int) v) = Wire.wI64 buf off v := by
  unfold Wire.wI64
  unfold_writers
  by_cases h1 : off + 8 ≤ buf.length
  · wsimp
  · wsimp

theorem Binary_WriteDouble_eq (buf : Bytes) (off : Nat) (bits : Nat) (h : off ≤ buf.length) :
    liftW (Funcs.Binary_WriteDouble buf (off : Int) (bits : Int)) = Wire.wDouble buf off bits := by
  unfold Wire.wDouble
  unfold_writers
  by_cases h1 : off + 8 ≤ buf.length
  · wsimp
  · wsimp


theorem Binary_WriteBinary_eq (buf : Bytes) (off : Nat) (v : Bytes) (h : off ≤ buf.length)
    (hlen : buf.length < 2 ^ 63) :
    liftW (Funcs.Binary_WriteBinary buf (off : Int) v) = Wire.wBinary buf off v := by
  unfold Wire.wBinary
  unfold_writers
  by_cases h4 : off + 4 ≤ buf.length
  · wsimp
  · wsimp

theorem Binary_WriteString_eq (buf : Bytes) (off : Nat) (v : Bytes) (h : off ≤ buf.length)
    (hlen : buf.length < 2 ^ 63) :
    liftW (Funcs.Binary_WriteString buf (off : Int) v) = Wire.wBinary buf off v := by
  unfold Wire.wBinary
  unfold_writers
  by_cases h4 : off + 4 ≤ buf.length
  · wsimp
  · wsimp

theorem Binary_WriteMessageBegin_eq (buf : Bytes) (off : Nat) (name : Bytes) (typ seq : Int)
    (h : off ≤ buf.length) (hlen : buf.length < 2 ^ 63) :
    liftW (Funcs.Binary_WriteMessageBegin buf (off : Int) name typ seq) =
      Wire.wMessageBegin buf off name typ seq := by
  unfold Wire.wMessageBegin
  unfold_writers
  by_cases h4 : off + 4 ≤ buf.length
  · by_cases h8 : off + 8 ≤ buf.length
    · by_cases h12 : off + 8 + min (buf.length - (off + 8)) name.length + 4 ≤ buf.length
      · wsimp
      · wsimp
    · wsimp
  · wsimp


/-! ## the generated functions compute (non-vacuity) -/

example : Funcs.Binary_WriteI32 [9, 9, 9, 9, 9, 9] 1 258 = .ok ([9, 0, 0, 1, 2, 9], 4) := by decide
example : Funcs.Binary_WriteI16 [9, 9, 9] 1 (-2) = .ok ([9, 255, 254], 2) := by decide
example : Funcs.Binary_WriteFieldBegin [7, 7, 7, 7] 1 8 258 = .ok ([7, 8, 1, 2], 3) := by decide
example : Funcs.Binary_WriteBool [7] 0 true = .ok ([1], 1) := by decide
/-- `copy` truncates silently: 2 of the 3 bytes fit, the length prefix still says 3, the result is 4 + 2 -/
example : Funcs.Binary_WriteBinary [7, 7, 7, 7, 7, 7] 0 [1, 2, 3] = .ok ([0, 0, 0, 3, 1, 2], 6) := by decide
example : liftW (Funcs.Binary_WriteBinary [7, 7, 7, 7, 7, 7] 0 [1, 2, 3]) = Wire.wBinary [7, 7, 7, 7, 7, 7] 0 [1, 2, 3] := by
  decide
/-- panics: a short slice is an index panic of `PutUint32` / of `buf[0] = …` -/
example : Funcs.Binary_WriteI32 [9, 9, 9, 9] 1 5 = .panic "index" := by decide
example : Funcs.Binary_WriteFieldStop [9] 1 = .panic "index" := by decide
example : Funcs.Binary_WriteMessageBegin [0, 0, 0, 0, 0, 0, 0, 0, 0, 0, 0] 0 [97, 98, 99, 100] 1 7 = .panic "index" := by
  decide
/-- outside the hypothesis `off ≤ buf.length` (no such view exists in Go: the caller's `buf[off:]` panics first) the
    two sides are different objects: the model reports the caller's slice panic, the translation an index panic -/
example : liftW (Funcs.Binary_WriteByte [] 1 0) = .panic "index" ∧ Wire.wByte [] 1 0 = .panic "slice" := by decide

end Verif.FuncsEq

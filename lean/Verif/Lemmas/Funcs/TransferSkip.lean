/-
  Lemmas/Funcs/TransferSkip: helper lemmas for Props/Translated (undoing the result lifts); split per group so that a
  property's check only depends on the translated functions it is about.
-/
import Verif.Lemmas.Funcs.Skip
namespace Verif.FuncsEq
open Verif Verif.GoSem


/-- the canonical error `.pe k` with a non-zero type id is the image of exactly the Go values
    `NewProtocolException(k, _)`: `nil` and foreign error values go to `.pe 0` -/
theorem absErr_pe_inv {e : GoErr} {k : Int} (h : absErr e = .pe k) (hk : k ≠ 0) : ∃ msg, e = .pe k msg := by
  cases e with
  | nil => simp [absErr] at h; exact absurd h.symm hk
  | pe id msg => simp [absErr] at h; exact ⟨msg, by rw [h]⟩
  | named n => simp [absErr] at h; exact absurd h.symm hk

/-! ## `liftSkip` -/

theorem liftSkip_ok_inv {x : GM (Int × GoErr)} {n : Nat} (h : liftSkip x = .ok n) :
    ∃ m : Int, x = .ok (m, GoErr.nil) ∧ m.toNat = n := by
  cases x with
  | ok r =>
    obtain ⟨m, g⟩ := r
    by_cases hg : g = GoErr.nil
    · subst hg; simp [liftSkip] at h; exact ⟨m, rfl, h⟩
    · simp [liftSkip, hg] at h
  | err e => exact nomatch e
  | panic s => simp [liftSkip] at h
  | oob => simp [liftSkip] at h

theorem liftSkip_err_inv {x : GM (Int × GoErr)} {e : TErr} (h : liftSkip x = .err e) :
    ∃ (m : Int) (g : GoErr), x = .ok (m, g) ∧ g ≠ GoErr.nil ∧ absErr g = e := by
  cases x with
  | ok r =>
    obtain ⟨m, g⟩ := r
    by_cases hg : g = GoErr.nil
    · subst hg; simp [liftSkip] at h
    · simp [liftSkip, hg] at h; exact ⟨m, g, rfl, hg, h⟩
  | err e => exact nomatch e
  | panic s => simp [liftSkip] at h
  | oob => simp [liftSkip] at h

/-- a lifted outcome that is neither a panic nor `oob` comes from a translated function that returned normally -/
theorem liftSkip_returns {x : GM (Int × GoErr)} (h : (liftSkip x).Safe) : ∃ r, x = .ok r := by
  cases x with
  | ok r => exact ⟨r, rfl⟩
  | err e => exact nomatch e
  | panic s => exact absurd rfl (h.1 s)
  | oob => exact absurd rfl h.2

/-! ## `liftMaps`, `liftSec`, `liftSecH`, `liftEofS`, `liftEof` -/


end Verif.FuncsEq

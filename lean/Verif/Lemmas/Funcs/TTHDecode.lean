/-
  Lemmas/Funcs/TTHDecode: `ttheader.Decode(ctx, in bufiox.Reader)` (protocol/ttheader/decode.go:69), which the translator
  (`extract/funcs.go`) turns into `Verif.Funcs.tth_Decode` (and the transform-id loop `tth_Decode_loop1`) on every
  run, IS the hand-written model `TTH.decodeG` of `Verif.Model.TTHeader` that the decode property theorems are about,
  for every reader `next : σ → Int → RdRes × σ` (instances: the bufiox reader model `Rd.next`, the plain cursor
  `Cur.next`).

  Representation
  * the `bufiox.Reader` argument is the abstract reader state `σ` with behaviour `iOfNext next errOf : ReaderI σ`:
    `.ok b` ↦ `(b, nil)`, `.fail (some e)` ↦ `(nil, errOf e)`, `.fail none` ↦ `(nil, nil)` — the model's `nextBytes`
    continues with the empty slice there, and so does the translation, which only tests `err != nil` —, `.nofuel`
    (the reader MODEL's fuel) ↦ `panic "nofuel"`;
  * `liftDec errBack` : `(in', param, err)` ↦ `DOut DecParam × Option σ`: `err == nil` ↦ `.ok (paramM param)` (field by
    field; `IntInfo` through TTH2's `imapM`), a non-nil error ↦ its class by the format string (`decErr`), an error of
    `in.Next` read back by `errBack`; the reader state is `some in'`. A Go panic carries no reader state (`none`);
    `panic "nofuel"` ↦ `.err .nofuel`. The `param` returned next to an error is ignored;
  * `obsDec` : the model result as far as the translation can show it. (1) `fmt.Errorf("ttHeader read kv info failed,
    %s, headerInfo=%#x", err.Error(), …)` is ONE Go error for every failure of readKVInfo — the translation drops the
    arguments that only feed the message — so the model's `.section` and `.infoId` are one class (`mergeKV`);
    (2) the model returns the reader state also next to a panic / `.nofuel`; the translation cannot (`GM` has no
    state in `panic`), so the state is compared exactly when Decode RETURNS (a value or an error).

  Hypotheses of `tth_Decode_eq`
  * `ErrOK errOf errBack`: `errOf e ≠ nil` and `decErr errBack (errOf e) = .rd e` (the rendering of reader errors
    is never nil, is not one of Decode's own five errors, and is read back); `rdErrOf`/`rdErrBack` is an instance;
  * `NextBounded next`: an `.ok b` answer to a request for 2 … 65536 bytes has `b.length ≤ 65536` (weaker than the
    `Next` contract `len = n`; NOT needed for agreement on index panics — a short answer makes both sides panic
    alike — but for the fuel: the translation runs readKVInfo on the caller's fuel, the model on `len + 1`);
  * `65537 ≤ fuel` (the transform loop runs ≤ 255 times, the section loop ≤ 65536 times).
  No hypothesis on the first `Next(14)`: whatever slice it returns, both sides slice / index it alike.
-/
import Verif.Lemmas.Funcs.TTH2
import Verif.Model.TTHeader
import Verif.Lemmas.TthDec
namespace Verif.FuncsEq
open Verif Verif.GoSem

/-! ## a model reader as a `ReaderI` -/

/-- the behaviour of a `bufiox.Reader` whose `Next` is the model function `next`; `errOf` renders a reader error as a
    Go error value. `.fail none` (Next returned a nil slice with a nil error) is the pair `([], nil)`: the model's
    `TTH.nextBytes` continues with the empty slice in that case, and so does the translated Decode, which only tests
    `err != nil`. `.nofuel` (the reader model ran out of fuel) is `panic "nofuel"`. The other four methods are not
    called by Decode. -/
def iOfNext {σ : Type} (next : σ → Int → RdRes × σ) (errOf : RErr → GoErr) : ReaderI σ where
  next s n :=
    match next s n with
    | (.ok b, s') => .ok ((b, GoErr.nil), s')
    | (.fail (some e), s') => .ok (([], errOf e), s')
    | (.fail none, s') => .ok (([], GoErr.nil), s')
    | (.nofuel, _) => .panic "nofuel"
  peek s _ := .ok (([], GoErr.named "iOfNext:unused"), s)
  skip s _ := .ok (GoErr.named "iOfNext:unused", s)
  readBinary s _ := .ok (([], 0, GoErr.named "iOfNext:unused"), s)
  readLen _ := 0

/-- a concrete rendering of the reader errors -/
def rdErrOf : RErr → GoErr
  | .eof => .named "io.EOF"
  | .noProgress => .named "io.ErrNoProgress"
  | .negCount => .named "bufiox:errNegativeCount"
  | .src k => .pe (k : Int) "bufiox:source error"

/-- and back -/
def rdErrBack : GoErr → Option RErr
  | .named s =>
    if s = "io.EOF" then some .eof
    else if s = "io.ErrNoProgress" then some .noProgress
    else if s = "bufiox:errNegativeCount" then some .negCount
    else none
  | .pe k s => if s = "bufiox:source error" ∧ 0 ≤ k then some (.src k.toNat) else none
  | .nil => none

/-! ## the lift -/

def errNotTTH : GoErr := .named "errors.New:not TTHeader protocol"
def errBadSize : GoErr := .named "fmt.Errorf:invalid header length[%d]"
def errProto : GoErr := .named "fmt.Errorf:unsupported ProtocolID[%d]"
def errTransforms : GoErr := .named "fmt.Errorf:need read %d transformIDs, but not enough"
def errKV : GoErr := .named "fmt.Errorf:ttHeader read kv info failed, %s, headerInfo=%#x"

/-- the model's error class of a non-nil error returned by the translated Decode: its own five errors by their format
    strings; anything else is an error of `in.Next`, decoded by `errBack` (an error that is neither is sent to
    `.nofuel`, which the equality then excludes). The translation of
    `fmt.Errorf("ttHeader read kv info failed, %s, headerInfo=%#x", err.Error(), headerInfo)` drops the arguments, so
    the incomplete-section error and the unknown-info-id error of readKVInfo are ONE error here: `.section`
    (see `mergeKV`). -/
def decErr (errBack : GoErr → Option RErr) (e : GoErr) : TTH.DErr :=
  if e = errNotTTH then .notTTHeader
  else if e = errBadSize then .badSize
  else if e = errProto then .protocol
  else if e = errTransforms then .transforms
  else if e = errKV then .section
  else match errBack e with
    | some r => .rd r
    | none => .nofuel

/-- `DecodeParam` field by field -/
def paramM (p : Funcs.S_ttheader_DecodeParam) : TTH.DecParam :=
  { flags := p.Flags.toNat, seq := p.SeqID, proto := p.ProtocolID.toNat, intKV := p.IntInfo.map imapM,
    strKV := p.StrInfo, headerLen := p.HeaderLen, payloadLen := p.PayloadLen }

/-- `(in', param, err)` of the translated Decode as the model's outcome and the reader afterwards. A Go panic carries
    no reader state (`none`); `panic "nofuel"` — which only the reader model's own fuel produces, see `iOfNext` — is the
    model's `.err .nofuel`. The `param` returned next to an error is ignored. -/
def liftDec {σ : Type} (errBack : GoErr → Option RErr) (x : GM (σ × Funcs.S_ttheader_DecodeParam × GoErr)) :
    TTH.DOut TTH.DecParam × Option σ :=
  match x with
  | .ok r => (if r.2.2 = .nil then .ok (paramM r.2.1) else .err (decErr errBack r.2.2), some r.1)
  | .panic s => (if s = "nofuel" then .err .nofuel else .panic s, none)
  | .oob => (.oob, none)
  | .err e => nomatch e

/-- what the lift can see of the model's error classes: the two readKVInfo errors are one -/
def mergeKV : TTH.DErr → TTH.DErr
  | .infoId => .section
  | e => e

/-- the model's result as far as the translation can show it: error classes through `mergeKV`, the reader state
    whenever Decode returns (a value or an error), not after a panic / fuel exhaustion of the reader model -/
def obsDec {σ : Type} (r : TTH.DOut TTH.DecParam × σ) : TTH.DOut TTH.DecParam × Option σ :=
  match r.1 with
  | .ok p => (.ok p, some r.2)
  | .err .nofuel => (.err .nofuel, none)
  | .err e => (.err (mergeKV e), some r.2)
  | .panic s => (.panic s, none)
  | .oob => (.oob, none)

/-! ## the model's section loop does not depend on the fuel once there is enough of it -/

theorem readKVInfo_fuel (b : Bytes) (hb : b.length < 4611686018427387904) :
    ∀ (f1 f2 idx : Nat) (m : TTH.Maps), idx ≤ b.length → b.length - idx < f1 → b.length - idx < f2 →
      TTH.readKVInfo b f1 idx m = TTH.readKVInfo b f2 idx m := by
  intro f1
  induction f1 with
  | zero => intro f2 idx m hi h1 h2; omega
  | succ f ih =>
    intro f2 idx m hi h1 h2
    cases f2 with
    | zero => omega
    | succ g =>
      rw [TTH.readKVInfo, TTH.readKVInfo, m_u8 b idx hb (by omega)]
      by_cases c : idx < b.length
      · simp only [c, if_true, Out.bind_ok]
        split
        · exact ih g (idx + 1) m (by omega) (by omega) (by omega)
        · split
          · have S := readStrKVInfo_spec b (b.length + 1) (idx + 1) (TTH.mk m.str) hb (by omega) (by omega)
            cases hr : TTH.readStrKVInfo b (idx + 1) (TTH.mk m.str) with
            | ok r =>
              rw [hr] at S
              obtain ⟨_, h3, h4⟩ := S
              simp only [Out.bind_ok]
              exact ih g r.1 _ (by omega) (by omega) (by omega)
            | err e => rfl
            | panic s => rfl
            | oob => rfl
          · split
            · have S := readIntKVInfo_spec b (b.length + 1) (idx + 1) (TTH.mk m.int) hb (by omega) (by omega)
              cases hr : TTH.readIntKVInfo b (idx + 1) (TTH.mk m.int) with
              | ok r =>
                rw [hr] at S
                obtain ⟨_, h3, h4⟩ := S
                simp only [Out.bind_ok]
                exact ih g r.1 _ (by omega) (by omega) (by omega)
              | err e => rfl
              | panic s => rfl
              | oob => rfl
            · split
              · have S := readACLToken_spec b (idx + 1) (TTH.mk m.str) hb (by omega)
                cases hr : TTH.readACLToken b (idx + 1) (TTH.mk m.str) with
                | ok r =>
                  rw [hr] at S
                  obtain ⟨_, h3, h4⟩ := S
                  simp only [Out.bind_ok]
                  exact ih g r.1 _ (by omega) (by omega) (by omega)
                | err e => rfl
                | panic s => rfl
                | oob => rfl
              · rfl
      · simp [c]

/-! ## the transform-id loop -/

theorem transformLoop_eq (info : Bytes) :
    ∀ (k hd : Nat), hd ≤ info.length →
      TTH.transformLoop info k hd = if hd + k ≤ info.length then .ok (hd + k) else .panic "index" := by
  intro k
  induction k with
  | zero => intro hd h; simp [TTH.transformLoop, h]
  | succ n ih =>
    intro hd h
    rw [TTH.transformLoop]
    by_cases c : hd < info.length
    · have : info[hd]? = some info[hd] := List.getElem?_eq_getElem c
      simp only [TTH.index, this, Out.bind_ok]
      rw [ih (hd + 1) (by omega)]
      by_cases c2 : hd + 1 + n ≤ info.length
      · have c3 : hd + (n + 1) ≤ info.length := by omega
        simp only [c2, c3, if_true]; congr 1; omega
      · have c3 : ¬ hd + (n + 1) ≤ info.length := by omega
        simp only [c2, c3, if_false]
    · have c3 : ¬ hd + (n + 1) ≤ info.length := by omega
      have : info[hd]? = none := List.getElem?_eq_none (by omega)
      simp [TTH.index, this, c3]

/-- The transform-id loop, for ANY function `L` that satisfies the loop's two defining equations (one more round
    below the bound, done at the bound). The generated `Funcs.tth_Decode_loop1 I info …` is such an `L` whatever its
    parameter list is (a refactoring of the Go source changes the number / order of the variables the loop function
    is closed over, e.g. `for i := range transformIDs`), so this lemma does not mention it; `tth_Decode_eq` finds
    the call in its goal and proves the two equations there by unfolding. -/
theorem decLoop_gen {R : Type} (info : Bytes) (hb : info.length < 4611686018427387904) (n : Nat)
    (hn : n < 4611686018427387904) (L : Nat → Int → Bytes → Int → GM (LoopR R (Int × Bytes × Int)))
    (hstep : ∀ (f : Nat) (hd i : Int) (tids : Bytes), i < (n : Int) →
      L (f + 1) hd tids i = (GoSem.idx info hd).bind fun t => (GoSem.vset tids 0 i t).bind fun tids' =>
        L f (wrap .i64 (hd + 1)) tids' (wrap .i64 (i + 1)))
    (hdone : ∀ (f : Nat) (hd i : Int) (tids : Bytes), ¬ i < (n : Int) →
      L (f + 1) hd tids i = .ok (.done (hd, tids, i))) :
    ∀ (k fuel hd i : Nat) (tids : Bytes) (hdI iI : Int), hdI = (hd : Int) → iI = (i : Int) →
      i + k = n → tids.length = n → k < fuel → hd ≤ info.length →
      if hd + k ≤ info.length then
        ∃ t', L fuel hdI tids iI = .ok (.done (((hd + k : Nat) : Int), t', (n : Int)))
      else L fuel hdI tids iI = .panic "index" := by
  intro k
  induction k with
  | zero =>
    intro fuel hd i tids hdI iI ehd ei hi ht hf hh
    subst ehd ei
    cases fuel with
    | zero => omega
    | succ f =>
      have hi' : i = n := by omega
      rw [hdone f _ _ _ (by omega)]
      simp [hh, hi']
  | succ k ih =>
    intro fuel hd i tids hdI iI ehd ei hi ht hf hh
    subst ehd ei
    cases fuel with
    | zero => omega
    | succ f =>
      rw [hstep f _ _ _ (by omega)]
      by_cases c : hd < info.length
      · have e1 : wrap .i64 ((hd : Int) + 1) = ((hd + 1 : Nat) : Int) := by rw [wrap_i64_id] <;> omega
        have e2 : wrap .i64 ((i : Int) + 1) = ((i + 1 : Nat) : Int) := by rw [wrap_i64_id] <;> omega
        have hv : ¬ ((i : Int) < 0 ∨ (i : Int) ≥ vlen tids 0) := by unfold vlen len; omega
        simp only [idx_ok info (hd : Int) (by omega) (by omega), Out.bind_ok, vset, hv, if_false, e1, e2]
        have := ih f (hd + 1) (i + 1) (putAt tids ((0 : Int) + (i : Int)).toNat
          [byteOf ((info[(hd : Int).toNat]'(by simp; omega)).toNat : Int)]) _ _ rfl rfl (by omega)
          (by simp [putAt]; omega) (by omega) (by omega)
        by_cases c2 : hd + 1 + k ≤ info.length
        · have c3 : hd + (k + 1) ≤ info.length := by omega
          simp only [c2, c3, if_true] at this ⊢
          obtain ⟨t', h⟩ := this
          exact ⟨t', by rw [h]; congr 3; omega⟩
        · have c3 : ¬ hd + (k + 1) ≤ info.length := by omega
          simp only [c2, c3, if_false] at this ⊢
          exact this
      · have c3 : ¬ hd + (k + 1) ≤ info.length := by omega
        have : info[hd]? = none := List.getElem?_eq_none (by omega)
        have hn0 : ¬ ((hd : Int) < 0) := by omega
        simp [c3, GoSem.idx, hn0, this]

/-! ## Decode -/

/-- what the theorem needs of the rendering of reader errors: never nil, and read back by the lift -/
def ErrOK (errOf : RErr → GoErr) (errBack : GoErr → Option RErr) : Prop :=
  ∀ e, errOf e ≠ GoErr.nil ∧ decErr errBack (errOf e) = .rd e

/-- what the theorem needs of `next`: the answer to a request for 2 … 65536 bytes is not longer than 65536 bytes -/
def NextBounded {σ : Type} (next : σ → Int → RdRes × σ) : Prop :=
  ∀ s n b s', 2 ≤ n → n ≤ 65536 → next s n = (RdRes.ok b, s') → b.length ≤ 65536

theorem sliceTo_ok (b : Bytes) (hi : Int) (h0 : 0 ≤ hi) (h1 : hi ≤ (b.length : Int)) :
    GoSem.sliceTo b hi = .ok (b.take hi.toNat) := by
  unfold GoSem.sliceTo len
  have hn : ¬ (hi < 0 ∨ hi > (b.length : Int)) := by omega
  simp [hn]

/-- the header-info size both sides compute from the 14 meta bytes (`uint32(uint16 field) * 4`, in the width Tie A reports) -/
def metaSize (b : Bytes) : Nat := rd16 ((b.drop 12).take 2) * 4 % 2 ^ 32

/-- the model's meta part, explicitly -/
theorem decodeMeta_eq (b : Bytes) (l8 : 8 ≤ b.length) :
    TTH.decodeMeta b =
      if rd32 (b.drop 4) &&& 4294901760 = 268435456 then
        if b.length < 14 then .panic "slice"
        else if metaSize b > 65536 ∨ metaSize b < 2 then .err .badSize
        else .ok { total := rd32 (b.take 4), flags := rd16 (b.drop 6), seq := toI32 (rd32 ((b.drop 8).take 4)),
                   size := metaSize b }
      else .err .notTTHeader := by
  unfold TTH.decodeMeta metaSize
  by_cases hx : rd32 (b.drop 4) &&& 4294901760 = 268435456
  · by_cases l12 : b.length < 12
    · go_simp [hx, TTH.isTTHeader, TTH.sliceFrom, TTH.beU32, TTH.beU16, TTH.slice, Facts.ttSize32, Facts.ttSize16,
        Facts.ttMagicMask, Facts.ttMagic, Facts.ttMetaSize]
    · by_cases l14 : b.length < 14
      · go_simp [hx, TTH.isTTHeader, TTH.sliceFrom, TTH.beU32, TTH.beU16, TTH.slice, Facts.ttSize32, Facts.ttSize16,
          Facts.ttMagicMask, Facts.ttMagic, Facts.ttMetaSize]
      · go_simp [hx, TTH.isTTHeader, TTH.sliceFrom, TTH.beU32, TTH.beU16, TTH.slice, Facts.ttSize32, Facts.ttSize16,
          Facts.ttMagicMask, Facts.ttMagic, Facts.ttMetaSize, Facts.ttHeaderSizeBits, Facts.ttMaxHeaderSize]
  · go_simp [hx, TTH.isTTHeader, TTH.sliceFrom, TTH.beU32, Facts.ttSize32, Facts.ttMagicMask, Facts.ttMagic]

theorem idx_getD (b : Bytes) (i : Nat) (h : i < b.length) :
    GoSem.idx b (i : Int) = .ok (((b.getD i 0).toNat : Nat) : Int) := by
  rw [idx_ok b (i : Int) (by omega) (by omega)]
  simp [List.getD_eq_getElem?_getD, List.getElem?_eq_getElem h]

theorem idx_panic (b : Bytes) (i : Nat) (h : b.length ≤ i) : GoSem.idx b (i : Int) = .panic "index" := by
  have hn : ¬ ((i : Int) < 0) := by omega
  have : b[i]? = none := List.getElem?_eq_none h
  simp [GoSem.idx, hn, this]

theorem index_getD (b : Bytes) (i : Nat) (h : i < b.length) : TTH.index b i = .ok (b.getD i 0) := by
  simp [TTH.index, List.getD_eq_getElem?_getD, List.getElem?_eq_getElem h]

theorem index_panic (b : Bytes) (i : Nat) (h : b.length ≤ i) : TTH.index b i = .panic "index" := by
  have : b[i]? = none := List.getElem?_eq_none h
  simp [TTH.index, this]

set_option linter.unusedSimpArgs false in
/-- checkProtocolID with its error value -/
theorem checkProtocolID_out (p : Nat) :
    Funcs.tth_checkProtocolID (p : Int) = .ok (if TTH.checkProtocolID p then GoErr.nil else errProto) := by
  unfold Funcs.tth_checkProtocolID TTH.checkProtocolID
  by_cases h0 : p = 0
  · subst h0; rfl
  by_cases h4 : p = 4
  · subst h4; rfl
  by_cases h3 : p = 3
  · subst h3; rfl
  by_cases h16 : p = 16
  · subst h16; rfl
  by_cases h17 : p = 17
  · subst h17; rfl
  have k0 : ¬ ((p : Int) = 0) := by omega
  have k4 : ¬ ((p : Int) = 4) := by omega
  have k3 : ¬ ((p : Int) = 3) := by omega
  have k16 : ¬ ((p : Int) = 16) := by omega
  have k17 : ¬ ((p : Int) = 17) := by omega
  simp [h0, h4, h3, h16, h17, k0, k4, k3, k16, k17, errProto, Facts.ttProtocolAllow]

/-- the model's section loop never panics -/
theorem readKVInfo_not_panic (b : Bytes) (fuel idx : Nat) (m : TTH.Maps) (why : String) :
    TTH.readKVInfo b fuel idx m ≠ .panic why := by
  have h := TTH.readKVInfo_ref b fuel idx m
  split at h
  · rw [h]; simp
  · obtain ⟨e, he, _⟩ := h; rw [he]; simp

/-- the three things a call of `Next` can be, on both sides -/
theorem iOfNext_cases {σ : Type} (next : σ → Int → RdRes × σ) (errOf : RErr → GoErr) (s : σ) (n : Int) :
    ((iOfNext next errOf).next s n = .panic "nofuel" ∧ TTH.nextBytes (next s n).1 = .err .nofuel) ∨
    (∃ e, (iOfNext next errOf).next s n = .ok (([], errOf e), (next s n).2)
        ∧ TTH.nextBytes (next s n).1 = .err (.rd e)) ∨
    (∃ info, (iOfNext next errOf).next s n = .ok ((info, GoErr.nil), (next s n).2)
        ∧ TTH.nextBytes (next s n).1 = .ok info ∧ (info = [] ∨ ∃ s', next s n = (RdRes.ok info, s'))) := by
  rcases h : next s n with ⟨r, s'⟩
  cases r with
  | nofuel => exact Or.inl (by simp [iOfNext, h, TTH.nextBytes])
  | fail e =>
    cases e with
    | none => exact Or.inr (Or.inr ⟨[], by simp [iOfNext, h, TTH.nextBytes]⟩)
    | some e => exact Or.inr (Or.inl ⟨e, by simp [iOfNext, h, TTH.nextBytes]⟩)
  | ok b => exact Or.inr (Or.inr ⟨b, by simp [iOfNext, h, TTH.nextBytes]⟩)

theorem slice_panic_hi (b : Bytes) (lo hi : Int) (h : hi > (b.length : Int)) : GoSem.slice b lo hi = .panic "slice" := by
  unfold GoSem.slice len; simp [h]

set_option linter.unusedSimpArgs false in
theorem tth_Decode_eq {σ : Type} (next : σ → Int → RdRes × σ) (errOf : RErr → GoErr) (errBack : GoErr → Option RErr)
    (hE : ErrOK errOf errBack) (hN : NextBounded next) (fuel : Nat) (hf : 65537 ≤ fuel) (s : σ) :
    liftDec errBack (Funcs.tth_Decode (iOfNext next errOf) fuel s) = obsDec (TTH.decodeG next s) := by
  unfold Funcs.tth_Decode TTH.decodeG
  simp only [Facts.ttMetaSize, show ((14 : Nat) : Int) = 14 from rfl]
  rcases iOfNext_cases next errOf s 14 with ⟨h1g, h1m⟩ | ⟨e, h1g, h1m⟩ | ⟨b, h1g, h1m, -⟩
  · simp [h1g, h1m, liftDec, obsDec]
  · simp [h1g, h1m, (hE e).1, (hE e).2, liftDec, obsDec, mergeKV]
  generalize (next s 14).2 = s1 at h1g ⊢
  simp only [h1g, h1m, Out.bind_ok, Out.bind_eq,
    Out.pure_eq, ne_eq, not_true, decide_false, Bool.false_eq_true, if_false]
  by_cases l4 : b.length < 4
  · have g : Funcs.tth_IsTTHeader b = .panic "slice" := by
      go_simp [Funcs.tth_IsTTHeader, tth_sliceFrom_panic]
    have m : TTH.decodeMeta b = .panic "slice" := by
      go_simp [TTH.decodeMeta, TTH.isTTHeader, TTH.sliceFrom, Facts.ttSize32]
    simp only [g, m, Out.bind_panic]
    simp [liftDec, obsDec]
  by_cases l8 : b.length < 8
  · have g : Funcs.tth_IsTTHeader b = .panic "index" := by
      go_simp [Funcs.tth_IsTTHeader, sliceFrom_ok, beU32]
    have m : TTH.decodeMeta b = .panic "index" := by
      go_simp [TTH.decodeMeta, TTH.isTTHeader, TTH.sliceFrom, TTH.beU32, Facts.ttSize32]
    simp only [g, m, Out.bind_panic]
    simp [liftDec, obsDec]
  rw [decodeMeta_eq b (by omega)]
  have hb : band .u32 ((rd32 (b.drop 4) : Nat) : Int) 4294901760
      = ((rd32 (b.drop 4) &&& 4294901760 : Nat) : Int) :=
    band_u32_nat (rd32 (b.drop 4)) 4294901760 (rd32_lt _) (by omega)
  by_cases hx : rd32 (b.drop 4) &&& 4294901760 = 268435456
  · have hx' : ((rd32 (b.drop 4) &&& 4294901760 : Nat) : Int) = 268435456 := by omega
    have g1 : Funcs.tth_IsTTHeader b = .ok true := by
      go_simp [Funcs.tth_IsTTHeader, sliceFrom_ok, beU32, hb, hx']
    have g2 : Funcs.tth_Bytes2Uint32NoCheck (b.take 4) = .ok ((rd32 (b.take 4) : Nat) : Int) := by
      go_simp [Funcs.tth_Bytes2Uint32NoCheck, beU32]
    have g3 : Funcs.tth_Bytes2Uint16NoCheck (b.drop 6) = .ok ((rd16 (b.drop 6) : Nat) : Int) := by
      go_simp [Funcs.tth_Bytes2Uint16NoCheck, beU16]
    have q1 : GoSem.sliceTo b 4 = .ok (b.take 4) := by simpa using sliceTo_ok b 4 (by omega) (by omega)
    have q2 : GoSem.sliceFrom b 6 = .ok (b.drop 6) := by simpa using sliceFrom_ok b 6 (by omega) (by omega)
    simp only [g1, q1, g2, q2, g3, Out.bind_ok, Bool.not_true, Bool.false_eq_true, if_false, hx, if_true]
    by_cases l12 : b.length < 12
    · have l14 : b.length < 14 := by omega
      have g4 : GoSem.slice b 8 12 = .panic "slice" := slice_panic_hi b 8 12 (by omega)
      simp [g4, l14, liftDec, obsDec]
    · have q3 : GoSem.slice b 8 12 = .ok ((b.drop 8).take 4) := by
        simpa using slice_ok b 8 12 (by omega) (by omega) (by omega)
      have g6 : Funcs.tth_Bytes2Uint32NoCheck ((b.drop 8).take 4) = .ok ((rd32 ((b.drop 8).take 4) : Nat) : Int) := by
        go_simp [Funcs.tth_Bytes2Uint32NoCheck, beU32]
      simp only [q3, g6, Out.bind_ok]
      by_cases l14 : b.length < 14
      · have g5 : GoSem.slice b 12 14 = .panic "slice" := slice_panic_hi b 12 14 (by omega)
        simp [g5, l14, liftDec, obsDec]
      · have q4 : GoSem.slice b 12 14 = .ok ((b.drop 12).take 2) := by
          simpa using slice_ok b 12 14 (by omega) (by omega) (by omega)
        have g7 : Funcs.tth_Bytes2Uint16NoCheck ((b.drop 12).take 2)
            = .ok ((rd16 ((b.drop 12).take 2) : Nat) : Int) := by
          go_simp [Funcs.tth_Bytes2Uint16NoCheck, beU16]
        have hr := rd16_lt ((b.drop 12).take 2)
        have e1 : wrap .u32 (((rd16 ((b.drop 12).take 2) : Nat) : Int) * 4) = ((metaSize b : Nat) : Int) := by
          rw [wrap_u32]; unfold ofInt metaSize; omega
        simp only [q4, g7, Out.bind_ok, e1, l14, if_false]
        have hms : metaSize b < 4294967296 := by unfold metaSize; omega
        generalize metaSize b = size at hms
        by_cases hs : size > 65536 ∨ size < 2
        · -- the atoms, not the disjunction: `a || b` and `b || a` both close
          rcases hs with h | h
          · have a1 : (65536 < (size : Int)) := by omega
            have a2 : ¬ ((size : Int) < 2) := by omega
            simp [h, a1, a2, liftDec, obsDec, errBadSize, errNotTTH, decErr, mergeKV]
          · have a1 : ¬ (65536 < (size : Int)) := by omega
            have a2 : ((size : Int) < 2) := by omega
            simp [h, a1, a2, liftDec, obsDec, errBadSize, errNotTTH, decErr, mergeKV]
        · have hs' : ¬ (65536 < (size : Int) ∨ (size : Int) < 2) := by omega
          have hs1 : ¬ ((size : Int) > 65536) := by omega
          have hs2 : ¬ ((size : Int) < 2) := by omega
          simp only [hs, hs1, hs2, if_false, decide_false, Bool.or_false, Bool.false_eq_true]
          have hfl := rd16_lt (b.drop 6)
          have hsq := rd32_lt ((b.drop 8).take 4)
          have htot := rd32_lt (b.take 4)
          generalize rd16 (b.drop 6) = fl at hfl
          generalize rd32 ((b.drop 8).take 4) = sq at hsq
          generalize rd32 (b.take 4) = tot at htot
          -- the second Next
          rcases iOfNext_cases next errOf s1 (size : Int) with ⟨h2g, h2m⟩ | ⟨e, h2g, h2m⟩ | ⟨info, h2g, h2m, h2l⟩
          · simp [h2g, h2m, liftDec, obsDec]
          · simp [h2g, h2m, (hE e).1, (hE e).2, liftDec, obsDec, mergeKV]
          have hlen : info.length ≤ 65536 := by
            rcases h2l with h | ⟨s', h⟩
            · simp [h]
            · exact hN s1 (size : Int) info s' (by omega) (by omega) h
          clear h2l
          generalize (next s1 (size : Int)).2 = s2 at h2g ⊢
          simp only [h2g, h2m, Out.bind_ok, not_true, decide_false, Bool.false_eq_true, if_false]
          have hb62 : info.length < 4611686018427387904 := by omega
          by_cases i0 : info.length < 1
          · have a0 : GoSem.idx info 0 = .panic "index" := by simpa using idx_panic info 0 (by omega)
            simp [a0, TTH.decodeInfo, index_panic info 0 (by omega), liftDec, obsDec]
          have a0 : GoSem.idx info 0 = .ok (((info.getD 0 0).toNat : Nat) : Int) := by
            simpa using idx_getD info 0 (by omega)
          unfold TTH.decodeInfo
          simp only [a0, Out.bind_ok, checkProtocolID_out, index_getD info 0 (by omega)]
          generalize (info.getD 0 0).toNat = p0
          by_cases hc : TTH.checkProtocolID p0
          · simp only [hc, if_true, not_true, decide_false, Bool.false_eq_true, if_false, Bool.not_true]
            by_cases i1 : info.length < 2
            · have a1 : GoSem.idx info 1 = .panic "index" := by simpa using idx_panic info 1 (by omega)
              simp [a1, index_panic info 1 (by omega), liftDec, obsDec]
            have a1 : GoSem.idx info 1 = .ok (((info.getD 1 0).toNat : Nat) : Int) := by
              simpa using idx_getD info 1 (by omega)
            simp only [a1, Out.bind_ok, index_getD info 1 (by omega)]
            have htn : (info.getD 1 0).toNat < 256 := UInt8.toNat_lt _
            generalize (info.getD 1 0).toNat = tn at htn
            have e2 : wrap .i64 ((size : Int) - 2) = (size : Int) - 2 := by rw [wrap_i64_id] <;> omega
            simp only [e2]
            by_cases ht : (size : Int) - 2 < (tn : Int)
            · simp [ht, liftDec, obsDec, decErr, errNotTTH, errBadSize, errProto, errTransforms, mergeKV]
            · have hmk : makeBytes (tn : Int) = .ok (List.replicate tn 0) := by
                have : ¬ ((tn : Int) < 0) := by omega
                simp [makeBytes, this]
              simp only [ht, decide_false, Bool.false_eq_true, if_false, hmk, Out.bind_ok,
                transformLoop_eq info tn 2 (by omega)]
              -- the call of the loop function, whatever its parameter list is (longest first: a shorter pattern
              -- would elaborate to a partial application)
              first
                | generalize hc : Funcs.tth_Decode_loop1 _ _ _ _ _ _ _ _ _ _ = call
                | generalize hc : Funcs.tth_Decode_loop1 _ _ _ _ _ _ _ _ _ = call
                | generalize hc : Funcs.tth_Decode_loop1 _ _ _ _ _ _ _ _ = call
                | generalize hc : Funcs.tth_Decode_loop1 _ _ _ _ _ _ _ = call
                | generalize hc : Funcs.tth_Decode_loop1 _ _ _ _ _ _ = call
              have L : if 2 + tn ≤ info.length then
                    ∃ t', call = .ok (.done (((2 + tn : Nat) : Int), t', (tn : Int)))
                  else call = .panic "index" := by
                rw [← hc]
                exact decLoop_gen info hb62 tn (by omega) _
                  (by intro f hd i tids h
                      have h' : ¬ ((tn : Int) ≤ i) := by omega
                      simp [Funcs.tth_Decode_loop1, h, h', len])
                  (by intro f hd i tids h
                      have h' : (tn : Int) ≤ i := by omega
                      simp [Funcs.tth_Decode_loop1, h, h', len])
                  tn fuel 2 0 _ _ _ rfl rfl (by omega) (by simp) (by omega) (by omega)
              clear hc
              by_cases hl : 2 + tn ≤ info.length
              · simp only [hl, if_true] at L
                obtain ⟨t', hL⟩ := L
                simp only [hL, hl, if_true, Out.bind_ok]
                have K := tth_readKVInfo_eq info fuel (2 + tn) hb62 (by omega) (by omega)
                rw [readKVInfo_fuel info hb62 fuel (info.length + 1) (2 + tn) _ hl (by omega) (by omega)] at K
                have NP := readKVInfo_not_panic info (info.length + 1) (2 + tn) ⟨none, none⟩
                rw [← K] at NP ⊢
                have e3 : wrap .u32 ((size : Int) + 14) = (((size + 14) % 4294967296 : Nat) : Int) := by
                  rw [wrap_u32]; unfold ofInt; omega
                have e4 : wrap .i64 ((tot : Int) + 4) = (tot : Int) + 4 := by rw [wrap_i64_id] <;> omega
                have e6 : wrap .i32 (sq : Int) = toI32 sq := wrap_i32_nat sq hsq
                generalize Funcs.tth_readKVInfo fuel ((2 + tn : Nat) : Int) info = x at NP
                cases x with
                | ok r =>
                  obtain ⟨ri, rs, re⟩ := r
                  by_cases hr : re = GoErr.nil
                  · subst hr
                    simp [liftMaps, liftDec, obsDec, paramM, e3, e4, e6, Facts.ttMetaSize, Facts.ttSize32]
                    rw [wrap_i64_id] <;> omega
                  · by_cases hi : re = infoIdErr
                    · subst hi
                      simp [infoIdErr, liftMaps, liftDec, obsDec, decErr, errNotTTH, errBadSize, errProto,
                        errTransforms, errKV, mergeKV]
                    · simp [hr, hi, liftMaps, liftDec, obsDec, decErr, errNotTTH, errBadSize, errProto, errTransforms,
                        errKV, mergeKV]
                | panic why =>
                  exact absurd rfl (NP why)
                | oob => simp [liftMaps, liftDec, obsDec]
                | err e => exact nomatch e
              · simp only [hl, if_false] at L
                simp [L, hl, liftDec, obsDec]
          · simp [hc, errProto, liftDec, obsDec, decErr, errNotTTH, errBadSize, mergeKV]
  · have hx' : ¬ ((rd32 (b.drop 4) &&& 4294901760 : Nat) : Int) = 268435456 := by omega
    have g1 : Funcs.tth_IsTTHeader b = .ok false := by
      go_simp [Funcs.tth_IsTTHeader, sliceFrom_ok, beU32, hb, hx']
    simp [g1, hx, liftDec, obsDec, errNotTTH, decErr, mergeKV]

/-- the outcome alone -/
theorem tth_Decode_eq_out {σ : Type} (next : σ → Int → RdRes × σ) (errOf : RErr → GoErr)
    (errBack : GoErr → Option RErr) (hE : ErrOK errOf errBack) (hN : NextBounded next) (fuel : Nat)
    (hf : 65537 ≤ fuel) (s : σ) :
    (liftDec errBack (Funcs.tth_Decode (iOfNext next errOf) fuel s)).1 = (obsDec (TTH.decodeG next s)).1 := by
  rw [tth_Decode_eq next errOf errBack hE hN fuel hf s]

/-- whenever the translated Decode returns (a value or an error), the reader it returns is the model's -/
theorem tth_Decode_eq_state {σ : Type} (next : σ → Int → RdRes × σ) (errOf : RErr → GoErr)
    (errBack : GoErr → Option RErr) (hE : ErrOK errOf errBack) (hN : NextBounded next) (fuel : Nat)
    (hf : 65537 ≤ fuel) (s : σ) (r : σ × Funcs.S_ttheader_DecodeParam × GoErr)
    (h : Funcs.tth_Decode (iOfNext next errOf) fuel s = .ok r) : r.1 = (TTH.decodeG next s).2 := by
  have e := tth_Decode_eq next errOf errBack hE hN fuel hf s
  rw [h] at e
  have e2 := congrArg Prod.snd e
  revert e2
  unfold obsDec
  simp only [liftDec]
  split <;> simp

/-! ## the two reader models -/

theorem errOK_rd : ErrOK rdErrOf rdErrBack := by
  intro e
  cases e <;> simp [rdErrOf, rdErrBack, decErr, errNotTTH, errBadSize, errProto, errTransforms, errKV]

theorem nextBounded_cur : NextBounded TTH.Cur.next := by
  intro c n b c' h2 h65 h
  unfold TTH.Cur.next at h
  split at h
  · simp at h
  · split at h
    · simp only [Prod.mk.injEq, RdRes.ok.injEq] at h
      rw [← h.1, List.length_take]
      omega
    · simp at h

theorem nextBounded_rd : NextBounded Rd.next := by
  intro r n b r' h2 h65 h
  unfold Rd.next at h
  split at h
  · simp at h
  · split at h
    · simp at h
    · split at h
      · simp at h
      · simp only [Prod.mk.injEq, RdRes.ok.injEq] at h
        rw [← h.1, List.length_take]
        omega

/-- Decode over the bufiox reader model -/
theorem tth_Decode_eq_rd (fuel : Nat) (hf : 65537 ≤ fuel) (r : Rd) :
    liftDec rdErrBack (Funcs.tth_Decode (iOfNext Rd.next rdErrOf) fuel r) = obsDec (TTH.decodeRd r) :=
  tth_Decode_eq Rd.next rdErrOf rdErrBack errOK_rd nextBounded_rd fuel hf r

/-- Decode over the plain cursor (`TTH.decodeCur b` is `decodeG Cur.next ⟨b, 0⟩` with the position projected) -/
theorem tth_Decode_eq_cur (fuel : Nat) (hf : 65537 ≤ fuel) (c : TTH.Cur) :
    liftDec rdErrBack (Funcs.tth_Decode (iOfNext TTH.Cur.next rdErrOf) fuel c) = obsDec (TTH.decodeG TTH.Cur.next c) :=
  tth_Decode_eq TTH.Cur.next rdErrOf rdErrBack errOK_rd nextBounded_cur fuel hf c

/-! ## the generated function computes (non-vacuity) -/

instance : DecidableEq Funcs.S_ttheader_DecodeParam := inferInstance

/-- meta (total 30, magic 0x1000, flags 1, seq 7, size field 3 = 12 bytes), protocol 0, no transforms, one string
    section {"a": "b"}, padding; 4 payload bytes -/
def frame1 : Bytes :=
  [0, 0, 0, 30,  0x10, 0, 0, 1,  0, 0, 0, 7,  0, 3,
   0, 0,  1, 0, 1, 0, 1, 97, 0, 1, 98, 0,
   9, 9, 9, 9]

-- a valid frame: the raw result of the translation, its lift, and the model
example : (Funcs.tth_Decode (iOfNext TTH.Cur.next rdErrOf) 65537 ⟨frame1, 0⟩).bind (fun r => .ok (r.1.pos, r.2.1.Flags, r.2.1.ProtocolID, r.2.1.StrInfo, r.2.2))
    = .ok (26, 1, 0, some [([97], [98])], GoErr.nil) := by decide
example : liftDec rdErrBack (Funcs.tth_Decode (iOfNext TTH.Cur.next rdErrOf) 65537 ⟨frame1, 0⟩)
    = (.ok { flags := 1, seq := 7, proto := 0, intKV := none, strKV := some [([97], [98])], headerLen := 26,
             payloadLen := 8 }, some ⟨frame1, 26⟩) := by
  rw [tth_Decode_eq_cur _ (by decide)]; decide

/-- `frame1` with another size field / other info bytes -/
def frameOf (magicHi : UInt8) (sizeHi sizeLo : UInt8) (rest : Bytes) : Bytes :=
  [0, 0, 0, 30,  magicHi, 0, 0, 1,  0, 0, 0, 7,  sizeHi, sizeLo] ++ rest

-- a bad magic: the Go error, its class, the reader after the first Next
example : (Funcs.tth_Decode (iOfNext TTH.Cur.next rdErrOf) 65537 ⟨frameOf 0x11 0 3 [0, 0, 0, 0], 0⟩).bind
      (fun r => .ok (r.1.pos, r.2.2))
    = .ok (14, GoErr.named "errors.New:not TTHeader protocol") := by decide
example : liftDec rdErrBack (Funcs.tth_Decode (iOfNext TTH.Cur.next rdErrOf) 65537 ⟨frameOf 0x11 0 3 [0, 0, 0, 0], 0⟩)
    = (.err .notTTHeader, some ⟨frameOf 0x11 0 3 [0, 0, 0, 0], 14⟩) := by decide
example : TTH.decodeG TTH.Cur.next ⟨frameOf 0x11 0 3 [0, 0, 0, 0], 0⟩
    = (.err .notTTHeader, ⟨frameOf 0x11 0 3 [0, 0, 0, 0], 14⟩) := by decide
-- a size field of 0x4001: 4 * 0x4001 = 65540 > 65536
example : liftDec rdErrBack (Funcs.tth_Decode (iOfNext TTH.Cur.next rdErrOf) 65537 ⟨frameOf 0x10 0x40 1 [0, 0], 0⟩)
    = (.err .badSize, some ⟨frameOf 0x10 0x40 1 [0, 0], 14⟩) := by decide
example : TTH.decodeG TTH.Cur.next ⟨frameOf 0x10 0x40 1 [0, 0], 0⟩
    = (.err .badSize, ⟨frameOf 0x10 0x40 1 [0, 0], 14⟩) := by decide
-- a size field of 0x4000 is accepted by the size check; the stream then ends: the reader's io.EOF, passed through
example : liftDec rdErrBack (Funcs.tth_Decode (iOfNext TTH.Cur.next rdErrOf) 65537 ⟨frameOf 0x10 0x40 0 [0, 0], 0⟩)
    = (.err (.rd .eof), some ⟨frameOf 0x10 0x40 0 [0, 0], 14⟩) := by decide
-- a truncated info section (the value of the only entry claims 9 bytes): the wrapped readKVInfo error
example : (Funcs.tth_Decode (iOfNext TTH.Cur.next rdErrOf) 65537
      ⟨frameOf 0x10 0 3 [0, 0, 1, 0, 1, 0, 1, 97, 0, 9, 98, 0], 0⟩).bind (fun r => .ok (r.1.pos, r.2.2))
    = .ok (26, GoErr.named "fmt.Errorf:ttHeader read kv info failed, %s, headerInfo=%#x") := by decide
example : liftDec rdErrBack (Funcs.tth_Decode (iOfNext TTH.Cur.next rdErrOf) 65537
      ⟨frameOf 0x10 0 3 [0, 0, 1, 0, 1, 0, 1, 97, 0, 9, 98, 0], 0⟩)
    = (.err .section, some ⟨frameOf 0x10 0 3 [0, 0, 1, 0, 1, 0, 1, 97, 0, 9, 98, 0], 26⟩) := by decide
example : TTH.decodeG TTH.Cur.next ⟨frameOf 0x10 0 3 [0, 0, 1, 0, 1, 0, 1, 97, 0, 9, 98, 0], 0⟩
    = (.err .section, ⟨frameOf 0x10 0 3 [0, 0, 1, 0, 1, 0, 1, 97, 0, 9, 98, 0], 26⟩) := by decide
-- an unknown info id (2): `.infoId` in the model, the SAME wrapped error in Go, hence `.section` through the lift
example : TTH.decodeG TTH.Cur.next ⟨frameOf 0x10 0 1 [0, 0, 2, 0], 0⟩
    = (.err .infoId, ⟨frameOf 0x10 0 1 [0, 0, 2, 0], 18⟩) := by decide
example : liftDec rdErrBack (Funcs.tth_Decode (iOfNext TTH.Cur.next rdErrOf) 65537 ⟨frameOf 0x10 0 1 [0, 0, 2, 0], 0⟩)
    = (.err .section, some ⟨frameOf 0x10 0 1 [0, 0, 2, 0], 18⟩) := by decide
-- three transform ids announced in a 4-byte info section
example : liftDec rdErrBack (Funcs.tth_Decode (iOfNext TTH.Cur.next rdErrOf) 65537 ⟨frameOf 0x10 0 1 [0, 3, 1, 0], 0⟩)
    = (.err .transforms, some ⟨frameOf 0x10 0 1 [0, 3, 1, 0], 18⟩) := by decide
-- a stream shorter than the meta: io.EOF of the first Next
example : liftDec rdErrBack (Funcs.tth_Decode (iOfNext TTH.Cur.next rdErrOf) 65537 ⟨[0, 0, 0, 30, 0x10], 0⟩)
    = (.err (.rd .eof), some ⟨[0, 0, 0, 30, 0x10], 0⟩) := by decide
-- panics: a reader whose Next returns (nil, nil) makes `IsTTHeader` slice the empty buffer (both sides);
-- a reader that answers the second Next with a short slice makes the transform loop index out of range
example : Funcs.tth_Decode (iOfNext (fun (s : Unit) _ => (RdRes.fail none, s)) rdErrOf) 65537 ()
    = .panic "slice" := by decide
example : TTH.decodeG (fun (s : Unit) _ => (RdRes.fail none, s)) () = (.panic "slice", ()) := by decide
example : Funcs.tth_Decode (iOfNext (fun (s : Nat) _ => (if s = 0 then RdRes.ok (frame1.take 14) else RdRes.ok [0, 2, 7], s + 1))
      rdErrOf) 65537 0 = .panic "index" := by decide
example : (TTH.decodeG (fun (s : Nat) _ => (if s = 0 then RdRes.ok (frame1.take 14) else RdRes.ok [0, 2, 7], s + 1)) 0).1
    = .panic "index" := by decide
-- the fuel of the reader model
example : liftDec (σ := Unit) rdErrBack (Funcs.tth_Decode (iOfNext (fun s _ => (RdRes.nofuel, s)) rdErrOf) 65537 ())
    = (.err .nofuel, none) := by decide

end Verif.FuncsEq

/-
  Lemmas/Funcs/StreamW: the 14 stream writers `BufferWriter.Write*` TRANSLATED from protocol/thrift/bufferwriter.go
  (`Verif.Funcs.BW_*`, generated, over an abstract `bufiox.Writer` = `WriterI ρ`) are the hand-written model writers
  `Wire.bw*` over the writer log `Wire.WLog`.

  * `wlI dirty errOf : WriterI WLog` is the log model seen as the abstract Go interface.  The generated code commits a
    Malloc'ed region only when the function returns (the region aliases the writer's memory), the model appends the
    region when it is filled (`wlCommit`).  So that the ORDER of items is the same, `malloc` reserves the slot at once:
    it appends `.region <dirty contents>` and hands out the slot's index as the handle; `commit w h bs` replaces the item
    at index `h` (nothing happens when `h` is not an index of the log — the handle returned next to an error is
    `items.length`, which is none); `writeBinary` appends `.payload v`.  On the sticky error and on a negative count
    `malloc` returns the error (`errOf e`, `errOf .negCount`: `wlMalloc` tests the sticky error first, like
    `DefaultWriter.Malloc`), a nil region, and leaves the log as it is.
  * `liftBW back : GM (WLog × GoErr) → WOut WLog`: a nil error is `.ok log`; a non-nil error `e` is `.err r` when
    `back e = some r` — the log returned next to an error is dropped, as every `Wire.bw*` does.  The theorems take any
    rendering `errOf : RErr → GoErr` of the writer's errors that avoids `nil` and that `back` inverts (`WErrOK`);
    `wErrOf` / `wErrBack` is a concrete one.
  * Shape of every theorem: `liftBW back (Funcs.BW_WriteX (wlI d errOf) w args) = Wire.bwX w d args'`, for every log
    `w` (with or without a sticky error) and every dirt function `d`.

  Method: split on the SEMANTIC condition (`w.err = some e` / `none`); `malloc`/`commit`/`writeBinary` of `wlI` and
  `wlMalloc`/`wlCommit`/`wlWriteBinary` have rewrite rules under those hypotheses; the fill is the view primitives
  against the model's slice primitives in the normal forms of `Write.lean` (here at an `Int` offset that is a literal),
  every `if` decided by `omega` from `freshRegion_length`.
-/
import Verif.Lemmas.Funcs.Write
import Verif.Model.Wire
namespace Verif.FuncsEq
open Verif Verif.GoSem Verif.Wire

/-! ## the log model as a `WriterI` -/

/-- fresh memory of `n` bytes: the model's arbitrary initial content -/
def freshRegion (dirty : Nat → UInt8) (n : Nat) : Bytes := (List.range n).map dirty

theorem freshRegion_length (d : Nat → UInt8) (n : Nat) : (freshRegion d n).length = n := by simp [freshRegion]

def wlI (dirty : Nat → UInt8) (errOf : RErr → GoErr) : WriterI WLog where
  malloc w n :=
    match w.err with
    | some e => .ok (([], w.items.length, errOf e), w)
    | none =>
      if n < 0 then .ok (([], w.items.length, errOf .negCount), w)
      else .ok ((freshRegion dirty n.toNat, w.items.length, GoErr.nil),
                { w with items := w.items ++ [.region (freshRegion dirty n.toNat)] })
  commit w h bs := { w with items := w.items.set h (.region bs) }
  writeBinary w v :=
    match w.err with
    | some e => .ok ((0, errOf e), w)
    | none => .ok (((v.length : Int), GoErr.nil), { w with items := w.items ++ [.payload v] })
  writtenLen w := (w.bytes.length : Int)

/-- result `(log, err)` of a translated stream writer as the model's outcome -/
def liftBW (back : GoErr → Option RErr) (x : GM (WLog × GoErr)) : WOut WLog :=
  match x with
  | .ok r =>
    if r.2 = .nil then .ok r.1
    else match back r.2 with
      | some e => .err e
      | none => .panic "liftBW: not an error of the writer"
  | .panic s => .panic s
  | .oob => .oob
  | .err e => nomatch e

/-- `errOf` renders the writer's errors as non-nil Go errors and `back` reads them back -/
structure WErrOK (errOf : RErr → GoErr) (back : GoErr → Option RErr) : Prop where
  ne_nil : ∀ e, errOf e ≠ GoErr.nil
  inv : ∀ e, back (errOf e) = some e

/-- a concrete rendering -/
def wErrOf : RErr → GoErr
  | .eof => .named "io.EOF"
  | .noProgress => .named "io.ErrNoProgress"
  | .negCount => .named "bufiox:errNegativeCount"
  | .src k => .pe (k : Int) "bufiox:sink error"

def wErrBack : GoErr → Option RErr
  | .named s =>
    if s = "io.EOF" then some .eof
    else if s = "io.ErrNoProgress" then some .noProgress
    else if s = "bufiox:errNegativeCount" then some .negCount
    else none
  | .pe k _ => if 0 ≤ k then some (.src k.toNat) else none
  | .nil => none

theorem wErrOK : WErrOK wErrOf wErrBack where
  ne_nil e := by cases e <;> simp [wErrOf]
  inv e := by cases e <;> simp [wErrOf, wErrBack]

/-! ## rewrite rules under the semantic case hypotheses -/

theorem wlI_malloc_err (d : Nat → UInt8) (errOf : RErr → GoErr) (w : WLog) (n : Int) (e : RErr) (h : w.err = some e) :
    (wlI d errOf).malloc w n = .ok (([], w.items.length, errOf e), w) := by
  simp [wlI, h]

theorem wlI_malloc_neg (d : Nat → UInt8) (errOf : RErr → GoErr) (w : WLog) (n : Int) (h : w.err = none) (hn : n < 0) :
    (wlI d errOf).malloc w n = .ok (([], w.items.length, errOf .negCount), w) := by
  simp [wlI, h, hn]

theorem wlI_malloc_ok (d : Nat → UInt8) (errOf : RErr → GoErr) (w : WLog) (n : Int) (h : w.err = none) (hn : 0 ≤ n) :
    (wlI d errOf).malloc w n =
      .ok ((freshRegion d n.toNat, w.items.length, GoErr.nil),
           { items := w.items ++ [.region (freshRegion d n.toNat)], err := none }) := by
  have hn' : ¬ n < 0 := by omega
  cases w; simp_all [wlI]

theorem bw_wlMalloc_err (d : Nat → UInt8) (w : WLog) (n : Int) (e : RErr) (h : w.err = some e) :
    wlMalloc w n d = .err e := by
  simp [wlMalloc, h]

theorem bw_wlMalloc_ok (d : Nat → UInt8) (w : WLog) (n : Int) (h : w.err = none) (hn : 0 ≤ n) :
    wlMalloc w n d = .ok (freshRegion d n.toNat) := by
  have hn' : ¬ n < 0 := by omega
  simp [wlMalloc, h, hn', freshRegion]

theorem set_reserved (l : List WItem) (x y : WItem) (rest : List WItem) :
    (l ++ x :: rest).set l.length y = l ++ y :: rest := by
  induction l with
  | nil => rfl
  | cons a l ih => simp [ih]

/-- the reserved slot receives the region's final contents, whatever was appended after it -/
theorem wlI_commit_reserved (d : Nat → UInt8) (errOf : RErr → GoErr) (l : List WItem) (x : WItem) (rest : List WItem)
    (o : Option RErr) (bs : Bytes) :
    (wlI d errOf).commit { items := l ++ x :: rest, err := o } l.length bs =
      { items := l ++ .region bs :: rest, err := o } := by
  simp [wlI]

/-- the handle returned next to an error is no index of the log: nothing is committed -/
theorem wlI_commit_none (d : Nat → UInt8) (errOf : RErr → GoErr) (w : WLog) (bs : Bytes) :
    (wlI d errOf).commit w w.items.length bs = w := by
  cases w; simp [wlI, List.set_eq_of_length_le]

theorem wlI_writeBinary_ok (d : Nat → UInt8) (errOf : RErr → GoErr) (l : List WItem) (v : Bytes) :
    (wlI d errOf).writeBinary { items := l, err := none } v =
      .ok (((v.length : Int), GoErr.nil), { items := l ++ [.payload v], err := none }) := by
  simp [wlI]

theorem bw_wlCommit_ok (w : WLog) (bs : Bytes) (h : w.err = none) :
    wlCommit w bs = { items := w.items ++ [.region bs], err := none } := by
  cases w; simp_all [wlCommit]

theorem bw_wlWriteBinary_ok (l : List WItem) (v : Bytes) :
    wlWriteBinary { items := l, err := none } v = .ok { items := l ++ [.payload v], err := none } := by
  simp [wlWriteBinary]

theorem liftBW_ok (back : GoErr → Option RErr) (w : WLog) : liftBW back (.ok (w, GoErr.nil)) = .ok w := by
  simp [liftBW]

theorem liftBW_err (errOf : RErr → GoErr) (back : GoErr → Option RErr) (H : WErrOK errOf back) (w : WLog) (e : RErr) :
    liftBW back (.ok (w, errOf e)) = .err e := by
  simp [liftBW, H.ne_nil, H.inv]

theorem bw_fill_ok (b : Bytes) : fill (.ok b) = .ok b := rfl
theorem bw_fill_panic (s : String) : fill (.panic s) = .panic s := rfl

/-! ## the view primitives at an integer offset (a literal in the generated code) -/

theorem vset_nfi (whole : Bytes) (off i x : Int) (ho : 0 ≤ off) (hi : 0 ≤ i) :
    vset whole off i x =
      if off.toNat + i.toNat < whole.length then .ok (Wire.putAt whole (off.toNat + i.toNat) [byteOf x])
      else .panic "index" := by
  have := vset_nf whole off.toNat i x hi
  rwa [Int.toNat_of_nonneg ho] at this

theorem vfrom_nfi (whole : Bytes) (off lo : Int) (ho : 0 ≤ off) (hlo : 0 ≤ lo) :
    vfrom whole off lo =
      if off.toNat + lo.toNat ≤ whole.length then .ok ((off.toNat + lo.toNat : Nat) : Int) else .panic "slice" := by
  have := vfrom_nf whole off.toNat lo hlo
  rwa [Int.toNat_of_nonneg ho] at this

theorem vputU16_nfi (whole : Bytes) (off x : Int) (ho : 0 ≤ off) :
    vputU16 whole off x =
      if off.toNat + 2 ≤ whole.length then .ok (Wire.putAt whole off.toNat (be16 (ofInt 16 x))) else .panic "index" := by
  have := vputU16_nf whole off.toNat x
  rwa [Int.toNat_of_nonneg ho] at this

theorem vputU32_nfi (whole : Bytes) (off x : Int) (ho : 0 ≤ off) :
    vputU32 whole off x =
      if off.toNat + 4 ≤ whole.length then .ok (Wire.putAt whole off.toNat (be32 (ofInt 32 x))) else .panic "index" := by
  have := vputU32_nf whole off.toNat x
  rwa [Int.toNat_of_nonneg ho] at this

theorem vputU64_nfi (whole : Bytes) (off x : Int) (ho : 0 ≤ off) :
    vputU64 whole off x =
      if off.toNat + 8 ≤ whole.length then .ok (Wire.putAt whole off.toNat (be64 (ofInt 64 x))) else .panic "index" := by
  have := vputU64_nf whole off.toNat x
  rwa [Int.toNat_of_nonneg ho] at this

theorem vcopy_nfi (whole : Bytes) (off : Int) (src : Bytes) (ho : 0 ≤ off) :
    vcopy whole off src =
      (Wire.putAt whole off.toNat (src.take (min (whole.length - off.toNat) src.length)),
       ((min (whole.length - off.toNat) src.length : Nat) : Int)) := by
  have := vcopy_nf whole off.toNat src
  rwa [Int.toNat_of_nonneg ho] at this

/-! ## values -/

/-- `byte(uint16(x))` is `byte(x)` -/
theorem ofNat_ofInt16 (x : Int) : UInt8.ofNat (ofInt 16 x) = UInt8.ofNat (ofInt 8 x) := by
  apply ofNat_congr; unfold ofInt; omega

/-- the length after a store, unconditionally -/
theorem putAt_len_any (b : Bytes) (o : Nat) (bs : Bytes) :
    (Wire.putAt b o bs).length = min o b.length + bs.length + (b.length - (o + bs.length)) := by
  simp [Wire.putAt]; omega

theorem shr_8 (x : Int) : shr x 8 = x / 256 := rfl


/-! ## the tactics -/

/-- unfolds every translated stream writer in the goal, repeatedly (`WriteString` delegates to `WriteBinary`), and the
    length function `WriteMessageBegin` calls -/
macro "unfold_bw" : tactic => `(tactic| repeat (first
  | unfold Funcs.BW_WriteMessageBegin | unfold Funcs.BW_WriteFieldBegin | unfold Funcs.BW_WriteFieldStop
  | unfold Funcs.BW_WriteMapBegin | unfold Funcs.BW_WriteListBegin | unfold Funcs.BW_WriteSetBegin
  | unfold Funcs.BW_WriteBool | unfold Funcs.BW_WriteByte | unfold Funcs.BW_WriteI16
  | unfold Funcs.BW_WriteI32 | unfold Funcs.BW_WriteI64 | unfold Funcs.BW_WriteDouble
  | unfold Funcs.BW_WriteBinary | unfold Funcs.BW_WriteString | unfold Funcs.Binary_MessageBeginLength))

/-- the sticky-error case `hw : w.err = some e`: both sides return the error at the first `Malloc` -/
syntax "bw_err " ident ident : tactic
macro_rules
  | `(tactic| bw_err $hw $H) => `(tactic| (
      unfold_bw
      (try unfold len)
      simp (disch := go_disch) [wlI_malloc_err _ _ _ _ _ $hw, bw_wlMalloc_err _ _ _ _ $hw, wlI_commit_none,
        liftBW_err _ _ $H, WErrOK.ne_nil $H]))

/-- the case `hw : w.err = none`: `Malloc` reserves, the fill is decided by arithmetic on the region's length, the
    commit fills the reserved slot; what is left is an equation between `putAt` towers with arithmetically equal
    offsets and equal bytes -/
syntax "bw_ok " ident : tactic
macro_rules
  | `(tactic| bw_ok $hw) => `(tactic| (
      unfold_bw
      (try unfold len)
      simp (disch := go_disch) [wlI_malloc_ok _ _ _ _ $hw, bw_wlMalloc_ok _ _ _ $hw, bw_wlCommit_ok _ _ $hw, wlI_commit_reserved,
        wlI_writeBinary_ok, bw_wlWriteBinary_ok, liftBW_ok, lenMessageBegin,
        vset_nfi, vfrom_nfi, vputU16_nfi, vputU32_nfi, vputU64_nfi, vcopy_nfi, freshRegion_length,
        setB_nf, putU16_nf, putU32_nf, putU64_nf, copyAt_nf, bw_fill_ok, bw_fill_panic,
        putAt_len_any, if_pos, if_neg,
        wrap_i64_of_range, T_STOP_eq, be64_ofInt_nat, be32_ofInt_nat, msgHeader_eq, msgHeader_eq',
        wrap_wrap, ofInt_wrap, byteOf_wrap_u8, ofNat_toI8, byteOf_zero, byteOf_one, ofNat_ofInt16, shr_8,
        ofInt_wrap_u16, ofInt_wrap_u32, ofInt_wrap_u64]
      <;> congr_omega))

/-! ## the 14 theorems -/

section
variable (d : Nat → UInt8) (errOf : RErr → GoErr) (back : GoErr → Option RErr) (H : WErrOK errOf back) (w : WLog)
include H

theorem BW_WriteFieldStop_eq :
    liftBW back (Funcs.BW_WriteFieldStop (wlI d errOf) w) = Wire.bwFieldStop w d := by
  unfold Wire.bwFieldStop
  cases hw : w.err with
  | some e => bw_err hw H
  | none => bw_ok hw

theorem BW_WriteFieldBegin_eq (t : UInt8) (id : Int) :
    liftBW back (Funcs.BW_WriteFieldBegin (wlI d errOf) w (toI8 t.toNat) id) = Wire.bwFieldBegin w d t id := by
  unfold Wire.bwFieldBegin
  cases hw : w.err with
  | some e => bw_err hw H
  | none => bw_ok hw

theorem BW_WriteMapBegin_eq (kt vt : UInt8) (size : Int) :
    liftBW back (Funcs.BW_WriteMapBegin (wlI d errOf) w (toI8 kt.toNat) (toI8 vt.toNat) size) =
      Wire.bwMapBegin w d kt vt size := by
  unfold Wire.bwMapBegin
  cases hw : w.err with
  | some e => bw_err hw H
  | none => bw_ok hw

theorem BW_WriteListBegin_eq (et : UInt8) (size : Int) :
    liftBW back (Funcs.BW_WriteListBegin (wlI d errOf) w (toI8 et.toNat) size) = Wire.bwListBegin w d et size := by
  unfold Wire.bwListBegin
  cases hw : w.err with
  | some e => bw_err hw H
  | none => bw_ok hw

theorem BW_WriteSetBegin_eq (et : UInt8) (size : Int) :
    liftBW back (Funcs.BW_WriteSetBegin (wlI d errOf) w (toI8 et.toNat) size) = Wire.bwSetBegin w d et size := by
  unfold Wire.bwSetBegin
  cases hw : w.err with
  | some e => bw_err hw H
  | none => bw_ok hw

theorem BW_WriteBool_eq (v : Bool) :
    liftBW back (Funcs.BW_WriteBool (wlI d errOf) w v) = Wire.bwBool w d v := by
  unfold Wire.bwBool
  cases hw : w.err with
  | some e => bw_err hw H
  | none => cases v <;> bw_ok hw

theorem BW_WriteByte_eq (v : Int) :
    liftBW back (Funcs.BW_WriteByte (wlI d errOf) w v) = Wire.bwByte w d v := by
  unfold Wire.bwByte
  cases hw : w.err with
  | some e => bw_err hw H
  | none => bw_ok hw

theorem BW_WriteI16_eq (v : Int) :
    liftBW back (Funcs.BW_WriteI16 (wlI d errOf) w v) = Wire.bwI16 w d v := by
  unfold Wire.bwI16
  cases hw : w.err with
  | some e => bw_err hw H
  | none => bw_ok hw

theorem BW_WriteI32_eq (v : Int) :
    liftBW back (Funcs.BW_WriteI32 (wlI d errOf) w v) = Wire.bwI32 w d v := by
  unfold Wire.bwI32
  cases hw : w.err with
  | some e => bw_err hw H
  | none => bw_ok hw

theorem BW_WriteI64_eq (v : Int) :
    liftBW back (Funcs.BW_WriteI64 (wlI d errOf) w v) = Wire.bwI64 w d v := by
  unfold Wire.bwI64
  cases hw : w.err with
  | some e => bw_err hw H
  | none => bw_ok hw

theorem BW_WriteDouble_eq (bits : Nat) :
    liftBW back (Funcs.BW_WriteDouble (wlI d errOf) w (bits : Int)) = Wire.bwDouble w d bits := by
  unfold Wire.bwDouble
  cases hw : w.err with
  | some e => bw_err hw H
  | none => bw_ok hw

theorem BW_WriteBinary_eq (v : Bytes) :
    liftBW back (Funcs.BW_WriteBinary (wlI d errOf) w v) = Wire.bwBinary w d v := by
  unfold Wire.bwBinary
  cases hw : w.err with
  | some e => bw_err hw H
  | none => bw_ok hw

theorem BW_WriteString_eq (v : Bytes) :
    liftBW back (Funcs.BW_WriteString (wlI d errOf) w v) = Wire.bwBinary w d v := by
  unfold Wire.bwBinary
  cases hw : w.err with
  | some e => bw_err hw H
  | none => bw_ok hw

theorem BW_WriteMessageBegin_eq (name : Bytes) (typ seq : Int) (hlen : name.length < 2 ^ 62) :
    liftBW back (Funcs.BW_WriteMessageBegin (wlI d errOf) w name typ seq) = Wire.bwMessageBegin w d name typ seq := by
  unfold Wire.bwMessageBegin
  cases hw : w.err with
  | some e => bw_err hw H
  | none =>
    have hlen' : name.length < 4611686018427387904 := hlen
    bw_ok hw

end


/-- `malloc` of `wlI` against `wlMalloc`, all three cases (sticky error first, then the negative count) -/
theorem malloc_wlMalloc (d : Nat → UInt8) (errOf : RErr → GoErr) (w : WLog) (n : Int) :
    (wlI d errOf).malloc w n =
      match wlMalloc w n d with
      | .ok r => .ok ((r, w.items.length, GoErr.nil), { w with items := w.items ++ [.region r] })
      | .err e => .ok (([], w.items.length, errOf e), w)
      | _ => .panic "unreachable" := by
  cases hw : w.err with
  | some e => simp [wlI, wlMalloc, hw]
  | none => by_cases hn : n < 0 <;> simp [wlI, wlMalloc, hw, hn, freshRegion]

/-! ## the generated functions compute (non-vacuity) -/

def demoD : Nat → UInt8 := fun i => UInt8.ofNat (170 + i)
def demoI : WriterI WLog := wlI demoD wErrOf

/-- a message begin, a string and a field stop through one log: four items in wire order (the length prefix of the
    string is committed when `WriteString` returns, AFTER its payload was appended, and still precedes it) -/
example :
    (do let r1 ← Funcs.BW_WriteMessageBegin demoI ⟨[], none⟩ [104, 105] 1 7
        let r2 ← Funcs.BW_WriteString demoI r1.1 [97]
        Funcs.BW_WriteFieldStop demoI r2.1 : GM (WLog × GoErr)) =
      .ok (⟨[.region [128, 1, 0, 1, 0, 0, 0, 2, 104, 105, 0, 0, 0, 7], .region [0, 0, 0, 1], .payload [97],
             .region [0]], none⟩, GoErr.nil) := by decide
/-- the model, same calls -/
example :
    (do let w1 ← bwMessageBegin ⟨[], none⟩ demoD [104, 105] 1 7
        let w2 ← bwBinary w1 demoD [97]
        bwFieldStop w2 demoD : WOut WLog) =
      .ok ⟨[.region [128, 1, 0, 1, 0, 0, 0, 2, 104, 105, 0, 0, 0, 7], .region [0, 0, 0, 1], .payload [97],
            .region [0]], none⟩ := by decide
/-- a sticky error: the first `Malloc` returns it, nothing is written, the log is as it was -/
example :
    Funcs.BW_WriteI32 demoI ⟨[.payload [1]], some (.src 3)⟩ 5 =
      .ok (⟨[.payload [1]], some (.src 3)⟩, GoErr.pe 3 "bufiox:sink error") := by decide
example :
    liftBW wErrBack (Funcs.BW_WriteString demoI ⟨[.payload [1]], some .noProgress⟩ [5, 6]) = .err .noProgress ∧
      bwBinary ⟨[.payload [1]], some .noProgress⟩ demoD [5, 6] = .err .noProgress := by decide
/-- a negative count is `errNegativeCount` (no translated writer asks for one; the interface does) -/
example : (demoI.malloc ⟨[], none⟩ (-1)) = .ok (([], 0, wErrOf .negCount), ⟨[], none⟩) := by decide
/-- a panic: a writer whose `Malloc` hands out a region shorter than asked for makes `PutUint32` panic -/
def shortI : WriterI Unit where
  malloc _ _ := .ok (([0, 0], 0, GoErr.nil), ())
  commit _ _ _ := ()
  writeBinary _ _ := .ok ((0, GoErr.nil), ())
  writtenLen _ := 0
example : Funcs.BW_WriteI32 shortI () 5 = .panic "index" := by decide

end Verif.FuncsEq

/-
  Lemmas/Funcs/RdI: the bufiox reader MODEL `Rd` (Model/Reader.lean: DefaultReader / BytesReader, content level) as a value of
  the abstract Go interface `ReaderI` that the translated `BufferReader` / `SkipDecoder` methods take as a parameter.
  Shared by Funcs/StreamR, Funcs/StreamSkip and Funcs/Dec. (`TTHDecode.iOfNext` is the Next-only variant over any reader.)

  Rendering: `.ok b` ↦ `(b, nil)`; `.fail (some e)` ↦ `(nil slice, errOf e)`; `.fail none` — the Go methods return `r.err`,
  which the model shows could be nil only if … (C04.fail_nonnil proves it is not, under `Inv`) — ↦ `([], nil)`; the reader model's
  own `nofuel` ↦ `panic "nofuel"` (C04.never_nofuel proves it unreachable).
-/
import Verif.Base.GoSem
import Verif.Model.Reader
namespace Verif.FuncsEq
open Verif Verif.GoSem

def resI (errOf : RErr → GoErr) (x : RdRes × Rd) : GM ((Bytes × GoErr) × Rd) :=
  match x with
  | (.ok b, s') => .ok ((b, GoErr.nil), s')
  | (.fail (some e), s') => .ok (([], errOf e), s')
  | (.fail none, s') => .ok (([], GoErr.nil), s')
  | (.nofuel, _) => .panic "nofuel"

/-- the model reader as a `bufiox.Reader` interface value -/
def iOfRd (errOf : RErr → GoErr) : ReaderI Rd where
  next s n := resI errOf (s.next n)
  peek s n := resI errOf (s.peek n)
  skip s n :=
    match s.skip n with
    | (.ok _, s') => .ok (GoErr.nil, s')
    | (.fail (some e), s') => .ok (errOf e, s')
    | (.fail none, s') => .ok (GoErr.nil, s')
    | (.nofuel, _) => .panic "nofuel"
  readBinary s k :=
    if k < 0 then .panic "ReadBinary: negative length"
    else match s.readBinary k.toNat with
      | (some (out, m, e), s') => .ok ((out, (m : Int), match e with | some e => errOf e | none => GoErr.nil), s')
      | (none, _) => .panic "nofuel"
  readLen s := (s.readLen : Int)

end Verif.FuncsEq

/-
  Lemmas/Funcs/BufioxR: the reader half of bufiox/defaultbuf.go — `(*DefaultReader).acquireSlow / acquire / Next / Peek /
  Skip / ReadBinary / ReadLen / Release`, `NewDefaultReader`, `fakeIOReader.Read`, `(*maxSizeStats).update / maxSize` — as
  TRANSLATED from the Go source on every run (`Verif.Gen.Bufiox`, namespace `Verif.BufioxGen`, over `Base/GoSemCap`:
  slices with capacity) against the hand-written model `Model/Reader.lean` (`Rd`, `Src`) that C04 is about.

  * `absRd` : generated receiver ↦ `Rd` (`buf` = the first `len` bytes of the slice's memory, `cap`, `ri`, `err`,
    `readOnly`, `stats`, `statsIdx`, `src`; `pendingBuf` and the non-nil flag are dropped — ownership is Model/Mem*).
    The `io.Reader` is the model's scripted source (`srcReader`), `mcache.Malloc`'s dirty contents an arbitrary oracle `O`.
  * representation invariant `GInv`: `0 ≤ ri ≤ len ≤ cap ≤ 2^45` (mcache has pools up to 2^45), the `io.Reader` is not nil,
    `statsBucketNum` recorded capacities in `[0, 2^45]`, `0 ≤ bucketIdx < statsBucketNum`. Per call: `cap ≤ 2^44` and
    `n + ri ≤ 2^44` (so that a growth stays inside mcache and int64 never wraps), fuel ≥ the model's own fuel
    `maxConsecutiveEmptyReads * (room + 1) + 1` (`needFuel`).
  * main theorems `DefaultReader_<F>_sim`: for every generated state `g` and model state `m` related by `Sim` (= `m` is
    `absRd g` up to the bytes below `ri`) the generated function returns normally, with the model's result, in states
    related again, invariant kept — this composes over call sequences. `…_eq_partial` are the instances at `m := absRd g`
    (results equal; states equal after `Rd.canon`); see the note in front of them for WHY partial (dirty bytes below `ri`
    after a growth: unobservable, the model says so itself). `Release`, `ReadLen`, the statistics, `NewDefaultReader`: exact.
-/
import Verif.Gen.Bufiox
import Verif.Lemmas.Reader
namespace Verif.BufioxEq
open Verif Verif.GoSemCap Verif.BufioxGen
open Verif.GoSem (GM wrap LoopR IT)
set_option linter.unusedSimpArgs false

/-- decide the first `if` of the goal by linear arithmetic: the impossible branch is closed, the other one stays
    (whatever way round the source wrote the comparison) -/
macro "split_omega" : tactic =>
  `(tactic| (split <;> try (exfalso; simp only [decide_eq_true_eq, decide_eq_false_iff_not, Bool.not_eq_true,
      gt_iff_lt, ge_iff_le, ne_eq] at *; omega)))

/-- a goal made of `if`s over linear integer conditions on both sides: every combination of branches is either
    contradictory (omega) or the two sides agree — whatever way round the source wrote its comparisons -/
macro "arith_cases" : tactic => `(tactic| (
  (repeat' split) <;>
  (try simp only [decide_eq_true_eq, decide_eq_false_iff_not, Bool.not_eq_true, gt_iff_lt, ge_iff_le, ne_eq] at *) <;>
  (try (simp (disch := omega) only [wrap_i64_id] at *)) <;>
  first | (exfalso; omega) | rfl | (simp; done)))

/-- a conditional assignment that sits in front of code which does not depend on the condition any more -/
theorem ite_bind {α β : Type} (c : Prop) [Decidable c] (x y : GM α) (f : α → GM β) :
    (if c then x else y).bind f = if c then x.bind f else y.bind f := by split <;> rfl

/-- remove every `wrap .i64` whose argument is in range, whatever its shape -/
macro "unwrap" : tactic => `(tactic| simp (disch := omega) only [wrap_i64_id])

/-- Go error value ↔ the reader model's `Option RErr` -/
def errAbs : Err → Option RErr
  | .nil => none
  | .eof => some .eof
  | .noProgress => some .noProgress
  | .negCount => some .negCount
  | .src k => some (.src k)

def errCon : Option RErr → Err
  | none => .nil
  | some .eof => .eof
  | some .noProgress => .noProgress
  | some .negCount => .negCount
  | some (.src k) => .src k

@[simp] theorem errAbs_errCon (e : Option RErr) : errAbs (errCon e) = e := by
  cases e with
  | none => rfl
  | some e => cases e <;> rfl

@[simp] theorem errCon_errAbs (e : Err) : errCon (errAbs e) = e := by cases e <;> rfl

theorem errCon_nil_iff (e : Option RErr) : errCon e = Err.nil ↔ e = none := by
  cases e with
  | none => simp [errCon]
  | some e => cases e <;> simp [errCon]

theorem errAbs_none_iff (e : Err) : errAbs e = none ↔ e = Err.nil := by cases e <;> simp [errAbs]

/-- the scripted source of the model as an `io.Reader` -/
def srcReader : IoReader Src := ⟨fun s room => ((s.read room).1, errCon (s.read room).2.1, (s.read room).2.2)⟩

/-! ## maxSizeStats -/

/-- a `range` loop that keeps the maximum — ANY function with these two equations (the generated loop function is
    found by unification at the use site, never named in a statement) -/
theorem range_max_bind {β : Type} (L : List Int → Int → GM Int) (hnil : ∀ m, L [] m = .ok m)
    (hcons : ∀ x xs m, L (x :: xs) m = L xs (max m x)) (l : List Int) (m : Int) (K : Int → GM β) :
    (L l m).bind K = K (l.foldl max m) := by
  induction l generalizing m with
  | nil => simp [hnil]
  | cons x xs ih => rw [hcons, ih]; rfl

/-- the same as an ascending index loop `for i := 0; i < N; i++` over the array -/
theorem index_max_bind_aux {β : Type} (L : Nat → Int → Int → GM (Int × Int)) (b : List Int)
    (step : ∀ (f : Nat) (m : Int) (i : Nat), L (f + 1) m (i : Int) =
      if i < b.length then L f (max m (b.getD i 0)) ((i + 1 : Nat) : Int) else .ok (m, (i : Int)))
    (K : Int × Int → GM β) :
    ∀ (k i : Nat) (m : Int) (f : Nat), b.length - i = k → i ≤ b.length → k < f →
      (L f m (i : Int)).bind K = K ((b.drop i).foldl max m, (b.length : Int)) := by
  intro k
  induction k with
  | zero =>
    intro i m f hk hi hf
    obtain ⟨f, rfl⟩ : ∃ f', f = f' + 1 := ⟨f - 1, by omega⟩
    have : ¬ i < b.length := by omega
    have hi' : i = b.length := by omega
    rw [step, if_neg this, hi']; simp
  | succ k ih =>
    intro i m f hk hi hf
    obtain ⟨f, rfl⟩ : ∃ f', f = f' + 1 := ⟨f - 1, by omega⟩
    have hlt : i < b.length := by omega
    have hx : b.getD i 0 = b[i] := by simp [List.getD_eq_getElem?_getD, List.getElem?_eq_getElem hlt]
    rw [step, if_pos hlt, ih (i + 1) _ f (by omega) (by omega) (by omega), hx]
    conv => rhs; rw [List.drop_eq_getElem_cons hlt, List.foldl_cons]

theorem foldl_max_toNat (l : List Int) (m : Int) (hm : 0 ≤ m) (hl : ∀ x ∈ l, 0 ≤ x) :
    ((l.foldl max m).toNat) = (l.map Int.toNat).foldl max m.toNat ∧ 0 ≤ l.foldl max m := by
  induction l generalizing m with
  | nil => exact ⟨rfl, hm⟩
  | cons x xs ih =>
    have hx : 0 ≤ x := hl x (by simp)
    have := ih (max m x) (by omega) (fun y hy => hl y (by simp [hy]))
    simp only [List.foldl_cons, List.map_cons]
    have e : (max m x).toNat = max m.toNat x.toNat := by omega
    rw [← e]; exact this

theorem index_max_bind {β : Type} (L : Nat → Int → Int → GM (Int × Int)) (b : List Int)
    (step : ∀ (f : Nat) (m : Int) (i : Nat), L (f + 1) m (i : Int) =
      if i < b.length then L f (max m (b.getD i 0)) ((i + 1 : Nat) : Int) else .ok (m, (i : Int)))
    (K : Int × Int → GM β) (m : Int) (f : Nat) (hf : b.length < f) :
    (L f m 0).bind K = K (b.foldl max m, (b.length : Int)) := by
  have := index_max_bind_aux L b step K b.length 0 m f (by omega) (by omega) hf
  simpa using this

/-- `(*maxSizeStats).maxSize` is the model's `statsMax` of the recorded capacities (`hl`: a Go `[statsBucketNum]int`
    has that many elements — needed when the source walks the array by index) -/
theorem maxSizeStats_maxSize_eq (s : S_maxSizeStats) (h : ∀ x ∈ s.buckets, 0 ≤ x)
    (hl : s.buckets.length = Facts.statsBucketNum) :
    maxSizeStats_maxSize s = .ok ((statsMax (s.buckets.map Int.toNat) : Nat) : Int) := by
  have hm := foldl_max_toNat s.buckets 0 (by omega) h
  simp at hm
  have hl10 : s.buckets.length = 10 := hl
  unfold maxSizeStats_maxSize statsMax
  simp only [Out.bind_eq, Out.pure_eq]
  first
  | -- `for _, size := range s.buckets`
    rw [range_max_bind (L := _) (hnil := ?nil) (hcons := ?cons)]
    case nil => intro m; rw [maxSizeStats_maxSize_loop1]; rfl
    case cons =>
      intro x xs m
      rw [maxSizeStats_maxSize_loop1]
      by_cases hc : m < x
      · have e : max m x = x := by omega
        have hc' : ¬ x ≤ m := by omega
        simp [hc, hc', e]
      · have e : max m x = m := by omega
        have hc' : x ≤ m := by omega
        simp [hc, hc', e]
    simp; omega
  | -- `for i := 0; i < statsBucketNum; i++`
    rw [index_max_bind (L := _) (b := s.buckets) (step := ?step) (hf := by omega)]
    case step =>
      intro f m i
      rw [maxSizeStats_maxSize_loop1]
      by_cases hi : i < s.buckets.length
      · have hi' : (i : Int) < 10 := by omega
        have hw : wrap .i64 ((i : Int) + 1) = ((i + 1 : Nat) : Int) := by rw [wrap_i64_id] <;> omega
        have hg : arrGet s.buckets (i : Int) = .ok (s.buckets.getD i 0) := by
          simp [arrGet, List.getD_eq_getElem?_getD, List.getElem?_eq_getElem hi]
        generalize s.buckets.getD i 0 = x at *
        by_cases hc : m < x
        · have e : max m x = x := by omega
          have hc' : ¬ x ≤ m := by omega
          simp [hi, hi', hg, hw, hc, hc', e]
        · have e : max m x = m := by omega
          have hc' : x ≤ m := by omega
          simp [hi, hi', hg, hw, hc, hc', e]
      · have hi' : ¬ (i : Int) < 10 := by omega
        simp [hi, hi']
    simp; omega

/-- `(*maxSizeStats).update(size)` is the model's `listSet stats idx size` / `(idx + 1) % statsBucketNum` -/
theorem maxSizeStats_update_eq (s : S_maxSizeStats) (size : Int) (hl : s.buckets.length = Facts.statsBucketNum)
    (hi : 0 ≤ s.bucketIdx) (hi' : s.bucketIdx < 10) :
    maxSizeStats_update s size = .ok { buckets := s.buckets.set s.bucketIdx.toNat size,
                                       bucketIdx := ((s.bucketIdx.toNat + 1) % Facts.statsBucketNum : Nat) } := by
  unfold maxSizeStats_update
  have hl' : s.buckets.length = 10 := hl
  have h1 : ¬ (s.bucketIdx < 0 ∨ s.bucketIdx ≥ (s.buckets.length : Int)) := by omega
  have h2 : wrap .i64 (s.bucketIdx + 1) = s.bucketIdx + 1 := wrap_i64_id _ (by omega) (by omega)
  have h2c : wrap .i64 (1 + s.bucketIdx) = s.bucketIdx + 1 := by rw [wrap_i64_id] <;> omega
  have h3 : (s.bucketIdx + 1).tmod 10 = (s.bucketIdx + 1) % 10 := Int.tmod_eq_emod_of_nonneg (by omega)
  simp [arrSet, h1, h2, h2c, h3, goMod, Facts.statsBucketNum]
  omega

/-! ## the doubling loops and mcache's capacity rounding -/

/-- a doubling loop `for ; x < T'; x *= 2 {}` — ANY function `L` whose one-step unfolding (`step`, proved by unfolding
    the generated loop function at the use site, where unification finds `L` with whatever parameters it takes) doubles
    while the counter is below the target `T` — is the model's `doubleUntil` (any fuel that suffices on both sides; no
    int64 wrap below 2^61). `acquireSlow` has two: towards `n` (first allocation) and towards `n + ri` (growth:
    `ncap-r.ri < n`). Stated for the loop call followed by its continuation, so that `rw` finds it. -/
theorem double_bind {β : Type} (L : Nat → Int → GM Int) (T : Nat) (hT : T ≤ 2 ^ 61)
    (step : ∀ (f m : Nat), 0 < m → m ≤ 2 ^ 62 → L (f + 1) (m : Int) = if m < T then L f ((m : Int) * 2) else .ok (m : Int))
    (f m g : Nat) (mi : Int) (hmi : mi = (m : Int)) (hm : 0 < m) (hm' : m ≤ 2 ^ 62) (hf : T ≤ m * 2 ^ f) (hg : T ≤ m * 2 ^ g)
    (K : Int → GM β) :
    (L (f + 1) mi).bind K = K ((doubleUntil g m T : Nat) : Int) := by
  subst hmi
  suffices h : L (f + 1) (m : Int) = .ok ((doubleUntil g m T : Nat) : Int) by rw [h]; rfl
  induction f generalizing m g with
  | zero =>
    have : ¬ m < T := by omega
    have e : doubleUntil g m T = m := by cases g <;> simp [doubleUntil, this]
    rw [step 0 m hm hm', if_neg this, e]
  | succ f ih =>
    rw [step (f + 1) m hm hm']
    by_cases h : m < T
    · cases g with
      | zero => simp at hg; omega
      | succ g =>
        have hf2 : T ≤ (m * 2) * 2 ^ f := by rw [Nat.pow_succ] at hf; rw [Nat.mul_assoc, Nat.mul_comm 2]; exact hf
        have hg2 : T ≤ (m * 2) * 2 ^ g := by rw [Nat.pow_succ] at hg; rw [Nat.mul_assoc, Nat.mul_comm 2]; exact hg
        have := ih (m * 2) g (by omega) (by omega) hf2 hg2
        simp only [Int.natCast_mul, Int.cast_ofNat_Int] at this
        simp [h, doubleUntil, this]
    · have e : doubleUntil g m T = m := by cases g <;> simp [doubleUntil, h]
      simp [h, e]

/-- doubling from a power of two stops at the least power of two that covers the target -/
theorem doubleUntil_pow (f j k c : Nat) (hjk : j ≤ k) (hf : k - j ≤ f) (hc : c ≤ 2 ^ k)
    (hlow : k = j ∨ 2 ^ (k - 1) < c) : doubleUntil f (2 ^ j) c = 2 ^ k := by
  induction f generalizing j with
  | zero =>
    have : j = k := by omega
    subst this; rfl
  | succ f ih =>
    unfold doubleUntil
    by_cases hj : j = k
    · subst hj
      have : ¬ 2 ^ j < c := by omega
      simp [this]
    · have hlt : 2 ^ j < c := by
        have : 2 ^ j ≤ 2 ^ (k - 1) := Nat.pow_le_pow_right (by omega) (by omega)
        omega
      have := ih (j + 1) (by omega) (by omega) (by omega)
      simpa [hlt, Nat.pow_succ] using this

/-- mcache's `1 << calcIndex(c)` is the model's `pow2ceil c` -/
theorem mcacheCap_eq (c : Nat) (hc : c ≤ 2 ^ 63) : mcacheCap c = pow2ceil c := by
  unfold mcacheCap pow2ceil
  rw [pow2ceilAux_eq]
  by_cases h0 : c = 0
  · subst h0; rfl
  · have hlo := Nat.log2_self_le h0
    have hhi := @Nat.lt_log2_self c
    have hk : c.log2 < 64 := by
      rw [Nat.log2_lt h0]
      calc c ≤ 2 ^ 63 := hc
        _ < 2 ^ 64 := by decide
    simp only [h0, if_false]
    by_cases hp : 2 ^ c.log2 = c
    · have := doubleUntil_pow 64 0 c.log2 c (by omega) (by omega) (by omega) (by
        by_cases hz : c.log2 = 0
        · left; exact hz
        · right
          have : 2 ^ (c.log2 - 1) < 2 ^ c.log2 := Nat.pow_lt_pow_right (by omega) (by omega)
          omega)
      simp only [hp, if_true]
      simpa [hp] using this.symm
    · have := doubleUntil_pow 64 0 (c.log2 + 1) c (by omega) (by omega) (by omega) (by
        right; simp; omega)
      simp only [hp, if_false]
      simpa using this.symm

/-! ## abstraction, representation invariant -/

def absRd (g : S_DefaultReader Src) : Rd :=
  { buf := g.buf.data, cap := g.buf.mem.length, ri := g.ri.toNat, err := errAbs g.err, readOnly := g.bufReadOnly,
    stats := g.maxSizeStats.buckets.map Int.toNat, statsIdx := g.maxSizeStats.bucketIdx.toNat,
    src := g.rd.getD ⟨[], []⟩ }

structure GInv (g : S_DefaultReader Src) : Prop where
  len_le : g.buf.len ≤ g.buf.mem.length
  ri_nonneg : 0 ≤ g.ri
  ri_le : g.ri ≤ g.buf.len
  cap_le : g.buf.mem.length ≤ 2 ^ 45
  rd_some : g.rd.isSome
  stats_len : g.maxSizeStats.buckets.length = Facts.statsBucketNum
  stats_rng : ∀ x ∈ g.maxSizeStats.buckets, 0 ≤ x ∧ x ≤ 2 ^ 45
  idx_rng : 0 ≤ g.maxSizeStats.bucketIdx ∧ g.maxSizeStats.bucketIdx < 10

/-- the buffer after `m, err := r.rd.Read(r.buf[len(r.buf):cap(r.buf)]); r.buf = r.buf[:len(r.buf)+m]` delivered `d` -/
def filled (b : Sl) (d : Bytes) : Sl :=
  { mem := b.mem.take b.len ++ d ++ b.mem.drop (b.len + d.length), len := b.len + d.length, nonnil := b.nonnil }

/-! ### slice-level facts: what `Read` into the spare capacity followed by the re-slice does -/

theorem sslice_ok (s : Sl) (lo hi : Int) (h0 : 0 ≤ lo) (h1 : lo ≤ hi) (h2 : hi ≤ scap s) :
    sslice s lo hi = .ok { s with mem := s.mem.drop lo.toNat, len := hi.toNat - lo.toNat } := by
  unfold sslice
  have a : ¬ (hi < 0 ∨ hi > scap s) := by omega
  have b : ¬ (lo < 0 ∨ lo > hi) := by omega
  simp [a, b]

/-- `r.buf[len(r.buf):cap(r.buf)]` -/
theorem spare_ok (b : Sl) (hlen : b.len ≤ b.mem.length) :
    sslice b (slen b) (scap b) = .ok { b with mem := b.mem.drop b.len, len := b.mem.length - b.len } := by
  rw [sslice_ok b (slen b) (scap b) (by simp [slen]) (by simp [slen, scap]; omega) (by omega)]
  simp [slen, scap]

/-- `Read` on the spare capacity, written back, then `r.buf[:len(r.buf)+m]` -/
theorem refill_ok (b : Sl) (s : Src) (hlen : b.len ≤ b.mem.length) (hcap : b.mem.length ≤ 2 ^ 45) :
    let p : Sl := { b with mem := b.mem.drop b.len, len := b.mem.length - b.len }
    let r := ioRead srcReader s p
    let b2 := putBack b (slen b) r.1
    r.2.1 = ((s.read (b.mem.length - b.len)).1.length : Int) ∧
    r.2.2.1 = errCon (s.read (b.mem.length - b.len)).2.1 ∧
    r.2.2.2 = (s.read (b.mem.length - b.len)).2.2 ∧
    -- `r.buf[:hi]` for any way of writing `hi = len(r.buf) + m`
    (∀ hi : Int, hi = ((b.len + (s.read (b.mem.length - b.len)).1.length : Nat) : Int) →
      sslice b2 0 hi = .ok (filled b (s.read (b.mem.length - b.len)).1)) := by
  have hrl := Src.read_len s (b.mem.length - b.len)
  generalize hd : (s.read (b.mem.length - b.len)).1 = d at hrl
  simp only [ioRead, srcReader, putBack, slen, hd]
  refine ⟨trivial, trivial, trivial, ?_⟩
  intro hi hhi
  subst hhi
  have e1 : d.take (b.mem.length - b.len) = d := List.take_of_length_le hrl
  simp only [e1]
  rw [sslice_ok _ _ _ (by omega) (by omega) (by simp [scap]; omega)]
  simp [filled, List.drop_drop]
  omega

set_option hygiene false in
/-- proves `ReadStep (the generated read loop) ↑n` (`n : Nat` is the request of the use site: no hygiene): unfold one round, split on what the source answered, let simp finish
    with both readings of every comparison -/
macro "read_step" : tactic => `(tactic| (
  refine ⟨?_, ?_⟩
  · intro fuel g i s hrd hi hlt hi0
    have h1 := spare_ok g.buf hi.len_le
    obtain ⟨h2, h3, h4, h5⟩ := refill_ok g.buf s hi.len_le hi.cap_le
    have hrl := Src.read_len s (g.buf.mem.length - g.buf.len)
    generalize hres : s.read (g.buf.mem.length - g.buf.len) = res at *
    have hri0 := hi.ri_nonneg; have hri := hi.ri_le; have hlen := hi.len_le; have hcap := hi.cap_le
    have hfl : (filled g.buf res.1).len = g.buf.len + res.1.length := rfl
    have hw : wrap .i64 (slen (filled g.buf res.1) - g.ri) = ((filled g.buf res.1).len : Int) - g.ri := by
      rw [wrap_i64_id] <;> simp [slen, filled] <;> omega
    have hw1 : wrap .i64 (-1 + 1) = 0 := by decide
    have hw0 : wrap .i64 0 = 0 := by decide
    have hw2 : wrap .i64 (i + 1) = i + 1 := by rw [wrap_i64_id] <;> omega
    have hw3 : wrap .i64 (1 + i) = i + 1 := by rw [wrap_i64_id] <;> omega
    have hge : ¬ (100 : Int) ≤ i := by omega
    rw [DefaultReader_acquireSlow_loop3]
    -- up to `r.buf = r.buf[:len(r.buf)+m]`, however the bound is written
    simp [hlt, hge, h1, hrd, ifaceGet, h2, h3, h4]
    rw [h5]
    rotate_left
    · simp only [slen, putBack]; rw [wrap_i64_id] <;> omega
    by_cases he : res.2.1 = none
    · by_cases hn : n ≤ ((filled g.buf res.1).len : Int) - g.ri
      · have hn' : ¬ ((filled g.buf res.1).len : Int) - g.ri < n := by omega
        simp [hlt, hge, h1, hrd, ifaceGet, h2, h3, h4, errCon_nil_iff, hw, he, hn, hn', ite_bind]
      · have hn' : ((filled g.buf res.1).len : Int) - g.ri < n := by omega
        -- first everything up to the count of the round, then (second pass) the `m > 0` reset, in either reading
        simp [hlt, hge, h1, hrd, ifaceGet, h2, h3, h4, errCon_nil_iff, hw, he, hn, hn']
        by_cases hp : 0 < res.1.length
        · have hp1 : res.1.length ≠ 0 := by omega
          have hp2 : res.1 ≠ [] := by intro h; simp [h] at hp
          simp [hp, hp1, hp2, hw1, hw0]
        · have hp1 : res.1.length = 0 := by omega
          have hp2 : res.1 = [] := List.eq_nil_of_length_eq_zero hp1
          simp [hp2, hw2, hw3]
    · simp [hlt, hge, h1, hrd, ifaceGet, h2, h3, h4, errCon_nil_iff, hw, he, ite_bind]
  · intro fuel g i hge
    have hge' : (100 : Int) ≤ i := by omega
    rw [DefaultReader_acquireSlow_loop3]
    simp [hge, hge']))

/-- the type of the read loop of acquireSlow: fuel, the variables it assigns (the receiver and the counter `i`) -/
abbrev ReadLoopT :=
  Nat → S_DefaultReader Src → Int → GM (LoopR (S_DefaultReader Src × Int) (S_DefaultReader Src × Int))

/-- one round of the read loop of acquireSlow, in normal form: what ANY function `L` must satisfy to be that loop (the
    generated loop function — whatever it is called with — is shown to satisfy it by `read_step` at the use site) -/
def ReadStep (L : ReadLoopT) (n : Int) : Prop :=
  (∀ (fuel : Nat) (g : S_DefaultReader Src) (i : Int) (s : Src), g.rd = some s → GInv g → i < 100 → -1 ≤ i →
    L (fuel + 1) g i =
      (let res := s.read (g.buf.mem.length - g.buf.len)
       let g1 : S_DefaultReader Src := { g with rd := some res.2.2, buf := filled g.buf res.1 }
       if res.2.1 ≠ none then .ok (.ret ({ g1 with err := errCon res.2.1 }, (g1.buf.len : Int) - g.ri))
       else if n ≤ (g1.buf.len : Int) - g.ri then .ok (.ret (g1, n))
       else L fuel g1 (if res.1.length > 0 then 0 else i + 1))) ∧
  (∀ (fuel : Nat) (g : S_DefaultReader Src) (i : Int), ¬ i < 100 → L (fuel + 1) g i = .ok (.done (g, i)))

/-! ## the simulation relation: the model state is the abstraction of the generated state, up to the bytes below `ri`
    (consumed: neither side ever reads them again; after a growth the Go buffer holds DIRTY bytes there, the model
    keeps the old ones) -/

structure Sim (g : S_DefaultReader Src) (m : Rd) : Prop where
  len : m.buf.length = g.buf.len
  live : m.buf.drop m.ri = g.buf.data.drop m.ri
  cap : m.cap = g.buf.mem.length
  ri : (m.ri : Int) = g.ri
  err : g.err = errCon m.err
  ro : m.readOnly = g.bufReadOnly
  stats : m.stats = g.maxSizeStats.buckets.map Int.toNat
  idx : (m.statsIdx : Int) = g.maxSizeStats.bucketIdx
  src : g.rd = some m.src

theorem filled_data (b : Sl) (d : Bytes) (h : b.len ≤ b.mem.length) : (filled b d).data = b.data ++ d := by
  simp [filled, Sl.data, List.take_append, List.take_take, Nat.min_eq_left h]

/-- one `Read` keeps the relation and the invariant -/
theorem sim_fill (g : S_DefaultReader Src) (m : Rd) (hs : Sim g m) (hi : GInv g) (res : Bytes × Option RErr × Src)
    (hrl : res.1.length ≤ m.cap - m.buf.length) :
    Sim { g with rd := some res.2.2, buf := filled g.buf res.1 } { m with buf := m.buf ++ res.1, src := res.2.2 } ∧
    GInv { g with rd := some res.2.2, buf := filled g.buf res.1 } := by
  have hlen := hi.len_le; have hri := hi.ri_le; have hri0 := hi.ri_nonneg; have hcap := hi.cap_le
  have h1 := hs.len; have h2 := hs.cap; have h3 := hs.ri
  have hmem : (filled g.buf res.1).mem.length = g.buf.mem.length := by
    simp [filled, Nat.min_eq_left hlen]; omega
  refine ⟨⟨?_, ?_, ?_, hs.ri, hs.err, hs.ro, hs.stats, hs.idx, rfl⟩,
    ⟨?_, hi.ri_nonneg, ?_, ?_, rfl, hi.stats_len, hi.stats_rng, hi.idx_rng⟩⟩
  · simp [filled, h1]
  · show (m.buf ++ res.1).drop m.ri = (filled g.buf res.1).data.drop m.ri
    rw [filled_data _ _ hlen, List.drop_append_of_le_length (by omega), List.drop_append_of_le_length (by
      simp [Sl.data, Nat.min_eq_left hlen]; omega), hs.live]
  · show m.cap = (filled g.buf res.1).mem.length
    omega
  · show (filled g.buf res.1).len ≤ (filled g.buf res.1).mem.length
    rw [hmem]; simp [filled]; omega
  · show g.ri ≤ ((filled g.buf res.1).len : Int)
    simp [filled]; omega
  · show (filled g.buf res.1).mem.length ≤ 2 ^ 45
    omega

/-- what the read loop hands back, against the model's answer `(k, m')` -/
def LoopOut (r : LoopR (S_DefaultReader Src × Int) (S_DefaultReader Src × Int)) (k : Nat) (m' : Rd) : Prop :=
  match r with
  | .ret (g', k') => k' = (k : Int) ∧ Sim g' m' ∧ GInv g'
  | .done (g', _) => (k : Int) = (g'.buf.len : Int) - g'.ri ∧
      Sim { g' with err := Err.noProgress } m' ∧ GInv { g' with err := Err.noProgress }

/-- the read loop of acquireSlow (with its `i = -1` reset) is the model's `Rd.readLoop`: any fuel at least the model's -/
theorem read_loop_sim (L : ReadLoopT) (n : Nat) (hL : ReadStep L (n : Int)) (f : Nat) :
    ∀ (i : Nat) (g : S_DefaultReader Src) (m : Rd) (k : Nat) (m' : Rd), Sim g m → GInv g →
      Rd.readLoop f i m n = some (k, m') → ∀ fuel, f ≤ fuel →
      ∃ r, L fuel g (i : Int) = .ok r ∧ LoopOut r k m' := by
  induction f with
  | zero => intro i g m k m' _ _ h; simp [Rd.readLoop] at h
  | succ f ih =>
    intro i g m k m' hs hi h fuel hfuel
    obtain ⟨fuel, rfl⟩ : ∃ f', fuel = f' + 1 := ⟨fuel - 1, by omega⟩
    have hlen := hi.len_le; have hri := hi.ri_le; have hri0 := hi.ri_nonneg
    have h1 := hs.len; have h2 := hs.cap; have h3 := hs.ri
    unfold Rd.readLoop at h
    by_cases hge : i ≥ Facts.maxConsecutiveEmptyReads
    · -- too many consecutive empty reads: the loop is left, the caller sets ErrNoProgress
      simp only [hge, if_true, Option.some.injEq, Prod.mk.injEq] at h
      obtain ⟨hk, hm⟩ := h
      have : ¬ (i : Int) < 100 := by simp [Facts.maxConsecutiveEmptyReads] at hge; omega
      refine ⟨.done (g, i), hL.2 fuel g i this, ?_⟩
      subst hm hk
      refine ⟨by omega, ⟨hs.len, hs.live, hs.cap, hs.ri, rfl, hs.ro, hs.stats, hs.idx, hs.src⟩,
        ⟨hi.len_le, hi.ri_nonneg, hi.ri_le, hi.cap_le, hi.rd_some, hi.stats_len, hi.stats_rng, hi.idx_rng⟩⟩
    · have hlt : (i : Int) < 100 := by simp [Facts.maxConsecutiveEmptyReads] at hge; omega
      rw [hL.1 fuel g i m.src hs.src hi hlt (by omega)]
      obtain ⟨hs1, hi1⟩ := sim_fill g m hs hi _ (Src.read_len m.src (m.cap - m.buf.length))
      simp only [hge, if_false] at h
      rw [← h2, ← h1]
      generalize m.src.read (m.cap - m.buf.length) = res at *
      have hl1 : ((filled g.buf res.1).len : Int) - g.ri = (((m.buf ++ res.1).length - m.ri : Nat) : Int) := by
        have := hs1.len; simp only [] at this; simp [filled] at this ⊢; omega
      simp only [] at h ⊢
      cases he : res.2.1 with
      | some e =>
        -- the source returned an error (possibly with data)
        simp only [he, Option.some.injEq, Prod.mk.injEq] at h
        obtain ⟨hk, hm⟩ := h
        simp only [ne_eq, reduceCtorEq, not_false_eq_true, if_true]
        refine ⟨_, rfl, ?_⟩
        subst hm hk
        exact ⟨hl1, ⟨hs1.len, hs1.live, hs1.cap, hs1.ri, rfl, hs1.ro, hs1.stats, hs1.idx, hs1.src⟩,
          ⟨hi1.len_le, hi1.ri_nonneg, hi1.ri_le, hi1.cap_le, hi1.rd_some, hi1.stats_len, hi1.stats_rng, hi1.idx_rng⟩⟩
      | none =>
        simp only [he] at h
        simp only [ne_eq, not_true, if_false, hl1]
        by_cases hn : n ≤ (m.buf ++ res.1).length - m.ri
        · simp only [hn, if_true, Option.some.injEq, Prod.mk.injEq] at h
          obtain ⟨hk, hm⟩ := h
          have hn' : (n : Int) ≤ (((m.buf ++ res.1).length - m.ri : Nat) : Int) := by omega
          simp only [hn', if_true]
          refine ⟨_, rfl, ?_⟩
          subst hm hk
          exact ⟨rfl, hs1, hi1⟩
        · simp only [hn, if_false] at h
          have hn' : ¬ (n : Int) ≤ (((m.buf ++ res.1).length - m.ri : Nat) : Int) := by omega
          have hcast : (if res.1.length > 0 then (0 : Int) else (i : Int) + 1)
              = ((if res.1.length > 0 then 0 else i + 1 : Nat) : Int) := by split <;> simp
          simp only [hn', if_false, hcast]
          split at h
          · rename_i hp; simp only [hp, if_true] ; exact ih _ _ _ _ _ hs1 hi1 h fuel (by omega)
          · rename_i hp; simp only [hp, if_false]; exact ih _ _ _ _ _ hs1 hi1 h fuel (by omega)

theorem bind_ok_nr {α β : Type} (a : α) (f : α → GM β) : (Out.ok a : GM α).bind f = f a := by
  cases h : f a <;> simp [h]

/-- a generated acquire-like call agrees with the model's: same count, related states, invariant kept -/
def AcqOK (x : GM (S_DefaultReader Src × Int)) (y : Option (Nat × Rd)) : Prop :=
  ∃ (g' : S_DefaultReader Src) (k : Nat) (m' : Rd), x = .ok (g', (k : Int)) ∧ y = some (k, m') ∧ Sim g' m' ∧ GInv g' ∧
    k ≤ m'.buf.length - m'.ri

/-- after the read loop: `r.err = io.ErrNoProgress; return len(r.buf) - r.ri`, or what the loop returned -/
theorem acquire_finish (L : ReadLoopT) (fuel n : Nat) (g1 : S_DefaultReader Src) (m1 : Rd)
    (K : LoopR (S_DefaultReader Src × Int) (S_DefaultReader Src × Int) → GM (S_DefaultReader Src × Int))
    (hL : ReadStep L (n : Int))
    (hK1 : ∀ x, K (.ret x) = .ok x)
    (hK2 : ∀ g i, GInv g → K (.done (g, i)) = .ok ({ g with err := Err.noProgress }, (g.buf.len : Int) - g.ri))
    (hs : Sim g1 m1) (hi : GInv g1)
    (hfuel : Facts.maxConsecutiveEmptyReads * (m1.cap - m1.buf.length + 1) + 1 ≤ fuel) :
    AcqOK ((L fuel g1 0).bind K)
      (Rd.readLoop (Facts.maxConsecutiveEmptyReads * (m1.cap - m1.buf.length + 1) + 1) 0 m1 n) := by
  have hsome := readLoop_fuel (Facts.maxConsecutiveEmptyReads * (m1.cap - m1.buf.length + 1) + 1) 0 m1 n (by
    rw [Nat.mul_add]; omega)
  obtain ⟨⟨k, m'⟩, hm⟩ := Option.isSome_iff_exists.mp hsome
  obtain ⟨r, hr, hout⟩ := read_loop_sim L n hL _ 0 g1 m1 k m' hs hi hm fuel hfuel
  have hr' : L fuel g1 0 = .ok r := by simpa using hr
  have hpost := (readLoop_post _ _ _ _ _ _ hm).outcome
  have hkle : k ≤ m'.buf.length - m'.ri := by omega
  rw [hr', hm]
  cases r with
  | ret x =>
    obtain ⟨g', k'⟩ := x
    obtain ⟨hk, hs', hi'⟩ := hout
    exact ⟨g', k, m', by simp [hK1, hk], rfl, hs', hi', hkle⟩
  | done x =>
    obtain ⟨g', i'⟩ := x
    obtain ⟨hk, hs', hi'⟩ := hout
    have hg' : GInv g' := ⟨hi'.len_le, hi'.ri_nonneg, hi'.ri_le, hi'.cap_le, hi'.rd_some, hi'.stats_len, hi'.stats_rng,
      hi'.idx_rng⟩
    exact ⟨_, k, m', by simp [hK2 g' i' hg', hk], rfl, hs', hi', hkle⟩

/-- `r.err = io.ErrNoProgress; return len(r.buf) - r.ri` after the read loop (the `hK2` of `acquire_finish`) -/
macro "after_loop" : tactic => `(tactic| (
  intro g i hg
  have := hg.len_le; have := hg.ri_nonneg; have := hg.ri_le; have := hg.cap_le
  have hw : wrap .i64 (slen g.buf - g.ri) = (g.buf.len : Int) - g.ri := by rw [wrap_i64_id] <;> simp [slen] <;> omega
  have hw' : wrap .i64 (-g.ri + slen g.buf) = (g.buf.len : Int) - g.ri := by rw [wrap_i64_id] <;> simp [slen] <;> omega
  simp [hw, hw']))

theorem malloc0_ok (o : Nat → Bytes) (c : Nat) (hc : c ≤ 2 ^ 45) :
    mcacheMalloc o 0 (some (c : Int)) = .ok { mem := dirty o (mcacheCap c), len := 0, nonnil := true } := by
  unfold mcacheMalloc
  by_cases h : (c : Int) > 0
  · have : ¬ ((c : Int) < 0 ∨ (c : Int) > 35184372088832) := by omega
    have hc0 : 0 < c := by omega
    simp [hc0, this]
  · have : c = 0 := by omega
    subst this; simp

theorem malloc1_ok (o : Nat → Bytes) (c : Nat) (hc : c ≤ 2 ^ 45) :
    mcacheMalloc o (c : Int) none = .ok { mem := dirty o (mcacheCap c), len := c, nonnil := true } := by
  unfold mcacheMalloc
  have : ¬ ((c : Int) < 0 ∨ (c : Int) > 35184372088832) := by omega
  simp [this]

/-- the buffer after `cn := copy(nbuf[ri:], buf[ri:]); buf = nbuf[:ri+cn]` -/
def regrown (b nb : Sl) (ri : Nat) : Sl :=
  { mem := nb.mem.take ri ++ ((b.mem.drop ri).take (b.len - ri) ++ nb.mem.drop b.len), len := b.len, nonnil := nb.nonnil }

theorem regrow_ok (b nb : Sl) (ri : Nat) (hri : ri ≤ b.len) (hlen : b.len ≤ b.mem.length)
    (hnb : nb.len ≤ nb.mem.length) (hbig : b.len ≤ nb.len) (_hcap : nb.mem.length ≤ 2 ^ 46) :
    let nbs : Sl := { nb with mem := nb.mem.drop ri, len := nb.len - ri }
    let bs : Sl := { b with mem := b.mem.drop ri, len := b.len - ri }
    ssliceFrom nb (ri : Int) = .ok nbs ∧ ssliceFrom b (ri : Int) = .ok bs ∧
    (∀ hi : Int, hi = (b.len : Int) → sslice (putBack nb (ri : Int) (copySl nbs bs).1) 0 hi = .ok (regrown b nb ri)) ∧
    (copySl nbs bs).2 = ((b.len - ri : Nat) : Int) := by
  have hk : min (nb.len - ri) (b.len - ri) = b.len - ri := by omega
  refine ⟨?_, ?_, ?_, by simp [copySl, hk]⟩
  · unfold ssliceFrom; rw [sslice_ok _ _ _ (by omega) (by simp [slen]; omega) (by simp [slen, scap]; omega)]; simp [slen]
  · unfold ssliceFrom; rw [sslice_ok _ _ _ (by omega) (by simp [slen]; omega) (by simp [slen, scap]; omega)]; simp [slen]
  · intro hi hhi
    subst hhi
    simp only [copySl, hk, putBack]
    rw [sslice_ok _ _ _ (by omega) (by omega) (by simp [scap]; omega)]
    simp [regrown, List.drop_drop]
    have e1 : ri + (b.len - ri) = b.len := by omega
    have e2 : min ri nb.mem.length = ri := by omega
    have e3 : min (b.len - ri) (b.mem.length - ri) = b.len - ri := by omega
    simp [e1, e2, e3]
    omega

theorem regrown_data (b nb : Sl) (ri : Nat) (hri : ri ≤ b.len) (hlen : b.len ≤ b.mem.length)
    (hbig : b.len ≤ nb.mem.length) :
    (regrown b nb ri).data.drop ri = b.data.drop ri ∧ (regrown b nb ri).mem.length = nb.mem.length := by
  constructor
  · have e : (regrown b nb ri).data = nb.mem.take ri ++ (b.mem.drop ri).take (b.len - ri) := by
      simp only [regrown, Sl.data]
      rw [← List.append_assoc, List.take_append_of_le_length (by simp; omega)]
      apply List.take_of_length_le; simp; omega
    rw [e, List.drop_append_of_le_length (by simp; omega)]
    have : ((nb.mem.take ri).drop ri) = [] := by apply List.drop_of_length_le; simp; omega
    rw [this]
    simp [Sl.data, List.drop_take]
  · simp [regrown]; omega

theorem pow2ceil_le45 (x : Nat) (hx : x ≤ 2 ^ 45) : pow2ceil x ≤ 2 ^ 45 := by
  unfold pow2ceil; rw [pow2ceilAux_eq]
  exact doubleUntil_le 64 1 x 45 (2 ^ 45) (by omega) hx

/-- the fuel the model gives its read loop for this request -/
def needFuel (m : Rd) (n : Nat) : Nat :=
  Facts.maxConsecutiveEmptyReads * ((m.prepare n).cap - (m.prepare n).buf.length + 1) + 1

theorem DefaultReader_acquireSlow_sim (O : Nat → Nat → Bytes) (fuel : Nat) (g : S_DefaultReader Src) (m : Rd) (n : Nat)
    (hs : Sim g m) (hi : GInv g) (hcap : g.buf.mem.length ≤ 2 ^ 44) (hreq : n + m.ri ≤ 2 ^ 44)
    (hfuel : needFuel m n ≤ fuel) :
    AcqOK (DefaultReader_acquireSlow srcReader O fuel g (n : Int)) (m.acquireSlow n) := by
  have hlen := hi.len_le; have hri := hi.ri_le; have hri0 := hi.ri_nonneg
  have h1 := hs.len; have h2 := hs.cap; have h3 := hs.ri
  have hM : Facts.maxConsecutiveEmptyReads = 100 := rfl
  unfold Rd.acquireSlow
  by_cases he : m.err.isSome
  · -- sticky error
    have hge : g.err ≠ Err.nil := by
      rw [hs.err]; intro h; rw [errCon_nil_iff] at h; simp [h] at he
    have hw : wrap .i64 (slen g.buf - g.ri) = ((m.buf.length - m.ri : Nat) : Int) := by
      have := hi.cap_le
      rw [wrap_i64_id] <;> simp [slen] <;> omega
    exact ⟨g, m.buf.length - m.ri, m, by simp [DefaultReader_acquireSlow, hge, hw], by simp [he], hs, hi, Nat.le_refl _⟩
  · have hge : g.err = Err.nil := by
      rw [hs.err, errCon_nil_iff]; simpa using he
    simp only [he]
    unfold needFuel at hfuel
    have hf64 : 101 ≤ fuel := by rw [hM] at hfuel; omega
    obtain ⟨f0, rfl⟩ : ∃ f0, fuel = f0 + 1 := ⟨fuel - 1, by omega⟩
    unfold DefaultReader_acquireSlow
    by_cases hc : g.buf.mem.length = 0
    · -- first allocation: max(stats, defaultBufSize) doubled up to n, from mcache
      have hc' : scap g.buf = 0 := by unfold scap; omega
      have hmc : m.cap = 0 := by omega
      have hri' : g.ri = 0 := by omega
      have hmri : m.ri = 0 := by omega
      have hmlen : m.buf = [] := List.eq_nil_of_length_eq_zero (by omega)
      have hst : ∀ x ∈ g.maxSizeStats.buckets, 0 ≤ x := fun x hx => (hi.stats_rng x hx).1
      have e1 := maxSizeStats_maxSize_eq g.maxSizeStats hst hi.stats_len
      rw [← hs.stats] at e1
      have hs45 : statsMax m.stats ≤ 2 ^ 45 := statsMax_le _ _ (by
        intro x hx; rw [hs.stats] at hx
        obtain ⟨y, hy, rfl⟩ := List.mem_map.mp hx
        have := hi.stats_rng y hy; omega)
      generalize hm1 : (if statsMax m.stats < Facts.defaultBufSize then Facts.defaultBufSize else statsMax m.stats) = m1
      have hm1' : m1 = if statsMax m.stats < 4096 then 4096 else statsMax m.stats := hm1.symm
      have hm1pos : 0 < m1 := by rw [hm1']; split <;> omega
      have hm1le : m1 ≤ 2 ^ 45 := by rw [hm1']; split <;> omega
      have hpow : 2 ^ 44 ≤ 2 ^ f0 := Nat.pow_le_pow_right (by omega) (by omega)
      have hf1 : n ≤ m1 * 2 ^ f0 := by
        calc n ≤ 1 * 2 ^ f0 := by omega
          _ ≤ m1 * 2 ^ f0 := Nat.mul_le_mul_right _ hm1pos
      have hg1 : n ≤ m1 * 2 ^ 64 := by
        calc n ≤ 1 * 2 ^ 64 := by omega
          _ ≤ m1 * 2 ^ 64 := Nat.mul_le_mul_right _ hm1pos
      have hd := doubleUntil_spec 64 m1 n hm1pos hg1
      generalize hm2 : doubleUntil 64 m1 n = m2 at *
      have hm2le : m2 ≤ 2 ^ 45 := by omega
      have e3 := malloc0_ok (O 1) m2 hm2le
      have hpc := pow2ceil_spec m2 (by omega)
      have hmc2 := mcacheCap_eq m2 (by omega)
      have hpc45 := pow2ceil_le45 m2 hm2le
      have hnil : g.buf.mem = [] := List.eq_nil_of_length_eq_zero hc
      have hp : m.prepare n = { m with buf := [], cap := pow2ceil m2, readOnly := false } := by
        have : ¬ n > pow2ceil m2 - m.ri := by omega
        simp [Rd.prepare, hmc, hm1, hm2, this]
      have hwA : wrap .i64 ((mcacheCap m2 : Int) - g.ri) = (mcacheCap m2 : Int) := by
        rw [wrap_i64_id] <;> omega
      have hgA : ¬ (mcacheCap m2 : Int) < (n : Int) := by omega
      have hmax : (if ((statsMax m.stats : Nat) : Int) < 4096 then (Out.ok 4096 : GM Int) else Out.ok ((statsMax m.stats : Nat) : Int))
          = Out.ok (m1 : Int) := by
        rw [hm1']; split <;> split <;> first | rfl | omega
      simp [-Out.bind_ok, bind_ok_nr, hge, hc', e1, hmax, scap, hnil]
      -- the doubling loop, whatever the generated function is called with
      rw [double_bind (T := n) (f := f0) (m := m1) (g := 64) (mi := (m1 : Int)) (hT := by omega) (hmi := rfl)
        (hm := hm1pos) (hm' := by omega) (hf := hf1) (hg := hg1)]
      rotate_left
      · intro f m hm hm'
        rw [DefaultReader_acquireSlow_loop1]
        arith_cases
      rw [hm2]
      simp [-Out.bind_ok, bind_ok_nr, e3, scap, hwA, hgA]
      rw [hp] at hfuel ⊢
      refine acquire_finish _ _ n _ _ _ (by read_step) (fun _ => rfl) (by after_loop) ?_ ?_ hfuel
      · exact ⟨by simp, by simp [Sl.data], by simp [hmc2], hs.ri, by first | exact hs.err | exact hge.symm.trans hs.err, rfl, hs.stats, hs.idx, hs.src⟩
      · exact ⟨by simp, hi.ri_nonneg, by simp; omega, by simp; omega, hi.rd_some, hi.stats_len, hi.stats_rng, hi.idx_rng⟩
    · have hc' : ¬ scap g.buf = 0 := by unfold scap; omega
      have hmc : ¬ m.cap = 0 := by omega
      have hw : wrap .i64 (scap g.buf - g.ri) = ((m.cap - m.ri : Nat) : Int) := by
        rw [wrap_i64_id] <;> simp [scap] <;> omega
      by_cases hg : n > m.cap - m.ri
      · -- growth: capacity doubled until the request fits, fresh buffer from mcache, unread bytes copied over
        have hg' : (n : Int) > ((m.cap - m.ri : Nat) : Int) := by omega
        have hnpos : 0 < n := by omega
        have hwc : wrap .i64 (scap g.buf * 2) = ((m.cap * 2 : Nat) : Int) := by
          rw [wrap_i64_id] <;> simp [scap] <;> omega
        have hpow : 2 ^ 44 ≤ 2 ^ f0 := Nat.pow_le_pow_right (by omega) (by omega)
        have hf1 : n + m.ri ≤ (m.cap * 2) * 2 ^ f0 := by
          calc n + m.ri ≤ 1 * 2 ^ f0 := by omega
            _ ≤ (m.cap * 2) * 2 ^ f0 := Nat.mul_le_mul_right _ (by omega)
        have hg1 : n + m.ri ≤ (m.cap * 2) * 2 ^ 64 := by
          calc n + m.ri ≤ 1 * 2 ^ 64 := by omega
            _ ≤ (m.cap * 2) * 2 ^ 64 := Nat.mul_le_mul_right _ (by omega)
        have hd := doubleUntil_spec 64 (m.cap * 2) (n + m.ri) (by omega) hg1
        have hgc := growCap_eq 64 (m.cap * 2) m.ri n hnpos
        generalize hN : doubleUntil 64 (m.cap * 2) (n + m.ri) = N at *
        have hNle : N ≤ 2 ^ 45 := by omega
        have e3 := malloc1_ok (O 2) N hNle
        have hpc := pow2ceil_spec N (by omega)
        have hmc2 := mcacheCap_eq N (by omega)
        have hpc45 := pow2ceil_le45 N hNle
        have hp : m.prepare n = { m with cap := pow2ceil N, readOnly := false } := by
          simp [Rd.prepare, hmc, hg, hgc]
        obtain ⟨r1, r2, r3, r4⟩ := regrow_ok g.buf { mem := dirty (O 2) (mcacheCap N), len := N, nonnil := true } m.ri
          (by omega) hlen (by simp; omega) (by simp; omega) (by simp; omega)
        rw [h3] at r1 r2 r3
        obtain ⟨d1, d2⟩ := regrown_data g.buf { mem := dirty (O 2) (mcacheCap N), len := N, nonnil := true } m.ri
          (by omega) hlen (by simp; omega)
        rw [hp] at hfuel ⊢
        have hg'' : ¬ (n : Int) ≤ ((m.cap - m.ri : Nat) : Int) := by omega
        have hwc' : wrap .i64 (2 * scap g.buf) = (m.cap : Int) * 2 := by
          rw [wrap_i64_id] <;> simp [scap] <;> omega
        simp only [Int.natCast_mul, Int.cast_ofNat_Int] at hwc
        cases hro : g.bufReadOnly <;>
        · simp [-Out.bind_ok, bind_ok_nr, hge, hc', hw, hg', hg'', hwc, hwc']
          rw [double_bind (T := n + m.ri) (f := f0) (m := m.cap * 2) (g := 64) (mi := (m.cap : Int) * 2) (hT := by omega)
            (hmi := by simp) (hm := by omega) (hm' := by omega) (hf := hf1) (hg := hg1)]
          rotate_left
          · intro f c hc0 hc1
            rw [DefaultReader_acquireSlow_loop2]
            arith_cases
          rw [hN]
          simp [-Out.bind_ok, bind_ok_nr, e3, hro, r1, r2, r4]
          rw [r3]
          rotate_left
          · rw [wrap_i64_id] <;> omega
          simp [-Out.bind_ok, bind_ok_nr]
          refine acquire_finish _ _ n _ _ _ (by read_step) (fun _ => rfl) (by after_loop) ?_ ?_ hfuel
          · exact ⟨by simp [regrown, h1], by simpa [hs.live] using d1.symm, by simp only []; rw [d2]; simp [hmc2], hs.ri,
              by first | exact hs.err | exact hge.symm.trans hs.err, rfl, hs.stats, hs.idx, hs.src⟩
          · exact ⟨by simp [d2]; simp [regrown]; omega, hi.ri_nonneg, by simp [regrown]; omega, by simp [d2]; omega,
              hi.rd_some, hi.stats_len, hi.stats_rng, hi.idx_rng⟩
      · have hg' : ¬ (n : Int) > ((m.cap - m.ri : Nat) : Int) := by omega
        have hp : m.prepare n = m := by simp [Rd.prepare, hmc, hg]
        rw [hp] at hfuel ⊢
        have hg'' : (n : Int) ≤ ((m.cap - m.ri : Nat) : Int) := by omega
        simp [hge, hc', hw, hg', hg'']
        exact acquire_finish _ _ n g m _ (by read_step) (fun _ => rfl) (by after_loop) hs hi hfuel

theorem DefaultReader_acquire_sim (O : Nat → Nat → Bytes) (fuel : Nat) (g : S_DefaultReader Src) (m : Rd) (n : Nat)
    (hs : Sim g m) (hi : GInv g) (hcap : g.buf.mem.length ≤ 2 ^ 44) (hreq : n + m.ri ≤ 2 ^ 44)
    (hfuel : needFuel m n ≤ fuel) :
    AcqOK (DefaultReader_acquire srcReader O fuel g (n : Int)) (m.acquire n) := by
  have hlen := hi.len_le; have hri := hi.ri_le; have hri0 := hi.ri_nonneg; have hc := hi.cap_le
  have h1 := hs.len; have h3 := hs.ri
  have hw : wrap .i64 (slen g.buf - g.ri) = ((m.buf.length - m.ri : Nat) : Int) := by
    rw [wrap_i64_id] <;> simp [slen] <;> omega
  unfold DefaultReader_acquire Rd.acquire
  by_cases hn : n ≤ m.buf.length - m.ri
  · -- both readings of the guard (`n <= have`, `n > have`) are given to simp: an inverted guard in the source is harmless
    have hn' : (n : Int) ≤ ((m.buf.length - m.ri : Nat) : Int) := by omega
    have hn'' : ¬ ((m.buf.length - m.ri : Nat) : Int) < (n : Int) := by omega
    exact ⟨g, n, m, by simp [hw, hn', hn''], by simp [hn], hs, hi, hn⟩
  · have hn' : ¬ (n : Int) ≤ ((m.buf.length - m.ri : Nat) : Int) := by omega
    have hn'' : ((m.buf.length - m.ri : Nat) : Int) < (n : Int) := by omega
    obtain ⟨g', k, m', hx, hy, hs', hi', hk⟩ := DefaultReader_acquireSlow_sim O fuel g m n hs hi hcap hreq hfuel
    exact ⟨g', k, m', by simp [hw, hn', hn'', hx], by simp [hn, hy], hs', hi', hk⟩

/-! ## Next / Peek / Skip / ReadBinary / ReadLen / Release -/

/-- the result `(buf, err)` of a generated Next/Peek against the model's `RdRes` -/
def ResOK (b : Sl) (e : Err) : RdRes → Prop
  | .ok bs => b.data = bs ∧ e = Err.nil
  | .fail eo => b = Sl.nil ∧ e = errCon eo
  | .nofuel => False

def NextOK (x : GM (S_DefaultReader Src × Sl × Err)) (y : RdRes × Rd) : Prop :=
  ∃ (g' : S_DefaultReader Src) (b : Sl) (e : Err), x = .ok (g', b, e) ∧ ResOK b e y.1 ∧ Sim g' y.2 ∧ GInv g'

def SkipOK (x : GM (S_DefaultReader Src × Err)) (y : RdRes × Rd) : Prop :=
  ∃ (g' : S_DefaultReader Src) (e : Err), x = .ok (g', e) ∧ ResOK Sl.nil e y.1 ∧ Sim g' y.2 ∧ GInv g'

/-- `r.buf[r.ri : r.ri+n]` and `r.ri += n` on related states -/
theorem take_live (g : S_DefaultReader Src) (m : Rd) (n : Nat) (hs : Sim g m) (hi : GInv g)
    (hn : n ≤ m.buf.length - m.ri) :
    sslice g.buf g.ri ((m.ri : Int) + (n : Int)) =
        .ok { g.buf with mem := g.buf.mem.drop m.ri, len := n } ∧
      (wrap .i64 (g.ri + (n : Int)) = (m.ri : Int) + (n : Int) ∧ wrap .i64 ((n : Int) + g.ri) = (m.ri : Int) + (n : Int)) ∧
      ((g.buf.mem.drop m.ri).take n = (m.buf.drop m.ri).take n) ∧
      Sim { g with ri := ((m.ri + n : Nat) : Int) } { m with ri := m.ri + n } ∧
      GInv { g with ri := ((m.ri + n : Nat) : Int) } := by
  have hlen := hi.len_le; have hri := hi.ri_le; have hri0 := hi.ri_nonneg; have hc := hi.cap_le
  have h1 := hs.len; have h3 := hs.ri
  have hw : wrap .i64 (g.ri + (n : Int)) = (m.ri : Int) + (n : Int) := by rw [wrap_i64_id] <;> omega
  have hwc : wrap .i64 ((n : Int) + g.ri) = (m.ri : Int) + (n : Int) := by rw [wrap_i64_id] <;> omega
  refine ⟨?_, ⟨hw, hwc⟩, ?_, ⟨hs.len, ?_, hs.cap, rfl, hs.err, hs.ro, hs.stats, hs.idx, hs.src⟩,
    ⟨hi.len_le, by simp; omega, by simp; omega, hi.cap_le, hi.rd_some, hi.stats_len, hi.stats_rng, hi.idx_rng⟩⟩
  · rw [sslice_ok _ _ _ (by omega) (by omega) (by simp [scap]; omega), ← h3]
    simp
    omega
  · rw [hs.live]
    simp only [Sl.data, List.drop_take, List.take_take]
    rw [Nat.min_eq_left (by omega)]
  · show m.buf.drop (m.ri + n) = g.buf.data.drop (m.ri + n)
    rw [← List.drop_drop, ← List.drop_drop, hs.live]

theorem DefaultReader_Next_sim (O : Nat → Nat → Bytes) (fuel : Nat) (g : S_DefaultReader Src) (m : Rd) (n : Int)
    (hs : Sim g m) (hi : GInv g) (hcap : g.buf.mem.length ≤ 2 ^ 44) (hreq : n + m.ri ≤ 2 ^ 44)
    (hfuel : needFuel m n.toNat ≤ fuel) :
    NextOK (DefaultReader_Next srcReader O fuel g n) (m.next n) := by
  unfold DefaultReader_Next Rd.next
  by_cases hneg : n < 0
  · exact ⟨g, Sl.nil, Err.negCount, by simp [hneg], by simp [hneg, ResOK, errCon], by simpa [hneg] using hs, hi⟩
  · obtain ⟨k, rfl⟩ : ∃ k : Nat, n = (k : Int) := ⟨n.toNat, by omega⟩
    obtain ⟨g', j, m', hx, hy, hs', hi', hj⟩ :=
      DefaultReader_acquire_sim O fuel g m k hs hi hcap (by omega) (by simpa using hfuel)
    simp only [hneg, if_false, Int.toNat_natCast, hy]
    by_cases hgt : k > j
    · have hgt' : (k : Int) > (j : Int) := by omega
      have hle' : ¬ (k : Int) ≤ (j : Int) := by omega
      exact ⟨g', Sl.nil, g'.err, by simp [hneg, hx, hgt', hle'], by simp [hgt, ResOK, hs'.err], by simpa [hgt] using hs', hi'⟩
    · have hgt' : ¬ (k : Int) > (j : Int) := by omega
      have hle' : (k : Int) ≤ (j : Int) := by omega
      obtain ⟨t1, ⟨t2, t2c⟩, t3, t4, t5⟩ := take_live g' m' k hs' hi' (by omega)
      refine ⟨{ g' with ri := ((m'.ri + k : Nat) : Int) }, { g'.buf with mem := g'.buf.mem.drop m'.ri, len := k }, Err.nil,
        by simp [hneg, hx, hgt', hle', t1, t2, t2c], ?_, by simpa [hgt] using t4, t5⟩
      simp [hgt, ResOK, Sl.data, t3]

theorem DefaultReader_Peek_sim (O : Nat → Nat → Bytes) (fuel : Nat) (g : S_DefaultReader Src) (m : Rd) (n : Int)
    (hs : Sim g m) (hi : GInv g) (hcap : g.buf.mem.length ≤ 2 ^ 44) (hreq : n + m.ri ≤ 2 ^ 44)
    (hfuel : needFuel m n.toNat ≤ fuel) :
    NextOK (DefaultReader_Peek srcReader O fuel g n) (m.peek n) := by
  unfold DefaultReader_Peek Rd.peek
  by_cases hneg : n < 0
  · exact ⟨g, Sl.nil, Err.negCount, by simp [hneg], by simp [hneg, ResOK, errCon], by simpa [hneg] using hs, hi⟩
  · obtain ⟨k, rfl⟩ : ∃ k : Nat, n = (k : Int) := ⟨n.toNat, by omega⟩
    obtain ⟨g', j, m', hx, hy, hs', hi', hj⟩ :=
      DefaultReader_acquire_sim O fuel g m k hs hi hcap (by omega) (by simpa using hfuel)
    simp only [hneg, if_false, Int.toNat_natCast, hy]
    by_cases hgt : k > j
    · have hgt' : (k : Int) > (j : Int) := by omega
      have hle' : ¬ (k : Int) ≤ (j : Int) := by omega
      exact ⟨g', Sl.nil, g'.err, by simp [hneg, hx, hgt', hle'], by simp [hgt, ResOK, hs'.err], by simpa [hgt] using hs', hi'⟩
    · have hgt' : ¬ (k : Int) > (j : Int) := by omega
      have hle' : (k : Int) ≤ (j : Int) := by omega
      obtain ⟨t1, ⟨t2, t2c⟩, t3, t4, t5⟩ := take_live g' m' k hs' hi' (by omega)
      refine ⟨g', { g'.buf with mem := g'.buf.mem.drop m'.ri, len := k }, Err.nil,
        by simp [hneg, hx, hgt', hle', t1, t2, t2c], ?_, by simpa [hgt] using hs', hi'⟩
      simp [hgt, ResOK, Sl.data, t3]

theorem DefaultReader_Skip_sim (O : Nat → Nat → Bytes) (fuel : Nat) (g : S_DefaultReader Src) (m : Rd) (n : Int)
    (hs : Sim g m) (hi : GInv g) (hcap : g.buf.mem.length ≤ 2 ^ 44) (hreq : n + m.ri ≤ 2 ^ 44)
    (hfuel : needFuel m n.toNat ≤ fuel) :
    SkipOK (DefaultReader_Skip srcReader O fuel g n) (m.skip n) := by
  unfold DefaultReader_Skip Rd.skip
  by_cases hneg : n < 0
  · exact ⟨g, Err.negCount, by simp [hneg], by simp [hneg, ResOK, errCon], by simpa [hneg] using hs, hi⟩
  · obtain ⟨k, rfl⟩ : ∃ k : Nat, n = (k : Int) := ⟨n.toNat, by omega⟩
    obtain ⟨g', j, m', hx, hy, hs', hi', hj⟩ :=
      DefaultReader_acquire_sim O fuel g m k hs hi hcap (by omega) (by simpa using hfuel)
    simp only [hneg, if_false, Int.toNat_natCast, hy]
    by_cases hgt : k > j
    · have hgt' : (k : Int) > (j : Int) := by omega
      have hle' : ¬ (k : Int) ≤ (j : Int) := by omega
      exact ⟨g', g'.err, by simp [hneg, hx, hgt', hle'], by simp [hgt, ResOK, hs'.err], by simpa [hgt] using hs', hi'⟩
    · have hgt' : ¬ (k : Int) > (j : Int) := by omega
      have hle' : (k : Int) ≤ (j : Int) := by omega
      obtain ⟨t1, ⟨t2, t2c⟩, t3, t4, t5⟩ := take_live g' m' k hs' hi' (by omega)
      refine ⟨{ g' with ri := ((m'.ri + k : Nat) : Int) }, Err.nil, by simp [hneg, hx, hgt', hle', t2, t2c], ?_, by simpa [hgt] using t4, t5⟩
      simp [hgt, ResOK, Sl.data, Sl.nil]

/-- `ReadLen` is the model's `readLen` (exactly) -/
theorem DefaultReader_ReadLen_eq (g : S_DefaultReader Src) (m : Rd) (hs : Sim g m) :
    DefaultReader_ReadLen g = .ok (m.readLen : Int) := by
  simp [DefaultReader_ReadLen, Rd.readLen, hs.ri]

/-- `ReadBinary(bs)`: the bytes stored at the front of `bs`, the count and the error are the model's; `bs` keeps its
    length and the rest of its memory -/
def ReadBinaryOK (bs : Sl) (x : GM (S_DefaultReader Src × Sl × Int × Err))
    (y : Option (Bytes × Nat × Option RErr) × Rd) : Prop :=
  ∃ (g' : S_DefaultReader Src) (out : Bytes) (j : Nat) (e : Option RErr),
    x = .ok (g', { bs with mem := out ++ bs.mem.drop out.length }, (j : Int), errCon e) ∧
    y.1 = some (out, j, e) ∧ Sim g' y.2 ∧ GInv g'

theorem DefaultReader_ReadBinary_sim (O : Nat → Nat → Bytes) (fuel : Nat) (g : S_DefaultReader Src) (m : Rd) (bs : Sl)
    (hs : Sim g m) (hi : GInv g) (hcap : g.buf.mem.length ≤ 2 ^ 44) (hreq : bs.len + m.ri ≤ 2 ^ 44)
    (hfuel : needFuel m bs.len ≤ fuel) :
    ReadBinaryOK bs (DefaultReader_ReadBinary srcReader O fuel g bs) (m.readBinary bs.len) := by
  unfold DefaultReader_ReadBinary Rd.readBinary
  obtain ⟨g', j, m', hx, hy, hs', hi', hj⟩ := DefaultReader_acquire_sim O fuel g m bs.len hs hi hcap hreq hfuel
  simp only [hy]
  generalize hq : (if j > bs.len then bs.len else j) = q
  have hqle : q ≤ bs.len := by subst hq; split <;> omega
  have hqj : q ≤ m'.buf.length - m'.ri := by subst hq; split <;> omega
  obtain ⟨t1, ⟨t2, t2c⟩, t3, t4, t5⟩ := take_live g' m' q hs' hi' hqj
  have hlenq : ((m'.buf.drop m'.ri).take q).length = q := by simp; omega
  refine ⟨{ g' with ri := ((m'.ri + q : Nat) : Int) }, (m'.buf.drop m'.ri).take q, q,
    if bs.len > q then m'.err else none, ?_, rfl, t4, t5⟩
  have hmin : min bs.len q = q := by omega
  by_cases hjb : j > bs.len
  · have hjb' : (bs.len : Int) < (j : Int) := by omega
    have hqe : q = bs.len := by subst hq; simp [hjb]
    subst hqe
    simp [slen, hx, hjb, hjb', t1, t2, t2c, copySl, t3, hlenq, errCon]
  · have hjb' : ¬ (bs.len : Int) < (j : Int) := by omega
    have hqe : q = j := by subst hq; simp [hjb]
    subst hqe
    by_cases hgt : bs.len > q
    · have hgt' : (q : Int) < (bs.len : Int) := by omega
      simp [slen, hx, hjb, hjb', t1, t2, t2c, copySl, hmin, hgt, hgt', t3, hlenq, hs'.err]
    · have hgt' : ¬ (q : Int) < (bs.len : Int) := by omega
      simp [slen, hx, hjb, hjb', t1, t2, t2c, copySl, hmin, hgt, hgt', t3, hlenq, errCon]

/-! ### Release -/

/-- with nothing consumed (`ri = 0`) the relation is the abstraction function -/
theorem absRd_of_sim (g : S_DefaultReader Src) (m : Rd) (hs : Sim g m) (h0 : m.ri = 0) : absRd g = m := by
  obtain ⟨buf, cap, ri, err, ro, stats, idx, src⟩ := m
  obtain ⟨h1, h2, h3, h4, h5, h6, h7, h8, h9⟩ := hs
  simp only [] at h0 h1 h2 h3 h4 h5 h6 h7 h8 h9
  subst h0
  simp only [List.drop_zero] at h2
  have e4 : g.ri.toNat = 0 := by omega
  have e8 : g.maxSizeStats.bucketIdx.toNat = idx := by omega
  simp [absRd, h2, h3, e4, h5, h6, h7, e8, h9]

theorem release_loop (l : List Sl) : DefaultReader_Release_loop1 l = .ok () := by
  induction l with
  | nil => rfl
  | cons x xs ih => simp [DefaultReader_Release_loop1, ih]

/-- `Release` is the model's `release` — exactly: the abstraction of the state afterwards is the model state -/
def ReleaseOK (x : GM (S_DefaultReader Src × Err)) (m' : Rd) : Prop :=
  ∃ g' : S_DefaultReader Src, x = .ok (g', Err.nil) ∧ Sim g' m' ∧ GInv g' ∧ absRd g' = m'

theorem ReleaseOK.mk' (x : GM (S_DefaultReader Src × Err)) (g' : S_DefaultReader Src) (m' : Rd)
    (hx : x = .ok (g', Err.nil)) (hS : Sim g' m') (hI : GInv g') (h0 : m'.ri = 0) : ReleaseOK x m' :=
  ⟨g', hx, hS, hI, absRd_of_sim g' m' hS h0⟩

theorem DefaultReader_Release_sim (g : S_DefaultReader Src) (m : Rd) (e : Err) (hs : Sim g m) (hi : GInv g) :
    ReleaseOK (DefaultReader_Release g e) m.release := by
  have hlen := hi.len_le; have hri := hi.ri_le; have hri0 := hi.ri_nonneg; have hc := hi.cap_le
  have h1 := hs.len; have h2 := hs.cap; have h3 := hs.ri
  have hw : wrap .i64 (slen g.buf - g.ri) = ((m.buf.length - m.ri : Nat) : Int) := by
    rw [wrap_i64_id] <;> simp [slen] <;> omega
  unfold DefaultReader_Release Rd.release
  have eU := maxSizeStats_update_eq g.maxSizeStats (scap g.buf) hi.stats_len hi.idx_rng.1 hi.idx_rng.2
  by_cases hz : m.buf.length - m.ri = 0
  · have hz' : ((m.buf.length - m.ri : Nat) : Int) = 0 := by omega
    simp only [hz, if_true]
    refine ReleaseOK.mk' _ _ _ (by simp [-Out.bind_ok, bind_ok_nr, release_loop, hw, hz, hz', eU]; rfl) ?_ ?_ rfl
    · refine ⟨rfl, rfl, rfl, rfl, hs.err, hs.ro, ?_, ?_, hs.src⟩
      · show listSet m.stats m.statsIdx m.cap = _
        have : m.statsIdx = g.maxSizeStats.bucketIdx.toNat := by have := hs.idx; omega
        simp [listSet, hs.stats, List.map_set, this, scap, h2]
      · have := hs.idx; have := hi.idx_rng
        simp [Facts.statsBucketNum]; omega
    · refine ⟨Nat.le_refl _, Int.le_refl _, Int.le_refl _, by simp [Sl.nil], hi.rd_some, ?_, ?_, ?_⟩
      · simp [hi.stats_len]
      · intro x hx
        rcases List.mem_or_eq_of_mem_set hx with h | h
        · exact hi.stats_rng x h
        · subst h; simp [scap]; omega
      · have := hi.idx_rng; simp [Facts.statsBucketNum]; omega
  · have hz' : ¬ ((m.buf.length - m.ri : Nat) : Int) = 0 := by omega
    have hsl : ssliceFrom g.buf g.ri = .ok { g.buf with mem := g.buf.mem.drop m.ri, len := g.buf.len - m.ri } := by
      unfold ssliceFrom
      rw [sslice_ok _ _ _ hri0 (by simp [slen]; omega) (by simp [slen, scap]; omega), ← h3]
      simp [slen]
    have hdata : (g.buf.mem.drop m.ri).take (g.buf.len - m.ri) = m.buf.drop m.ri := by
      rw [hs.live]; simp [Sl.data, List.drop_take]
    simp only [hz, if_false]
    cases hro : g.bufReadOnly
    · -- own buffer: the unread bytes are moved to the front
      have hmro : m.readOnly = false := by rw [hs.ro, hro]
      have hk : min g.buf.len (g.buf.len - m.ri) = g.buf.len - m.ri := by omega
      have hsl2 : sslice ⟨List.take (g.buf.len - m.ri) (List.drop m.ri g.buf.mem) ++ List.drop (g.buf.len - m.ri) g.buf.mem, g.buf.len, g.buf.nonnil⟩ 0 ((g.buf.len - m.ri : Nat) : Int)
          = .ok ⟨List.take (g.buf.len - m.ri) (List.drop m.ri g.buf.mem) ++ List.drop (g.buf.len - m.ri) g.buf.mem, g.buf.len - m.ri, g.buf.nonnil⟩ := by
        rw [sslice_ok _ _ _ (by omega) (by omega) (by simp [scap]; omega)]; simp
      simp only [hmro]
      refine ReleaseOK.mk' _ _ _ (by
        simp [-Out.bind_ok, bind_ok_nr, release_loop, hw, hz, hz', hro, hsl, copySl, hk, hsl2]; rfl) ?_ ?_ rfl
      · refine ⟨?_, ?_, ?_, rfl, hs.err, by simp [hmro], hs.stats, hs.idx, hs.src⟩
        · simp; omega
        · simp [Sl.data, hdata]
          rw [List.take_append_of_le_length (by simp; omega)]
          exact (List.take_of_length_le (by simp; omega)).symm
        · simp; omega
      · exact ⟨by simp; omega, Int.le_refl _, by simp, by simp; omega, hi.rd_some, hi.stats_len, hi.stats_rng, hi.idx_rng⟩
    · -- read-only buffer from outside: re-sliced
      have hmro : m.readOnly = true := by rw [hs.ro, hro]
      simp only [hmro, if_true]
      refine ReleaseOK.mk' _ _ _ (by
        simp [-Out.bind_ok, bind_ok_nr, release_loop, hw, hz, hz', hro, hsl]; rfl) ?_ ?_ rfl
      · refine ⟨?_, ?_, ?_, rfl, hs.err, by simp [hmro], hs.stats, hs.idx, hs.src⟩
        · simp; omega
        · simp [Sl.data, hdata]
        · simp; omega
      · exact ⟨by simp; omega, Int.le_refl _, by simp, by simp; omega, hi.rd_some, hi.stats_len, hi.stats_rng, hi.idx_rng⟩

/-! ## the statements through the abstraction map

  `absRd` maps the generated receiver to the model state (`pendingBuf` and the non-nil flag of `buf` are dropped: memory
  ownership is Model/Mem*). On a growth with `ri > 0` the Go code leaves DIRTY bytes below `ri` in the new buffer
  (`copy(nbuf[r.ri:], r.buf[r.ri:])`), the model keeps the consumed bytes (Model/Reader.lean says so: "bytes below ri are
  dirty, modelled as kept"). The two states then differ — in bytes nobody reads again. Hence `_eq_partial`: results
  (bytes, counts, errors) are EQUAL, states are equal after `Rd.canon` (consumed bytes blanked). `Release`, `ReadLen` and
  the statistics are exact. Disagreeing input for the un-canonised statement: buf = [1,2,3] (cap 4, own buffer), ri = 1,
  acquireSlow(4) with a source that delivers: the model's buffer starts with 1, the translation's with the oracle byte. -/

/-- consumed bytes blanked -/
def _root_.Verif.Rd.canon (r : Rd) : Rd := { r with buf := List.replicate r.ri 0 ++ r.buf.drop r.ri }

theorem sim_abs (g : S_DefaultReader Src) (hi : GInv g) : Sim g (absRd g) := by
  have := hi.len_le; have := hi.ri_nonneg
  obtain ⟨s, hs⟩ := Option.isSome_iff_exists.mp hi.rd_some
  refine ⟨by simp [absRd, Sl.data]; omega, rfl, rfl, by simp [absRd]; omega, by simp [absRd], rfl, rfl,
    by have := hi.idx_rng.1; simp [absRd]; omega, by simp [absRd, hs]⟩

theorem sim_canon (g : S_DefaultReader Src) (m : Rd) (hs : Sim g m) : (absRd g).canon = m.canon := by
  obtain ⟨buf, cap, ri, err, ro, stats, idx, src⟩ := m
  obtain ⟨h1, h2, h3, h4, h5, h6, h7, h8, h9⟩ := hs
  simp only [] at h1 h2 h3 h4 h5 h6 h7 h8 h9
  have e4 : g.ri.toNat = ri := by omega
  have e8 : g.maxSizeStats.bucketIdx.toNat = idx := by omega
  simp [Rd.canon, absRd, h2, h3, e4, h5, h6, h7, e8, h9]

def viewAcq (x : GM (S_DefaultReader Src × Int)) : Option (Nat × Rd) :=
  match x with
  | .ok (g', k) => some (k.toNat, (absRd g').canon)
  | _ => none

def viewRes (x : GM (S_DefaultReader Src × Sl × Err)) : Option ((Bytes × Err) × Rd) :=
  match x with
  | .ok (g', b, e) => some ((b.data, e), (absRd g').canon)
  | _ => none

def viewSkip (x : GM (S_DefaultReader Src × Err)) : Option ((Bytes × Err) × Rd) :=
  match x with
  | .ok (g', e) => some (([], e), (absRd g').canon)
  | _ => none

/-- the model's Next/Peek/Skip result as Go renders it: `.ok b ↦ (b, nil)`, `.fail e ↦ (nil slice, e)` (the Go methods
    return `r.err`, which could be nil only if the model said `fail none`; C04 proves it does not), out of fuel ↦ nothing -/
def modelRes (y : RdRes × Rd) : Option ((Bytes × Err) × Rd) :=
  match y.1 with
  | .ok bs => some ((bs, Err.nil), y.2.canon)
  | .fail eo => some (([], errCon eo), y.2.canon)
  | .nofuel => none

theorem DefaultReader_acquireSlow_eq_partial (O : Nat → Nat → Bytes) (fuel : Nat) (g : S_DefaultReader Src) (n : Nat)
    (hi : GInv g) (hcap : g.buf.mem.length ≤ 2 ^ 44) (hreq : n + g.ri.toNat ≤ 2 ^ 44)
    (hfuel : needFuel (absRd g) n ≤ fuel) :
    viewAcq (DefaultReader_acquireSlow srcReader O fuel g (n : Int)) =
      ((absRd g).acquireSlow n).map (fun p => (p.1, p.2.canon)) := by
  obtain ⟨g', k, m', hx, hy, hs', _, _⟩ :=
    DefaultReader_acquireSlow_sim O fuel g (absRd g) n (sim_abs g hi) hi hcap hreq hfuel
  simp [hx, hy, viewAcq, sim_canon g' m' hs']

theorem viewRes_of_NextOK (x : GM (S_DefaultReader Src × Sl × Err)) (y : RdRes × Rd) (h : NextOK x y) :
    viewRes x = modelRes y := by
  obtain ⟨g', b, e, hx, hr, hs', _⟩ := h
  obtain ⟨y1, y2⟩ := y
  cases y1 with
  | ok bs => obtain ⟨hb, he⟩ := hr; simp [hx, viewRes, modelRes, hb, he, sim_canon g' y2 hs']
  | fail eo => obtain ⟨hb, he⟩ := hr; simp [hx, viewRes, modelRes, hb, he, Sl.data, Sl.nil, sim_canon g' y2 hs']
  | nofuel => exact hr.elim

theorem DefaultReader_Next_eq_partial (O : Nat → Nat → Bytes) (fuel : Nat) (g : S_DefaultReader Src) (n : Int)
    (hi : GInv g) (hcap : g.buf.mem.length ≤ 2 ^ 44) (hreq : n + g.ri ≤ 2 ^ 44)
    (hfuel : needFuel (absRd g) n.toNat ≤ fuel) :
    viewRes (DefaultReader_Next srcReader O fuel g n) = modelRes ((absRd g).next n) :=
  viewRes_of_NextOK _ _ (DefaultReader_Next_sim O fuel g (absRd g) n (sim_abs g hi) hi hcap (by
    have := hi.ri_nonneg; simp [absRd]; omega) hfuel)

theorem DefaultReader_Peek_eq_partial (O : Nat → Nat → Bytes) (fuel : Nat) (g : S_DefaultReader Src) (n : Int)
    (hi : GInv g) (hcap : g.buf.mem.length ≤ 2 ^ 44) (hreq : n + g.ri ≤ 2 ^ 44)
    (hfuel : needFuel (absRd g) n.toNat ≤ fuel) :
    viewRes (DefaultReader_Peek srcReader O fuel g n) = modelRes ((absRd g).peek n) :=
  viewRes_of_NextOK _ _ (DefaultReader_Peek_sim O fuel g (absRd g) n (sim_abs g hi) hi hcap (by
    have := hi.ri_nonneg; simp [absRd]; omega) hfuel)

theorem DefaultReader_Skip_eq_partial (O : Nat → Nat → Bytes) (fuel : Nat) (g : S_DefaultReader Src) (n : Int)
    (hi : GInv g) (hcap : g.buf.mem.length ≤ 2 ^ 44) (hreq : n + g.ri ≤ 2 ^ 44)
    (hfuel : needFuel (absRd g) n.toNat ≤ fuel) :
    viewSkip (DefaultReader_Skip srcReader O fuel g n) = modelRes ((absRd g).skip n) := by
  obtain ⟨g', e, hx, hr, hs', _⟩ := DefaultReader_Skip_sim O fuel g (absRd g) n (sim_abs g hi) hi hcap (by
    have := hi.ri_nonneg; simp [absRd]; omega) hfuel
  generalize (absRd g).skip n = y at *
  obtain ⟨y1, y2⟩ := y
  cases y1 with
  | ok bs =>
    obtain ⟨hb, he⟩ := hr
    simp [hx, viewSkip, modelRes, he, sim_canon g' y2 hs']
    simpa [Sl.data, Sl.nil] using hb
  | fail eo => obtain ⟨hb, he⟩ := hr; simp [hx, viewSkip, modelRes, he, sim_canon g' y2 hs']
  | nofuel => exact hr.elim

/-- `ReadBinary(bs)`: what is stored in `bs`, the count, the error — and the state up to consumed bytes -/
def viewRB (x : GM (S_DefaultReader Src × Sl × Int × Err)) : Option ((Sl × Int × Err) × Rd) :=
  match x with
  | .ok (g', b, k, e) => some ((b, k, e), (absRd g').canon)
  | _ => none

def modelRB (bs : Sl) (y : Option (Bytes × Nat × Option RErr) × Rd) : Option ((Sl × Int × Err) × Rd) :=
  match y.1 with
  | some (out, j, e) => some (({ bs with mem := out ++ bs.mem.drop out.length }, (j : Int), errCon e), y.2.canon)
  | none => none

theorem DefaultReader_ReadBinary_eq_partial (O : Nat → Nat → Bytes) (fuel : Nat) (g : S_DefaultReader Src) (bs : Sl)
    (hi : GInv g) (hcap : g.buf.mem.length ≤ 2 ^ 44) (hreq : bs.len + g.ri.toNat ≤ 2 ^ 44)
    (hfuel : needFuel (absRd g) bs.len ≤ fuel) :
    viewRB (DefaultReader_ReadBinary srcReader O fuel g bs) = modelRB bs ((absRd g).readBinary bs.len) := by
  obtain ⟨g', out, j, e, hx, hy, hs', _⟩ :=
    DefaultReader_ReadBinary_sim O fuel g (absRd g) bs (sim_abs g hi) hi hcap hreq hfuel
  simp [hx, viewRB, modelRB, hy, sim_canon g' _ hs']

/-- `Release(e)`: EXACT — the abstraction of the receiver afterwards is `Rd.release` of the abstraction before -/
theorem DefaultReader_Release_eq (g : S_DefaultReader Src) (e : Err) (hi : GInv g) :
    ∃ g', DefaultReader_Release g e = .ok (g', Err.nil) ∧ absRd g' = (absRd g).release ∧ GInv g' := by
  obtain ⟨g', hx, _, hi', ha⟩ := DefaultReader_Release_sim g (absRd g) e (sim_abs g hi) hi
  exact ⟨g', hx, ha, hi'⟩

/-- `ReadLen()`: EXACT -/
theorem DefaultReader_ReadLen_eq' (g : S_DefaultReader Src) (hi : GInv g) :
    DefaultReader_ReadLen g = .ok ((absRd g).readLen : Int) :=
  DefaultReader_ReadLen_eq g (absRd g) (sim_abs g hi)

/-! ## constructors, the fake reader -/

/-- `NewDefaultReader(rd)` is the model's `Rd.newDefault` and satisfies the invariant -/
theorem NewDefaultReader_eq (src : Src) :
    ∃ g0, NewDefaultReader (some src) = .ok g0 ∧ absRd g0 = Rd.newDefault src ∧ GInv g0 := by
  refine ⟨{ rd := some src }, by simp [NewDefaultReader, DefaultReader_reset, scap, Sl.nil], ?_, ?_⟩
  · simp [absRd, Rd.newDefault, Sl.data, Sl.nil, errAbs, Facts.statsBucketNum]
  · refine ⟨by simp [Sl.nil], by simp, by simp [Sl.nil], by simp [Sl.nil], rfl, by simp [Facts.statsBucketNum], ?_, by simp⟩
    intro x hx; simp at hx; omega

/-- `fakeIOReader.Read` is what the model's exhausted source answers: `(0, io.EOF)` -/
theorem fakeIOReader_Read_eq (p : Sl) :
    fakeIOReader_Read {} p = .ok ((((⟨[], []⟩ : Src).read p.len).1.length : Int), errCon ((⟨[], []⟩ : Src).read p.len).2.1) := by
  simp [fakeIOReader_Read, Src.read, errCon]

/-! ## the generated reader runs: chunked delivery, growth, EOF with data, 100 empty reads -/

/-- dirty memory: 0xA0 + the number of the allocation site -/
def exO : Nat → Nat → Bytes := fun site c => List.replicate c (UInt8.ofNat (0xA0 + site))

/-- `Next(n)` for every `n` of the list: the bytes and the error of each call, `ReadLen()` and the source afterwards -/
def exRun (g : S_DefaultReader Src) (fuel : Nat) (ns : List Int) : GM (List (Bytes × Err) × Int × Option Src) :=
  let rec go (g : S_DefaultReader Src) (acc : List (Bytes × Err)) : List Int → GM (List (Bytes × Err) × Int × Option Src)
    | [] => do pure (acc.reverse, (← DefaultReader_ReadLen g), g.rd)
    | n :: ns => do
      let r ← DefaultReader_Next srcReader exO fuel g n
      go r.1 ((r.2.1.data, r.2.2) :: acc) ns
  go g [] ns

/-- a reader that owns an empty 8-byte buffer (small, so that the kernel evaluates the examples quickly) -/
def exSmall (src : Src) : S_DefaultReader Src := { buf := ⟨List.replicate 8 0, 0, true⟩, rd := some src }

-- NewDefaultReader: the first allocation (4096 from mcache), one Read, Next(3)
example : (do let g ← NewDefaultReader (some (⟨[1, 2, 3, 4], [⟨4, none⟩]⟩ : Src)); exRun g 120 [3]) =
    .ok ([([1, 2, 3], Err.nil)], 3, some ⟨[], []⟩) := by decide +kernel

-- chunked delivery: 3 + 4 bytes arrive in two reads for Next(5); the rest is already buffered for Next(2)
example : exRun (exSmall ⟨[1, 2, 3, 4, 5, 6, 7, 8, 9, 10], [⟨3, none⟩, ⟨4, none⟩, ⟨10, none⟩]⟩) 120 [5, 2] =
    .ok ([([1, 2, 3, 4, 5], Err.nil), ([6, 7], Err.nil)], 7, some ⟨[8, 9, 10], [⟨10, none⟩]⟩) := by decide +kernel

-- growth: Next(3) consumes, Next(10) does not fit the 8-byte buffer — a 16-byte one from mcache, unread bytes copied
example : exRun (exSmall ⟨[1, 2, 3, 4, 5, 6, 7, 8, 9, 10, 11, 12, 13, 14], [⟨8, none⟩, ⟨100, none⟩]⟩) 120 [3, 10] =
    .ok ([([1, 2, 3], Err.nil), ([4, 5, 6, 7, 8, 9, 10, 11, 12, 13], Err.nil)], 13, some ⟨[], []⟩) := by decide +kernel

-- EOF together with data: Next(5) fails with io.EOF, the two delivered bytes stay readable, a negative count is refused
example : exRun (exSmall ⟨[1, 2], [⟨2, some .eof⟩]⟩) 120 [5, 2, -1] =
    .ok ([([], Err.eof), ([1, 2], Err.nil), ([], Err.negCount)], 2, some ⟨[], []⟩) := by decide +kernel

-- 100 consecutive empty reads: io.ErrNoProgress (the 101st scripted answer is never asked for)
example : exRun (exSmall ⟨[1, 2, 3], List.replicate 100 ⟨0, none⟩ ++ [⟨3, none⟩]⟩) 120 [1] =
    .ok ([([], Err.noProgress)], 0, some ⟨[1, 2, 3], [⟨3, none⟩]⟩) := by decide +kernel

-- 99 empty reads, one byte, two empty reads, the rest: progress resets the count (`i = -1`)
example : exRun (exSmall ⟨[1, 2, 3], List.replicate 99 ⟨0, none⟩ ++ [⟨1, none⟩, ⟨0, none⟩, ⟨0, none⟩, ⟨2, none⟩]⟩) 120 [3] =
    .ok ([([1, 2, 3], Err.nil)], 3, some ⟨[], []⟩) := by decide +kernel

-- a nil io.Reader panics at the first Read; too little fuel is reported, never guessed
example : exRun { buf := ⟨List.replicate 8 0, 0, true⟩ } 120 [1] = .panic "nilderef" := by decide +kernel
example : exRun (exSmall ⟨[1], List.replicate 9 ⟨0, none⟩⟩) 5 [1] = .panic "nofuel" := by decide +kernel

end Verif.BufioxEq

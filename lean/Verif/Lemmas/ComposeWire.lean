/-
  Lemmas/ComposeWire: BufferWriter.Write* (protocol/thrift/bufferwriter.go; C01's model `Wire.bwWrite` over
  the abstract writer log `Wire.WLog`) as CHUNKS of calls on a bufiox.Writer (Lemmas/ComposeWriter), so that
  the same calls can be issued to C05's model of DefaultWriter / BytesWriter.

      valChunks v          the Malloc / stores / WriteBinary that Write<v> performs, in program order
      cmp_bwWrite_chunks   TIE: for EVERY abstract writer state (healthy or failed) and EVERY content of
                           fresh memory, C01's `bwWrite w d v` IS the execution of `valChunks v` on the
                           abstract log — the chunks are what the model of C01 does, not a second codec
      valChunks_full/bytes every region is stored completely; the chunks' bytes are `enc v`
-/
import Verif.Lemmas.ComposeWriter
import Verif.Lemmas.WireW
namespace Verif.Compose
open Verif Verif.Wire

/-- the calls `BufferWriter.Write<v>` makes on its bufiox.Writer, in program order
    (bufferwriter.go: `buf := w.w.Malloc(n)`, then `buf[i] = x` / `binary.BigEndian.PutUintNN(buf[off:], x)` /
    `copy(buf[8:], name)`; WriteBinary/WriteString: Malloc(4) for the length, then `w.w.WriteBinary(v)`) -/
def valChunks : Val → List Chunk
  | .bool b => [.reg 1 [(0, [if b then 1 else 0])]]
  | .i8 v => [.reg 1 [(0, [UInt8.ofNat (ofInt 8 v)])]]
  | .i16 v => [.reg 2 [(0, be16 (ofInt 16 v))]]
  | .i32 v => [.reg 4 [(0, be32 (ofInt 32 v))]]
  | .i64 v => [.reg 8 [(0, be64 (ofInt 64 v))]]
  | .double bits => [.reg 8 [(0, be64 bits)]]
  | .binary s => [.reg 4 [(0, be32 s.length)], .wb s]
  | .str s => [.reg 4 [(0, be32 s.length)], .wb s]
  | .fieldBegin t id =>
      [.reg 3 [(0, [t]), (1, [UInt8.ofNat (ofInt 16 (id / 256))]), (2, [UInt8.ofNat (ofInt 16 id)])]]
  | .fieldStop => [.reg 1 [(0, [T_STOP])]]
  | .mapBegin kt vt n => [.reg 6 [(0, [kt]), (1, [vt]), (2, be32 (ofInt 32 (n : Int)))]]
  | .listBegin et n => [.reg 5 [(0, [et]), (1, be32 (ofInt 32 (n : Int)))]]
  | .setBegin et n => [.reg 5 [(0, [et]), (1, be32 (ofInt 32 (n : Int)))]]
  | .messageBegin name typ seq =>
      [.reg (lenMessageBegin name)
        [(0, be32 (msgHeader typ)), (4, be32 name.length), (8, name), (8 + name.length, be32 (ofInt 32 seq))]]

/-! ## chunks on C01's abstract writer log -/

/-- the stores into a region held as a value (an out-of-range store is Go's index panic) -/
def cmpStores (R : Bytes) : List (Nat × Bytes) → WOut Bytes
  | [] => .ok R
  | p :: ps =>
    if p.1 + p.2.length ≤ R.length then cmpStores (WLog.overwrite R p.1 p.2) ps else .panic "index"

/-- one chunk on C01's writer log: `wlMalloc` (region of arbitrary content `d`), the stores, `wlCommit`;
    resp. `wlWriteBinary` -/
def runChunkWL (w : Wire.WLog) (d : Nat → UInt8) : Chunk → WOut Wire.WLog
  | .reg n ps =>
    (wlMalloc w (n : Int) d).bind fun R => (cmpStores R ps).bind fun R' => .ok (wlCommit w R')
  | .wb bs => wlWriteBinary w bs

def runChunksWL (w : Wire.WLog) (d : Nat → UInt8) : List Chunk → WOut Wire.WLog
  | [] => .ok w
  | c :: cs => (runChunkWL w d c).bind fun w' => runChunksWL w' d cs

/-- BufferWriter.Write* for a list of values, one after the other, on C01's abstract writer -/
def bwWriteAll (w : Wire.WLog) (d : Nat → UInt8) : List Val → WOut Wire.WLog
  | [] => .ok w
  | v :: vs => (bwWrite w d v).bind fun w' => bwWriteAll w' d vs

/-- the log item a full chunk leaves behind -/
def Chunk.item : Chunk → WItem
  | .reg _ ps => .region (ps.map (·.2)).flatten
  | .wb bs => .payload bs

theorem cmpStores_eq : ∀ (ps : List (Nat × Bytes)) (R : Bytes), (∀ p ∈ ps, p.1 + p.2.length ≤ R.length) →
    cmpStores R ps = .ok (cmpApply id R ps) := by
  intro ps
  induction ps with
  | nil => intro R _; rfl
  | cons p ps ih =>
    intro R h
    have hp := h p (List.mem_cons_self ..)
    simp only [cmpStores, hp, if_true]
    rw [ih _ (fun q hq => by
      rw [length_overwrite _ _ _ hp]; exact h q (List.mem_cons_of_mem _ hq))]
    simp [cmpApply]

theorem runChunkWL_full (w : Wire.WLog) (d : Nat → UInt8) (c : Chunk) (h : w.err = none) (hf : c.Full) :
    runChunkWL w d c = .ok { w with items := w.items ++ [c.item] } := by
  cases c with
  | wb bs => simp [runChunkWL, wlWriteBinary, h, Chunk.item]
  | reg n ps =>
    have hcov : Covers 0 n ps := hf
    obtain ⟨R, hl, hm⟩ := wlMalloc_ok w d n h
    simp only [runChunkWL, hm, Out.bind_ok]
    rw [cmpStores_eq ps R (fun p hp => by rw [hl]; exact covers_fit ps 0 n hcov p hp)]
    simp only [Out.bind_ok]
    rw [cmpApply_covers id (fun _ => rfl) ps 0 n R hl hcov]
    simp [wlCommit, Chunk.item]

theorem runChunksWL_full (d : Nat → UInt8) : ∀ (cs : List Chunk) (w : Wire.WLog), w.err = none →
    (∀ c ∈ cs, c.Full) → runChunksWL w d cs = .ok { w with items := w.items ++ cs.map Chunk.item } := by
  intro cs
  induction cs with
  | nil => intro w _ _; simp [runChunksWL]
  | cons c cs ih =>
    intro w h hf
    simp only [runChunksWL, runChunkWL_full w d c h (hf c (List.mem_cons_self ..)), Out.bind_ok]
    rw [ih { w with items := w.items ++ [c.item] } h (fun c' hc' => hf c' (List.mem_cons_of_mem _ hc'))]
    simp

theorem runChunksWL_append (d : Nat → UInt8) (xs ys : List Chunk) (w : Wire.WLog) :
    runChunksWL w d (xs ++ ys) = (runChunksWL w d xs).bind fun w' => runChunksWL w' d ys := by
  induction xs generalizing w with
  | nil => simp [runChunksWL]
  | cons x xs ih =>
    simp only [List.cons_append, runChunksWL]
    cases hx : runChunkWL w d x with
    | ok w1 => simp only [Out.bind_ok]; exact ih w1
    | err e => rfl
    | panic s => rfl
    | oob => rfl

theorem valChunks_full (v : Val) : ∀ c ∈ valChunks v, c.Full := by
  intro c hc
  cases v <;> simp only [valChunks, List.mem_cons, List.not_mem_nil, or_false] at hc
  case binary s => rcases hc with rfl | rfl <;> simp [Chunk.Full, Covers]
  case str s => rcases hc with rfl | rfl <;> simp [Chunk.Full, Covers]
  case messageBegin name typ seq =>
    subst hc
    simp only [Chunk.Full, Covers, be32_length, true_and, lenMessageBegin]
    omega
  all_goals (subst hc; simp [Chunk.Full, Covers])

theorem valChunks_items (v : Val) : (valChunks v).map Chunk.item = itemsOf v := by
  cases v <;> simp [valChunks, Chunk.item, itemsOf, encM, ofInt32_nat, be32_mod, tstop]
  case fieldBegin t id =>
    simp only [be16]
    rw [ofNat_eq (ofInt 16 (id / 256)) (ofInt 16 id / 256) (by simp [ofInt]; omega)]

/-- THE TIE: C01's stream writer IS the execution of its chunks on the abstract writer log — for every
    writer state (healthy or with a sticky error) and every content of fresh memory -/
theorem cmp_bwWrite_chunks (w : Wire.WLog) (d : Nat → UInt8) (v : Val) :
    bwWrite w d v = runChunksWL w d (valChunks v) := by
  cases he : w.err with
  | none =>
    rw [bwWrite_encM w d v he, runChunksWL_full d _ w he (valChunks_full v), valChunks_items]
  | some e =>
    rw [bwWrite_failed w d v e he]
    cases v <;> simp [valChunks, runChunksWL, runChunkWL, wlMalloc, he]

theorem cmp_bwWriteAll_chunks (d : Nat → UInt8) : ∀ (vs : List Val) (w : Wire.WLog),
    bwWriteAll w d vs = runChunksWL w d (vs.flatMap valChunks) := by
  intro vs
  induction vs with
  | nil => intro w; rfl
  | cons v vs ih =>
    intro w
    simp only [bwWriteAll, List.flatMap_cons, runChunksWL_append, cmp_bwWrite_chunks]
    cases runChunksWL w d (valChunks v) with
    | ok w1 => simp only [Out.bind_ok]; exact ih w1
    | err e => rfl
    | panic s => rfl
    | oob => rfl

theorem chunk_item_bytes (c : Chunk) : c.item.bytes = c.bytes := by
  cases c <;> rfl

theorem valChunks_bytes (v : Val) (ha : v.args) : chunksBytes (valChunks v) = enc v := by
  rw [enc_eq_encM v ha, ← itemsOf_bytes, ← valChunks_items]
  simp only [chunksBytes, List.map_map]
  congr 2
  funext c
  exact (chunk_item_bytes c).symm

theorem valsChunks_bytes : ∀ (vs : List Val), (∀ v ∈ vs, v.args) →
    chunksBytes (vs.flatMap valChunks) = vs.flatMap enc := by
  intro vs
  induction vs with
  | nil => intro _; rfl
  | cons v vs ih =>
    intro h
    rw [List.flatMap_cons, chunksBytes_append, valChunks_bytes v (h v (List.mem_cons_self ..)),
      ih (fun v' hv' => h v' (List.mem_cons_of_mem _ hv'))]
    simp

theorem valsChunks_full (vs : List Val) : ∀ c ∈ vs.flatMap valChunks, c.Full := by
  intro c hc
  obtain ⟨v, _, hv⟩ := List.mem_flatMap.mp hc
  exact valChunks_full v c hv

/-- BufferWriter.Write* for each of `vs`, as a history of C05's writer model (a fresh writer: the first
    region id is 0) -/
def cmpWriteOps (vs : List Val) : List WOp := chunksOps 0 (vs.flatMap valChunks)

/-- what the caller must observe from these calls: every Malloc returns the expected region, every
    store happens, every WriteBinary takes all its bytes -/
def cmpWriteObs (vs : List Val) : List WObs := chunksObs 0 (vs.flatMap valChunks)

end Verif.Compose

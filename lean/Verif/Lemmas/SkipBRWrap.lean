/-
  Lemmas/SkipBRWrap: provenance of every error BufferReader.Skip (model `skipBRAt`) returns.
  An error is either `.wrap se` — NewProtocolExceptionWithErr(se) — where `se` is exactly the error a
  `Next`/`Skip` call of the underlying bufiox reader returned, that call being made in a reader state
  reached from the initial one through calls that did not fail; or it is one of the three grammar
  exceptions errNegativeSize / errDepthLimitExceeded / "unknown data type" (INVALID_DATA).
  Nothing else: never a bare reader error, never another type id.
-/
import Verif.Model.SkipStream
import Verif.Lemmas.TypeSize
namespace Verif

/-- 2^31 · 16: the largest single request BufferReader.Skip can make (a size field is an int32, a
    fixed-size key/value pair has at most 16 bytes) -/
def brReq : Nat := 34359738368

/-- the requests BufferReader.Skip makes: non-negative and at most 2^35 bytes -/
def ReqOK (n : Int) : Prop := 0 ≤ n ∧ n.toNat ≤ brReq

/-- one call of the underlying reader that did not return an error value
    (`fail none` is the `(nil, nil)` return the model keeps possible; see Model/SkipStream) -/
inductive RdStep : Rd → Rd → Prop
  | next {r : Rd} {n : Int} {b : Bytes} {r' : Rd} : ReqOK n → r.next n = (.ok b, r') → RdStep r r'
  | nextNil {r : Rd} {n : Int} {r' : Rd} : ReqOK n → r.next n = (.fail none, r') → RdStep r r'
  | skip {r : Rd} {n : Int} {b : Bytes} {r' : Rd} : ReqOK n → r.skip n = (.ok b, r') → RdStep r r'
  | skipNil {r : Rd} {n : Int} {r' : Rd} : ReqOK n → r.skip n = (.fail none, r') → RdStep r r'

/-- reader states reachable through calls that did not fail -/
inductive RdReach : Rd → Rd → Prop
  | refl (r : Rd) : RdReach r r
  | step {r r1 r2 : Rd} : RdStep r r1 → RdReach r1 r2 → RdReach r r2

theorem RdReach.trans {a b c : Rd} (h1 : RdReach a b) (h2 : RdReach b c) : RdReach a c := by
  induction h1 with
  | refl => exact h2
  | step s _ ih => exact .step s (ih h2)

theorem RdReach.one {a b : Rd} (s : RdStep a b) : RdReach a b := .step s (.refl b)

/-- in state r a `Next(n)` / `Skip(n)` (0 ≤ n ≤ 2^35) of the underlying reader fails with the error `se` -/
def RdFails (r : Rd) (se : RErr) : Prop :=
  ∃ (n : Int) (r' : Rd), ReqOK n ∧ (r.next n = (.fail (some se), r') ∨ r.skip n = (.fail (some se), r'))

/-- the errors BufferReader.Skip can return, with where they come from -/
inductive BRErr (r0 : Rd) : TErr → Prop
  | wrap {r : Rd} {se : RErr} : RdReach r0 r → RdFails r se → BRErr r0 (.wrap se)
  | neg : BRErr r0 errNeg
  | depth : BRErr r0 errDepth
  | unknownType : BRErr r0 errUnknownType

theorem BRErr.mono {r0 r : Rd} {e : TErr} (h : RdReach r0 r) (he : BRErr r e) : BRErr r0 e := by
  cases he with
  | wrap hr hf => exact .wrap (h.trans hr) hf
  | neg => exact .neg
  | depth => exact .depth
  | unknownType => exact .unknownType

/-- a reader computation only moves the reader through non-failing calls, and every error it
    returns has a provenance -/
def RMProv {α : Type} (m : RM α) : Prop :=
  ∀ r, (∀ a r', m r = .ok (a, r') → RdReach r r') ∧ (∀ e, m r = .err e → BRErr r e)

theorem RMProv.bind {α β : Type} {m : RM α} {f : α × Rd → TOut (β × Rd)}
    (hm : RMProv m) (hf : ∀ a, RMProv (fun r => f (a, r))) : RMProv (fun r => (m r).bind f) := by
  intro r
  constructor
  · intro b r' h
    cases hmr : m r with
    | ok p =>
      obtain ⟨a, r1⟩ := p
      simp only [hmr, Out.bind_ok] at h
      exact ((hm r).1 a r1 hmr).trans (((hf a) r1).1 b r' h)
    | err e => simp [hmr] at h
    | panic s => simp [hmr] at h
    | oob => simp [hmr] at h
  · intro e h
    cases hmr : m r with
    | ok p =>
      obtain ⟨a, r1⟩ := p
      simp only [hmr, Out.bind_ok] at h
      exact BRErr.mono ((hm r).1 a r1 hmr) (((hf a) r1).2 e h)
    | err e' =>
      simp only [hmr, Out.bind_err, Out.err.injEq] at h
      subst h
      exact (hm r).2 _ hmr
    | panic s => simp [hmr] at h
    | oob => simp [hmr] at h

/-- `bind` where the continuation may use a fact about the value the first computation returns -/
theorem RMProv.bindQ {α β : Type} {m : RM α} {f : α × Rd → TOut (β × Rd)} (Q : α → Prop)
    (hm : RMProv m) (hq : ∀ r a r', m r = .ok (a, r') → Q a)
    (hf : ∀ a, Q a → RMProv (fun r => f (a, r))) : RMProv (fun r => (m r).bind f) := by
  intro r
  cases hmr : m r with
  | ok p =>
    obtain ⟨a, r1⟩ := p
    have hfa := hf a (hq r a r1 hmr)
    constructor
    · intro b r' h
      simp only [hmr, Out.bind_ok] at h
      exact ((hm r).1 a r1 hmr).trans ((hfa r1).1 b r' h)
    · intro e h
      simp only [hmr, Out.bind_ok] at h
      exact BRErr.mono ((hm r).1 a r1 hmr) ((hfa r1).2 e h)
  | err e' =>
    constructor
    · intro b r' h; simp [hmr] at h
    · intro e h
      simp only [hmr, Out.bind_err, Out.err.injEq] at h
      subst h
      exact (hm r).2 _ hmr
  | panic s =>
    constructor
    · intro b r' h; simp [hmr] at h
    · intro e h; simp [hmr] at h
  | oob =>
    constructor
    · intro b r' h; simp [hmr] at h
    · intro e h; simp [hmr] at h

/-- a stateless step (slice index, table lookup) that cannot return an error value -/
theorem RMProv.pre {α γ : Type} {x : TOut γ} {f : γ → RM α} (hx : ∀ e, x ≠ .err e)
    (hf : ∀ c, x = .ok c → RMProv (f c)) : RMProv (fun r => x.bind (fun c => f c r)) := by
  intro r
  cases x with
  | ok c => simpa using hf c rfl r
  | err e => exact absurd rfl (hx e)
  | panic s =>
    constructor
    · intro _ _ h; simp at h
    · intro _ h; simp at h
  | oob =>
    constructor
    · intro _ _ h; simp at h
    · intro _ h; simp at h

theorem RMProv.pure {α : Type} (a : α) : RMProv (fun r => (.ok (a, r) : TOut (α × Rd))) := by
  intro r
  constructor
  · intro a' r' h; cases h; exact .refl r
  · intro e h; cases h

theorem RMProv.fail {α : Type} {e : TErr} (he : ∀ r, BRErr r e) : RMProv (fun _ => (.err e : TOut (α × Rd))) := by
  intro r
  constructor
  · intro a' r' h; cases h
  · intro e' h; cases h; exact he r

theorem idx_noerr (b : Bytes) (i : Nat) (e : TErr) : idx b i ≠ .err e := by
  unfold idx; split <;> simp

theorem u32of_noerr (b : Bytes) (e : TErr) : u32of b ≠ .err e := by
  unfold u32of; split <;> simp

theorem u32of_val (b : Bytes) (c : Nat) (h : u32of b = .ok c) : c < 4294967296 := by
  unfold u32of at h
  split at h
  · cases h; exact rd32_lt b
  · cases h

theorem fixedSize_le8 (t : UInt8) : fixedSize t ≤ 8 := by
  unfold fixedSize; repeat' split <;> try omega

theorem reqOK_small (n : Int) (h0 : 0 ≤ n) (h : n ≤ 8) : ReqOK n := by
  unfold ReqOK brReq; omega

theorem reqOK_fixed (t : UInt8) : ReqOK ((fixedSize t : Nat) : Int) := by
  have := fixedSize_le8 t
  unfold ReqOK brReq; omega

theorem brNext_prov (n : Int) (hn : ReqOK n) : RMProv (brNext n) := by
  intro r
  unfold brNext
  constructor
  · intro a r' h
    split at h
    · rename_i b r1 hx; cases h; exact .one (.next hn hx)
    · cases h
    · rename_i r1 hx; cases h; exact .one (.nextNil hn hx)
    · cases h
  · intro e h
    split at h
    · cases h
    · rename_i se r1 hx; cases h; exact .wrap (.refl r) ⟨n, r1, hn, .inl hx⟩
    · cases h
    · cases h

theorem brSkipn_prov (n : Int) (hb : n.toNat ≤ brReq) : RMProv (brSkipn n) := by
  intro r
  unfold brSkipn
  by_cases hn : n < 0
  · simp only [hn, if_true]
    constructor
    · intro a r' h; cases h
    · intro e h; cases h; exact .neg
  · simp only [hn, if_false]
    have hok : ReqOK n := ⟨by omega, hb⟩
    constructor
    · intro a r' h
      split at h
      · rename_i b r1 hx; cases h; exact .one (.skip hok hx)
      · cases h
      · rename_i r1 hx; cases h; exact .one (.skipNil hok hx)
      · cases h
    · intro e h
      split at h
      · cases h
      · rename_i se r1 hx; cases h; exact .wrap (.refl r) ⟨n, r1, hok, .inr hx⟩
      · cases h
      · cases h


theorem brReadI32_prov : RMProv brReadI32 := by
  unfold brReadI32
  simp only [Out.bind_eq, Out.pure_eq]
  refine RMProv.bind (brNext_prov 4 (reqOK_small 4 (by omega) (by omega))) (fun b => ?_)
  exact RMProv.pre (u32of_noerr b) (fun v _ => RMProv.pure _)

/-- the value ReadI32 returns is an int32 -/
theorem brReadI32_val (r : Rd) (n : Int) (r' : Rd) (h : brReadI32 r = .ok (n, r')) : n.toNat ≤ brReq := by
  unfold brReadI32 at h
  simp only [Out.bind_eq, Out.pure_eq] at h
  cases hx : brNext 4 r with
  | ok p =>
    obtain ⟨b, r1⟩ := p
    simp only [hx, Out.bind_ok] at h
    cases hu : u32of b with
    | ok v =>
      simp only [hu, Out.bind_ok, Out.ok.injEq, Prod.mk.injEq] at h
      have hv := u32of_val b v hu
      obtain ⟨hn, _⟩ := h
      subst hn
      unfold toI32 brReq
      split <;> omega
    | err e => simp [hu] at h
    | panic s => simp [hu] at h
    | oob => simp [hu] at h
  | err e => simp [hx] at h
  | panic s => simp [hx] at h
  | oob => simp [hx] at h

theorem brSkipStr_prov : RMProv brSkipStr := by
  unfold brSkipStr
  simp only [Out.bind_eq]
  exact RMProv.bindQ (fun n => n.toNat ≤ brReq) brReadI32_prov brReadI32_val (fun n hn => brSkipn_prov n hn)

theorem brElem_prov {rec : UInt8 → RM Unit} (hrec : ∀ t, RMProv (rec t)) (t : UInt8) (sz : Int)
    (hsz : sz.toNat ≤ brReq) : RMProv (brElem rec t sz) := by
  unfold brElem
  by_cases h : sz > 0
  · simp only [h, if_true]; exact brSkipn_prov sz hsz
  · by_cases hs : t = T_STRING
    · simp only [h, hs, if_true, if_false]; exact brSkipStr_prov
    · simp only [h, hs, if_false]; exact hrec t

theorem brMapLoop_prov {rec : UInt8 → RM Unit} (hrec : ∀ t, RMProv (rec t)) (kt vt : UInt8) (ksz vsz : Int)
    (hk : ksz.toNat ≤ brReq) (hv : vsz.toNat ≤ brReq) :
    ∀ cnt, RMProv (brMapLoop rec kt vt ksz vsz cnt) := by
  intro cnt
  induction cnt with
  | zero => exact RMProv.pure ()
  | succ cnt ih =>
    show RMProv (fun r => brMapLoop rec kt vt ksz vsz (cnt + 1) r)
    simp only [brMapLoop, Out.bind_eq]
    refine RMProv.bind (brElem_prov hrec kt ksz hk) (fun _ => ?_)
    refine RMProv.bind (brElem_prov hrec vt vsz hv) (fun _ => ?_)
    exact ih

theorem brListLoop_prov {rec : UInt8 → RM Unit} (hrec : ∀ t, RMProv (rec t)) (vt : UInt8) :
    ∀ cnt, RMProv (brListLoop rec vt cnt) := by
  intro cnt
  induction cnt with
  | zero => exact RMProv.pure ()
  | succ cnt ih =>
    show RMProv (fun r => brListLoop rec vt (cnt + 1) r)
    simp only [brListLoop, Out.bind_eq]
    have h1 : RMProv (fun r => if vt = T_STRING then brSkipStr r else rec vt r) := by
      by_cases hs : vt = T_STRING
      · simp only [hs, if_true]; exact brSkipStr_prov
      · simp only [hs, if_false]; exact hrec vt
    exact RMProv.bind h1 (fun _ => ih)

theorem brFieldBegin_prov : RMProv brFieldBegin := by
  unfold brFieldBegin
  simp only [Out.bind_eq, Out.pure_eq]
  refine RMProv.bind (brNext_prov 1 (reqOK_small 1 (by omega) (by omega))) (fun b => ?_)
  refine RMProv.pre (idx_noerr b 0) (fun t _ => ?_)
  by_cases ht : t = T_STOP
  · simpa [ht] using RMProv.pure (α := UInt8) T_STOP
  · simp only [ht, if_false]
    refine RMProv.bind (brNext_prov 2 (reqOK_small 2 (by omega) (by omega))) (fun b2 => ?_)
    exact RMProv.pre (idx_noerr b2 1) (fun _ _ => RMProv.pure _)

theorem brStructLoop_prov {rec : UInt8 → RM Unit} (hrec : ∀ t, RMProv (rec t)) :
    ∀ fuel, RMProv (brStructLoop rec fuel) := by
  intro fuel
  induction fuel with
  | zero =>
    intro r
    constructor
    · intro _ _ h; simp [brStructLoop] at h
    · intro _ h; simp [brStructLoop] at h
  | succ fuel ih =>
    show RMProv (fun r => brStructLoop rec (fuel + 1) r)
    simp only [brStructLoop, Out.bind_eq, Out.pure_eq, typeSize_eq, Out.bind_ok]
    refine RMProv.bind brFieldBegin_prov (fun ft => ?_)
    by_cases ht : ft = T_STOP
    · simpa [ht] using RMProv.pure ()
    · simp only [ht, if_false]
      have h1 : RMProv (fun r => if ((fixedSize ft : Nat) : Int) > 0
          then brSkipn ((fixedSize ft : Nat) : Int) r else rec ft r) := by
        by_cases hs : ((fixedSize ft : Nat) : Int) > 0
        · simp only [hs, if_true]; exact brSkipn_prov _ (reqOK_fixed ft).2
        · simp only [hs, if_false]; exact hrec ft
      exact RMProv.bind h1 (fun _ => ih)

theorem mul_le_brReq (N s : Nat) (hN : N < 2147483648) (hs : s ≤ 16) : N * s ≤ brReq := by
  have : N * s ≤ 2147483648 * 16 := Nat.mul_le_mul (by omega) hs
  unfold brReq; omega

/-- a non-negative int32 size times a fixed width stays within the request bound -/
theorem fast_req (szu a : Nat) (hu : szu < 4294967296) (hneg : ¬ toI32 szu < 0) (ha : a ≤ 16) :
    (((szu : Nat) : Int) * ((a : Nat) : Int)).toNat ≤ brReq := by
  have hlt : szu < 2147483648 := by
    unfold toI32 at hneg
    split at hneg <;> omega
  rw [← Int.natCast_mul, Int.toNat_natCast]
  exact mul_le_brReq szu a hlt ha

/-- every error of skipType has a provenance, at every depth and for every type byte -/
theorem skipBRAt_prov : ∀ d t, RMProv (skipBRAt d t) := by
  intro d
  induction d with
  | zero => intro t; exact RMProv.fail (fun _ => .depth)
  | succ d ih =>
    intro t
    show RMProv (fun r => skipBRAt (d + 1) t r)
    simp only [skipBRAt, Out.bind_eq, typeSize_eq, Out.bind_ok]
    by_cases hn : ((fixedSize t : Nat) : Int) > 0
    · simp only [hn, if_true]; exact brSkipn_prov _ (reqOK_fixed t).2
    · simp only [hn, if_false]
      by_cases hs : t = T_STRING
      · simpa [hs] using brSkipStr_prov
      · simp only [hs, if_false]
        by_cases hm : t = T_MAP
        · simp only [hm, if_true]
          refine RMProv.bind (brNext_prov 6 (reqOK_small 6 (by omega) (by omega))) (fun b => ?_)
          dsimp only
          refine RMProv.pre (idx_noerr b 0) (fun kt _ => ?_)
          refine RMProv.pre (idx_noerr b 1) (fun vt _ => ?_)
          refine RMProv.pre (u32of_noerr _) (fun szu hszu => ?_)
          have hu := u32of_val _ _ hszu
          by_cases hneg : toI32 szu < 0
          · simpa [hneg] using RMProv.fail (α := Unit) (fun _ => .neg)
          · simp only [hneg, if_false]
            by_cases hfast : ((fixedSize kt : Nat) : Int) > 0 ∧ ((fixedSize vt : Nat) : Int) > 0
            · simp only [hfast, and_self, if_true]
              refine brSkipn_prov _ ?_
              rw [← Int.natCast_add]
              have := fixedSize_le8 kt
              have := fixedSize_le8 vt
              exact fast_req szu _ hu hneg (by omega)
            · simp only [hfast, if_false]
              exact brMapLoop_prov ih kt vt _ _ (reqOK_fixed kt).2 (reqOK_fixed vt).2 szu
        · simp only [hm, if_false]
          by_cases hl : t = T_LIST ∨ t = T_SET
          · simp only [hl, if_true]
            refine RMProv.bind (brNext_prov 5 (reqOK_small 5 (by omega) (by omega))) (fun b => ?_)
            dsimp only
            refine RMProv.pre (idx_noerr b 0) (fun vt _ => ?_)
            refine RMProv.pre (u32of_noerr _) (fun szu hszu => ?_)
            have hu := u32of_val _ _ hszu
            by_cases hneg : toI32 szu < 0
            · simpa [hneg] using RMProv.fail (α := Unit) (fun _ => .neg)
            · simp only [hneg, if_false]
              by_cases hfast : ((fixedSize vt : Nat) : Int) > 0
              · simp only [hfast, if_true]
                refine brSkipn_prov _ ?_
                have := fixedSize_le8 vt
                exact fast_req szu _ hu hneg (by omega)
              · simp only [hfast, if_false]; exact brListLoop_prov ih vt szu
          · simp only [hl, if_false]
            by_cases hst : t = T_STRUCT
            · simp only [hst, if_true]
              intro r
              exact brStructLoop_prov ih (r.avail + 1) r
            · simpa [hst] using RMProv.fail (α := Unit) (fun _ => .unknownType)

/-- BufferReader.Skip -/
theorem skipBR_prov (t : UInt8) : RMProv (skipBR t) := skipBRAt_prov _ t

end Verif

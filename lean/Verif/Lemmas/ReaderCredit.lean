/-
  Lemmas/ReaderCredit: liveness over *plain* scripts (every entry error-free with k ≥ K ≥ 1, any chunk
  sizes — io.Reader sources like bytes.Reader, chunked transports): the spec's `Credit` bookkeeping
  (Spec/Cursor) is sound for the model.  `e` unread plain entries are good for `e * K` bytes; a
  request for `n` bytes that fits uses up fewer than `n + K` of that; a request past the end drains
  the source if the credit covers what is left.
-/
import Verif.Lemmas.ReaderSteady
import Verif.Lemmas.ReaderChunks
namespace Verif

def PlainK (K : Nat) (s : List Resp) : Prop := ∀ x ∈ s, x.err = none ∧ K ≤ x.k

theorem PlainK.tail {K : Nat} {x : Resp} {rest : List Resp} (h : PlainK K (x :: rest)) : PlainK K rest :=
  fun y hy => h y (by simp [hy])

/-- a plain script delivers any need the stream and the entry count cover -/
theorem plain_enough (M K : Nat) (s : List Resp) (need z slen : Nat) (hp : PlainK K s) (hK : 1 ≤ K)
    (h0 : 0 < need) (hle : need ≤ slen) (hc : need ≤ s.length * K) (hz : z < M) :
    Enough M s need z slen = true := by
  induction s generalizing need z slen with
  | nil => simp at hc; omega
  | cons x rest ih =>
    have hx := hp x (by simp)
    have hzM : ¬ z ≥ M := by omega
    unfold Enough
    simp only [hzM, if_false]
    generalize hd : min (min x.k need) slen = d
    by_cases hge : d ≥ need
    · simp [hge]
    · have hdk : d = x.k := by omega
      have hpos : d > 0 := by omega
      have hes : x.err.isSome = false := by rw [hx.1]; rfl
      simp only [hge, if_false, hes, Bool.false_eq_true, hpos, if_true]
      have hlen : (x :: rest).length * K = rest.length * K + K := by
        simp [Nat.succ_mul]
      rw [hlen] at hc
      exact ih _ _ _ hp.tail (by omega) (by omega) (by omega) (by omega)

/-- (A) the read loop over a plain script that covers the need: it succeeds (the error field is
    untouched), the rest of the script is plain, and fewer than `need + K` credit is used up -/
theorem readLoop_plain_credit (K fuel i : Nat) (r : Rd) (n m : Nat) (r' : Rd)
    (hfit : n ≤ r.cap - r.ri) (hri : r.ri ≤ r.buf.length) (hneed : ¬ n ≤ r.buf.length - r.ri)
    (hi : i < Facts.maxConsecutiveEmptyReads) (hp : PlainK K r.src.script) (hK : 1 ≤ K)
    (hslen : n - (r.buf.length - r.ri) ≤ r.src.stream.length)
    (hcred : n - (r.buf.length - r.ri) ≤ r.src.script.length * K)
    (h : Rd.readLoop fuel i r n = some (m, r')) :
    r'.err = r.err ∧ PlainK K r'.src.script ∧
    r.src.script.length * K < r'.src.script.length * K + (n - (r.buf.length - r.ri)) + K := by
  induction fuel generalizing i r with
  | zero => simp [Rd.readLoop] at h
  | succ f ih =>
    unfold Rd.readLoop at h
    split at h
    · omega
    · cases hsc : r.src.script with
      | nil => rw [hsc] at hcred; simp at hcred; omega
      | cons x rest =>
        rw [hsc] at hp hcred
        have hx := hp x (by simp)
        have hlen : (x :: rest).length * K = rest.length * K + K := by simp [Nat.succ_mul]
        rw [hlen] at hcred
        rw [Src.read_cons _ _ x rest hsc] at h
        simp only [] at h
        generalize hd : min (min x.k (r.cap - r.buf.length)) r.src.stream.length = d at h
        have hdl : (r.src.stream.take d).length = d := by
          simp only [List.length_take]; omega
        have hdrop : (r.src.stream.drop d).length = r.src.stream.length - d := by simp
        have hdfact : d ≥ n - (r.buf.length - r.ri) ∨ (d = x.k ∧ d ≤ r.src.stream.length) := by omega
        clear hd
        simp only [hx.1] at h
        simp only [List.length_append, hdl] at h
        split at h
        · simp only [Option.some.injEq, Prod.mk.injEq] at h
          obtain ⟨_, hr⟩ := h; subst hr
          refine ⟨rfl, hp.tail, ?_⟩
          simp only [hlen]
          omega
        · rename_i hunsat
          have hdk : d = x.k ∧ d ≤ r.src.stream.length := by omega
          have hpos : d > 0 := by omega
          simp only [hpos, if_true] at h
          have := ih 0 _ (by simpa using hfit) (by simp only [List.length_append, hdl]; omega)
            (by simp only [List.length_append, hdl]; omega) (by omega) hp.tail
            (by simp only [List.length_append, hdl, hdrop]; omega)
            (by simp only [List.length_append, hdl]; omega) h
          simp only [List.length_append, hdl] at this
          obtain ⟨h1, h2, h3⟩ := this
          refine ⟨h1, h2, ?_⟩
          simp only [hlen]
          omega

/-- (C) the read loop over a plain script asked for more than the stream has, with enough entries
    for all that is left: it hands over the whole stream before it gives up -/
theorem readLoop_plain_drain (K fuel i : Nat) (r : Rd) (n m : Nat) (r' : Rd)
    (hfit : n ≤ r.cap - r.ri) (hri : r.ri ≤ r.buf.length)
    (hi : i < Facts.maxConsecutiveEmptyReads ∨ r.src.stream = [])
    (hp : PlainK K r.src.script) (hK : 1 ≤ K)
    (hslen : r.src.stream.length < n - (r.buf.length - r.ri))
    (hcred : r.src.stream.length ≤ r.src.script.length * K)
    (h : Rd.readLoop fuel i r n = some (m, r')) : r'.src.stream = [] := by
  induction fuel generalizing i r with
  | zero => simp [Rd.readLoop] at h
  | succ f ih =>
    unfold Rd.readLoop at h
    split at h
    · simp only [Option.some.injEq, Prod.mk.injEq] at h
      obtain ⟨_, hr⟩ := h; subst hr
      rcases hi with hi | hi
      · omega
      · exact hi
    · cases hsc : r.src.script with
      | nil =>
        rw [Src.read_nil _ _ hsc] at h
        simp only [Option.some.injEq, Prod.mk.injEq] at h
        obtain ⟨_, hr⟩ := h; subst hr
        rw [hsc] at hcred; simp at hcred
        exact List.eq_nil_of_length_eq_zero (by simpa using hcred)
      | cons x rest =>
        rw [hsc] at hp hcred
        have hx := hp x (by simp)
        have hlen : (x :: rest).length * K = rest.length * K + K := by simp [Nat.succ_mul]
        rw [hlen] at hcred
        rw [Src.read_cons _ _ x rest hsc] at h
        simp only [] at h
        generalize hd : min (min x.k (r.cap - r.buf.length)) r.src.stream.length = d at h
        have hdl : (r.src.stream.take d).length = d := by
          simp only [List.length_take]; omega
        have hdrop : (r.src.stream.drop d).length = r.src.stream.length - d := by simp
        have hdfact : d = r.src.stream.length ∨ (d = x.k ∧ d ≤ r.src.stream.length) := by omega
        clear hd
        simp only [hx.1] at h
        simp only [List.length_append, hdl] at h
        split at h
        · omega
        · have hnil : ∀ l : Bytes, l.length = 0 → l = [] := fun l hl => List.eq_nil_of_length_eq_zero hl
          split at h
          · refine ih 0 _ (by simpa using hfit) (by simp only [List.length_append, hdl]; omega)
              ?_ hp.tail (by simp only [List.length_append, hdl, hdrop]; omega)
              (by simp only [hdrop]; omega) h
            rcases hi with hi | hi
            · exact Or.inl (by omega)
            · exact Or.inl (by omega)
          · rename_i hzero
            refine ih (i+1) _ (by simpa using hfit) (by simp only [List.length_append, hdl]; omega)
              ?_ hp.tail (by simp only [List.length_append, hdl, hdrop]; omega)
              (by simp only [hdrop]; omega) h
            right
            apply hnil; simp only [hdrop]; omega

/-- the plain-script part of the credit invariant -/
def PlainD (K credit : Nat) (r : Rd) : Prop :=
  r.src.stream = [] ∨ credit = 0 ∨
  (PlainK K r.src.script ∧ 1 ≤ K ∧ credit ≤ r.src.script.length * K ∧ r.err = none)

theorem PlainD.frame {K credit : Nat} {r r' : Rd} (h : PlainD K credit r) (he : r'.err = r.err)
    (hs : r'.src = r.src) : PlainD K credit r' := by
  unfold PlainD at *; rw [he, hs]; exact h

/-- credit covers the request ⇒ it can be served -/
theorem plainD_canServe (K credit : Nat) (r : Rd) (n : Nat) (h : PlainD K credit r)
    (hn : n ≤ r.remaining.length) (hc : n ≤ credit) : r.canServe n = true := by
  rw [remaining_length r] at hn
  unfold Rd.canServe
  simp only [Bool.or_eq_true, decide_eq_true_eq, Bool.and_eq_true]
  by_cases hfast : n ≤ r.buf.length - r.ri
  · exact Or.inl hfast
  · right
    rcases h with h | h | ⟨hp, hK, hcr, he⟩
    · rw [h] at hn; simp at hn; omega
    · omega
    · refine ⟨by rw [he]; rfl, ?_⟩
      exact plain_enough _ K _ _ _ _ hp hK (by omega) (by omega) (by omega) maxEmpty_pos

theorem acquire_stream_nil (r : Rd) (n m : Nat) (r' : Rd) (hinv : Inv r) (hs : r.Small n)
    (h : r.acquire n = some (m, r')) (hnil : r.src.stream = []) : r'.src.stream = [] := by
  obtain ⟨d, _, hd⟩ := (acquire_post r n m r' hinv hs h).data
  rw [hnil] at hd
  have := congrArg List.length hd
  simp at this
  exact List.eq_nil_of_length_eq_zero (by omega)

/-- acquire against the credit: (A) a covered request that fits costs less than `n + K`;
    (C) a request past the end drains the source when the credit covers what is left -/
theorem acquire_credit (K credit : Nat) (r : Rd) (n m : Nat) (r' : Rd) (hinv : Inv r) (hs : r.Small n)
    (hJ : PlainD K credit r) (h : r.acquire n = some (m, r')) :
    (n ≤ r.remaining.length → n ≤ credit → PlainD K (credit - (n + K)) r') ∧
    (r.remaining.length < n → r.remaining.length ≤ credit → r'.src.stream = []) := by
  have hnil := acquire_stream_nil r n m r' hinv hs h
  have hri := hinv.ri_le
  rw [remaining_length r]
  constructor
  · intro hfits hcov
    rcases hJ with hJ | hJ | ⟨hp, hK, hcr, he⟩
    · exact Or.inl (hnil hJ)
    · exact Or.inr (Or.inl (by omega))
    · unfold Rd.acquire at h
      split at h
      · simp only [Option.some.injEq, Prod.mk.injEq] at h
        obtain ⟨_, hr⟩ := h; subst hr
        exact Or.inr (Or.inr ⟨hp, hK, by omega, he⟩)
      · rename_i hslow
        unfold Rd.acquireSlow at h
        split at h
        · rename_i herr; rw [he] at herr; simp at herr
        · simp only [] at h
          have hpr := prepare_spec r n hinv hs
          have := readLoop_plain_credit K _ 0 _ n m r' hpr.fits (by rw [hpr.ri, hpr.buf]; exact hri)
            (by rw [hpr.ri, hpr.buf]; exact hslow) maxEmpty_pos (by rw [hpr.src]; exact hp) hK
            (by rw [hpr.ri, hpr.buf, hpr.src]; omega) (by rw [hpr.ri, hpr.buf, hpr.src]; omega) h
          rw [hpr.ri, hpr.buf, hpr.src, hpr.err] at this
          obtain ⟨h1, h2, h3⟩ := this
          exact Or.inr (Or.inr ⟨h2, hK, by omega, by rw [h1, he]⟩)
  · intro hpast hcov
    rcases hJ with hJ | hJ | ⟨hp, hK, hcr, he⟩
    · exact hnil hJ
    · apply hnil; apply List.eq_nil_of_length_eq_zero; omega
    · unfold Rd.acquire at h
      split at h
      · omega
      · rename_i hslow
        unfold Rd.acquireSlow at h
        split at h
        · rename_i herr; rw [he] at herr; simp at herr
        · simp only [] at h
          have hpr := prepare_spec r n hinv hs
          exact readLoop_plain_drain K _ 0 _ n m r' hpr.fits (by rw [hpr.ri, hpr.buf]; exact hri)
            (Or.inl maxEmpty_pos) (by rw [hpr.src]; exact hp) hK
            (by rw [hpr.ri, hpr.buf, hpr.src]; omega) (by rw [hpr.src]; omega) h

/-! ## the spec's `Credit` bookkeeping along histories -/

/-- what a `Credit` value claims about a model state -/
structure CreditInv (cr : Credit) (r : Rd) : Prop where
  all : cr.all = true → r.Live2
  plain : cr.all = false → PlainD cr.K cr.credit r

theorem CreditInv.advance {cr : Credit} {r : Rd} (h : CreditInv cr r) (k : Nat) :
    CreditInv cr ({ r with ri := r.ri + k } : Rd) :=
  ⟨fun ha => (h.all ha).advance k, fun ha => (h.plain ha).frame rfl rfl⟩

theorem CreditInv.release {cr : Credit} {r : Rd} (h : CreditInv cr r) : CreditInv cr r.release :=
  ⟨fun ha => live2_release r (h.all ha),
   fun ha => (h.plain ha).frame (release_frame r).1 (release_frame r).2⟩

theorem minK_le (s : List Resp) (x : Resp) (hx : x ∈ s) : minK s ≤ x.k := by
  induction s with
  | nil => simp at hx
  | cons y rest ih =>
    cases rest with
    | nil => simp at hx; subst hx; simp [minK]
    | cons z rest' =>
      simp only [minK]
      rcases List.mem_cons.mp hx with h | h
      · subst h; omega
      · have := ih h; omega

theorem minK_pos (s : List Resp) (hne : s ≠ []) (h : ∀ x ∈ s, 1 ≤ x.k) : 1 ≤ minK s := by
  induction s with
  | nil => exact absurd rfl hne
  | cons y rest ih =>
    cases rest with
    | nil => simp [minK]; exact h y (by simp)
    | cons z rest' =>
      simp only [minK]
      have h1 := h y (by simp)
      have h2 := ih (by simp) (fun x hx => h x (by simp [hx]))
      omega

theorem creditInv_init_default (S : Bytes) (script : List Resp) (live : Bool)
    (hl : live = true → (Rd.newDefault ⟨S, script⟩).Live2) :
    CreditInv (Credit.init live script) (Rd.newDefault ⟨S, script⟩) := by
  unfold Credit.init
  split
  · rename_i hall
    refine ⟨hl, fun _ => ?_⟩
    simp only [List.all_eq_true, Bool.and_eq_true, decide_eq_true_eq] at hall
    cases hs : script with
    | nil => exact Or.inr (Or.inl (by simp))
    | cons y rest =>
      rw [← hs]
      refine Or.inr (Or.inr ⟨?_, ?_, by simp [Rd.newDefault], rfl⟩)
      · intro x hx
        refine ⟨?_, minK_le _ _ hx⟩
        have := (hall x hx).1
        cases he : x.err with
        | none => rfl
        | some e => rw [he] at this; simp at this
      · exact minK_pos script (by rw [hs]; simp) (fun x hx => (hall x hx).2)
  · exact ⟨hl, fun _ => Or.inr (Or.inl rfl)⟩

theorem creditInv_init_bytes (data : Bytes) (cap : Nat) :
    CreditInv (Credit.init true []) (Rd.newBytes data cap) :=
  ⟨fun _ => Or.inl (live_newBytes data cap), fun h => by simp [Credit.init] at h⟩

/-- acquire against a credit that does not say `all` -/
theorem acquire_creditInv (cr : Credit) (c : Cur) (r : Rd) (op : ROp) (n m : Nat) (r1 : Rd)
    (habs : Abs c r) (hs : r.Small n) (hall : cr.all = false) (hJ : CreditInv cr r)
    (hreq : op.req = some n) (hacq : r.acquire n = some (m, r1)) :
    CreditInv (cr.after c op) r1 ∧
    (cr.must c op = true →
      (n ≤ r.remaining.length → n ≤ m) ∧ (r.remaining.length < n → r1.src.stream = [])) := by
  have hinv := habs.inv
  have hrest : c.rest.length = r.remaining.length := by rw [habs.rest]
  obtain ⟨hA, hC⟩ := acquire_credit cr.K cr.credit r n m r1 hinv hs (hJ.plain hall) hacq
  constructor
  · unfold Credit.after
    simp only [hall, Bool.false_eq_true, if_false, hreq, hrest]
    split
    · rename_i hfit
      refine ⟨fun ha => by simp at ha, fun _ => ?_⟩
      simp only []
      split
      · rename_i hcov; exact hA hfit hcov
      · exact Or.inr (Or.inl rfl)
    · rename_i hpast
      split
      · rename_i hcov
        exact ⟨fun _ => Or.inl (Or.inl (hC (by omega) hcov)), fun ha => by simp at ha⟩
      · exact ⟨fun ha => by simp at ha, fun _ => Or.inr (Or.inl rfl)⟩
  · intro hmust
    unfold Credit.must at hmust
    simp only [hall, Bool.false_or, hreq, hrest, decide_eq_true_eq] at hmust
    constructor
    · intro hfit
      have hcs := plainD_canServe cr.K cr.credit r n (hJ.plain hall) hfit (by omega)
      exact (acquire_live r n m r1 hinv hs hacq).mpr hcs
    · intro hpast
      exact hC hpast (by omega)

/-- ONE STEP against the credit: the bookkeeping stays sound, and wherever the credit says the
    request must be served, the model's report passes `liveOk` -/
theorem step_credit (cr : Credit) (c : Cur) (r : Rd) (op : ROp) (habs : Abs c r)
    (hs : r.Small op.size) (hJ : CreditInv cr r) :
    CreditInv (cr.after c op) (r.step op).2 ∧
    (cr.must c op = true → liveOk c op (r.step op).1 = true) := by
  cases hall : cr.all with
  | true =>
    have h := step_live2 c r op habs hs (hJ.all hall)
    have : cr.after c op = cr := by simp [Credit.after, hall]
    rw [this]
    exact ⟨⟨fun _ => h.1, fun ha => by rw [hall] at ha; simp at ha⟩, fun _ => h.2⟩
  | false =>
    have hinv := habs.inv
    have hri := hinv.ri_le
    have hrest : c.rest.length = r.remaining.length := by rw [habs.rest]
    cases op with
    | next n =>
      have hs : r.Small n.toNat := hs
      rcases next_cases r n hinv hs with ⟨hneg, hn⟩ | ⟨hpos, m, r1, hacq, ha, hc⟩
      · have : cr.after c (.next n) = cr := by simp [Credit.after, hall, ROp.req, hneg]
        rw [this]
        exact ⟨by simpa [Rd.step, hn] using hJ, fun _ => by simp [Rd.step, hn, RdRes.toRes, liveOk, hneg]⟩
      · have hreq : (ROp.next n).req = some n.toNat := by
          have : ¬ n < 0 := by omega
          simp [ROp.req, this]
        obtain ⟨h1, h2⟩ := acquire_creditInv cr c r _ _ m r1 habs hs hall hJ hreq hacq
        rcases hc with ⟨hgt, hn⟩ | ⟨hge, hn⟩
        · refine ⟨by simpa [Rd.step, hn] using h1, fun hm => ?_⟩
          have : n.toNat > c.rest.length := by
            rw [hrest]
            by_cases hfit : n.toNat ≤ r.remaining.length
            · have := (h2 hm).1 hfit; omega
            · omega
          simp [Rd.step, hn, RdRes.toRes, liveOk, this]
        · exact ⟨by simp only [Rd.step, hn]; exact h1.advance _,
            fun _ => by simp [Rd.step, hn, RdRes.toRes, liveOk]⟩
    | peek n =>
      have hs : r.Small n.toNat := hs
      rcases peek_cases r n hinv hs with ⟨hneg, hn⟩ | ⟨hpos, m, r1, hacq, ha, hc⟩
      · have : cr.after c (.peek n) = cr := by simp [Credit.after, hall, ROp.req, hneg]
        rw [this]
        exact ⟨by simpa [Rd.step, hn] using hJ, fun _ => by simp [Rd.step, hn, RdRes.toRes, liveOk, hneg]⟩
      · have hreq : (ROp.peek n).req = some n.toNat := by
          have : ¬ n < 0 := by omega
          simp [ROp.req, this]
        obtain ⟨h1, h2⟩ := acquire_creditInv cr c r _ _ m r1 habs hs hall hJ hreq hacq
        rcases hc with ⟨hgt, hn⟩ | ⟨hge, hn⟩
        · refine ⟨by simpa [Rd.step, hn] using h1, fun hm => ?_⟩
          have : n.toNat > c.rest.length := by
            rw [hrest]
            by_cases hfit : n.toNat ≤ r.remaining.length
            · have := (h2 hm).1 hfit; omega
            · omega
          simp [Rd.step, hn, RdRes.toRes, liveOk, this]
        · exact ⟨by simpa [Rd.step, hn] using h1, fun _ => by simp [Rd.step, hn, RdRes.toRes, liveOk]⟩
    | skip n =>
      have hs : r.Small n.toNat := hs
      rcases skip_cases r n hinv hs with ⟨hneg, hn⟩ | ⟨hpos, m, r1, hacq, ha, hc⟩
      · have : cr.after c (.skip n) = cr := by simp [Credit.after, hall, ROp.req, hneg]
        rw [this]
        exact ⟨by simpa [Rd.step, hn] using hJ, fun _ => by simp [Rd.step, hn, RdRes.toRes, liveOk, hneg]⟩
      · have hreq : (ROp.skip n).req = some n.toNat := by
          have : ¬ n < 0 := by omega
          simp [ROp.req, this]
        obtain ⟨h1, h2⟩ := acquire_creditInv cr c r _ _ m r1 habs hs hall hJ hreq hacq
        rcases hc with ⟨hgt, hn⟩ | ⟨hge, hn⟩
        · refine ⟨by simpa [Rd.step, hn] using h1, fun hm => ?_⟩
          have : n.toNat > c.rest.length := by
            rw [hrest]
            by_cases hfit : n.toNat ≤ r.remaining.length
            · have := (h2 hm).1 hfit; omega
            · omega
          simp [Rd.step, hn, RdRes.toRes, liveOk, this]
        · exact ⟨by simp only [Rd.step, hn]; exact h1.advance _,
            fun _ => by simp [Rd.step, hn, RdRes.toRes, liveOk]⟩
    | readBinary k =>
      have hs : r.Small k := hs
      obtain ⟨m, r1, hacq, ha, hn⟩ := readBinary_cases r k hinv hs
      obtain ⟨h1, h2⟩ := acquire_creditInv cr c r (.readBinary k) k m r1 habs hs hall hJ rfl hacq
      refine ⟨by simp only [Rd.step, hn]; exact h1.advance _, fun hm => ?_⟩
      have hrem : r1.remaining = r.remaining := ha.remaining hri
      have : min m k = min k c.rest.length := by
        rw [hrest]
        by_cases hfit : k ≤ r.remaining.length
        · have := (h2 hm).1 hfit; omega
        · have hstr := (h2 hm).2 (by omega)
          have hl1 := remaining_length r1
          rw [hstr, hrem] at hl1
          simp only [List.length_nil, Nat.add_zero] at hl1
          have hgt : k > m := by
            by_cases hkm : k ≤ m
            · have := ha.enough (by omega); omega
            · omega
          have := (ha.short hgt).2
          omega
      simp [Rd.step, hn, liveOk, this]
    | release e =>
      have : cr.after c (.release e) = cr := by simp [Credit.after, ROp.req]
      rw [this]
      exact ⟨by simpa [Rd.step, Rd.releaseE] using hJ.release, fun _ => by simp [liveOk]⟩
    | readLen =>
      have : cr.after c .readLen = cr := by simp [Credit.after, ROp.req]
      rw [this]
      exact ⟨by simpa [Rd.step] using hJ, fun _ => by simp [liveOk]⟩

end Verif

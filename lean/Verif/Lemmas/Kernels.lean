/-
  Lemmas/Kernels: umbrella over the kernel-equality lemmas (one file per family, so that a broken
  kernel only affects the properties it serves):
    Kernels/Wire (C01)  Kernels/Fc (C11)  Kernels/TTH (C06, C10)  Kernels/Buf (C04, C05)  Kernels/SMap (C07)
  plus: the translator refused none of the whitelisted kernels.
-/
import Verif.Lemmas.Kernels.Wire
import Verif.Lemmas.Kernels.Fc
import Verif.Lemmas.Kernels.TTH
import Verif.Lemmas.Kernels.Buf
import Verif.Lemmas.Kernels.SMap
namespace Verif.Kernels

/-- every whitelisted kernel was translated (a refused one is listed here with the reason) -/
theorem translated_all : unsupported = [] := by decide

end Verif.Kernels

/-
  Lemmas/UnknownEnc: Spec/Unknown's `encLen` (canonical booleans) is a restriction of Spec/Grammar's `refLen`:
  every value `encLen` accepts is a well-formed value of the shared grammar with the same extent.
-/
import Verif.Spec.Unknown
namespace Verif

theorem uf_refN_mono (f g : Bytes → Option Nat) (H : ∀ s k, f s = some k → g s = some k) :
    ∀ n b k, refN f n b = some k → refN g n b = some k
  | 0, _, _, h => by simpa [refN] using h
  | n+1, b, k, h => by
    simp only [refN] at h ⊢
    generalize hf : f b = r at h
    cases r with
    | none => simp at h
    | some k1 =>
      simp only at h
      rw [H b k1 hf]; simp only
      generalize hr : refN f n (b.drop k1) = r2 at h
      cases r2 with
      | none => simp at h
      | some r => rw [uf_refN_mono f g H n _ r hr]; exact h

theorem uf_refKV_mono (fk fv gk gv : Bytes → Option Nat) (HK : ∀ s k, fk s = some k → gk s = some k)
    (HV : ∀ s k, fv s = some k → gv s = some k) :
    ∀ n b k, refKV fk fv n b = some k → refKV gk gv n b = some k
  | 0, _, _, h => by simpa [refKV] using h
  | n+1, b, k, h => by
    simp only [refKV] at h ⊢
    generalize hf : fk b = r at h
    cases r with
    | none => simp at h
    | some k1 =>
      simp only at h
      rw [HK b k1 hf]; simp only
      generalize hf2 : fv (b.drop k1) = r' at h
      cases r' with
      | none => simp at h
      | some v1 =>
        simp only at h
        rw [HV _ v1 hf2]; simp only
        generalize hr : refKV fk fv n (b.drop (k1 + v1)) = r2 at h
        cases r2 with
        | none => simp at h
        | some r => rw [uf_refKV_mono fk fv gk gv HK HV n _ r hr]; exact h

theorem uf_refFields_mono (f g : UInt8 → Bytes → Option Nat) (H : ∀ t s k, f t s = some k → g t s = some k) :
    ∀ fuel b k, refFields f fuel b = some k → refFields g fuel b = some k
  | 0, _, _, h => by simp [refFields] at h
  | fuel+1, b, k, h => by
    cases b with
    | nil => simp [refFields] at h
    | cons t rest =>
      simp only [refFields] at h ⊢
      split
      · rename_i ht; simpa [ht] using h
      · rename_i ht
        simp only [ht, if_false] at h
        split
        · rename_i h2; simp [h2] at h
        · rename_i h2
          simp only [h2, if_false] at h
          generalize hf : f t (rest.drop 2) = r at h
          cases r with
          | none => simp at h
          | some k1 =>
            simp only at h
            rw [H t _ k1 hf]; simp only
            generalize hr : refFields f fuel (rest.drop (2 + k1)) = r2 at h
            cases r2 with
            | none => simp at h
            | some r => rw [uf_refFields_mono f g H fuel _ r hr]; exact h

theorem uf_layer_mono (E E' : UInt8 → Bytes → Option Nat) (H : ∀ t s k, E t s = some k → E' t s = some k)
    (t : UInt8) (b : Bytes) (k : Nat) (h : layer E t b = some k) : layer E' t b = some k := by
  simp only [layer] at h ⊢
  split
  · rename_i hf; simpa [hf] using h
  · rename_i hf
    simp only [hf, if_false] at h
    split
    · rename_i hs; simpa [hs] using h
    · rename_i hs
      simp only [hs, if_false] at h
      split
      · rename_i h12
        simp only [h12, if_true] at h
        exact uf_refFields_mono _ _ H _ _ _ h
      · rename_i h12
        simp only [h12, if_false] at h
        split
        · rename_i hl
          simp only [hl, if_true] at h
          cases b with
          | nil => simp at h
          | cons et rest =>
            simp only at h ⊢
            split
            · rename_i hc
              simp only [hc, and_self, if_true, Option.map_eq_some_iff] at h ⊢
              obtain ⟨r, hr, hk⟩ := h
              exact ⟨r, uf_refN_mono _ _ (H et) _ _ _ hr, hk⟩
            · rename_i hc; simp [hc] at h
        · rename_i hl
          simp only [hl, if_false] at h
          split
          · rename_i h13
            simp only [h13, if_true] at h
            match b, h with
            | [], h => simp at h
            | [_], h => simp at h
            | kt :: vt :: rest, h =>
              simp only at h ⊢
              split
              · rename_i hc
                simp only [hc, and_self, if_true, Option.map_eq_some_iff] at h ⊢
                obtain ⟨r, hr, hk⟩ := h
                exact ⟨r, uf_refKV_mono _ _ _ _ (H kt) (H vt) _ _ _ hr, hk⟩
              · rename_i hc; simp [hc] at h
          · rename_i h13; simp [h13] at h

/-- every encoded value with canonical booleans is a well-formed value of the grammar, same extent, same depth -/
theorem encLen_refLen : ∀ (d : Nat) (t : UInt8) (b : Bytes) (k : Nat), encLen d t b = some k → refLen d t b = some k
  | 0, _, _, _, h => by simp [encLen] at h
  | d+1, t, b, k, h => by
    have ih := encLen_refLen d
    simp only [encLen] at h
    simp only [refLen]
    by_cases h2 : t = TT.BOOL
    · subst h2
      cases b with
      | nil => simp at h
      | cons x r =>
        simp only [if_true] at h
        split at h
        · simp at h; subst h; simp [layer, fixedSize, TT.BOOL]
        · simp at h
    · simp only [h2, if_false] at h
      exact uf_layer_mono _ _ ih t b k h

end Verif

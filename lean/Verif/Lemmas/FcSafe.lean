/-
  Lemmas/FcSafe: FastRead of the three structs on arbitrary bytes: always a normal return (no panic, no
  out-of-bounds load, fuel never exhausted), and on success the reported length is within the input.
-/
import Verif.Lemmas.FcRead
namespace Verif

/-- a `case` body / loop result that is a normal return, with `off` inside the input on success -/
def RetOK {α : Type} (b : Bytes) (off : Nat) (x : TOut (RR α)) : Prop :=
  ∃ r, x = .ok r ∧ (r.err = none → off ≤ r.off ∧ r.off ≤ b.length)

theorem sliceFrom_ok (b : Bytes) (off : Nat) (h : off ≤ b.length) : sliceFrom b off = .ok (b.drop off) := by
  simp [sliceFrom]; omega

theorem readFieldBegin_le (buf : Bytes) (h : (readFieldBegin buf).err = none) :
    1 ≤ (readFieldBegin buf).l ∧ (readFieldBegin buf).l ≤ buf.length := by
  cases buf with
  | nil => simp [readFieldBegin] at h
  | cons t rest =>
    simp only [readFieldBegin] at h ⊢
    by_cases h1 : t = T_STOP
    · simp [h1]
    · by_cases h2 : rest.length + 1 < 3
      · simp [h1, h2] at h
      · have h2' : ¬ (t :: rest).length < 3 := by simpa using h2
        simp only [if_neg h1, if_neg h2']
        simp at h2 ⊢; omega

theorem readString_le (buf : Bytes) (h : (readString buf).err = none) : (readString buf).l ≤ buf.length := by
  unfold readString at h ⊢
  by_cases h1 : buf.length < 4
  · simp [h1] at h
  · by_cases h2 : toI32 (rd32 buf) < 0
    · simp [h1, h2] at h
    · by_cases h3 : buf.length < 4 + (toI32 (rd32 buf)).toNat
      · simp [h1, h2, h3] at h
      · simp only [if_neg h1, if_neg h2, if_neg h3]; omega

theorem readI32_le (buf : Bytes) (h : (readI32 buf).err = none) : (readI32 buf).l ≤ buf.length := by
  unfold readI32 at h ⊢
  by_cases h1 : buf.length < 4
  · simp [h1] at h
  · simp only [if_neg h1]; omega

theorem readMapBegin_le (buf : Bytes) (h : (readMapBegin buf).err = none) : (readMapBegin buf).l ≤ buf.length := by
  match buf, h with
  | [], h => simp [readMapBegin] at h
  | [_], h => simp [readMapBegin] at h
  | kt :: vt :: rest, h =>
    simp only [readMapBegin] at h ⊢
    by_cases h1 : rest.length + 1 + 1 < 6
    · simp [h1] at h
    · have h1' : ¬ (kt :: vt :: rest).length < 6 := by simpa using h1
      simp only [if_neg h1']
      simp at h1 ⊢; omega

theorem readKVs_safe (b : Bytes) : ∀ (cnt off : Nat) (m : SMap), off ≤ b.length → RetOK b off (readKVs b cnt off m)
  | 0, off, m, h => ⟨_, rfl, fun _ => ⟨Nat.le_refl _, h⟩⟩
  | cnt+1, off, m, h => by
    simp only [readKVs, Out.bind_eq, Out.pure_eq]
    rw [sliceFrom_ok b off h, Out.bind_ok]
    cases hk : (readString (b.drop off)).err with
    | some e => exact ⟨_, rfl, by simp⟩
    | none =>
      have hkl := readString_le _ hk
      simp only [List.length_drop] at hkl
      simp only []
      rw [sliceFrom_ok b _ (by omega), Out.bind_ok]
      cases hv : (readString (b.drop (off + (readString (b.drop off)).l))).err with
      | some e => exact ⟨_, rfl, by simp⟩
      | none =>
        have hvl := readString_le _ hv
        simp only [List.length_drop] at hvl
        simp only []
        obtain ⟨r, hr, hro⟩ := readKVs_safe b cnt (off + (readString (b.drop off)).l +
          (readString (b.drop (off + (readString (b.drop off)).l))).l) (m.set _ _) (by omega)
        exact ⟨r, hr, fun he => ⟨by have := (hro he).1; omega, (hro he).2⟩⟩

theorem caseStr_safe {α : Type} (setF : α → Bytes → α) (p : α) (b : Bytes) (off : Nat) (h : off ≤ b.length) :
    RetOK b off (caseStr setF p b off) := by
  simp only [caseStr, Out.bind_eq, Out.pure_eq]
  rw [sliceFrom_ok b off h, Out.bind_ok]
  refine ⟨_, rfl, fun he => ?_⟩
  have := readString_le _ he
  simp only [List.length_drop] at this
  constructor <;> simp only [] <;> omega

theorem caseI32_safe {α : Type} (setF : α → Int → α) (p : α) (b : Bytes) (off : Nat) (h : off ≤ b.length) :
    RetOK b off (caseI32 setF p b off) := by
  simp only [caseI32, Out.bind_eq, Out.pure_eq]
  rw [sliceFrom_ok b off h, Out.bind_ok]
  refine ⟨_, rfl, fun he => ?_⟩
  have := readI32_le _ he
  simp only [List.length_drop] at this
  constructor <;> simp only [] <;> omega

theorem caseMap_safe {α : Type} (setF : α → SMap → α) (p : α) (b : Bytes) (off : Nat) (h : off ≤ b.length) :
    RetOK b off (caseMap setF p b off) := by
  simp only [caseMap, Out.bind_eq, Out.pure_eq]
  rw [sliceFrom_ok b off h, Out.bind_ok]
  cases hm : (readMapBegin (b.drop off)).err with
  | some e => exact ⟨_, rfl, by simp⟩
  | none =>
    have hml := readMapBegin_le _ hm
    simp only [List.length_drop] at hml
    simp only []
    obtain ⟨r, hr, hro⟩ := readKVs_safe b (readMapBegin (b.drop off)).size (off + (readMapBegin (b.drop off)).l) []
      (by omega)
    rw [hr, Out.bind_ok]
    exact ⟨_, rfl, fun he => ⟨by have := (hro he).1; simp only [] at this ⊢; omega, (hro he).2⟩⟩

theorem caseSkip_safe {α : Type} (p : α) (b : Bytes) (off : Nat) (t : UInt8) (h : off ≤ b.length) :
    RetOK b off (caseSkip p b off t) := by
  simp only [caseSkip, Out.bind_eq, Out.pure_eq]
  rw [sliceFrom_ok b off h, Out.bind_ok]
  rcases skipBin_total (b.drop off) t with ⟨n, hn⟩ | ⟨e, he⟩
  · have := skipBin_le_len _ _ _ hn
    simp only [List.length_drop] at this
    rw [hn]
    exact ⟨_, rfl, fun _ => ⟨by simp only []; omega, by simp only []; omega⟩⟩
  · rw [he]
    exact ⟨_, rfl, by simp⟩

/-- the generated loop is safe whenever every `case` body is -/
theorem genLoop_safe {α : Type} (body : α → Bytes → Nat → Nat → UInt8 → TOut (RR α)) (b : Bytes)
    (hbody : ∀ p off fid ftyp, off ≤ b.length → RetOK b off (body p b off fid ftyp)) :
    ∀ (fuel : Nat) (p : α) (off : Nat), off ≤ b.length → b.length - off < fuel →
      ∃ r, genLoop body b fuel p off = .ok r ∧ (r.err = none → r.off ≤ b.length)
  | 0, _, _, _, hf => by omega
  | fuel+1, p, off, h, hf => by
    simp only [genLoop, Out.bind_eq, Out.pure_eq]
    rw [sliceFrom_ok b off h, Out.bind_ok]
    cases hfb : (readFieldBegin (b.drop off)).err with
    | some e => exact ⟨_, rfl, by simp⟩
    | none =>
      have hl := readFieldBegin_le _ hfb
      simp only [List.length_drop] at hl
      simp only []
      split
      · exact ⟨_, rfl, fun _ => by simp only []; omega⟩
      · obtain ⟨r, hr, hro⟩ := hbody p (off + (readFieldBegin (b.drop off)).l) (readFieldBegin (b.drop off)).id
          (readFieldBegin (b.drop off)).t (by omega)
        rw [hr, Out.bind_ok]
        cases hre : r.err with
        | some e => exact ⟨_, rfl, by simp⟩
        | none =>
          have := hro hre
          exact genLoop_safe body b hbody fuel r.p r.off this.2 (by omega)

theorem baseBody_safe (b : Bytes) (p : Base) (off fid : Nat) (ftyp : UInt8) (h : off ≤ b.length) :
    RetOK b off (baseBody p b off fid ftyp) := by
  unfold baseBody
  split
  · exact caseStr_safe _ p b off h
  · exact caseStr_safe _ p b off h
  · exact caseStr_safe _ p b off h
  · exact caseMap_safe _ p b off h
  · exact caseSkip_safe p b off ftyp h

theorem respBody_safe (b : Bytes) (p : BaseResp) (off fid : Nat) (ftyp : UInt8) (h : off ≤ b.length) :
    RetOK b off (respBody p b off fid ftyp) := by
  unfold respBody
  split
  · exact caseStr_safe _ p b off h
  · exact caseI32_safe _ p b off h
  · exact caseMap_safe _ p b off h
  · exact caseSkip_safe p b off ftyp h

theorem exBody_safe (b : Bytes) (e : AppEx) (off fid : Nat) (ftyp : UInt8) (h : off ≤ b.length) :
    RetOK b off (exBody e b off fid ftyp) := by
  unfold exBody
  split
  · split
    · exact caseStr_safe _ e b off h
    · split
      · exact caseI32_safe _ e b off h
      · exact caseSkip_safe e b off ftyp h
  · rename_i hne
    exact absurd rfl (hne (1, 11) (2, 8))

theorem exLoop_safe (b : Bytes) : ∀ (fuel : Nat) (e : AppEx) (off : Nat), off ≤ b.length → b.length - off < fuel →
      ∃ r, exLoop b fuel e off = .ok r ∧ (r.err = none → r.off ≤ b.length)
  | 0, _, _, _, hf => by omega
  | fuel+1, e, off, h, hf => by
    simp only [exLoop, Out.bind_eq, Out.pure_eq]
    rw [sliceFrom_ok b off h, Out.bind_ok]
    cases hfb : (readFieldBegin (b.drop off)).err with
    | some er => exact ⟨_, rfl, by simp⟩
    | none =>
      have hl := readFieldBegin_le _ hfb
      simp only [List.length_drop] at hl
      simp only []
      split
      · exact ⟨_, rfl, fun _ => by simp only []; omega⟩
      · obtain ⟨r, hr, hro⟩ := exBody_safe b e (off + (readFieldBegin (b.drop off)).l)
          (readFieldBegin (b.drop off)).id (readFieldBegin (b.drop off)).t (by omega)
        rw [hr, Out.bind_ok]
        cases hre : r.err with
        | some er => exact ⟨_, rfl, by simp⟩
        | none =>
          have := hro hre
          exact exLoop_safe b fuel r.p r.off this.2 (by omega)

end Verif

/-
  Lemmas/UnknownEqns: one equation per type for readUF / writeUF / wt (the `switch` of the Go code, case by case).
  Generated text, proofs by unfolding the if-chain on a known type code.
-/
import Verif.Lemmas.UnknownBase
namespace Verif
set_option linter.unusedSimpArgs false

theorem utt : UT.STOP = 0 ∧ UT.BOOL = 2 ∧ UT.BYTE = 3 ∧ UT.DOUBLE = 4 ∧ UT.I16 = 6 ∧ UT.I32 = 8 ∧ UT.I64 = 10 ∧
    UT.STRING = 11 ∧ UT.STRUCT = 12 ∧ UT.MAP = 13 ∧ UT.SET = 14 ∧ UT.LIST = 15 := by decide

theorem ttt : TT.BOOL = 2 ∧ TT.BYTE = 3 ∧ TT.DOUBLE = 4 ∧ TT.I16 = 6 ∧ TT.I32 = 8 ∧ TT.I64 = 10 ∧
    TT.STRING = 11 ∧ TT.STRUCT = 12 ∧ TT.MAP = 13 ∧ TT.SET = 14 ∧ TT.LIST = 15 := by decide

theorem readUF_BOOL (m : Nat) (b : Bytes) (t : UInt8) (id : UInt16) (h : t = UT.BOOL) :
    readUF (m+1) b t id = scalarUF id t (rdBool b) := by
  subst h; simp [readUF, readNode, utt.1, utt.2.1, utt.2.2.1, utt.2.2.2.1, utt.2.2.2.2.1, utt.2.2.2.2.2.1, utt.2.2.2.2.2.2.1, utt.2.2.2.2.2.2.2.1, utt.2.2.2.2.2.2.2.2.1, utt.2.2.2.2.2.2.2.2.2.1, utt.2.2.2.2.2.2.2.2.2.2.1, utt.2.2.2.2.2.2.2.2.2.2.2] <;> rfl

theorem writeUF_BOOL (m : Nat) (f : UF (m+1)) (h : f.1.typ = UT.BOOL) :
    writeUF (m+1) f =
      match f.2 with
      | .bool v => .ok [if v then 1 else 0]
      | _ => .panic "typeassert" := by
  simp [writeUF, h, utt.1, utt.2.1, utt.2.2.1, utt.2.2.2.1, utt.2.2.2.2.1, utt.2.2.2.2.2.1, utt.2.2.2.2.2.2.1, utt.2.2.2.2.2.2.2.1, utt.2.2.2.2.2.2.2.2.1, utt.2.2.2.2.2.2.2.2.2.1, utt.2.2.2.2.2.2.2.2.2.2.1, utt.2.2.2.2.2.2.2.2.2.2.2] <;> rfl

theorem wt_BOOL (m : Nat) (f : UF (m+1)) (h : f.1.typ = UT.BOOL) :
    wt (m+1) f = (f.1.kt == 0 && f.1.vt == 0 && (match f.2 with | .bool _ => true | _ => false)) := by
  simp [wt, h, utt.1, utt.2.1, utt.2.2.1, utt.2.2.2.1, utt.2.2.2.2.1, utt.2.2.2.2.2.1, utt.2.2.2.2.2.2.1, utt.2.2.2.2.2.2.2.1, utt.2.2.2.2.2.2.2.2.1, utt.2.2.2.2.2.2.2.2.2.1, utt.2.2.2.2.2.2.2.2.2.2.1, utt.2.2.2.2.2.2.2.2.2.2.2, ttt.1, ttt.2.1, ttt.2.2.1, ttt.2.2.2.1, ttt.2.2.2.2.1, ttt.2.2.2.2.2.1, ttt.2.2.2.2.2.2.1, ttt.2.2.2.2.2.2.2.1, ttt.2.2.2.2.2.2.2.2.1, ttt.2.2.2.2.2.2.2.2.2.1, ttt.2.2.2.2.2.2.2.2.2.2] <;> rfl

theorem readUF_BYTE (m : Nat) (b : Bytes) (t : UInt8) (id : UInt16) (h : t = UT.BYTE) :
    readUF (m+1) b t id = scalarUF id t (rdByte b) := by
  subst h; simp [readUF, readNode, utt.1, utt.2.1, utt.2.2.1, utt.2.2.2.1, utt.2.2.2.2.1, utt.2.2.2.2.2.1, utt.2.2.2.2.2.2.1, utt.2.2.2.2.2.2.2.1, utt.2.2.2.2.2.2.2.2.1, utt.2.2.2.2.2.2.2.2.2.1, utt.2.2.2.2.2.2.2.2.2.2.1, utt.2.2.2.2.2.2.2.2.2.2.2] <;> rfl

theorem writeUF_BYTE (m : Nat) (f : UF (m+1)) (h : f.1.typ = UT.BYTE) :
    writeUF (m+1) f =
      match f.2 with
      | .i8 v => .ok [v]
      | _ => .panic "typeassert" := by
  simp [writeUF, h, utt.1, utt.2.1, utt.2.2.1, utt.2.2.2.1, utt.2.2.2.2.1, utt.2.2.2.2.2.1, utt.2.2.2.2.2.2.1, utt.2.2.2.2.2.2.2.1, utt.2.2.2.2.2.2.2.2.1, utt.2.2.2.2.2.2.2.2.2.1, utt.2.2.2.2.2.2.2.2.2.2.1, utt.2.2.2.2.2.2.2.2.2.2.2] <;> rfl

theorem wt_BYTE (m : Nat) (f : UF (m+1)) (h : f.1.typ = UT.BYTE) :
    wt (m+1) f = (f.1.kt == 0 && f.1.vt == 0 && (match f.2 with | .i8 _ => true | _ => false)) := by
  simp [wt, h, utt.1, utt.2.1, utt.2.2.1, utt.2.2.2.1, utt.2.2.2.2.1, utt.2.2.2.2.2.1, utt.2.2.2.2.2.2.1, utt.2.2.2.2.2.2.2.1, utt.2.2.2.2.2.2.2.2.1, utt.2.2.2.2.2.2.2.2.2.1, utt.2.2.2.2.2.2.2.2.2.2.1, utt.2.2.2.2.2.2.2.2.2.2.2, ttt.1, ttt.2.1, ttt.2.2.1, ttt.2.2.2.1, ttt.2.2.2.2.1, ttt.2.2.2.2.2.1, ttt.2.2.2.2.2.2.1, ttt.2.2.2.2.2.2.2.1, ttt.2.2.2.2.2.2.2.2.1, ttt.2.2.2.2.2.2.2.2.2.1, ttt.2.2.2.2.2.2.2.2.2.2] <;> rfl

theorem readUF_I16 (m : Nat) (b : Bytes) (t : UInt8) (id : UInt16) (h : t = UT.I16) :
    readUF (m+1) b t id = scalarUF id t (rdI16 b) := by
  subst h; simp [readUF, readNode, utt.1, utt.2.1, utt.2.2.1, utt.2.2.2.1, utt.2.2.2.2.1, utt.2.2.2.2.2.1, utt.2.2.2.2.2.2.1, utt.2.2.2.2.2.2.2.1, utt.2.2.2.2.2.2.2.2.1, utt.2.2.2.2.2.2.2.2.2.1, utt.2.2.2.2.2.2.2.2.2.2.1, utt.2.2.2.2.2.2.2.2.2.2.2] <;> rfl

theorem writeUF_I16 (m : Nat) (f : UF (m+1)) (h : f.1.typ = UT.I16) :
    writeUF (m+1) f =
      match f.2 with
      | .i16 v => .ok (be16 v.toNat)
      | _ => .panic "typeassert" := by
  simp [writeUF, h, utt.1, utt.2.1, utt.2.2.1, utt.2.2.2.1, utt.2.2.2.2.1, utt.2.2.2.2.2.1, utt.2.2.2.2.2.2.1, utt.2.2.2.2.2.2.2.1, utt.2.2.2.2.2.2.2.2.1, utt.2.2.2.2.2.2.2.2.2.1, utt.2.2.2.2.2.2.2.2.2.2.1, utt.2.2.2.2.2.2.2.2.2.2.2] <;> rfl

theorem wt_I16 (m : Nat) (f : UF (m+1)) (h : f.1.typ = UT.I16) :
    wt (m+1) f = (f.1.kt == 0 && f.1.vt == 0 && (match f.2 with | .i16 _ => true | _ => false)) := by
  simp [wt, h, utt.1, utt.2.1, utt.2.2.1, utt.2.2.2.1, utt.2.2.2.2.1, utt.2.2.2.2.2.1, utt.2.2.2.2.2.2.1, utt.2.2.2.2.2.2.2.1, utt.2.2.2.2.2.2.2.2.1, utt.2.2.2.2.2.2.2.2.2.1, utt.2.2.2.2.2.2.2.2.2.2.1, utt.2.2.2.2.2.2.2.2.2.2.2, ttt.1, ttt.2.1, ttt.2.2.1, ttt.2.2.2.1, ttt.2.2.2.2.1, ttt.2.2.2.2.2.1, ttt.2.2.2.2.2.2.1, ttt.2.2.2.2.2.2.2.1, ttt.2.2.2.2.2.2.2.2.1, ttt.2.2.2.2.2.2.2.2.2.1, ttt.2.2.2.2.2.2.2.2.2.2] <;> rfl

theorem readUF_I32 (m : Nat) (b : Bytes) (t : UInt8) (id : UInt16) (h : t = UT.I32) :
    readUF (m+1) b t id = scalarUF id t (rdI32 b) := by
  subst h; simp [readUF, readNode, utt.1, utt.2.1, utt.2.2.1, utt.2.2.2.1, utt.2.2.2.2.1, utt.2.2.2.2.2.1, utt.2.2.2.2.2.2.1, utt.2.2.2.2.2.2.2.1, utt.2.2.2.2.2.2.2.2.1, utt.2.2.2.2.2.2.2.2.2.1, utt.2.2.2.2.2.2.2.2.2.2.1, utt.2.2.2.2.2.2.2.2.2.2.2] <;> rfl

theorem writeUF_I32 (m : Nat) (f : UF (m+1)) (h : f.1.typ = UT.I32) :
    writeUF (m+1) f =
      match f.2 with
      | .i32 v => .ok (be32 v.toNat)
      | _ => .panic "typeassert" := by
  simp [writeUF, h, utt.1, utt.2.1, utt.2.2.1, utt.2.2.2.1, utt.2.2.2.2.1, utt.2.2.2.2.2.1, utt.2.2.2.2.2.2.1, utt.2.2.2.2.2.2.2.1, utt.2.2.2.2.2.2.2.2.1, utt.2.2.2.2.2.2.2.2.2.1, utt.2.2.2.2.2.2.2.2.2.2.1, utt.2.2.2.2.2.2.2.2.2.2.2] <;> rfl

theorem wt_I32 (m : Nat) (f : UF (m+1)) (h : f.1.typ = UT.I32) :
    wt (m+1) f = (f.1.kt == 0 && f.1.vt == 0 && (match f.2 with | .i32 _ => true | _ => false)) := by
  simp [wt, h, utt.1, utt.2.1, utt.2.2.1, utt.2.2.2.1, utt.2.2.2.2.1, utt.2.2.2.2.2.1, utt.2.2.2.2.2.2.1, utt.2.2.2.2.2.2.2.1, utt.2.2.2.2.2.2.2.2.1, utt.2.2.2.2.2.2.2.2.2.1, utt.2.2.2.2.2.2.2.2.2.2.1, utt.2.2.2.2.2.2.2.2.2.2.2, ttt.1, ttt.2.1, ttt.2.2.1, ttt.2.2.2.1, ttt.2.2.2.2.1, ttt.2.2.2.2.2.1, ttt.2.2.2.2.2.2.1, ttt.2.2.2.2.2.2.2.1, ttt.2.2.2.2.2.2.2.2.1, ttt.2.2.2.2.2.2.2.2.2.1, ttt.2.2.2.2.2.2.2.2.2.2] <;> rfl

theorem readUF_I64 (m : Nat) (b : Bytes) (t : UInt8) (id : UInt16) (h : t = UT.I64) :
    readUF (m+1) b t id = scalarUF id t (rdI64 b) := by
  subst h; simp [readUF, readNode, utt.1, utt.2.1, utt.2.2.1, utt.2.2.2.1, utt.2.2.2.2.1, utt.2.2.2.2.2.1, utt.2.2.2.2.2.2.1, utt.2.2.2.2.2.2.2.1, utt.2.2.2.2.2.2.2.2.1, utt.2.2.2.2.2.2.2.2.2.1, utt.2.2.2.2.2.2.2.2.2.2.1, utt.2.2.2.2.2.2.2.2.2.2.2] <;> rfl

theorem writeUF_I64 (m : Nat) (f : UF (m+1)) (h : f.1.typ = UT.I64) :
    writeUF (m+1) f =
      match f.2 with
      | .i64 v => .ok (be64 v.toNat)
      | _ => .panic "typeassert" := by
  simp [writeUF, h, utt.1, utt.2.1, utt.2.2.1, utt.2.2.2.1, utt.2.2.2.2.1, utt.2.2.2.2.2.1, utt.2.2.2.2.2.2.1, utt.2.2.2.2.2.2.2.1, utt.2.2.2.2.2.2.2.2.1, utt.2.2.2.2.2.2.2.2.2.1, utt.2.2.2.2.2.2.2.2.2.2.1, utt.2.2.2.2.2.2.2.2.2.2.2] <;> rfl

theorem wt_I64 (m : Nat) (f : UF (m+1)) (h : f.1.typ = UT.I64) :
    wt (m+1) f = (f.1.kt == 0 && f.1.vt == 0 && (match f.2 with | .i64 _ => true | _ => false)) := by
  simp [wt, h, utt.1, utt.2.1, utt.2.2.1, utt.2.2.2.1, utt.2.2.2.2.1, utt.2.2.2.2.2.1, utt.2.2.2.2.2.2.1, utt.2.2.2.2.2.2.2.1, utt.2.2.2.2.2.2.2.2.1, utt.2.2.2.2.2.2.2.2.2.1, utt.2.2.2.2.2.2.2.2.2.2.1, utt.2.2.2.2.2.2.2.2.2.2.2, ttt.1, ttt.2.1, ttt.2.2.1, ttt.2.2.2.1, ttt.2.2.2.2.1, ttt.2.2.2.2.2.1, ttt.2.2.2.2.2.2.1, ttt.2.2.2.2.2.2.2.1, ttt.2.2.2.2.2.2.2.2.1, ttt.2.2.2.2.2.2.2.2.2.1, ttt.2.2.2.2.2.2.2.2.2.2] <;> rfl

theorem readUF_DOUBLE (m : Nat) (b : Bytes) (t : UInt8) (id : UInt16) (h : t = UT.DOUBLE) :
    readUF (m+1) b t id = scalarUF id t (rdDouble b) := by
  subst h; simp [readUF, readNode, utt.1, utt.2.1, utt.2.2.1, utt.2.2.2.1, utt.2.2.2.2.1, utt.2.2.2.2.2.1, utt.2.2.2.2.2.2.1, utt.2.2.2.2.2.2.2.1, utt.2.2.2.2.2.2.2.2.1, utt.2.2.2.2.2.2.2.2.2.1, utt.2.2.2.2.2.2.2.2.2.2.1, utt.2.2.2.2.2.2.2.2.2.2.2] <;> rfl

theorem writeUF_DOUBLE (m : Nat) (f : UF (m+1)) (h : f.1.typ = UT.DOUBLE) :
    writeUF (m+1) f =
      match f.2 with
      | .f64 v => .ok (be64 v.toNat)
      | _ => .panic "typeassert" := by
  simp [writeUF, h, utt.1, utt.2.1, utt.2.2.1, utt.2.2.2.1, utt.2.2.2.2.1, utt.2.2.2.2.2.1, utt.2.2.2.2.2.2.1, utt.2.2.2.2.2.2.2.1, utt.2.2.2.2.2.2.2.2.1, utt.2.2.2.2.2.2.2.2.2.1, utt.2.2.2.2.2.2.2.2.2.2.1, utt.2.2.2.2.2.2.2.2.2.2.2] <;> rfl

theorem wt_DOUBLE (m : Nat) (f : UF (m+1)) (h : f.1.typ = UT.DOUBLE) :
    wt (m+1) f = (f.1.kt == 0 && f.1.vt == 0 && (match f.2 with | .f64 _ => true | _ => false)) := by
  simp [wt, h, utt.1, utt.2.1, utt.2.2.1, utt.2.2.2.1, utt.2.2.2.2.1, utt.2.2.2.2.2.1, utt.2.2.2.2.2.2.1, utt.2.2.2.2.2.2.2.1, utt.2.2.2.2.2.2.2.2.1, utt.2.2.2.2.2.2.2.2.2.1, utt.2.2.2.2.2.2.2.2.2.2.1, utt.2.2.2.2.2.2.2.2.2.2.2, ttt.1, ttt.2.1, ttt.2.2.1, ttt.2.2.2.1, ttt.2.2.2.2.1, ttt.2.2.2.2.2.1, ttt.2.2.2.2.2.2.1, ttt.2.2.2.2.2.2.2.1, ttt.2.2.2.2.2.2.2.2.1, ttt.2.2.2.2.2.2.2.2.2.1, ttt.2.2.2.2.2.2.2.2.2.2] <;> rfl

theorem readUF_STRING (m : Nat) (b : Bytes) (t : UInt8) (id : UInt16) (h : t = UT.STRING) :
    readUF (m+1) b t id = scalarUF id t (rdStr b) := by
  subst h; simp [readUF, readNode, utt.1, utt.2.1, utt.2.2.1, utt.2.2.2.1, utt.2.2.2.2.1, utt.2.2.2.2.2.1, utt.2.2.2.2.2.2.1, utt.2.2.2.2.2.2.2.1, utt.2.2.2.2.2.2.2.2.1, utt.2.2.2.2.2.2.2.2.2.1, utt.2.2.2.2.2.2.2.2.2.2.1, utt.2.2.2.2.2.2.2.2.2.2.2] <;> rfl

theorem writeUF_STRING (m : Nat) (f : UF (m+1)) (h : f.1.typ = UT.STRING) :
    writeUF (m+1) f =
      match f.2 with
      | .str s => .ok (be32 (u32 s.length) ++ s)
      | _ => .panic "typeassert" := by
  simp [writeUF, h, utt.1, utt.2.1, utt.2.2.1, utt.2.2.2.1, utt.2.2.2.2.1, utt.2.2.2.2.2.1, utt.2.2.2.2.2.2.1, utt.2.2.2.2.2.2.2.1, utt.2.2.2.2.2.2.2.2.1, utt.2.2.2.2.2.2.2.2.2.1, utt.2.2.2.2.2.2.2.2.2.2.1, utt.2.2.2.2.2.2.2.2.2.2.2] <;> rfl

theorem wt_STRING (m : Nat) (f : UF (m+1)) (h : f.1.typ = UT.STRING) :
    wt (m+1) f = (f.1.kt == 0 && f.1.vt == 0 && (match f.2 with | .str s => decide (s.length < 2147483648) | _ => false)) := by
  simp [wt, h, utt.1, utt.2.1, utt.2.2.1, utt.2.2.2.1, utt.2.2.2.2.1, utt.2.2.2.2.2.1, utt.2.2.2.2.2.2.1, utt.2.2.2.2.2.2.2.1, utt.2.2.2.2.2.2.2.2.1, utt.2.2.2.2.2.2.2.2.2.1, utt.2.2.2.2.2.2.2.2.2.2.1, utt.2.2.2.2.2.2.2.2.2.2.2, ttt.1, ttt.2.1, ttt.2.2.1, ttt.2.2.2.1, ttt.2.2.2.2.1, ttt.2.2.2.2.2.1, ttt.2.2.2.2.2.2.1, ttt.2.2.2.2.2.2.2.1, ttt.2.2.2.2.2.2.2.2.1, ttt.2.2.2.2.2.2.2.2.2.1, ttt.2.2.2.2.2.2.2.2.2.2] <;> rfl

theorem readUF_SET (m : Nat) (b : Bytes) (t : UInt8) (id : UInt16) (h : t = UT.SET) :
    readUF (m+1) b t id = readListLike (fun et s i => readUF m s et i) id t b := by
  subst h; simp [readUF, readNode, utt.1, utt.2.1, utt.2.2.1, utt.2.2.2.1, utt.2.2.2.2.1, utt.2.2.2.2.2.1, utt.2.2.2.2.2.2.1, utt.2.2.2.2.2.2.2.1, utt.2.2.2.2.2.2.2.2.1, utt.2.2.2.2.2.2.2.2.2.1, utt.2.2.2.2.2.2.2.2.2.2.1, utt.2.2.2.2.2.2.2.2.2.2.2] <;> rfl

theorem writeUF_SET (m : Nat) (f : UF (m+1)) (h : f.1.typ = UT.SET) :
    writeUF (m+1) f =
      match f.2 with
      | .fields vs => (writeList (writeUF m) vs).bind fun r => .ok (f.1.vt :: be32 (u32 vs.length) ++ r)
      | _ => .panic "typeassert" := by
  simp [writeUF, h, utt.1, utt.2.1, utt.2.2.1, utt.2.2.2.1, utt.2.2.2.2.1, utt.2.2.2.2.2.1, utt.2.2.2.2.2.2.1, utt.2.2.2.2.2.2.2.1, utt.2.2.2.2.2.2.2.2.1, utt.2.2.2.2.2.2.2.2.2.1, utt.2.2.2.2.2.2.2.2.2.2.1, utt.2.2.2.2.2.2.2.2.2.2.2] <;> rfl

theorem wt_SET (m : Nat) (f : UF (m+1)) (h : f.1.typ = UT.SET) :
    wt (m+1) f = (f.1.kt == 0 &&
      (match f.2 with
       | .fields cs => decide (cs.length < 4294967296) && elemsOK (ufMeta m) (wt m) f.1.vt 0 cs
       | _ => false)) := by
  simp [wt, h, utt.1, utt.2.1, utt.2.2.1, utt.2.2.2.1, utt.2.2.2.2.1, utt.2.2.2.2.2.1, utt.2.2.2.2.2.2.1, utt.2.2.2.2.2.2.2.1, utt.2.2.2.2.2.2.2.2.1, utt.2.2.2.2.2.2.2.2.2.1, utt.2.2.2.2.2.2.2.2.2.2.1, utt.2.2.2.2.2.2.2.2.2.2.2, ttt.1, ttt.2.1, ttt.2.2.1, ttt.2.2.2.1, ttt.2.2.2.2.1, ttt.2.2.2.2.2.1, ttt.2.2.2.2.2.2.1, ttt.2.2.2.2.2.2.2.1, ttt.2.2.2.2.2.2.2.2.1, ttt.2.2.2.2.2.2.2.2.2.1, ttt.2.2.2.2.2.2.2.2.2.2] <;> rfl

theorem readUF_LIST (m : Nat) (b : Bytes) (t : UInt8) (id : UInt16) (h : t = UT.LIST) :
    readUF (m+1) b t id = readListLike (fun et s i => readUF m s et i) id t b := by
  subst h; simp [readUF, readNode, utt.1, utt.2.1, utt.2.2.1, utt.2.2.2.1, utt.2.2.2.2.1, utt.2.2.2.2.2.1, utt.2.2.2.2.2.2.1, utt.2.2.2.2.2.2.2.1, utt.2.2.2.2.2.2.2.2.1, utt.2.2.2.2.2.2.2.2.2.1, utt.2.2.2.2.2.2.2.2.2.2.1, utt.2.2.2.2.2.2.2.2.2.2.2] <;> rfl

theorem writeUF_LIST (m : Nat) (f : UF (m+1)) (h : f.1.typ = UT.LIST) :
    writeUF (m+1) f =
      match f.2 with
      | .fields vs => (writeList (writeUF m) vs).bind fun r => .ok (f.1.vt :: be32 (u32 vs.length) ++ r)
      | _ => .panic "typeassert" := by
  simp [writeUF, h, utt.1, utt.2.1, utt.2.2.1, utt.2.2.2.1, utt.2.2.2.2.1, utt.2.2.2.2.2.1, utt.2.2.2.2.2.2.1, utt.2.2.2.2.2.2.2.1, utt.2.2.2.2.2.2.2.2.1, utt.2.2.2.2.2.2.2.2.2.1, utt.2.2.2.2.2.2.2.2.2.2.1, utt.2.2.2.2.2.2.2.2.2.2.2] <;> rfl

theorem wt_LIST (m : Nat) (f : UF (m+1)) (h : f.1.typ = UT.LIST) :
    wt (m+1) f = (f.1.kt == 0 &&
      (match f.2 with
       | .fields cs => decide (cs.length < 4294967296) && elemsOK (ufMeta m) (wt m) f.1.vt 0 cs
       | _ => false)) := by
  simp [wt, h, utt.1, utt.2.1, utt.2.2.1, utt.2.2.2.1, utt.2.2.2.2.1, utt.2.2.2.2.2.1, utt.2.2.2.2.2.2.1, utt.2.2.2.2.2.2.2.1, utt.2.2.2.2.2.2.2.2.1, utt.2.2.2.2.2.2.2.2.2.1, utt.2.2.2.2.2.2.2.2.2.2.1, utt.2.2.2.2.2.2.2.2.2.2.2, ttt.1, ttt.2.1, ttt.2.2.1, ttt.2.2.2.1, ttt.2.2.2.2.1, ttt.2.2.2.2.2.1, ttt.2.2.2.2.2.2.1, ttt.2.2.2.2.2.2.2.1, ttt.2.2.2.2.2.2.2.2.1, ttt.2.2.2.2.2.2.2.2.2.1, ttt.2.2.2.2.2.2.2.2.2.2] <;> rfl

theorem readUF_MAP (m : Nat) (b : Bytes) (t : UInt8) (id : UInt16) (h : t = UT.MAP) :
    readUF (m+1) b t id = readMapLike (fun et s i => readUF m s et i) id t b := by
  subst h; simp [readUF, readNode, utt.1, utt.2.1, utt.2.2.1, utt.2.2.2.1, utt.2.2.2.2.1, utt.2.2.2.2.2.1, utt.2.2.2.2.2.2.1, utt.2.2.2.2.2.2.2.1, utt.2.2.2.2.2.2.2.2.1, utt.2.2.2.2.2.2.2.2.2.1, utt.2.2.2.2.2.2.2.2.2.2.1, utt.2.2.2.2.2.2.2.2.2.2.2] <;> rfl

theorem writeUF_MAP (m : Nat) (f : UF (m+1)) (h : f.1.typ = UT.MAP) :
    writeUF (m+1) f =
      match f.2 with
      | .fields kvs =>
        (writeKVs (writeUF m) kvs).bind fun r => .ok (f.1.kt :: f.1.vt :: be32 (u32 (kvs.length / 2)) ++ r)
      | _ => .panic "typeassert" := by
  simp [writeUF, h, utt.1, utt.2.1, utt.2.2.1, utt.2.2.2.1, utt.2.2.2.2.1, utt.2.2.2.2.2.1, utt.2.2.2.2.2.2.1, utt.2.2.2.2.2.2.2.1, utt.2.2.2.2.2.2.2.2.1, utt.2.2.2.2.2.2.2.2.2.1, utt.2.2.2.2.2.2.2.2.2.2.1, utt.2.2.2.2.2.2.2.2.2.2.2] <;> rfl

theorem wt_MAP (m : Nat) (f : UF (m+1)) (h : f.1.typ = UT.MAP) :
    wt (m+1) f = ((match f.2 with
       | .fields kvs => decide (kvs.length / 2 < 4294967296) && ufKvsOK (ufMeta m) (wt m) f.1.kt f.1.vt 0 kvs
       | _ => false)) := by
  simp [wt, h, utt.1, utt.2.1, utt.2.2.1, utt.2.2.2.1, utt.2.2.2.2.1, utt.2.2.2.2.2.1, utt.2.2.2.2.2.2.1, utt.2.2.2.2.2.2.2.1, utt.2.2.2.2.2.2.2.2.1, utt.2.2.2.2.2.2.2.2.2.1, utt.2.2.2.2.2.2.2.2.2.2.1, utt.2.2.2.2.2.2.2.2.2.2.2, ttt.1, ttt.2.1, ttt.2.2.1, ttt.2.2.2.1, ttt.2.2.2.2.1, ttt.2.2.2.2.2.1, ttt.2.2.2.2.2.2.1, ttt.2.2.2.2.2.2.2.1, ttt.2.2.2.2.2.2.2.2.1, ttt.2.2.2.2.2.2.2.2.2.1, ttt.2.2.2.2.2.2.2.2.2.2] <;> rfl

theorem readUF_STRUCT (m : Nat) (b : Bytes) (t : UInt8) (id : UInt16) (h : t = UT.STRUCT) :
    readUF (m+1) b t id = (readFields (fun s ft fid => readUF m s ft fid) (b.length + 1) b 0).bind fun rs =>
      .ok ((⟨id, t, 0, 0⟩, .fields rs.1), rs.2) := by
  subst h; simp [readUF, readNode, utt.1, utt.2.1, utt.2.2.1, utt.2.2.2.1, utt.2.2.2.2.1, utt.2.2.2.2.2.1, utt.2.2.2.2.2.2.1, utt.2.2.2.2.2.2.2.1, utt.2.2.2.2.2.2.2.2.1, utt.2.2.2.2.2.2.2.2.2.1, utt.2.2.2.2.2.2.2.2.2.2.1, utt.2.2.2.2.2.2.2.2.2.2.2] <;> rfl

theorem writeUF_STRUCT (m : Nat) (f : UF (m+1)) (h : f.1.typ = UT.STRUCT) :
    writeUF (m+1) f =
      match f.2 with
      | .fields fs => (writeFields (ufMeta m) (writeUF m) fs).bind fun r => .ok (r ++ [UT.STOP])
      | _ => .panic "typeassert" := by
  simp [writeUF, h, utt.1, utt.2.1, utt.2.2.1, utt.2.2.2.1, utt.2.2.2.2.1, utt.2.2.2.2.2.1, utt.2.2.2.2.2.2.1, utt.2.2.2.2.2.2.2.1, utt.2.2.2.2.2.2.2.2.1, utt.2.2.2.2.2.2.2.2.2.1, utt.2.2.2.2.2.2.2.2.2.2.1, utt.2.2.2.2.2.2.2.2.2.2.2] <;> rfl

theorem wt_STRUCT (m : Nat) (f : UF (m+1)) (h : f.1.typ = UT.STRUCT) :
    wt (m+1) f = (f.1.kt == 0 && f.1.vt == 0 && (match f.2 with | .fields fs => fs.all (wt m) | _ => false)) := by
  simp [wt, h, utt.1, utt.2.1, utt.2.2.1, utt.2.2.2.1, utt.2.2.2.2.1, utt.2.2.2.2.2.1, utt.2.2.2.2.2.2.1, utt.2.2.2.2.2.2.2.1, utt.2.2.2.2.2.2.2.2.1, utt.2.2.2.2.2.2.2.2.2.1, utt.2.2.2.2.2.2.2.2.2.2.1, utt.2.2.2.2.2.2.2.2.2.2.2, ttt.1, ttt.2.1, ttt.2.2.1, ttt.2.2.2.1, ttt.2.2.2.2.1, ttt.2.2.2.2.2.1, ttt.2.2.2.2.2.2.1, ttt.2.2.2.2.2.2.2.1, ttt.2.2.2.2.2.2.2.2.1, ttt.2.2.2.2.2.2.2.2.2.1, ttt.2.2.2.2.2.2.2.2.2.2] <;> rfl

theorem readUF_unknown (m : Nat) (b : Bytes) (t : UInt8) (id : UInt16)
    (h : t ≠ UT.BOOL ∧ t ≠ UT.BYTE ∧ t ≠ UT.I16 ∧ t ≠ UT.I32 ∧ t ≠ UT.I64 ∧ t ≠ UT.DOUBLE ∧ t ≠ UT.STRING ∧
      t ≠ UT.SET ∧ t ≠ UT.LIST ∧ t ≠ UT.MAP ∧ t ≠ UT.STRUCT) :
    readUF (m+1) b t id = .err .unktype := by
  obtain ⟨h1, h2, h3, h4, h5, h6, h7, h8, h9, h10, h11⟩ := h
  simp [readUF, readNode, h1, h2, h3, h4, h5, h6, h7, h8, h9, h10, h11] <;> rfl

end Verif

/-
  Lemmas/MemWriterRun: writer histories.  `WStep A` = one step between two Flushes while the user keeps
  the region `A`: Malloc, WriteBinary, the user filling one of its OTHER regions, the environment, user
  allocations.  `WStepF` adds Flush and fills of any region.  Along every history the invariant holds
  (no fault), caller memory below its write limit is untouched, and with the cache disabled the pool is
  never called; along a Flush-free history every region stays a writable, pairwise disjoint part of a
  buffer that is not recycled, and nobody but its owner changes its bytes.
-/
import Verif.Lemmas.MemWriter
namespace Verif.Mem
open Verif Verif.Heap

abbrev WSt := MWr × Heap

/-- a user write through a region: at most `g.len` bytes at its start -/
def fillRegion (h : Heap) (g : Slice) (d : Bytes) : Heap := h.userWrite g.obj g.off d

inductive WStep (A : Slice) : WSt → WSt → Prop
  | malloc (w : MWr) (h : Heap) (n : Int) (hsz : n.toNat + w.buf.len < 2 ^ 64) :
      WStep A (w, h) ((w.malloc h n).2.1, (w.malloc h n).2.2)
  | writeBinary (w : MWr) (h : Heap) (bs : Slice) (hbs : Readable h bs) (hsz : bs.len + w.buf.len < 2 ^ 64) :
      WStep A (w, h) ((w.writeBinary h bs).2.1, (w.writeBinary h bs).2.2)
  | fill (w : MWr) (h : Heap) (g : Slice) (d : Bytes) (hg : g ∈ w.regions) (hd : d.length ≤ g.len)
      (hdis : g.Disjoint A) : WStep A (w, h) (w, fillRegion h g d)
  | env (w : MWr) (h h' : Heap) (he : Env h h') : WStep A (w, h) (w, h')
  | alloc (w : MWr) (h h' : Heap) (he : Extends h h') (hf : h'.faults = h.faults) (hev : h'.events = h.events) :
      WStep A (w, h) (w, h')

inductive WSteps (A : Slice) : WSt → WSt → Prop
  | refl (a : WSt) : WSteps A a a
  | cons {a b c : WSt} (s : WStep A a b) (t : WSteps A b c) : WSteps A a c

/-- any step of a history (fills of any region; Flush) -/
inductive WStepF : WSt → WSt → Prop
  | step {a b : WSt} (s : WStep Slice.nil a b) : WStepF a b
  | flush (w : MWr) (h : Heap) : WStepF (w, h) ((w.flush h).2.1, (w.flush h).2.2)

inductive WStepsF : WSt → WSt → Prop
  | refl (a : WSt) : WStepsF a a
  | cons {a b c : WSt} (s : WStepF a b) (t : WStepsF b c) : WStepsF a c

/-- what a step guarantees while region `A` is held -/
structure AOK (A : Slice) (w : MWr) (h : Heap) (w' : MWr) (h' : Heap) : Prop where
  inv : WInv w' h'
  keeps : Keeps h h'
  regs : ∀ g ∈ w.regions, g ∈ w'.regions
  same : ∀ p, A.off ≤ p → p < A.off + A.len → h'.byte? A.obj p = h.byte? A.obj p
  low : CallerLow h h'
  nopool : w.disableCache = true → h'.events = h.events
  dc : w'.disableCache = w.disableCache

theorem AOK.refl {A : Slice} {w : MWr} {h : Heap} (hi : WInv w h) : AOK A w h w h :=
  ⟨hi, Keeps.refl _, fun _ hg => hg, fun _ _ _ => rfl, CallerLow.refl _, fun _ => rfl, rfl⟩

theorem AOK.trans {A : Slice} {w1 w2 w3 : MWr} {h1 h2 h3 : Heap} (a : AOK A w1 h1 w2 h2) (b : AOK A w2 h2 w3 h3) :
    AOK A w1 h1 w3 h3 :=
  ⟨b.inv, a.keeps.trans b.keeps, fun g hg => b.regs g (a.regs g hg),
   fun p h1 h2 => (b.same p h1 h2).trans (a.same p h1 h2), a.low.trans b.low,
   fun hd => (b.nopool (by rw [a.dc]; exact hd)).trans (a.nopool hd), b.dc.trans a.dc⟩

/-- the positions of a region are protected -/
theorem region_prot {w : MWr} {h : Heap} (hi : WInv w h) (A : Slice) (hA : A ∈ w.regions) (p : Nat)
    (h1 : A.off ≤ p) (h2 : p < A.off + A.len) : WProt w h A.obj p := by
  rcases hi.reg_ok A hA with h0 | ⟨a, b, c⟩ | ⟨s, hs, ho⟩
  · omega
  · exact Or.inr (Or.inl ⟨a, b.symm, by omega⟩)
  · exact Or.inl ⟨s, hs, ho.symm⟩

theorem WStepOK.aok {A : Slice} {w w' : MWr} {h h' : Heap} (s : WStepOK w h w' h') (hi : WInv w h)
    (hA : A ∈ w.regions) : AOK A w h w' h' :=
  ⟨s.inv, s.keeps, s.regs, fun p h1 h2 => (s.frame A.obj p (region_prot hi A hA p h1 h2)).2, s.callerLow,
   s.nopool, s.dc⟩

theorem fill_aok {A : Slice} (w : MWr) (h : Heap) (g : Slice) (d : Bytes) (hi : WInv w h) (hg : g ∈ w.regions)
    (hd : d.length ≤ g.len) (hdis : g.Disjoint A) : AOK A w h w (fillRegion h g d) := by
  unfold fillRegion Heap.userWrite
  by_cases hd0 : d = []
  · subst hd0; rw [setData_nil]; exact AOK.refl hi
  · have hdpos : 0 < d.length := List.length_pos_iff.mpr hd0
    obtain ⟨x, hx, hb, hnf, hcl⟩ := hi.reg_w g hg (by omega)
    have hbnd : ∀ y, h.obj? g.obj = some y → g.off + d.length ≤ y.data.length := by
      intro y hy; rw [hx] at hy; cases hy; omega
    have hss := sameShape_setData h g.obj g.off d hbnd
    have hk := Keeps.of_sameShape hss
    refine ⟨hi.of_keeps hk (by simp [hi.nofault]), hk, fun _ hg' => hg', ?_, ?_, fun _ => rfl, rfl⟩
    · intro p h1 h2
      apply byte?_setData_out h g.obj g.off d A.obj p hbnd
      unfold Slice.Disjoint at hdis
      rcases hdis with h0 | h0 | h0 | h0 | h0
      · omega
      · omega
      · exact Or.inl (Ne.symm h0)
      · exact Or.inr (Or.inr (by omega))
      · exact Or.inr (Or.inl (by omega))
    · intro o y hy hc
      obtain ⟨y', hy', ho, hw, hl⟩ := hss.obj? o y hy
      refine ⟨y', hy', by rw [ho]; exact hc, hw, hl, fun p hp => ?_⟩
      have := byte?_setData_out h g.obj g.off d o p hbnd (by
        by_cases heq : o = g.obj
        · subst heq; rw [hx] at hy; cases hy
          exact Or.inr (Or.inl (by have := hcl hc; omega))
        · exact Or.inl heq)
      rw [byte?_of_obj? _ o p y' hy', byte?_of_obj? h o p y hy] at this
      exact this

theorem WStep.aok {A : Slice} {a b : WSt} (s : WStep A a b) (hi : WInv a.1 a.2) (hA : A ∈ a.1.regions) :
    AOK A a.1 a.2 b.1 b.2 := by
  cases s with
  | malloc w h n hsz => exact (wMalloc_ok w h n hi hsz).1.aok hi hA
  | writeBinary w h bs hbs hsz => exact (wWriteBinary_ok w h bs hi hbs hsz).aok hi hA
  | fill w h g d hg hd hdis => exact fill_aok w h g d hi hg hd hdis
  | env w h h' he => exact (hi.env he).aok hi hA
  | alloc w h h' he hf hev =>
    have hk := Keeps.of_extends he
    exact (⟨hi.of_keeps hk (by rw [hf]; exact hi.nofault), WFrame.of_extends hi he, hk, fun _ hg => hg,
      fun _ => hev, rfl⟩ : WStepOK w h w h').aok hi hA

theorem WSteps.aok {A : Slice} {a b : WSt} (t : WSteps A a b) (hi : WInv a.1 a.2) (hA : A ∈ a.1.regions) :
    AOK A a.1 a.2 b.1 b.2 := by
  induction t with
  | refl a => exact AOK.refl hi
  | cons s _ ih =>
    have := s.aok hi hA
    exact this.trans (ih this.inv (this.regs A hA))

/-- the same guarantees when no particular region is watched (`A = nil` has no position) -/
theorem WStep.aok_nil {a b : WSt} (s : WStep Slice.nil a b) (hi : WInv a.1 a.2) :
    AOK Slice.nil a.1 a.2 b.1 b.2 := by
  cases s with
  | malloc w h n hsz =>
    have := (wMalloc_ok w h n hi hsz).1
    exact ⟨this.inv, this.keeps, this.regs, fun p h1 h2 => by simp [Slice.nil] at h1 h2, this.callerLow,
      this.nopool, this.dc⟩
  | writeBinary w h bs hbs hsz =>
    have := wWriteBinary_ok w h bs hi hbs hsz
    exact ⟨this.inv, this.keeps, this.regs, fun p h1 h2 => by simp [Slice.nil] at h1 h2, this.callerLow,
      this.nopool, this.dc⟩
  | fill w h g d hg hd hdis => exact fill_aok w h g d hi hg hd hdis
  | env w h h' he =>
    have := hi.env he
    exact ⟨this.inv, this.keeps, this.regs, fun p h1 h2 => by simp [Slice.nil] at h1 h2, this.callerLow,
      this.nopool, this.dc⟩
  | alloc w h h' he hf hev =>
    have hk := Keeps.of_extends he
    have : WStepOK w h w h' := ⟨hi.of_keeps hk (by rw [hf]; exact hi.nofault), WFrame.of_extends hi he, hk,
      fun _ hg => hg, fun _ => hev, rfl⟩
    exact ⟨this.inv, this.keeps, this.regs, fun p h1 h2 => by simp [Slice.nil] at h1 h2, this.callerLow,
      this.nopool, this.dc⟩

/-- along every history (with Flushes): the invariant, caller memory below its write limit, the pool -/
theorem WStepsF.ok {a b : WSt} (t : WStepsF a b) (hi : WInv a.1 a.2) :
    WInv b.1 b.2 ∧ CallerLow a.2 b.2 ∧ (a.1.disableCache = true → b.2.events = a.2.events) ∧
    b.1.disableCache = a.1.disableCache := by
  induction t with
  | refl a => exact ⟨hi, CallerLow.refl _, fun _ => rfl, rfl⟩
  | cons s _ ih =>
    cases s with
    | step s =>
      have := s.aok_nil hi
      obtain ⟨i, l, e, d⟩ := ih this.inv
      exact ⟨i, this.low.trans l, fun hd => (e (by rw [this.dc]; exact hd)).trans (this.nopool hd), d.trans this.dc⟩
    | flush w h =>
      obtain ⟨f1, f2, f3, f4⟩ := wFlush_ok w h hi
      obtain ⟨i, l, e, d⟩ := ih f1
      exact ⟨i, f2.trans l, fun hd => (e (by rw [f4]; exact hd)).trans (f3 hd), d.trans f4⟩

/-! ## initial states -/

theorem WInv.newDefault (okLeft : Option Nat) (h : Heap) (hf : h.faults = []) : WInv (MWr.newDefault okLeft) h :=
  WInv.nilState _ h hf rfl rfl rfl

/-- NewBytesWriter on the caller's slice: everything below `off + len` is the caller's data (write
    limit), the spare capacity `[len:cap]` is what the writer may fill -/
theorem WInv.newBytes (target : Slice) (isNil : Bool) (h : Heap) (hf : h.faults = [])
    (hlen : target.len ≤ target.cap)
    (hb : 0 < target.cap → ∃ x, h.obj? target.obj = some x ∧ target.off + target.cap ≤ x.data.length ∧
      x.owner = .caller ∧ x.wfrom ≤ target.off + target.len) :
    WInv (MWr.newBytes target isNil) h where
  nofault := hf
  len_le := hlen
  nil_pend := fun _ => rfl
  buf_ok := fun hc => by
    obtain ⟨x, hx, hbd, hcl, hw⟩ := hb hc
    exact ⟨x, hx, hbd, ⟨fun _ => Or.inr hcl, fun hd => by simp [MWr.newBytes] at hd⟩, fun _ => ⟨rfl, hw⟩⟩
  pend_ok := fun s hs => by simp [MWr.newBytes] at hs
  pend_nodup := by simp [MWr.newBytes]
  pend_sorted := by simp [MWr.newBytes]
  reg_ok := fun g hg => by simp [MWr.newBytes] at hg
  reg_w := fun g hg => by simp [MWr.newBytes] at hg
  reg_disj := by simp [MWr.newBytes]

end Verif.Mem

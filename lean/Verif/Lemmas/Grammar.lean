/-
  Lemmas/Grammar: facts about the reference grammar `refLen` (Spec/Grammar.lean):
  monotonicity of the combinators, length bounds, monotonicity in the depth, and the two
  auxiliary acceptance disciplines of the implementations sandwiched between refLen d and refLen (d+1).
-/
import Verif.Spec.Grammar
namespace Verif

/-- pointwise order on partial length functions -/
def LeF (f g : Bytes → Option Nat) : Prop := ∀ b n, f b = some n → g b = some n

theorem LeF.refl (f : Bytes → Option Nat) : LeF f f := fun _ _ h => h
theorem LeF.trans {f g h : Bytes → Option Nat} (a : LeF f g) (b : LeF g h) : LeF f h :=
  fun x n hx => b x n (a x n hx)

theorem refN_mono {f g : Bytes → Option Nat} (h : LeF f g) : ∀ n, LeF (refN f n) (refN g n) := by
  intro n
  induction n with
  | zero => intro b k hk; simpa [refN] using hk
  | succ n ih =>
    intro b k hk
    simp only [refN] at hk ⊢
    cases hf : f b with
    | none => simp [hf] at hk
    | some a =>
      simp only [hf] at hk
      cases hr : refN f n (b.drop a) with
      | none => simp [hr] at hk
      | some r =>
        simp only [hr] at hk
        simp [h b a hf, ih _ _ hr, hk]

theorem refKV_mono {f g f' g' : Bytes → Option Nat} (h : LeF f g) (h' : LeF f' g') :
    ∀ n, LeF (refKV f f' n) (refKV g g' n) := by
  intro n
  induction n with
  | zero => intro b k hk; simpa [refKV] using hk
  | succ n ih =>
    intro b k hk
    simp only [refKV] at hk ⊢
    cases hf : f b with
    | none => simp [hf] at hk
    | some a =>
      simp only [hf] at hk
      cases hv : f' (b.drop a) with
      | none => simp [hv] at hk
      | some v =>
        simp only [hv] at hk
        cases hr : refKV f f' n (b.drop (a + v)) with
        | none => simp [hr] at hk
        | some r =>
          simp only [hr] at hk
          simp [h b a hf, h' _ v hv, ih _ _ hr, hk]

theorem refFields_mono {f g : UInt8 → Bytes → Option Nat} (h : ∀ t, LeF (f t) (g t)) :
    ∀ fuel, LeF (refFields f fuel) (refFields g fuel) := by
  intro fuel
  induction fuel with
  | zero => intro b k hk; simp [refFields] at hk
  | succ fuel ih =>
    intro b k hk
    cases b with
    | nil => simp [refFields] at hk
    | cons t rest =>
      simp only [refFields] at hk ⊢
      by_cases ht : t = 0
      · simpa [ht] using hk
      · simp only [ht, if_false] at hk ⊢
        by_cases hl : rest.length < 2
        · simp [hl] at hk
        · simp only [hl, if_false] at hk ⊢
          cases hf : f t (rest.drop 2) with
          | none => simp [hf] at hk
          | some a =>
            simp only [hf] at hk
            cases hr : refFields f fuel (rest.drop (2 + a)) with
            | none => simp [hr] at hk
            | some r =>
              simp only [hr] at hk
              simp [h t _ a hf, ih _ _ hr, hk]

theorem layer_mono {E E' : UInt8 → Bytes → Option Nat} (h : ∀ t, LeF (E t) (E' t)) (t : UInt8) :
    LeF (layer E t) (layer E' t) := by
  intro b n hb
  unfold layer at hb ⊢
  split
  · rename_i hf; simpa [hf] using hb
  · rename_i hf
    simp only [hf, if_false] at hb
    split
    · rename_i hs; simpa [hs] using hb
    · rename_i hs
      simp only [hs, if_false] at hb
      split
      · rename_i hst
        simp only [hst, if_true] at hb
        exact refFields_mono h _ b n hb
      · rename_i hst
        simp only [hst, if_false] at hb
        split
        · rename_i hl
          simp only [hl, if_true] at hb
          cases b with
          | nil => simp at hb
          | cons et rest =>
            simp only at hb ⊢
            split
            · rename_i hc
              simp only [hc] at hb
              cases hr : refN (E et) (rd32 rest) (rest.drop 4) with
              | none => simp [hr] at hb
              | some r =>
                simp [hr] at hb
                simp [refN_mono (h et) _ _ _ hr, hb]
            · rename_i hc; simp [hc] at hb
        · rename_i hl
          simp only [hl, if_false] at hb
          split
          · rename_i hm
            simp only [hm, if_true] at hb
            match b, hb with
            | [], hb => simp at hb
            | [_], hb => simp at hb
            | kt :: vt :: rest, hb =>
              simp only at hb ⊢
              split
              · rename_i hc
                simp only [hc] at hb
                cases hr : refKV (E kt) (E vt) (rd32 rest) (rest.drop 4) with
                | none => simp [hr] at hb
                | some r =>
                  simp [hr] at hb
                  simp [refKV_mono (h kt) (h vt) _ _ _ hr, hb]
              · rename_i hc; simp [hc] at hb
          · rename_i hm; simp [hm] at hb

/-! ## bounds: every value has at least one byte and fits in the input -/

def Good (f : Bytes → Option Nat) : Prop := ∀ b n, f b = some n → 1 ≤ n ∧ n ≤ b.length

theorem refN_le {f : Bytes → Option Nat} (h : Good f) : ∀ n b k, refN f n b = some k → k ≤ b.length := by
  intro n
  induction n with
  | zero => intro b k hk; simp [refN] at hk; omega
  | succ n ih =>
    intro b k hk
    simp only [refN] at hk
    cases hf : f b with
    | none => simp [hf] at hk
    | some a =>
      simp only [hf] at hk
      cases hr : refN f n (b.drop a) with
      | none => simp [hr] at hk
      | some r =>
        simp only [hr] at hk
        have h1 := h b a hf
        have h2 := ih _ _ hr
        simp at h2 hk
        omega

theorem refKV_le {f g : Bytes → Option Nat} (hf : Good f) (hg : Good g) :
    ∀ n b k, refKV f g n b = some k → k ≤ b.length := by
  intro n
  induction n with
  | zero => intro b k hk; simp [refKV] at hk; omega
  | succ n ih =>
    intro b k hk
    simp only [refKV] at hk
    cases h1 : f b with
    | none => simp [h1] at hk
    | some a =>
      simp only [h1] at hk
      cases h2 : g (b.drop a) with
      | none => simp [h2] at hk
      | some v =>
        simp only [h2] at hk
        cases hr : refKV f g n (b.drop (a + v)) with
        | none => simp [hr] at hk
        | some r =>
          simp only [hr] at hk
          have := hf b a h1
          have := hg _ v h2
          have := ih _ _ hr
          simp at *
          omega

theorem refFields_good {f : UInt8 → Bytes → Option Nat} (h : ∀ t, Good (f t)) :
    ∀ fuel, Good (refFields f fuel) := by
  intro fuel
  induction fuel with
  | zero => intro b k hk; simp [refFields] at hk
  | succ fuel ih =>
    intro b k hk
    cases b with
    | nil => simp [refFields] at hk
    | cons t rest =>
      simp only [refFields] at hk
      by_cases ht : t = 0
      · simp [ht] at hk; subst hk; simp
      · simp only [ht, if_false] at hk
        by_cases hl : rest.length < 2
        · simp [hl] at hk
        · simp only [hl, if_false] at hk
          cases hf : f t (rest.drop 2) with
          | none => simp [hf] at hk
          | some a =>
            simp only [hf] at hk
            cases hr : refFields f fuel (rest.drop (2 + a)) with
            | none => simp [hr] at hk
            | some r =>
              simp only [hr] at hk
              have := h t _ a hf
              have := ih _ _ hr
              simp at *
              omega

theorem refStr_good : Good refStr := by
  intro b n h
  unfold refStr at h
  split at h
  · simp at h; omega
  · simp at h

theorem fixedSize_le (t : UInt8) : fixedSize t ≤ 8 := by
  unfold fixedSize; repeat' split <;> try omega

theorem layer_good {E : UInt8 → Bytes → Option Nat} (ih : ∀ t, Good (E t)) (t : UInt8) :
    Good (layer E t) := by
  intro b n h
  unfold layer at h
  split at h
  · split at h
    · simp at h; omega
    · simp at h
  · split at h
    · exact refStr_good b n h
    · split at h
      · exact refFields_good ih _ b n h
      · split at h
        · cases b with
          | nil => simp at h
          | cons et rest =>
            simp only at h
            split at h
            · cases hr : refN (E et) (rd32 rest) (rest.drop 4) with
              | none => simp [hr] at h
              | some r =>
                simp [hr] at h
                have := refN_le (ih et) _ _ _ hr
                simp at this ⊢
                omega
            · simp at h
        · split at h
          · match b, h with
            | [], h => simp at h
            | [_], h => simp at h
            | kt :: vt :: rest, h =>
              simp only at h
              split at h
              · cases hr : refKV (E kt) (E vt) (rd32 rest) (rest.drop 4) with
                | none => simp [hr] at h
                | some r =>
                  simp [hr] at h
                  have := refKV_le (ih kt) (ih vt) _ _ _ hr
                  simp at this ⊢
                  omega
              · simp at h
          · simp at h

theorem refLen_good : ∀ d t, Good (refLen d t) := by
  intro d
  induction d with
  | zero => intro t b n h; simp [refLen] at h
  | succ d ih => intro t; simp only [refLen]; exact layer_good ih t

/-- a reported extent never exceeds the input, and is never empty -/
theorem refLen_le {d t b n} (h : refLen d t b = some n) : n ≤ b.length := (refLen_good d t b n h).2
theorem refLen_pos {d t b n} (h : refLen d t b = some n) : 1 ≤ n := (refLen_good d t b n h).1

/-- deeper budgets accept at least as much, with the same extent -/
theorem refLen_mono_succ : ∀ d t, LeF (refLen d t) (refLen (d+1) t) := by
  intro d
  induction d with
  | zero => intro t b n h; simp [refLen] at h
  | succ d ih =>
    intro t b n h
    simp only [refLen] at h ⊢
    exact layer_mono ih t b n h

theorem refLen_mono {d d' : Nat} (hd : d ≤ d') (t : UInt8) : LeF (refLen d t) (refLen d' t) := by
  induction hd with
  | refl => exact LeF.refl _
  | step _ ih => exact LeF.trans ih (refLen_mono_succ _ t)

/-! ## the acceptance discipline of Binary.Skip: fixed-size and string elements are measured in line
    and do not consume recursion depth -/

def gElem (f : UInt8 → Bytes → Option Nat) (t : UInt8) (b : Bytes) : Option Nat :=
  if fixedSize t > 0 then (if fixedSize t ≤ b.length then some (fixedSize t) else none)
  else if t = TT.STRING then refStr b
  else f t b

/-- exactly what Binary.Skip accepts with `maxdepth = d` (proved in Lemmas/SkipBin.lean) -/
def refBin : Nat → UInt8 → Bytes → Option Nat
  | 0, _, _ => none
  | d+1, t, b => layer (gElem (refBin d)) t b

theorem fixedSize_STRING : fixedSize TT.STRING = 0 := by decide

theorem gElem_layer_eq (E : UInt8 → Bytes → Option Nat) (t : UInt8) (b : Bytes) :
    gElem (layer E) t b = layer E t b := by
  unfold gElem
  by_cases hf : fixedSize t > 0
  · simp [hf, layer]
  · by_cases hs : t = TT.STRING
    · subst hs; simp [layer, fixedSize_STRING]
    · simp [hf, hs]

theorem gElem_mono {f g : UInt8 → Bytes → Option Nat} (h : ∀ t, LeF (f t) (g t)) (t : UInt8) :
    LeF (gElem f t) (gElem g t) := by
  intro b n hb
  unfold gElem at hb ⊢
  split
  · rename_i hf; simpa [hf] using hb
  · rename_i hf
    simp only [hf, if_false] at hb
    split
    · rename_i hs; simpa [hs] using hb
    · rename_i hs; simp only [hs, if_false] at hb; exact h t b n hb

theorem gElem_good {f : UInt8 → Bytes → Option Nat} (h : ∀ t, Good (f t)) (t : UInt8) : Good (gElem f t) := by
  intro b n hb
  unfold gElem at hb
  split at hb
  · split at hb
    · simp at hb; omega
    · simp at hb
  · split at hb
    · exact refStr_good b n hb
    · exact h t b n hb

theorem refBin_good : ∀ d t, Good (refBin d t) := by
  intro d
  induction d with
  | zero => intro t b n h; simp [refBin] at h
  | succ d ih => intro t; simp only [refBin]; exact layer_good (gElem_good ih) t

/-- everything within nesting d is accepted by Binary.Skip with maxdepth d … -/
theorem refLen_le_refBin : ∀ d t, LeF (refLen d t) (refBin d t) := by
  intro d
  induction d with
  | zero => intro t b n h; simp [refLen] at h
  | succ d ih =>
    intro t
    simp only [refLen, refBin]
    apply layer_mono
    intro t' b n h
    cases d with
    | zero => simp [refLen] at h
    | succ d' =>
      simp only [refLen] at h
      rw [← gElem_layer_eq] at h
      exact gElem_mono ih t' b n (by simpa [refLen] using h)

/-- … and everything Binary.Skip accepts with maxdepth d lies within nesting d+1 -/
theorem refBin_le_refLen : ∀ d t, LeF (refBin d t) (refLen (d+1) t) := by
  intro d
  induction d with
  | zero => intro t b n h; simp [refBin] at h
  | succ d ih =>
    intro t
    simp only [refBin]
    show LeF (layer (gElem (refBin d)) t) (layer (refLen (d+1)) t)
    apply layer_mono
    intro t' b n h
    have h1 := gElem_mono ih t' b n h
    simp only [refLen] at h1
    rw [gElem_layer_eq] at h1
    simpa [refLen] using h1

end Verif

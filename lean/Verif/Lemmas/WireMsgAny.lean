/- Lemmas/WireMsgAny: UnmarshalFastMsg on EVERY input: the EXCEPTION path; names too long for int32. -/
import Verif.Lemmas.WireMsgSafe
import Verif.Lemmas.WireRd
namespace Verif.Wire

theorem msgbegin_ok_le (b : Bytes) (r : Bytes × Int × Int × Nat) (h : binReadMessageBegin b = .ok r) :
    r.2.2.2 ≤ b.length := by
  have hs := binRead_sound .msg b
  simp only [binRead, h, mapOk, Sound] at hs
  exact hs

/-- UnmarshalFastMsg after a header of type EXCEPTION, on EVERY input -/
theorem unmarshal_exception_any {α} (C : Codec α) (b : Bytes) (s : α) (method : Bytes) (typ seq : Int) (i : Nat)
    (h : binReadMessageBegin b = .ok (method, typ, seq, i)) (ht : typ = ((Facts.mEXCEPTION : Nat) : Int)) :
    ∃ e, unmarshalFastMsg C b s = .ok ⟨method, seq, some e, s⟩ ∧
      ((∃ ex n, appExRead ⟨Facts.aeUNKNOWN, []⟩ (b.drop i) = (ex, .ok n) ∧ e = .appEx ex.t ex.m) ∨
       (∃ ex er, appExRead ⟨Facts.aeUNKNOWN, []⟩ (b.drop i) = (ex, .err er) ∧ e = .t er)) := by
  have hi := msgbegin_ok_le b _ h
  unfold unmarshalFastMsg
  simp only [h, if_neg (show ¬ i > b.length by simpa using hi), if_pos ht]
  generalize hr : appExRead ⟨Facts.aeUNKNOWN, []⟩ (b.drop i) = res
  obtain ⟨ex, x⟩ := res
  have hsafe := appExRead_safe ⟨Facts.aeUNKNOWN, []⟩ (b.drop i)
  rw [hr] at hsafe
  rcases hsafe with ⟨n, hn, _⟩ | ⟨er, her⟩
  · simp only at hn; subst hn
    exact ⟨_, rfl, Or.inl ⟨ex, n, rfl, rfl⟩⟩
  · simp only at her; subst her
    exact ⟨_, rfl, Or.inr ⟨ex, er, rfl, rfl⟩⟩


/-- the payload bytes of an ApplicationException in the spec's vocabulary -/
theorem appExEncM_eq_enc (e : AppEx) (ht : inI32 e.t) :
    appExEncM e = enc (.fieldBegin 11 1) ++ enc (.str e.m) ++ enc (.fieldBegin 8 2) ++ enc (.i32 e.t) ++ enc .fieldStop := by
  unfold appExEncM
  rw [enc_eq_encM (.fieldBegin 11 1) (by decide), enc_eq_encM (.str e.m) trivial,
    enc_eq_encM (.fieldBegin 8 2) (by decide), enc_eq_encM (.i32 e.t) ht, enc_eq_encM .fieldStop trivial]

/-- a name of 2^31 … 2^32-1 bytes: the writers emit its length as uint32, which the readers see as a
    negative int32: the buffer reader rejects the header with INVALID_DATA -/
theorem msg_long_name_rejected (name rest : Bytes) (typ seq : Int) (h1 : 2147483648 ≤ name.length)
    (h2 : name.length < 4294967296) :
    binReadMessageBegin (be32 (msgHeader typ) ++ be32 name.length ++ name ++ be32 (ofInt 32 seq) ++ rest) =
      .err (errShort, 0) := by
  have hh : msgHeader typ < 4294967296 := by rw [msgHeader_eq]; have := msgType16_lt typ; omega
  generalize hb : be32 (msgHeader typ) ++ be32 name.length ++ name ++ be32 (ofInt 32 seq) ++ rest = b
  have e0 : b = be32 (msgHeader typ) ++ (be32 name.length ++ (name ++ be32 (ofInt 32 seq) ++ rest)) := by
    subst hb; simp
  have hr : rd32 b = msgHeader typ := by rw [e0, rd32_be32 _ hh]
  have hlen : b.length = 12 + name.length + rest.length := by subst hb; simp; omega
  have d4 : b.drop 4 = be32 name.length ++ (name ++ be32 (ofInt 32 seq) ++ rest) := by
    rw [e0, List.drop_left' (by simp)]
  have r4 : rd32 (b.drop 4) = name.length := by rw [d4, rd32_be32 _ h2]
  have hv : ¬ (rd32 b / 65536 ≠ 0x8001) := by rw [hr, msgHeader_eq]; have := msgType16_lt typ; omega
  rw [binReadMessageBegin_char, if_neg (by omega), if_neg hv, if_neg (by omega), r4, if_pos (by omega)]


end Verif.Wire

/-
  Lemmas/WriterList: list facts for the writer proofs (C05):
  `overwrite` (store bytes at an offset), `gslice` (Go's c[lo:hi]), `Match` (real bytes vs. spec bytes).
  Everything is characterised through `l[i]?`, so the content lemmas are closed by
  `List.ext_getElem?` + case splits + `omega`.
-/
import Verif.Model.Writer
import Verif.Spec.WriterLog
namespace Verif
open WLog

/-- close a goal made of nested `if`s over linear conditions whose leaves are `l[i]?` terms -/
macro "ifs_omega" : tactic =>
  `(tactic| (repeat' split) <;> first | rfl | omega | (congr 1; omega) | (exfalso; omega))

/-! ## overwrite -/

theorem getElem?_overwrite {α} (c : List α) (off : Nat) (bs : List α)
    (h : off + bs.length ≤ c.length) (i : Nat) :
    (overwrite c off bs)[i]? =
      if i < off then c[i]? else if i < off + bs.length then bs[i - off]? else c[i]? := by
  unfold overwrite
  simp only [List.getElem?_append, List.length_append, List.length_take, List.getElem?_take,
    List.getElem?_drop]
  have : min off c.length = off := by omega
  rw [this]
  by_cases h1 : i < off
  · have : i < off + bs.length := by omega
    simp [h1, this]
  · by_cases h2 : i < off + bs.length
    · simp [h1, h2]
    · simp [h1, h2]; congr 1; omega

theorem length_overwrite {α} (c : List α) (off : Nat) (bs : List α)
    (h : off + bs.length ≤ c.length) : (overwrite c off bs).length = c.length := by
  unfold overwrite; simp; omega

theorem overwrite_nil {α} (c : List α) (off : Nat) : overwrite c off [] = c := by
  unfold overwrite; simp

theorem overwrite_append_left {α} (A B : List α) (y : Nat) (bs : List α)
    (h : y + bs.length ≤ A.length) : overwrite (A ++ B) y bs = overwrite A y bs ++ B := by
  apply List.ext_getElem?
  intro i
  rw [getElem?_overwrite _ _ _ (by simp; omega), List.getElem?_append, List.getElem?_append,
    getElem?_overwrite _ _ _ h, length_overwrite _ _ _ h]
  ifs_omega

theorem overwrite_append_right {α} (A B : List α) (y : Nat) (bs : List α)
    (h : y + bs.length ≤ B.length) :
    overwrite (A ++ B) (A.length + y) bs = A ++ overwrite B y bs := by
  apply List.ext_getElem?
  intro i
  rw [getElem?_overwrite _ _ _ (by simp; omega), List.getElem?_append, List.getElem?_append,
    getElem?_overwrite _ _ _ h]
  ifs_omega

/-- the model's `hwrite` stores with `overwrite` -/
theorem hwrite_apply (heap : Nat → Bytes) (o off : Nat) (bs : Bytes) (i : Nat) :
    hwrite heap o off bs i = if i = o then overwrite (heap o) off bs else heap i := rfl

theorem hwrite_same (heap : Nat → Bytes) (o off : Nat) (bs : Bytes) :
    hwrite heap o off bs o = overwrite (heap o) off bs := by simp [hwrite_apply]

theorem hwrite_other (heap : Nat → Bytes) (o off : Nat) (bs : Bytes) (i : Nat) (h : i ≠ o) :
    hwrite heap o off bs i = heap i := by simp [hwrite_apply, h]

theorem hwrite_nil (heap : Nat → Bytes) (o off : Nat) : hwrite heap o off [] = heap := by
  funext i; simp only [hwrite_apply, overwrite_nil]; split <;> simp_all

/-! ## gslice -/

theorem getElem?_gslice (c : Bytes) (lo hi i : Nat) :
    (gslice c lo hi)[i]? = if lo + i < hi then c[lo + i]? else none := by
  unfold gslice; simp [List.getElem?_drop, List.getElem?_take]

theorem length_gslice (c : Bytes) (lo hi : Nat) (h : hi ≤ c.length) :
    (gslice c lo hi).length = hi - lo := by
  unfold gslice; simp; omega

theorem gslice_empty (c : Bytes) (lo hi : Nat) (h : hi ≤ lo) : gslice c lo hi = [] := by
  unfold gslice; simp; omega

theorem gslice_zero_length (c : Bytes) : gslice c 0 c.length = c := by
  unfold gslice; simp

theorem gslice_split (c : Bytes) (lo mid hi : Nat) (h1 : lo ≤ mid) (h2 : mid ≤ hi) (h3 : hi ≤ c.length) :
    gslice c lo hi = gslice c lo mid ++ gslice c mid hi := by
  apply List.ext_getElem?
  intro i
  rw [List.getElem?_append, length_gslice _ _ _ (by omega)]
  simp only [getElem?_gslice]
  ifs_omega

/-- the write lies inside the slice -/
theorem gslice_overwrite_in (c : Bytes) (x : Nat) (bs : Bytes) (lo hi : Nat)
    (h1 : lo ≤ x) (h2 : x + bs.length ≤ hi) (h3 : hi ≤ c.length) :
    gslice (overwrite c x bs) lo hi = overwrite (gslice c lo hi) (x - lo) bs := by
  apply List.ext_getElem?
  intro i
  rw [getElem?_gslice, getElem?_overwrite _ _ _ (by omega),
    getElem?_overwrite _ _ _ (by rw [length_gslice _ _ _ h3]; omega), getElem?_gslice]
  ifs_omega

/-- the write lies outside the slice -/
theorem gslice_overwrite_out (c : Bytes) (x : Nat) (bs : Bytes) (lo hi : Nat)
    (h1 : x + bs.length ≤ lo ∨ hi ≤ x) (h3 : x + bs.length ≤ c.length) :
    gslice (overwrite c x bs) lo hi = gslice c lo hi := by
  apply List.ext_getElem?
  intro i
  rw [getElem?_gslice, getElem?_overwrite _ _ _ h3, getElem?_gslice]
  ifs_omega

/-- reading back exactly what was stored -/
theorem gslice_overwrite_exact (c : Bytes) (x : Nat) (bs : Bytes) (h : x + bs.length ≤ c.length) :
    gslice (overwrite c x bs) x (x + bs.length) = bs := by
  apply List.ext_getElem?
  intro i
  rw [getElem?_gslice, getElem?_overwrite _ _ _ h]
  have e : x + i - x = i := by omega
  by_cases hi : i < bs.length
  · have h1 : ¬ (x + i < x) := by omega
    have h2 : x + i < x + bs.length := by omega
    simp only [h1, h2, if_true, if_false, e]
  · have h2 : ¬ (x + i < x + bs.length) := by omega
    simp only [h2, if_false]
    exact (List.getElem?_eq_none (by omega)).symm

/-! ## Match -/

theorem Match.length_eq : ∀ {m : Bytes} {s : SBytes}, Match m s → m.length = s.length
  | [], [], _ => rfl
  | _ :: m, _ :: s, h => by simp [Match.length_eq (m := m) (s := s) h.2]
  | [], _ :: _, h => by simp [Match] at h
  | _ :: _, [], h => by simp [Match] at h

theorem match_iff (m : Bytes) (s : SBytes) :
    Match m s ↔ m.length = s.length ∧ ∀ (i : Nat) (x : UInt8), s[i]? = some (some x) → m[i]? = some x := by
  induction m generalizing s with
  | nil =>
    cases s with
    | nil => simp [Match]
    | cons o s => simp [Match]
  | cons b m ih =>
    cases s with
    | nil => simp [Match]
    | cons o s =>
      simp only [Match, ih, List.length_cons]
      constructor
      · rintro ⟨ho, hl, hx⟩
        refine ⟨by omega, ?_⟩
        intro i x hi
        cases i with
        | zero =>
          simp at hi ⊢
          rcases ho with ho | ho
          · simp [ho] at hi
          · rw [ho] at hi; injection hi with hi; first | exact hi.symm | skip
        | succ i => simp at hi ⊢; exact hx i x hi
      · rintro ⟨hl, hx⟩
        refine ⟨?_, by omega, ?_⟩
        · cases o with
          | none => left; rfl
          | some y =>
            right
            have := hx 0 y (by simp)
            simp at this; rw [this]
        · intro i x hi
          have := hx (i + 1) x (by simpa using hi)
          simpa using this

theorem match_map_some (m : Bytes) : Match m (m.map some) := by
  induction m with
  | nil => simp [Match]
  | cons b m ih => simp [Match, ih]

theorem match_replicate_none (m : Bytes) : Match m (List.replicate m.length none) := by
  induction m with
  | nil => simp [Match]
  | cons b m ih => simp [Match, List.replicate_succ, ih]

theorem match_append {m1 m2 : Bytes} {s1 s2 : SBytes} (h1 : Match m1 s1) (h2 : Match m2 s2) :
    Match (m1 ++ m2) (s1 ++ s2) := by
  induction m1 generalizing s1 with
  | nil =>
    cases s1 with
    | nil => simpa using h2
    | cons o s => simp [Match] at h1
  | cons b m ih =>
    cases s1 with
    | nil => simp [Match] at h1
    | cons o s => exact ⟨h1.1, ih h1.2⟩

theorem match_nil : Match [] [] := by simp [Match]

theorem match_overwrite {m : Bytes} {s : SBytes} (h : Match m s) (p : Nat) (bs : Bytes)
    (hp : p + bs.length ≤ m.length) :
    Match (overwrite m p bs) (overwrite s p (bs.map some)) := by
  rw [match_iff] at h ⊢
  obtain ⟨hl, hx⟩ := h
  refine ⟨?_, ?_⟩
  · rw [length_overwrite _ _ _ hp, length_overwrite _ _ _ (by simp; omega)]; exact hl
  · intro i x
    rw [getElem?_overwrite _ _ _ hp, getElem?_overwrite _ _ _ (by simp; omega)]
    simp only [List.length_map]
    by_cases h1 : i < p
    · simp only [h1, if_true]; exact hx i x
    · by_cases h2 : i < p + bs.length
      · simp only [h1, h2, if_true, if_false, List.getElem?_map]
        intro hh
        cases hb : bs[i - p]? with
        | none => simp [hb] at hh
        | some y => simp [hb] at hh; simp [hh]
      · simp only [h1, h2, if_false]; exact hx i x

theorem matchB_iff (m : Bytes) (s : SBytes) : matchB m s = true ↔ Match m s := by
  induction m generalizing s with
  | nil => cases s <;> simp [matchB, Match]
  | cons b m ih =>
    cases s with
    | nil => simp [matchB, Match]
    | cons o s =>
      simp only [matchB, Match, Bool.and_eq_true, ih, Bool.or_eq_true, beq_iff_eq]

/-- nothing unspecified: the real bytes are exactly the spec bytes -/
theorem match_all_some {m : Bytes} {s : SBytes} (h : Match m s) (t : Bytes) (hs : s = t.map some) :
    m = t := by
  subst hs
  induction m generalizing t with
  | nil => cases t with
    | nil => rfl
    | cons _ _ => simp [Match] at h
  | cons b m ih =>
    cases t with
    | nil => simp [Match] at h
    | cons c t =>
      simp only [List.map_cons, Match] at h
      obtain ⟨h1, h2⟩ := h
      rcases h1 with h1 | h1
      · simp at h1
      · injection h1 with h1; rw [h1, ih t h2]

end Verif

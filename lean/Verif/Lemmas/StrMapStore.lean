/-
  Lemmas/StrMapStore: internal/strstore — Load packs `len32 ++ bytes` per string and returns the
  offsets; Get at such an offset returns exactly that string (no oob load, no slice panic).
  Str2Str: the ids stored in the StrMap lead back to the loaded values.
-/
import Verif.Lemmas.StrMapLoad
namespace Verif.SMap
open Verif

theorem le32_length (n : Nat) : (le32 n).length = 4 := rfl

theorem rdle32_le32 (n : Nat) (h : n < 4294967296) (r : Bytes) : rdle32 (le32 n ++ r) = n := by
  simp [le32, rdle32, UInt8.toNat_ofNat']; omega

/-- the only fact about the regenerated `strlenSize` that is used: the entry header has room for
    the uint32 length -/
theorem strlen_ge : u32Size ≤ Facts.strlenSize := by decide

theorem hdr_length (n : Nat) : (hdr n).length = Facts.strlenSize := by
  have := strlen_ge
  unfold u32Size at this
  simp [hdr, le32_length, u32Size]; omega

theorem rdle32_hdr (n : Nat) (h : n < 4294967296) (r : Bytes) : rdle32 (hdr n ++ r) = n := by
  unfold hdr; rw [List.append_assoc]; exact rdle32_le32 n h _

/-- Get at the offset of a packed entry -/
theorem storeGet_at (pre v post : Bytes) (hv : v.length ≤ maxU32) :
    storeGet ⟨pre ++ (hdr (v.length % two32) ++ v ++ post)⟩ (pre.length : Int) = .ok v := by
  have hge := strlen_ge
  have hmod : v.length % two32 = v.length := Nat.mod_eq_of_lt (by unfold maxU32 at hv; unfold two32; omega)
  unfold storeGet
  simp only [hmod, Int.toNat_natCast]
  have hlen : (pre ++ (hdr v.length ++ v ++ post)).length =
      pre.length + (Facts.strlenSize + v.length + post.length) := by
    simp [hdr_length]; omega
  have c1 : ¬ ((pre.length : Int) < 0 ∨ (pre.length : Int) ≥ ((pre ++ (hdr v.length ++ v ++ post)).length : Nat)) := by
    rw [hlen]; unfold u32Size at hge; omega
  have c2 : ¬ (pre.length + u32Size > (pre ++ (hdr v.length ++ v ++ post)).length) := by rw [hlen]; omega
  have hrd : rdle32 ((pre ++ (hdr v.length ++ v ++ post)).drop pre.length) = v.length := by
    rw [List.drop_left, List.append_assoc]
    exact rdle32_hdr _ (by unfold maxU32 at hv; omega) _
  simp only [c1, c2, if_false, hrd]
  have c3 : ¬ (pre.length + Facts.strlenSize + v.length > (pre ++ (hdr v.length ++ v ++ post)).length) := by
    rw [hlen]; omega
  simp only [c3, if_false]
  congr 1
  have : pre ++ (hdr v.length ++ v ++ post) = (pre ++ hdr v.length) ++ (v ++ post) := by
    simp [List.append_assoc]
  rw [this]
  have hl : pre.length + Facts.strlenSize = (pre ++ hdr v.length).length := by simp [hdr_length]
  rw [hl, List.drop_left, List.take_left]

theorem packLoop_length (vv : List Bytes) (off : Nat) : (packLoop vv off).2.length = vv.length := by
  induction vv generalizing off with
  | nil => rfl
  | cons v vv ih => simp [packLoop, ih]

/-- looking a key up in (keys zip offsets) and reading the store there is looking it up in
    (keys zip values) -/
theorem lookup_pack (s : Bytes) (kk vv : List Bytes) (off : Nat) (pre post : Bytes)
    (hlen : kk.length = vv.length) (hv : ∀ v ∈ vv, v.length ≤ maxU32) (hoff : pre.length = off) :
    (∀ id, List.lookup s (kk.zip (packLoop vv off).2) = some id →
        ∃ v, List.lookup s (kk.zip vv) = some v ∧
          storeGet ⟨pre ++ ((packLoop vv off).1 ++ post)⟩ id = .ok v) ∧
    (List.lookup s (kk.zip (packLoop vv off).2) = none → List.lookup s (kk.zip vv) = none) := by
  induction kk generalizing vv off pre with
  | nil => simp [List.lookup]
  | cons k kk ih =>
    cases vv with
    | nil => simp at hlen
    | cons v vv =>
      have hv0 : v.length ≤ maxU32 := hv v List.mem_cons_self
      have hv' : ∀ x ∈ vv, x.length ≤ maxU32 := fun x hx => hv x (List.mem_cons_of_mem _ hx)
      have hlen' : kk.length = vv.length := by simpa using hlen
      simp only [packLoop, List.zip_cons_cons, List.lookup]
      cases hsk : s == k with
      | true =>
        simp only
        constructor
        · intro id hid
          injection hid with hid; subst hid
          refine ⟨v, rfl, ?_⟩
          rw [← hoff]
          have := storeGet_at pre v ((packLoop vv (pre.length + Facts.strlenSize + v.length)).1 ++ post) hv0
          simpa [List.append_assoc] using this
        · intro h; cases h
      | false =>
        simp only
        have ih' := ih vv (off + Facts.strlenSize + v.length) (pre ++ (hdr (v.length % two32) ++ v)) hlen' hv'
          (by simp [hdr_length, hoff]; omega)
        simpa [List.append_assoc] using ih'

end Verif.SMap

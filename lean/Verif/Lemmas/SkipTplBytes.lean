/-
  Lemmas/SkipTplBytes: the BytesSkipDecoder back end is a cursor; hence BytesSkipDecoder.Next agrees
  exactly with refTpl 64: it returns exactly the value's bytes and keeps exactly the rest.
-/
import Verif.Lemmas.SkipTpl
namespace Verif

theorem bytesBackend_cursor (b0 : Bytes) :
    Cursor bytesBackend (fun s => s.b.drop s.n) (fun s => s.b = b0 ∧ s.n ≤ b0.length) := by
  refine ⟨?_, ?_, ?_⟩
  · intro s k hp hk
    obtain ⟨hb, hn⟩ := hp
    simp only [List.length_drop] at hk
    refine ⟨{ s with n := s.n + k }, ?_, ?_, ?_⟩
    · simp only [bytesBackend]
      have : s.b.length ≥ s.n + k := by rw [hb] at hk ⊢; omega
      simp [this]
    · simp [List.drop_drop]
    · exact ⟨hb, by rw [hb] at hk; show s.n + k ≤ b0.length; omega⟩
  · intro s k hp hk
    obtain ⟨hb, hn⟩ := hp
    simp only [List.length_drop] at hk
    have : ¬ s.b.length ≥ s.n + k := by rw [hb] at hk ⊢; omega
    exact ⟨.raw .eof, by simp [bytesBackend, this]⟩
  · intro s hp; simp [bytesBackend]

/-- BytesSkipDecoder.Next(t) on a fresh decoder over b -/
theorem bytesDecNext_exact (b : Bytes) (t : UInt8) :
    match refTpl Facts.defaultRecursionDepth t b with
    | some k => bytesDecNext ⟨b, 0⟩ t = .ok (b.take k, ⟨b.drop k, 0⟩)
    | none => ∃ e, bytesDecNext ⟨b, 0⟩ t = .err e := by
  have h := skipTplAt_tm (bytesBackend_cursor b) Facts.defaultRecursionDepth t ⟨b, 0⟩ ⟨rfl, Nat.zero_le _⟩
  unfold TM at h
  simp only [List.drop_zero] at h
  cases hr : refTpl Facts.defaultRecursionDepth t b with
  | none =>
    rw [hr] at h; obtain ⟨e, he⟩ := h
    exact ⟨e, by simp [bytesDecNext, he]⟩
  | some k =>
    rw [hr] at h
    obtain ⟨s1, hx, hrem, hb, hn⟩ := h
    have hk := (refTpl_good _ t b k hr).2
    have hlen := congrArg List.length hrem
    simp only [List.length_drop, hb] at hlen
    have hn1 : s1.n = k := by omega
    simp only [bytesDecNext, hx, Out.bind_eq, Out.bind_ok]
    have : ¬ s1.n > s1.b.length := by rw [hb]; omega
    simp [this, hb, hn1, hk]

end Verif

/-
  Lemmas/ReaderSteady: (B) steady sources.  `Steady M script slen z` (Spec/Cursor) promises every
  remaining stream byte before any error and without `M` consecutive empty reads, whatever room
  (≥ 1) is offered.  Consequences: the script always delivers `Enough`; the promise survives every
  read loop; so along any history every request that fits into the rest of the stream is served.
-/
import Verif.Lemmas.ReaderLive
import Verif.Lemmas.ReaderRefine
namespace Verif

theorem steady_zero (M : Nat) (s : List Resp) (z : Nat) : Steady M s 0 z = true := by
  cases s <;> simp [Steady]

theorem steady_mono_len (M : Nat) (s : List Resp) (a b z : Nat)
    (h : Steady M s a z = true) (hb : b ≤ a) : Steady M s b z = true := by
  induction s generalizing a b z with
  | nil =>
    cases b with
    | zero => exact steady_zero _ _ _
    | succ b' =>
      cases a with
      | zero => omega
      | succ a' => simp [Steady] at h
  | cons x rest ih =>
    cases b with
    | zero => exact steady_zero _ _ _
    | succ b' =>
      cases a with
      | zero => omega
      | succ a' =>
        simp only [Steady] at h ⊢
        split
        · rename_i hk
          simp only [hk, if_true, Bool.and_eq_true] at h
          simp only [Bool.and_eq_true]
          exact ⟨h.1, ih _ _ _ h.2 (by omega)⟩
        · rename_i hk
          simp only [hk, if_false, Bool.and_eq_true, Bool.or_eq_true, decide_eq_true_eq] at h
          simp only [Bool.and_eq_true, Bool.or_eq_true, decide_eq_true_eq]
          refine ⟨?_, ih _ _ _ h.2 (by omega)⟩
          rcases h.1 with h1 | h1
          · exact Or.inl h1
          · exact Or.inr (by omega)

theorem steady_mono_z (M : Nat) (s : List Resp) (slen z z' : Nat)
    (h : Steady M s slen z = true) (hz : z' ≤ z) : Steady M s slen z' = true := by
  induction s generalizing slen z z' with
  | nil => cases slen <;> simp_all [Steady]
  | cons x rest ih =>
    cases slen with
    | zero => exact steady_zero _ _ _
    | succ k =>
      simp only [Steady] at h ⊢
      split
      · rename_i hk
        simp only [hk, if_true, Bool.and_eq_true, decide_eq_true_eq] at h
        simp only [Bool.and_eq_true, decide_eq_true_eq]
        exact ⟨⟨h.1.1, by omega⟩, ih _ _ _ h.2 (by omega)⟩
      · rename_i hk
        simp only [hk, if_false] at h
        exact h

/-- a steady script delivers any need that the stream can cover -/
theorem steady_enough (M : Nat) (s : List Resp) (need z slen : Nat)
    (h : Steady M s slen z = true) (h0 : 0 < need) (hle : need ≤ slen) (hz : z < M) :
    Enough M s need z slen = true := by
  induction s generalizing need z slen with
  | nil =>
    cases slen with
    | zero => omega
    | succ k => simp [Steady] at h
  | cons x rest ih =>
    cases slen with
    | zero => omega
    | succ k =>
      have hzM : ¬ z ≥ M := by omega
      simp only [Steady] at h
      unfold Enough
      simp only [hzM, if_false]
      by_cases hk : x.k = 0
      · simp only [hk, if_true, Bool.and_eq_true, decide_eq_true_eq] at h
        obtain ⟨⟨he, hz1⟩, hst⟩ := h
        have hd : min (min x.k need) (k+1) = 0 := by omega
        have hes : x.err.isSome = false := by
          cases hx : x.err with
          | none => rfl
          | some e => rw [hx] at he; simp at he
        have hn : ¬ 0 ≥ need := by omega
        simp only [hd, hn, if_false, hes, Bool.false_eq_true, Nat.sub_zero, Nat.lt_irrefl]
        exact ih _ _ _ hst h0 hle hz1
      · simp only [hk, if_false, Bool.and_eq_true, Bool.or_eq_true, decide_eq_true_eq] at h
        obtain ⟨he, hst⟩ := h
        generalize hd : min (min x.k need) (k+1) = d
        have hd1 : 1 ≤ d := by omega
        by_cases hge : d ≥ need
        · simp [hge]
        · have hk0 : ¬ k = 0 := by omega
          have hes : x.err.isSome = false := by
            rcases he with he | he
            · cases hx : x.err with
              | none => rfl
              | some e => rw [hx] at he; simp at he
            · exact absurd he hk0
          have hpos : d > 0 := by omega
          simp only [hge, if_false, hes, Bool.false_eq_true, hpos, if_true]
          exact ih _ _ _ (steady_mono_len M rest k (k + 1 - d) 0 hst (by omega)) (by omega) (by omega)
            (by omega)

/-- the source is live: everything has been handed over, or no error has been seen and the rest of
    the script is steady -/
def Rd.Live (r : Rd) : Prop :=
  r.src.stream = [] ∨
  (r.err = none ∧ Steady Facts.maxConsecutiveEmptyReads r.src.script r.src.stream.length 0 = true)

/-- the read loop keeps a live source live -/
theorem readLoop_live (fuel i : Nat) (r : Rd) (n m : Nat) (r' : Rd)
    (hfit : n ≤ r.cap - r.ri) (hri : r.ri ≤ r.buf.length) (hneed : ¬ n ≤ r.buf.length - r.ri)
    (hnone : r.err = none)
    (hP : r.src.stream = [] ∨ (i < Facts.maxConsecutiveEmptyReads ∧
            Steady Facts.maxConsecutiveEmptyReads r.src.script r.src.stream.length i = true))
    (h : Rd.readLoop fuel i r n = some (m, r')) : r'.Live := by
  induction fuel generalizing i r with
  | zero => simp [Rd.readLoop] at h
  | succ f ih =>
    unfold Rd.readLoop at h
    split at h
    · rename_i hge
      simp only [Option.some.injEq, Prod.mk.injEq] at h
      obtain ⟨_, hr⟩ := h; subst hr
      left
      rcases hP with hP | ⟨hi, _⟩
      · exact hP
      · omega
    · rename_i hlt
      cases hsc : r.src.script with
      | nil =>
        rw [Src.read_nil _ _ hsc] at h
        simp only [Option.some.injEq, Prod.mk.injEq] at h
        obtain ⟨_, hr⟩ := h; subst hr
        left
        rcases hP with hP | ⟨_, hst⟩
        · exact hP
        · rw [hsc] at hst
          cases hl : r.src.stream.length with
          | zero => exact List.eq_nil_of_length_eq_zero hl
          | succ k => rw [hl] at hst; simp [Steady] at hst
      | cons x rest =>
        rw [Src.read_cons _ _ x rest hsc] at h
        simp only [] at h
        generalize hd : min (min x.k (r.cap - r.buf.length)) r.src.stream.length = d at h
        have hdle : d ≤ r.src.stream.length := by omega
        have hdl : (r.src.stream.take d).length = d := by
          simp only [List.length_take]; omega
        have hdrop : (r.src.stream.drop d).length = r.src.stream.length - d := by simp
        have hroom : 1 ≤ r.cap - r.buf.length := by omega
        -- the new source state is live again (for the counter the loop continues with)
        have hnew : r.src.stream.drop d = [] ∨
            (x.err = none ∧ (if d > 0 then 0 else i + 1) < Facts.maxConsecutiveEmptyReads ∧
              Steady Facts.maxConsecutiveEmptyReads rest (r.src.stream.length - d)
                (if d > 0 then 0 else i + 1) = true) := by
          rcases hP with hP | ⟨hi, hst⟩
          · left; rw [hP]; simp
          · rw [hsc] at hst
            cases hl : r.src.stream.length with
            | zero => left; rw [List.eq_nil_of_length_eq_zero hl]; simp
            | succ k =>
              rw [hl] at hst
              simp only [Steady] at hst
              by_cases hk : x.k = 0
              · simp only [hk, if_true, Bool.and_eq_true, decide_eq_true_eq] at hst
                obtain ⟨⟨he, hz1⟩, hst⟩ := hst
                have hd0 : d = 0 := by omega
                right
                refine ⟨?_, ?_, ?_⟩
                · cases hx : x.err with
                  | none => rfl
                  | some e => rw [hx] at he; simp at he
                · simp [hd0]; exact hz1
                · simp [hd0]; exact hst
              · simp only [hk, if_false, Bool.and_eq_true, Bool.or_eq_true, decide_eq_true_eq] at hst
                obtain ⟨he, hst⟩ := hst
                have hd1 : d ≥ 1 := by omega
                have hpos : d > 0 := by omega
                rcases he with he | he
                · right
                  refine ⟨?_, ?_, ?_⟩
                  · cases hx : x.err with
                    | none => rfl
                    | some e => rw [hx] at he; simp at he
                  · simp [hpos]; omega
                  · simp only [hpos, if_true]
                    exact steady_mono_len _ rest k _ 0 hst (by omega)
                · left
                  apply List.eq_nil_of_length_eq_zero
                  rw [hdrop]; omega
        clear hd hP
        cases hxe : x.err with
        | some e =>
          simp only [hxe] at h
          simp only [Option.some.injEq, Prod.mk.injEq] at h
          obtain ⟨_, hr⟩ := h; subst hr
          rcases hnew with hnew | ⟨hx, _⟩
          · left; exact hnew
          · rw [hxe] at hx; simp at hx
        | none =>
          simp only [hxe] at h
          simp only [List.length_append, hdl] at h
          split at h
          · simp only [Option.some.injEq, Prod.mk.injEq] at h
            obtain ⟨_, hr⟩ := h; subst hr
            rcases hnew with hnew | ⟨_, _, hst⟩
            · left; exact hnew
            · right
              refine ⟨hnone, ?_⟩
              simp only [hdrop]
              exact steady_mono_z _ _ _ _ 0 hst (by omega)
          · rename_i hunsat
            split at h
            · rename_i hpos
              refine ih 0 _ (by simpa using hfit) (by simp only [List.length_append, hdl]; omega)
                (by simp only [List.length_append, hdl]; omega) (by exact hnone) ?_ h
              simp only [hdrop]
              rcases hnew with hnew | ⟨_, hz, hst⟩
              · left; exact hnew
              · right; simp only [hpos, if_true] at hz hst; exact ⟨hz, hst⟩
            · rename_i hzero
              refine ih (i+1) _ (by simpa using hfit) (by simp only [List.length_append, hdl]; omega)
                (by simp only [List.length_append, hdl]; omega) (by exact hnone) ?_ h
              simp only [hdrop]
              rcases hnew with hnew | ⟨_, hz, hst⟩
              · left; exact hnew
              · right; simp only [hzero, if_false] at hz hst; exact ⟨hz, hst⟩

theorem maxEmpty_pos : 0 < Facts.maxConsecutiveEmptyReads := by decide

/-- `Enough` is only ever true when the stream can cover the need -/
theorem enough_le (M : Nat) (s : List Resp) (need z slen : Nat) (h0 : 0 < need)
    (h : Enough M s need z slen = true) : need ≤ slen := by
  induction s generalizing need z slen with
  | nil => simp [Enough] at h
  | cons x rest ih =>
    unfold Enough at h
    split at h
    · simp at h
    · split at h
      · omega
      · split at h
        · simp at h
        · rename_i hlt _
          have := ih _ _ _ (by omega) h
          omega

theorem remaining_length (r : Rd) :
    r.remaining.length = (r.buf.length - r.ri) + r.src.stream.length := by
  unfold Rd.remaining; simp

/-- whoever can be served asks for no more than what is left -/
theorem canServe_le (r : Rd) (n : Nat) (h : r.canServe n = true) :
    n ≤ r.remaining.length := by
  rw [remaining_length r]
  unfold Rd.canServe at h
  simp only [Bool.or_eq_true, decide_eq_true_eq, Bool.and_eq_true] at h
  rcases h with h | ⟨_, h⟩
  · omega
  · by_cases h0 : 0 < n - (r.buf.length - r.ri)
    · have := enough_le _ _ _ _ _ h0 h; omega
    · omega

/-- over a live source, whatever fits into what is left can be served -/
theorem live_canServe (r : Rd) (n : Nat) (hl : r.Live)
    (hn : n ≤ r.remaining.length) : r.canServe n = true := by
  rw [remaining_length r] at hn
  unfold Rd.canServe
  simp only [Bool.or_eq_true, decide_eq_true_eq, Bool.and_eq_true]
  by_cases hfast : n ≤ r.buf.length - r.ri
  · exact Or.inl hfast
  · right
    rcases hl with hl | ⟨he, hst⟩
    · rw [hl] at hn; simp at hn; omega
    · refine ⟨by rw [he]; rfl, ?_⟩
      exact steady_enough _ _ _ _ _ hst (by omega) (by omega) maxEmpty_pos

theorem acquire_keeps_live (r : Rd) (n m : Nat) (r' : Rd) (hinv : Inv r) (hs : r.Small n)
    (hl : r.Live) (h : r.acquire n = some (m, r')) : r'.Live := by
  unfold Rd.acquire at h
  split at h
  · simp only [Option.some.injEq, Prod.mk.injEq] at h
    obtain ⟨_, hr⟩ := h; subst hr; exact hl
  · rename_i hslow
    unfold Rd.acquireSlow at h
    split at h
    · simp only [Option.some.injEq, Prod.mk.injEq] at h
      obtain ⟨_, hr⟩ := h; subst hr; exact hl
    · rename_i herr
      have hnone : r.err = none := by
        cases he : r.err with
        | none => rfl
        | some e => rw [he] at herr; simp at herr
      simp only [] at h
      have hp := prepare_spec r n hinv hs
      have hri := hinv.ri_le
      refine readLoop_live _ 0 _ n m r' hp.fits (by rw [hp.ri, hp.buf]; exact hri)
        (by rw [hp.ri, hp.buf]; exact hslow) (by rw [hp.err]; exact hnone) ?_ h
      rw [hp.src]
      rcases hl with hl | ⟨_, hst⟩
      · exact Or.inl hl
      · exact Or.inr ⟨maxEmpty_pos, hst⟩

theorem Rd.Live.frame {r r' : Rd} (h : r.Live) (he : r'.err = r.err) (hs : r'.src = r.src) :
    r'.Live := by
  unfold Rd.Live at *; rw [he, hs]; exact h

theorem live_newDefault (S : Bytes) (script : List Resp)
    (h : Steady Facts.maxConsecutiveEmptyReads script S.length 0 = true) :
    (Rd.newDefault ⟨S, script⟩).Live := Or.inr ⟨rfl, h⟩

theorem live_newBytes (data : Bytes) (cap : Nat) : (Rd.newBytes data cap).Live := by
  unfold Rd.newBytes; split <;> exact Or.inl rfl

/-- ONE STEP over a live source: the source stays live, and the report passes the spec's
    liveness check `liveOk` at the contract's cursor -/
theorem step_live (c : Cur) (r : Rd) (op : ROp) (habs : Abs c r) (hs : r.Small op.size)
    (hl : r.Live) : (r.step op).2.Live ∧ liveOk c op (r.step op).1 = true := by
  have hinv := habs.inv
  have hri := hinv.ri_le
  have hrest := habs.rest
  cases op with
  | next n =>
    have hs : r.Small n.toNat := hs
    rcases next_cases r n hinv hs with ⟨hneg, hn⟩ | ⟨hpos, m, r1, hacq, ha, hc⟩
    · exact ⟨by simpa [Rd.step, hn] using hl, by simp [Rd.step, hn, RdRes.toRes, liveOk, hneg]⟩
    · have h1 := acquire_keeps_live r _ m r1 hinv hs hl hacq
      have hlive := acquire_live r _ m r1 hinv hs hacq
      rcases hc with ⟨hgt, hn⟩ | ⟨hge, hn⟩
      · refine ⟨by simpa [Rd.step, hn] using h1, ?_⟩
        have : n.toNat > c.rest.length := by
          rw [hrest]
          by_cases hfit : n.toNat ≤ r.remaining.length
          · have := hlive.mpr (live_canServe r _ hl hfit); omega
          · omega
        simp [Rd.step, hn, RdRes.toRes, liveOk, this]
      · exact ⟨by simp only [Rd.step, hn]; exact h1.frame rfl rfl,
          by simp [Rd.step, hn, RdRes.toRes, liveOk]⟩
  | peek n =>
    have hs : r.Small n.toNat := hs
    rcases peek_cases r n hinv hs with ⟨hneg, hn⟩ | ⟨hpos, m, r1, hacq, ha, hc⟩
    · exact ⟨by simpa [Rd.step, hn] using hl, by simp [Rd.step, hn, RdRes.toRes, liveOk, hneg]⟩
    · have h1 := acquire_keeps_live r _ m r1 hinv hs hl hacq
      have hlive := acquire_live r _ m r1 hinv hs hacq
      rcases hc with ⟨hgt, hn⟩ | ⟨hge, hn⟩
      · refine ⟨by simpa [Rd.step, hn] using h1, ?_⟩
        have : n.toNat > c.rest.length := by
          rw [hrest]
          by_cases hfit : n.toNat ≤ r.remaining.length
          · have := hlive.mpr (live_canServe r _ hl hfit); omega
          · omega
        simp [Rd.step, hn, RdRes.toRes, liveOk, this]
      · exact ⟨by simpa [Rd.step, hn] using h1, by simp [Rd.step, hn, RdRes.toRes, liveOk]⟩
  | skip n =>
    have hs : r.Small n.toNat := hs
    rcases skip_cases r n hinv hs with ⟨hneg, hn⟩ | ⟨hpos, m, r1, hacq, ha, hc⟩
    · exact ⟨by simpa [Rd.step, hn] using hl, by simp [Rd.step, hn, RdRes.toRes, liveOk, hneg]⟩
    · have h1 := acquire_keeps_live r _ m r1 hinv hs hl hacq
      have hlive := acquire_live r _ m r1 hinv hs hacq
      rcases hc with ⟨hgt, hn⟩ | ⟨hge, hn⟩
      · refine ⟨by simpa [Rd.step, hn] using h1, ?_⟩
        have : n.toNat > c.rest.length := by
          rw [hrest]
          by_cases hfit : n.toNat ≤ r.remaining.length
          · have := hlive.mpr (live_canServe r _ hl hfit); omega
          · omega
        simp [Rd.step, hn, RdRes.toRes, liveOk, this]
      · exact ⟨by simp only [Rd.step, hn]; exact h1.frame rfl rfl,
          by simp [Rd.step, hn, RdRes.toRes, liveOk]⟩
  | readBinary k =>
    have hs : r.Small k := hs
    obtain ⟨m, r1, hacq, ha, hn⟩ := readBinary_cases r k hinv hs
    have h1 := acquire_keeps_live r _ m r1 hinv hs hl hacq
    have hlive := acquire_live r _ m r1 hinv hs hacq
    refine ⟨by simp only [Rd.step, hn]; exact h1.frame rfl rfl, ?_⟩
    have hrem : r1.remaining = r.remaining := ha.remaining hri
    have : min m k = min k c.rest.length := by
      rw [hrest]
      by_cases hfit : k ≤ r.remaining.length
      · have := hlive.mpr (live_canServe r _ hl hfit); omega
      · have hgt : k > m := by
          by_cases hkm : k ≤ m
          · have := canServe_le r k (hlive.mp hkm); omega
          · omega
        obtain ⟨he, hm⟩ := ha.short hgt
        have hstr : r1.src.stream = [] := by
          rcases h1 with h1 | ⟨h1, _⟩
          · exact h1
          · exact absurd h1 he
        have hl1 := remaining_length r1
        rw [hstr, hrem] at hl1
        simp only [List.length_nil, Nat.add_zero] at hl1
        omega
    simp [Rd.step, hn, liveOk, this]
  | release e =>
    have := release_frame r
    exact ⟨by simpa [Rd.step, Rd.releaseE] using hl.frame this.1 this.2, by simp [liveOk]⟩
  | readLen =>
    exact ⟨by simpa [Rd.step] using hl, by simp [liveOk]⟩

end Verif

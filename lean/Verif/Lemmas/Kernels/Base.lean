/-
  Lemmas/Kernels/Base: helpers for the kernel-equality lemmas (Tie A, translated integer kernels).

  `Verif/Gen/Kernels.lean` is regenerated from the Go source on every run: each `k_<name>` is the
  mechanical translation of one straight-line integer expression of /repo into `BitVec` operations.
  The files in this directory prove every `k_<name>` equal to the function (or the inline formula) the
  hand-written models use for the same piece of code, so that a changed arithmetic detail in the
  source breaks a proof obligation here.  Core only.
-/
import Verif.Gen.Kernels
import Verif.Base.Bytes
namespace Verif.Kernels
open Verif

/-- the bytes of an append-style kernel as model bytes -/
def toBytes (l : List (BitVec 8)) : Bytes := l.map UInt8.ofBitVec

/-- a byte with value `n mod 256` is the model's `UInt8.ofNat n` (Go's `byte(n)`) -/
theorem u8_eq (b : BitVec 8) (n : Nat) (h : b.toNat = n % 256) : UInt8.ofBitVec b = UInt8.ofNat n := by
  apply UInt8.toNat_inj.mp
  simp [UInt8.toNat_ofNat', h]

/-- the models carry signed Go integers as `Int`; their two's complement is the bit pattern -/
theorem ofInt_toInt (w : Nat) (v : BitVec w) : ofInt w v.toInt = v.toNat := by
  unfold ofInt
  rw [BitVec.toInt_eq_toNat_bmod, Int.bmod_emod]
  have := v.isLt
  rw [Int.emod_eq_of_lt (by omega) (by exact_mod_cast this)]
  simp

/-- four bytes OR-ed at their big-endian positions (after the `uint32` conversions) add up -/
theorem or_be32 (a c d e : Nat) (ha : a < 256) (hc : c < 256) (hd : d < 256) (he : e < 256) :
    e % 2 ^ 32 ||| (d % 2 ^ 32) <<< 8 % 2 ^ 32 ||| (c % 2 ^ 32) <<< 16 % 2 ^ 32 ||| (a % 2 ^ 32) <<< 24 % 2 ^ 32
      = a * 16777216 + c * 65536 + d * 256 + e := by
  have e1 : e % 2 ^ 32 = e := Nat.mod_eq_of_lt (by omega)
  have e2 : (d % 2 ^ 32) <<< 8 % 2 ^ 32 = d <<< 8 := by
    rw [Nat.mod_eq_of_lt (by omega : d < 2 ^ 32), Nat.mod_eq_of_lt]; rw [Nat.shiftLeft_eq]; omega
  have e3 : (c % 2 ^ 32) <<< 16 % 2 ^ 32 = c <<< 16 := by
    rw [Nat.mod_eq_of_lt (by omega : c < 2 ^ 32), Nat.mod_eq_of_lt]; rw [Nat.shiftLeft_eq]; omega
  have e4 : (a % 2 ^ 32) <<< 24 % 2 ^ 32 = a <<< 24 := by
    rw [Nat.mod_eq_of_lt (by omega : a < 2 ^ 32), Nat.mod_eq_of_lt]; rw [Nat.shiftLeft_eq]; omega
  rw [e1, e2, e3, e4]
  have h1 : e ||| d <<< 8 = d <<< 8 + e := by
    rw [Nat.or_comm]; exact (Nat.shiftLeft_add_eq_or_of_lt (by omega) _).symm
  have h2 : d <<< 8 + e ||| c <<< 16 = c <<< 16 + (d <<< 8 + e) := by
    rw [Nat.or_comm]; refine (Nat.shiftLeft_add_eq_or_of_lt ?_ _).symm; rw [Nat.shiftLeft_eq]; omega
  have h3 : c <<< 16 + (d <<< 8 + e) ||| a <<< 24 = a <<< 24 + (c <<< 16 + (d <<< 8 + e)) := by
    rw [Nat.or_comm]; refine (Nat.shiftLeft_add_eq_or_of_lt ?_ _).symm; simp only [Nat.shiftLeft_eq]; omega
  rw [h1, h2, h3]; simp only [Nat.shiftLeft_eq]; omega

/-- Go's `%` on signed integers truncates (`Int.tmod`); by 4, in terms `omega` understands -/
theorem tmod4 (a : Int) : (0 ≤ a → a.tmod 4 = a % 4) ∧ (a < 0 → a.tmod 4 = -((-a) % 4)) := by
  constructor
  · intro h; exact Int.tmod_eq_emod_of_nonneg h
  · intro h
    have : a = -(-a) := by omega
    rw [this, Int.neg_tmod, Int.tmod_eq_emod_of_nonneg (by omega)]; simp

/-- on non-negative operands Go's signed `%` is the remainder of the values -/
theorem srem_nonneg (a b : BitVec 64) (ha : a.toNat < 2 ^ 63) (hb : b.toNat < 2 ^ 63) :
    (BitVec.srem a b).toNat = a.toNat % b.toNat := by
  have hma : a.msb = false := by rw [BitVec.msb_eq_decide]; simp; omega
  have hmb : b.msb = false := by rw [BitVec.msb_eq_decide]; simp; omega
  simp [BitVec.srem_eq, hma, hmb]

end Verif.Kernels

/-
  Lemmas/Kernels/Wire (C01): the translated kernels of protocol/thrift's append helpers, `p2i32` and
  the message-envelope word equal the functions of Model/Wire.lean and Model/Skip.lean.
-/
import Verif.Lemmas.Kernels.Base
import Verif.Model.Wire
import Verif.Model.Skip
namespace Verif.Kernels
open Verif Verif.Wire

/-! ## (a) append helpers: the model's appenders append exactly the kernel's bytes -/

/-- `appendUint32(buf, v)` — Model/Wire `aU32` -/
theorem appendUint32_eq (buf : Bytes) (v : BitVec 32) :
    aU32 buf v.toNat = buf ++ toBytes (k_appendUint32 v) := by
  simp only [aU32, k_appendUint32, toBytes, List.map]
  congr 1
  repeat (first | rfl | (congr 1; · (symm; apply u8_eq; simp [BitVec.toNat_setWidth, BitVec.toNat_ushiftRight, Nat.shiftRight_eq_div_pow])))

/-- the same bytes are `Base/Bytes.be32` (what `putU32` stores and `rd32` reads back) -/
theorem appendUint32_be32 (v : BitVec 32) : toBytes (k_appendUint32 v) = be32 v.toNat := by
  have := appendUint32_eq [] v
  simpa [aU32, be32] using this.symm

/-- `appendUint64(buf, v)` — Model/Wire `aU64` -/
theorem appendUint64_eq (buf : Bytes) (v : BitVec 64) :
    aU64 buf v.toNat = buf ++ toBytes (k_appendUint64 v) := by
  simp only [aU64, k_appendUint64, toBytes, List.map]
  congr 1
  repeat (first | rfl | (congr 1; · (symm; apply u8_eq; simp [BitVec.toNat_setWidth, BitVec.toNat_ushiftRight, Nat.shiftRight_eq_div_pow])))

/-- `Binary.AppendI16(buf, v)` — Model/Wire `aI16` (the model carries `v` as an `Int`) -/
theorem AppendI16_eq (buf : Bytes) (v : BitVec 16) :
    aI16 buf v.toInt = buf ++ toBytes (k_AppendI16 v) := by
  simp only [aI16, k_AppendI16, toBytes, List.map, ofInt_toInt]
  congr 1
  repeat (first | rfl | (congr 1; · (symm; apply u8_eq; simp [BitVec.toNat_setWidth, BitVec.toNat_ushiftRight, Nat.shiftRight_eq_div_pow])))

/-- `Binary.AppendByte(buf, v)` — Model/Wire `aByte` -/
theorem AppendByte_eq (buf : Bytes) (v : BitVec 8) :
    aByte buf v.toInt = buf ++ toBytes (k_AppendByte v) := by
  simp only [aByte, k_AppendByte, toBytes, List.map, ofInt_toInt]
  congr 2
  symm; apply u8_eq; have := v.isLt; omega

/-- `Binary.AppendFieldBegin(buf, typeID, id)` — Model/Wire `aFieldBegin`; `id>>8` is an arithmetic
    shift of an int16 (the model's floor division of the `Int`) -/
theorem AppendFieldBegin_eq (buf : Bytes) (t : UInt8) (id : BitVec 16) :
    aFieldBegin buf t id.toInt = buf ++ toBytes (k_AppendFieldBegin t.toBitVec id) := by
  have h : id.toInt / 256 = (BitVec.sshiftRight id 8).toInt := by
    rw [BitVec.toInt_sshiftRight, Int.shiftRight_eq_div_pow]; rfl
  simp only [aFieldBegin, k_AppendFieldBegin, toBytes, List.map, h, ofInt_toInt]
  congr 1

/-! ## (b) p2i32 -/

/-- `p2i32(p)` on the four bytes it loads — the value Model/Skip `loadI32` computes -/
theorem p2i32_eq (a c d e : UInt8) :
    toI32 (a.toNat * 16777216 + c.toNat * 65536 + d.toNat * 256 + e.toNat)
      = (k_p2i32 a.toBitVec c.toBitVec d.toBitVec e.toBitVec).toInt := by
  have ha := a.toNat_lt; have hc := c.toNat_lt; have hd := d.toNat_lt; have he := e.toNat_lt
  have hn : (k_p2i32 a.toBitVec c.toBitVec d.toBitVec e.toBitVec).toNat
      = a.toNat * 16777216 + c.toNat * 65536 + d.toNat * 256 + e.toNat := by
    simp only [k_p2i32, BitVec.toNat_or, BitVec.toNat_shiftLeft, BitVec.toNat_setWidth, UInt8.toNat_toBitVec]
    exact or_be32 _ _ _ _ (by omega) (by omega) (by omega) (by omega)
  rw [BitVec.toInt_eq_toNat_cond, hn]
  unfold toI32
  split <;> split <;> omega

/-- Model/Skip `loadI32` is four loads followed by the translated kernel -/
theorem loadI32_kernel (b : Bytes) (i : Nat) :
    loadI32 b i = (do
      let a ← load b i
      let c ← load b (i + 1)
      let d ← load b (i + 2)
      let e ← load b (i + 3)
      pure (k_p2i32 a.toBitVec c.toBitVec d.toBitVec e.toBitVec).toInt) := by
  simp only [loadI32, p2i32_eq]

/-! ## (d) message envelope -/

/-- first word of `Binary.WriteMessageBegin` — Model/Wire `msgHeader` -/
theorem msgWord_Write_eq (t : BitVec 32) : (k_msgWord_Write t).toNat = msgHeader t.toInt := by
  first
    | (simp [k_msgWord_Write, msgHeader, ofInt_toInt, Facts.msgVersion1, Facts.msgTypeMask]; done)
    | (unfold k_msgWord_Write; rw [BitVec.or_comm]; simp [msgHeader, ofInt_toInt, Facts.msgVersion1, Facts.msgTypeMask])  -- operands of `|` swapped in the source

/-- first word of `Binary.AppendMessageBegin` -/
theorem msgWord_Append_eq (t : BitVec 32) : (k_msgWord_Append t).toNat = msgHeader t.toInt := by
  first
    | (simp [k_msgWord_Append, msgHeader, ofInt_toInt, Facts.msgVersion1, Facts.msgTypeMask]; done)
    | (unfold k_msgWord_Append; rw [BitVec.or_comm]; simp [msgHeader, ofInt_toInt, Facts.msgVersion1, Facts.msgTypeMask])  -- operands of `|` swapped in the source

/-- first word of `(*BufferWriter).WriteMessageBegin` -/
theorem msgWord_BufferWriter_eq (t : BitVec 32) :
    (k_msgWord_BufferWriter t).toNat = msgHeader t.toInt := by
  first
    | (simp [k_msgWord_BufferWriter, msgHeader, ofInt_toInt, Facts.msgVersion1, Facts.msgTypeMask]; done)
    | (unfold k_msgWord_BufferWriter; rw [BitVec.or_comm]; simp [msgHeader, ofInt_toInt, Facts.msgVersion1, Facts.msgTypeMask])  -- operands of `|` swapped in the source

/-- `header&msgVersionMask != msgVersion1` of `Binary.ReadMessageBegin` — the guard of Model/Wire
    `binReadMessageBegin` -/
theorem msgBadVersion_Read_eq (h : BitVec 32) :
    k_msgBadVersion_Read h = true ↔ h.toNat &&& Facts.msgVersionMask ≠ Facts.msgVersion1 := by
  first
    | (simp [k_msgBadVersion_Read, Facts.msgVersionMask, Facts.msgVersion1, ← BitVec.toNat_inj]; done)
    | (unfold k_msgBadVersion_Read; rw [bne_comm]; simp [Facts.msgVersionMask, Facts.msgVersion1, ← BitVec.toNat_inj])  -- operands of the comparison swapped in the source

/-- `header & msgTypeMask` of `Binary.ReadMessageBegin` -/
theorem msgType_Read_eq (h : BitVec 32) :
    (k_msgType_Read h).toNat = h.toNat &&& Facts.msgTypeMask := by
  simp [k_msgType_Read, Facts.msgTypeMask]

/-- `uint32(header)&msgVersionMask != msgVersion1` of `(*BufferReader).ReadMessageBegin` (header is an
    int32 there; Model/Wire `brReadMessageBegin` converts with `ofInt 32`) -/
theorem msgBadVersion_BufferReader_eq (h : BitVec 32) :
    k_msgBadVersion_BufferReader h = true ↔
      ofInt 32 h.toInt &&& Facts.msgVersionMask ≠ Facts.msgVersion1 := by
  first
    | (simp [ofInt_toInt, k_msgBadVersion_BufferReader, Facts.msgVersionMask, Facts.msgVersion1, ← BitVec.toNat_inj]; done)
    | (unfold k_msgBadVersion_BufferReader; rw [bne_comm]; simp [ofInt_toInt, Facts.msgVersionMask, Facts.msgVersion1, ← BitVec.toNat_inj])  -- operands swapped

/-- `uint32(header) & msgTypeMask` of `(*BufferReader).ReadMessageBegin` -/
theorem msgType_BufferReader_eq (h : BitVec 32) :
    (k_msgType_BufferReader h).toNat = ofInt 32 h.toInt &&& Facts.msgTypeMask := by
  simp [ofInt_toInt, k_msgType_BufferReader, Facts.msgTypeMask]

/-! ## concrete instances (the kernels compute; sign handling is visible) -/
example : toBytes (k_appendUint32 0x01020304#32) = [1, 2, 3, 4] := by decide
example : toBytes (k_AppendFieldBegin 11#8 (-2 : BitVec 16)) = [11, 0xff, 0xfe] := by decide
example : (k_p2i32 0xff#8 0xff#8 0xff#8 0xfe#8).toInt = -2 := by decide
example : k_msgWord_Write 1#32 = 0x80010001#32 := by decide
example : k_msgWord_Write 0xffff0002#32 = 0x80010002#32 := by decide   -- the type mask applies
example : k_msgBadVersion_Read 0x80010001#32 = false ∧ k_msgBadVersion_Read 0x80020001#32 = true := by decide

end Verif.Kernels

/-
  Lemmas/Kernels/Fc (C11): the switch tag `uint32(fid)<<8 | uint32(ftyp)` of the generated FastRead
  methods, translated from the source, is the `fieldKey` of Model/FastCodec.lean (both conversions
  sign-extend: fid is an int16, ftyp an int8), and therefore selects exactly the IDL's fields.
-/
import Verif.Lemmas.Kernels.Base
import Verif.Lemmas.FcKey
namespace Verif.Kernels
open Verif

/-- `uint32(x)` for an int16 `x` — Model/FastCodec `sext16` -/
theorem sext16_eq (x : BitVec 16) : (BitVec.signExtend 32 x).toNat = sext16 x.toNat := by
  have := x.isLt
  rw [BitVec.toNat_signExtend, BitVec.msb_eq_decide]
  simp only [BitVec.toNat_setWidth, sext16]
  simp only [decide_eq_true_eq]
  split <;> split <;> omega

/-- `uint32(t)` for an int8 `t` — Model/FastCodec `sext8` -/
theorem sext8_eq (x : BitVec 8) : (BitVec.signExtend 32 x).toNat = sext8 (UInt8.ofBitVec x) := by
  have := x.isLt
  rw [BitVec.toNat_signExtend, BitVec.msb_eq_decide]
  simp only [BitVec.toNat_setWidth, sext8, UInt8.toNat_ofBitVec]
  simp only [decide_eq_true_eq]
  split <;> split <;> omega

/-- the dispatch key of `(*Base).FastRead`, for all 65536 × 256 (id, type) pairs -/
theorem fastReadKey_Base_eq (fid : BitVec 16) (ftyp : BitVec 8) :
    (k_fastReadKey_Base fid ftyp).toNat = fieldKey fid.toNat (UInt8.ofBitVec ftyp) := by
  simp only [k_fastReadKey_Base, fieldKey, BitVec.toNat_or, BitVec.toNat_shiftLeft, sext16_eq, sext8_eq,
    Nat.shiftLeft_eq]

/-- the dispatch key of `(*BaseResp).FastRead` -/
theorem fastReadKey_BaseResp_eq (fid : BitVec 16) (ftyp : BitVec 8) :
    (k_fastReadKey_BaseResp fid ftyp).toNat = fieldKey fid.toNat (UInt8.ofBitVec ftyp) := by
  simp only [k_fastReadKey_BaseResp, fieldKey, BitVec.toNat_or, BitVec.toNat_shiftLeft, sext16_eq, sext8_eq,
    Nat.shiftLeft_eq]

/-- the regenerated `case` constants, looked up with the translated key, select exactly the fields of
    the IDL (composition with `caseIdx_base`, which C11's `key_inj_base` rests on) -/
theorem caseIdx_base_kernel (fid : BitVec 16) (ftyp : BitVec 8) :
    caseIdx Facts.fastReadKeysBase ((k_fastReadKey_Base fid ftyp).toNat : Int) 0 =
      if fid.toNat = 1 ∧ UInt8.ofBitVec ftyp = 11 then some 0
      else if fid.toNat = 2 ∧ UInt8.ofBitVec ftyp = 11 then some 1
      else if fid.toNat = 3 ∧ UInt8.ofBitVec ftyp = 11 then some 2
      else if fid.toNat = 6 ∧ UInt8.ofBitVec ftyp = 13 then some 3
      else none := by
  rw [fastReadKey_Base_eq]; exact caseIdx_base fid.toNat _ fid.isLt

theorem caseIdx_resp_kernel (fid : BitVec 16) (ftyp : BitVec 8) :
    caseIdx Facts.fastReadKeysBaseResp ((k_fastReadKey_BaseResp fid ftyp).toNat : Int) 0 =
      if fid.toNat = 1 ∧ UInt8.ofBitVec ftyp = 11 then some 0
      else if fid.toNat = 2 ∧ UInt8.ofBitVec ftyp = 8 then some 1
      else if fid.toNat = 3 ∧ UInt8.ofBitVec ftyp = 13 then some 2
      else none := by
  rw [fastReadKey_BaseResp_eq]; exact caseIdx_resp fid.toNat _ fid.isLt

/-! ## concrete instances -/
example : k_fastReadKey_Base 1#16 11#8 = 0x10b#32 := by decide
example : k_fastReadKey_Base 6#16 13#8 = 0x60d#32 := by decide
-- a negative id / type does not alias a small key: both conversions sign-extend
example : k_fastReadKey_Base (-255 : BitVec 16) 11#8 = 0xffff010b#32 := by decide
example : k_fastReadKey_Base 1#16 (-117 : BitVec 8) = 0xffffff8b#32 := by decide

end Verif.Kernels

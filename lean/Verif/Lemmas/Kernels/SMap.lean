/-
  Lemmas/Kernels/SMap (C07): the slot arithmetic of container/strmap, translated from the source,
  equals the arithmetic of Model/StrMap.lean (`uint32(hash)`, `slot % uint32(slots)`,
  `uint32(hash) % uint32(len(hashtable))`), including the division-by-zero guards.
-/
import Verif.Lemmas.Kernels.Base
import Verif.Model.StrMap
namespace Verif.Kernels
open Verif

/-- `slot: uint32(maphash.String(seed, k))` in LoadFromSlice — Model/StrMap `h k % two32` -/
theorem strmapLoadSlot_eq (h : BitVec 64) : (k_strmapLoadSlot h).toNat = h.toNat % SMap.two32 := by
  simp [k_strmapLoadSlot, SMap.two32]

/-- `items[i].slot % uint32(slots)` in makeHashtable (slots is an int32; the conversion keeps its bits) -/
theorem strmapSlotMod_eq (slot slots : BitVec 32) :
    (k_strmapSlotMod slot slots).toNat = slot.toNat % (slots.toNat % SMap.two32) := by
  have := slots.isLt
  simp only [k_strmapSlotMod, BitVec.toNat_umod, SMap.two32]
  rw [Nat.mod_eq_of_lt (a := slots.toNat) (by omega)]

/-- Go's division-by-zero panic is the model's `divzero` branch -/
theorem strmapSlotMod_pre (slot slots : BitVec 32) :
    k_strmapSlotMod_pre slot slots = true ↔ ¬ (slots.toNat % SMap.two32 = 0) := by
  have := slots.isLt
  simp [k_strmapSlotMod_pre, SMap.two32, ← BitVec.toNat_inj]
  omega

/-- `uint32(maphash.String(seed, s)) % uint32(len(hashtable))` in Get — `slot` of Model/StrMap `get` -/
theorem strmapGetSlot_eq (h n : BitVec 64) :
    (k_strmapGetSlot h n).toNat = (h.toNat % SMap.two32) % (n.toNat % SMap.two32) := by
  simp [k_strmapGetSlot, SMap.two32]

theorem strmapGetSlot_pre (h n : BitVec 64) :
    k_strmapGetSlot_pre h n = true ↔ ¬ (n.toNat % SMap.two32 = 0) := by
  simp [k_strmapGetSlot_pre, SMap.two32, ← BitVec.toNat_inj]

example : k_strmapGetSlot 0x1_0000_0009#64 7#64 = 2#32 := by decide   -- the hash is truncated first
example : k_strmapGetSlot_pre 5#64 0x1_0000_0000#64 = false := by decide -- a 2^32-slot table would panic

end Verif.Kernels

/-
  Lemmas/Kernels/Buf (C04, C05): the ring index of bufiox's `maxSizeStats.update`, translated from
  the source, equals the `statsIdx` update of Model/Reader.lean and Model/Writer.lean
  (`(statsIdx + 1) % Facts.statsBucketNum`).  `statsBucketNum` is a policy constant: the proof goes
  through for any value the kernel and Facts agree on.
-/
import Verif.Lemmas.Kernels.Base
import Verif.Gen.Facts
namespace Verif.Kernels
open Verif

theorem statsIdx_eq (x : BitVec 64) (h : x.toNat + 1 < 2 ^ 63) :
    (k_statsIdx x).toNat = (x.toNat + 1) % Facts.statsBucketNum := by
  have h1 : (x + 1#64).toNat = x.toNat + 1 := by simp [BitVec.toNat_add]; omega
  unfold k_statsIdx
  rw [srem_nonneg _ _ (by omega) (by decide), h1]
  rfl

/-- the index stays inside the bucket array (`s.buckets[s.bucketIdx]` cannot panic) -/
theorem statsIdx_lt (x : BitVec 64) (h : x.toNat + 1 < 2 ^ 63) (hb : 0 < Facts.statsBucketNum) :
    (k_statsIdx x).toNat < Facts.statsBucketNum := by
  rw [statsIdx_eq x h]; exact Nat.mod_lt _ hb

example : Facts.statsBucketNum ≠ 10 ∨ k_statsIdx 9#64 = 0#64 := by decide
example : (9#64 : BitVec 64).toNat + 1 < 2 ^ 63 := by decide

end Verif.Kernels

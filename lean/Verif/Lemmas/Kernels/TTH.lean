/-
  Lemmas/Kernels/TTH (C06, C10): the framing arithmetic of protocol/ttheader, translated from the
  source, equals the arithmetic of Model/TTHeader.lean.
-/
import Verif.Lemmas.Kernels.Base
import Verif.Model.TTHeader
namespace Verif.Kernels
open Verif

/-! ## Encode -/

/-- `(4 - writeSize%4) % 4` with Go's truncated `%` on a 64-bit int, for EVERY int (negative too) -/
theorem ttPadding_int (x : BitVec 64) :
    (k_ttPadding x).toInt = (4 - x.toInt.tmod 4).tmod 4 := by
  have h4 : (4#64 : BitVec 64).toInt = 4 := by decide
  simp only [k_ttPadding, BitVec.toInt_srem, BitVec.toInt_sub, h4]
  have := tmod4 x.toInt
  congr 1
  rw [Int.bmod_eq_of_le] <;> (by_cases h : x.toInt < 0 <;> omega)

/-- on a size (non-negative int) it is the formula of Model/TTHeader `writePadding` -/
theorem ttPadding_nat (x : BitVec 64) (h : x.toNat < 2 ^ 63) :
    (k_ttPadding x).toNat = (4 - x.toNat % 4) % 4 := by
  have hi := ttPadding_int x
  have hx : x.toInt = x.toNat := by rw [BitVec.toInt_eq_toNat_cond]; split <;> omega
  have := (tmod4 x.toInt).1 (by omega)
  have h2 := (tmod4 (4 - x.toInt.tmod 4)).1 (by omega)
  rw [h2, this, hx] at hi
  have hk := (k_ttPadding x).isLt
  rw [BitVec.toInt_eq_toNat_cond] at hi
  split at hi <;> omega

/-- Model/TTHeader `writePadding` computes its padding with the translated kernel -/
theorem writePadding_kernel (sz : Nat) (h : sz < 2 ^ 63) (w : TTH.W) :
    TTH.writePadding sz w =
      (w.malloc (k_ttPadding (BitVec.ofNat 64 sz)).toNat).bind fun r =>
      (r.2.put r.1 0 (List.replicate (k_ttPadding (BitVec.ofNat 64 sz)).toNat 0)).bind fun w1 =>
        .ok (sz + (k_ttPadding (BitVec.ofNat 64 sz)).toNat, w1) := by
  have hs : (BitVec.ofNat 64 sz).toNat = sz := by simp [BitVec.toNat_ofNat]; omega
  rw [ttPadding_nat _ (by omega), hs]
  rfl

/-- `TTHeaderMagic + uint32(param.Flags)` — the word Model/TTHeader `encode` stores at offset 4 -/
theorem ttEncodeMagicFlags_eq (flags : BitVec 16) :
    (k_ttEncodeMagicFlags flags).toNat = (Facts.ttMagic + flags.toNat) % 4294967296 := by
  have := flags.isLt
  simp [k_ttEncodeMagicFlags, BitVec.toNat_add, BitVec.toNat_setWidth, Facts.ttMagic]

/-- `uint16(headerInfoSize/4)` — the size field Model/TTHeader `encode` stores at offset 12 -/
theorem ttEncodeSizeField_eq (x : BitVec 64) (h : x.toNat < 2 ^ 63) :
    (k_ttEncodeSizeField x).toNat = (x.toNat / 4) % 65536 := by
  have hm : x.msb = false := by rw [BitVec.msb_eq_decide]; simp; omega
  have h4 : (4#64 : BitVec 64).msb = false := by decide
  simp [k_ttEncodeSizeField, BitVec.sdiv_eq, hm, h4, BitVec.toNat_setWidth]

/-! ## Decode -/

/-- `uint32(<u16 size field>) * 4` — `size` of Model/TTHeader `decodeMeta`, in the width Tie A reports
    (a product taken in uint16 again would change both the kernel's type and `ttHeaderSizeBits`) -/
theorem ttDecodeInfoSize_eq (sf : BitVec 16) :
    (k_ttDecodeInfoSize sf).toNat = (sf.toNat * 4) % 2 ^ Facts.ttHeaderSizeBits := by
  have := sf.isLt
  simp [k_ttDecodeInfoSize, BitVec.toNat_mul, BitVec.toNat_setWidth, Facts.ttHeaderSizeBits]

/-- the header-size product cannot wrap: it is `4 * field` as a number -/
theorem ttDecodeInfoSize_exact (sf : BitVec 16) : (k_ttDecodeInfoSize sf).toNat = 4 * sf.toNat := by
  have := sf.isLt
  simp [k_ttDecodeInfoSize, BitVec.toNat_mul, BitVec.toNat_setWidth]; omega

/-- `param.HeaderLen = int(headerInfoSize + TTHeaderMetaSize)` (the translator inlines the
    single-assignment local `headerInfoSize`) — `headerLen` of Model/TTHeader `decodeInfo` -/
theorem ttDecodeHeaderLen_eq (sf : BitVec 16) :
    (k_ttDecodeHeaderLen sf).toInt
      = (((sf.toNat * 4) % 2 ^ Facts.ttHeaderSizeBits + Facts.ttMetaSize) % 4294967296 : Nat) := by
  have := sf.isLt
  rw [BitVec.toInt_eq_toNat_cond]
  simp [k_ttDecodeHeaderLen, BitVec.toNat_mul, BitVec.toNat_add, BitVec.toNat_setWidth, Facts.ttHeaderSizeBits,
    Facts.ttMetaSize]
  omega

/-- `param.PayloadLen = int(totalLen) + Size32 - param.HeaderLen` — `payloadLen` of Model/TTHeader
    `decodeInfo`; HeaderLen comes from a uint32, so it is never negative -/
theorem ttDecodePayloadLen_eq (total : BitVec 32) (hl : BitVec 64) (h : 0 ≤ hl.toInt) :
    (k_ttDecodePayloadLen total hl).toInt = (total.toNat : Int) + Facts.ttSize32 - hl.toInt := by
  have := total.isLt
  have h4 : (4#64 : BitVec 64).toInt = 4 := by decide
  have ht : (BitVec.setWidth 64 total).toInt = total.toNat := by
    rw [BitVec.toInt_eq_toNat_cond]; simp [BitVec.toNat_setWidth]; omega
  have hb := hl.toInt_lt
  simp only [k_ttDecodePayloadLen, BitVec.toInt_sub, BitVec.toInt_add, h4, ht, Facts.ttSize32]
  rw [Int.bmod_eq_of_le (n := (total.toNat : Int) + 4)] <;> try omega
  rw [Int.bmod_eq_of_le] <;> omega

/-! ## concrete instances / non-vacuity -/
example : (k_ttPadding 2#64, k_ttPadding 5#64, k_ttPadding 8#64) = (2#64, 3#64, 0#64) := by decide
example : (5#64 : BitVec 64).toNat < 2 ^ 63 := by decide
example : k_ttDecodeInfoSize 0xffff#16 = 0x3fffc#32 := by decide        -- no wrap at 65535*4
example : k_ttDecodeHeaderLen 4#16 = 30#64 := by decide
example : (k_ttDecodePayloadLen 100#32 30#64).toInt = 74 ∧ 0 ≤ (30#64 : BitVec 64).toInt := by decide
example : (k_ttDecodePayloadLen 10#32 30#64).toInt = -16 := by decide    -- a short frame gives a negative length
example : k_ttEncodeMagicFlags 2#16 = 0x10000002#32 := by decide
example : k_ttEncodeSizeField 0x40000#64 = 0#16 := by decide             -- 65536 words wrap the field (C06 limit)

end Verif.Kernels

/-
  Lemmas/UnknownWC: bytes → tree → bytes. Reading a well-formed encoded value (Spec `encLen`) succeeds,
  consumes exactly its extent, yields a well-typed tree, and writing that tree reproduces the bytes.
  Loop lemmas are generic in the element reader/writer; the main theorem is by induction on the depth.
-/
import Verif.Lemmas.UnknownBase
import Verif.Lemmas.UnknownEqns
namespace Verif

/-- what reading one well-formed element delivers: `g` measures it, `rd` reads it, `wr` writes it back -/
def UfElemOK {α : Type} (g : Bytes → Option Nat) (rd : Bytes → UInt16 → UOut (α × Nat)) (wr : α → UOut Bytes)
    (mt : α → UMeta) (p : α → Bool) (t : UInt8) : Prop :=
  ∀ s k i, g s = some k → k ≤ s.length ∧ ∃ f, rd s i = .ok (f, k) ∧ wr f = .ok (s.take k) ∧ p f = true ∧
    (mt f).id = i ∧ (mt f).typ = t

theorem take_take_drop (s : Bytes) (a c : Nat) : s.take a ++ (s.drop a).take c = s.take (a + c) := by
  rw [List.take_add]

theorem take_drop_append (b : Bytes) (off a c : Nat) :
    (b.drop off).take a ++ (b.drop (off + a)).take c = (b.drop off).take (a + c) := by
  rw [← List.drop_drop, take_take_drop]

theorem readElems_of_refN {α : Type} (g : Bytes → Option Nat) (rd : Bytes → UInt16 → UOut (α × Nat))
    (wr : α → UOut Bytes) (mt : α → UMeta) (p : α → Bool) (t : UInt8) (H : UfElemOK g rd wr mt p t) (b : Bytes) :
    ∀ n i off k, off ≤ b.length → refN g n (b.drop off) = some k →
      off + k ≤ b.length ∧ ∃ fs, readElems rd n i b off = .ok (fs, off + k) ∧
        writeList wr fs = .ok ((b.drop off).take k) ∧ fs.length = n ∧ elemsOK mt p t i fs = true
  | 0, i, off, k, ho, h => by
    simp [refN] at h; subst h
    exact ⟨by omega, [], by simp [readElems], by simp [writeList], rfl, by simp [elemsOK]⟩
  | n+1, i, off, k, ho, h => by
    simp only [refN] at h
    generalize hg : g (b.drop off) = r1 at h
    cases r1 with
    | none => simp at h
    | some k1 =>
      simp only at h
      generalize hr : refN g n ((b.drop off).drop k1) = r2 at h
      cases r2 with
      | none => simp at h
      | some r =>
        simp at h; subst h
        obtain ⟨hk1, f, hrd, hwr, hp, hid, hty⟩ := H _ _ (UInt16.ofNat i) hg
        simp at hk1
        rw [List.drop_drop] at hr
        obtain ⟨hle, fs, hfs, hws, hlen, hok⟩ := readElems_of_refN g rd wr mt p t H b n (i+1) (off + k1) r (by omega) hr
        refine ⟨by omega, f :: fs, ?_, ?_, by simp [hlen], ?_⟩
        · simp [readElems, ufSliceFrom_ok b off ho, hrd, hfs]; omega
        · simp [writeList, hwr, hws]
          rw [take_drop_append]
        · simp [elemsOK, hid, hty, hp, hok]


theorem readKVs_of_refKV {α : Type} (gk gv : Bytes → Option Nat) (rk rv : Bytes → UInt16 → UOut (α × Nat))
    (wr : α → UOut Bytes) (mt : α → UMeta) (p : α → Bool) (kt vt : UInt8)
    (HK : UfElemOK gk rk wr mt p kt) (HV : UfElemOK gv rv wr mt p vt) (b : Bytes) :
    ∀ n i off k, off ≤ b.length → refKV gk gv n (b.drop off) = some k →
      off + k ≤ b.length ∧ ∃ fs, ufReadKVs rk rv n i b off = .ok (fs, off + k) ∧
        writeKVs wr fs = .ok ((b.drop off).take k) ∧ fs.length / 2 = n ∧ ufKvsOK mt p kt vt i fs = true
  | 0, i, off, k, ho, h => by
    simp [refKV] at h; subst h
    exact ⟨by omega, [], by simp [ufReadKVs], by simp [writeKVs], by simp, by simp [ufKvsOK]⟩
  | n+1, i, off, k, ho, h => by
    simp only [refKV] at h
    generalize hg : gk (b.drop off) = r1 at h
    cases r1 with
    | none => simp at h
    | some k1 =>
      simp only at h
      generalize hg2 : gv ((b.drop off).drop k1) = r1' at h
      cases r1' with
      | none => simp at h
      | some v1 =>
        simp only at h
        generalize hr : refKV gk gv n ((b.drop off).drop (k1 + v1)) = r2 at h
        cases r2 with
        | none => simp at h
        | some r =>
          simp at h; subst h
          obtain ⟨hk1, f, hrd, hwr, hp, hid, hty⟩ := HK _ _ (UInt16.ofNat i) hg
          obtain ⟨hv1, f', hrd', hwr', hp', hid', hty'⟩ := HV _ _ (UInt16.ofNat i) hg2
          simp at hk1 hv1
          rw [List.drop_drop] at hr hrd' hwr'
          obtain ⟨hle, fs, hfs, hws, hlen, hok⟩ :=
            readKVs_of_refKV gk gv rk rv wr mt p kt vt HK HV b n (i+1) (off + (k1 + v1)) r (by omega) hr
          refine ⟨by omega, f :: f' :: fs, ?_, ?_, by simp; omega, ?_⟩
          · simp [ufReadKVs, ufSliceFrom_ok b off ho, hrd, ufSliceFrom_ok b (off + k1) (by omega), hrd']
            rw [show off + k1 + v1 = off + (k1 + v1) by omega, hfs]; simp; omega
          · simp [writeKVs, hwr, hwr', hws]
            rw [← List.append_assoc, take_drop_append, take_drop_append]
          · simp [ufKvsOK, hid, hty, hp, hid', hty', hp', hok]

def FieldOK {α : Type} (g : UInt8 → Bytes → Option Nat) (rd : Bytes → UInt8 → UInt16 → UOut (α × Nat))
    (wr : α → UOut Bytes) (mt : α → UMeta) (p : α → Bool) : Prop :=
  ∀ s k t i, g t s = some k → k ≤ s.length ∧ ∃ f, rd s t i = .ok (f, k) ∧ wr f = .ok (s.take k) ∧ p f = true ∧
    (mt f).id = i ∧ (mt f).typ = t

theorem drop_of_cons {b : Bytes} {off : Nat} {t : UInt8} {rest : Bytes} (hs : b.drop off = t :: rest) (j : Nat) :
    b.drop (off + (j + 1)) = rest.drop j := by
  have := congrArg (List.drop (j + 1)) hs
  simpa [List.drop_drop] using this

theorem readFields_of_refFields {α : Type} (g : UInt8 → Bytes → Option Nat)
    (rd : Bytes → UInt8 → UInt16 → UOut (α × Nat)) (wr : α → UOut Bytes) (mt : α → UMeta) (p : α → Bool)
    (H : FieldOK g rd wr mt p) (b : Bytes) :
    ∀ fuel fuel2 off k, off ≤ b.length → b.length - off + 1 ≤ fuel2 → refFields g fuel (b.drop off) = some k →
      off + k ≤ b.length ∧ ∃ fs bs, readFields rd fuel2 b off = .ok (fs, off + k) ∧
        writeFields mt wr fs = .ok bs ∧ bs ++ [0] = (b.drop off).take k ∧ fs.all p = true
  | 0, _, _, _, _, _, h => by simp [refFields] at h
  | fuel+1, 0, _, _, _, hf, _ => by omega
  | fuel+1, fuel2+1, off, k, ho, hf, h => by
    simp only [refFields] at h
    generalize hs : b.drop off = s at h
    cases s with
    | nil => simp at h
    | cons t rest =>
      have hlen : rest.length + 1 = b.length - off := by
        have := congrArg List.length hs; simp at this; omega
      simp only at h
      by_cases ht : t = 0
      · simp [ht] at h; subst h; subst ht
        refine ⟨by omega, [], [], ?_, by simp [writeFields], by simp, by simp⟩
        simp [readFields, ufSliceFrom_ok b off ho, hs, rdFieldBegin, UT.STOP_eq]
      · simp only [ht, if_false] at h
        by_cases hr2 : rest.length < 2
        · simp [hr2] at h
        · simp only [hr2, if_false] at h
          generalize hg : g t (rest.drop 2) = r1 at h
          cases r1 with
          | none => simp at h
          | some k1 =>
            simp only at h
            generalize hrr : refFields g fuel (rest.drop (2 + k1)) = r2 at h
            cases r2 with
            | none => simp at h
            | some r =>
              simp at h; subst h
              obtain ⟨hk1, f, hrd, hwr, hp, hid, hty⟩ := H _ _ t (UInt16.ofNat (rd16 rest)) hg
              simp at hk1
              have e3 : b.drop (off + 3) = rest.drop 2 := drop_of_cons hs 2
              have e4 : b.drop (off + 3 + k1) = rest.drop (2 + k1) := by
                rw [show off + 3 + k1 = off + ((2 + k1) + 1) by omega]; exact drop_of_cons hs (2 + k1)
              rw [← e4] at hrr
              obtain ⟨hle, fs, bs, hfs, hws, hbs, hall⟩ :=
                readFields_of_refFields g rd wr mt p H b fuel fuel2 (off + 3 + k1) r (by omega) (by omega) hrr
              refine ⟨by omega, f :: fs, (mt f).typ :: be16 (mt f).id.toNat ++ (rest.drop 2).take k1 ++ bs, ?_, ?_, ?_,
                by simp [hp, hall]⟩
              · simp [readFields, ufSliceFrom_ok b off ho, hs, rdFieldBegin, UT.STOP_eq, ht, hr2,
                  ufSliceFrom_ok b (off + 3) (by omega), e3, hrd, hfs]
                omega
              · simp [writeFields, hwr, hws]
              · rw [hid, hty, u16_ofNat_rd16, be16_rd16 rest (by omega), e4] at *
                simp only [List.cons_append, List.append_assoc, hbs]
                rw [show 3 + k1 + r = (2 + k1 + r) + 1 by omega, List.take_succ_cons]
                congr 1
                rw [← List.append_assoc, take_take_drop, take_take_drop]

theorem elemOK_of_fieldOK {α : Type} {g : UInt8 → Bytes → Option Nat} {rd : Bytes → UInt8 → UInt16 → UOut (α × Nat)}
    {wr : α → UOut Bytes} {mt : α → UMeta} {p : α → Bool} (H : FieldOK g rd wr mt p) (t : UInt8) :
    UfElemOK (g t) (fun s i => rd s t i) wr mt p t := fun s k i h => H s k t i h

theorem readUF_of_encLen : ∀ m, FieldOK (encLen m) (fun s t id => readUF m s t id) (writeUF m) (ufMeta m) (wt m)
  | 0 => by intro s k t i h; simp [encLen] at h
  | m+1 => by
    have ih := readUF_of_encLen m
    obtain ⟨u0, u2, u3, u4, u6, u8, u10, u11, u12, u13, u14, u15⟩ := utt
    intro s k t i h
    simp only [encLen, layer, TT.BOOL, TT.STRING, TT.STRUCT, TT.LIST, TT.SET, TT.MAP] at h
    simp only [ufMeta]
    by_cases h2 : t = 2
    · subst h2
      cases s with
      | nil => simp at h
      | cons x r =>
        simp at h
        obtain ⟨hx, hk⟩ := h; subst hk
        refine ⟨by simp, (⟨i, 2, 0, 0⟩, .bool (x == 1)), ?_, ?_, ?_, rfl, rfl⟩
        · refine (readUF_BOOL _ _ _ _ u2.symm).trans ?_; simp [scalarUF, rdBool]; rfl
        · refine (writeUF_BOOL _ _ u2.symm).trans ?_; rcases hx with hx | hx <;> subst hx <;> simp
        · refine (wt_BOOL _ _ u2.symm).trans ?_; simp
    simp only [h2, if_false] at h
    by_cases h3 : t = 3
    · subst h3
      simp [fixedSize] at h
      obtain ⟨hl, hk⟩ := h; subst hk
      cases s with
      | nil => simp at hl
      | cons x r =>
        refine ⟨by simp, (⟨i, 3, 0, 0⟩, .i8 x), ?_, ?_, ?_, rfl, rfl⟩
        · refine (readUF_BYTE _ _ _ _ u3.symm).trans ?_; simp [scalarUF, rdByte]; rfl
        · refine (writeUF_BYTE _ _ u3.symm).trans ?_; simp
        · refine (wt_BYTE _ _ u3.symm).trans ?_; simp
    by_cases h6 : t = 6
    · subst h6
      simp [fixedSize] at h
      obtain ⟨hl, hk⟩ := h; subst hk
      refine ⟨hl, (⟨i, 6, 0, 0⟩, .i16 (UInt16.ofNat (rd16 s))), ?_, ?_, ?_, rfl, rfl⟩
      · refine (readUF_I16 _ _ _ _ u6.symm).trans ?_; have hn : ¬ s.length < 2 := by omega
        simp [scalarUF, rdI16, hn] <;> rfl
      · refine (writeUF_I16 _ _ u6.symm).trans ?_; simp [Nat.mod_eq_of_lt (rd16_lt s), be16_rd16 s hl]
      · refine (wt_I16 _ _ u6.symm).trans ?_; simp
    by_cases h8 : t = 8
    · subst h8
      simp [fixedSize] at h
      obtain ⟨hl, hk⟩ := h; subst hk
      refine ⟨hl, (⟨i, 8, 0, 0⟩, .i32 (UInt32.ofNat (rd32 s))), ?_, ?_, ?_, rfl, rfl⟩
      · refine (readUF_I32 _ _ _ _ u8.symm).trans ?_; have hn : ¬ s.length < 4 := by omega
        simp [scalarUF, rdI32, hn] <;> rfl
      · refine (writeUF_I32 _ _ u8.symm).trans ?_; simp [Nat.mod_eq_of_lt (rd32_lt s), be32_rd32 s hl]
      · refine (wt_I32 _ _ u8.symm).trans ?_; simp
    by_cases h10 : t = 10
    · subst h10
      simp [fixedSize] at h
      obtain ⟨hl, hk⟩ := h; subst hk
      refine ⟨hl, (⟨i, 10, 0, 0⟩, .i64 (UInt64.ofNat (rd64 s))), ?_, ?_, ?_, rfl, rfl⟩
      · refine (readUF_I64 _ _ _ _ u10.symm).trans ?_; have hn : ¬ s.length < 8 := by omega
        simp [scalarUF, rdI64, hn] <;> rfl
      · refine (writeUF_I64 _ _ u10.symm).trans ?_; simp [Nat.mod_eq_of_lt (rd64_lt s), be64_rd64 s hl]
      · refine (wt_I64 _ _ u10.symm).trans ?_; simp
    by_cases h4 : t = 4
    · subst h4
      simp [fixedSize] at h
      obtain ⟨hl, hk⟩ := h; subst hk
      refine ⟨hl, (⟨i, 4, 0, 0⟩, .f64 (UInt64.ofNat (rd64 s))), ?_, ?_, ?_, rfl, rfl⟩
      · refine (readUF_DOUBLE _ _ _ _ u4.symm).trans ?_; have hn : ¬ s.length < 8 := by omega
        simp [scalarUF, rdDouble, hn] <;> rfl
      · refine (writeUF_DOUBLE _ _ u4.symm).trans ?_; simp [Nat.mod_eq_of_lt (rd64_lt s), be64_rd64 s hl]
      · refine (wt_DOUBLE _ _ u4.symm).trans ?_; simp
    have hfx : fixedSize t = 0 := by
      simp only [fixedSize]; simp [h2, h3, h4, h6, h8, h10]
    simp only [hfx, Nat.lt_irrefl, if_false] at h
    by_cases h11 : t = 11
    · subst h11
      simp [refStr] at h
      obtain ⟨⟨hl, hn, hle⟩, hk⟩ := h; subst hk
      refine ⟨hle, (⟨i, 11, 0, 0⟩, .str ((s.drop 4).take (rd32 s))), ?_, ?_, ?_, rfl, rfl⟩
      · refine (readUF_STRING _ _ _ _ u11.symm).trans ?_
        have h1 : ¬ s.length < 4 := by omega
        have h2 : ¬ 2147483648 ≤ rd32 s := by omega
        have h3 : ¬ s.length < 4 + rd32 s := by omega
        simp [scalarUF, rdStr, h1, h2, h3] <;> rfl
      · refine (writeUF_STRING _ _ u11.symm).trans ?_
        have hmin : min (rd32 s) (s.length - 4) = rd32 s := by omega
        simp [u32, hmin, Nat.mod_eq_of_lt (rd32_lt s), be32_rd32 s hl]
        exact take_take_drop s 4 (rd32 s)
      · refine (wt_STRING _ _ u11.symm).trans ?_
        simp; omega
    simp only [h11, if_false] at h
    by_cases h12 : t = 12
    · subst h12
      simp only [if_true] at h
      have h' : refFields (encLen m) (s.length + 1) (s.drop 0) = some k := by simpa using h
      obtain ⟨hle, fs, bs, hrd, hwr, hbs, hall⟩ :=
        readFields_of_refFields _ _ _ _ _ ih s (s.length + 1) (s.length + 1) 0 k (by omega) (by omega) h'
      simp at hle hrd hbs
      refine ⟨hle, (⟨i, 12, 0, 0⟩, .fields fs), ?_, ?_, ?_, rfl, rfl⟩
      · refine (readUF_STRUCT _ _ _ _ u12.symm).trans ?_
        simp [hrd] <;> rfl
      · refine (writeUF_STRUCT _ _ u12.symm).trans ?_
        simp [hwr, u0, hbs]
      · refine (wt_STRUCT _ _ u12.symm).trans ?_
        simpa using hall
    simp only [h12, if_false] at h
    by_cases h15 : t = 15
    · subst h15
      simp only [true_or, if_true] at h
      cases s with
      | nil => simp at h
      | cons et rest =>
        by_cases hc : 4 ≤ rest.length ∧ rd32 rest < 2147483648
        · simp only [hc, and_self, if_true] at h
          generalize hr : refN (encLen m et) (rd32 rest) (List.drop 4 rest) = rr at h
          cases rr with
          | none => simp at h
          | some r =>
          simp at h; subst h
          have e5 : (et :: rest).drop 5 = rest.drop 4 := rfl
          rw [← e5] at hr
          obtain ⟨hle, fs, hrd, hwr, hlen, hok⟩ :=
            readElems_of_refN _ _ _ _ _ _ (elemOK_of_fieldOK ih et) (et :: rest) (rd32 rest) 0 5 r
              (by simp; omega) hr
          refine ⟨hle, (⟨i, 15, 0, et⟩, .fields fs), ?_, ?_, ?_, rfl, rfl⟩
          · refine (readUF_LIST _ _ _ _ u15.symm).trans ?_
            have h4 : ¬ rest.length < 4 := by omega
            simp [readListLike, h4, hrd] <;> rfl
          · refine (writeUF_LIST _ _ u15.symm).trans ?_
            simp only [hwr, hlen, u32, Nat.mod_eq_of_lt (rd32_lt rest), be32_rd32 rest hc.1, Out.bind_ok, e5]
            simp only [show 5 + r = (4 + r) + 1 by omega, List.take_succ_cons, List.cons_append]
            rw [take_take_drop]
          · refine (wt_LIST _ _ u15.symm).trans ?_
            have := rd32_lt rest
            simp [hlen, hok]; omega
        · simp [hc] at h
    by_cases h14 : t = 14
    · subst h14
      simp only [or_true, if_true] at h
      cases s with
      | nil => simp at h
      | cons et rest =>
        by_cases hc : 4 ≤ rest.length ∧ rd32 rest < 2147483648
        · simp only [hc, and_self, if_true] at h
          generalize hr : refN (encLen m et) (rd32 rest) (List.drop 4 rest) = rr at h
          cases rr with
          | none => simp at h
          | some r =>
          simp at h; subst h
          have e5 : (et :: rest).drop 5 = rest.drop 4 := rfl
          rw [← e5] at hr
          obtain ⟨hle, fs, hrd, hwr, hlen, hok⟩ :=
            readElems_of_refN _ _ _ _ _ _ (elemOK_of_fieldOK ih et) (et :: rest) (rd32 rest) 0 5 r
              (by simp; omega) hr
          refine ⟨hle, (⟨i, 14, 0, et⟩, .fields fs), ?_, ?_, ?_, rfl, rfl⟩
          · refine (readUF_SET _ _ _ _ u14.symm).trans ?_
            have h4 : ¬ rest.length < 4 := by omega
            simp [readListLike, h4, hrd] <;> rfl
          · refine (writeUF_SET _ _ u14.symm).trans ?_
            simp only [hwr, hlen, u32, Nat.mod_eq_of_lt (rd32_lt rest), be32_rd32 rest hc.1, Out.bind_ok, e5]
            simp only [show 5 + r = (4 + r) + 1 by omega, List.take_succ_cons, List.cons_append]
            rw [take_take_drop]
          · refine (wt_SET _ _ u14.symm).trans ?_
            have := rd32_lt rest
            simp [hlen, hok]; omega
        · simp [hc] at h
    simp only [h15, h14, or_self, if_false] at h
    by_cases h13 : t = 13
    · subst h13
      simp only [if_true] at h
      match s, h with
      | [], h => simp at h
      | [_], h => simp at h
      | kt :: vt :: rest, h =>
        by_cases hc : 4 ≤ rest.length ∧ rd32 rest < 2147483648
        · simp only [hc, and_self, if_true] at h
          generalize hr : refKV (encLen m kt) (encLen m vt) (rd32 rest) (List.drop 4 rest) = rr at h
          cases rr with
          | none => simp at h
          | some r =>
          simp at h; subst h
          have e6 : (kt :: vt :: rest).drop 6 = rest.drop 4 := rfl
          rw [← e6] at hr
          obtain ⟨hle, fs, hrd, hwr, hlen, hok⟩ :=
            readKVs_of_refKV _ _ _ _ _ _ _ _ _ (elemOK_of_fieldOK ih kt) (elemOK_of_fieldOK ih vt)
              (kt :: vt :: rest) (rd32 rest) 0 6 r (by simp; omega) hr
          refine ⟨hle, (⟨i, 13, kt, vt⟩, .fields fs), ?_, ?_, ?_, rfl, rfl⟩
          · refine (readUF_MAP _ _ _ _ u13.symm).trans ?_
            have h4 : ¬ rest.length < 4 := by omega
            simp [readMapLike, h4, hrd] <;> rfl
          · refine (writeUF_MAP _ _ u13.symm).trans ?_
            simp only [hwr, hlen, u32, Nat.mod_eq_of_lt (rd32_lt rest), be32_rd32 rest hc.1, Out.bind_ok, e6]
            simp only [show 6 + r = (4 + r) + 1 + 1 by omega, List.take_succ_cons, List.cons_append]
            rw [take_take_drop]
          · refine (wt_MAP _ _ u13.symm).trans ?_
            have := rd32_lt rest
            simp [hlen, hok]; omega
        · simp [hc] at h
    simp [h13] at h


theorem convertLoop_of_encSeq {α : Type} (g : UInt8 → Bytes → Option Nat)
    (rd : Bytes → UInt8 → UInt16 → UOut (α × Nat)) (wr : α → UOut Bytes) (mt : α → UMeta) (p : α → Bool)
    (H : FieldOK g rd wr mt p) (b : Bytes) :
    ∀ fuel fuel2 off, off ≤ b.length → b.length - off + 1 ≤ fuel2 → encSeq g fuel (b.drop off) = true →
      ∃ fs, convertLoop rd fuel2 b off = .ok fs ∧ writeFields mt wr fs = .ok (b.drop off) ∧ fs.all p = true ∧
        (off < b.length → fs ≠ [])
  | 0, _, _, _, _, h => by simp [encSeq] at h
  | fuel+1, 0, _, _, hf, _ => by omega
  | fuel+1, fuel2+1, off, ho, hf, h => by
    simp only [encSeq] at h
    generalize hs : b.drop off = s at h
    cases s with
    | nil =>
      have : off = b.length := by
        have := congrArg List.length hs; simp at this; omega
      exact ⟨[], by simp [convertLoop, this], by simp [writeFields], by simp, by omega⟩
    | cons t rest =>
      have hlen : rest.length + 1 = b.length - off := by
        have := congrArg List.length hs; simp at this; omega
      simp only at h
      by_cases ht : t = 0
      · simp [ht] at h
      · simp only [ht, if_false] at h
        by_cases hr2 : rest.length < 2
        · simp [hr2] at h
        · simp only [hr2, if_false] at h
          generalize hg : g t (rest.drop 2) = r1 at h
          cases r1 with
          | none => simp at h
          | some k1 =>
            simp only at h
            obtain ⟨hk1, f, hrd, hwr, hp, hid, hty⟩ := H _ _ t (UInt16.ofNat (rd16 rest)) hg
            simp at hk1
            have e3 : b.drop (off + 3) = rest.drop 2 := drop_of_cons hs 2
            have e4 : b.drop (off + 3 + k1) = rest.drop (2 + k1) := by
              rw [show off + 3 + k1 = off + ((2 + k1) + 1) by omega]; exact drop_of_cons hs (2 + k1)
            rw [← e4] at h
            obtain ⟨fs, hfs, hws, hall, _⟩ :=
              convertLoop_of_encSeq g rd wr mt p H b fuel fuel2 (off + 3 + k1) (by omega) (by omega) h
            refine ⟨f :: fs, ?_, ?_, by simp [hp, hall], by simp⟩
            · have hne : off ≠ b.length := by omega
              simp [convertLoop, hne, ufSliceFrom_ok b off ho, hs, rdFieldBegin, UT.STOP_eq, ht, hr2,
                ufSliceFrom_ok b (off + 3) (by omega), e3, hrd, hfs]
            · simp only [writeFields, hwr, hws, Out.bind_ok]
              rw [hid, hty, u16_ofNat_rd16, be16_rd16 rest (by omega), e4]
              simp only [List.cons_append, List.append_assoc]
              congr 2
              rw [← List.append_assoc, take_take_drop, List.take_append_drop]

end Verif

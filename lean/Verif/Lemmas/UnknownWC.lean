/-
  Lemmas/UnknownWC: bytes → tree → bytes. Reading a well-formed encoded value (Spec `encLen`) succeeds,
  consumes exactly its extent, yields a well-typed tree, and writing that tree reproduces the bytes.
  Loop lemmas are generic in the element reader/writer; the main theorem is by induction on the depth.
-/
import Verif.Lemmas.UnknownBase
namespace Verif

/-- what reading one well-formed element delivers: `g` measures it, `rd` reads it, `wr` writes it back -/
def ElemOK {α : Type} (g : Bytes → Option Nat) (rd : Bytes → UInt16 → UOut (α × Nat)) (wr : α → UOut Bytes)
    (mt : α → UMeta) (p : α → Bool) (t : UInt8) : Prop :=
  ∀ s k i, g s = some k → k ≤ s.length ∧ ∃ f, rd s i = .ok (f, k) ∧ wr f = .ok (s.take k) ∧ p f = true ∧
    (mt f).id = i ∧ (mt f).typ = t

theorem take_take_drop (s : Bytes) (a c : Nat) : s.take a ++ (s.drop a).take c = s.take (a + c) := by
  rw [List.take_add]

theorem take_drop_append (b : Bytes) (off a c : Nat) :
    (b.drop off).take a ++ (b.drop (off + a)).take c = (b.drop off).take (a + c) := by
  rw [← List.drop_drop, take_take_drop]

theorem readElems_of_refN {α : Type} (g : Bytes → Option Nat) (rd : Bytes → UInt16 → UOut (α × Nat))
    (wr : α → UOut Bytes) (mt : α → UMeta) (p : α → Bool) (t : UInt8) (H : ElemOK g rd wr mt p t) (b : Bytes) :
    ∀ n i off k, off ≤ b.length → refN g n (b.drop off) = some k →
      off + k ≤ b.length ∧ ∃ fs, readElems rd n i b off = .ok (fs, off + k) ∧
        writeList wr fs = .ok ((b.drop off).take k) ∧ fs.length = n ∧ elemsOK mt p t i fs = true
  | 0, i, off, k, ho, h => by
    simp [refN] at h; subst h
    exact ⟨by omega, [], by simp [readElems], by simp [writeList], rfl, by simp [elemsOK]⟩
  | n+1, i, off, k, ho, h => by
    simp only [refN] at h
    generalize hg : g (b.drop off) = r1 at h
    cases r1 with
    | none => simp at h
    | some k1 =>
      simp only at h
      generalize hr : refN g n ((b.drop off).drop k1) = r2 at h
      cases r2 with
      | none => simp at h
      | some r =>
        simp at h; subst h
        obtain ⟨hk1, f, hrd, hwr, hp, hid, hty⟩ := H _ _ (UInt16.ofNat i) hg
        simp at hk1
        rw [List.drop_drop] at hr
        obtain ⟨hle, fs, hfs, hws, hlen, hok⟩ := readElems_of_refN g rd wr mt p t H b n (i+1) (off + k1) r (by omega) hr
        refine ⟨by omega, f :: fs, ?_, ?_, by simp [hlen], ?_⟩
        · simp [readElems, sliceFrom_ok b off ho, hrd, hfs]; omega
        · simp [writeList, hwr, hws]
          rw [take_drop_append]
        · simp [elemsOK, hid, hty, hp, hok]


theorem readKVs_of_refKV {α : Type} (gk gv : Bytes → Option Nat) (rk rv : Bytes → UInt16 → UOut (α × Nat))
    (wr : α → UOut Bytes) (mt : α → UMeta) (p : α → Bool) (kt vt : UInt8)
    (HK : ElemOK gk rk wr mt p kt) (HV : ElemOK gv rv wr mt p vt) (b : Bytes) :
    ∀ n i off k, off ≤ b.length → refKV gk gv n (b.drop off) = some k →
      off + k ≤ b.length ∧ ∃ fs, readKVs rk rv n i b off = .ok (fs, off + k) ∧
        writeKVs wr fs = .ok ((b.drop off).take k) ∧ fs.length / 2 = n ∧ kvsOK mt p kt vt i fs = true
  | 0, i, off, k, ho, h => by
    simp [refKV] at h; subst h
    exact ⟨by omega, [], by simp [readKVs], by simp [writeKVs], by simp, by simp [kvsOK]⟩
  | n+1, i, off, k, ho, h => by
    simp only [refKV] at h
    generalize hg : gk (b.drop off) = r1 at h
    cases r1 with
    | none => simp at h
    | some k1 =>
      simp only at h
      generalize hg2 : gv ((b.drop off).drop k1) = r1' at h
      cases r1' with
      | none => simp at h
      | some v1 =>
        simp only at h
        generalize hr : refKV gk gv n ((b.drop off).drop (k1 + v1)) = r2 at h
        cases r2 with
        | none => simp at h
        | some r =>
          simp at h; subst h
          obtain ⟨hk1, f, hrd, hwr, hp, hid, hty⟩ := HK _ _ (UInt16.ofNat i) hg
          obtain ⟨hv1, f', hrd', hwr', hp', hid', hty'⟩ := HV _ _ (UInt16.ofNat i) hg2
          simp at hk1 hv1
          rw [List.drop_drop] at hr hrd' hwr'
          obtain ⟨hle, fs, hfs, hws, hlen, hok⟩ :=
            readKVs_of_refKV gk gv rk rv wr mt p kt vt HK HV b n (i+1) (off + (k1 + v1)) r (by omega) hr
          refine ⟨by omega, f :: f' :: fs, ?_, ?_, by simp; omega, ?_⟩
          · simp [readKVs, sliceFrom_ok b off ho, hrd, sliceFrom_ok b (off + k1) (by omega), hrd']
            rw [show off + k1 + v1 = off + (k1 + v1) by omega, hfs]; simp; omega
          · simp [writeKVs, hwr, hwr', hws]
            rw [← List.append_assoc, take_drop_append, take_drop_append]
          · simp [kvsOK, hid, hty, hp, hid', hty', hp', hok]

def FieldOK {α : Type} (g : UInt8 → Bytes → Option Nat) (rd : Bytes → UInt8 → UInt16 → UOut (α × Nat))
    (wr : α → UOut Bytes) (mt : α → UMeta) (p : α → Bool) : Prop :=
  ∀ s k t i, g t s = some k → k ≤ s.length ∧ ∃ f, rd s t i = .ok (f, k) ∧ wr f = .ok (s.take k) ∧ p f = true ∧
    (mt f).id = i ∧ (mt f).typ = t

theorem drop_of_cons {b : Bytes} {off : Nat} {t : UInt8} {rest : Bytes} (hs : b.drop off = t :: rest) (j : Nat) :
    b.drop (off + (j + 1)) = rest.drop j := by
  have := congrArg (List.drop (j + 1)) hs
  simpa [List.drop_drop] using this

theorem readFields_of_refFields {α : Type} (g : UInt8 → Bytes → Option Nat)
    (rd : Bytes → UInt8 → UInt16 → UOut (α × Nat)) (wr : α → UOut Bytes) (mt : α → UMeta) (p : α → Bool)
    (H : FieldOK g rd wr mt p) (b : Bytes) :
    ∀ fuel fuel2 off k, off ≤ b.length → b.length - off + 1 ≤ fuel2 → refFields g fuel (b.drop off) = some k →
      off + k ≤ b.length ∧ ∃ fs bs, readFields rd fuel2 b off = .ok (fs, off + k) ∧
        writeFields mt wr fs = .ok bs ∧ bs ++ [0] = (b.drop off).take k ∧ fs.all p = true
  | 0, _, _, _, _, _, h => by simp [refFields] at h
  | fuel+1, 0, _, _, _, hf, _ => by omega
  | fuel+1, fuel2+1, off, k, ho, hf, h => by
    simp only [refFields] at h
    generalize hs : b.drop off = s at h
    cases s with
    | nil => simp at h
    | cons t rest =>
      have hlen : rest.length + 1 = b.length - off := by
        have := congrArg List.length hs; simp at this; omega
      simp only at h
      by_cases ht : t = 0
      · simp [ht] at h; subst h; subst ht
        refine ⟨by omega, [], [], ?_, by simp [writeFields], by simp, by simp⟩
        simp [readFields, sliceFrom_ok b off ho, hs, rdFieldBegin, UT.STOP_eq]
      · simp only [ht, if_false] at h
        by_cases hr2 : rest.length < 2
        · simp [hr2] at h
        · simp only [hr2, if_false] at h
          generalize hg : g t (rest.drop 2) = r1 at h
          cases r1 with
          | none => simp at h
          | some k1 =>
            simp only at h
            generalize hrr : refFields g fuel (rest.drop (2 + k1)) = r2 at h
            cases r2 with
            | none => simp at h
            | some r =>
              simp at h; subst h
              obtain ⟨hk1, f, hrd, hwr, hp, hid, hty⟩ := H _ _ t (UInt16.ofNat (rd16 rest)) hg
              simp at hk1
              have e3 : b.drop (off + 3) = rest.drop 2 := drop_of_cons hs 2
              have e4 : b.drop (off + 3 + k1) = rest.drop (2 + k1) := by
                rw [show off + 3 + k1 = off + ((2 + k1) + 1) by omega]; exact drop_of_cons hs (2 + k1)
              rw [← e4] at hrr
              obtain ⟨hle, fs, bs, hfs, hws, hbs, hall⟩ :=
                readFields_of_refFields g rd wr mt p H b fuel fuel2 (off + 3 + k1) r (by omega) (by omega) hrr
              refine ⟨by omega, f :: fs, (mt f).typ :: be16 (mt f).id.toNat ++ (rest.drop 2).take k1 ++ bs, ?_, ?_, ?_,
                by simp [hp, hall]⟩
              · simp [readFields, sliceFrom_ok b off ho, hs, rdFieldBegin, UT.STOP_eq, ht, hr2,
                  sliceFrom_ok b (off + 3) (by omega), e3, hrd, hfs]
                omega
              · simp [writeFields, hwr, hws]
              · rw [hid, hty, u16_ofNat_rd16, be16_rd16 rest (by omega), e4] at *
                simp only [List.cons_append, List.append_assoc, hbs]
                rw [show 3 + k1 + r = (2 + k1 + r) + 1 by omega, List.take_succ_cons]
                congr 1
                rw [← List.append_assoc, take_take_drop, take_take_drop]

end Verif

/-
  Lemmas/FcLen: BLength against the printer; Go-map facts (assigning the entries of a map with distinct
  keys to an empty map gives that map back); running a realised writer on a whole buffer.
-/
import Verif.Lemmas.FcSplice
namespace Verif

/-! ## Go maps -/

theorem SMap.set_notin : ∀ (m : SMap) (k v : Bytes), k ∉ m.map Prod.fst → m.set k v = m ++ [(k, v)]
  | [], _, _, _ => rfl
  | (k', v') :: r, k, v, h => by
    simp only [List.map_cons, List.mem_cons, not_or] at h
    have hne : ¬ k' = k := fun e => h.1 e.symm
    simp [SMap.set, hne, SMap.set_notin r k v h.2]

theorem SMap.foldl_set_nodup : ∀ (it m : SMap), ((m ++ it).map Prod.fst).Nodup →
    it.foldl (fun m kv => SMap.set m kv.1 kv.2) m = m ++ it
  | [], m, _ => by simp
  | kv :: r, m, h => by
    have hnot : kv.1 ∉ m.map Prod.fst := by
      simp only [List.map_append, List.map_cons] at h
      have := (List.nodup_append.mp h).2.2
      intro hin
      exact this _ hin _ List.mem_cons_self rfl
    simp only [List.foldl_cons]
    rw [SMap.set_notin m kv.1 kv.2 hnot]
    have h' : (((m ++ [(kv.1, kv.2)]) ++ r).map Prod.fst).Nodup := by simpa using h
    rw [SMap.foldl_set_nodup r (m ++ [(kv.1, kv.2)]) h']
    simp

/-- a map read back from its own entries (in any iteration order) is that list of entries -/
theorem SMap.ofList_nodup (it : SMap) (h : (it.map Prod.fst).Nodup) : SMap.ofList it = it := by
  have := SMap.foldl_set_nodup it [] (by simpa using h)
  simpa [SMap.ofList] using this

theorem SMap.perm_wf {it m : SMap} (hp : it.Perm m) (hm : SMap.WF m) : (it.map Prod.fst).Nodup :=
  ((hp.map Prod.fst).nodup_iff).mpr hm

theorem kvsOK_perm {it m : SMap} (hp : it.Perm m) (hm : kvsOK m) : kvsOK it :=
  ⟨by rw [hp.length_eq]; exact hm.1, fun kv hkv => hm.2 kv (hp.mem_iff.mp hkv)⟩

/-! ## lengths -/

def kvLen (kv : Bytes × Bytes) : Nat := (4 + kv.1.length) + (4 + kv.2.length)

theorem encKVs_length (it : SMap) : (encKVs it).length = (it.map kvLen).sum := by
  induction it with
  | nil => rfl
  | cons kv r ih => simp [encKVs, kvLen] at ih ⊢; omega

theorem blenKVs_eq : ∀ (it : SMap) (off : Nat), blenKVs it off = off + (it.map kvLen).sum
  | [], off => by simp [blenKVs]
  | (k, v) :: r, off => by simp [blenKVs, blenKVs_eq r, kvLen]; omega

theorem encKVs_length_perm {it1 it2 : SMap} (h : it1.Perm it2) : (encKVs it1).length = (encKVs it2).length := by
  rw [encKVs_length, encKVs_length]; exact (h.map kvLen).sum_nat

/-- the iteration sequence `it` enumerates the map of the optional field (nothing to say if absent) -/
def IterOf (extra : Option SMap) (it : SMap) : Prop := ∀ m, extra = some m → it.Perm m

theorem bLengthBase_eq (p : Option Base) (it1 it2 : SMap)
    (h1 : ∀ q, p = some q → IterOf q.extra it1) (h2 : ∀ q, p = some q → IterOf q.extra it2) :
    bLengthBase p it1 = (encBase p it2).length := by
  cases p with
  | none => rfl
  | some q =>
    cases he : q.extra with
    | none => simp [bLengthBase, blenExtra, encBase, Base.fields, he, encFields, Fld.enc, fStr]; omega
    | some m =>
      have hp : it1.Perm it2 := (h1 q rfl m he).trans (h2 q rfl m he).symm
      have := encKVs_length_perm hp
      simp [bLengthBase, blenExtra, encBase, Base.fields, he, encFields, Fld.enc, fStr, fMapSS, encMapSS,
        blenKVs_eq, ← encKVs_length] at this ⊢
      omega

theorem bLengthBaseResp_eq (p : Option BaseResp) (it1 it2 : SMap)
    (h1 : ∀ q, p = some q → IterOf q.extra it1) (h2 : ∀ q, p = some q → IterOf q.extra it2) :
    bLengthBaseResp p it1 = (encBaseResp p it2).length := by
  cases p with
  | none => rfl
  | some q =>
    cases he : q.extra with
    | none =>
      simp [bLengthBaseResp, blenExtra, encBaseResp, BaseResp.fields, he, encFields, Fld.enc, fStr, fI32]; omega
    | some m =>
      have hp : it1.Perm it2 := (h1 q rfl m he).trans (h2 q rfl m he).symm
      have := encKVs_length_perm hp
      simp [bLengthBaseResp, blenExtra, encBaseResp, BaseResp.fields, he, encFields, Fld.enc, fStr, fI32, fMapSS,
        encMapSS, blenKVs_eq, ← encKVs_length] at this ⊢
      omega

theorem bLengthAppEx_eq (e : AppEx) : bLengthAppEx e = (encAppEx e).length := by
  simp [bLengthAppEx, encAppEx, AppEx.fields, encFields, Fld.enc, fStr, fI32]; omega

/-! ## running a realised writer on a whole buffer -/

theorem realises_run (thr : Nat) (w : Bool) (f : WStep) (sg : List Seg) (h : Realises thr w f sg) (b : Bytes)
    (hb : (linSegs thr w sg).length ≤ b.length) :
    f (⟨b, []⟩, 0) = .ok (⟨linSegs thr w sg ++ b.drop (linSegs thr w sg).length,
                            directsOf thr w b.length 0 sg⟩, (linSegs thr w sg).length) := by
  have := h [] b [] hb
  simpa using this

theorem linSegs_length_le (thr : Nat) (w : Bool) (sg : List Seg) :
    (linSegs thr w sg).length ≤ (encSegs sg).length := by
  have := lin_add_directs thr w 0 sg 0
  omega

/-- C15 in segment form: for every buffer that holds the encoding, splicing the direct writes into the
    linear buffer gives the encoding (followed by the untouched rest of the buffer) -/
theorem splice_run (thr : Nat) (w : Bool) (sg : List Seg) (b : Bytes) (hb : (encSegs sg).length ≤ b.length) :
    (splice (linSegs thr w sg ++ b.drop (linSegs thr w sg).length) (directsOf thr w b.length 0 sg)).take
        (encSegs sg).length = encSegs sg := by
  have hle := linSegs_length_le thr w sg
  have hL : b.length = ([] : Bytes).length + (linSegs thr w sg).length + (b.drop (linSegs thr w sg).length).length := by
    simp; omega
  have h := spliceAux_segs thr w sg [] (b.drop (linSegs thr w sg).length) 0 b.length (by simp) hL
  simp only [List.nil_append, List.length_nil, List.drop_nil] at h
  unfold splice
  rw [h, List.take_take]
  have hlen : (linSegs thr w sg ++ b.drop (linSegs thr w sg).length).length = b.length := by simp; omega
  rw [hlen, Nat.min_eq_left hb, List.take_left' rfl]

end Verif

/-
  Lemmas/MemDecodeRun: RUNS of decodes (C16).  State = span cache, heap, the inputs the user holds and
  the results returned so far.  `DecStep A` = one step while the user watches the result `A`:
  a decode (any configuration, any input that exists and respects the span reserve lines — an earlier
  result included), a failing decode, a user write into an input, a user write into / append to one of
  the OTHER results, an environment step, a new input buffer.  The invariant `DInv` (cache invariant,
  everything below the reserve lines, results pairwise disjoint and disjoint from the inputs) holds
  along every run, and the bytes of `A` never change.
-/
import Verif.Lemmas.MemDecode
namespace Verif.Mem
open Verif Verif.Heap

structure DSt where
  c : SpanCache
  h : Heap
  ins : List Slice
  res : List Slice

structure DInv (s : DSt) : Prop where
  cache : CacheInv s.c s.h
  ok : ∀ f, f ∈ s.ins ∨ f ∈ s.res → InputOK s.h f ∧ Below s.c s.h f
  rr : ∀ a ∈ s.res, ∀ b ∈ s.res, a ≠ b → a.CapDisjoint b
  ri : ∀ a ∈ s.res, ∀ i ∈ s.ins, a.CapDisjoint i

theorem CapDisjoint.symm {s t : Slice} (h : s.CapDisjoint t) : t.CapDisjoint s := by
  unfold Slice.CapDisjoint at *
  rcases h with h | h | h | h | h
  · exact Or.inr (Or.inl h)
  · exact Or.inl h
  · exact Or.inr (Or.inr (Or.inl (Ne.symm h)))
  · exact Or.inr (Or.inr (Or.inr (Or.inr h)))
  · exact Or.inr (Or.inr (Or.inr (Or.inl h)))

/-- capacity-disjointness only looks at object, offset and capacity -/
theorem CapDisjoint.congr_left {s s' t : Slice} (h : s.CapDisjoint t) (ho : s'.obj = s.obj)
    (hf : s'.off = s.off) (hc : s'.cap = s.cap) : s'.CapDisjoint t := by
  unfold Slice.CapDisjoint at *; rw [ho, hf, hc]; exact h

theorem InputOK.of_keeps {h h' : Heap} {f : Slice} (hi : InputOK h f) (hk : Keeps h h') : InputOK h' f := by
  obtain ⟨hl, x, hx, hb, hf⟩ := hi
  obtain ⟨x', hx', ho, _, hlen⟩ := hk _ x hx
  exact ⟨hl, x', hx', by omega, by rw [ho]; exact hf⟩

theorem CacheInv.of_keeps {c : SpanCache} {h h' : Heap} (hi : CacheInv c h) (hk : Keeps h h') : CacheInv c h' :=
  ⟨fun i sp hs => by
      obtain ⟨x, hx, hg, hb⟩ := (hi.spans i sp hs).buf
      obtain ⟨x', hx', ho, _, hl⟩ := hk _ x hx
      exact ⟨(hi.spans i sp hs).read_le, x', hx', by rw [ho]; exact hg, by omega⟩,
   hi.distinct, hi.sizes, hi.len⟩

theorem Below.of_size {c : SpanCache} {h h' : Heap} {f : Slice} (hb : Below c h f) (hs : h.size ≤ h'.size) :
    Below c h' f := ⟨Nat.lt_of_lt_of_le hb.1 hs, hb.2⟩

/-- a slice in an object that did not exist when the cache was last touched is below every reserve line -/
theorem Below.of_fresh {c : SpanCache} {h h' : Heap} {f : Slice} (hc : CacheInv c h) (hf : h.size ≤ f.obj)
    (hlt : f.obj < h'.size) : Below c h' f := by
  refine ⟨hlt, fun i sp hs heq => ?_⟩
  obtain ⟨x, hx, _⟩ := (hc.spans i sp hs).buf
  have := obj?_lt h _ x hx
  omega

theorem keeps_userWrite (h : Heap) (f : Slice) (p : Nat) (d : Bytes) (hf : InputOK h f)
    (hp : f.off ≤ p ∧ p + d.length ≤ f.off + f.cap) : Keeps h (h.userWrite f.obj p d) := by
  obtain ⟨_, x, hx, hb, _⟩ := hf
  exact Keeps.of_sameShape (sameShape_setData h f.obj p d (fun y hy => by rw [hx] at hy; cases hy; omega))

/-- what `append` does to the heap and to the slice header -/
theorem goAppend_shape (h : Heap) (t : Slice) (d : Bytes) (slack : Nat) (ht : InputOK h t) :
    Keeps h (goAppend h t d slack).2 ∧ InputOK (goAppend h t d slack).2 (goAppend h t d slack).1 ∧
    (((goAppend h t d slack).1.obj = t.obj ∧ (goAppend h t d slack).1.off = t.off ∧
        (goAppend h t d slack).1.cap = t.cap) ∨
     ((goAppend h t d slack).1.obj = h.size ∧ h.size < (goAppend h t d slack).2.size)) := by
  obtain ⟨hl, x, hx, hb, hf⟩ := ht
  unfold goAppend
  by_cases hfit : t.len + d.length ≤ t.cap
  · rw [if_pos hfit]
    simp only []
    have hk := keeps_userWrite h t (t.off + t.len) d ⟨hl, x, hx, hb, hf⟩ (by omega)
    obtain ⟨x', hx', ho, _, hlen⟩ := hk _ x hx
    exact ⟨hk, ⟨hfit, x', hx', by show t.off + t.cap ≤ _; omega, by rw [ho]; exact hf⟩, Or.inl ⟨trivial, trivial, trivial⟩⟩
  · rw [if_neg hfit]
    simp only []
    obtain ⟨y, hy, hyg, hyl⟩ := gcAlloc_new h (t.len + d.length) (t.len + d.length + slack)
    have hext := extends_gcAlloc h (t.len + d.length) (t.len + d.length + slack)
    have hvl : (h.view t).length ≤ t.len := bytes_length_le h _ _ _
    generalize h.view t = v at hvl
    generalize (h.gcAlloc (t.len + d.length) (t.len + d.length + slack)).2 = h1 at hy hext
    have hb1 : ∀ z, h1.obj? h.size = some z → 0 + v.length ≤ z.data.length := by
      intro z hz; rw [hy] at hz; cases hz; omega
    have hss1 := sameShape_setData h1 h.size 0 v hb1
    obtain ⟨y1, hy1, ho1, _, hyl1⟩ := hss1.obj? _ y hy
    have hb2 : ∀ z, (h1.setData h.size 0 v).obj? h.size = some z → t.len + d.length ≤ z.data.length := by
      intro z hz; rw [hy1] at hz; cases hz; omega
    have hss2 := sameShape_setData (h1.setData h.size 0 v) h.size t.len d hb2
    obtain ⟨y2, hy2, ho2, _, hyl2⟩ := hss2.obj? _ y1 hy1
    have hk : Keeps h ((h1.setData h.size 0 v).setData h.size t.len d) :=
      (Keeps.of_extends hext).trans ((Keeps.of_sameShape hss1).trans (Keeps.of_sameShape hss2))
    refine ⟨hk, ⟨by simp, y2, by simpa [Heap.userWrite] using hy2, by simp; omega, by rw [ho2, ho1, hyg]; decide⟩,
      Or.inr ⟨rfl, ?_⟩⟩
    have := obj?_lt _ _ y2 hy2
    simpa [Heap.userWrite] using this

/-- replace the slice header `t` by `t'` in a list of results -/
def replaceSlice (l : List Slice) (t t' : Slice) : List Slice := l.map (fun x => if x = t then t' else x)

theorem mem_replaceSlice {l : List Slice} {t t' f : Slice} (hf : f ∈ replaceSlice l t t') :
    (f = t' ∧ t ∈ l) ∨ (f ∈ l ∧ f ≠ t) := by
  unfold replaceSlice at hf
  obtain ⟨x, hx, rfl⟩ := List.mem_map.mp hf
  by_cases hxt : x = t
  · rw [if_pos hxt]; exact Or.inl ⟨rfl, hxt ▸ hx⟩
  · rw [if_neg hxt]; exact Or.inr ⟨hx, hxt⟩

theorem mem_replaceSlice_of_ne {l : List Slice} {t t' a : Slice} (ha : a ∈ l) (hne : a ≠ t) :
    a ∈ replaceSlice l t t' := by
  unfold replaceSlice
  exact List.mem_map.mpr ⟨a, ha, by rw [if_neg hne]⟩

/-- one step of a run while the result `A` is watched -/
inductive DecStep (A : Slice) : DSt → DSt → Prop
  | decode (st : DSt) (cfg : DecCfg) (buf s : Slice) (l : Nat) (c' : SpanCache) (h' : Heap)
      (hin : InputOK st.h buf) (hb : Below st.c st.h buf)
      (hrun : binReadBinary cfg st.c st.h buf = (.ok (s, l), c', h')) :
      DecStep A st ⟨c', h', st.ins, s :: st.res⟩
  | decodeErr (st : DSt) (cfg : DecCfg) (buf : Slice) (e : TErr × Nat) (c' : SpanCache) (h' : Heap)
      (hin : InputOK st.h buf) (hrun : binReadBinary cfg st.c st.h buf = (.error e, c', h')) :
      DecStep A st ⟨c', h', st.ins, st.res⟩
  /-- the user overwrites any part of the capacity region of one of its input buffers -/
  | writeInput (st : DSt) (i : Slice) (p : Nat) (d : Bytes) (hi : i ∈ st.ins)
      (hp : i.off ≤ p ∧ p + d.length ≤ i.off + i.cap) :
      DecStep A st ⟨st.c, st.h.userWrite i.obj p d, st.ins, st.res⟩
  /-- the user overwrites (a prefix of) another result -/
  | writeResult (st : DSt) (t : Slice) (d : Bytes) (ht : t ∈ st.res) (hne : t ≠ A) (hd : d.length ≤ t.len) :
      DecStep A st ⟨st.c, st.h.userWrite t.obj t.off d, st.ins, st.res⟩
  /-- the user appends to another result (in place or into a fresh allocation) -/
  | append (st : DSt) (t : Slice) (d : Bytes) (slack : Nat) (ht : t ∈ st.res) (hne : t ≠ A) :
      DecStep A st ⟨st.c, (goAppend st.h t d slack).2, st.ins, replaceSlice st.res t (goAppend st.h t d slack).1⟩
  | env (st : DSt) (h' : Heap) (he : Env st.h h') : DecStep A st ⟨st.c, h', st.ins, st.res⟩
  /-- the user obtains a new input buffer in memory allocated after everything so far -/
  | newInput (st : DSt) (f : Slice) (h' : Heap) (he : Extends st.h h') (hf : st.h.size ≤ f.obj)
      (hok : InputOK h' f) : DecStep A st ⟨st.c, h', f :: st.ins, st.res⟩

inductive DecSteps (A : Slice) : DSt → DSt → Prop
  | refl (a : DSt) : DecSteps A a a
  | cons {a b c : DSt} (s : DecStep A a b) (t : DecSteps A b c) : DecSteps A a c

/-- a heap change that keeps shapes (and only grows the heap) keeps the invariant of an unchanged state -/
theorem DInv.of_keeps {st : DSt} {h' : Heap} (hi : DInv st) (hk : Keeps st.h h') :
    DInv ⟨st.c, h', st.ins, st.res⟩ :=
  ⟨hi.cache.of_keeps hk, fun f hf => ⟨(hi.ok f hf).1.of_keeps hk, (hi.ok f hf).2.of_size hk.size⟩, hi.rr, hi.ri⟩

theorem DecStep.ok {A : Slice} {a b : DSt} (s : DecStep A a b) (hi : DInv a) (hA : A ∈ a.res) :
    DInv b ∧ A ∈ b.res ∧ b.h.view A = a.h.view A := by
  have hAok := hi.ok A (Or.inr hA)
  cases s with
  | decode cfg buf s l c' h' hin hb hrun =>
    obtain ⟨_, _, _, q4, _, _, _, q8, q9, q10, q11, _, q13, ⟨x, hx, hxg, hxb⟩, qk⟩ :=
      binReadBinary_ok cfg a.c a.h buf s l c' h' hi.cache hin hb hrun
    have hsok : InputOK h' s := ⟨q4, x, hx, hxb, by rw [hxg]; decide⟩
    refine ⟨⟨q10, ?_, ?_, ?_⟩, List.mem_cons_of_mem _ hA, ?_⟩
    · intro f hf
      rcases hf with hf | hf
      · exact ⟨(hi.ok f (Or.inl hf)).1.of_keeps qk, (q8 f (hi.ok f (Or.inl hf)).2).2⟩
      · rcases List.mem_cons.mp hf with rfl | hf
        · exact ⟨hsok, q9⟩
        · exact ⟨(hi.ok f (Or.inr hf)).1.of_keeps qk, (q8 f (hi.ok f (Or.inr hf)).2).2⟩
    · intro x1 h1 x2 h2 hne
      rcases List.mem_cons.mp h1 with e1 | m1
      · rcases List.mem_cons.mp h2 with e2 | m2
        · exact absurd (e1.trans e2.symm) hne
        · rw [e1]; exact (q8 x2 (hi.ok x2 (Or.inr m2)).2).1
      · rcases List.mem_cons.mp h2 with e2 | m2
        · rw [e2]; exact CapDisjoint.symm (q8 x1 (hi.ok x1 (Or.inr m1)).2).1
        · exact hi.rr x1 m1 x2 m2 hne
    · intro x1 h1 i hi'
      rcases List.mem_cons.mp h1 with rfl | h1
      · exact (q8 i (hi.ok i (Or.inl hi')).2).1
      · exact hi.ri x1 h1 i hi'
    · exact view_of_onlyWrote q11 hAok.2.1 hAok.1.1 (q8 A hAok.2).1 q4
  | decodeErr cfg buf e c' h' hin hrun =>
    obtain ⟨rfl, rfl⟩ := binReadBinary_err cfg a.c a.h buf e c' h' hin hrun
    exact ⟨⟨hi.cache, hi.ok, hi.rr, hi.ri⟩, hA, rfl⟩
  | writeInput i p d hi' hp =>
    have hiok := (hi.ok i (Or.inl hi')).1
    have hk := keeps_userWrite a.h i p d hiok hp
    obtain ⟨_, x, hx, hb, _⟩ := hiok
    exact ⟨hi.of_keeps hk, hA, userWrite_disjoint a.h i A p d hp
      (fun y hy => by rw [hx] at hy; cases hy; exact hb) (hi.ri A hA i hi') hAok.1.1⟩
  | writeResult t d ht hne hd =>
    have htok := (hi.ok t (Or.inr ht)).1
    have hp : t.off ≤ t.off ∧ t.off + d.length ≤ t.off + t.cap := by have := htok.1; omega
    have hk := keeps_userWrite a.h t t.off d htok hp
    obtain ⟨_, x, hx, hb, _⟩ := htok
    exact ⟨hi.of_keeps hk, hA, userWrite_disjoint a.h t A t.off d hp
      (fun y hy => by rw [hx] at hy; cases hy; exact hb) (hi.rr A hA t ht (Ne.symm hne)) hAok.1.1⟩
  | append t d slack ht hne =>
    have htok := (hi.ok t (Or.inr ht)).1
    obtain ⟨hk, hnew, hshape⟩ := goAppend_shape a.h t d slack htok
    have hsz := hk.size
    obtain ⟨_, x, hx, hb, _⟩ := htok
    have hview := (goAppend_ok a.h t d slack ⟨(hi.ok t (Or.inr ht)).1.1, x, hx, hb⟩).2
    generalize goAppend a.h t d slack = ga at hk hnew hshape hsz hview
    -- the new header is below the lines and disjoint from whatever `t` was disjoint from
    have hbelow : Below a.c ga.2 ga.1 := by
      rcases hshape with ⟨e1, e2, e3⟩ | ⟨e1, e2⟩
      · have hb' := (hi.ok t (Or.inr ht)).2
        refine ⟨by rw [e1]; exact Nat.lt_of_lt_of_le hb'.1 hsz, fun i sp hs heq => ?_⟩
        have := hb'.2 i sp hs (by rw [← e1]; exact heq)
        rw [e2, e3]; exact this
      · exact Below.of_fresh hi.cache (by omega) (by omega)
    have hdisj : ∀ f : Slice, f.obj < a.h.size → t.CapDisjoint f → ga.1.CapDisjoint f := by
      intro f hf hd
      rcases hshape with ⟨e1, e2, e3⟩ | ⟨e1, _⟩
      · exact CapDisjoint.congr_left hd e1 e2 e3
      · unfold Slice.CapDisjoint; right; right; left; omega
    refine ⟨⟨hi.cache.of_keeps hk, ?_, ?_, ?_⟩, mem_replaceSlice_of_ne hA (Ne.symm hne), ?_⟩
    · intro f hf
      rcases hf with hf | hf
      · exact ⟨(hi.ok f (Or.inl hf)).1.of_keeps hk, (hi.ok f (Or.inl hf)).2.of_size hsz⟩
      · rcases mem_replaceSlice hf with ⟨rfl, _⟩ | ⟨hf', _⟩
        · exact ⟨hnew, hbelow⟩
        · exact ⟨(hi.ok f (Or.inr hf')).1.of_keeps hk, (hi.ok f (Or.inr hf')).2.of_size hsz⟩
    · intro x1 h1 x2 h2 hne12
      rcases mem_replaceSlice h1 with ⟨e1, _⟩ | ⟨h1', n1⟩
      · rcases mem_replaceSlice h2 with ⟨e2, _⟩ | ⟨h2', n2⟩
        · exact absurd (e1.trans e2.symm) hne12
        · rw [e1]; exact hdisj x2 (hi.ok x2 (Or.inr h2')).2.1 (hi.rr t ht x2 h2' (Ne.symm n2))
      · rcases mem_replaceSlice h2 with ⟨e2, _⟩ | ⟨h2', n2⟩
        · rw [e2]; exact CapDisjoint.symm (hdisj x1 (hi.ok x1 (Or.inr h1')).2.1 (hi.rr t ht x1 h1' (Ne.symm n1)))
        · exact hi.rr x1 h1' x2 h2' hne12
    · intro x1 h1 i hi'
      rcases mem_replaceSlice h1 with ⟨rfl, _⟩ | ⟨h1', _⟩
      · exact hdisj i (hi.ok i (Or.inl hi')).2.1 (hi.ri t ht i hi')
      · exact hi.ri x1 h1' i hi'
    · exact hview A hAok.2.1 hAok.1.1 (hi.rr A hA t ht (Ne.symm hne))
  | env h' he =>
    have hk : Keeps a.h h' := fun o x hx => by
      obtain ⟨x', hx', a1, a2, a3, _⟩ := he.keep o x hx
      exact ⟨x', hx', a1, a2, a3⟩
    obtain ⟨_, x, hx, _, hnf⟩ := hAok.1
    refine ⟨hi.of_keeps hk, hA, ?_⟩
    unfold Heap.view
    exact bytes_congr _ _ _ _ _ (fun q _ _ => Heap.Env.byte? he _ q x hx hnf)
  | newInput f h' he hf hok =>
    have hk := Keeps.of_extends he
    have hflt : f.obj < h'.size := by
      obtain ⟨_, y, hy, _, _⟩ := hok
      exact obj?_lt h' _ y hy
    obtain ⟨_, x, hx, _, _⟩ := hAok.1
    refine ⟨⟨hi.cache.of_keeps hk, ?_, hi.rr, ?_⟩, hA, ?_⟩
    · intro g hg
      rcases hg with hg | hg
      · rcases List.mem_cons.mp hg with rfl | hg
        · exact ⟨hok, Below.of_fresh hi.cache hf hflt⟩
        · exact ⟨(hi.ok g (Or.inl hg)).1.of_keeps hk, (hi.ok g (Or.inl hg)).2.of_size hk.size⟩
      · exact ⟨(hi.ok g (Or.inr hg)).1.of_keeps hk, (hi.ok g (Or.inr hg)).2.of_size hk.size⟩
    · intro x1 h1 i hi'
      rcases List.mem_cons.mp hi' with rfl | hi'
      · unfold Slice.CapDisjoint; right; right; left
        have := (hi.ok x1 (Or.inr h1)).2.1; omega
      · exact hi.ri x1 h1 i hi'
    · unfold Heap.view
      exact bytes_congr _ _ _ _ _ (fun q _ _ => he.byte? _ q x hx)

theorem DecSteps.ok {A : Slice} {a b : DSt} (t : DecSteps A a b) (hi : DInv a) (hA : A ∈ a.res) :
    DInv b ∧ A ∈ b.res ∧ b.h.view A = a.h.view A := by
  induction t with
  | refl a => exact ⟨hi, hA, rfl⟩
  | cons s _ ih =>
    obtain ⟨i1, a1, v1⟩ := s.ok hi hA
    obtain ⟨i2, a2, v2⟩ := ih i1 a1
    exact ⟨i2, a2, v2.trans v1⟩

/-- the state right after `NewSpanCache`, with any inputs that already exist -/
theorem DInv.init (h : Heap) (size : Nat) (hs : size < 4294967296) (ins : List Slice)
    (hins : ∀ f ∈ ins, InputOK h f) :
    DInv ⟨(SpanCache.new h size).1, (SpanCache.new h size).2, ins, []⟩ := by
  obtain ⟨hc, hb⟩ := cacheInv_new h size hs
  have hext : Extends h (SpanCache.new h size).2 := (newAux_ok size spanCacheSize h).2.2.1
  refine ⟨hc, fun f hf => ?_, fun a ha => by simp at ha, fun a ha => by simp at ha⟩
  rcases hf with hf | hf
  · obtain ⟨_, x, hx, _⟩ := hins f hf
    exact ⟨(hins f hf).of_keeps (Keeps.of_extends hext), hb f (obj?_lt h _ x hx)⟩
  · simp at hf

end Verif.Mem

/-
  Lemmas/SkipBRInst: the buffered reader of C04 (Model/Reader, lemmas Reader*.lean) satisfies the
  abstract reader contract `RdC` of Lemmas/SkipBR.lean:

    * `RdOK r`  :=  C04's invariant `Inv r`  ∧  `ri + |remaining r| ≤ 2^40`   (sizes in range:
      every request `n ≤ bigReq = 2^42` then satisfies C04's `InDomain`, hence `Small`)
    * over ANY source (`live := False`): every operation either returns exactly the requested bytes
      of `remaining` or fails with a non-nil error, consuming nothing   ⇒  soundness of the skippers
    * over a LIVE source (`Rd.Live`, C04: the stream is fully buffered/handed over, or no error has
      been seen and the rest of the script is `Steady`): failure only if fewer bytes are left
      ⇒  exactness of the skippers.
  Then: BufferReader.Skip for concrete readers (bytes-backed, io.Reader-backed with a Steady script).
-/
import Verif.Lemmas.SkipBR
import Verif.Lemmas.ReaderSteady
import Verif.Lemmas.ReaderAlloc
import Verif.Lemmas.ReaderChunks
namespace Verif

/-- 2^40 (was 2^60): sizes for which allocation can succeed — mcache has 46 size classes, a capacity
    request above 2^45 panics in the real code (C04 audit: `Next(1<<46)` → `PANIC index`); with
    `ri + |remaining| ≤ 2^40` and requests `≤ 2^42` every request is in C04's `Rd.InDomain` (≤ 2^43) -/
def sizeBound : Nat := 1099511627776

/-- 2^42 (was 2^62): the largest request the instance covers -/
def bigReq : Nat := 4398046511104

/-- reader states the skippers are proved on: C04's invariant, and sizes in range -/
def RdOK (r : Rd) : Prop := Inv r ∧ r.ri + r.remaining.length ≤ sizeBound

/-- `RdOK`, plus liveness of the source when `live` -/
def RdP (live : Prop) (r : Rd) : Prop := RdOK r ∧ (live → r.Live)

theorem RdOK.small {r : Rd} (h : RdOK r) (k : Nat) (hk : k ≤ bigReq) : r.Small k := by
  have := h.2
  unfold Rd.Small; unfold bigReq at hk; unfold sizeBound at this; omega

/-- every request the instance covers is in the domain where the model mirrors the code (C04) -/
theorem RdOK.inDomain {r : Rd} (h : RdOK r) (k : Nat) (hk : k ≤ bigReq) : r.InDomain k := by
  have := h.2
  unfold Rd.InDomain; unfold bigReq at hk; unfold sizeBound at this; omega

theorem advance_remaining (r : Rd) (k : Nat) (hk : k ≤ r.buf.length - r.ri) :
    ({ r with ri := r.ri + k } : Rd).remaining = r.remaining.drop k := by
  unfold Rd.remaining
  simp only []
  rw [List.drop_append_of_le_length (by simp only [List.length_drop]; omega), List.drop_drop]

/-- what the instance needs of a live-source predicate `L` (C04 exports these for `Rd.Live` and for
    the more general `Rd.Live2`): whatever fits is served, `acquire` and cursor moves keep it -/
structure LiveLike (L : Rd → Prop) : Prop where
  serve : ∀ r n, L r → n ≤ r.remaining.length → r.canServe n = true
  keeps : ∀ r n m r', Inv r → r.Small n → L r → r.acquire n = some (m, r') → L r'
  advance : ∀ r k, L r → L ({ r with ri := r.ri + k } : Rd)

theorem liveLike_live : LiveLike Rd.Live :=
  ⟨live_canServe, acquire_keeps_live, fun _ _ h => h.frame rfl rfl⟩

theorem liveLike_live2 : LiveLike Rd.Live2 :=
  ⟨live2_canServe, acquire_keeps_live2, fun _ k h => h.advance k⟩

/-- `RdOK`, plus `L` when `live` -/
def RdPL (L : Rd → Prop) (live : Prop) (r : Rd) : Prop := RdOK r ∧ (live → L r)

theorem acq_facts {L : Rd → Prop} (hL : LiveLike L) {live : Prop} (r : Rd) (k m : Nat) (r1 : Rd)
    (hp : RdPL L live r) (hk : k ≤ bigReq)
    (hacq : r.acquire k = some (m, r1)) (ha : AcqPost r k m r1) :
    r1.remaining = r.remaining ∧ r1.ri = r.ri ∧ (live → L r1) ∧
    (k > m → (∃ e, r1.err = some e) ∧ (live → r.remaining.length < k)) ∧
    (¬ k > m → k ≤ r1.buf.length - r1.ri ∧ k ≤ r.remaining.length) := by
  obtain ⟨⟨hinv, hsz⟩, hlive⟩ := hp
  have hs : r.Small k := RdOK.small ⟨hinv, hsz⟩ k hk
  have hrem := ha.remaining hinv.ri_le
  refine ⟨hrem, ha.ri, fun l => hL.keeps r k m r1 hinv hs (hlive l) hacq, ?_, ?_⟩
  · intro hgt
    have he := (ha.short hgt).1
    refine ⟨?_, fun l => ?_⟩
    · cases h : r1.err with
      | none => exact absurd h he
      | some e => exact ⟨e, rfl⟩
    · have hl := acquire_live r k m r1 hinv hs hacq
      by_cases hfit : k ≤ r.remaining.length
      · have := hl.mpr (hL.serve r k (hlive l) hfit); omega
      · omega
  · intro hge
    have h1 := ha.enough hge
    refine ⟨h1, ?_⟩
    rw [← hrem, remaining_length]; omega

/-- THE INSTANCE: C04's reader satisfies the skippers' reader contract, for any source
    (`live := False`) and exactly (`live := True`) over live sources -/
theorem rdc_instL {L : Rd → Prop} (hL : LiveLike L) (live : Prop) : RdC (RdPL L live) live bigReq := by
  refine ⟨?_, ?_, ?_⟩
  · intro r n hp h0 hb
    have hs := hp.1.small n.toNat hb
    rcases next_cases r n hp.1.1 hs with ⟨hneg, _⟩ | ⟨_, m, r1, hacq, ha, hc⟩
    · omega
    · obtain ⟨hrem, hri, hl1, hfail, hok⟩ := acq_facts hL r n.toNat m r1 hp hb hacq ha
      rcases hc with ⟨hgt, he⟩ | ⟨hge, he⟩
      · obtain ⟨⟨e, hee⟩, hl⟩ := hfail hgt
        right; exact ⟨e, r1, by rw [he, hee], hl⟩
      · obtain ⟨hk, hk2⟩ := hok hge
        left
        refine ⟨_, ?_, hk2, ?_, ?_, ⟨inv_advance r1 _ ha.inv hk, ?_⟩, fun l => hL.advance r1 _ (hl1 l)⟩
        · rw [he, take_eq_remaining_take r1 _ hk, hrem]
        · rw [advance_remaining r1 _ hk, hrem]
        · simp only []; omega
        · rw [advance_remaining r1 _ hk, hrem]
          have := hp.1.2
          simp only [List.length_drop]; omega
  · intro r n hp h0 hb
    have hs := hp.1.small n.toNat hb
    rcases skip_cases r n hp.1.1 hs with ⟨hneg, _⟩ | ⟨_, m, r1, hacq, ha, hc⟩
    · omega
    · obtain ⟨hrem, hri, hl1, hfail, hok⟩ := acq_facts hL r n.toNat m r1 hp hb hacq ha
      rcases hc with ⟨hgt, he⟩ | ⟨hge, he⟩
      · obtain ⟨⟨e, hee⟩, hl⟩ := hfail hgt
        right; exact ⟨e, r1, by rw [he, hee], hl⟩
      · obtain ⟨hk, hk2⟩ := hok hge
        left
        refine ⟨[], _, he, hk2, ?_, ?_, ⟨inv_advance r1 _ ha.inv hk, ?_⟩, fun l => hL.advance r1 _ (hl1 l)⟩
        · rw [advance_remaining r1 _ hk, hrem]
        · simp only []; omega
        · rw [advance_remaining r1 _ hk, hrem]
          have := hp.1.2
          simp only [List.length_drop]; omega
  · intro r n hp h0 hb
    have hs := hp.1.small n.toNat hb
    rcases peek_cases r n hp.1.1 hs with ⟨hneg, _⟩ | ⟨_, m, r1, hacq, ha, hc⟩
    · omega
    · obtain ⟨hrem, hri, hl1, hfail, hok⟩ := acq_facts hL r n.toNat m r1 hp hb hacq ha
      rcases hc with ⟨hgt, he⟩ | ⟨hge, he⟩
      · obtain ⟨⟨e, hee⟩, hl⟩ := hfail hgt
        right; exact ⟨e, r1, by rw [he, hee], hl⟩
      · obtain ⟨hk, hk2⟩ := hok hge
        left
        refine ⟨r1, ?_, hk2, hrem, hri, ⟨ha.inv, ?_⟩, hl1⟩
        · rw [he, take_eq_remaining_take r1 _ hk, hrem]
        · rw [hrem, hri]; exact hp.1.2

theorem rdc_inst (live : Prop) : RdC (RdP live) live bigReq := rdc_instL liveLike_live live

/-- the same over C04's generalised live sources (`Rd.Live2`: `Live`, or a chunked script — chunks of
    any size, an error only on the last one — over a stream that fits the reader's first buffer) -/
theorem rdc_inst2 : RdC (RdPL Rd.Live2 True) True bigReq := rdc_instL liveLike_live2 True

/-! ## BufferReader.Skip on C04's reader -/

/-- exactness over a live source: `skipBR t r` succeeds iff `refBR 64` accepts a prefix of what the
    reader still owes; then exactly that prefix is consumed and ReadLen grows by its length;
    otherwise an error (never a panic) -/
theorem skipBR_live (r : Rd) (t : UInt8) (h : RdOK r) (hl : r.Live) :
    match refBR Facts.defaultRecursionDepth t r.remaining with
    | some n => ∃ r', skipBR t r = .ok ((), r') ∧ r'.remaining = r.remaining.drop n ∧
        r'.readLen = r.readLen + n ∧ RdOK r' ∧ r'.Live
    | none => ∃ e, skipBR t r = .err e := by
  have hm := skipBRAt_m (rdc_inst True) (by decide) Facts.defaultRecursionDepth t r ⟨h, fun _ => hl⟩
  rcases hm with ⟨e, hx, hnone⟩ | ⟨k, a, r', ho, hx, hrem, hri, hp'⟩
  · rw [hnone trivial]; exact ⟨e, hx⟩
  · rw [ho]; exact ⟨r', hx, hrem, hri, hp'.1, hp'.2 trivial⟩

/-- exactness over C04's generalised live sources (`Rd.Live2`) -/
theorem skipBR_live2 (r : Rd) (t : UInt8) (h : RdOK r) (hl : r.Live2) :
    match refBR Facts.defaultRecursionDepth t r.remaining with
    | some n => ∃ r', skipBR t r = .ok ((), r') ∧ r'.remaining = r.remaining.drop n ∧
        r'.readLen = r.readLen + n ∧ RdOK r' ∧ r'.Live2
    | none => ∃ e, skipBR t r = .err e := by
  have hm := skipBRAt_m rdc_inst2 (by decide) Facts.defaultRecursionDepth t r ⟨h, fun _ => hl⟩
  rcases hm with ⟨e, hx, hnone⟩ | ⟨k, a, r', ho, hx, hrem, hri, hp'⟩
  · rw [hnone trivial]; exact ⟨e, hx⟩
  · rw [ho]; exact ⟨r', hx, hrem, hri, hp'.1, hp'.2 trivial⟩

/-- soundness over ANY source (any fragmentation, any error behaviour): success means the grammar
    accepts, and exactly the accepted extent has been consumed -/
theorem skipBR_sound_any (r r' : Rd) (t : UInt8) (h : RdOK r) (hx : skipBR t r = .ok ((), r')) :
    ∃ n, refBR Facts.defaultRecursionDepth t r.remaining = some n ∧
      r'.remaining = r.remaining.drop n ∧ r'.readLen = r.readLen + n ∧ RdOK r' := by
  have hm := skipBRAt_m (rdc_inst False) (by decide) Facts.defaultRecursionDepth t r ⟨h, fun f => f.elim⟩
  rcases hm with ⟨e, hy, _⟩ | ⟨k, a, r1, ho, hy, hrem, hri, hp'⟩
  · unfold skipBR at hx; rw [hy] at hx; cases hx
  · unfold skipBR at hx; rw [hy] at hx
    have := Out.ok.inj hx
    have h2 : r1 = r' := (Prod.mk.inj this).2
    subst h2
    exact ⟨k, ho, hrem, hri, hp'.1⟩

/-- totality over ANY source: a result or an error — never a panic, never out of fuel -/
theorem skipBR_total_any (r : Rd) (t : UInt8) (h : RdOK r) :
    (∃ r', skipBR t r = .ok ((), r')) ∨ (∃ e, skipBR t r = .err e) := by
  have hm := skipBRAt_m (rdc_inst False) (by decide) Facts.defaultRecursionDepth t r ⟨h, fun f => f.elim⟩
  rcases hm with ⟨e, hy, _⟩ | ⟨k, a, r1, ho, hy, hrem, hri, hp'⟩
  · exact Or.inr ⟨e, hy⟩
  · exact Or.inl ⟨r1, hy⟩

/-! ## concrete readers -/

theorem newBytes_remaining (b : Bytes) (cap : Nat) (hcap : b.length ≤ cap) :
    (Rd.newBytes b cap).remaining = b ∧ (Rd.newBytes b cap).ri = 0 := by
  unfold Rd.newBytes; split
  · simp [Rd.remaining]
  · have : b = [] := by apply List.eq_nil_of_length_eq_zero; omega
    simp [Rd.remaining, Rd.newDefault, this]

theorem newBytes_ok (b : Bytes) (cap : Nat) (hcap : b.length ≤ cap) (hcap2 : cap ≤ 18446744073709551616)
    (hb : b.length ≤ sizeBound) : RdOK (Rd.newBytes b cap) := by
  obtain ⟨h1, h2⟩ := newBytes_remaining b cap hcap
  exact ⟨inv_newBytes b cap hcap hcap2, by rw [h1, h2]; omega⟩

theorem newDefault_ok (S : Bytes) (script : List Resp) (hS : S.length ≤ sizeBound) :
    RdOK (Rd.newDefault ⟨S, script⟩) :=
  ⟨inv_newDefault _, by simp [Rd.newDefault, Rd.remaining]; exact hS⟩

theorem newDefault_remaining (S : Bytes) (script : List Resp) :
    (Rd.newDefault ⟨S, script⟩).remaining = S ∧ (Rd.newDefault ⟨S, script⟩).ri = 0 := by
  simp [Rd.newDefault, Rd.remaining]

end Verif

/- Lemmas/Except: helper lemmas for C18. -/
import Verif.Spec.Except
namespace Verif

/-- every default message in the regenerated table is non-empty (checked over the whole table) -/
theorem defaultMsg_nonempty : ∀ p ∈ Facts.defaultAppExcMsg, bytesOf p.2 ≠ [] := by decide

theorem lookup_mem {t : Int} {d : String} :
    ∀ {l : List (Int × String)}, l.lookup t = some d → (t, d) ∈ l := by
  intro l
  induction l with
  | nil => simp [List.lookup]
  | cons hd tl ih =>
    obtain ⟨k, v⟩ := hd
    intro h
    simp only [List.lookup] at h
    split at h
    · rename_i heq
      have : t = k := by simpa using heq
      simp_all
    · exact List.mem_cons_of_mem _ (ih h)

/-- the regenerated format literal has exactly one `%d` verb, between these two parts -/
theorem unknownFormat_parts :
    splitD Facts.appExcUnknownFormat.toList [] = ["unknown exception type [".toList, "]".toList] := by decide

theorem unknownTypeText_eq (t : Int) :
    unknownTypeText t = bytesOf "unknown exception type [" ++ bytesOf (toString t) ++ bytesOf "]" := by
  simp only [unknownTypeText, sprintfD, unknownFormat_parts, joinD, String.ofList_toList, List.append_assoc]

theorem unknownTypeText_ne_nil (t : Int) : unknownTypeText t ≠ [] := by
  have h : bytesOf "unknown exception type [" ≠ [] := by decide
  intro h0
  rw [unknownTypeText_eq] at h0
  simp only [List.append_eq_nil_iff] at h0
  exact h h0.1.1

/-- every name in the regenerated order of PrependError's type tests is one the model knows -/
theorem prependErrorOrder_known :
    ∀ ty ∈ Facts.prependErrorOrder,
      ty ∈ ["*TransportException", "*ProtocolException", "*ApplicationException", "tException"] := by decide

/-- With the regenerated order of type tests, PrependError is this case table (a reordering in the
    source that changes any result — e.g. `tException` first — makes this proof fail). -/
theorem prependError_eq (fresh : Nat) (p : Bytes) (e : Err) :
    prependError fresh p e =
      match e with
      | .transport _ t m => .transport fresh t (p ++ appText t m)
      | .protocol _ t m => .protocol fresh t (p ++ appText t m)
      | .protocolW _ t m _ => .protocol fresh t (p ++ appText t m)
      | .application _ t m => .application fresh t (p ++ appText t m)
      | .foreign _ t tx => .application fresh t (p ++ tx)
      | .plain _ msg => .plain fresh (p ++ msg)
      | .wrapped _ msg _ => .plain fresh (p ++ msg) := by
  cases e <;>
    simp [prependError, Facts.prependErrorOrder, prependDispatch, prependBranch, Err.typeId, Err.text]

/-- `ApplicationException.Error()` never returns the empty string -/
theorem appText_ne_nil (t : Int) (m : Bytes) : appText t m ≠ [] := by
  unfold appText
  split
  · assumption
  · split
    · rename_i d hd
      exact defaultMsg_nonempty _ (lookup_mem hd)
    · exact unknownTypeText_ne_nil t

theorem appText_of_ne_nil (t : Int) {m : Bytes} (h : m ≠ []) : appText t m = m := by
  simp [appText, h]

/-- a message that is `prefix ++ (non-empty)` is printed as it is -/
theorem appText_append (t : Int) (p : Bytes) {s : Bytes} (h : s ≠ []) : appText t (p ++ s) = p ++ s := by
  apply appText_of_ne_nil
  simp [h]

theorem errorsIs_refl (e : Err) : errorsIs e e = true := by
  cases e <;> simp [errorsIs]

theorem nodeMatches_refl (e : Err) : nodeMatches e e = true := by
  simp [nodeMatches]

theorem excMatch_eq (t : Int) (m : Bytes) (tg : Err) :
    excMatch t m tg = (tg.typeId == some t && tg.text == m) := by
  unfold excMatch
  cases tg.typeId <;> simp

theorem isSpec_wrapped (id : Nat) (msg : Bytes) (inner tg : Err) :
    isSpec (.wrapped id msg inner) tg = (Err.wrapped id msg inner == tg || isSpec inner tg) := by
  simp [isSpec, chain, nodeMatches, ownIdMsg]

theorem isSpec_protocol (id : Nat) (t : Int) (m : Bytes) (tg : Err) :
    isSpec (.protocol id t m) tg = (Err.protocol id t m == tg || excMatch t m tg) := by
  simp [isSpec, chain, nodeMatches, ownIdMsg, excMatch_eq]

theorem isSpec_protocolW (id : Nat) (t : Int) (m : Bytes) (c tg : Err) :
    isSpec (.protocolW id t m c) tg =
      (Err.protocolW id t m c == tg || excMatch t m tg || isSpec c tg) := by
  simp [isSpec, chain, nodeMatches, ownIdMsg, excMatch_eq]

/-- the implementation of `errors.Is` (with `ProtocolException.Is` inlined) is the chain search -/
theorem errorsIs_eq_isSpec (e tg : Err) : errorsIs e tg = isSpec e tg := by
  induction e with
  | plain id msg => simp [errorsIs, isSpec, chain, nodeMatches, ownIdMsg]
  | transport id t m => simp [errorsIs, isSpec, chain, nodeMatches, ownIdMsg]
  | application id t m => simp [errorsIs, isSpec, chain, nodeMatches, ownIdMsg]
  | foreign id t m => simp [errorsIs, isSpec, chain, nodeMatches, ownIdMsg]
  | protocol id t m => simp [errorsIs, isSpec_protocol]
  | wrapped id msg inner ih => simp [errorsIs, ih, isSpec_wrapped]
  | protocolW id t m c ih =>
    rw [isSpec_protocolW]
    simp only [errorsIs, ih]
    generalize isSpec c tg = x
    generalize excMatch t m tg = y
    generalize (Err.protocolW id t m c == tg) = z
    cases x <;> cases y <;> cases z <;> rfl

end Verif

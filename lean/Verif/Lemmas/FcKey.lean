/-
  Lemmas/FcKey: the dispatch key `uint32(fid)<<8 | uint32(ftyp)` of the generated FastRead switches.
  With both sign extensions (fid int16, ftyp int8) the key equals a small constant only for the
  non-negative id / type pair it was built from.
-/
import Verif.Model.FastCodec
namespace Verif

/-- a key below 2^23 is hit exactly by a non-negative id and a non-negative type byte -/
theorem fieldKey_eq_small (fid : Nat) (t : UInt8) (c : Nat) (hf : fid < 65536) (hc : c < 8388608) :
    fieldKey fid t = c ↔ (fid < 32768 ∧ t.toNat < 128 ∧ fid * 256 + t.toNat = c) := by
  unfold fieldKey
  by_cases ht : t.toNat < 128
  · have hs8 : sext8 t = t.toNat := by simp [sext8, ht]
    rw [hs8]
    -- the shifted id is a multiple of 256, so OR is addition
    have hmul : ∃ q, (sext16 fid * 256) % 4294967296 = q <<< 8 := by
      refine ⟨(sext16 fid * 256) % 4294967296 / 256, ?_⟩
      rw [Nat.shiftLeft_eq]; omega
    obtain ⟨q, hq⟩ := hmul
    have hor : q <<< 8 ||| t.toNat = q <<< 8 + t.toNat := by
      rw [Nat.shiftLeft_add_eq_or_of_lt (by omega : t.toNat < 2 ^ 8)]
    rw [hq, hor, ← hq]
    unfold sext16
    split <;> omega
  · have hs8 : sext8 t = 4294967040 + t.toNat := by simp [sext8, ht]
    have hle : sext8 t ≤ (sext16 fid * 256) % 4294967296 ||| sext8 t := Nat.right_le_or
    constructor
    · intro h; omega
    · intro h; omega

/-- the `case` constants of (*Base).FastRead select exactly the fields of the IDL -/
theorem caseIdx_base (fid : Nat) (t : UInt8) (hf : fid < 65536) :
    caseIdx Facts.fastReadKeysBase (fieldKey fid t) 0 =
      if fid = 1 ∧ t = 11 then some 0
      else if fid = 2 ∧ t = 11 then some 1
      else if fid = 3 ∧ t = 11 then some 2
      else if fid = 6 ∧ t = 13 then some 3
      else none := by
  have h1 := fieldKey_eq_small fid t 267 hf (by omega)
  have h2 := fieldKey_eq_small fid t 523 hf (by omega)
  have h3 := fieldKey_eq_small fid t 779 hf (by omega)
  have h4 := fieldKey_eq_small fid t 1549 hf (by omega)
  have ht : ∀ n : Nat, n < 256 → (t = UInt8.ofNat n ↔ t.toNat = n) := by
    intro n hn
    constructor
    · intro h; subst h; simp [UInt8.toNat_ofNat']; omega
    · intro h; apply UInt8.toNat_inj.mp; simp [UInt8.toNat_ofNat']; omega
  have t11 := ht 11 (by omega)
  have t13 := ht 13 (by omega)
  simp only [Facts.fastReadKeysBase, caseIdx]
  have e (c : Nat) : ((c : Int) = ((fieldKey fid t : Nat) : Int)) ↔ fieldKey fid t = c := by omega
  simp only [show (267 : Int) = ((267 : Nat) : Int) from rfl, show (523 : Int) = ((523 : Nat) : Int) from rfl,
    show (779 : Int) = ((779 : Nat) : Int) from rfl, show (1549 : Int) = ((1549 : Nat) : Int) from rfl, e,
    h1, h2, h3, h4]
  have t11' : (t = 11) ↔ t.toNat = 11 := t11
  have t13' : (t = 13) ↔ t.toNat = 13 := t13
  simp only [t11', t13']
  repeat' split
  all_goals first | rfl | omega

/-- the `case` constants of (*BaseResp).FastRead select exactly the fields of the IDL -/
theorem caseIdx_resp (fid : Nat) (t : UInt8) (hf : fid < 65536) :
    caseIdx Facts.fastReadKeysBaseResp (fieldKey fid t) 0 =
      if fid = 1 ∧ t = 11 then some 0
      else if fid = 2 ∧ t = 8 then some 1
      else if fid = 3 ∧ t = 13 then some 2
      else none := by
  have h1 := fieldKey_eq_small fid t 267 hf (by omega)
  have h2 := fieldKey_eq_small fid t 520 hf (by omega)
  have h3 := fieldKey_eq_small fid t 781 hf (by omega)
  have ht : ∀ n : Nat, n < 256 → (t = UInt8.ofNat n ↔ t.toNat = n) := by
    intro n hn
    constructor
    · intro h; subst h; simp [UInt8.toNat_ofNat']; omega
    · intro h; apply UInt8.toNat_inj.mp; simp [UInt8.toNat_ofNat']; omega
  have t11' : (t = 11) ↔ t.toNat = 11 := ht 11 (by omega)
  have t8' : (t = 8) ↔ t.toNat = 8 := ht 8 (by omega)
  have t13' : (t = 13) ↔ t.toNat = 13 := ht 13 (by omega)
  simp only [Facts.fastReadKeysBaseResp, caseIdx]
  have e (c : Nat) : ((c : Int) = ((fieldKey fid t : Nat) : Int)) ↔ fieldKey fid t = c := by omega
  simp only [show (267 : Int) = ((267 : Nat) : Int) from rfl, show (520 : Int) = ((520 : Nat) : Int) from rfl,
    show (781 : Int) = ((781 : Nat) : Int) from rfl, e, h1, h2, h3, t11', t8', t13']
  repeat' split
  all_goals first | rfl | omega

end Verif

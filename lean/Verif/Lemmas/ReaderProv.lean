/-
  Lemmas/ReaderProv: where the reader's errors come from.
  The error field only ever holds the source's own error (`firstErr` of the script: the first
  scripted error, or io.EOF at exhaustion) or io.ErrNoProgress, and the latter only after
  `maxConsecutiveEmptyReads` consecutive reads that delivered nothing with a nil error.
-/
import Verif.Lemmas.ReaderOps
namespace Verif

theorem Src.read_err (s : Src) (room : Nat) (e : RErr) (h : (s.read room).2.1 = some e) :
    e = firstErr s.script := by
  unfold Src.read at h
  split at h
  · rename_i hs; simp at h; rw [hs]; simp [firstErr, h]
  · rename_i x rest hs; simp only [] at h; rw [hs]; simp [firstErr, h]

theorem Src.read_noerr (s : Src) (room : Nat) (h : (s.read room).2.1 = none) :
    ∃ x, s.script = x :: (s.read room).2.2.script ∧ x.err = none ∧
      (s.read room).1.length = min (min x.k room) s.stream.length ∧
      firstErr (s.read room).2.2.script = firstErr s.script := by
  unfold Src.read at h ⊢
  split at h
  · simp at h
  · rename_i x rest hs
    simp only [] at h
    rw [hs]
    refine ⟨x, rfl, h, ?_, ?_⟩
    · simp only [List.length_take]; omega
    · simp [firstErr, h]

/-- the read loop sets the error to the source's own error or to io.ErrNoProgress; on the
    no-error exit the source's own error is still ahead -/
theorem readLoop_err (fuel i : Nat) (r : Rd) (n m : Nat) (r' : Rd)
    (h : Rd.readLoop fuel i r n = some (m, r')) :
    (r'.err = r.err ∧ firstErr r'.src.script = firstErr r.src.script) ∨
    r'.err = some .noProgress ∨ r'.err = some (firstErr r.src.script) := by
  induction fuel generalizing i r with
  | zero => simp [Rd.readLoop] at h
  | succ f ih =>
    unfold Rd.readLoop at h
    split at h
    · simp only [Option.some.injEq, Prod.mk.injEq] at h
      obtain ⟨_, hr⟩ := h; subst hr
      right; left; rfl
    · simp only [] at h
      split at h
      · rename_i e he
        simp only [Option.some.injEq, Prod.mk.injEq] at h
        obtain ⟨_, hr⟩ := h; subst hr
        right; right
        simp only []; rw [Src.read_err _ _ e he]
      · rename_i he
        obtain ⟨x, _, _, _, hfe⟩ := Src.read_noerr _ _ he
        split at h
        · simp only [Option.some.injEq, Prod.mk.injEq] at h
          obtain ⟨_, hr⟩ := h; subst hr
          left; exact ⟨rfl, hfe⟩
        · split at h
          · have := ih _ _ h
            simp only [] at this
            rw [hfe] at this; exact this
          · have := ih _ _ h
            simp only [] at this
            rw [hfe] at this; exact this

/-- `r'.err = io.ErrNoProgress` freshly set by the loop means: the last `zs` scripted reads all
    returned a nil error and no data (given the room offered and the stream left), and there were
    `maxConsecutiveEmptyReads` of them (counting the `i` the loop started with when nothing else
    happened) — unless io.ErrNoProgress is the source's own error. -/
theorem readLoop_noProgress (fuel i : Nat) (r : Rd) (n m : Nat) (r' : Rd)
    (hi : i ≤ Facts.maxConsecutiveEmptyReads) (hnone : r.err = none)
    (h : Rd.readLoop fuel i r n = some (m, r')) (he : r'.err = some .noProgress) :
    firstErr r.src.script = .noProgress ∨
    ∃ pre zs, r.src.script = pre ++ zs ++ r'.src.script ∧
      ((pre = [] ∧ zs.length + i = Facts.maxConsecutiveEmptyReads ∧ r'.buf = r.buf ∧
          r'.src.stream = r.src.stream) ∨
        zs.length = Facts.maxConsecutiveEmptyReads) ∧
      ∀ z ∈ zs, z.err = none ∧ min (min z.k (r'.cap - r'.buf.length)) r'.src.stream.length = 0 := by
  induction fuel generalizing i r with
  | zero => simp [Rd.readLoop] at h
  | succ f ih =>
    unfold Rd.readLoop at h
    split at h
    · rename_i hge
      simp only [Option.some.injEq, Prod.mk.injEq] at h
      obtain ⟨_, hr⟩ := h; subst hr
      right
      exact ⟨[], [], by simp, Or.inl ⟨rfl, by simp; omega, rfl, rfl⟩, by simp⟩
    · rename_i hlt
      simp only [] at h
      split at h
      · rename_i e hre
        simp only [Option.some.injEq, Prod.mk.injEq] at h
        obtain ⟨_, hr⟩ := h; subst hr
        simp only [Option.some.injEq] at he
        left; rw [← Src.read_err _ _ e hre]; exact he
      · rename_i hre
        obtain ⟨x, hx, hxe, hxl, hfe⟩ := Src.read_noerr _ _ hre
        split at h
        · simp only [Option.some.injEq, Prod.mk.injEq] at h
          obtain ⟨_, hr⟩ := h; subst hr
          simp only [] at he; rw [hnone] at he; simp at he
        · have hpost : r'.cap = r.cap := by
            split at h <;> exact (readLoop_post _ _ _ _ _ _ h).cap
          split at h
          · -- progress, the counter restarts
            rcases ih 0 _ (by omega) (by exact hnone) h with hl | ⟨pre, zs, hs, hc, hz⟩
            · left; simp only [] at hl; rw [← hfe]; exact hl
            · right
              refine ⟨x :: pre, zs, ?_, ?_, hz⟩
              · rw [hx]; simp only [] at hs; rw [hs]; simp
              · right; rcases hc with ⟨_, hc, _⟩ | hc <;> omega
          · -- an empty read
            rename_i hzero
            have hd0 : (r.src.read (r.cap - r.buf.length)).1 = [] := by
              apply List.eq_nil_of_length_eq_zero; omega
            rcases ih (i+1) _ (by omega) (by exact hnone) h with hl | ⟨pre, zs, hs, hc, hz⟩
            · left; simp only [] at hl; rw [← hfe]; exact hl
            · right
              simp only [] at hs hc
              rcases hc with ⟨hpre, hlen, hbuf, hstr⟩ | hc
              · refine ⟨[], x :: zs, ?_, Or.inl ⟨rfl, ?_, ?_, ?_⟩, ?_⟩
                · rw [hx, hs, hpre]; simp
                · simp only [List.length_cons]; omega
                · rw [hbuf, hd0]; simp
                · rw [hstr]
                  have := Src.read_stream r.src (r.cap - r.buf.length)
                  rw [hd0] at this; simpa using this
                · intro z hz'
                  rcases List.mem_cons.mp hz' with hzx | hzz
                  · subst hzx
                    refine ⟨hxe, ?_⟩
                    rw [hbuf, hd0, hstr, hpost]
                    simp only [List.append_nil]
                    have hs2 := Src.read_stream r.src (r.cap - r.buf.length)
                    rw [hd0] at hs2; simp only [List.nil_append] at hs2
                    rw [hs2]
                    rw [hd0] at hxl; simp only [List.length_nil] at hxl
                    omega
                  · exact hz z hzz
              · exact ⟨x :: pre, zs, by rw [hx, hs]; simp, Or.inr hc, hz⟩

/-- the same at the level of `acquire`: a freshly reported io.ErrNoProgress has
    `maxConsecutiveEmptyReads` consecutive empty reads right behind it -/
theorem acquire_noProgress (r : Rd) (n m : Nat) (r' : Rd) (hinv : Inv r) (hs : r.Small n)
    (hnone : r.err = none) (h : r.acquire n = some (m, r')) (he : r'.err = some .noProgress) :
    firstErr r.src.script = .noProgress ∨
    ∃ pre zs, r.src.script = pre ++ zs ++ r'.src.script ∧
      zs.length = Facts.maxConsecutiveEmptyReads ∧
      ∀ z ∈ zs, z.err = none ∧ min (min z.k (r'.cap - r'.buf.length)) r'.src.stream.length = 0 := by
  unfold Rd.acquire at h
  split at h
  · simp only [Option.some.injEq, Prod.mk.injEq] at h
    obtain ⟨_, hr⟩ := h; subst hr; rw [hnone] at he; simp at he
  · unfold Rd.acquireSlow at h
    split at h
    · simp only [Option.some.injEq, Prod.mk.injEq] at h
      obtain ⟨_, hr⟩ := h; subst hr; rw [hnone] at he; simp at he
    · simp only [] at h
      have hpr := prepare_spec r n hinv hs
      rcases readLoop_noProgress _ 0 _ _ _ _ (by omega) (by rw [hpr.err]; exact hnone) h he
        with hl | ⟨pre, zs, hsc, hc, hz⟩
      · left; rw [hpr.src] at hl; exact hl
      · right
        rw [hpr.src] at hsc
        refine ⟨pre, zs, hsc, ?_, hz⟩
        rcases hc with ⟨_, hc, _⟩ | hc <;> omega

/-- the error is sticky: once it is set, `acquire` changes nothing — in particular the source is
    never read again -/
theorem acquire_sticky (r : Rd) (n m : Nat) (r' : Rd) (he : r.err ≠ none)
    (h : r.acquire n = some (m, r')) : r' = r := by
  unfold Rd.acquire at h
  split at h
  · simp only [Option.some.injEq, Prod.mk.injEq] at h
    exact h.2.symm
  · unfold Rd.acquireSlow at h
    split at h
    · simp only [Option.some.injEq, Prod.mk.injEq] at h
      exact h.2.symm
    · rename_i herr
      cases hx : r.err with
      | none => exact absurd hx he
      | some e => rw [hx] at herr; simp at herr

/-! ## `quietRun`: a contiguous run of error-free entries is found -/

theorem quietRun_of_ge (M : Nat) (l : List Resp) (run : Nat) (h : run ≥ M) : quietRun M l run = true := by
  cases l <;> simp [quietRun, h]

theorem quietRun_append_quiet (M : Nat) (zs b : List Resp) (run : Nat)
    (hz : ∀ z ∈ zs, z.err = none) (hl : run + zs.length ≥ M) : quietRun M (zs ++ b) run = true := by
  induction zs generalizing run with
  | nil => exact quietRun_of_ge _ _ _ (by simpa using hl)
  | cons z zs ih =>
    have hze := hz z (by simp)
    simp only [List.cons_append, quietRun, hze, Option.isNone_none, if_true, Bool.or_eq_true]
    right
    apply ih
    · intro w hw; exact hz w (by simp [hw])
    · simp only [List.length_cons] at hl; omega

theorem quietRun_infix (M : Nat) (a zs b : List Resp) (run : Nat)
    (hz : ∀ z ∈ zs, z.err = none) (hl : zs.length ≥ M) : quietRun M (a ++ zs ++ b) run = true := by
  induction a generalizing run with
  | nil => simpa using quietRun_append_quiet M zs b run hz (by omega)
  | cons x a ih =>
    simp only [List.cons_append, quietRun, Bool.or_eq_true]
    right
    split
    · exact ih _
    · exact ih _

/-! ## the provenance invariant along histories -/

theorem readLoop_suffix (fuel i : Nat) (r : Rd) (n m : Nat) (r' : Rd)
    (h : Rd.readLoop fuel i r n = some (m, r')) : ∃ used, r.src.script = used ++ r'.src.script := by
  induction fuel generalizing i r with
  | zero => simp [Rd.readLoop] at h
  | succ f ih =>
    have hstep : ∃ u, r.src.script = u ++ (r.src.read (r.cap - r.buf.length)).2.2.script := by
      unfold Src.read; split
      · exact ⟨[], by simp⟩
      · rename_i x rest hs; exact ⟨[x], by simp [hs]⟩
    obtain ⟨u, hu⟩ := hstep
    unfold Rd.readLoop at h
    split at h
    · simp only [Option.some.injEq, Prod.mk.injEq] at h
      obtain ⟨_, hr⟩ := h; subst hr
      exact ⟨[], by simp⟩
    · simp only [] at h
      split at h
      · simp only [Option.some.injEq, Prod.mk.injEq] at h
        obtain ⟨_, hr⟩ := h; subst hr
        exact ⟨u, hu⟩
      · split at h
        · simp only [Option.some.injEq, Prod.mk.injEq] at h
          obtain ⟨_, hr⟩ := h; subst hr
          exact ⟨u, hu⟩
        · split at h
          · obtain ⟨v, hv⟩ := ih _ _ h
            simp only [] at hv
            exact ⟨u ++ v, by rw [hu, hv, List.append_assoc]⟩
          · obtain ⟨v, hv⟩ := ih _ _ h
            simp only [] at hv
            exact ⟨u ++ v, by rw [hu, hv, List.append_assoc]⟩

/-- over a source with script `s0`: the unread script is a suffix of `s0`; the error field is nil
    while the source's own error is still ahead, else it is that error, or io.ErrNoProgress with
    `maxConsecutiveEmptyReads` consecutive error-free entries in `s0` -/
structure Prov (s0 : List Resp) (r : Rd) : Prop where
  suffix : ∃ used, s0 = used ++ r.src.script
  err : (r.err = none ∧ firstErr r.src.script = firstErr s0) ∨
        (∃ e, r.err = some e ∧
          (e = firstErr s0 ∨ (e = .noProgress ∧ quietRun Facts.maxConsecutiveEmptyReads s0 0 = true)))

theorem prov_newDefault (S : Bytes) (s0 : List Resp) : Prov s0 (Rd.newDefault ⟨S, s0⟩) :=
  ⟨⟨[], by simp [Rd.newDefault]⟩, Or.inl ⟨rfl, rfl⟩⟩

/-- a bytes reader's source is the empty script: its own error is io.EOF -/
theorem prov_newBytes (data : Bytes) (cap : Nat) : Prov [] (Rd.newBytes data cap) := by
  unfold Rd.newBytes; split
  · exact ⟨⟨[], by simp⟩, Or.inl ⟨rfl, rfl⟩⟩
  · exact prov_newDefault [] []

theorem acquire_prov (s0 : List Resp) (r : Rd) (n m : Nat) (r' : Rd) (hinv : Inv r) (hs : r.Small n)
    (hp : Prov s0 r) (h : r.acquire n = some (m, r')) : Prov s0 r' := by
  unfold Rd.acquire at h
  split at h
  · simp only [Option.some.injEq, Prod.mk.injEq] at h
    obtain ⟨_, hr⟩ := h; subst hr; exact hp
  · unfold Rd.acquireSlow at h
    split at h
    · simp only [Option.some.injEq, Prod.mk.injEq] at h
      obtain ⟨_, hr⟩ := h; subst hr; exact hp
    · rename_i herr
      have hnone : r.err = none := by
        cases he : r.err with
        | none => rfl
        | some e => rw [he] at herr; simp at herr
      simp only [] at h
      have hpr := prepare_spec r n hinv hs
      obtain ⟨used, hused⟩ := hp.suffix
      obtain ⟨v, hv⟩ := readLoop_suffix _ _ _ _ _ _ h
      rw [hpr.src] at hv
      have hfe0 : firstErr r.src.script = firstErr s0 := by
        rcases hp.err with ⟨_, hf⟩ | ⟨e, he, _⟩
        · exact hf
        · rw [hnone] at he; simp at he
      refine ⟨⟨used ++ v, by rw [hused, hv, List.append_assoc]⟩, ?_⟩
      rcases readLoop_err _ _ _ _ _ _ h with ⟨he, hf⟩ | he | he
      · left; rw [hpr.err, hpr.src] at *; exact ⟨by rw [he, hnone], by rw [hf, hfe0]⟩
      · right
        refine ⟨.noProgress, he, ?_⟩
        rcases readLoop_noProgress _ 0 _ _ _ _ (by omega) (by rw [hpr.err]; exact hnone) h he
          with hl | ⟨pre, zs, hsc, hc, hz⟩
        · left; rw [hpr.src] at hl; rw [← hfe0, hl]
        · right
          refine ⟨rfl, ?_⟩
          rw [hpr.src] at hsc
          have hlen : zs.length ≥ Facts.maxConsecutiveEmptyReads := by
            rcases hc with ⟨_, hc, _⟩ | hc <;> omega
          have : s0 = (used ++ pre) ++ zs ++ r'.src.script := by
            rw [hused, hsc]; simp [List.append_assoc]
          rw [this]
          exact quietRun_infix _ _ _ _ _ (fun z hz' => (hz z hz').1) hlen
      · right
        exact ⟨_, he, Or.inl (by rw [hpr.src]; exact hfe0)⟩

theorem Prov.frame {s0 : List Resp} {r r' : Rd} (h : Prov s0 r) (he : r'.err = r.err)
    (hs : r'.src = r.src) : Prov s0 r' := by
  refine ⟨by rw [hs]; exact h.suffix, ?_⟩
  rw [he, hs]; exact h.err

theorem Prov.allowed {s0 : List Resp} {r : Rd} (h : Prov s0 r) (e : RErr) (he : r.err = some e) :
    (e == firstErr s0 || (e == RErr.noProgress && quietRun Facts.maxConsecutiveEmptyReads s0 0)) = true := by
  rcases h.err with ⟨hn, _⟩ | ⟨e', he', hc⟩
  · rw [hn] at he; simp at he
  · rw [he'] at he; simp only [Option.some.injEq] at he; subst he
    rcases hc with hc | ⟨hc, hq⟩
    · simp [hc]
    · simp [hc, hq]

/-- ONE STEP: provenance is kept, and any error the step reports is allowed by the spec's
    `errAllowed` (source's own error / no-progress with a quiet run / negative count) -/
theorem step_prov (s0 : List Resp) (r : Rd) (op : ROp) (hinv : Inv r) (hs : r.Small op.size)
    (hp : Prov s0 r) :
    Prov s0 (r.step op).2 ∧
    ∀ e, (r.step op).1.err = some e → errAllowed Facts.maxConsecutiveEmptyReads s0 op e = true := by
  cases op with
  | next n =>
    rcases next_cases r n hinv hs with ⟨hneg, hn⟩ | ⟨hpos, m, r1, hacq, ha, hc⟩
    · refine ⟨by simpa [Rd.step, hn] using hp, ?_⟩
      intro e he
      simp [Rd.step, hn, RdRes.toRes, RRes.err] at he
      subst he; simp [errAllowed, hneg]
    · have h1 := acquire_prov s0 r _ m r1 hinv hs hp hacq
      have hnn : ¬ n < 0 := by omega
      rcases hc with ⟨hgt, hn⟩ | ⟨hge, hn⟩
      · refine ⟨by simpa [Rd.step, hn] using h1, ?_⟩
        intro e he
        simp only [Rd.step, hn, RdRes.toRes, RRes.err] at he
        simp only [errAllowed, hnn, if_false]
        exact h1.allowed e he
      · refine ⟨by simp only [Rd.step, hn]; exact h1.frame rfl rfl, ?_⟩
        intro e he
        simp [Rd.step, hn, RdRes.toRes, RRes.err] at he
  | peek n =>
    rcases peek_cases r n hinv hs with ⟨hneg, hn⟩ | ⟨hpos, m, r1, hacq, ha, hc⟩
    · refine ⟨by simpa [Rd.step, hn] using hp, ?_⟩
      intro e he
      simp [Rd.step, hn, RdRes.toRes, RRes.err] at he
      subst he; simp [errAllowed, hneg]
    · have h1 := acquire_prov s0 r _ m r1 hinv hs hp hacq
      have hnn : ¬ n < 0 := by omega
      rcases hc with ⟨hgt, hn⟩ | ⟨hge, hn⟩
      · refine ⟨by simpa [Rd.step, hn] using h1, ?_⟩
        intro e he
        simp only [Rd.step, hn, RdRes.toRes, RRes.err] at he
        simp only [errAllowed, hnn, if_false]
        exact h1.allowed e he
      · refine ⟨by simpa [Rd.step, hn] using h1, ?_⟩
        intro e he
        simp [Rd.step, hn, RdRes.toRes, RRes.err] at he
  | skip n =>
    rcases skip_cases r n hinv hs with ⟨hneg, hn⟩ | ⟨hpos, m, r1, hacq, ha, hc⟩
    · refine ⟨by simpa [Rd.step, hn] using hp, ?_⟩
      intro e he
      simp [Rd.step, hn, RdRes.toRes, RRes.err] at he
      subst he; simp [errAllowed, hneg]
    · have h1 := acquire_prov s0 r _ m r1 hinv hs hp hacq
      have hnn : ¬ n < 0 := by omega
      rcases hc with ⟨hgt, hn⟩ | ⟨hge, hn⟩
      · refine ⟨by simpa [Rd.step, hn] using h1, ?_⟩
        intro e he
        simp only [Rd.step, hn, RdRes.toRes, RRes.err] at he
        simp only [errAllowed, hnn, if_false]
        exact h1.allowed e he
      · refine ⟨by simp only [Rd.step, hn]; exact h1.frame rfl rfl, ?_⟩
        intro e he
        simp [Rd.step, hn, RdRes.toRes, RRes.err] at he
  | readBinary k =>
    obtain ⟨m, r1, hacq, ha, hn⟩ := readBinary_cases r k hinv hs
    have h1 := acquire_prov s0 r _ m r1 hinv hs hp hacq
    refine ⟨by simp only [Rd.step, hn]; exact h1.frame rfl rfl, ?_⟩
    intro e he
    simp only [Rd.step, hn, RRes.err] at he
    simp only [errAllowed]
    split at he
    · exact h1.allowed e he
    · simp at he
  | release e =>
    have := release_frame r
    exact ⟨by simpa [Rd.step, Rd.releaseE] using hp.frame this.1 this.2, by intro e he; simp [Rd.step, RRes.err] at he⟩
  | readLen =>
    exact ⟨by simpa [Rd.step] using hp, by intro e he; simp [Rd.step, RRes.err] at he⟩

end Verif

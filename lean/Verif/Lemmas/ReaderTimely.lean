/-
  Lemmas/ReaderTimely: the model's failures are timely (Spec/Cursor `timely`): when the model
  reports a failure, the data has really run out —
  (a) everything it ever served is still there (`cr.hi ≤ delivered`), and
  (b) before the source's own error is seen, every productive script entry in front of it has
      handed over ≥ 1 byte (the reader offers room ≥ need ≥ 1 on every read).
-/
import Verif.Lemmas.ReaderRefine
namespace Verif

/-- (b) as an invariant.  `L = min (prodToErr s0) N`, `N = |S|`: bytes certainly out of the source
    before its own error can be seen; `N - slen` = bytes delivered so far. -/
structure TInv (L N : Nat) (r : Rd) : Prop where
  none : r.err = none → L + r.src.stream.length ≤ N + prodToErr r.src.script
  some : ∀ e, r.err = some e → e ≠ .noProgress → L + r.src.stream.length ≤ N

theorem TInv.frame {L N : Nat} {r r' : Rd} (h : TInv L N r) (he : r'.err = r.err) (hs : r'.src = r.src) :
    TInv L N r' := by
  constructor
  · rw [he, hs]; exact h.none
  · rw [he, hs]; exact h.some

theorem readLoop_timely (L N fuel i : Nat) (r : Rd) (n m : Nat) (r' : Rd)
    (hfit : n ≤ r.cap - r.ri) (hri : r.ri ≤ r.buf.length) (hneed : ¬ n ≤ r.buf.length - r.ri)
    (hnone : r.err = none) (hLN : L ≤ N)
    (hT : L + r.src.stream.length ≤ N + prodToErr r.src.script)
    (h : Rd.readLoop fuel i r n = some (m, r')) : TInv L N r' := by
  induction fuel generalizing i r with
  | zero => simp [Rd.readLoop] at h
  | succ f ih =>
    unfold Rd.readLoop at h
    split at h
    · simp only [Option.some.injEq, Prod.mk.injEq] at h
      obtain ⟨_, hr⟩ := h; subst hr
      exact ⟨fun he => by simp at he, fun e he hne => by simp at he; exact absurd he.symm hne⟩
    · cases hsc : r.src.script with
      | nil =>
        rw [Src.read_nil _ _ hsc] at h
        simp only [Option.some.injEq, Prod.mk.injEq] at h
        obtain ⟨_, hr⟩ := h; subst hr
        rw [hsc] at hT; simp only [prodToErr] at hT
        exact ⟨fun he => by simp at he, fun e _ _ => by simpa using hT⟩
      | cons x rest =>
        rw [hsc] at hT
        simp only [prodToErr] at hT
        rw [Src.read_cons _ _ x rest hsc] at h
        simp only [] at h
        generalize hd : min (min x.k (r.cap - r.buf.length)) r.src.stream.length = d at h
        have hdl : (r.src.stream.take d).length = d := by
          simp only [List.length_take]; omega
        have hdrop : (r.src.stream.drop d).length = r.src.stream.length - d := by simp
        -- a productive entry hands over ≥ 1 byte while bytes are left (room ≥ need ≥ 1)
        have hdfact : r.src.stream.length = 0 ∨ (if x.k ≥ 1 then 1 else 0) ≤ d := by
          split <;> omega
        have hdle : d ≤ r.src.stream.length := by omega
        clear hd
        cases hxe : x.err with
        | some e =>
          simp only [hxe, Option.isSome_some, if_true] at hT
          simp only [hxe] at h
          simp only [Option.some.injEq, Prod.mk.injEq] at h
          obtain ⟨_, hr⟩ := h; subst hr
          refine ⟨fun he => by simp at he, fun e' _ _ => ?_⟩
          simp only [hdrop]
          rcases hdfact with h0 | h1 <;> omega
        | none =>
          simp only [hxe, Option.isSome_none, Bool.false_eq_true, if_false] at hT
          simp only [hxe] at h
          simp only [List.length_append, hdl] at h
          have hT' : L + (r.src.stream.length - d) ≤ N + prodToErr rest := by
            rcases hdfact with h0 | h1 <;> omega
          split at h
          · simp only [Option.some.injEq, Prod.mk.injEq] at h
            obtain ⟨_, hr⟩ := h; subst hr
            refine ⟨fun _ => by simpa [hdrop] using hT', fun e he => ?_⟩
            simp only [] at he; rw [hnone] at he; simp at he
          · split at h
            · exact ih 0 _ (by simpa using hfit) (by simp only [List.length_append, hdl]; omega)
                (by simp only [List.length_append, hdl]; omega) (by exact hnone)
                (by simpa [hdrop] using hT') h
            · exact ih (i+1) _ (by simpa using hfit) (by simp only [List.length_append, hdl]; omega)
                (by simp only [List.length_append, hdl]; omega) (by exact hnone)
                (by simpa [hdrop] using hT') h

theorem acquire_timely (L N : Nat) (r : Rd) (n m : Nat) (r' : Rd) (hinv : Inv r) (hs : r.Small n)
    (hLN : L ≤ N) (hT : TInv L N r) (h : r.acquire n = some (m, r')) : TInv L N r' := by
  unfold Rd.acquire at h
  split at h
  · simp only [Option.some.injEq, Prod.mk.injEq] at h
    obtain ⟨_, hr⟩ := h; subst hr; exact hT
  · rename_i hslow
    unfold Rd.acquireSlow at h
    split at h
    · simp only [Option.some.injEq, Prod.mk.injEq] at h
      obtain ⟨_, hr⟩ := h; subst hr; exact hT
    · rename_i herr
      have hnone : r.err = none := by
        cases he : r.err with
        | none => rfl
        | some e => rw [he] at herr; simp at herr
      simp only [] at h
      have hp := prepare_spec r n hinv hs
      exact readLoop_timely L N _ 0 _ n m r' hp.fits (by rw [hp.ri, hp.buf]; exact hinv.ri_le)
        (by rw [hp.ri, hp.buf]; exact hslow) (by rw [hp.err]; exact hnone) hLN
        (by rw [hp.src]; exact hT.none hnone) h

theorem tinv_newDefault (S : Bytes) (s0 : List Resp) :
    TInv (min (prodToErr s0) S.length) S.length (Rd.newDefault ⟨S, s0⟩) :=
  ⟨fun _ => by simp [Rd.newDefault]; omega, fun e he => by simp [Rd.newDefault] at he⟩

theorem tinv_newBytes (data : Bytes) (cap : Nat) :
    TInv (min (prodToErr []) data.length) data.length (Rd.newBytes data cap) := by
  unfold Rd.newBytes; split
  · exact ⟨fun _ => by simp [prodToErr], fun e he => by simp at he⟩
  · exact ⟨fun _ => by simp [prodToErr, Rd.newDefault], fun e he => by simp [Rd.newDefault] at he⟩

/-- bytes delivered so far = the contract's cursor + the buffered-unread bytes -/
theorem Abs.delivered {c : Cur} {r : Rd} (h : Abs c r) :
    c.pos + (r.buf.length - r.ri) + r.src.stream.length = c.S.length := by
  obtain ⟨pre, hS, hm⟩ := h.split
  have hri := h.inv.ri_le
  rw [hS, h.pos, hm]; simp; omega

/-- what one step tells about marks: what it serves is delivered; a failure means fewer than `n`
    (a short ReadBinary: exactly `m`) bytes were available; the error reported is the sticky one;
    the source only moves forward; `TInv` is kept -/
theorem step_marks (L : Nat) (c c' : Cur) (r : Rd) (op : ROp) (habs : Abs c r) (hs : r.Small op.size)
    (hc' : c.step op (r.step op).1 = .ok c') (habs' : Abs c' (r.step op).2)
    (hLN : L ≤ c.S.length) (hT : TInv L c.S.length r) :
    TInv L c.S.length (r.step op).2 ∧
    (r.step op).2.src.stream.length ≤ r.src.stream.length ∧
    servedMark c op (r.step op).1 + (r.step op).2.src.stream.length ≤ c.S.length ∧
    (∀ n e, (op = .next n ∨ op = .peek n ∨ op = .skip n) → 0 ≤ n → (r.step op).1 = .fail (some e) →
      c.pos + n.toNat + (r.step op).2.src.stream.length > c.S.length ∧ (r.step op).2.err = some e) ∧
    (∀ k b m e, op = .readBinary k → (r.step op).1 = .rb b m (some e) →
      c.pos + m + (r.step op).2.src.stream.length = c.S.length ∧ (r.step op).2.err = some e) := by
  have hinv := habs.inv
  have hri := hinv.ri_le
  have hd := habs.delivered
  cases op with
  | next n =>
    have hs : r.Small n.toNat := hs
    rcases next_cases r n hinv hs with ⟨hneg, hn⟩ | ⟨hpos, m, r1, hacq, ha, hc⟩
    · simp only [Rd.step, hn, RdRes.toRes]
      refine ⟨hT, by omega, by simp [servedMark]; omega, ?_, by intro k b m e h; simp at h⟩
      intro n' e h hn'; simp at h; omega
    · have hT1 := acquire_timely L _ r _ m r1 hinv hs hLN hT hacq
      have habs1 := habs.acquire ha
      have hd1 := habs1.delivered
      obtain ⟨d, hd1', hd2'⟩ := ha.data
      have hmono : r1.src.stream.length ≤ r.src.stream.length := by rw [hd2']; simp
      rcases hc with ⟨hgt, hn⟩ | ⟨hge, hn⟩
      · have hsh := ha.short hgt
        simp only [Rd.step, hn, RdRes.toRes]
        refine ⟨hT1, hmono, by simp [servedMark]; omega, ?_, by intro k b m e h; simp at h⟩
        intro n' e h hn' hres
        simp at h; subst h
        simp only [RRes.fail.injEq] at hres
        exact ⟨by omega, hres⟩
      · have hk := ha.enough hge
        simp only [Rd.step, hn, RdRes.toRes]
        refine ⟨hT1.frame rfl rfl, hmono, ?_, by intro n' e _ _ h; simp at h, by intro k b m e h; simp at h⟩
        simp only [servedMark, Bool.false_eq_true, if_false, take_length_of_le r1 _ hk]
        omega
  | peek n =>
    have hs : r.Small n.toNat := hs
    rcases peek_cases r n hinv hs with ⟨hneg, hn⟩ | ⟨hpos, m, r1, hacq, ha, hc⟩
    · simp only [Rd.step, hn, RdRes.toRes]
      refine ⟨hT, by omega, by simp [servedMark]; omega, ?_, by intro k b m e h; simp at h⟩
      intro n' e h hn'; simp at h; omega
    · have hT1 := acquire_timely L _ r _ m r1 hinv hs hLN hT hacq
      have habs1 := habs.acquire ha
      have hd1 := habs1.delivered
      obtain ⟨d, hd1', hd2'⟩ := ha.data
      have hmono : r1.src.stream.length ≤ r.src.stream.length := by rw [hd2']; simp
      rcases hc with ⟨hgt, hn⟩ | ⟨hge, hn⟩
      · have hsh := ha.short hgt
        simp only [Rd.step, hn, RdRes.toRes]
        refine ⟨hT1, hmono, by simp [servedMark]; omega, ?_, by intro k b m e h; simp at h⟩
        intro n' e h hn' hres
        simp at h; subst h
        simp only [RRes.fail.injEq] at hres
        exact ⟨by omega, hres⟩
      · have hk := ha.enough hge
        simp only [Rd.step, hn, RdRes.toRes]
        refine ⟨hT1, hmono, ?_, by intro n' e _ _ h; simp at h, by intro k b m e h; simp at h⟩
        simp only [servedMark, Bool.false_eq_true, if_false, take_length_of_le r1 _ hk]
        omega
  | skip n =>
    have hs : r.Small n.toNat := hs
    rcases skip_cases r n hinv hs with ⟨hneg, hn⟩ | ⟨hpos, m, r1, hacq, ha, hc⟩
    · simp only [Rd.step, hn, RdRes.toRes]
      refine ⟨hT, by omega, by simp [servedMark]; omega, ?_, by intro k b m e h; simp at h⟩
      intro n' e h hn'; simp at h; omega
    · have hT1 := acquire_timely L _ r _ m r1 hinv hs hLN hT hacq
      have habs1 := habs.acquire ha
      have hd1 := habs1.delivered
      obtain ⟨d, hd1', hd2'⟩ := ha.data
      have hmono : r1.src.stream.length ≤ r.src.stream.length := by rw [hd2']; simp
      rcases hc with ⟨hgt, hn⟩ | ⟨hge, hn⟩
      · have hsh := ha.short hgt
        simp only [Rd.step, hn, RdRes.toRes]
        refine ⟨hT1, hmono, by simp [servedMark]; omega, ?_, by intro k b m e h; simp at h⟩
        intro n' e h hn' hres
        simp at h; subst h
        simp only [RRes.fail.injEq] at hres
        exact ⟨by omega, hres⟩
      · have hk := ha.enough hge
        simp only [Rd.step, hn, RdRes.toRes]
        refine ⟨hT1.frame rfl rfl, hmono, ?_, by intro n' e _ _ h; simp at h, by intro k b m e h; simp at h⟩
        simp only [servedMark, if_true]
        omega
  | readBinary k =>
    have hs : r.Small k := hs
    obtain ⟨m, r1, hacq, ha, hn⟩ := readBinary_cases r k hinv hs
    have hT1 := acquire_timely L _ r _ m r1 hinv hs hLN hT hacq
    have habs1 := habs.acquire ha
    have hd1 := habs1.delivered
    obtain ⟨d, hd1', hd2'⟩ := ha.data
    have hmono : r1.src.stream.length ≤ r.src.stream.length := by rw [hd2']; simp
    have hk : min m k ≤ r1.buf.length - r1.ri := by
      rcases ha.outcome with ⟨hm, hle, _⟩ | ⟨hm, _⟩ <;> omega
    simp only [Rd.step, hn]
    refine ⟨hT1.frame rfl rfl, hmono, by simp only [servedMark]; omega,
      by intro n' e h; simp at h, ?_⟩
    intro k' b m' e hk' hres
    simp only [RRes.rb.injEq] at hres
    obtain ⟨_, hm', he⟩ := hres
    split at he
    · rename_i hlt
      have hgt : k > m := by omega
      have hsh := ha.short hgt
      exact ⟨by omega, he⟩
    · simp at he
  | release e =>
    have hf := release_frame r
    simp only [Rd.step, Rd.releaseE]
    refine ⟨hT.frame hf.1 hf.2, by rw [hf.2]; omega, by simp only [servedMark]; rw [hf.2]; omega,
      by intro n' e' h; simp at h, by intro k b m e' h; simp at h⟩
  | readLen =>
    simp only [Rd.step]
    exact ⟨hT, by omega, by simp [servedMark]; omega, by intro n' e' h; simp at h, by intro k b m e' h; simp at h⟩

end Verif

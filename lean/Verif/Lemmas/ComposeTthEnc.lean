/-
  Lemmas/ComposeTthEnc: ttheader.Encode (C06's model `TTH.encode` over the abstract writer `TTH.W`) as calls
  on a bufiox.Writer, so that the same calls can be issued to C05's model of the BytesWriter
  (EncodeToBytes = NewBytesWriter(&buf); Encode; Flush).

      infoChunks p        WriteByte / WriteUint16 / WriteString2BLen / padding of Encode after the meta
                          region, in program order (map iteration order = order of the lists in p)
      cmpEncodeW          Malloc(14); stores at 4 and 8; the chunks; size check; store at 12 — on `TTH.W`
      cmp_encode_eq       TIE: `TTH.encode p w = cmpEncodeW p w` for EVERY abstract writer state
      cmp_encode_bytes    what the chunks write is the documented layout behind its first 4 bytes
                          (from the tie and C06's `encode_layout_lemma`; nothing is re-proved about
                          the info section)
      encPre/encPost      the same calls as a history of C05's writer model
      cmp_spec_encode     their evaluation on C05's spec log: 4 unspecified bytes (the caller's length
                          field, never stored by Encode), everything else specified
-/
import Verif.Lemmas.ComposeWriter
import Verif.Lemmas.TthRt
namespace Verif.Compose
open Verif Verif.TTH Verif.WLog Verif.C05
open Verif.Frame (infoSize)

/-- Malloc(len bs) and one store of all of `bs`: WriteByte, WriteUint16, the padding -/
def full (bs : Bytes) : Chunk := .reg bs.length [(0, bs)]

theorem full_Full (bs : Bytes) : (full bs).Full := by simp [full, Chunk.Full, Covers]
@[simp] theorem full_bytes (bs : Bytes) : (full bs).bytes = bs := by simp [full, Chunk.bytes]
@[simp] theorem wb_bytes (bs : Bytes) : (Chunk.wb bs).bytes = bs := rfl

/-- WriteString2BLen(s): WriteUint16(uint16(len(s))), then out.WriteBinary(s) -/
def str2Chunks (s : Bytes) : List Chunk := [full (be16 (s.length % 65536)), .wb s]

def strKVChunks : TTH.StrMap → List Chunk
  | [] => []
  | kv :: rest =>
    if kv.1 = gdprKey then strKVChunks rest
    else str2Chunks kv.1 ++ str2Chunks kv.2 ++ strKVChunks rest

def intKVChunks : TTH.IntMap → List Chunk
  | [] => []
  | kv :: rest => full (be16 kv.1) :: (str2Chunks kv.2 ++ intKVChunks rest)

def aclChunks (strKV : TTH.StrMap) : List Chunk :=
  match strKV.lookup gdprKey with
  | some tok => full [UInt8.ofNat Facts.ttInfoACLToken] :: str2Chunks tok
  | none => []

def strSecChunks (strKV : TTH.StrMap) : List Chunk :=
  if strCount strKV > 0 then
    full [UInt8.ofNat Facts.ttInfoKeyValue] :: full (be16 (u16OfInt (strCount strKV))) :: strKVChunks strKV
  else []

def intSecChunks (intKV : TTH.IntMap) : List Chunk :=
  if (intKV.length : Int) > 0 then
    full [UInt8.ofNat Facts.ttInfoIntKeyValue] :: full (be16 (u16OfInt intKV.length)) :: intKVChunks intKV
  else []

/-- the sections writeKVInfo emits (before the padding) -/
def secChunks (intKV : TTH.IntMap) (strKV : TTH.StrMap) : List Chunk :=
  aclChunks strKV ++ strSecChunks strKV ++ intSecChunks intKV

/-- writeKVInfo(sz, …): sections, then `Malloc(padding)` filled with zeros -/
def kvChunks (sz : Nat) (intKV : TTH.IntMap) (strKV : TTH.StrMap) : List Chunk :=
  secChunks intKV strKV ++
    [full (List.replicate ((4 - (sz + (chunksBytes (secChunks intKV strKV)).length) % 4) % 4) 0)]

/-- everything Encode hands out after the meta region -/
def infoChunks (p : EncParam) : List Chunk :=
  full [UInt8.ofNat p.proto] :: full [UInt8.ofNat 0] :: kvChunks 2 p.intKV p.strKV

/-- `headerInfoSize` as Encode accumulates it: the bytes handed out after the meta region -/
def cmpInfoSize (p : EncParam) : Nat := (chunksBytes (infoChunks p)).length

/-- every chunk of Encode is a completely stored region or a WriteBinary -/
def Simple (c : Chunk) : Prop := (∃ bs, c = full bs) ∨ (∃ bs, c = .wb bs)

theorem Simple.Full {c : Chunk} (h : Simple c) : c.Full := by
  rcases h with ⟨bs, rfl⟩ | ⟨bs, rfl⟩
  · exact full_Full bs
  · trivial

theorem simple_full (bs : Bytes) : Simple (full bs) := Or.inl ⟨bs, rfl⟩
theorem simple_wb (bs : Bytes) : Simple (.wb bs) := Or.inr ⟨bs, rfl⟩

theorem str2Chunks_simple (s : Bytes) : ∀ c ∈ str2Chunks s, Simple c := by
  intro c hc
  simp only [str2Chunks, List.mem_cons, List.not_mem_nil, or_false] at hc
  rcases hc with rfl | rfl
  · exact simple_full _
  · exact simple_wb _

theorem strKVChunks_simple : ∀ (kvs : TTH.StrMap), ∀ c ∈ strKVChunks kvs, Simple c := by
  intro kvs
  induction kvs with
  | nil => intro c hc; cases hc
  | cons kv rest ih =>
    intro c hc
    simp only [strKVChunks] at hc
    split at hc
    · exact ih c hc
    · simp only [List.mem_append] at hc
      rcases hc with (hc | hc) | hc
      · exact str2Chunks_simple _ c hc
      · exact str2Chunks_simple _ c hc
      · exact ih c hc

theorem intKVChunks_simple : ∀ (kvs : TTH.IntMap), ∀ c ∈ intKVChunks kvs, Simple c := by
  intro kvs
  induction kvs with
  | nil => intro c hc; cases hc
  | cons kv rest ih =>
    intro c hc
    simp only [intKVChunks, List.mem_cons, List.mem_append] at hc
    rcases hc with rfl | hc | hc
    · exact simple_full _
    · exact str2Chunks_simple _ c hc
    · exact ih c hc

theorem secChunks_simple (intKV : TTH.IntMap) (strKV : TTH.StrMap) : ∀ c ∈ secChunks intKV strKV, Simple c := by
  intro c hc
  simp only [secChunks, List.mem_append] at hc
  rcases hc with (hc | hc) | hc
  · unfold aclChunks at hc
    split at hc
    · simp only [List.mem_cons] at hc
      rcases hc with rfl | hc
      · exact simple_full _
      · exact str2Chunks_simple _ c hc
    · cases hc
  · unfold strSecChunks at hc
    split at hc
    · simp only [List.mem_cons] at hc
      rcases hc with rfl | rfl | hc
      · exact simple_full _
      · exact simple_full _
      · exact strKVChunks_simple _ c hc
    · cases hc
  · unfold intSecChunks at hc
    split at hc
    · simp only [List.mem_cons] at hc
      rcases hc with rfl | rfl | hc
      · exact simple_full _
      · exact simple_full _
      · exact intKVChunks_simple _ c hc
    · cases hc

theorem infoChunks_simple (p : EncParam) : ∀ c ∈ infoChunks p, Simple c := by
  intro c hc
  simp only [infoChunks, kvChunks, List.mem_cons, List.mem_append, List.not_mem_nil, or_false] at hc
  rcases hc with rfl | rfl | hc | rfl
  · exact simple_full _
  · exact simple_full _
  · exact secChunks_simple _ _ c hc
  · exact simple_full _

theorem infoChunks_full (p : EncParam) : ∀ c ∈ infoChunks p, c.Full :=
  fun c hc => (infoChunks_simple p c hc).Full

/-! ## chunks on C06's abstract writer -/

/-- the stores into the region `id` the writer handed out -/
def putAll (w : W) (id : Nat) : List (Nat × Bytes) → Out EErr W
  | [] => .ok w
  | q :: ps => (w.put id q.1 q.2).bind fun w' => putAll w' id ps

/-- one chunk on C06's abstract writer: `W.malloc`, `W.put` …, resp. `W.writeBinary` -/
def runChunkW (w : W) : Chunk → Out EErr W
  | .reg n ps => (w.malloc n).bind fun r => putAll r.2 r.1 ps
  | .wb bs => (w.writeBinary bs).bind fun r => .ok r.2

def runChunksW (w : W) : List Chunk → Out EErr W
  | [] => .ok w
  | c :: cs => (runChunkW w c).bind fun w' => runChunksW w' cs

/-- Encode over the abstract writer, written with chunks -/
def cmpEncodeW (p : EncParam) (w : W) : Out EErr (Nat × W) :=
  (w.malloc Facts.ttMetaSize).bind fun m =>
  (m.2.put m.1 4 (be32 ((Facts.ttMagic + p.flags) % 4294967296))).bind fun w1 =>
  (w1.put m.1 8 (be32 (ofInt 32 p.seq))).bind fun w2 =>
  (runChunksW w2 (infoChunks p)).bind fun w3 =>
  if cmpInfoSize p % 2 ^ Facts.ttEncodeSizeCheckBits > Facts.ttMaxHeaderSize then .err .size
  else (w3.put m.1 12 (be16 ((cmpInfoSize p / 4) % 65536))).bind fun w5 => .ok (m.1, w5)

theorem runChunkW_simple (w : W) (hb : w.broken = false) (c : Chunk) (hc : Simple c) :
    runChunkW w c = .ok (w.app [c.bytes]) := by
  rcases hc with ⟨bs, rfl⟩ | ⟨bs, rfl⟩
  · have := malloc_fill w hb bs
    simp only [runChunkW, full, putAll] at this ⊢
    rw [malloc_ok w hb] at this ⊢
    simp only [Out.bind_ok] at this ⊢
    rw [this]
    simp [Chunk.bytes]
  · simp only [runChunkW, writeBinary_ok w hb, Out.bind_ok, Chunk.bytes]

theorem runChunksW_simple : ∀ (cs : List Chunk) (w : W), w.broken = false → (∀ c ∈ cs, Simple c) →
    runChunksW w cs = .ok (w.app (cs.map Chunk.bytes)) := by
  intro cs
  induction cs with
  | nil => intro w _ _; simp [runChunksW]
  | cons c cs ih =>
    intro w hb hs
    simp only [runChunksW, runChunkW_simple w hb c (hs c (List.mem_cons_self ..)), Out.bind_ok]
    rw [ih (w.app [c.bytes]) (by simpa using hb) (fun c' hc' => hs c' (List.mem_cons_of_mem _ hc'))]
    simp [W.app_app]

theorem chunksBytes_cons (c : Chunk) (cs : List Chunk) : chunksBytes (c :: cs) = c.bytes ++ chunksBytes cs := by
  simp [chunksBytes]

theorem chunksBytes_nil : chunksBytes [] = [] := rfl

theorem str2Chunks_map (s : Bytes) : (str2Chunks s).map Chunk.bytes = [be16 (s.length % 65536), s] := by
  simp only [str2Chunks, List.map_cons, List.map_nil, full_bytes, wb_bytes]

theorem str2Chunks_len (s : Bytes) : (chunksBytes (str2Chunks s)).length = s.length + 2 := by
  simp only [chunksBytes, str2Chunks_map, List.flatten_cons, List.flatten_nil, List.length_append, be16_length,
    List.append_nil]
  omega

/-! ### the helpers of the model on a healthy writer, with the items spelled out -/

theorem cmp_writeStrKVs : ∀ (kvs : TTH.StrMap) (sz : Nat) (w : W), w.broken = false →
    writeStrKVs kvs sz w = .ok (sz + (chunksBytes (strKVChunks kvs)).length,
      w.app ((strKVChunks kvs).map Chunk.bytes)) := by
  intro kvs
  induction kvs with
  | nil => intro sz w _; simp [writeStrKVs, strKVChunks, chunksBytes]
  | cons kv rest ih =>
    intro sz w hb
    simp only [writeStrKVs, strKVChunks]
    by_cases hk : kv.1 = gdprKey
    · simp only [hk, if_true]; exact ih sz w hb
    · simp only [hk, if_false]
      rw [writeStr2_ok w hb]
      simp only [Out.bind_ok]
      rw [writeStr2_ok _ (by simpa using hb)]
      simp only [Out.bind_ok, W.app_app]
      rw [ih _ _ (by simpa using hb)]
      simp only [W.app_app, List.map_append, str2Chunks_map, chunksBytes_append, List.length_append,
        str2Chunks_len]
      congr 2 <;> (first | omega | simp)

theorem cmp_writeIntKVs : ∀ (kvs : TTH.IntMap) (sz : Nat) (w : W), w.broken = false →
    writeIntKVs kvs sz w = .ok (sz + (chunksBytes (intKVChunks kvs)).length,
      w.app ((intKVChunks kvs).map Chunk.bytes)) := by
  intro kvs
  induction kvs with
  | nil => intro sz w _; simp [writeIntKVs, intKVChunks, chunksBytes]
  | cons kv rest ih =>
    intro sz w hb
    simp only [writeIntKVs, intKVChunks]
    rw [writeU16_ok w hb]
    simp only [Out.bind_ok]
    rw [writeStr2_ok _ (by simpa using hb)]
    simp only [Out.bind_ok, W.app_app]
    rw [ih _ _ (by simpa using hb)]
    simp only [W.app_app, List.map_cons, List.map_append, str2Chunks_map, chunksBytes_cons, chunksBytes_append,
      List.length_append, str2Chunks_len, full_bytes, be16_length]
    congr 2 <;> (first | omega | simp)

theorem cmp_writeACL (sz : Nat) (strKV : TTH.StrMap) (w : W) (hb : w.broken = false) :
    writeACL sz strKV w = .ok (strCount strKV, sz + (chunksBytes (aclChunks strKV)).length,
      w.app ((aclChunks strKV).map Chunk.bytes)) := by
  unfold writeACL strCount aclChunks
  cases h : strKV.lookup gdprKey with
  | none => simp [chunksBytes]
  | some tok =>
    simp only
    rw [writeByte_ok w hb]
    simp only [Out.bind_ok]
    rw [writeStr2_ok _ (by simpa using hb)]
    simp only [Out.bind_ok, W.app_app, List.map_cons, str2Chunks_map, chunksBytes_cons, List.length_append,
      str2Chunks_len, full_bytes, List.length_cons, List.length_nil]
    congr 3
    · omega

theorem cmp_writeStrSection (sz : Nat) (strKV : TTH.StrMap) (w : W) (hb : w.broken = false) :
    writeStrSection (strCount strKV) sz strKV w = .ok (sz + (chunksBytes (strSecChunks strKV)).length,
      w.app ((strSecChunks strKV).map Chunk.bytes)) := by
  unfold writeStrSection strSecChunks
  by_cases h : strCount strKV > 0
  · simp only [h, if_true]
    rw [writeByte_ok w hb]
    simp only [Out.bind_ok]
    rw [writeU16_ok _ (by simpa using hb)]
    simp only [Out.bind_ok, W.app_app]
    rw [cmp_writeStrKVs _ _ _ (by simpa using hb)]
    simp only [W.app_app, List.map_cons, chunksBytes_cons, List.length_append, full_bytes, be16_length,
      List.length_cons, List.length_nil]
    congr 2
    · omega
  · simp only [h, if_false]; simp [chunksBytes]

theorem cmp_writeIntSection (sz : Nat) (intKV : TTH.IntMap) (w : W) (hb : w.broken = false) :
    writeIntSection sz intKV w = .ok (sz + (chunksBytes (intSecChunks intKV)).length,
      w.app ((intSecChunks intKV).map Chunk.bytes)) := by
  unfold writeIntSection intSecChunks
  by_cases h : (intKV.length : Int) > 0
  · simp only [h, if_true]
    rw [writeByte_ok w hb]
    simp only [Out.bind_ok]
    rw [writeU16_ok _ (by simpa using hb)]
    simp only [Out.bind_ok, W.app_app]
    rw [cmp_writeIntKVs _ _ _ (by simpa using hb)]
    simp only [W.app_app, List.map_cons, chunksBytes_cons, List.length_append, full_bytes, be16_length,
      List.length_cons, List.length_nil]
    congr 2
    · omega
  · simp only [h, if_false]; simp [chunksBytes]

theorem cmp_writePadding (sz : Nat) (w : W) (hb : w.broken = false) :
    writePadding sz w = .ok (sz + ((4 - sz % 4) % 4), w.app [List.replicate ((4 - sz % 4) % 4) 0]) := by
  obtain ⟨L, h1, _⟩ := writePadding_wrote sz w hb
  unfold writePadding
  simp only
  rw [malloc_ok w hb]
  simp only [Out.bind_ok]
  have := put_app w ((List.range ((4 - sz % 4) % 4)).map (w.dirt w.n)) [] 0 (List.replicate ((4 - sz % 4) % 4) 0)
    (by simp)
  simp only [W.app_nil] at this
  rw [this]
  simp only [Out.bind_ok]
  have hd : List.drop ((4 - sz % 4) % 4) ((List.range ((4 - sz % 4) % 4)).map (w.dirt w.n)) = [] := by
    apply List.drop_eq_nil_of_le; simp
  simp [poke, hd]

theorem cmp_writeKVInfo (sz : Nat) (intKV : TTH.IntMap) (strKV : TTH.StrMap) (w : W) (hb : w.broken = false) :
    writeKVInfo sz intKV strKV w = .ok (sz + (chunksBytes (kvChunks sz intKV strKV)).length,
      w.app ((kvChunks sz intKV strKV).map Chunk.bytes)) := by
  unfold writeKVInfo
  rw [cmp_writeACL sz strKV w hb]
  simp only [Out.bind_ok]
  rw [cmp_writeStrSection _ strKV _ (by simpa using hb)]
  simp only [Out.bind_ok, W.app_app]
  rw [cmp_writeIntSection _ intKV _ (by simpa using hb)]
  simp only [Out.bind_ok, W.app_app]
  rw [cmp_writePadding _ _ (by simpa using hb)]
  have e : sz + (chunksBytes (aclChunks strKV)).length + (chunksBytes (strSecChunks strKV)).length +
      (chunksBytes (intSecChunks intKV)).length = sz + (chunksBytes (secChunks intKV strKV)).length := by
    simp only [secChunks, chunksBytes_append, List.length_append]; omega
  rw [e]
  simp only [W.app_app, kvChunks, secChunks, List.map_append, List.map_cons, List.map_nil, full_bytes,
    chunksBytes_append, chunksBytes_cons, chunksBytes_nil, List.length_append, List.length_replicate,
    List.append_nil, List.append_assoc]
  congr 2
  omega

/-- the meta region as Encode leaves it, in terms of the chunk size -/
theorem cmp_encode_healthy (p : EncParam) (w : W) (hb : w.broken = false) :
    (if cmpInfoSize p % 2 ^ Facts.ttEncodeSizeCheckBits > Facts.ttMaxHeaderSize then
        encode p w = .err .size ∧ cmpEncodeW p w = .err .size
     else
        encode p w = .ok (w.n, w.app (metaBytes p w (cmpInfoSize p) :: (infoChunks p).map Chunk.bytes)) ∧
        cmpEncodeW p w = .ok (w.n, w.app (metaBytes p w (cmpInfoSize p) :: (infoChunks p).map Chunk.bytes))) := by
  have hsz : 2 + (chunksBytes (kvChunks 2 p.intKV p.strKV)).length = cmpInfoSize p := by
    simp only [cmpInfoSize, infoChunks, chunksBytes_cons, full_bytes, List.length_append, List.length_cons,
      List.length_nil]
    omega
  have hrun : ∀ w2 : W, w2.broken = false →
      runChunksW w2 (infoChunks p) = .ok (w2.app ((infoChunks p).map Chunk.bytes)) :=
    fun w2 h2 => runChunksW_simple _ w2 h2 (infoChunks_simple p)
  unfold encode cmpEncodeW
  simp only [Facts.ttMetaSize]
  rw [malloc_ok w hb]
  simp only [Out.bind_ok]
  rw [put_app' w _ [] 4 (be32 ((Facts.ttMagic + p.flags) % 4294967296)) (by simp)]
  simp only [Out.bind_ok]
  rw [put_app' w _ [] 8 (be32 (ofInt 32 p.seq)) (by rw [poke_length _ _ _ (by simp)]; simp)]
  simp only [Out.bind_ok]
  rw [hrun _ (by simpa using hb)]
  rw [writeByte_ok _ (by simpa using hb)]
  simp only [Out.bind_ok]
  rw [writeByte_ok _ (by simpa using hb)]
  simp only [Out.bind_ok, W.app_app, List.cons_append, List.nil_append]
  rw [cmp_writeKVInfo 2 p.intKV p.strKV _ (by simpa using hb)]
  simp only [Out.bind_ok, hsz, W.app_app, List.cons_append, List.nil_append]
  have hitems : [UInt8.ofNat p.proto] :: [UInt8.ofNat 0] :: (kvChunks 2 p.intKV p.strKV).map Chunk.bytes
      = (infoChunks p).map Chunk.bytes := by
    simp [infoChunks]
  by_cases hbig : cmpInfoSize p % 2 ^ Facts.ttEncodeSizeCheckBits > Facts.ttMaxHeaderSize
  · simp only [hbig, if_true, and_self]
  · simp only [hbig, if_false]
    rw [hitems]
    rw [put_app' w _ _ 12 (be16 ((cmpInfoSize p / 4) % 65536))
      (by rw [poke_length _ _ _ (by rw [poke_length _ _ _ (by simp)]; simp), poke_length _ _ _ (by simp)]; simp)]
    simp only [Out.bind_ok]
    have hmeta : poke (poke (poke ((List.range 14).map (w.dirt w.n)) 4 (be32 ((Facts.ttMagic + p.flags) % 4294967296)))
        8 (be32 (ofInt 32 p.seq))) 12 (be16 ((cmpInfoSize p / 4) % 65536)) = metaBytes p w (cmpInfoSize p) := by
      have hD : ((List.range 14).map (w.dirt w.n)).length = 14 := by simp
      unfold metaBytes
      generalize (List.range 14).map (w.dirt w.n) = D at hD ⊢
      match D, hD with
      | [d0, d1, d2, d3, d4, d5, d6, d7, d8, d9, d10, d11, d12, d13], _ =>
        simp [poke, be32, be16]
    rw [hmeta]
    exact ⟨rfl, rfl⟩

/-- **THE TIE.** C06's Encode IS Malloc(14), the two stores, the chunks, the size check and the last
    store — on every abstract writer state (healthy or broken), whatever fresh memory contains -/
theorem cmp_encode_eq (p : EncParam) (w : W) : encode p w = cmpEncodeW p w := by
  cases hb : w.broken with
  | true => simp [encode, cmpEncodeW, W.malloc, hb]
  | false =>
    have h := cmp_encode_healthy p w hb
    split at h
    · rw [h.1, h.2]
    · rw [h.1, h.2]

/-! ## what the chunks write is the documented layout -/

def cmpMetaA (p : EncParam) : Bytes := be32 ((Facts.ttMagic + p.flags) % 4294967296)
def cmpMetaB (p : EncParam) : Bytes := be32 (ofInt 32 p.seq)
def cmpMetaC (p : EncParam) : Bytes := be16 ((cmpInfoSize p / 4) % 65536)

theorem cmp_layout_split (q : Frame.Params) : ∃ rest, ∀ lf : Bytes, Frame.layout lf q = lf ++ rest :=
  ⟨be16 4096 ++ (be16 q.flags ++ (be32 (Frame.seqBits q.seq) ++ (be16 (infoSize q / 4) ++
      (Frame.info q ++ List.replicate (Frame.padLen (Frame.info q).length) 0)))),
    fun lf => by simp only [Frame.layout, List.append_assoc]⟩

/-- the size verdict of the chunk form is the spec's, and the bytes Encode stores — the three meta
    fields and the chunks — are the documented layout behind its 4-byte length field.  Obtained from the
    tie `cmp_encode_eq` and C06's `encode_layout_lemma` on one healthy abstract writer. -/
theorem cmp_encode_bytes (p : EncParam) (hd : (fp p).Dom) (h64 : infoSize (fp p) < 2 ^ 64) :
    (cmpInfoSize p % 2 ^ Facts.ttEncodeSizeCheckBits > Facts.ttMaxHeaderSize ↔ infoSize (fp p) > 65536) ∧
    (infoSize (fp p) ≤ 65536 → ∀ lf : Bytes,
      lf ++ (cmpMetaA p ++ cmpMetaB p ++ cmpMetaC p ++ chunksBytes (infoChunks p)) = Frame.layout lf (fp p)) := by
  let w0 : W := ⟨[], 0, false, fun _ _ => 0⟩
  have hb : w0.broken = false := rfl
  obtain ⟨hbig, hsmall⟩ := encode_layout_lemma p w0 hb hd h64
  have hh := cmp_encode_healthy p w0 hb
  by_cases hc : cmpInfoSize p % 2 ^ Facts.ttEncodeSizeCheckBits > Facts.ttMaxHeaderSize
  · rw [if_pos hc] at hh
    have hgt : infoSize (fp p) > 65536 := by
      apply Classical.byContradiction
      intro hn
      obtain ⟨L, e, _⟩ := hsmall (by omega)
      rw [hh.1] at e; cases e
    exact ⟨⟨fun _ => hgt, fun _ => hc⟩, fun hs => by omega⟩
  · rw [if_neg hc] at hh
    have hle : infoSize (fp p) ≤ 65536 := by
      apply Classical.byContradiction
      intro hn
      have e := hbig (by omega)
      rw [hh.1] at e; cases e
    refine ⟨⟨fun h => absurd h hc, fun h => by omega⟩, fun _ lf => ?_⟩
    obtain ⟨L, e, hbytes⟩ := hsmall hle
    rw [hh.1] at e
    have hw : w0.app (metaBytes p w0 (cmpInfoSize p) :: (infoChunks p).map Chunk.bytes)
        = w0.app (metaBytes p w0 (infoSize (fp p)) :: L) := (Prod.mk.inj (Out.ok.inj e)).2
    rw [← hw, W.bytes_app] at hbytes
    have hw0 : w0.bytes = [] := rfl
    rw [hw0, List.nil_append, List.nil_append, List.flatten_cons] at hbytes
    obtain ⟨rest, hrest⟩ := cmp_layout_split (fp p)
    rw [hrest] at hbytes
    have hmeta : metaBytes p w0 (cmpInfoSize p) = lenField w0 ++ (cmpMetaA p ++ cmpMetaB p ++ cmpMetaC p) := by
      simp only [metaBytes, lenField, cmpMetaA, cmpMetaB, cmpMetaC, List.append_assoc]
    rw [hmeta, List.append_assoc] at hbytes
    have := List.append_cancel_left hbytes
    rw [hrest, ← this]
    rfl

/-! ## Encode as a history of C05's writer -/

/-- Encode up to its size check: Malloc(14), the stores of magic+flags and seq, the chunks.
    `rid` = the id of the next region of the writer (0 on a fresh writer). -/
def encPre (rid : Nat) (p : EncParam) : List WOp :=
  [.malloc 14, .fill rid 4 (cmpMetaA p), .fill rid 8 (cmpMetaB p)] ++ chunksOps (rid + 1) (infoChunks p)

/-- Encode after a passed size check: the store of size/4 into the meta region -/
def encPost (rid : Nat) (p : EncParam) : List WOp := [.fill rid 12 (cmpMetaC p)]

def encObs (rid : Nat) (p : EncParam) : List WObs :=
  [.region rid 14, .done, .done] ++ chunksObs (rid + 1) (infoChunks p) ++ [.done]

theorem encOps_noflush (rid : Nat) (p : EncParam) : ∀ op ∈ encPre rid p ++ encPost rid p, op ≠ .flush := by
  intro op h
  simp only [encPre, encPost, List.mem_append, List.mem_cons, List.not_mem_nil, or_false] at h
  rcases h with ((rfl | rfl | rfl) | h) | rfl
  · simp
  · simp
  · simp
  · exact chunksOps_noflush _ _ op h
  · simp

/-- Encode on C05's spec log: the observations are the expected ones, and the unflushed bytes grow by
    FOUR UNSPECIFIED bytes (the caller's total-length field: Encode never stores into it) followed by
    the three meta fields and the chunks' bytes, all specified -/
theorem cmp_spec_encode (p : EncParam) (l : Log RErr) (h : LogOK l) :
    ∃ l', specRun l (encPre l.nextId p ++ encPost l.nextId p) = (encObs l.nextId p, l') ∧ LogOK l' ∧
      concat l'.store l'.items = concat l.store l.items ++ (List.replicate 4 none ++
        (cmpMetaA p ++ cmpMetaB p ++ cmpMetaC p ++ chunksBytes (infoChunks p)).map some) ∧
      l'.calls = l.calls ∧ l'.fail = l.fail ∧ l'.emitted = l.emitted := by
  have lA : (cmpMetaA p).length = 4 := by simp [cmpMetaA]
  have lB : (cmpMetaB p).length = 4 := by simp [cmpMetaB]
  have lC : (cmpMetaC p).length = 2 := by simp [cmpMetaC]
  obtain ⟨l1, s1, ok1, it1, c1, n1, k1, f1, e1⟩ := cmp_spec_malloc l h 14
  have hmem1 : (l.nextId, lenSum l.items, 14) ∈ layout 0 l1.items := by
    rw [it1, layout_append]; simp [layout]
  obtain ⟨l2, s2, ok2, it2, c2, n2, k2, f2, e2⟩ := cmp_spec_fills l.nextId (lenSum l.items) 14
    [(4, cmpMetaA p), (8, cmpMetaB p)] l1 (concat l.store l.items) (List.replicate 14 none) ok1 hmem1 c1
    (cmp_concat_length l h) (by simp) (by
      intro q hq
      simp only [List.mem_cons, List.not_mem_nil, or_false] at hq
      rcases hq with rfl | rfl
      · simp only [lA]; omega
      · simp only [lB]; omega)
  obtain ⟨l3, s3, ok3, ⟨tail, it3⟩, c3, n3, k3, f3, e3⟩ :=
    cmp_spec_chunks (infoChunks p) (infoChunks_full p) l2 ok2
  have hn2 : l2.nextId = l.nextId + 1 := by rw [n2, n1]
  rw [hn2] at s3
  have hmem3 : (l.nextId, lenSum l.items, 14) ∈ layout 0 l3.items := by
    rw [it3, it2, layout_append]
    exact List.mem_append_left _ hmem1
  obtain ⟨l4, s4, ok4, it4, c4, n4, k4, f4, e4⟩ := cmp_spec_fill l3 ok3 l.nextId (lenSum l.items) 14 12
    (cmpMetaC p) hmem3 (by rw [lC]; omega)
  refine ⟨l4, ?_, ok4, ?_, by rw [k4, k3, k2, k1], by rw [f4, f3, f2, f1], by rw [e4, e3, e2, e1]⟩
  · have s4' : specRun l3 (encPost l.nextId p) = ([.done], l4) := by
      simp only [encPost, specRun, s4]
    have spre : specRun l (encPre l.nextId p)
        = ([.region l.nextId 14, .done, .done] ++ chunksObs (l.nextId + 1) (infoChunks p), l3) := by
      have : encPre l.nextId p = [.malloc 14] ++
          ([(4, cmpMetaA p), (8, cmpMetaB p)].map (fun q => WOp.fill l.nextId q.1 q.2) ++
            chunksOps (l.nextId + 1) (infoChunks p)) := rfl
      rw [this, specRun_append]
      have s1' : specRun l [.malloc 14] = ([.region l.nextId 14], l1) := by
        simp only [specRun]
        have : ((14 : Nat) : Int) = 14 := rfl
        rw [← this, s1]
      rw [s1', specRun_append, s2, s3]
      rfl
    rw [specRun_append, spre, s4']
    simp [encObs]
  · rw [c4, c3, c2]
    have hU := cmp_concat_length l h
    generalize concat l.store l.items = U at hU ⊢
    have hM : (cmpApply (fun b => b.map some) (List.replicate 14 (none : SByte))
        [(4, cmpMetaA p), (8, cmpMetaB p)]).length = 14 := by
      simp only [cmpApply, List.foldl_cons, List.foldl_nil]
      rw [length_overwrite _ _ _ (by
        rw [length_overwrite _ _ _ (by simp [lA])]; simp [lB])]
      rw [length_overwrite _ _ _ (by simp [lA])]
      simp
    rw [List.append_assoc, ← hU, overwrite_append_right _ _ _ _ (by
      rw [List.length_append, hM, List.length_map, lC]; omega)]
    rw [overwrite_append_left _ _ _ _ (by rw [hM, List.length_map, lC]; omega)]
    have hfold : overwrite (cmpApply (fun b => b.map some) (List.replicate 14 (none : SByte))
          [(4, cmpMetaA p), (8, cmpMetaB p)]) 12 ((cmpMetaC p).map some)
        = cmpApply (fun b => b.map some) (List.replicate 14 (none : SByte))
          [(4, cmpMetaA p), (8, cmpMetaB p), (12, cmpMetaC p)] := by
      simp [cmpApply]
    rw [hfold, cmpApply_covers (fun b => b.map some) (fun b => by simp) _ 4 14 _ (by simp) (by
      simp only [Covers, lA, lB, lC, true_and])]
    simp

/-! ## EncodeToBytes over the BytesWriter model -/

theorem cmp_run_append (a : WAlloc) (w : Wr) (xs ys : List WOp) :
    w.run a (xs ++ ys) = ((w.run a xs).1 ++ ((w.run a xs).2.run a ys).1, ((w.run a xs).2.run a ys).2) := by
  induction xs generalizing w with
  | nil => simp [Wr.run]
  | cons x xs ih => simp only [List.cons_append, Wr.run, ih, List.cons_append]

/-- an observation that makes Encode return an error: the writer's error, or (model only) a panic -/
def obsBad : WObs → Bool
  | .err _ => true
  | .stuck _ => true
  | _ => false

theorem chunksObs_good (rid : Nat) (cs : List Chunk) : (chunksObs rid cs).any obsBad = false := by
  induction cs generalizing rid with
  | nil => rfl
  | cons c cs ih =>
    simp only [chunksObs, List.any_append, ih, Bool.or_false]
    cases c with
    | reg n ps => simp [chunkObs, obsBad]
    | wb bs => simp [chunkObs, obsBad]

/-- EncodeToBytes(ctx, param) with `out := bufiox.NewBytesWriter(&buf)` in start state `s`, over C05's
    writer model: Encode = `encPre`, the size check, `encPost`; a failing Malloc / WriteBinary makes Encode
    (and EncodeToBytes) return an error; after the size error Flush is not called; otherwise Flush and
    return `buf` -/
def cmpEncodeToBytes (a : WAlloc) (s : Start) (p : EncParam) : Out EErr Bytes :=
  if ((s.model.run a (encPre 0 p)).1).any obsBad then .err .writer
  else if cmpInfoSize p % 2 ^ Facts.ttEncodeSizeCheckBits > Facts.ttMaxHeaderSize then .err .size
  else
    match (((s.model.run a (encPre 0 p)).2.run a (encPost 0 p)).2.flush).1 with
    | .ok _ => .ok (((s.model.run a (encPre 0 p)).2.run a (encPost 0 p)).2.flush).2.targetBytes
    | _ => .err .writer

theorem match_prefix_some : ∀ (t m : Bytes) (s : SBytes), Match m (t.map some ++ s) →
    ∃ m', m = t ++ m' ∧ Match m' s := by
  intro t
  induction t with
  | nil => intro m s h; exact ⟨m, rfl, by simpa using h⟩
  | cons b t ih =>
    intro m s h
    cases m with
    | nil => simp [Match] at h
    | cons c m =>
      simp only [List.map_cons, List.cons_append, Match] at h
      obtain ⟨h1, h2⟩ := h
      obtain ⟨m', e, hm⟩ := ih m s h2
      have hc : c = b := by
        rcases h1 with h1 | h1
        · cases h1
        · exact (Option.some.inj h1).symm
      exact ⟨m', by rw [hc, e]; rfl, hm⟩

theorem match_holes : ∀ (k : Nat) (m t : Bytes), Match m (List.replicate k none ++ t.map some) →
    ∃ lf : Bytes, lf.length = k ∧ m = lf ++ t := by
  intro k
  induction k with
  | zero => intro m t h; exact ⟨[], rfl, match_all_some h t (by simp)⟩
  | succ k ih =>
    intro m t h
    cases m with
    | nil => simp [List.replicate_succ, Match] at h
    | cons c m =>
      simp only [List.replicate_succ, List.cons_append, Match] at h
      obtain ⟨lf, hl, e⟩ := ih m t h.2
      exact ⟨c :: lf, by simp [hl], by rw [e]; rfl⟩

/-- the run of Encode's calls on a bytes-backed real writer -/
theorem cmp_real_encode (a : WAlloc) (ha : a.Sound) (s : Start) (hs : ∀ f, s ≠ .default f) (p : EncParam) :
    (s.model.run a (encPre 0 p)).1 = [.region 0 14, .done, .done] ++ chunksObs 1 (infoChunks p) ∧
    (s.model.run a (encPre 0 p ++ encPost 0 p)).1 = encObs 0 p ∧
    (after a s (encPre 0 p ++ encPost 0 p)).flush.1 = .ok () ∧
    ∃ lf : Bytes, lf.length = 4 ∧
      (after a s (encPre 0 p ++ encPost 0 p)).flush.2.targetBytes =
        s.init ++ (lf ++ (cmpMetaA p ++ cmpMetaB p ++ cmpMetaC p ++ chunksBytes (infoChunks p))) := by
  obtain ⟨ok0, id0, c0, _, _⟩ := start_spec_ok s
  obtain ⟨l', hsr, ok', hc, _⟩ := cmp_spec_encode p s.spec ok0
  rw [id0] at hsr
  obtain ⟨hobs, _⟩ := refines a ha s (encPre 0 p ++ encPost 0 p)
  rw [hsr] at hobs
  have hl' : specAfter s (encPre 0 p ++ encPost 0 p) = l' := by unfold specAfter; rw [hsr]
  obtain ⟨hok, written, hw, hm⟩ := bytesWriter_target a ha s hs (encPre 0 p ++ encPost 0 p) (encOps_noflush 0 p)
  refine ⟨?_, hobs, hok, ?_⟩
  · have h2 := hobs
    rw [cmp_run_append] at h2
    simp only [encObs] at h2
    have hlen : (((s.model.run a (encPre 0 p)).2.run a (encPost 0 p)).1).length = ([WObs.done]).length := by
      simp [encPost, Wr.run]
    exact (List.append_inj' h2 hlen).1
  · rw [← hw, hl', unflushed_eq, hc, c0] at hm
    obtain ⟨m', e1, hm'⟩ := match_prefix_some _ _ _ hm
    obtain ⟨lf, hlf, e2⟩ := match_holes 4 m' _ hm'
    exact ⟨lf, hlf, by rw [e1, e2]⟩

end Verif.Compose

/-
  Lemmas/SkipBR: BufferReader.Skip (model `skipBRAt`, Model/SkipStream.lean) over an ABSTRACT reader
  contract `RdC P live` agrees with the acceptance discipline `refBR` (Lemmas/GrammarG.lean).

  The contract (one clause per bufiox operation the skippers use) says, for every reader state
  satisfying the invariant `P` and every request `0 ≤ n ≤ bnd`:
     (`bnd` ≥ reqBound = 2^31·16, the largest single request)
     the operation returns exactly the next `n` bytes of `remaining` (Next/Peek) resp. nothing
     (Skip), `remaining` loses exactly `n` bytes (Peek: none), ReadLen (= `ri`) grows by exactly `n`
     (Peek: 0), `P` is kept
   or
     it fails with a NON-NIL error — and, when the source is `live`, only because fewer than `n`
     bytes are left.
  With `live := True` this is an exact cursor (the result is then determined: `RMm` below is an
  exact characterisation); with `live := False` readers may fail spuriously and the theorem is a
  soundness statement (success ⇒ the grammar accepts, with exactly the consumed extent).
  Instances: Lemmas/SkipBRInst.lean (C04's `Inv` + `Live`).
-/
import Verif.Model.SkipStream
import Verif.Lemmas.GrammarG
import Verif.Lemmas.SkipTpl
import Verif.Lemmas.ReaderStep
namespace Verif

/-- 2^31 · 16: the largest single request BufferReader.Skip can make (a size field is an int32, a
    fixed-size key/value pair has at most 16 bytes) -/
def reqBound : Nat := 34359738368

structure RdC (P : Rd → Prop) (live : Prop) (bnd : Nat) : Prop where
  next : ∀ r (n : Int), P r → 0 ≤ n → n.toNat ≤ bnd →
    (∃ r', r.next n = (.ok (r.remaining.take n.toNat), r') ∧ n.toNat ≤ r.remaining.length ∧
       r'.remaining = r.remaining.drop n.toNat ∧ r'.ri = r.ri + n.toNat ∧ P r') ∨
    (∃ e r', r.next n = (.fail (some e), r') ∧ (live → r.remaining.length < n.toNat))
  skip : ∀ r (n : Int), P r → 0 ≤ n → n.toNat ≤ bnd →
    (∃ b r', r.skip n = (.ok b, r') ∧ n.toNat ≤ r.remaining.length ∧
       r'.remaining = r.remaining.drop n.toNat ∧ r'.ri = r.ri + n.toNat ∧ P r') ∨
    (∃ e r', r.skip n = (.fail (some e), r') ∧ (live → r.remaining.length < n.toNat))
  peek : ∀ r (n : Int), P r → 0 ≤ n → n.toNat ≤ bnd →
    (∃ r', r.peek n = (.ok (r.remaining.take n.toNat), r') ∧ n.toNat ≤ r.remaining.length ∧
       r'.remaining = r.remaining ∧ r'.ri = r.ri ∧ P r') ∨
    (∃ e r', r.peek n = (.fail (some e), r') ∧ (live → r.remaining.length < n.toNat))

theorem Rd.avail_eq (r : Rd) : r.avail = r.remaining.length := by
  unfold Rd.avail Rd.remaining; simp

/-- how a reader computation `x` started in state `r` relates to the reference extent `o` of the
    bytes `r.remaining`:
    either it is an error (and, over a live source, the reference rejects), or it succeeds, the
    reference accepts with extent `k`, and exactly `k` bytes have been consumed -/
def RMm {α : Type} (P : Rd → Prop) (live : Prop) (x : TOut (α × Rd)) (o : Option Nat) (r : Rd) : Prop :=
  (∃ e, x = .err e ∧ (live → o = none)) ∨
  (∃ k a r', o = some k ∧ x = .ok (a, r') ∧ r'.remaining = r.remaining.drop k ∧ r'.ri = r.ri + k ∧ P r')

section
variable {P : Rd → Prop} {live : Prop} {bnd : Nat}

theorem brNext_m (hC : RdC P live bnd) (r : Rd) (n : Int) (hp : P r) (h0 : 0 ≤ n) (hb : n.toNat ≤ bnd) :
    (∃ r', brNext n r = .ok (r.remaining.take n.toNat, r') ∧ n.toNat ≤ r.remaining.length ∧
       r'.remaining = r.remaining.drop n.toNat ∧ r'.ri = r.ri + n.toNat ∧ P r') ∨
    (∃ e, brNext n r = .err e ∧ (live → r.remaining.length < n.toNat)) := by
  rcases hC.next r n hp h0 hb with ⟨r', hx, h1, h2, h3, h4⟩ | ⟨e, r', hx, hl⟩
  · left; exact ⟨r', by simp [brNext, hx], h1, h2, h3, h4⟩
  · right; exact ⟨.wrap e, by simp [brNext, hx], hl⟩

theorem brSkipn_m (hC : RdC P live bnd) (r : Rd) (n : Int) (hp : P r) (hb : n.toNat ≤ bnd) :
    RMm P live (brSkipn n r) (if 0 ≤ n ∧ n.toNat ≤ r.remaining.length then some n.toNat else none) r := by
  by_cases hn : n < 0
  · left; exact ⟨errNeg, by simp [brSkipn, hn], fun _ => by simp; omega⟩
  · have h0 : 0 ≤ n := by omega
    rcases hC.skip r n hp h0 hb with ⟨b, r', hx, h1, h2, h3, h4⟩ | ⟨e, r', hx, hl⟩
    · right; exact ⟨n.toNat, (), r', by simp [h0, h1], by simp [brSkipn, hn, hx], h2, h3, h4⟩
    · left; refine ⟨.wrap e, by simp [brSkipn, hn, hx], fun l => ?_⟩
      have := hl l
      simp; omega

theorem brReadI32_m (hC : RdC P live bnd) (hbnd : reqBound ≤ bnd) (r : Rd) (hp : P r) :
    (∃ r', brReadI32 r = .ok (toI32 (rd32 r.remaining), r') ∧ 4 ≤ r.remaining.length ∧
       r'.remaining = r.remaining.drop 4 ∧ r'.ri = r.ri + 4 ∧ P r') ∨
    (∃ e, brReadI32 r = .err e ∧ (live → r.remaining.length < 4)) := by
  rcases brNext_m hC r 4 hp (by omega) (Nat.le_trans (by decide) hbnd) with ⟨r', hx, h1, h2, h3, h4⟩ | ⟨e, hx, hl⟩
  · left
    have h1' : 4 ≤ r.remaining.length := h1
    have hl4 : 4 ≤ (r.remaining.take 4).length := by simp; omega
    refine ⟨r', ?_, h1', h2, h3, h4⟩
    have hx' : brNext 4 r = .ok (r.remaining.take 4, r') := hx
    simp only [brReadI32, hx', Out.bind_eq, Out.bind_ok, u32of_ok _ hl4, rd32_take _ 4 (by omega) h1',
      Out.pure_eq]
  · right
    exact ⟨e, by simp [brReadI32, hx], hl⟩

theorem toI32_eq_cast (n : Nat) (h : n < 2147483648) : toI32 n = (n : Int) := by
  unfold toI32; simp [h]

theorem brSkipStr_m (hC : RdC P live bnd) (hbnd : reqBound ≤ bnd) (r : Rd) (hp : P r) :
    RMm P live (brSkipStr r) (refStr r.remaining) r := by
  rcases brReadI32_m hC hbnd r hp with ⟨r1, hx, h4, hrem1, hri1, hp1⟩ | ⟨e, hx, hl⟩
  · simp only [brSkipStr, hx, Out.bind_eq, Out.bind_ok]
    have hlt := rd32_lt r.remaining
    by_cases hn : rd32 r.remaining < 2147483648
    · rw [toI32_eq_cast _ hn]
      have hm := brSkipn_m hC r1 (rd32 r.remaining : Int) hp1 (by rw [Int.toNat_natCast]; unfold reqBound at hbnd; omega)
      simp only [Int.toNat_natCast, Int.natCast_nonneg, true_and] at hm
      rcases hm with ⟨e, hy, hnone⟩ | ⟨k, a, r2, ho, hy, hrem2, hri2, hp2⟩
      · left; refine ⟨e, hy, fun l => ?_⟩
        have := hnone l
        rw [hrem1] at this
        simp only [List.length_drop] at this
        unfold refStr
        split at this
        · cases this
        · rw [if_neg]; omega
      · right
        rw [hrem1] at ho
        simp only [List.length_drop] at ho
        split at ho
        · rename_i hfit
          cases ho
          refine ⟨4 + rd32 r.remaining, a, r2, ?_, hy, ?_, by omega, hp2⟩
          · unfold refStr; rw [if_pos]; exact ⟨h4, hn, by omega⟩
          · rw [hrem2, hrem1, List.drop_drop]
        · cases ho
    · left
      have hneg : toI32 (rd32 r.remaining) < 0 := by rw [toI32_neg_iff _ hlt]; exact hn
      exact ⟨errNeg, by simp [brSkipn, hneg], fun _ => by unfold refStr; rw [if_neg]; omega⟩
  · left
    refine ⟨e, by simp [brSkipStr, hx], fun l => ?_⟩
    have := hl l
    unfold refStr; rw [if_neg]; omega

/-- key / value element of the MAP slow path -/
theorem brElem_m (hC : RdC P live bnd) (hbnd : reqBound ≤ bnd) {rec : UInt8 → RM Unit} {f : UInt8 → Bytes → Option Nat} (t : UInt8)
    (HR : ∀ r, P r → RMm P live (rec t r) (f t r.remaining) r) (r : Rd) (hp : P r) :
    RMm P live (brElem rec t ((fixedSize t : Nat) : Int) r) (gElem f t r.remaining) r := by
  unfold brElem gElem
  by_cases hf : 0 < fixedSize t
  · have h1 : ((fixedSize t : Nat) : Int) > 0 := by omega
    simp only [h1, hf, if_true]
    have := brSkipn_m hC r ((fixedSize t : Nat) : Int) hp (by
      have := fixedSize_le t; rw [Int.toNat_natCast]; unfold reqBound at hbnd; omega)
    simpa using this
  · have h0 : fixedSize t = 0 := by omega
    simp only [h0, Int.natCast_zero, gt_iff_lt, Int.lt_irrefl, Nat.lt_irrefl, if_false, T_STRING_eq]
    by_cases hs : t = TT.STRING
    · simp only [hs, if_true]; exact brSkipStr_m hC hbnd r hp
    · simp only [hs, if_false]; exact HR r hp

/-- element of the LIST/SET slow path (the element type is not fixed-size there) -/
theorem brListElem_m (hC : RdC P live bnd) (hbnd : reqBound ≤ bnd) {rec : UInt8 → RM Unit} {f : UInt8 → Bytes → Option Nat} (t : UInt8)
    (h0 : fixedSize t = 0)
    (HR : ∀ r, P r → RMm P live (rec t r) (f t r.remaining) r) (r : Rd) (hp : P r) :
    RMm P live (if t = T_STRING then brSkipStr r else rec t r) (gElem f t r.remaining) r := by
  unfold gElem
  simp only [h0, Nat.lt_irrefl, gt_iff_lt, if_false, T_STRING_eq]
  by_cases hs : t = TT.STRING
  · simp only [hs, if_true]; exact brSkipStr_m hC hbnd r hp
  · simp only [hs, if_false]; exact HR r hp

/-- field value of the STRUCT loop -/
theorem brField_m (hC : RdC P live bnd) (hbnd : reqBound ≤ bnd) {rec : UInt8 → RM Unit} {f : UInt8 → Bytes → Option Nat} (t : UInt8)
    (HR : ∀ r, P r → RMm P live (rec t r) (f t r.remaining) r) (r : Rd) (hp : P r) :
    RMm P live (if ((fixedSize t : Nat) : Int) > 0 then brSkipn ((fixedSize t : Nat) : Int) r else rec t r)
      (gFix f t r.remaining) r := by
  unfold gFix fixedFn
  by_cases hf : 0 < fixedSize t
  · have h1 : ((fixedSize t : Nat) : Int) > 0 := by omega
    simp only [h1, hf, if_true]
    have := brSkipn_m hC r ((fixedSize t : Nat) : Int) hp (by
      have := fixedSize_le t; rw [Int.toNat_natCast]; unfold reqBound at hbnd; omega)
    simpa using this
  · have h0 : fixedSize t = 0 := by omega
    simp only [h0, Int.natCast_zero, gt_iff_lt, Int.lt_irrefl, Nat.lt_irrefl, if_false]
    exact HR r hp

theorem brListLoop_m {rec : UInt8 → RM Unit} {g : Bytes → Option Nat} (vt : UInt8)
    (HE : ∀ r, P r → RMm P live (if vt = T_STRING then brSkipStr r else rec vt r) (g r.remaining) r) :
    ∀ cnt r, P r → RMm P live (brListLoop rec vt cnt r) (refN g cnt r.remaining) r := by
  intro cnt
  induction cnt with
  | zero => intro r hp; right; exact ⟨0, (), r, rfl, rfl, by simp, by simp, hp⟩
  | succ cnt ih =>
    intro r hp
    simp only [brListLoop, refN]
    rcases HE r hp with ⟨e, hx, hnone⟩ | ⟨k, a, r1, ho, hx, hrem, hri, hp1⟩
    · left; exact ⟨e, by simp [hx], fun l => by simp [hnone l]⟩
    · simp only [hx, ho, Out.bind_eq, Out.bind_ok]
      rcases ih r1 hp1 with ⟨e, hy, hnone⟩ | ⟨k2, a2, r2, ho2, hy, hrem2, hri2, hp2⟩
      · left; exact ⟨e, hy, fun l => by rw [← hrem, hnone l]⟩
      · right
        exact ⟨k + k2, a2, r2, by rw [← hrem, ho2], hy, by rw [hrem2, hrem, List.drop_drop],
          by omega, hp2⟩

theorem brMapLoop_m {rec : UInt8 → RM Unit} {gk gv : Bytes → Option Nat} (kt vt : UInt8) (ksz vsz : Int)
    (HK : ∀ r, P r → RMm P live (brElem rec kt ksz r) (gk r.remaining) r)
    (HV : ∀ r, P r → RMm P live (brElem rec vt vsz r) (gv r.remaining) r) :
    ∀ cnt r, P r → RMm P live (brMapLoop rec kt vt ksz vsz cnt r) (refKV gk gv cnt r.remaining) r := by
  intro cnt
  induction cnt with
  | zero => intro r hp; right; exact ⟨0, (), r, rfl, rfl, by simp, by simp, hp⟩
  | succ cnt ih =>
    intro r hp
    simp only [brMapLoop, refKV]
    rcases HK r hp with ⟨e, hx, hnone⟩ | ⟨k, a, r1, ho, hx, hrem, hri, hp1⟩
    · left; exact ⟨e, by simp [hx], fun l => by simp [hnone l]⟩
    · simp only [hx, ho, Out.bind_eq, Out.bind_ok]
      rcases HV r1 hp1 with ⟨e, hy, hnone⟩ | ⟨v, a1, r2, ho1, hy, hrem1, hri1, hp2⟩
      · left; exact ⟨e, by simp [hy], fun l => by rw [← hrem]; simp [hnone l]⟩
      · rw [hrem] at ho1
        simp only [hy, ho1, Out.bind_ok]
        rcases ih r2 hp2 with ⟨e, hz, hnone⟩ | ⟨k2, a2, r3, ho2, hz, hrem2, hri2, hp3⟩
        · left; refine ⟨e, hz, fun l => ?_⟩
          have := hnone l
          rw [hrem1, hrem, List.drop_drop] at this
          rw [this]
        · right
          rw [hrem1, hrem, List.drop_drop] at ho2
          refine ⟨k + v + k2, a2, r3, by rw [ho2], hz, ?_, by omega, hp3⟩
          rw [hrem2, hrem1, hrem, List.drop_drop, List.drop_drop]
          congr 1; omega

/-- BufferReader.ReadFieldBegin: STOP, or a field header of three bytes -/
theorem brFieldBegin_m (hC : RdC P live bnd) (hbnd : reqBound ≤ bnd) (r : Rd) (hp : P r) :
    (∃ e, brFieldBegin r = .err e ∧ (live → ∀ g fuel, refFields g fuel r.remaining = none)) ∨
    (∃ r1 rest, r.remaining = 0 :: rest ∧ brFieldBegin r = .ok (0, r1) ∧ r1.remaining = rest ∧
      r1.ri = r.ri + 1 ∧ P r1) ∨
    (∃ t rest r2, r.remaining = t :: rest ∧ t ≠ 0 ∧ 2 ≤ rest.length ∧ brFieldBegin r = .ok (t, r2) ∧
      r2.remaining = rest.drop 2 ∧ r2.ri = r.ri + 3 ∧ P r2) := by
  rcases brNext_m hC r 1 hp (by omega) (Nat.le_trans (by decide) hbnd) with ⟨r1, hx, h1, hrem1, hri1, hp1⟩ | ⟨e, hx, hl⟩
  · have h1' : 1 ≤ r.remaining.length := h1
    cases hrem : r.remaining with
    | nil => rw [hrem] at h1'; simp at h1'
    | cons t rest =>
      have hx' : brNext 1 r = .ok ([t], r1) := by rw [hx, hrem]; rfl
      have hrem1' : r1.remaining = rest := by rw [hrem1, hrem]; rfl
      have hri1' : r1.ri = r.ri + 1 := hri1
      have hi : idx [t] 0 = .ok t := by simp [idx]
      by_cases ht : t = 0
      · right; left
        subst ht
        exact ⟨r1, rest, rfl, by simp [brFieldBegin, hx', hi, T_STOP_eq], hrem1', hri1', hp1⟩
      · rcases brNext_m hC r1 2 hp1 (by omega) (Nat.le_trans (by decide) hbnd) with ⟨r2, hy, h2, hrem2, hri2, hp2⟩ | ⟨e, hy, hl⟩
        · right; right
          have h2' : 2 ≤ rest.length := by rw [← hrem1']; exact h2
          have hy' : brNext 2 r1 = .ok (rest.take 2, r2) := by rw [hy, hrem1']; rfl
          have hi2 : ∃ x, idx (rest.take 2) 1 = .ok x := ⟨_, idx_ok _ 1 (by simp; omega)⟩
          obtain ⟨x, hi2⟩ := hi2
          refine ⟨t, rest, r2, rfl, ht, h2', ?_, by rw [hrem2, hrem1']; rfl, ?_, hp2⟩
          · simp [brFieldBegin, hx', hi, T_STOP_eq, ht, hy', hi2]
          · have : r2.ri = r1.ri + 2 := hri2
            omega
        · left
          refine ⟨e, by simp [brFieldBegin, hx', hi, T_STOP_eq, ht, hy], fun l g fuel => ?_⟩
          have := hl l
          rw [hrem1'] at this
          have hlt : rest.length < 2 := this
          cases fuel with
          | zero => rfl
          | succ fuel => simp [refFields, ht, hlt]
  · left
    refine ⟨e, by simp [brFieldBegin, hx], fun l g fuel => ?_⟩
    have := hl l
    have h0 : r.remaining = [] := by
      apply List.eq_nil_of_length_eq_zero
      have : r.remaining.length < 1 := this
      omega
    rw [h0]
    cases fuel <;> rfl

theorem brStructLoop_m (hC : RdC P live bnd) (hbnd : reqBound ≤ bnd) {rec : UInt8 → RM Unit} {g : UInt8 → Bytes → Option Nat}
    (HF : ∀ ft r, P r → RMm P live
      (if ((fixedSize ft : Nat) : Int) > 0 then brSkipn ((fixedSize ft : Nat) : Int) r else rec ft r)
      (g ft r.remaining) r) :
    ∀ fuel r, P r → r.remaining.length < fuel →
      RMm P live (brStructLoop rec fuel r) (refFields g fuel r.remaining) r := by
  intro fuel
  induction fuel with
  | zero => intro r _ h; omega
  | succ fuel ih =>
    intro r hp hfuel
    simp only [brStructLoop]
    rcases brFieldBegin_m hC hbnd r hp with ⟨e, hx, hnone⟩ | ⟨r1, rest, hrem, hx, hrem1, hri1, hp1⟩ |
      ⟨t, rest, r2, hrem, ht, h2, hx, hrem2, hri2, hp2⟩
    · left; exact ⟨e, by simp [hx], fun l => hnone l g _⟩
    · right
      refine ⟨1, (), r1, by simp [hrem, refFields], by simp [hx, T_STOP_eq], by simp [hrem, hrem1],
        hri1, hp1⟩
    · have hl2 : ¬ rest.length < 2 := by omega
      simp only [hx, Out.bind_eq, Out.bind_ok, T_STOP_eq, ht, if_false, typeSize_eq, hrem, refFields, hl2]
      rcases HF t r2 hp2 with ⟨e, hy, hnone⟩ | ⟨k, a, r3, ho, hy, hrem3, hri3, hp3⟩
      · left; exact ⟨e, by simp only [hy, Out.bind_err], fun l => by rw [← hrem2]; simp [hnone l]⟩
      · rw [hrem2] at ho
        simp only [hy, ho, Out.bind_ok]
        have hlen : r3.remaining.length < fuel := by
          rw [hrem3, hrem2]; rw [hrem] at hfuel; simp at hfuel ⊢; omega
        rcases ih r3 hp3 hlen with ⟨e, hz, hnone⟩ | ⟨k2, a2, r4, ho2, hz, hrem4, hri4, hp4⟩
        · left; refine ⟨e, hz, fun l => ?_⟩
          have := hnone l
          rw [hrem3, hrem2, List.drop_drop] at this
          rw [this]
        · right
          rw [hrem3, hrem2, List.drop_drop] at ho2
          refine ⟨3 + k + k2, a2, r4, by rw [ho2], hz, ?_, by omega, hp4⟩
          rw [hrem4, hrem3, hrem2, hrem, List.drop_drop, List.drop_drop]
          have : 3 + k + k2 = (2 + k + k2) + 1 := by omega
          rw [this, List.drop_succ_cons]
          congr 1; omega

theorem mul_le_reqBound (N s : Nat) (hN : N < 2147483648) (hs : s ≤ 16) : N * s ≤ reqBound := by
  have := Nat.mul_le_mul (Nat.le_of_lt hN) hs
  unfold reqBound; omega

theorem br_map_case (hC : RdC P live bnd) (hbnd : reqBound ≤ bnd) (d : Nat)
    (ih : ∀ t r, P r → RMm P live (skipBRAt d t r) (refBR d t r.remaining) r) (r : Rd) (hp : P r) :
    RMm P live (do
        let (b, r1) ← brNext 6 r
        let kt ← idx b 0
        let vt ← idx b 1
        let szu ← u32of (b.drop 2)
        if toI32 szu < 0 then .err errNeg else do
        let ksz ← (.ok ((fixedSize kt : Nat) : Int) : TOut Int)
        let vsz ← (.ok ((fixedSize vt : Nat) : Int) : TOut Int)
        if ksz > 0 ∧ vsz > 0 then brSkipn ((szu : Int) * (ksz + vsz)) r1
        else brMapLoop (skipBRAt d) kt vt ksz vsz szu r1)
      (mapBody (fun kt _ => gElem (refBR d) kt) (fun _ vt => gElem (refBR d) vt) r.remaining) r := by
  simp only [Out.bind_eq, Out.bind_ok, mapBody]
  rcases brNext_m hC r 6 hp (by omega) (Nat.le_trans (by decide) hbnd) with ⟨r1, hx, h6, hrem1, hri1, hp1⟩ | ⟨e, hx, hl⟩
  · have h6' : 6 ≤ r.remaining.length := h6
    obtain ⟨kt, vt, x0, x1, x2, x3, tl0, hr0⟩ := exists_cons6 r.remaining h6'
    obtain ⟨rest, hr, hrest⟩ : ∃ rest, r.remaining = kt :: vt :: rest ∧ 4 ≤ rest.length :=
      ⟨x0 :: x1 :: x2 :: x3 :: tl0, hr0, by simp⟩
    clear hr0
    have hx' : brNext 6 r = .ok (List.take 6 (kt :: vt :: rest), r1) := by rw [hx, hr]; rfl
    have hrem1' : r1.remaining = List.drop 4 rest := by rw [hrem1, hr]; rfl
    have hri1' : r1.ri = r.ri + 6 := hri1
    simp only [hr, hx', Out.bind_ok, hrest, true_and]
    have e0 : idx (List.take 6 (kt :: vt :: rest)) 0 = .ok kt := by simp [idx]
    have e1 : idx (List.take 6 (kt :: vt :: rest)) 1 = .ok vt := by simp [idx]
    have e2 : u32of (List.drop 2 (List.take 6 (kt :: vt :: rest))) = .ok (rd32 rest) := by
      have : List.drop 2 (List.take 6 (kt :: vt :: rest)) = List.take 4 rest := by simp
      rw [this, u32of_ok _ (by simp; omega), rd32_take rest 4 (by omega) hrest]
    simp only [e0, e1, e2, Out.bind_ok]
    have hlt := rd32_lt rest
    generalize rd32 rest = N at hlt ⊢
    have hdrop : ∀ X, List.drop X (List.drop 4 rest) = List.drop (6 + X) r.remaining := by
      intro X; rw [hr, List.drop_drop, Nat.add_comm 6, Nat.add_comm 4]; rfl
    generalize List.drop 4 rest = tl at hrem1' hdrop ⊢
    by_cases hn : N < 2147483648
    · have hnn : ¬ toI32 N < 0 := by rw [toI32_neg_iff _ hlt]; simpa using hn
      simp only [hnn, hn, if_true, if_false]
      by_cases hfast : ((fixedSize kt : Nat) : Int) > 0 ∧ ((fixedSize vt : Nat) : Int) > 0
      · have hk : 0 < fixedSize kt := by omega
        have hv : 0 < fixedSize vt := by omega
        simp only [hfast, and_self, if_true]
        rw [refKV_fixed (fixedSize kt) (fixedSize vt) hk hv _ _
          (gElem_fixed _ kt hk) (gElem_fixed _ vt hv)]
        have hcast : (N : Int) * (((fixedSize kt : Nat) : Int) + ((fixedSize vt : Nat) : Int)) =
            ((N * (fixedSize kt + fixedSize vt) : Nat) : Int) := by
          rw [Int.natCast_mul, Int.natCast_add]
        rw [hcast]
        have hb : N * (fixedSize kt + fixedSize vt) ≤ reqBound :=
          mul_le_reqBound N _ hn (by have := fixedSize_le kt; have := fixedSize_le vt; omega)
        have hm := brSkipn_m hC r1 ((N * (fixedSize kt + fixedSize vt) : Nat) : Int) hp1 (by rw [Int.toNat_natCast]; exact Nat.le_trans hb hbnd)
        simp only [Int.toNat_natCast, Int.natCast_nonneg, true_and, hrem1'] at hm
        rcases hm with ⟨e, hy, hnone⟩ | ⟨k, a, r2, ho, hy, hrem2, hri2, hp2⟩
        · left; refine ⟨e, hy, fun l => ?_⟩
          have := hnone l
          split at this
          · cases this
          · rename_i hfit; simp [hfit]
        · right
          split at ho
          · rename_i hfit
            cases ho
            refine ⟨6 + N * (fixedSize kt + fixedSize vt), a, r2, by simp [hfit], hy, ?_, by omega, hp2⟩
            rw [hrem2, hrem1', hdrop]
          · cases ho
      · simp only [hfast, if_false]
        have hm := brMapLoop_m (P := P) (live := live) kt vt ((fixedSize kt : Nat) : Int) ((fixedSize vt : Nat) : Int)
          (fun r hp => brElem_m hC hbnd kt (ih kt) r hp) (fun r hp => brElem_m hC hbnd vt (ih vt) r hp) N r1 hp1
        rw [hrem1'] at hm
        rcases hm with ⟨e, hy, hnone⟩ | ⟨k, a, r2, ho, hy, hrem2, hri2, hp2⟩
        · left; exact ⟨e, hy, fun l => by simp [hnone l]⟩
        · right
          refine ⟨6 + k, a, r2, by simp [ho], hy, ?_, by omega, hp2⟩
          rw [hrem2, hrem1', hdrop]
    · have hnn : toI32 N < 0 := by rw [toI32_neg_iff _ hlt]; exact hn
      left; exact ⟨errNeg, by simp [hnn], fun _ => by simp [hn]⟩
  · left
    refine ⟨e, by simp [hx], fun l => ?_⟩
    have hlt : r.remaining.length < 6 := hl l
    match hr : r.remaining with
    | [] => rfl
    | [_] => rfl
    | kt :: vt :: rest =>
      have : ¬ 4 ≤ rest.length := by rw [hr] at hlt; simp at hlt; omega
      simp [this]

theorem br_list_case (hC : RdC P live bnd) (hbnd : reqBound ≤ bnd) (d : Nat)
    (ih : ∀ t r, P r → RMm P live (skipBRAt d t r) (refBR d t r.remaining) r) (r : Rd) (hp : P r) :
    RMm P live (do
        let (b, r1) ← brNext 5 r
        let vt ← idx b 0
        let szu ← u32of (b.drop 1)
        if toI32 szu < 0 then .err errNeg else do
        let vsz ← (.ok ((fixedSize vt : Nat) : Int) : TOut Int)
        if vsz > 0 then brSkipn ((szu : Int) * vsz) r1
        else brListLoop (skipBRAt d) vt szu r1)
      (listBody (gElem (refBR d)) r.remaining) r := by
  simp only [Out.bind_eq, Out.bind_ok, listBody]
  rcases brNext_m hC r 5 hp (by omega) (Nat.le_trans (by decide) hbnd) with ⟨r1, hx, h5, hrem1, hri1, hp1⟩ | ⟨e, hx, hl⟩
  · have h5' : 5 ≤ r.remaining.length := h5
    obtain ⟨et, x0, x1, x2, x3, tl0, hr0⟩ := exists_cons5 r.remaining h5'
    obtain ⟨rest, hr, hrest⟩ : ∃ rest, r.remaining = et :: rest ∧ 4 ≤ rest.length :=
      ⟨x0 :: x1 :: x2 :: x3 :: tl0, hr0, by simp⟩
    clear hr0
    have hx' : brNext 5 r = .ok (List.take 5 (et :: rest), r1) := by rw [hx, hr]; rfl
    have hrem1' : r1.remaining = List.drop 4 rest := by rw [hrem1, hr]; rfl
    have hri1' : r1.ri = r.ri + 5 := hri1
    simp only [hr, hx', Out.bind_ok, hrest, true_and]
    have e0 : idx (List.take 5 (et :: rest)) 0 = .ok et := by simp [idx]
    have e2 : u32of (List.drop 1 (List.take 5 (et :: rest))) = .ok (rd32 rest) := by
      have : List.drop 1 (List.take 5 (et :: rest)) = List.take 4 rest := by simp
      rw [this, u32of_ok _ (by simp; omega), rd32_take rest 4 (by omega) hrest]
    simp only [e0, e2, Out.bind_ok]
    have hlt := rd32_lt rest
    generalize rd32 rest = N at hlt ⊢
    have hdrop : ∀ X, List.drop X (List.drop 4 rest) = List.drop (5 + X) r.remaining := by
      intro X; rw [hr, List.drop_drop, Nat.add_comm 5, Nat.add_comm 4]; rfl
    generalize List.drop 4 rest = tl at hrem1' hdrop ⊢
    by_cases hn : N < 2147483648
    · have hnn : ¬ toI32 N < 0 := by rw [toI32_neg_iff _ hlt]; simpa using hn
      simp only [hnn, hn, if_true, if_false]
      by_cases hfast : ((fixedSize et : Nat) : Int) > 0
      · have hv : 0 < fixedSize et := by omega
        simp only [hfast, if_true]
        rw [refN_fixed (fixedSize et) hv _ (gElem_fixed _ et hv)]
        have hcast : (N : Int) * ((fixedSize et : Nat) : Int) = ((N * fixedSize et : Nat) : Int) := by
          rw [Int.natCast_mul]
        rw [hcast]
        have hb : N * fixedSize et ≤ reqBound :=
          mul_le_reqBound N _ hn (by have := fixedSize_le et; omega)
        have hm := brSkipn_m hC r1 ((N * fixedSize et : Nat) : Int) hp1 (by rw [Int.toNat_natCast]; exact Nat.le_trans hb hbnd)
        simp only [Int.toNat_natCast, Int.natCast_nonneg, true_and, hrem1'] at hm
        rcases hm with ⟨e, hy, hnone⟩ | ⟨k, a, r2, ho, hy, hrem2, hri2, hp2⟩
        · left; refine ⟨e, hy, fun l => ?_⟩
          have := hnone l
          split at this
          · cases this
          · rename_i hfit; simp [hfit]
        · right
          split at ho
          · rename_i hfit
            cases ho
            refine ⟨5 + N * fixedSize et, a, r2, by simp [hfit], hy, ?_, by omega, hp2⟩
            rw [hrem2, hrem1', hdrop]
          · cases ho
      · simp only [hfast, if_false]
        have h0 : fixedSize et = 0 := by omega
        have hm := brListLoop_m (P := P) (live := live) et
          (fun r hp => brListElem_m hC hbnd et h0 (ih et) r hp) N r1 hp1
        rw [hrem1'] at hm
        rcases hm with ⟨e, hy, hnone⟩ | ⟨k, a, r2, ho, hy, hrem2, hri2, hp2⟩
        · left; exact ⟨e, hy, fun l => by simp [hnone l]⟩
        · right
          refine ⟨5 + k, a, r2, by simp [ho], hy, ?_, by omega, hp2⟩
          rw [hrem2, hrem1', hdrop]
    · have hnn : toI32 N < 0 := by rw [toI32_neg_iff _ hlt]; exact hn
      left; exact ⟨errNeg, by simp [hnn], fun _ => by simp [hn]⟩
  · left
    refine ⟨e, by simp [hx], fun l => ?_⟩
    have hlt : r.remaining.length < 5 := hl l
    match hr : r.remaining with
    | [] => rfl
    | et :: rest =>
      have : ¬ 4 ≤ rest.length := by rw [hr] at hlt; simp at hlt; omega
      simp [this]

/-- BufferReader.skipType over any reader satisfying the contract: exact agreement with refBR
    (live sources), soundness (any source); ReadLen advances by exactly the extent; never a panic -/
theorem skipBRAt_m (hC : RdC P live bnd) (hbnd : reqBound ≤ bnd) :
    ∀ d t r, P r → RMm P live (skipBRAt d t r) (refBR d t r.remaining) r := by
  intro d
  induction d with
  | zero => intro t r _; left; exact ⟨errDepth, rfl, fun _ => rfl⟩
  | succ d ih =>
    intro t r hp
    simp only [skipBRAt, refBR, typeSize_eq, Out.bind_eq, Out.bind_ok]
    unfold layerG
    by_cases hf : 0 < fixedSize t
    · have h1 : ((fixedSize t : Nat) : Int) > 0 := by omega
      simp only [h1, hf, if_true]
      have := brSkipn_m hC r ((fixedSize t : Nat) : Int) hp (by
        have := fixedSize_le t; rw [Int.toNat_natCast]; unfold reqBound at hbnd; omega)
      simpa using this
    · have h0 : fixedSize t = 0 := by omega
      simp only [h0, Int.natCast_zero, gt_iff_lt, Int.lt_irrefl, Nat.lt_irrefl, if_false,
        T_STRING_eq, T_MAP_eq, T_LIST_eq, T_SET_eq, T_STRUCT_eq]
      by_cases hstr : t = TT.STRING
      · simp only [hstr, if_true]
        exact brSkipStr_m hC hbnd r hp
      · simp only [hstr, if_false]
        by_cases hm : t = TT.MAP
        · subst hm
          simp only [show ¬ (TT.MAP = TT.LIST ∨ TT.MAP = TT.SET) by decide,
            show TT.MAP ≠ TT.STRUCT by decide, if_true, if_false]
          have := br_map_case hC hbnd d ih r hp
          simpa using this
        · simp only [hm, if_false]
          by_cases hl : t = TT.LIST ∨ t = TT.SET
          · have hns : t ≠ TT.STRUCT := by rcases hl with h | h <;> subst h <;> decide
            simp only [hl, hns, if_true, if_false]
            have := br_list_case hC hbnd d ih r hp
            simpa using this
          · simp only [hl, if_false]
            by_cases hst : t = TT.STRUCT
            · simp only [hst, if_true]
              rw [Rd.avail_eq]
              exact brStructLoop_m hC hbnd (fun ft r hp => brField_m hC hbnd ft (ih ft) r hp) _ r hp (by omega)
            · simp only [hst, if_false]
              left; exact ⟨errUnknownType, rfl, fun _ => rfl⟩

end
end Verif

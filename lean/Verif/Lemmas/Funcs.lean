/-
  Lemmas/Funcs: umbrella over the equivalence theorems between the functions translated from the Go source on every
  run (`Verif.Gen.Funcs`) and the hand-written model functions (notes/Funcs.md):
    Funcs/Read   13 Binary.Read*                      = Wire.binRead*          (C01 C03 C12 C17)
    Funcs/Write  14 Binary.Write*                     = Wire.w*                (C01 C12)
    Funcs/Append 16 Binary.Append*/appendUint32/64, 16 *Length = Wire.a*, Wire.length (C01 C12 C15)
    Funcs/TTH    7 ttheader byte helpers              = TTH.bytes2Uint*, readString2BLen, isStreaming, isTTHeader (C03 C06 C10)
    Funcs/TTH2   readKVInfo (the `for {}` loop over info sections), readStrKVInfo, readIntKVInfo (counted loops),
                 readACLToken, checkProtocolID     = TTH.readKVInfo … checkProtocolID, by induction on the fuel (C03 C06 C10)
    Funcs/Skip   Binary.Skip / skipType (self-recursive, three loops, unsafe loads) / skipstr / p2i32
                                                   = skipBin, by induction on the depth, `oob` positions included (C02 C03 C08 C17)
    Funcs/Fc     (*Base).FastRead, (*BaseResp).FastRead, (*ApplicationException).FastRead/BLength/FastWrite
                                                   = fastReadBase, fastReadBaseResp, fastReadAppEx, bLengthAppEx, fastWriteAppEx (C03 C11)
    Funcs/Tpl    the generic SkipDecoderTpl.Skip over an abstract SkipN back end = skipTplAt, and its three instances (C02 C03 C08)
    Funcs/TTHDecode  ttheader.Decode over an abstract bufiox.Reader = decodeG, instances decodeRd / decodeCur (C03 C06 C10)
    Funcs/StreamW    the 14 BufferWriter.Write* over an abstract bufiox.Writer = Wire.bw* over the log model (C01 C12)
    Funcs/StreamR    the 17 BufferReader read methods (next, readBinary, skipn, Readn, 13 readers) over the reader model as a ReaderI
                     = brNext, brSkipn, Wire.brRead* (C01 C03 C12 C17)
    Funcs/StreamSkip BufferReader.next/skipn/skipstr/skipType/Skip over the reader model as a ReaderI (Funcs/RdI) = brNext, brSkipn,
                     brSkipStr, skipBRAt, skipBR (C02 C03 C08 C17)
    Funcs/Dec        BytesSkipDecoder.SkipN/Reset/Next = bytesBackend / bytesDecNext; SkipDecoder.SkipN/Next over the reader model
                     = bufioxBackend / bufioxDecNext, through the generalised template simulation Funcs/TplG (C02 C03 C08)
    Funcs/FcW        base.Base / base.BaseResp BLength, FastWrite, FastWriteNocopy and Binary.WriteStringNocopy/WriteBinaryNocopy
                     = bLength*, fastWrite*, fastWriteNocopy*, writeStringNocopy for every map iteration order, nil receiver, nil or real NocopyWriter (C11 C15)
    Funcs/TTHEncode  ttheader WriteByte/Uint16/Uint32/String/String2BLen, writeKVInfo, Encode over an abstract bufiox.Writer
                     = TTH.write*, writeKVInfo, encode over the writer log, for every iteration order of both maps (C06)
    Funcs/BufioxR    bufiox.DefaultReader (reset, acquire, acquireSlow, Next, Peek, Skip, ReadLen, ReadBinary, Release, maxSizeStats) translated by
                     extract/bufiox.go (slices WITH capacity: Base/GoSemCap) simulates the reader model Rd of Model/Reader (C04)
    Funcs/BufioxW    bufiox.DefaultWriter (acquire, acquireSlow, Malloc, WriteBinary, WrittenLen, Flush) simulates the writer model (C05)
-/
import Verif.Lemmas.Funcs.Read
import Verif.Lemmas.Funcs.Write
import Verif.Lemmas.Funcs.Append
import Verif.Lemmas.Funcs.TTH
import Verif.Lemmas.Funcs.TTH2
import Verif.Lemmas.Funcs.Skip
import Verif.Lemmas.Funcs.Fc
import Verif.Lemmas.Funcs.Tpl
import Verif.Lemmas.Funcs.TTHDecode
import Verif.Lemmas.Funcs.StreamW
import Verif.Lemmas.Funcs.StreamR
import Verif.Lemmas.Funcs.StreamSkip
import Verif.Lemmas.Funcs.Dec
import Verif.Lemmas.Funcs.FcW
import Verif.Lemmas.Funcs.TTHEncode
import Verif.Lemmas.Funcs.BufioxR
import Verif.Lemmas.Funcs.BufioxW
import Verif.Lemmas.Funcs.BufioxRSD
import Verif.Lemmas.Funcs.StrMapEq
namespace Verif.FuncsEq

/-- every whitelisted function was translated in this run (a refused one has no definition and no theorem) -/
theorem translated_all : Funcs.unsupported = [] := rfl

end Verif.FuncsEq

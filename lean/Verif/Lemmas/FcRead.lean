/-
  Lemmas/FcRead: the readers of binary.go on printed values, and the generated FastRead loop on a
  printed field list.
-/
import Verif.Model.FastCodec
import Verif.Lemmas.FcKey
import Verif.Lemmas.SkipBinCor
namespace Verif

/-! ## what FastRead uses of `Binary.Skip` (proved by the skip family) -/

/-- every well-formed value with nesting ≤ 64 is skipped with exactly its extent -/
theorem skipBin_complete64 (b : Bytes) (t : UInt8) (n : Nat) (h : refLen 64 t b = some n) :
    skipBin b t = .ok n := by
  rw [skipBin_ok_iff, defaultRecursionDepth_eq]
  exact refLen_le_refBin 64 t b n h

/-- a reported length never exceeds the input -/
theorem skipBin_le_len (b : Bytes) (t : UInt8) (n : Nat) (h : skipBin b t = .ok n) : n ≤ b.length := by
  rw [skipBin_ok_iff] at h
  exact (refBin_good _ t b n h).2


theorem sliceFrom_app (P Q : Bytes) (i : Nat) (hi : i = P.length) : sliceFrom (P ++ Q) i = .ok Q := by
  subst hi
  simp [sliceFrom]

theorem readFieldBegin_stop (r : Bytes) : readFieldBegin (0 :: r) = ⟨T_STOP, 0, 1, none⟩ := by
  simp [readFieldBegin, T_STOP_eq]

theorem readFieldBegin_enc (t : UInt8) (id : Nat) (r : Bytes) (ht : t ≠ 0) (hid : id < 65536) :
    readFieldBegin (t :: (be16 id ++ r)) = ⟨t, id, 3, none⟩ := by
  simp only [readFieldBegin, T_STOP_eq, if_neg ht]
  rw [if_neg (by simp), rd16_be16 id hid]

theorem toI32_small (n : Nat) (h : n < 2147483648) : toI32 n = (n : Int) := by simp [toI32, h]

theorem readString_enc (s r : Bytes) (hs : s.length < 2147483648) :
    readString (encStr s ++ r) = ⟨s, 4 + s.length, none⟩ := by
  have hrd : rd32 (encStr s ++ r) = s.length := by
    unfold encStr; rw [List.append_assoc]; exact rd32_be32 _ (by omega) _
  unfold readString
  rw [if_neg (by simp; omega)]
  simp only [hrd, toI32_small _ hs]
  rw [if_neg (by omega), if_neg (by simp)]
  have hd : (encStr s ++ r).drop 4 = s ++ r := by
    unfold encStr; rw [List.append_assoc]; exact List.drop_left' (be32_length _)
  simp only [Int.toNat_natCast]
  rw [hd, List.take_left' rfl]

theorem readI32_enc (v : Int) (r : Bytes) (hv : isI32 v) : readI32 (encI32 v ++ r) = ⟨v, 4, none⟩ := by
  have h32 : ofInt 32 v < 4294967296 := by
    unfold ofInt
    have : ((2 : Nat) ^ 32 : Nat) = 4294967296 := by decide
    rw [this]; omega
  have hrd : rd32 (encI32 v ++ r) = ofInt 32 v := by unfold encI32; exact rd32_be32 _ h32 _
  unfold readI32
  rw [if_neg (by simp [encI32]), hrd]
  have : toI32 (ofInt 32 v) = v := by
    unfold toI32 ofInt isI32 at *
    have : ((2 : Nat) ^ 32 : Nat) = 4294967296 := by decide
    rw [this]
    split <;> omega
  rw [this]

theorem readMapBegin_enc (kt vt : UInt8) (n : Nat) (r : Bytes) (hn : n < 4294967296) :
    readMapBegin (kt :: vt :: (be32 n ++ r)) = ⟨kt, vt, n, 6, none⟩ := by
  simp only [readMapBegin]
  rw [if_neg (by simp), rd32_be32 n hn]

/-! ## the entries of a map -/

theorem encKVs_cons (kv : Bytes × Bytes) (r : List (Bytes × Bytes)) :
    encKVs (kv :: r) = encStr kv.1 ++ encStr kv.2 ++ encKVs r := by simp [encKVs]

theorem readKVs_enc : ∀ (kvs : List (Bytes × Bytes)) (pre more : Bytes) (m : SMap),
    (∀ kv ∈ kvs, strOK kv.1 ∧ strOK kv.2) →
    readKVs (pre ++ encKVs kvs ++ more) kvs.length pre.length m
      = .ok ⟨kvs.foldl (fun m kv => m.set kv.1 kv.2) m, pre.length + (encKVs kvs).length, none⟩
  | [], pre, more, m, _ => by simp [readKVs, encKVs]
  | kv :: r, pre, more, m, h => by
    have hk := (h kv (List.mem_cons_self)).1
    have hv := (h kv (List.mem_cons_self)).2
    have ih := readKVs_enc r (pre ++ encStr kv.1 ++ encStr kv.2) more (m.set kv.1 kv.2)
      (fun x hx => h x (List.mem_cons_of_mem _ hx))
    simp only [List.length_cons, readKVs, Out.bind_eq, Out.pure_eq]
    have e1 : pre ++ encKVs (kv :: r) ++ more = pre ++ (encStr kv.1 ++ (encStr kv.2 ++ (encKVs r ++ more))) := by
      simp [encKVs_cons, List.append_assoc]
    rw [e1, sliceFrom_app pre _ _ rfl, Out.bind_ok, readString_enc kv.1 _ hk]
    simp only []
    have e2 : pre ++ (encStr kv.1 ++ (encStr kv.2 ++ (encKVs r ++ more)))
        = (pre ++ encStr kv.1) ++ (encStr kv.2 ++ (encKVs r ++ more)) := by simp [List.append_assoc]
    rw [e2, sliceFrom_app (pre ++ encStr kv.1) _ _ (by simp), Out.bind_ok, readString_enc kv.2 _ hv]
    simp only []
    have e3 : (pre ++ encStr kv.1) ++ (encStr kv.2 ++ (encKVs r ++ more))
        = pre ++ encStr kv.1 ++ encStr kv.2 ++ encKVs r ++ more := by simp [List.append_assoc]
    have hl : (pre ++ encStr kv.1 ++ encStr kv.2).length = pre.length + (4 + kv.1.length) + (4 + kv.2.length) := by
      simp; omega
    rw [hl] at ih
    rw [e3, ih]
    simp [encKVs_cons, List.foldl_cons]
    omega

/-! ## `case` bodies on printed values -/

theorem caseStr_enc {α : Type} (setF : α → Bytes → α) (p : α) (pre more s : Bytes) (off : Nat)
    (hoff : off = pre.length) (hs : strOK s) :
    caseStr setF p (pre ++ encStr s ++ more) off = .ok ⟨setF p s, off + (encStr s).length, none⟩ := by
  simp only [caseStr, Out.bind_eq, Out.pure_eq]
  rw [List.append_assoc, sliceFrom_app pre _ _ hoff, Out.bind_ok, readString_enc s more hs]
  simp

theorem caseI32_enc {α : Type} (setF : α → Int → α) (p : α) (pre more : Bytes) (v : Int) (off : Nat)
    (hoff : off = pre.length) (hv : isI32 v) :
    caseI32 setF p (pre ++ encI32 v ++ more) off = .ok ⟨setF p v, off + (encI32 v).length, none⟩ := by
  simp only [caseI32, Out.bind_eq, Out.pure_eq]
  rw [List.append_assoc, sliceFrom_app pre _ _ hoff, Out.bind_ok, readI32_enc v more hv]
  simp

theorem encMapSS_length (n : Nat) (kvs : List (Bytes × Bytes)) :
    (encMapSS n kvs).length = 6 + (encKVs kvs).length := by
  simp [encMapSS]; omega

theorem caseMap_enc {α : Type} (setF : α → SMap → α) (p : α) (pre more : Bytes) (kvs : List (Bytes × Bytes))
    (off : Nat) (hoff : off = pre.length) (hk : kvsOK kvs) :
    caseMap setF p (pre ++ encMapSS kvs.length kvs ++ more) off
      = .ok ⟨setF p (SMap.ofList kvs), off + (encMapSS kvs.length kvs).length, none⟩ := by
  subst hoff
  simp only [caseMap, Out.bind_eq, Out.pure_eq]
  have e1 : pre ++ encMapSS kvs.length kvs ++ more
      = pre ++ (TT.STRING :: TT.STRING :: (be32 kvs.length ++ (encKVs kvs ++ more))) := by
    simp [encMapSS, List.append_assoc]
  rw [e1, sliceFrom_app pre _ _ rfl, Out.bind_ok, readMapBegin_enc _ _ _ _ hk.1]
  simp only []
  have e2 : pre ++ (TT.STRING :: TT.STRING :: (be32 kvs.length ++ (encKVs kvs ++ more)))
      = (pre ++ (TT.STRING :: TT.STRING :: be32 kvs.length)) ++ encKVs kvs ++ more := by
    simp [List.append_assoc]
  have hl : (pre ++ (TT.STRING :: TT.STRING :: be32 kvs.length)).length = pre.length + 6 := by simp
  have h := readKVs_enc kvs (pre ++ (TT.STRING :: TT.STRING :: be32 kvs.length)) more [] hk.2
  rw [hl] at h
  rw [e2, h, Out.bind_ok]
  simp [SMap.ofList, encMapSS_length]
  omega

theorem caseSkip_enc {α : Type} (p : α) (pre more v : Bytes) (t : UInt8) (off : Nat)
    (hoff : off = pre.length) (hv : refLen 64 t v = some v.length) :
    caseSkip p (pre ++ v ++ more) off t = .ok ⟨p, off + v.length, none⟩ := by
  simp only [caseSkip, Out.bind_eq, Out.pure_eq]
  rw [List.append_assoc, sliceFrom_app pre _ _ hoff, Out.bind_ok,
    skipBin_complete64 _ t _ (refLen_append hv more)]

/-! ## the generated loop on a printed field list -/

theorem encFields_cons (f : Fld) (fs : List Fld) : encFields (f :: fs) = f.enc ++ encFields fs := by
  simp [encFields]

theorem genLoop_fields {α F : Type} (body : α → Bytes → Nat → Nat → UInt8 → TOut (RR α))
    (apply : α → F → α) (toFld : F → Fld) (Valid : F → Prop)
    (hbody : ∀ (p : α) (f : F) (pre more : Bytes), Valid f →
      body p (pre ++ (toFld f).val ++ more) pre.length (toFld f).id (toFld f).t
        = .ok ⟨apply p f, pre.length + (toFld f).val.length, none⟩)
    (hhdr : ∀ f, Valid f → (toFld f).id < 65536 ∧ (toFld f).t ≠ 0) :
    ∀ (fs : List F) (pre rest : Bytes) (p : α) (fuel : Nat), (∀ f ∈ fs, Valid f) → fs.length < fuel →
      genLoop body (pre ++ encFields (fs.map toFld) ++ 0 :: rest) fuel p pre.length
        = .ok ⟨fs.foldl apply p, pre.length + (encFields (fs.map toFld)).length + 1, none⟩
  | [], pre, rest, p, fuel, _, hfuel => by
    obtain ⟨k, rfl⟩ : ∃ k, fuel = k + 1 := ⟨fuel - 1, by simp at hfuel; omega⟩
    simp only [List.map_nil, encFields, List.flatMap_nil, List.append_nil, genLoop, Out.bind_eq, Out.pure_eq]
    rw [sliceFrom_app pre _ _ rfl, Out.bind_ok, readFieldBegin_stop]
    simp
  | f :: fs, pre, rest, p, fuel, hval, hfuel => by
    obtain ⟨k, rfl⟩ : ∃ k, fuel = k + 1 := ⟨fuel - 1, by simp at hfuel; omega⟩
    have hf := hval f List.mem_cons_self
    obtain ⟨hid, ht⟩ := hhdr f hf
    have ih := genLoop_fields body apply toFld Valid hbody hhdr fs (pre ++ (toFld f).enc) rest (apply p f) k
      (fun x hx => hval x (List.mem_cons_of_mem _ hx)) (by simp at hfuel; omega)
    simp only [List.map_cons, encFields_cons, genLoop, Out.bind_eq, Out.pure_eq]
    have e1 : pre ++ ((toFld f).enc ++ encFields (fs.map toFld)) ++ 0 :: rest
        = pre ++ ((toFld f).t :: (be16 (toFld f).id ++ ((toFld f).val ++ (encFields (fs.map toFld) ++ 0 :: rest)))) := by
      simp [Fld.enc, List.append_assoc]
    rw [e1, sliceFrom_app pre _ _ rfl, Out.bind_ok, readFieldBegin_enc _ _ _ ht hid]
    simp only [T_STOP_eq, if_neg ht]
    have e2 : pre ++ ((toFld f).t :: (be16 (toFld f).id ++ ((toFld f).val ++ (encFields (fs.map toFld) ++ 0 :: rest))))
        = (pre ++ (toFld f).t :: be16 (toFld f).id) ++ (toFld f).val ++ (encFields (fs.map toFld) ++ 0 :: rest) := by
      simp [List.append_assoc]
    have hl : (pre ++ (toFld f).t :: be16 (toFld f).id).length = pre.length + 3 := by simp
    have hb := hbody p f (pre ++ (toFld f).t :: be16 (toFld f).id) (encFields (fs.map toFld) ++ 0 :: rest) hf
    rw [hl] at hb
    rw [e2, hb, Out.bind_ok]
    simp only []
    have e3 : (pre ++ (toFld f).t :: be16 (toFld f).id) ++ (toFld f).val ++ (encFields (fs.map toFld) ++ 0 :: rest)
        = pre ++ (toFld f).enc ++ encFields (fs.map toFld) ++ 0 :: rest := by
      simp [Fld.enc, List.append_assoc]
    have hl2 : (pre ++ (toFld f).enc).length = pre.length + 3 + (toFld f).val.length := by
      simp [Fld.enc]; omega
    rw [hl2] at ih
    rw [e3, ih]
    simp [Fld.enc]
    omega

end Verif

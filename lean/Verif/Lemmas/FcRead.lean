/-
  Lemmas/FcRead: the readers of binary.go on printed values, and the generated FastRead loop on a
  printed field list.
-/
import Verif.Model.FastCodec
import Verif.Lemmas.FcKey
namespace Verif

/-- what the FastRead theorems use of `Binary.Skip` (model `skipBin`); discharged by the skip family's
    theorems (C02 completeness, C03 safety and `n ≤ len`) -/
structure SkipContract : Prop where
  sound : ∀ (b : Bytes) (t : UInt8) (n : Nat), skipBin b t = .ok n → n ≤ b.length
  complete : ∀ (b : Bytes) (t : UInt8) (n : Nat), refLen 64 t b = some n → skipBin b t = .ok n
  safe : ∀ (b : Bytes) (t : UInt8), (skipBin b t).Safe

/-- the extent of a well-formed value does not depend on what follows it (a fact about the grammar) -/
def RefLenExt : Prop :=
  ∀ (t : UInt8) (v r : Bytes) (n : Nat), refLen 64 t v = some n → refLen 64 t (v ++ r) = some n

theorem T_STOP_eq : T_STOP = 0 := by decide
theorem T_STRING_eq : T_STRING = 11 := by decide

theorem sliceFrom_app (P Q : Bytes) (i : Nat) (hi : i = P.length) : sliceFrom (P ++ Q) i = .ok Q := by
  subst hi
  simp [sliceFrom]

theorem readFieldBegin_stop (r : Bytes) : readFieldBegin (0 :: r) = ⟨T_STOP, 0, 1, none⟩ := by
  simp [readFieldBegin, T_STOP_eq]

theorem readFieldBegin_enc (t : UInt8) (id : Nat) (r : Bytes) (ht : t ≠ 0) (hid : id < 65536) :
    readFieldBegin (t :: (be16 id ++ r)) = ⟨t, id, 3, none⟩ := by
  simp only [readFieldBegin, T_STOP_eq, if_neg ht]
  rw [if_neg (by simp), rd16_be16 id hid]

theorem toI32_small (n : Nat) (h : n < 2147483648) : toI32 n = (n : Int) := by simp [toI32, h]

theorem readString_enc (s r : Bytes) (hs : s.length < 2147483648) :
    readString (encStr s ++ r) = ⟨s, 4 + s.length, none⟩ := by
  have hrd : rd32 (encStr s ++ r) = s.length := by
    unfold encStr; rw [List.append_assoc]; exact rd32_be32 _ (by omega) _
  unfold readString
  rw [if_neg (by simp)]
  simp only [hrd, toI32_small _ hs]
  rw [if_neg (by omega), if_neg (by simp)]
  simp [encStr, List.append_assoc, List.take_left']

theorem readI32_enc (v : Int) (r : Bytes) (hv : isI32 v) : readI32 (encI32 v ++ r) = ⟨v, 4, none⟩ := by
  have h32 : ofInt 32 v < 4294967296 := by
    unfold ofInt
    have : ((2 : Nat) ^ 32 : Nat) = 4294967296 := by decide
    rw [this]; omega
  have hrd : rd32 (encI32 v ++ r) = ofInt 32 v := by unfold encI32; exact rd32_be32 _ h32 _
  unfold readI32
  rw [if_neg (by simp [encI32]), hrd]
  have : toI32 (ofInt 32 v) = v := by
    unfold toI32 ofInt isI32 at *
    have : ((2 : Nat) ^ 32 : Nat) = 4294967296 := by decide
    rw [this]
    split <;> omega
  rw [this]

theorem readMapBegin_enc (kt vt : UInt8) (n : Nat) (r : Bytes) (hn : n < 4294967296) :
    readMapBegin (kt :: vt :: (be32 n ++ r)) = ⟨kt, vt, n, 6, none⟩ := by
  simp only [readMapBegin]
  rw [if_neg (by simp), rd32_be32 n hn]

/-! ## the entries of a map -/

theorem encKVs_cons (kv : Bytes × Bytes) (r : List (Bytes × Bytes)) :
    encKVs (kv :: r) = encStr kv.1 ++ encStr kv.2 ++ encKVs r := by simp [encKVs]

theorem readKVs_enc : ∀ (kvs : List (Bytes × Bytes)) (pre more : Bytes) (m : SMap),
    (∀ kv ∈ kvs, strOK kv.1 ∧ strOK kv.2) →
    readKVs (pre ++ encKVs kvs ++ more) kvs.length pre.length m
      = .ok ⟨kvs.foldl (fun m kv => m.set kv.1 kv.2) m, pre.length + (encKVs kvs).length, none⟩
  | [], pre, more, m, _ => by simp [readKVs, encKVs]
  | kv :: r, pre, more, m, h => by
    have hk := (h kv (List.mem_cons_self)).1
    have hv := (h kv (List.mem_cons_self)).2
    have ih := readKVs_enc r (pre ++ encStr kv.1 ++ encStr kv.2) more (m.set kv.1 kv.2)
      (fun x hx => h x (List.mem_cons_of_mem _ hx))
    simp only [List.length_cons, readKVs, Out.bind_eq, Out.pure_eq]
    have e1 : pre ++ encKVs (kv :: r) ++ more = pre ++ (encStr kv.1 ++ (encStr kv.2 ++ (encKVs r ++ more))) := by
      simp [encKVs_cons, List.append_assoc]
    rw [e1, sliceFrom_app pre _ _ rfl, Out.bind_ok, readString_enc kv.1 _ hk]
    simp only []
    have e2 : pre ++ (encStr kv.1 ++ (encStr kv.2 ++ (encKVs r ++ more)))
        = (pre ++ encStr kv.1) ++ (encStr kv.2 ++ (encKVs r ++ more)) := by simp [List.append_assoc]
    rw [e2, sliceFrom_app (pre ++ encStr kv.1) _ _ (by simp), Out.bind_ok, readString_enc kv.2 _ hv]
    simp only []
    have e3 : (pre ++ encStr kv.1) ++ (encStr kv.2 ++ (encKVs r ++ more))
        = pre ++ encStr kv.1 ++ encStr kv.2 ++ encKVs r ++ more := by simp [List.append_assoc]
    have hl : (pre ++ encStr kv.1 ++ encStr kv.2).length = pre.length + (4 + kv.1.length) + (4 + kv.2.length) := by
      simp; omega
    rw [hl] at ih
    rw [e3, ih]
    simp [encKVs_cons, List.foldl_cons]
    omega

end Verif

/-
  Lemmas/SkipTplBufiox: SkipDecoder over a bufiox.Reader (`bufioxBackend`, `bufioxDecNext`).

  The back end accumulates the value with `Peek(rn + n)` and finally consumes it with `Next(rn)`.
  Over ANY reader that satisfies the contract `RdC P live bnd` (Lemmas/SkipBR.lean) the back end
  is a (weak) cursor over `remaining.drop rn` for all requests `k` with `|remaining| + k ≤ bnd`
  (`bufiox_cursor`), hence (Lemmas/SkipTplW.lean) SkipDecoderTpl.Skip is sound w.r.t. refTpl over any
  source and agrees exactly with it over live sources; the returned bytes are exactly the value,
  the reader afterwards owes exactly the rest and ReadLen += |value| (`bufioxDecNext_w`).  Instances:
    * C04's reader over ANY source: soundness, totality (`bufioxDecNext_any`);
    * C04's reader over a live source, sizes ≤ 2^60 (`bufioxDecNext_exact`);
    * fully buffered readers, no size hypothesis (`bufioxDecNext_dry`).
-/
import Verif.Lemmas.SkipTplW
import Verif.Lemmas.SkipBRInst
import Verif.Lemmas.SkipBRBytes
namespace Verif

/-- what the decoder still has in front of it: the reader's unread bytes beyond the peeked window -/
def bufioxRem (s : BufioxDec) : Bytes := s.r.remaining.drop s.rn

/-- back-end invariant during one `Next(t)`: the reader satisfies its invariant `P`, still owes the
    same bytes `R0` and has the same ReadLen `ri0` as at the start (Peek consumes nothing), and
    the window lies within `R0` -/
def BufioxP (P : Rd → Prop) (R0 : Bytes) (ri0 : Nat) (s : BufioxDec) : Prop :=
  P s.r ∧ s.r.remaining = R0 ∧ s.r.ri = ri0 ∧ s.rn ≤ R0.length

theorem bufiox_cursor {P : Rd → Prop} {live : Prop} {bnd : Nat} (hC : RdC P live bnd) (R0 : Bytes)
    (ri0 cb : Nat) (hsz : R0.length + cb ≤ bnd) :
    WCursor bufioxBackend bufioxRem (BufioxP P R0 ri0) live cb := by
  refine ⟨?_, ?_⟩
  · intro s k hp hkb
    obtain ⟨hpr, hR, hri, hrn⟩ := hp
    have hn : ((s.rn + k : Nat) : Int).toNat = s.rn + k := Int.toNat_natCast _
    rcases hC.peek s.r ((s.rn + k : Nat) : Int) hpr (Int.natCast_nonneg _)
        (by rw [hn]; omega) with
      ⟨r', hx, h1, hrem, hri', hp'⟩ | ⟨e, r', hx, hl⟩
    · left
      rw [hn, hR] at hx h1
      refine ⟨{ r := r', rn := s.rn + k }, ?_, ?_, ?_, ⟨hp', by rw [hrem, hR], by rw [hri', hri], by omega⟩⟩
      · have hlen : (List.take (s.rn + k) R0).length = s.rn + k := by
          rw [List.length_take]; omega
        have hd : List.drop s.rn (List.take (s.rn + k) R0) = List.take k (List.drop s.rn R0) := by
          rw [List.drop_take]; congr 1; omega
        simp only [bufioxBackend, hx, hlen, bufioxRem, hR, hd]
        rw [if_neg (by omega)]
      · simp only [bufioxRem, hR, List.length_drop]; omega
      · simp only [bufioxRem, hrem, hR, List.drop_drop]
    · right
      refine ⟨.raw e, by simp only [bufioxBackend, hx], fun l => ?_⟩
      have := hl l
      rw [hn, hR] at this
      simp only [bufioxRem, hR, List.length_drop]; omega
  · intro s hp
    simp only [bufioxBackend, bufioxRem, Rd.avail_eq, List.length_drop]; omega

/-- SkipDecoder.Next(t) over any reader satisfying the contract (requests up to
    `2·|remaining| + 2^35` covered).  Over any source: an error, or refTpl 64 accepts a prefix of what
    the reader owes, exactly that prefix is returned and consumed, ReadLen += its length.  Over a
    live source an error only if refTpl 64 rejects. -/
theorem bufioxDecNext_w {P : Rd → Prop} {live : Prop} {bnd : Nat} (hC : RdC P live bnd) (r : Rd) (t : UInt8)
    (hp : P r) (hsz : r.remaining.length + (r.remaining.length + tplReq) ≤ bnd) :
    (∃ e, bufioxDecNext r t = .err e ∧ (live → refTpl Facts.defaultRecursionDepth t r.remaining = none)) ∨
    (∃ k r', refTpl Facts.defaultRecursionDepth t r.remaining = some k ∧
      bufioxDecNext r t = .ok (r.remaining.take k, r') ∧
      r'.remaining = r.remaining.drop k ∧ r'.readLen = r.readLen + k ∧ P r') := by
  have hp0 : BufioxP P r.remaining r.ri { r := r, rn := 0 } := ⟨hp, rfl, rfl, Nat.zero_le _⟩
  have hm := skipTplAtW (bufiox_cursor hC r.remaining r.ri (r.remaining.length + tplReq) hsz)
    (by omega) Facts.defaultRecursionDepth t { r := r, rn := 0 } hp0
  have hrem0 : bufioxRem { r := r, rn := 0 } = r.remaining := by simp [bufioxRem]
  rw [hrem0] at hm
  rcases hm with ⟨e, hx, hnone⟩ | ⟨k, s1, hr, hx, hrem, hpr, hR, hri, hrn⟩
  · left; exact ⟨e, by simp [bufioxDecNext, hx], hnone⟩
  · have hk := (refTpl_good _ t _ k hr).2
    have hlen1 := congrArg List.length hrem
    simp only [bufioxRem, hR, List.length_drop] at hlen1
    have hrn1 : s1.rn = k := by omega
    rcases hC.next s1.r (k : Int) hpr (Int.natCast_nonneg _)
        (by rw [Int.toNat_natCast]; omega) with ⟨r', hy, h1, hrem', hri', hp'⟩ | ⟨e, r', hy, hlv⟩
    · right
      rw [Int.toNat_natCast, hR] at hy hrem'
      rw [Int.toNat_natCast, hri] at hri'
      refine ⟨k, r', hr, ?_, hrem', hri', hp'⟩
      simp only [bufioxDecNext, hx, Out.bind_eq, Out.bind_ok, hrn1, hy, Out.pure_eq]
    · left
      refine ⟨.raw e, ?_, fun l => ?_⟩
      · simp only [bufioxDecNext, hx, Out.bind_eq, Out.bind_ok, hrn1, hy]
      · have := hlv l
        rw [Int.toNat_natCast, hR] at this; omega

/-- the exact form over an exact contract -/
theorem bufioxDecNext_gen {P : Rd → Prop} {bnd : Nat} (hC : RdC P True bnd) (r : Rd) (t : UInt8)
    (hp : P r) (hsz : r.remaining.length + (r.remaining.length + tplReq) ≤ bnd) :
    match refTpl Facts.defaultRecursionDepth t r.remaining with
    | some k => ∃ r', bufioxDecNext r t = .ok (r.remaining.take k, r') ∧
        r'.remaining = r.remaining.drop k ∧ r'.readLen = r.readLen + k ∧ P r'
    | none => ∃ e, bufioxDecNext r t = .err e := by
  rcases bufioxDecNext_w hC r t hp hsz with ⟨e, hx, hnone⟩ | ⟨k, r', hr, hx, h1, h2, h3⟩
  · rw [hnone trivial]; exact ⟨e, hx⟩
  · rw [hr]; exact ⟨r', hx, h1, h2, h3⟩

/-- … over C04's reader with a live source -/
theorem bufioxDecNext_exact (r : Rd) (t : UInt8) (h : RdOK r) (hl : r.Live) :
    match refTpl Facts.defaultRecursionDepth t r.remaining with
    | some k => ∃ r', bufioxDecNext r t = .ok (r.remaining.take k, r') ∧
        r'.remaining = r.remaining.drop k ∧ r'.readLen = r.readLen + k ∧ RdOK r' ∧ r'.Live
    | none => ∃ e, bufioxDecNext r t = .err e := by
  have hsz : r.remaining.length + (r.remaining.length + tplReq) ≤ bigReq := by
    have := h.2; unfold sizeBound at this; unfold tplReq bigReq; omega
  have hm := bufioxDecNext_gen (rdc_inst True) r t ⟨h, fun _ => hl⟩ hsz
  cases hr : refTpl Facts.defaultRecursionDepth t r.remaining with
  | none => rw [hr] at hm; exact hm
  | some k =>
    rw [hr] at hm
    obtain ⟨r', h1, h2, h3, h4⟩ := hm
    exact ⟨r', h1, h2, h3, h4.1, h4.2 trivial⟩

/-- … over C04's generalised live sources (`Rd.Live2`) -/
theorem bufioxDecNext_exact2 (r : Rd) (t : UInt8) (h : RdOK r) (hl : r.Live2) :
    match refTpl Facts.defaultRecursionDepth t r.remaining with
    | some k => ∃ r', bufioxDecNext r t = .ok (r.remaining.take k, r') ∧
        r'.remaining = r.remaining.drop k ∧ r'.readLen = r.readLen + k ∧ RdOK r' ∧ r'.Live2
    | none => ∃ e, bufioxDecNext r t = .err e := by
  have hsz : r.remaining.length + (r.remaining.length + tplReq) ≤ bigReq := by
    have := h.2; unfold sizeBound at this; unfold tplReq bigReq; omega
  have hm := bufioxDecNext_gen rdc_inst2 r t ⟨h, fun _ => hl⟩ hsz
  cases hr : refTpl Facts.defaultRecursionDepth t r.remaining with
  | none => rw [hr] at hm; exact hm
  | some k =>
    rw [hr] at hm
    obtain ⟨r', h1, h2, h3, h4⟩ := hm
    exact ⟨r', h1, h2, h3, h4.1, h4.2 trivial⟩

/-- … over C04's reader with ANY source: sound and total -/
theorem bufioxDecNext_any (r : Rd) (t : UInt8) (h : RdOK r) :
    (∃ e, bufioxDecNext r t = .err e) ∨
    (∃ k r', refTpl Facts.defaultRecursionDepth t r.remaining = some k ∧
      bufioxDecNext r t = .ok (r.remaining.take k, r') ∧
      r'.remaining = r.remaining.drop k ∧ r'.readLen = r.readLen + k ∧ RdOK r') := by
  have hsz : r.remaining.length + (r.remaining.length + tplReq) ≤ bigReq := by
    have := h.2; unfold sizeBound at this; unfold tplReq bigReq; omega
  rcases bufioxDecNext_w (rdc_inst False) r t ⟨h, fun f => f.elim⟩ hsz with ⟨e, hx, _⟩ | ⟨k, r', hr, hx, h1, h2, h3⟩
  · exact Or.inl ⟨e, hx⟩
  · exact Or.inr ⟨k, r', hr, hx, h1, h2, h3.1⟩

/-- … over a fully buffered reader: every buffer content, every capacity, every type byte -/
theorem bufioxDecNext_dry (r : Rd) (t : UInt8) (h : RdDry r) :
    match refTpl Facts.defaultRecursionDepth t r.remaining with
    | some k => ∃ r', bufioxDecNext r t = .ok (r.remaining.take k, r') ∧
        r'.remaining = r.remaining.drop k ∧ r'.readLen = r.readLen + k ∧ RdDry r'
    | none => ∃ e, bufioxDecNext r t = .err e :=
  bufioxDecNext_gen (rdc_dry _) r t h (Nat.le_refl _)

end Verif

/-
  Lemmas/StrMapGet: the lookup structure of strmap.go in the abstract —
  first-index table (`fillFirst`) + scan-while-the-slot-matches (`scan`) over ANY slot-sorted item
  list finds exactly the first item whose key equals the probe, for every hash function.
-/
import Verif.Model.StrMap
namespace Verif.SMap
open Verif

variable {V : Type}

/-- index of the first item with slot `s` -/
def idxOf : List (Item V) → Nat → Option Nat
  | [], _ => none
  | e :: es, s => if e.slot = s then some 0 else (idxOf es s).map (· + 1)

/-- value of the first item whose key bytes equal `s` -/
def findKey (data : Bytes) : List (Item V) → Bytes → Option V
  | [], _ => none
  | e :: es, s => if keyAt data e = some s then some e.v else findKey data es s

/-- table entry for a slot: index of its first item, or -1 -/
def enc : Option Nat → Int
  | some j => (j : Int)
  | none => -1

theorem idxOf_none {l : List (Item V)} {s : Nat} (h : idxOf l s = none) : ∀ e ∈ l, e.slot ≠ s := by
  induction l with
  | nil => intro e he; cases he
  | cons a l ih =>
    unfold idxOf at h
    split at h
    · cases h
    · rename_i hne
      intro e he
      rcases List.mem_cons.mp he with rfl | he
      · exact hne
      · exact ih (by simpa using h) e he

theorem idxOf_some {l : List (Item V)} {s j : Nat} (h : idxOf l s = some j) :
    ∃ A e C, l = A ++ e :: C ∧ A.length = j ∧ e.slot = s ∧ ∀ a ∈ A, a.slot ≠ s := by
  induction l generalizing j with
  | nil => cases h
  | cons a l ih =>
    unfold idxOf at h
    split at h
    · rename_i heq
      injection h with h; subst h
      exact ⟨[], a, l, rfl, rfl, heq, by intro x hx; cases hx⟩
    · rename_i hne
      cases h2 : idxOf l s with
      | none => rw [h2] at h; cases h
      | some j' =>
        rw [h2] at h; simp at h; subst h
        obtain ⟨A, e, C, hl, hA, he, hall⟩ := ih h2
        refine ⟨a :: A, e, C, by rw [hl]; rfl, by simp [hA], he, ?_⟩
        intro x hx
        rcases List.mem_cons.mp hx with rfl | hx
        · exact hne
        · exact hall x hx

theorem findKey_append_none {data : Bytes} {A B : List (Item V)} {s : Bytes}
    (h : ∀ a ∈ A, keyAt data a ≠ some s) : findKey data (A ++ B) s = findKey data B s := by
  induction A with
  | nil => rfl
  | cons a A ih =>
    have h1 : keyAt data a ≠ some s := h a (List.mem_cons_self)
    have h2 : ∀ x ∈ A, keyAt data x ≠ some s := fun x hx => h x (List.mem_cons_of_mem _ hx)
    simp only [List.cons_append, findKey, h1, if_false]
    exact ih h2

theorem findKey_none {data : Bytes} {A : List (Item V)} {s : Bytes}
    (h : ∀ a ∈ A, keyAt data a ≠ some s) : findKey data A s = none := by
  have := findKey_append_none (B := []) h
  simpa [findKey] using this

/-! ## fillFirst -/

theorem toI32_small {i : Nat} (h : i < 2147483648) : toI32 (i % two32) = (i : Int) := by
  have : i % two32 = i := Nat.mod_eq_of_lt (by unfold two32; omega)
  rw [this]; unfold toI32; simp [h]

/-- the second loop of makeHashtable: a cell that was negative gets the index of the first item of
    its slot (if any), any other cell is left alone; no index panic when every slot is in range -/
theorem fillFirst_spec (es : List (Item V)) (i : Nat) (ht : Array Int)
    (hslot : ∀ e ∈ es, e.slot < ht.size) (hlen : i + es.length ≤ 2147483648) :
    ∃ ht', fillFirst es i ht = .ok ht' ∧ ht'.size = ht.size ∧
      ∀ s x, ht[s]? = some x →
        ht'[s]? = some (if x < 0 then (match idxOf es s with
                                        | some j => ((i + j : Nat) : Int)
                                        | none => x) else x) := by
  induction es generalizing i ht with
  | nil =>
    refine ⟨ht, rfl, rfl, ?_⟩
    intro s x hx
    simp [idxOf, hx]
  | cons e es ih =>
    have he : e.slot < ht.size := hslot e List.mem_cons_self
    have hes : ∀ x ∈ es, x.slot < ht.size := fun x hx => hslot x (List.mem_cons_of_mem _ hx)
    have hget : ht[e.slot]? = some ht[e.slot] := Array.getElem?_eq_getElem he
    simp only [List.length_cons] at hlen
    unfold fillFirst
    rw [hget]
    simp only
    by_cases hneg : ht[e.slot] < 0
    · simp only [hneg, if_true]
      have hi : toI32 (i % two32) = (i : Int) := toI32_small (by omega)
      rw [hi]
      have hsz : (ht.setIfInBounds e.slot (i : Int)).size = ht.size := Array.size_setIfInBounds
      obtain ⟨ht', hrun, hsize, hspec⟩ := ih (i + 1) (ht.setIfInBounds e.slot (i : Int))
        (by rw [hsz]; exact hes) (by omega)
      refine ⟨ht', hrun, by rw [hsize, hsz], ?_⟩
      intro s x hx
      by_cases hs : e.slot = s
      · subst hs
        have h1 : (ht.setIfInBounds e.slot (i : Int))[e.slot]? = some (i : Int) := by
          rw [Array.getElem?_setIfInBounds]; simp [he]
        rw [hspec _ _ h1]
        rw [hget] at hx; injection hx with hx; subst hx
        have : ¬ ((i : Int) < 0) := by omega
        simp [this, hneg, idxOf]
      · have h1 : (ht.setIfInBounds e.slot (i : Int))[s]? = some x := by
          rw [Array.getElem?_setIfInBounds]; simp [hs, hx]
        rw [hspec _ _ h1]
        simp only [idxOf, hs, if_false]
        cases idxOf es s with
        | none => simp
        | some j => simp only [Option.map_some]; rw [show i + 1 + j = i + (j + 1) by omega]
    · simp only [hneg, if_false]
      obtain ⟨ht', hrun, hsize, hspec⟩ := ih (i + 1) ht hes (by omega)
      refine ⟨ht', hrun, hsize, ?_⟩
      intro s x hx
      rw [hspec _ _ hx]
      by_cases hs : e.slot = s
      · subst hs
        rw [hget] at hx; injection hx with hx; subst hx
        simp [hneg]
      · simp only [idxOf, hs, if_false]
        cases idxOf es s with
        | none => simp
        | some j => simp only [Option.map_some]; rw [show i + 1 + j = i + (j + 1) by omega]

/-- after the reset loop (every cell -1) the table holds exactly the first index per slot -/
theorem fillFirst_fresh (es : List (Item V)) (n : Nat)
    (hslot : ∀ e ∈ es, e.slot < n) (hlen : es.length ≤ 2147483648) :
    ∃ ht', fillFirst es 0 (Array.replicate n (-1 : Int)) = .ok ht' ∧ ht'.size = n ∧
      ∀ s, s < n → ht'[s]? = some (enc (idxOf es s)) := by
  obtain ⟨ht', hrun, hsize, hspec⟩ := fillFirst_spec es 0 (Array.replicate n (-1 : Int))
    (by simpa using hslot) (by omega)
  refine ⟨ht', hrun, by simpa using hsize, ?_⟩
  intro s hs
  have h1 : (Array.replicate n (-1 : Int))[s]? = some (-1) := by
    rw [Array.getElem?_replicate]; simp [hs]
  rw [hspec _ _ h1]
  cases idxOf es s <;> simp [enc]

/-! ## scan and Get -/

/-- key/slot consistency of an item list: every item's key bytes are readable and its slot is the
    reduced hash of those bytes -/
def Consistent (h : Bytes → Nat) (slots : Nat) (data : Bytes) (l : List (Item V)) : Prop :=
  ∀ e ∈ l, ∃ k, keyAt data e = some k ∧ e.slot = h k % two32 % slots

theorem scan_spec (h : Bytes → Nat) (slots : Nat) (data : Bytes) (s : Bytes) (C : List (Item V))
    (hsorted : C.Pairwise (fun a b => a.slot ≤ b.slot))
    (hge : ∀ c ∈ C, h s % two32 % slots ≤ c.slot)
    (hcons : Consistent h slots data C) :
    scan data C (h s % two32 % slots) s = .ok (findKey data C s) := by
  induction C with
  | nil => rfl
  | cons c C ih =>
    rw [List.pairwise_cons] at hsorted
    obtain ⟨hc, hsorted⟩ := hsorted
    obtain ⟨k, hk, hslot⟩ := hcons c List.mem_cons_self
    have hcons' : Consistent h slots data C := fun e he => hcons e (List.mem_cons_of_mem _ he)
    unfold scan
    by_cases hne : c.slot ≠ h s % two32 % slots
    · rw [if_pos hne]
      -- every item from here on has a larger slot, hence a different key
      have hgt : h s % two32 % slots < c.slot := by
        have := hge c List.mem_cons_self; omega
      have hnone : ∀ a ∈ c :: C, keyAt data a ≠ some s := by
        intro a ha heq
        obtain ⟨k', hk', hs'⟩ := hcons a ha
        rw [hk'] at heq; injection heq with heq; subst heq
        rcases List.mem_cons.mp ha with rfl | ha
        · omega
        · have := hc a ha; omega
      rw [findKey_none hnone]
    · have heq : c.slot = h s % two32 % slots := by omega
      rw [if_neg hne]; simp only [hk]
      by_cases hks : k = s
      · subst hks; simp [findKey, hk]
      · have : keyAt data c ≠ some s := by rw [hk]; intro h'; injection h' with h'; exact hks h'
        simp only [hks, if_false, findKey, this]
        apply ih hsorted _ hcons'
        intro a ha
        have := hc a ha; omega

/-- Get on any state whose table is the first-index table of a slot-sorted consistent item list -/
theorem get_spec (h : Bytes → Nat) (m : StrMap V) (s : Bytes)
    (hpos : 0 < m.ht.size) (hlt : m.ht.size < two32)
    (htab : ∀ t, t < m.ht.size → m.ht[t]? = some (enc (idxOf m.items t)))
    (hsorted : m.items.Pairwise (fun a b => a.slot ≤ b.slot))
    (hcons : Consistent h m.ht.size m.data m.items)
    (hlen : m.items.length < 2147483648) :
    get h m s = .ok (findKey m.data m.items s) := by
  have hmod : m.ht.size % two32 = m.ht.size := Nat.mod_eq_of_lt hlt
  have hslotlt : h s % two32 % m.ht.size < m.ht.size := Nat.mod_lt _ hpos
  unfold get
  have h0 : ¬ (m.ht.size = 0) := by omega
  simp only [h0, if_false, hmod]
  rw [htab _ hslotlt]
  simp only
  cases hidx : idxOf m.items (h s % two32 % m.ht.size) with
  | none =>
    simp only [enc]
    have hnone : ∀ a ∈ m.items, keyAt m.data a ≠ some s := by
      intro a ha heq
      obtain ⟨k', hk', hs'⟩ := hcons a ha
      rw [hk'] at heq; injection heq with heq; subst heq
      exact idxOf_none hidx a ha hs'
    rw [findKey_none hnone]
    simp
  | some j =>
    obtain ⟨A, e, C, hl, hA, he, hall⟩ := idxOf_some hidx
    have hAnone : ∀ a ∈ A, keyAt m.data a ≠ some s := by
      intro a ha heq
      have ham : a ∈ m.items := by rw [hl]; exact List.mem_append_left _ ha
      obtain ⟨k', hk', hs'⟩ := hcons a ham
      rw [hk'] at heq; injection heq with heq; subst heq
      exact hall a ha hs'
    have hfk : findKey m.data m.items s = findKey m.data (e :: C) s := by
      rw [hl]; exact findKey_append_none hAnone
    have hitem : m.items[j]? = some e := by
      rw [hl, ← hA]; simp
    have hlim : toI32 (m.items.length % two32) = (m.items.length : Int) := toI32_small hlen
    have hdrop : (m.items.take m.items.length).drop (j + 1) = C := by
      rw [List.take_length, hl, ← hA]; simp
    have hsortedEC : (e :: C).Pairwise (fun a b => a.slot ≤ b.slot) := by
      rw [hl] at hsorted; exact (List.pairwise_append.mp hsorted).2.1
    have hconsEC : Consistent h m.ht.size m.data (e :: C) := by
      intro x hx; apply hcons; rw [hl]; exact List.mem_append_right _ hx
    have hgeEC : ∀ c ∈ e :: C, h s % two32 % m.ht.size ≤ c.slot := by
      intro c hc
      rcases List.mem_cons.mp hc with rfl | hc
      · omega
      · have := (List.pairwise_cons.mp hsortedEC).1 c hc; omega
    have hscan := scan_spec h m.ht.size m.data s (e :: C) hsortedEC hgeEC hconsEC
    rw [hfk, ← hscan]
    have hj : ¬ ((j : Int) < 0) := by omega
    simp only [enc, hj, if_false, Int.toNat_natCast, hitem, hlim, hdrop]
    obtain ⟨k, hk, _⟩ := hconsEC e List.mem_cons_self
    have hne : ¬ (e.slot ≠ h s % two32 % m.ht.size) := by omega
    simp only [hk, scan, hne, if_false]

end Verif.SMap

/- Lemmas/WireSrc: provenance of stream-read failures: over C04's buffered reader on a source with
   script s0 (invariant `SrcInv` of Lemmas/SkipBRSource = C04's `Inv` with sizes in range + C04's `Prov`),
   every `.wrap se` returned by a BufferReader.Read* carries the SOURCE's own error (C04 `step_prov`). -/
import Verif.Lemmas.WireS
import Verif.Lemmas.SkipBRSource
namespace Verif.Wire

/-- outcome of a stream-reader step over a source with script `s0`: a success leaves a state with the
    invariant; an error is the source's own error wrapped, or one of the allowed grammar errors `G` -/
def SrcOK {α} (s0 : List Resp) (G : TErr → Prop) (x : TOut (α × Rd)) : Prop :=
  match x with
  | .ok p => SrcInv s0 p.2
  | .err e => (∃ se, e = .wrap se ∧ SrcErrOf s0 se) ∨ G e
  | _ => True

theorem SrcOK.bind {α β} {s0 : List Resp} {G : TErr → Prop} {x : TOut (α × Rd)} {f : α × Rd → TOut (β × Rd)}
    (hx : SrcOK s0 G x) (hf : ∀ p, SrcInv s0 p.2 → SrcOK s0 G (f p)) : SrcOK s0 G (x.bind f) := by
  cases x with
  | ok p => exact hf p hx
  | err e => exact hx
  | panic s => trivial
  | oob => trivial

theorem SrcOK.mono {α} {s0 : List Resp} {G H : TErr → Prop} {x : TOut (α × Rd)} (hx : SrcOK s0 G x)
    (h : ∀ e, G e → H e) : SrcOK s0 H x := by
  cases x with
  | ok p => exact hx
  | err e => exact hx.elim Or.inl (fun g => Or.inr (h e g))
  | panic s => trivial
  | oob => trivial

theorem srcOK_pure {α} (s0 : List Resp) (G : TErr → Prop) (a : α) (r : Rd) (h : SrcInv s0 r) :
    SrcOK s0 G (.ok (a, r) : TOut (α × Rd)) := h

theorem srcOK_brNext (s0 : List Resp) (G : TErr → Prop) (r : Rd) (n : Int) (h : SrcInv s0 r)
    (h0 : 0 ≤ n) (hb : n.toNat ≤ brReq) : SrcOK s0 G (brNext n r) := by
  unfold brNext
  generalize hn : r.next n = res
  obtain ⟨x, r1⟩ := res
  cases x with
  | ok b => exact rdStep_keeps h (.next ⟨h0, hb⟩ hn)
  | fail e =>
    cases e with
    | some e => exact Or.inl ⟨e, rfl, rdFails_source h ⟨n, r1, ⟨h0, hb⟩, Or.inl hn⟩⟩
    | none => exact rdStep_keeps h (.nextNil ⟨h0, hb⟩ hn)
  | nofuel => trivial


theorem srcOK_brReadFull (s0 : List Resp) (G : TErr → Prop) (r : Rd) (k : Nat) (h : SrcInv s0 r)
    (hk : k ≤ bigReq) : SrcOK s0 G (brReadFull k r) := by
  have hinv := h.1.1
  have hs := h.1.small k hk
  obtain ⟨m, r1, hacq, ha, he⟩ := readBinary_cases r k hinv hs
  have hp := step_prov s0 r (.readBinary k) hinv hs h.2
  simp only [Rd.step, he] at hp
  unfold brReadFull
  rw [he]
  simp only []
  cases hc : (if k > min m k then r1.err else none) with
  | some e =>
    simp only []
    have := hp.2 e (by simp [RRes.err, hc])
    left
    refine ⟨e, rfl, ?_⟩
    simpa [errAllowed, SrcErrOf, Bool.or_eq_true, Bool.and_eq_true, beq_iff_eq] using this
  | none =>
    simp only []
    refine ⟨⟨?_, ?_⟩, hp.1⟩
    · have hi := ha.inv
      have hmk : min m k ≤ r1.buf.length - r1.ri := by
        rcases ha.outcome with ⟨h1, h2, _⟩ | ⟨h1, _⟩ <;> omega
      exact ⟨by simp; have := hi.ri_le; omega, hi.len_le, hi.cap_le, hi.stats_le⟩
    · have hmk : min m k ≤ r1.buf.length - r1.ri := by
        rcases ha.outcome with ⟨h1, h2, _⟩ | ⟨h1, _⟩ <;> omega
      rw [advance_remaining r1 _ hmk, ha.remaining hinv.ri_le]
      have := h.1.2
      simp only [List.length_drop, ha.ri]
      have hle : min m k ≤ r.remaining.length := by
        rw [← ha.remaining hinv.ri_le]; unfold Rd.remaining; simp; omega
      omega


theorem SrcOK.bindPure {α β} {s0 : List Resp} {G : TErr → Prop} {y : TOut β} {g : β → TOut (α × Rd)}
    (hy : ∀ e, y ≠ .err e) (hg : ∀ b, SrcOK s0 G (g b)) : SrcOK s0 G (y.bind g) := by
  cases y with
  | ok b => exact hg b
  | err e => exact absurd rfl (hy e)
  | panic s => trivial
  | oob => trivial

theorem idx_noerr (b : Bytes) (i : Nat) : ∀ e, idx b i ≠ .err e := by
  intro e; unfold idx; split <;> simp
theorem u16of_noerr (b : Bytes) : ∀ e, u16of b ≠ .err e := by intro e; unfold u16of; split <;> simp
theorem u32of_noerr (b : Bytes) : ∀ e, u32of b ≠ .err e := by intro e; unfold u32of; split <;> simp
theorem u64of_noerr (b : Bytes) : ∀ e, u64of b ≠ .err e := by intro e; unfold u64of; split <;> simp
theorem sfrom_noerr (b : Bytes) (i : Nat) : ∀ e, sfrom b i ≠ .err e := by intro e; unfold sfrom; split <;> simp

theorem brq (n : Nat) (h : n ≤ 8) : ((n : Nat) : Int).toNat ≤ brReq := by simp [brReq]; omega

variable (s0 : List Resp) (G : TErr → Prop)

theorem srcOK_brReadI32 (r : Rd) (h : SrcInv s0 r) : SrcOK s0 G (brReadI32 r) := by
  unfold brReadI32
  apply SrcOK.bind (srcOK_brNext s0 G r 4 h (by omega) (by decide)); intro p hp
  obtain ⟨b, r1⟩ := p
  apply SrcOK.bindPure (u32of_noerr b); intro v
  exact hp

theorem srcOK_brReadBool (r : Rd) (h : SrcInv s0 r) : SrcOK s0 G (brReadBool r) := by
  unfold brReadBool
  apply SrcOK.bind (srcOK_brNext s0 G r 1 h (by omega) (by decide)); intro p hp
  apply SrcOK.bindPure (idx_noerr _ _); intro v; exact hp

theorem srcOK_brReadByte (r : Rd) (h : SrcInv s0 r) : SrcOK s0 G (brReadByte r) := by
  unfold brReadByte
  apply SrcOK.bind (srcOK_brNext s0 G r 1 h (by omega) (by decide)); intro p hp
  apply SrcOK.bindPure (idx_noerr _ _); intro v; exact hp

theorem srcOK_brReadI16 (r : Rd) (h : SrcInv s0 r) : SrcOK s0 G (brReadI16 r) := by
  unfold brReadI16
  apply SrcOK.bind (srcOK_brNext s0 G r 2 h (by omega) (by decide)); intro p hp
  apply SrcOK.bindPure (u16of_noerr _); intro v; exact hp

theorem srcOK_brReadI64 (r : Rd) (h : SrcInv s0 r) : SrcOK s0 G (brReadI64 r) := by
  unfold brReadI64
  apply SrcOK.bind (srcOK_brNext s0 G r 8 h (by omega) (by decide)); intro p hp
  apply SrcOK.bindPure (u64of_noerr _); intro v; exact hp

theorem srcOK_brReadDouble (r : Rd) (h : SrcInv s0 r) : SrcOK s0 G (brReadDouble r) := by
  unfold brReadDouble
  apply SrcOK.bind (srcOK_brNext s0 G r 8 h (by omega) (by decide)); intro p hp
  apply SrcOK.bindPure (u64of_noerr _); intro v; exact hp

theorem srcOK_brReadFieldBegin (r : Rd) (h : SrcInv s0 r) : SrcOK s0 G (brReadFieldBegin r) := by
  unfold brReadFieldBegin
  apply SrcOK.bind (srcOK_brNext s0 G r 1 h (by omega) (by decide)); intro p hp
  apply SrcOK.bindPure (idx_noerr _ _); intro t
  split
  · exact hp
  · apply SrcOK.bind (srcOK_brNext s0 G p.2 2 hp (by omega) (by decide)); intro q hq
    apply SrcOK.bindPure (u16of_noerr _); intro v; exact hq

theorem srcOK_brReadMapBegin (r : Rd) (h : SrcInv s0 r) : SrcOK s0 G (brReadMapBegin r) := by
  unfold brReadMapBegin
  apply SrcOK.bind (srcOK_brNext s0 G r 6 h (by omega) (by decide)); intro p hp
  apply SrcOK.bindPure (idx_noerr _ _); intro kt
  apply SrcOK.bindPure (idx_noerr _ _); intro vt
  apply SrcOK.bindPure (sfrom_noerr _ _); intro b2
  apply SrcOK.bindPure (u32of_noerr _); intro v; exact hp

theorem srcOK_brReadListBegin (r : Rd) (h : SrcInv s0 r) : SrcOK s0 G (brReadListBegin r) := by
  unfold brReadListBegin
  apply SrcOK.bind (srcOK_brNext s0 G r 5 h (by omega) (by decide)); intro p hp
  apply SrcOK.bindPure (idx_noerr _ _); intro et
  apply SrcOK.bindPure (sfrom_noerr _ _); intro b2
  apply SrcOK.bindPure (u32of_noerr _); intro v; exact hp

theorem toNat_le_bigReq (v : Int) (h : ¬ v < 0) (hv : v < 2147483648) : v.toNat ≤ bigReq := by
  unfold bigReq; omega

theorem brReadI32_range (r : Rd) (v : Int) (r' : Rd) (h : brReadI32 r = .ok (v, r')) : v < 2147483648 := by
  unfold brReadI32 at h
  cases hb : brNext 4 r with
  | ok p =>
    obtain ⟨b, r1⟩ := p
    rw [hb] at h
    simp only [Out.bind_eq, Out.bind_ok] at h
    cases hu : u32of b with
    | ok w =>
      rw [hu] at h; simp at h
      have hw : w < 4294967296 := by
        unfold u32of at hu; split at hu <;> simp at hu
        rw [← hu]; exact rd32_lt b
      rw [← h.1]; unfold toI32; split <;> omega
    | err e => rw [hu] at h; simp at h
    | panic s => rw [hu] at h; simp at h
    | oob => rw [hu] at h; simp at h
  | err e => rw [hb] at h; simp at h
  | panic s => rw [hb] at h; simp at h
  | oob => rw [hb] at h; simp at h

theorem srcOK_brReadBinary (r : Rd) (h : SrcInv s0 r) (hG : G errNeg) : SrcOK s0 G (brReadBinary r) := by
  unfold brReadBinary
  cases hb : brReadI32 r with
  | ok p =>
    have h1 := srcOK_brReadI32 s0 G r h
    rw [hb] at h1
    have hr := brReadI32_range r p.1 p.2 hb
    simp only [Out.bind_eq, Out.bind_ok]
    split
    · exact Or.inr hG
    · rename_i hneg
      exact srcOK_brReadFull s0 G p.2 _ h1 (toNat_le_bigReq _ hneg hr)
  | err e => have h1 := srcOK_brReadI32 s0 G r h; rw [hb] at h1; exact h1
  | panic s => trivial
  | oob => trivial

theorem srcOK_brReadMessageBegin (r : Rd) (h : SrcInv s0 r) (hG : G errNeg) (hV : G errBadVersion) :
    SrcOK s0 G (brReadMessageBegin r) := by
  unfold brReadMessageBegin
  apply SrcOK.bind (srcOK_brReadI32 s0 G r h); intro p hp
  dsimp only
  split
  · exact Or.inr hV
  · apply SrcOK.bind (srcOK_brReadBinary s0 G p.2 hp hG); intro q hq
    apply SrcOK.bind (srcOK_brReadI32 s0 G q.2 hq); intro w hw
    exact hw

theorem srcOK_mapRM {α} (f : α → Val) (x : TOut (α × Rd)) (h : SrcOK s0 G x) : SrcOK s0 G (mapRM f x) := by
  cases x <;> first | exact h | trivial

/-- every failure of a stream read over a reader on a source with script `s0`: the SOURCE's own error
    (its first scripted error, io.EOF once the script is exhausted, or io.ErrNoProgress after
    `maxConsecutiveEmptyReads` quiet reads) wrapped, or a negative size / bad version -/
theorem brRead_err_source (k : Kind) (r : Rd) (h : SrcInv s0 r) (e : TErr) (hx : brRead k r = .err e) :
    (∃ se, e = .wrap se ∧ SrcErrOf s0 se) ∨ e = errNeg ∨ e = errBadVersion := by
  have key : SrcOK s0 (fun e => e = errNeg ∨ e = errBadVersion) (brRead k r) := by
    cases k <;> simp only [brRead] <;> apply srcOK_mapRM
    · exact srcOK_brReadBool _ _ r h
    · exact srcOK_brReadByte _ _ r h
    · exact srcOK_brReadI16 _ _ r h
    · exact srcOK_brReadI32 _ _ r h
    · exact srcOK_brReadI64 _ _ r h
    · exact srcOK_brReadDouble _ _ r h
    · exact srcOK_brReadBinary _ _ r h (Or.inl rfl)
    · exact srcOK_brReadBinary _ _ r h (Or.inl rfl)
    · exact srcOK_brReadFieldBegin _ _ r h
    · exact srcOK_brReadMapBegin _ _ r h
    · exact srcOK_brReadListBegin _ _ r h
    · exact srcOK_brReadListBegin _ _ r h
    · exact srcOK_brReadMessageBegin _ _ r h (Or.inl rfl) (Or.inr rfl)
  rw [hx] at key
  exact key


end Verif.Wire

/-
  Lemmas/SkipBRCause: BufferReader.Skip (model `skipBRAt`) over an EXACT reader (contract `RdC P True bnd`
  of Lemmas/SkipBR.lean: every request returns exactly the next bytes of `remaining`, and fails — with
  a non-nil error — only when fewer bytes are left) is refined error-exactly by the stream classifier
  `causeStream` (Spec/Cause.lean):
      extent k            ⇒  success, exactly k bytes consumed, ReadLen + k
      cause  truncated    ⇒  the reader's error, wrapped (`.wrap se`)
      cause  c otherwise  ⇒  the protocol exception with Thrift's type id for c, without cause.
  Instances: bytes-backed readers (`rdc_dry`) and C04's reader over a live source (`rdc_inst True`).
-/
import Verif.Lemmas.SkipBR
import Verif.Lemmas.SkipBinCause
namespace Verif

/-- the error BufferReader.Skip must return for a classified cause -/
def ErrFor (c : Cause) (e : TErr) : Prop :=
  if c = .truncated then ∃ se, e = .wrap se else e = .pe (typeIdOf c)

theorem ErrFor.trunc (se : RErr) : ErrFor .truncated (.wrap se) := by
  unfold ErrFor; simp
theorem ErrFor.neg : ErrFor .negativeSize errNeg := by
  unfold ErrFor; simp [errNeg_pe]
theorem ErrFor.depth : ErrFor .depth errDepth := by
  unfold ErrFor; simp [errDepth_pe]
theorem ErrFor.unknownType : ErrFor .unknownType errUnknownType := by
  unfold ErrFor; simp [errUnknownType_pe]

/-- how a reader computation `x` started in state `r` relates to the classification `o` of the bytes
    `r.remaining` -/
def CRMm {α : Type} (P : Rd → Prop) (x : TOut (α × Rd)) (o : CRes) (r : Rd) : Prop :=
  match o with
  | .ok k => ∃ a r', x = .ok (a, r') ∧ r'.remaining = r.remaining.drop k ∧ r'.ri = r.ri + k ∧ P r'
  | .error c => ∃ e, x = .err e ∧ ErrFor c e

/-- a computation that starts after `k1` bytes have been consumed -/
theorem CRMm.shift {α : Type} {P : Rd → Prop} {x : TOut (α × Rd)} {o : CRes} {r r1 : Rd} {k1 : Nat}
    (hrem : r1.remaining = r.remaining.drop k1) (hri : r1.ri = r.ri + k1) (h : CRMm P x o r1) :
    CRMm P x (o.map (k1 + ·)) r := by
  cases o with
  | error c => exact h
  | ok k =>
    obtain ⟨a, r', hx, h1, h2, h3⟩ := h
    refine ⟨a, r', hx, ?_, ?_, h3⟩
    · rw [h1, hrem, List.drop_drop]
    · show r'.ri = r.ri + (k1 + k); omega

theorem causeN_succ_ok {g : Bytes → CRes} {b : Bytes} {k : Nat} (n : Nat) (h : g b = .ok k) :
    causeN g (n + 1) b = (causeN g n (b.drop k)).map (k + ·) := by
  simp only [causeN, h]; cases causeN g n (b.drop k) <;> rfl

theorem causeN_succ_err {g : Bytes → CRes} {b : Bytes} {c : Cause} (n : Nat) (h : g b = .error c) :
    causeN g (n + 1) b = .error c := by
  simp only [causeN, h]

theorem causeKV_succ_ok {gk gv : Bytes → CRes} {b : Bytes} {k v : Nat} (n : Nat) (hk : gk b = .ok k)
    (hv : gv (b.drop k) = .ok v) :
    causeKV gk gv (n + 1) b = (causeKV gk gv n (b.drop (k + v))).map (k + v + ·) := by
  simp only [causeKV, hk, hv]; cases causeKV gk gv n (b.drop (k + v)) <;> rfl

theorem causeFields_nil (g : UInt8 → Bytes → CRes) (fuel : Nat) : causeFields g fuel [] = .error .truncated := by
  cases fuel <;> rfl

theorem causeFields_short (g : UInt8 → Bytes → CRes) (fuel : Nat) (t : UInt8) (rest : Bytes) (ht : t ≠ 0)
    (hl : rest.length < 2) : causeFields g fuel (t :: rest) = .error .truncated := by
  cases fuel with
  | zero => rfl
  | succ fuel => simp [causeFields, ht, hl]

theorem causeLayer_map_short (E : UInt8 → Bytes → CRes) (b : Bytes) (h : b.length < 6) :
    causeLayer E TT.MAP b = .error .truncated := by
  unfold causeLayer
  simp only [show ¬ fixedSize TT.MAP > 0 by decide, show TT.MAP ≠ TT.STRING by decide,
    show TT.MAP ≠ TT.STRUCT by decide, show ¬ (TT.MAP = TT.LIST ∨ TT.MAP = TT.SET) by decide, if_true, if_false]
  match b, h with
  | [], _ => rfl
  | [_], _ => rfl
  | kt :: vt :: rest, h =>
    have : rest.length < 4 := by simp at h; omega
    simp [this]

theorem causeLayer_list_short (E : UInt8 → Bytes → CRes) (t : UInt8) (htl : t = TT.LIST ∨ t = TT.SET)
    (b : Bytes) (h : b.length < 5) : causeLayer E t b = .error .truncated := by
  unfold causeLayer
  have hf0 : ¬ fixedSize t > 0 := by rcases htl with h | h <;> subst h <;> decide
  have hns : t ≠ TT.STRING := by rcases htl with h | h <;> subst h <;> decide
  have hnst : t ≠ TT.STRUCT := by rcases htl with h | h <;> subst h <;> decide
  simp only [hf0, hns, hnst, htl, if_true, if_false]
  match b, h with
  | [], _ => rfl
  | et :: rest, h =>
    have : rest.length < 4 := by simp at h; omega
    simp [this]

section
variable {P : Rd → Prop} {bnd : Nat}

theorem cbrNext (hC : RdC P True bnd) (r : Rd) (n : Int) (hp : P r) (h0 : 0 ≤ n) (hb : n.toNat ≤ bnd) :
    (∃ r', brNext n r = .ok (r.remaining.take n.toNat, r') ∧ n.toNat ≤ r.remaining.length ∧
       r'.remaining = r.remaining.drop n.toNat ∧ r'.ri = r.ri + n.toNat ∧ P r') ∨
    (∃ se, brNext n r = .err (.wrap se) ∧ r.remaining.length < n.toNat) := by
  rcases hC.next r n hp h0 hb with ⟨r', hx, h1, h2, h3, h4⟩ | ⟨e, r', hx, hl⟩
  · left; exact ⟨r', by simp [brNext, hx], h1, h2, h3, h4⟩
  · right; exact ⟨e, by simp [brNext, hx], hl trivial⟩

theorem cbrSkipn (hC : RdC P True bnd) (r : Rd) (n : Int) (hp : P r) (hb : n.toNat ≤ bnd) :
    CRMm P (brSkipn n r)
      (if n < 0 then .error .negativeSize
       else if n.toNat ≤ r.remaining.length then .ok n.toNat else .error .truncated) r := by
  by_cases hn : n < 0
  · simp only [hn, if_true]
    exact ⟨errNeg, by simp [brSkipn, hn], ErrFor.neg⟩
  · have h0 : 0 ≤ n := by omega
    simp only [hn, if_false]
    rcases hC.skip r n hp h0 hb with ⟨b, r', hx, h1, h2, h3, h4⟩ | ⟨e, r', hx, hl⟩
    · simp only [h1, if_true]
      exact ⟨(), r', by simp [brSkipn, hn, hx], h2, h3, h4⟩
    · have : ¬ n.toNat ≤ r.remaining.length := by have := hl trivial; omega
      simp only [this, if_false]
      exact ⟨.wrap e, by simp [brSkipn, hn, hx], ErrFor.trunc e⟩

/-- skipn of a non-negative size given as a natural number -/
theorem cbrSkipnNat (hC : RdC P True bnd) (r : Rd) (N : Nat) (hp : P r) (hb : N ≤ bnd) :
    CRMm P (brSkipn (N : Int) r)
      (if N ≤ r.remaining.length then .ok N else .error .truncated) r := by
  have := cbrSkipn hC r (N : Int) hp (by rw [Int.toNat_natCast]; exact hb)
  have hn : ¬ (N : Int) < 0 := by omega
  simpa [hn, Int.toNat_natCast] using this

theorem cbrReadI32 (hC : RdC P True bnd) (hbnd : reqBound ≤ bnd) (r : Rd) (hp : P r) :
    (∃ r', brReadI32 r = .ok (toI32 (rd32 r.remaining), r') ∧ 4 ≤ r.remaining.length ∧
       r'.remaining = r.remaining.drop 4 ∧ r'.ri = r.ri + 4 ∧ P r') ∨
    (∃ se, brReadI32 r = .err (.wrap se) ∧ r.remaining.length < 4) := by
  rcases cbrNext hC r 4 hp (by omega) (Nat.le_trans (by decide) hbnd) with ⟨r', hx, h1, h2, h3, h4⟩ | ⟨e, hx, hl⟩
  · left
    have h1' : 4 ≤ r.remaining.length := h1
    have hl4 : 4 ≤ (r.remaining.take 4).length := by simp; omega
    refine ⟨r', ?_, h1', h2, h3, h4⟩
    have hx' : brNext 4 r = .ok (r.remaining.take 4, r') := hx
    simp only [brReadI32, hx', Out.bind_eq, Out.bind_ok, u32of_ok _ hl4, rd32_take _ 4 (by omega) h1',
      Out.pure_eq]
  · right
    exact ⟨e, by simp [brReadI32, hx], hl⟩

theorem cbrSkipStr (hC : RdC P True bnd) (hbnd : reqBound ≤ bnd) (r : Rd) (hp : P r) :
    CRMm P (brSkipStr r) (causeStr r.remaining) r := by
  unfold causeStr
  rcases cbrReadI32 hC hbnd r hp with ⟨r1, hx, h4, hrem1, hri1, hp1⟩ | ⟨se, hx, hl⟩
  · have hl4 : ¬ r.remaining.length < 4 := by omega
    simp only [brSkipStr, hx, Out.bind_eq, Out.bind_ok, hl4, if_false]
    have hlt := rd32_lt r.remaining
    by_cases hn : rd32 r.remaining < 2147483648
    · simp only [hn, not_true_eq_false, if_false]
      rw [toI32_eq_cast _ hn]
      have hm := cbrSkipnNat hC r1 (rd32 r.remaining) hp1 (by unfold reqBound at hbnd; omega)
      have hs := CRMm.shift hrem1 hri1 hm
      rw [hrem1, List.length_drop] at hs
      by_cases hfit : 4 + rd32 r.remaining ≤ r.remaining.length
      · have : rd32 r.remaining ≤ r.remaining.length - 4 := by omega
        simpa [hfit, this] using hs
      · have : ¬ rd32 r.remaining ≤ r.remaining.length - 4 := by omega
        simpa [hfit, this] using hs
    · have hneg : toI32 (rd32 r.remaining) < 0 := by rw [toI32_neg_iff _ hlt]; exact hn
      simp only [hn, not_false_eq_true, if_true]
      exact ⟨errNeg, by simp [brSkipn, hneg], ErrFor.neg⟩
  · simp only [hl, if_true]
    exact ⟨.wrap se, by simp [brSkipStr, hx], ErrFor.trunc se⟩

theorem cbrFixed (hC : RdC P True bnd) (hbnd : reqBound ≤ bnd) (t : UInt8) (r : Rd) (hp : P r) :
    CRMm P (brSkipn ((fixedSize t : Nat) : Int) r)
      (if fixedSize t ≤ r.remaining.length then .ok (fixedSize t) else .error .truncated) r :=
  cbrSkipnNat hC r (fixedSize t) hp (by have := fixedSize_le t; unfold reqBound at hbnd; omega)

/-- key / value element of the MAP slow path -/
theorem cbrElem (hC : RdC P True bnd) (hbnd : reqBound ≤ bnd) {rec : UInt8 → RM Unit} {f : UInt8 → Bytes → CRes}
    (t : UInt8) (HR : ∀ r, P r → CRMm P (rec t r) (f t r.remaining) r) (r : Rd) (hp : P r) :
    CRMm P (brElem rec t ((fixedSize t : Nat) : Int) r) (causeElem f t r.remaining) r := by
  unfold brElem causeElem
  by_cases hf : 0 < fixedSize t
  · have h1 : ((fixedSize t : Nat) : Int) > 0 := by omega
    simp only [h1, hf, if_true]
    exact cbrFixed hC hbnd t r hp
  · have h0 : fixedSize t = 0 := by omega
    simp only [h0, Int.natCast_zero, gt_iff_lt, Int.lt_irrefl, Nat.lt_irrefl, if_false, T_STRING_eq]
    by_cases hs : t = TT.STRING
    · simp only [hs, if_true]; exact cbrSkipStr hC hbnd r hp
    · simp only [hs, if_false]; exact HR r hp

/-- element of the LIST/SET slow path (the element type is not fixed-size there) -/
theorem cbrListElem (hC : RdC P True bnd) (hbnd : reqBound ≤ bnd) {rec : UInt8 → RM Unit} {f : UInt8 → Bytes → CRes}
    (t : UInt8) (h0 : fixedSize t = 0)
    (HR : ∀ r, P r → CRMm P (rec t r) (f t r.remaining) r) (r : Rd) (hp : P r) :
    CRMm P (if t = T_STRING then brSkipStr r else rec t r) (causeElem f t r.remaining) r := by
  unfold causeElem
  simp only [h0, Nat.lt_irrefl, gt_iff_lt, if_false, T_STRING_eq]
  by_cases hs : t = TT.STRING
  · simp only [hs, if_true]; exact cbrSkipStr hC hbnd r hp
  · simp only [hs, if_false]; exact HR r hp

/-- field value of the STRUCT loop -/
theorem cbrField (hC : RdC P True bnd) (hbnd : reqBound ≤ bnd) {rec : UInt8 → RM Unit} {f : UInt8 → Bytes → CRes}
    (t : UInt8) (HR : ∀ r, P r → CRMm P (rec t r) (f t r.remaining) r) (r : Rd) (hp : P r) :
    CRMm P (if ((fixedSize t : Nat) : Int) > 0 then brSkipn ((fixedSize t : Nat) : Int) r else rec t r)
      (causeField f t r.remaining) r := by
  unfold causeField
  by_cases hf : 0 < fixedSize t
  · have h1 : ((fixedSize t : Nat) : Int) > 0 := by omega
    simp only [h1, hf, if_true]
    exact cbrFixed hC hbnd t r hp
  · have h0 : fixedSize t = 0 := by omega
    simp only [h0, Int.natCast_zero, gt_iff_lt, Int.lt_irrefl, Nat.lt_irrefl, if_false]
    exact HR r hp

theorem cbrListLoop {rec : UInt8 → RM Unit} {g : Bytes → CRes} (vt : UInt8)
    (HE : ∀ r, P r → CRMm P (if vt = T_STRING then brSkipStr r else rec vt r) (g r.remaining) r) :
    ∀ cnt r, P r → CRMm P (brListLoop rec vt cnt r) (causeN g cnt r.remaining) r := by
  intro cnt
  induction cnt with
  | zero => intro r hp; exact ⟨(), r, rfl, by simp, by simp, hp⟩
  | succ cnt ih =>
    intro r hp
    simp only [brListLoop]
    have he := HE r hp
    cases hg : g r.remaining with
    | error c =>
      rw [hg] at he
      obtain ⟨e, hx, hc⟩ := he
      rw [causeN_succ_err cnt hg]
      exact ⟨e, by simp [hx], hc⟩
    | ok k =>
      rw [hg] at he
      obtain ⟨a, r1, hx, hrem, hri, hp1⟩ := he
      rw [causeN_succ_ok cnt hg]
      simp only [hx, Out.bind_eq, Out.bind_ok]
      have := ih r1 hp1
      rw [hrem] at this
      exact CRMm.shift hrem hri this

theorem cbrMapLoop {rec : UInt8 → RM Unit} {gk gv : Bytes → CRes} (kt vt : UInt8) (ksz vsz : Int)
    (HK : ∀ r, P r → CRMm P (brElem rec kt ksz r) (gk r.remaining) r)
    (HV : ∀ r, P r → CRMm P (brElem rec vt vsz r) (gv r.remaining) r) :
    ∀ cnt r, P r → CRMm P (brMapLoop rec kt vt ksz vsz cnt r) (causeKV gk gv cnt r.remaining) r := by
  intro cnt
  induction cnt with
  | zero => intro r hp; exact ⟨(), r, rfl, by simp, by simp, hp⟩
  | succ cnt ih =>
    intro r hp
    simp only [brMapLoop]
    have hk := HK r hp
    cases hgk : gk r.remaining with
    | error c =>
      rw [hgk] at hk
      obtain ⟨e, hx, hc⟩ := hk
      simp only [causeKV, hgk]
      exact ⟨e, by simp [hx], hc⟩
    | ok k =>
      rw [hgk] at hk
      obtain ⟨a, r1, hx, hrem, hri, hp1⟩ := hk
      simp only [hx, Out.bind_eq, Out.bind_ok]
      have hv := HV r1 hp1
      rw [hrem] at hv
      cases hgv : gv (r.remaining.drop k) with
      | error c =>
        rw [hgv] at hv
        obtain ⟨e, hy, hc⟩ := hv
        simp only [causeKV, hgk, hgv]
        exact ⟨e, by simp [hy], hc⟩
      | ok v =>
        rw [hgv] at hv
        obtain ⟨a1, r2, hy, hrem2, hri2, hp2⟩ := hv
        rw [causeKV_succ_ok cnt hgk hgv]
        simp only [hy, Out.bind_ok]
        have hrem2' : r2.remaining = r.remaining.drop (k + v) := by rw [hrem2, hrem, List.drop_drop]
        have hri2' : r2.ri = r.ri + (k + v) := by omega
        have := ih r2 hp2
        rw [hrem2'] at this
        exact CRMm.shift hrem2' hri2' this

/-- BufferReader.ReadFieldBegin: the reader's error (the struct is cut), STOP, or a field header -/
theorem cbrFieldBegin (hC : RdC P True bnd) (hbnd : reqBound ≤ bnd) (r : Rd) (hp : P r) :
    (∃ se, brFieldBegin r = .err (.wrap se) ∧ ∀ g fuel, causeFields g fuel r.remaining = .error .truncated) ∨
    (∃ r1 rest, r.remaining = 0 :: rest ∧ brFieldBegin r = .ok (0, r1) ∧ r1.remaining = rest ∧
      r1.ri = r.ri + 1 ∧ P r1) ∨
    (∃ t rest r2, r.remaining = t :: rest ∧ t ≠ 0 ∧ 2 ≤ rest.length ∧ brFieldBegin r = .ok (t, r2) ∧
      r2.remaining = rest.drop 2 ∧ r2.ri = r.ri + 3 ∧ P r2) := by
  rcases cbrNext hC r 1 hp (by omega) (Nat.le_trans (by decide) hbnd) with ⟨r1, hx, h1, hrem1, hri1, hp1⟩ | ⟨e, hx, hl⟩
  · have h1' : 1 ≤ r.remaining.length := h1
    cases hrem : r.remaining with
    | nil => rw [hrem] at h1'; simp at h1'
    | cons t rest =>
      have hx' : brNext 1 r = .ok ([t], r1) := by rw [hx, hrem]; rfl
      have hrem1' : r1.remaining = rest := by rw [hrem1, hrem]; rfl
      have hri1' : r1.ri = r.ri + 1 := hri1
      have hi : idx [t] 0 = .ok t := by simp [idx]
      by_cases ht : t = 0
      · right; left
        subst ht
        exact ⟨r1, rest, rfl, by simp [brFieldBegin, hx', hi, T_STOP_eq], hrem1', hri1', hp1⟩
      · rcases cbrNext hC r1 2 hp1 (by omega) (Nat.le_trans (by decide) hbnd) with ⟨r2, hy, h2, hrem2, hri2, hp2⟩ | ⟨e, hy, hl⟩
        · right; right
          have h2' : 2 ≤ rest.length := by rw [← hrem1']; exact h2
          have hy' : brNext 2 r1 = .ok (rest.take 2, r2) := by rw [hy, hrem1']; rfl
          have hi2 : ∃ x, idx (rest.take 2) 1 = .ok x := ⟨_, idx_ok _ 1 (by simp; omega)⟩
          obtain ⟨x, hi2⟩ := hi2
          refine ⟨t, rest, r2, rfl, ht, h2', ?_, by rw [hrem2, hrem1']; rfl, ?_, hp2⟩
          · simp [brFieldBegin, hx', hi, T_STOP_eq, ht, hy', hi2]
          · have : r2.ri = r1.ri + 2 := hri2
            omega
        · left
          refine ⟨e, by simp [brFieldBegin, hx', hi, T_STOP_eq, ht, hy], fun g fuel => ?_⟩
          rw [hrem1'] at hl
          exact causeFields_short g fuel t rest ht hl
  · left
    refine ⟨e, by simp [brFieldBegin, hx], fun g fuel => ?_⟩
    have h0 : r.remaining = [] := by
      apply List.eq_nil_of_length_eq_zero
      have : r.remaining.length < 1 := hl
      omega
    rw [h0]
    exact causeFields_nil g fuel

theorem cbrStructLoop (hC : RdC P True bnd) (hbnd : reqBound ≤ bnd) {rec : UInt8 → RM Unit} {g : UInt8 → Bytes → CRes}
    (HF : ∀ ft r, P r → CRMm P
      (if ((fixedSize ft : Nat) : Int) > 0 then brSkipn ((fixedSize ft : Nat) : Int) r else rec ft r)
      (g ft r.remaining) r) :
    ∀ fuel r, P r → r.remaining.length < fuel →
      CRMm P (brStructLoop rec fuel r) (causeFields g fuel r.remaining) r := by
  intro fuel
  induction fuel with
  | zero => intro r _ h; omega
  | succ fuel ih =>
    intro r hp hfuel
    simp only [brStructLoop]
    rcases cbrFieldBegin hC hbnd r hp with ⟨se, hx, htr⟩ | ⟨r1, rest, hrem, hx, hrem1, hri1, hp1⟩ |
      ⟨t, rest, r2, hrem, ht, h2, hx, hrem2, hri2, hp2⟩
    · rw [htr]
      exact ⟨.wrap se, by simp [hx], ErrFor.trunc se⟩
    · rw [hrem]
      simp only [causeFields, if_true]
      exact ⟨(), r1, by simp [hx, T_STOP_eq], by simp [hrem1, hrem], hri1, hp1⟩
    · have hl2 : ¬ rest.length < 2 := by omega
      simp only [hx, Out.bind_eq, Out.bind_ok, T_STOP_eq, ht, if_false, typeSize_eq]
      have hf := HF t r2 hp2
      rw [hrem2] at hf
      rw [hrem]
      cases hg : g t (rest.drop 2) with
      | error c =>
        rw [hg] at hf
        obtain ⟨e, hy, hc⟩ := hf
        simp only [causeFields, ht, if_false, hl2, hg]
        exact ⟨e, by simp only [hy, Out.bind_err], hc⟩
      | ok k =>
        rw [hg] at hf
        obtain ⟨a, r3, hy, hrem3, hri3, hp3⟩ := hf
        simp only [hy, Out.bind_ok]
        have hrem3' : r3.remaining = r.remaining.drop (3 + k) := by
          rw [hrem3, hrem2, hrem, List.drop_drop]
          have : 3 + k = (2 + k) + 1 := by omega
          rw [this, List.drop_succ_cons]
        have hri3' : r3.ri = r.ri + (3 + k) := by omega
        have hlen : r3.remaining.length < fuel := by
          rw [hrem3, hrem2]; rw [hrem] at hfuel; simp at hfuel ⊢; omega
        have hih := ih r3 hp3 hlen
        have hsh := CRMm.shift hrem3' hri3' hih
        have hr3 : r3.remaining = rest.drop (2 + k) := by rw [hrem3, hrem2, List.drop_drop]
        rw [hr3] at hsh
        have hcf : causeFields g (fuel + 1) (t :: rest) =
            (causeFields g fuel (rest.drop (2 + k))).map (3 + k + ·) := by
          simp only [causeFields, ht, if_false, hl2, hg]
          cases causeFields g fuel (rest.drop (2 + k)) <;> rfl
        rw [hcf]
        exact hsh

theorem cbr_map_case (hC : RdC P True bnd) (hbnd : reqBound ≤ bnd) (d : Nat)
    (ih : ∀ t r, P r → CRMm P (skipBRAt d t r) (causeStream d t r.remaining) r) (r : Rd) (hp : P r) :
    CRMm P (do
        let (b, r1) ← brNext 6 r
        let kt ← idx b 0
        let vt ← idx b 1
        let szu ← u32of (b.drop 2)
        if toI32 szu < 0 then .err errNeg else do
        let ksz ← (.ok ((fixedSize kt : Nat) : Int) : TOut Int)
        let vsz ← (.ok ((fixedSize vt : Nat) : Int) : TOut Int)
        if ksz > 0 ∧ vsz > 0 then brSkipn ((szu : Int) * (ksz + vsz)) r1
        else brMapLoop (skipBRAt d) kt vt ksz vsz szu r1)
      (causeLayer (causeElem (causeStream d)) TT.MAP r.remaining) r := by
  rcases cbrNext hC r 6 hp (by omega) (Nat.le_trans (by decide) hbnd) with ⟨r1, hx, h6, hrem1, hri1, hp1⟩ | ⟨se, hx, hl⟩
  · unfold causeLayer
    simp only [Out.bind_eq, Out.bind_ok, show ¬ fixedSize TT.MAP > 0 by decide, show TT.MAP ≠ TT.STRING by decide,
      show TT.MAP ≠ TT.STRUCT by decide, show ¬ (TT.MAP = TT.LIST ∨ TT.MAP = TT.SET) by decide, if_true, if_false]
    have h6' : 6 ≤ r.remaining.length := h6
    obtain ⟨kt, vt, x0, x1, x2, x3, tl0, hr0⟩ := exists_cons6 r.remaining h6'
    obtain ⟨rest, hr, hrest⟩ : ∃ rest, r.remaining = kt :: vt :: rest ∧ 4 ≤ rest.length :=
      ⟨x0 :: x1 :: x2 :: x3 :: tl0, hr0, by simp⟩
    clear hr0
    have hx' : brNext 6 r = .ok (List.take 6 (kt :: vt :: rest), r1) := by rw [hx, hr]; rfl
    have hrem6 : r1.remaining = r.remaining.drop 6 := hrem1
    have hrem1' : r1.remaining = List.drop 4 rest := by rw [hrem1, hr]; rfl
    have hri1' : r1.ri = r.ri + 6 := hri1
    have hrest' : ¬ rest.length < 4 := by omega
    simp only [hr, hx', Out.bind_ok, hrest', if_false]
    have e0 : idx (List.take 6 (kt :: vt :: rest)) 0 = .ok kt := by simp [idx]
    have e1 : idx (List.take 6 (kt :: vt :: rest)) 1 = .ok vt := by simp [idx]
    have e2 : u32of (List.drop 2 (List.take 6 (kt :: vt :: rest))) = .ok (rd32 rest) := by
      have : List.drop 2 (List.take 6 (kt :: vt :: rest)) = List.take 4 rest := by simp
      rw [this, u32of_ok _ (by simp; omega), rd32_take rest 4 (by omega) hrest]
    simp only [e0, e1, e2, Out.bind_ok]
    have hlt := rd32_lt rest
    generalize rd32 rest = N at hlt ⊢
    by_cases hn : N < 2147483648
    · have hnn : ¬ toI32 N < 0 := by rw [toI32_neg_iff _ hlt]; simpa using hn
      simp only [hnn, hn, not_true_eq_false, if_false]
      by_cases hfast : ((fixedSize kt : Nat) : Int) > 0 ∧ ((fixedSize vt : Nat) : Int) > 0
      · have hk : 0 < fixedSize kt := by omega
        have hv : 0 < fixedSize vt := by omega
        simp only [hfast, and_self, if_true]
        rw [causeKV_fixed (fixedSize kt) (fixedSize vt) hk hv _ _
          (causeElem_fixed _ kt hk) (causeElem_fixed _ vt hv)]
        have hcast : (N : Int) * (((fixedSize kt : Nat) : Int) + ((fixedSize vt : Nat) : Int)) =
            ((N * (fixedSize kt + fixedSize vt) : Nat) : Int) := by
          rw [Int.natCast_mul, Int.natCast_add]
        rw [hcast]
        have hb : N * (fixedSize kt + fixedSize vt) ≤ reqBound :=
          mul_le_reqBound N _ hn (by have := fixedSize_le kt; have := fixedSize_le vt; omega)
        have hm := cbrSkipnNat hC r1 (N * (fixedSize kt + fixedSize vt)) hp1 (Nat.le_trans hb hbnd)
        have hs := CRMm.shift hrem6 hri1' hm
        rw [hrem1'] at hs
        by_cases hfit : N * (fixedSize kt + fixedSize vt) ≤ (List.drop 4 rest).length
        · simpa [hfit] using hs
        · simpa [hfit] using hs
      · simp only [hfast, if_false]
        have hm := cbrMapLoop (P := P) kt vt ((fixedSize kt : Nat) : Int) ((fixedSize vt : Nat) : Int)
          (fun r hp => cbrElem hC hbnd kt (ih kt) r hp) (fun r hp => cbrElem hC hbnd vt (ih vt) r hp) N r1 hp1
        have hs := CRMm.shift hrem6 hri1' hm
        rw [hrem1'] at hs
        exact hs
    · have hnn : toI32 N < 0 := by rw [toI32_neg_iff _ hlt]; exact hn
      simp only [hnn, hn, not_false_eq_true, if_true]
      exact ⟨errNeg, rfl, ErrFor.neg⟩
  · rw [causeLayer_map_short _ _ hl]
    exact ⟨.wrap se, by simp [hx], ErrFor.trunc se⟩

theorem cbr_list_case (hC : RdC P True bnd) (hbnd : reqBound ≤ bnd) (d : Nat) (t : UInt8)
    (htl : t = TT.LIST ∨ t = TT.SET)
    (ih : ∀ t r, P r → CRMm P (skipBRAt d t r) (causeStream d t r.remaining) r) (r : Rd) (hp : P r) :
    CRMm P (do
        let (b, r1) ← brNext 5 r
        let vt ← idx b 0
        let szu ← u32of (b.drop 1)
        if toI32 szu < 0 then .err errNeg else do
        let vsz ← (.ok ((fixedSize vt : Nat) : Int) : TOut Int)
        if vsz > 0 then brSkipn ((szu : Int) * vsz) r1
        else brListLoop (skipBRAt d) vt szu r1)
      (causeLayer (causeElem (causeStream d)) t r.remaining) r := by
  have hf0 : ¬ fixedSize t > 0 := by rcases htl with h | h <;> subst h <;> decide
  have hns : t ≠ TT.STRING := by rcases htl with h | h <;> subst h <;> decide
  have hnst : t ≠ TT.STRUCT := by rcases htl with h | h <;> subst h <;> decide
  rcases cbrNext hC r 5 hp (by omega) (Nat.le_trans (by decide) hbnd) with ⟨r1, hx, h5, hrem1, hri1, hp1⟩ | ⟨se, hx, hl⟩
  · unfold causeLayer
    simp only [Out.bind_eq, Out.bind_ok, hf0, hns, hnst, htl, if_true, if_false]
    have h5' : 5 ≤ r.remaining.length := h5
    obtain ⟨et, x0, x1, x2, x3, tl0, hr0⟩ := exists_cons5 r.remaining h5'
    obtain ⟨rest, hr, hrest⟩ : ∃ rest, r.remaining = et :: rest ∧ 4 ≤ rest.length :=
      ⟨x0 :: x1 :: x2 :: x3 :: tl0, hr0, by simp⟩
    clear hr0
    have hx' : brNext 5 r = .ok (List.take 5 (et :: rest), r1) := by rw [hx, hr]; rfl
    have hrem5 : r1.remaining = r.remaining.drop 5 := hrem1
    have hrem1' : r1.remaining = List.drop 4 rest := by rw [hrem1, hr]; rfl
    have hri1' : r1.ri = r.ri + 5 := hri1
    have hrest' : ¬ rest.length < 4 := by omega
    simp only [hr, hx', Out.bind_ok, hrest', if_false]
    have e0 : idx (List.take 5 (et :: rest)) 0 = .ok et := by simp [idx]
    have e2 : u32of (List.drop 1 (List.take 5 (et :: rest))) = .ok (rd32 rest) := by
      have : List.drop 1 (List.take 5 (et :: rest)) = List.take 4 rest := by simp
      rw [this, u32of_ok _ (by simp; omega), rd32_take rest 4 (by omega) hrest]
    simp only [e0, e2, Out.bind_ok]
    have hlt := rd32_lt rest
    generalize rd32 rest = N at hlt ⊢
    by_cases hn : N < 2147483648
    · have hnn : ¬ toI32 N < 0 := by rw [toI32_neg_iff _ hlt]; simpa using hn
      simp only [hnn, hn, not_true_eq_false, if_false]
      by_cases hfast : ((fixedSize et : Nat) : Int) > 0
      · have hv : 0 < fixedSize et := by omega
        simp only [hfast, if_true]
        rw [causeN_fixed (fixedSize et) hv _ (causeElem_fixed _ et hv)]
        have hcast : (N : Int) * ((fixedSize et : Nat) : Int) = ((N * fixedSize et : Nat) : Int) := by
          rw [Int.natCast_mul]
        rw [hcast]
        have hb : N * fixedSize et ≤ reqBound :=
          mul_le_reqBound N _ hn (by have := fixedSize_le et; omega)
        have hm := cbrSkipnNat hC r1 (N * fixedSize et) hp1 (Nat.le_trans hb hbnd)
        have hs := CRMm.shift hrem5 hri1' hm
        rw [hrem1'] at hs
        by_cases hfit : N * fixedSize et ≤ (List.drop 4 rest).length
        · simpa [hfit] using hs
        · simpa [hfit] using hs
      · simp only [hfast, if_false]
        have h0 : fixedSize et = 0 := by omega
        have hm := cbrListLoop (P := P) et
          (fun r hp => cbrListElem hC hbnd et h0 (ih et) r hp) N r1 hp1
        have hs := CRMm.shift hrem5 hri1' hm
        rw [hrem1'] at hs
        exact hs
    · have hnn : toI32 N < 0 := by rw [toI32_neg_iff _ hlt]; exact hn
      simp only [hnn, hn, not_false_eq_true, if_true]
      exact ⟨errNeg, rfl, ErrFor.neg⟩
  · rw [causeLayer_list_short _ t htl _ hl]
    exact ⟨.wrap se, by simp [hx], ErrFor.trunc se⟩

/-- BufferReader.skipType over an exact reader: error-exact agreement with `causeStream` -/
theorem skipBRAt_cause (hC : RdC P True bnd) (hbnd : reqBound ≤ bnd) :
    ∀ d t r, P r → CRMm P (skipBRAt d t r) (causeStream d t r.remaining) r := by
  intro d
  induction d with
  | zero => intro t r _; exact ⟨errDepth, rfl, ErrFor.depth⟩
  | succ d ih =>
    intro t r hp
    simp only [skipBRAt, causeStream, typeSize_eq, Out.bind_eq, Out.bind_ok]
    by_cases hf : 0 < fixedSize t
    · have h1 : ((fixedSize t : Nat) : Int) > 0 := by omega
      have hnst : t ≠ TT.STRUCT := by intro h; subst h; revert hf; decide
      simp only [h1, hnst, if_true, if_false, causeLayer, hf]
      exact cbrFixed hC hbnd t r hp
    · have h0 : fixedSize t = 0 := by omega
      simp only [h0, Int.natCast_zero, gt_iff_lt, Int.lt_irrefl, if_false,
        T_STRING_eq, T_MAP_eq, T_LIST_eq, T_SET_eq, T_STRUCT_eq]
      by_cases hstr : t = TT.STRING
      · subst hstr
        simp only [show TT.STRING ≠ TT.STRUCT by decide, if_true, if_false, causeLayer,
          show ¬ fixedSize TT.STRING > 0 by decide]
        exact cbrSkipStr hC hbnd r hp
      · simp only [hstr, if_false]
        by_cases hm : t = TT.MAP
        · subst hm
          simp only [show ¬ (TT.MAP = TT.LIST ∨ TT.MAP = TT.SET) by decide,
            show TT.MAP ≠ TT.STRUCT by decide, if_true, if_false]
          have := cbr_map_case hC hbnd d ih r hp
          simpa using this
        · simp only [hm, if_false]
          by_cases hl : t = TT.LIST ∨ t = TT.SET
          · have hns : t ≠ TT.STRUCT := by rcases hl with h | h <;> subst h <;> decide
            simp only [hl, hns, if_true, if_false]
            have := cbr_list_case hC hbnd d t hl ih r hp
            simpa using this
          · simp only [hl, if_false]
            by_cases hst : t = TT.STRUCT
            · simp only [hst, if_true]
              rw [Rd.avail_eq]
              exact cbrStructLoop hC hbnd (fun ft r hp => cbrField hC hbnd ft (ih ft) r hp) _ r hp (by omega)
            · simp only [hst, if_false, causeLayer, h0, Nat.lt_irrefl, gt_iff_lt, hstr, hl, hm]
              exact ⟨errUnknownType, rfl, ErrFor.unknownType⟩

end
end Verif

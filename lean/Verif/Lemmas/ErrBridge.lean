/-
  Lemmas/ErrBridge: `NewProtocolExceptionWithErr` keeps its argument reachable — for EVERY error object,
  protocol exception or not — and the type id it ends up with.
-/
import Verif.Model.ErrBridge
import Verif.Lemmas.Except
namespace Verif

theorem wrapErr_is_cause (fresh : Nat) (c : Err) : errorsIs (wrapErr fresh c) c = true := by
  cases c <;> simp [wrapErr, errorsIs, errorsIs_refl]

/-- everything the cause matches is still matched through the result -/
theorem wrapErr_is_trans (fresh : Nat) (c tg : Err) (h : errorsIs c tg = true) :
    errorsIs (wrapErr fresh c) tg = true := by
  cases c with
  | protocol id t m => exact h
  | protocolW id t m c' => exact h
  | plain id msg => simp only [errorsIs] at h; simp only [wrapErr, errorsIs, h, Bool.or_true]
  | wrapped id msg inner => simp only [errorsIs] at h; simp only [wrapErr, errorsIs, h, Bool.or_true]
  | transport id t m => simp only [errorsIs] at h; simp only [wrapErr, errorsIs, h, Bool.or_true]
  | application id t m => simp only [errorsIs] at h; simp only [wrapErr, errorsIs, h, Bool.or_true]
  | foreign id t tx => simp only [errorsIs] at h; simp only [wrapErr, errorsIs, h, Bool.or_true]

theorem wrapErr_typeId (fresh : Nat) (c : Err) : (wrapErr fresh c).typeId = wrapTypeId c := by
  cases c <;> rfl

theorem wrapErr_unwrap (fresh : Nat) (c : Err) (h : c.isProtocol = false) :
    (wrapErr fresh c).unwrap = some c := by
  cases c <;> simp [Err.isProtocol] at h <;> rfl

theorem wrapErr_protocol (fresh : Nat) (c : Err) (h : c.isProtocol = true) : wrapErr fresh c = c := by
  cases c <;> simp [Err.isProtocol] at h <;> rfl

/-- the bridge on a wrapped reader error: `errors.Is` finds the reader's error object, whatever it is;
    the type id is UNKNOWN_PROTOCOL_EXCEPTION, or the cause's own when that already is a protocol exception -/
theorem toErr_wrap (ρ : RErr → Err) (fresh : Nat) (m : Bytes) (se : RErr) :
    errorsIs ((TErr.wrap se).toErr ρ fresh m) (ρ se) = true ∧
    ((TErr.wrap se).toErr ρ fresh m).typeId = wrapTypeId (ρ se) ∧
    (∀ tg, errorsIs (ρ se) tg = true → errorsIs ((TErr.wrap se).toErr ρ fresh m) tg = true) ∧
    ((ρ se).isProtocol = false → ((TErr.wrap se).toErr ρ fresh m).unwrap = some (ρ se)) ∧
    ((ρ se).isProtocol = true → (TErr.wrap se).toErr ρ fresh m = ρ se) :=
  ⟨wrapErr_is_cause _ _, wrapErr_typeId _ _, fun tg h => wrapErr_is_trans _ _ tg h,
   wrapErr_unwrap _ _, wrapErr_protocol _ _⟩

/-- a cause-less exception: its own type id, nothing to unwrap -/
theorem toErr_pe (ρ : RErr → Err) (fresh : Nat) (m : Bytes) (t : Int) :
    ((TErr.pe t).toErr ρ fresh m).typeId = some t ∧ ((TErr.pe t).toErr ρ fresh m).unwrap = none :=
  ⟨rfl, rfl⟩

end Verif

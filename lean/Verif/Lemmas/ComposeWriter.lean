/-
  Lemmas/ComposeWriter: codecs that write through a bufiox.Writer, run over the REAL writer model `Wr`
  (Model/Writer) by way of C05.

  A codec talks to its writer in CHUNKS:
      reg n pieces   buf := Malloc(n); then the stores  copy(buf[off:], bs)  for (off, bs) in `pieces`, in order
      wb bs          WriteBinary(bs)
  The abstract writers of C01 (`Wire.WLog`) and C06 (`TTH.W`) execute such chunks on a value-level log;
  C05's history language `WOp` executes them on the object-level model of DefaultWriter / BytesWriter
  (`chunksOps`: Malloc returns the region id the following `fill`s name).  This file evaluates chunk
  lists on C05's SPEC log (append-only log + store of latest region contents) and then transports the
  result to the model through `C05.refines` / `C05.flush_bytes` / `C05.bytesWriter_target`:

      cmp_spec_chunks   on the spec log: every Malloc returns the next region id, every store fits, the
                        unflushed bytes grow by exactly the chunks' bytes, all of them specified
      cmp_real_default  DefaultWriter (any sink script, any sound allocator, any number of growths):
                        the observations are the expected ones and Flush hands the sink the chunks' bytes
                        in ONE call
      cmp_real_bytes    BytesWriter over any initial slice: Flush succeeds, target = initial ++ bytes
-/
import Verif.Props.C05
namespace Verif.Compose
open Verif Verif.WLog Verif.C05

/-! ## chunks -/

inductive Chunk where
  | reg (n : Nat) (pieces : List (Nat × Bytes))
  | wb (bs : Bytes)
deriving Repr, DecidableEq

/-- the pieces lie one behind the other from `off` to `n` (every byte of the region is stored, in order) -/
def Covers : Nat → Nat → List (Nat × Bytes) → Prop
  | off, n, [] => off = n
  | off, n, p :: ps => p.1 = off ∧ Covers (off + p.2.length) n ps

instance : ∀ off n ps, Decidable (Covers off n ps)
  | off, n, [] => inferInstanceAs (Decidable (off = n))
  | off, n, p :: ps => by
    have := instDecidableCovers (off + p.2.length) n ps
    unfold Covers; infer_instance

def Chunk.Full : Chunk → Prop
  | .reg n ps => Covers 0 n ps
  | .wb _ => True

/-- the bytes a (full) chunk contributes to the stream -/
def Chunk.bytes : Chunk → Bytes
  | .reg _ ps => (ps.map (·.2)).flatten
  | .wb bs => bs

def Chunk.regs : Chunk → Nat
  | .reg _ _ => 1
  | .wb _ => 0

def chunksBytes (cs : List Chunk) : Bytes := (cs.map Chunk.bytes).flatten
def chunksRegs (cs : List Chunk) : Nat := (cs.map Chunk.regs).sum

/-- one chunk as a history of the real writer; `rid` = the region id Malloc is going to return -/
def chunkOps (rid : Nat) : Chunk → List WOp
  | .reg n ps => .malloc (n : Int) :: ps.map (fun p => .fill rid p.1 p.2)
  | .wb bs => [.wb bs]

/-- what the caller must observe: Malloc returned region `rid` of n bytes, WriteBinary took everything -/
def chunkObs (rid : Nat) : Chunk → List WObs
  | .reg n ps => .region rid n :: ps.map (fun _ => .done)
  | .wb bs => [.wrote bs.length]

def chunksOps (rid : Nat) : List Chunk → List WOp
  | [] => []
  | c :: cs => chunkOps rid c ++ chunksOps (rid + c.regs) cs

def chunksObs (rid : Nat) : List Chunk → List WObs
  | [] => []
  | c :: cs => chunkObs rid c ++ chunksObs (rid + c.regs) cs

theorem chunksOps_append (rid : Nat) (xs ys : List Chunk) :
    chunksOps rid (xs ++ ys) = chunksOps rid xs ++ chunksOps (rid + chunksRegs xs) ys := by
  induction xs generalizing rid with
  | nil => simp [chunksOps, chunksRegs]
  | cons c xs ih =>
    simp only [List.cons_append, chunksOps, ih, List.append_assoc, chunksRegs, List.map_cons, List.sum_cons]
    rw [Nat.add_assoc]

theorem chunksObs_append (rid : Nat) (xs ys : List Chunk) :
    chunksObs rid (xs ++ ys) = chunksObs rid xs ++ chunksObs (rid + chunksRegs xs) ys := by
  induction xs generalizing rid with
  | nil => simp [chunksObs, chunksRegs]
  | cons c xs ih =>
    simp only [List.cons_append, chunksObs, ih, List.append_assoc, chunksRegs, List.map_cons, List.sum_cons]
    rw [Nat.add_assoc]

theorem chunksBytes_append (xs ys : List Chunk) : chunksBytes (xs ++ ys) = chunksBytes xs ++ chunksBytes ys := by
  simp [chunksBytes]

theorem chunksRegs_append (xs ys : List Chunk) : chunksRegs (xs ++ ys) = chunksRegs xs + chunksRegs ys := by
  simp [chunksRegs]

theorem chunksOps_noflush (rid : Nat) (cs : List Chunk) : ∀ op ∈ chunksOps rid cs, op ≠ .flush := by
  induction cs generalizing rid with
  | nil => intro op h; cases h
  | cons c cs ih =>
    intro op h
    simp only [chunksOps, List.mem_append] at h
    rcases h with h | h
    · cases c with
      | reg n ps =>
        simp only [chunkOps, List.mem_cons, List.mem_map] at h
        rcases h with rfl | ⟨p, _, rfl⟩ <;> simp
      | wb bs =>
        simp only [chunkOps, List.mem_singleton] at h
        subst h; simp
    · exact ih _ op h

/-! ## stores that cover a region -/

/-- the region after the stores; `f` = how a byte string is represented in the region
    (`id` for real memory, `map some` for the spec's partially specified content) -/
def cmpApply {α : Type} (f : Bytes → List α) (R : List α) (ps : List (Nat × Bytes)) : List α :=
  ps.foldl (fun R p => overwrite R p.1 (f p.2)) R

theorem covers_le : ∀ (ps : List (Nat × Bytes)) (off n : Nat), Covers off n ps → off ≤ n := by
  intro ps
  induction ps with
  | nil => intro off n h; exact Nat.le_of_eq h
  | cons p ps ih => intro off n h; have := ih _ _ h.2; omega

/-- covering stores determine the region, whatever it held before -/
theorem cmpApply_covers {α : Type} (f : Bytes → List α) (hf : ∀ b, (f b).length = b.length) :
    ∀ (ps : List (Nat × Bytes)) (off n : Nat) (R : List α), R.length = n → Covers off n ps →
      cmpApply f R ps = R.take off ++ (ps.map (fun p => f p.2)).flatten := by
  intro ps
  induction ps with
  | nil =>
    intro off n R hR hc
    have : off = n := hc
    subst this; subst hR
    simp [cmpApply]
  | cons p ps ih =>
    intro off n R hR hc
    obtain ⟨hp, hrest⟩ := hc
    have hle := covers_le _ _ _ hrest
    have hlen1 : (overwrite R off (f p.2)).length = n := by
      rw [length_overwrite _ _ _ (by rw [hf, hR]; exact hle), hR]
    have := ih (off + p.2.length) n (overwrite R off (f p.2)) hlen1 hrest
    simp only [cmpApply, List.foldl_cons, hp] at this ⊢
    rw [this]
    simp only [List.map_cons, List.flatten_cons, ← List.append_assoc]
    congr 1
    unfold overwrite
    rw [List.take_append_of_le_length (by simp [hf]; omega)]
    rw [List.take_of_length_le (by simp [hf]; omega)]

/-- every store of a covering piece list fits into the region -/
theorem covers_fit : ∀ (ps : List (Nat × Bytes)) (off n : Nat), Covers off n ps →
    ∀ p ∈ ps, p.1 + p.2.length ≤ n := by
  intro ps
  induction ps with
  | nil => intro off n _ p hp; cases hp
  | cons q ps ih =>
    intro off n h p hp
    rcases List.mem_cons.mp hp with rfl | hp
    · have := covers_le _ _ _ h.2; rw [h.1]; exact this
    · exact ih _ _ h.2 p hp

/-! ## the spec log, step by step -/

/-- a healthy log in which every region item has its own id, below `nextId`, and a content of its length
    (what C05's simulation relation `WSim` says of the spec side) -/
structure LogOK (l : Log RErr) : Prop where
  err : l.err = none
  ids_lt : ∀ t ∈ layout 0 l.items, t.1 < l.nextId
  ids_nodup : ((layout 0 l.items).map (·.1)).Nodup
  store_ok : StoreOK l.store l.items

theorem logOK_new (fail : Nat → Option RErr) (init : Bytes) : LogOK (Log.new fail init) := by
  refine ⟨rfl, ?_, ?_, ?_⟩
  · intro t ht; simp [Log.new, layout] at ht
  · simp [Log.new, layout]
  · intro t ht; simp [Log.new, layout] at ht

theorem specRun_append (l : Log RErr) (xs ys : List WOp) :
    specRun l (xs ++ ys) =
      ((specRun l xs).1 ++ (specRun (specRun l xs).2 ys).1, (specRun (specRun l xs).2 ys).2) := by
  induction xs generalizing l with
  | nil => simp [specRun]
  | cons x xs ih => simp only [List.cons_append, specRun, ih, List.cons_append]

theorem cmp_spec_malloc (l : Log RErr) (h : LogOK l) (n : Nat) :
    ∃ l', specStep l (.malloc (n : Int)) = (.region l.nextId n, l') ∧ LogOK l' ∧
      l'.items = l.items ++ [.region l.nextId n] ∧
      concat l'.store l'.items = concat l.store l.items ++ List.replicate n none ∧
      l'.nextId = l.nextId + 1 ∧ l'.calls = l.calls ∧ l'.fail = l.fail ∧ l'.emitted = l.emitted := by
  have hn : ¬ ((n : Int) < 0) := by omega
  have hstep : specStep l (.malloc (n : Int)) = (.region l.nextId n,
      { l with items := l.items ++ [.region l.nextId n],
               store := fun i => if i = l.nextId then List.replicate n none else l.store i,
               nextId := l.nextId + 1 }) := by
    simp only [specStep, h.err, hn, if_false, Log.malloc, Int.toNat_natCast]
  have hlay : layout 0 (l.items ++ [Item.region l.nextId n]) = layout 0 l.items ++ [(l.nextId, 0 + lenSum l.items, n)] := by
    rw [layout_append]; simp [layout]
  have hold : ∀ t ∈ layout 0 l.items,
      (if t.1 = l.nextId then List.replicate n none else l.store t.1) = l.store t.1 := by
    intro t ht
    have := h.ids_lt t ht
    rw [if_neg (by omega)]
  refine ⟨_, hstep, ⟨h.err, ?_, ?_, ?_⟩, rfl, ?_, rfl, rfl, rfl, rfl⟩
  · intro t ht
    simp only [hlay, List.mem_append, List.mem_singleton] at ht
    rcases ht with ht | rfl
    · have := h.ids_lt t ht; simp only; omega
    · simp
  · simp only [hlay, List.map_append, List.map_cons, List.map_nil]
    rw [List.nodup_append]
    refine ⟨h.ids_nodup, by simp, ?_⟩
    intro a ha b hb
    simp only [List.mem_singleton] at hb
    obtain ⟨t, ht, rfl⟩ := List.mem_map.mp ha
    have := h.ids_lt t ht
    omega
  · intro t ht
    simp only [hlay, List.mem_append, List.mem_singleton] at ht
    rcases ht with ht | rfl
    · show (if t.1 = l.nextId then List.replicate n none else l.store t.1).length = t.2.2
      rw [hold t ht]; exact h.store_ok t ht
    · simp
  · simp only []
    rw [concat_append, concat_congr l.store _ l.items hold]
    simp [concat, Item.content]

theorem cmp_spec_wb (l : Log RErr) (h : LogOK l) (bs : Bytes) :
    ∃ l', specStep l (.wb bs) = (.wrote bs.length, l') ∧ LogOK l' ∧
      l'.items = l.items ++ [.payload bs] ∧
      concat l'.store l'.items = concat l.store l.items ++ bs.map some ∧
      l'.nextId = l.nextId ∧ l'.calls = l.calls ∧ l'.fail = l.fail ∧ l'.emitted = l.emitted := by
  have hstep : specStep l (.wb bs) = (.wrote bs.length, { l with items := l.items ++ [.payload bs] }) := by
    simp only [specStep, Log.write, h.err]
  have hlay : layout 0 (l.items ++ [Item.payload bs]) = layout 0 l.items := by
    rw [layout_append]; simp [layout]
  refine ⟨_, hstep, ⟨h.err, ?_, ?_, ?_⟩, rfl, ?_, rfl, rfl, rfl, rfl⟩
  · intro t ht; simp only [hlay] at ht; exact h.ids_lt t ht
  · simp only [hlay]; exact h.ids_nodup
  · intro t ht; simp only [hlay] at ht; exact h.store_ok t ht
  · simp only []
    rw [concat_append]
    simp [concat, Item.content]

/-- a store into a region that is in the log, within its bounds -/
theorem cmp_spec_fill (l : Log RErr) (h : LogOK l) (rid p n off : Nat) (bs : Bytes)
    (hmem : (rid, p, n) ∈ layout 0 l.items) (hfit : off + bs.length ≤ n) :
    ∃ l', specStep l (.fill rid off bs) = (.done, l') ∧ LogOK l' ∧ l'.items = l.items ∧
      concat l'.store l'.items = overwrite (concat l.store l.items) (p + off) (bs.map some) ∧
      l'.nextId = l.nextId ∧ l'.calls = l.calls ∧ l'.fail = l.fail ∧ l'.emitted = l.emitted := by
  have hlen : (l.store rid).length = n := h.store_ok _ hmem
  have hstep : specStep l (.fill rid off bs) = (.done,
      { l with store := fun i => if i = rid then overwrite (l.store rid) off (bs.map some) else l.store i }) := by
    simp only [specStep, Log.fill, hlen, hfit, if_true]
  refine ⟨_, hstep, ⟨h.err, h.ids_lt, h.ids_nodup, ?_⟩, rfl, ?_, rfl, rfl, rfl, rfl⟩
  · intro t ht
    simp only
    by_cases e : t.1 = rid
    · rw [if_pos e, length_overwrite _ _ _ (by rw [List.length_map, hlen]; exact hfit), ← e]
      exact h.store_ok t ht
    · rw [if_neg e]; exact h.store_ok t ht
  · simp only []
    have := concat_fill l.store l.items 0 rid p n off (bs.map some) hmem h.ids_nodup h.store_ok
      (by rw [List.length_map]; exact hfit)
    rw [this, Nat.sub_zero]

theorem cmp_concat_length (l : Log RErr) (h : LogOK l) : (concat l.store l.items).length = lenSum l.items :=
  length_concat _ _ h.store_ok

/-- the stores of one region chunk, after its Malloc: the region (at the end of the unflushed bytes so
    far `A`, current content `R`) receives the pieces; nothing else changes -/
theorem cmp_spec_fills (rid p n : Nat) : ∀ (ps : List (Nat × Bytes)) (l : Log RErr) (A R : SBytes),
    LogOK l → (rid, p, n) ∈ layout 0 l.items → concat l.store l.items = A ++ R → A.length = p → R.length = n →
    (∀ q ∈ ps, q.1 + q.2.length ≤ n) →
    ∃ l', specRun l (ps.map (fun q => .fill rid q.1 q.2)) = (ps.map (fun _ => .done), l') ∧ LogOK l' ∧
      l'.items = l.items ∧ concat l'.store l'.items = A ++ cmpApply (fun b => b.map some) R ps ∧
      l'.nextId = l.nextId ∧ l'.calls = l.calls ∧ l'.fail = l.fail ∧ l'.emitted = l.emitted := by
  intro ps
  induction ps with
  | nil =>
    intro l A R h _ hc _ _ _
    exact ⟨l, rfl, h, rfl, by simpa [cmpApply] using hc, rfl, rfl, rfl, rfl⟩
  | cons q ps ih =>
    intro l A R h hmem hc hA hR hfit
    have hq := hfit q (List.mem_cons_self ..)
    obtain ⟨l1, s1, ok1, it1, c1, n1, k1, f1, e1⟩ := cmp_spec_fill l h rid p n q.1 q.2 hmem hq
    have c1' : concat l1.store l1.items = A ++ overwrite R q.1 (q.2.map some) := by
      rw [c1, hc, ← hA, overwrite_append_right _ _ _ _ (by rw [List.length_map, hR]; exact hq)]
    obtain ⟨l2, s2, ok2, it2, c2, n2, k2, f2, e2⟩ := ih l1 A (overwrite R q.1 (q.2.map some)) ok1
      (by rw [it1]; exact hmem) c1' hA
      (by rw [length_overwrite _ _ _ (by rw [List.length_map, hR]; exact hq), hR])
      (fun q' hq' => hfit q' (List.mem_cons_of_mem _ hq'))
    refine ⟨l2, ?_, ok2, by rw [it2, it1], ?_, by rw [n2, n1], by rw [k2, k1], by rw [f2, f1], by rw [e2, e1]⟩
    · simp only [List.map_cons, specRun, s1, s2]
    · rw [c2]; simp [cmpApply]

/-- ONE full chunk on the spec log -/
theorem cmp_spec_chunk (c : Chunk) (hfull : c.Full) (l : Log RErr) (h : LogOK l) :
    ∃ l', specRun l (chunkOps l.nextId c) = (chunkObs l.nextId c, l') ∧ LogOK l' ∧
      (∃ tail, l'.items = l.items ++ tail) ∧
      concat l'.store l'.items = concat l.store l.items ++ c.bytes.map some ∧
      l'.nextId = l.nextId + c.regs ∧ l'.calls = l.calls ∧ l'.fail = l.fail ∧ l'.emitted = l.emitted := by
  cases c with
  | wb bs =>
    obtain ⟨l1, s1, ok1, it1, c1, n1, k1, f1, e1⟩ := cmp_spec_wb l h bs
    exact ⟨l1, by simp only [chunkOps, chunkObs, specRun, s1], ok1, ⟨_, it1⟩, c1, n1, k1, f1, e1⟩
  | reg n ps =>
    have hcov : Covers 0 n ps := hfull
    obtain ⟨l1, s1, ok1, it1, c1, n1, k1, f1, e1⟩ := cmp_spec_malloc l h n
    have hmem : (l.nextId, lenSum l.items, n) ∈ layout 0 l1.items := by
      rw [it1, layout_append]; simp [layout]
    obtain ⟨l2, s2, ok2, it2, c2, n2, k2, f2, e2⟩ := cmp_spec_fills l.nextId (lenSum l.items) n ps l1
      (concat l.store l.items) (List.replicate n none) ok1 hmem c1 (cmp_concat_length l h) (by simp)
      (covers_fit ps 0 n hcov)
    refine ⟨l2, ?_, ok2, ⟨_, by rw [it2, it1]⟩, ?_, by rw [n2, n1]; rfl, by rw [k2, k1], by rw [f2, f1],
      by rw [e2, e1]⟩
    · simp only [chunkOps, chunkObs, specRun, s1, s2]
    · rw [c2, cmpApply_covers (fun b => b.map some) (fun b => by simp) ps 0 n _ (by simp) hcov]
      simp [Chunk.bytes, List.map_flatten, Function.comp_def]

/-- a LIST of full chunks on the spec log: the observations are the expected ones (every Malloc returns
    the id the stores use, WriteBinary takes everything), the log stays healthy and only grows, and the
    unflushed bytes grow by exactly the chunks' bytes — every one of them specified -/
theorem cmp_spec_chunks : ∀ (cs : List Chunk), (∀ c ∈ cs, c.Full) → ∀ (l : Log RErr), LogOK l →
    ∃ l', specRun l (chunksOps l.nextId cs) = (chunksObs l.nextId cs, l') ∧ LogOK l' ∧
      (∃ tail, l'.items = l.items ++ tail) ∧
      concat l'.store l'.items = concat l.store l.items ++ (chunksBytes cs).map some ∧
      l'.nextId = l.nextId + chunksRegs cs ∧ l'.calls = l.calls ∧ l'.fail = l.fail ∧ l'.emitted = l.emitted := by
  intro cs
  induction cs with
  | nil =>
    intro _ l h
    exact ⟨l, rfl, h, ⟨[], by simp⟩, by simp [chunksBytes], by simp [chunksRegs], rfl, rfl, rfl⟩
  | cons c cs ih =>
    intro hfull l h
    obtain ⟨l1, s1, ok1, ⟨t1, it1⟩, c1, n1, k1, f1, e1⟩ :=
      cmp_spec_chunk c (hfull c (List.mem_cons_self ..)) l h
    obtain ⟨l2, s2, ok2, ⟨t2, it2⟩, c2, n2, k2, f2, e2⟩ :=
      ih (fun c' hc' => hfull c' (List.mem_cons_of_mem _ hc')) l1 ok1
    rw [n1] at s2
    refine ⟨l2, ?_, ok2, ⟨t1 ++ t2, by rw [it2, it1, List.append_assoc]⟩, ?_, ?_, by rw [k2, k1],
      by rw [f2, f1], by rw [e2, e1]⟩
    · simp only [chunksOps, chunksObs, specRun_append, s1, s2]
    · rw [c2, c1]; simp [chunksBytes]
    · rw [n2, n1]; simp [chunksRegs]; omega

/-! ## transport to the model (C05) -/

theorem logOK_of_sim {w : Wr} {l : Log RErr} (h : WSim w l) (he : w.err = none) : LogOK l :=
  ⟨by rw [h.err, he], h.ids_lt, h.ids_nodup, h.store_ok⟩

theorem start_spec_ok (s : Start) : LogOK s.spec ∧ s.spec.nextId = 0 ∧
    concat s.spec.store s.spec.items = s.init.map some ∧ s.spec.calls = 0 ∧ s.spec.emitted = [] := by
  cases s <;> exact ⟨logOK_new _ _, rfl, by simp [Start.spec, Start.init, Log.new, concat, Item.content], rfl, rfl⟩

/-- flush-free histories never touch the sink, the sticky error or the published target -/
theorem cmp_noflush_frame (a : WAlloc) (ha : a.Sound) (w : Wr) (l : Log RErr) (h : WSim w l)
    (ops : List WOp) (hnf : ∀ op ∈ ops, op ≠ .flush) :
    (w.run a ops).2.sink = w.sink ∧ (w.run a ops).2.err = w.err ∧ (w.run a ops).2.target = w.target ∧
    (w.run a ops).2.disableCache = w.disableCache := by
  induction ops generalizing w l with
  | nil => exact ⟨rfl, rfl, rfl, rfl⟩
  | cons op ops ih =>
    have hop := hnf op (List.mem_cons_self ..)
    obtain ⟨f1, f2⟩ := step_frame a ha w h.inv op
    obtain ⟨f2, f3, f4⟩ := f2 hop
    have h2 := (sim_step a ha w l h op).2
    obtain ⟨i1, i2, i3, i4⟩ := ih _ _ h2 (fun o ho => hnf o (List.mem_cons_of_mem _ ho))
    simp only [Wr.run]
    exact ⟨by rw [i1, f4], by rw [i2, f3], by rw [i3, f2], by rw [i4, f1]⟩

/-- the chunks of a codec run on a FRESH real writer of any kind: what the caller observes, and the
    state of the spec log that C05 relates the model state to -/
theorem cmp_real_run (a : WAlloc) (ha : a.Sound) (s : Start) (cs : List Chunk) (hfull : ∀ c ∈ cs, c.Full) :
    (s.model.run a (chunksOps 0 cs)).1 = chunksObs 0 cs ∧
    (after a s (chunksOps 0 cs)).err = none ∧
    (after a s (chunksOps 0 cs)).sink = s.model.sink ∧
    (specAfter s (chunksOps 0 cs)).unflushed = (s.init ++ chunksBytes cs).map some ∧
    LogOK (specAfter s (chunksOps 0 cs)) := by
  obtain ⟨ok0, id0, c0, _, _⟩ := start_spec_ok s
  obtain ⟨l', hs, ok', _, hc, _⟩ := cmp_spec_chunks cs hfull s.spec ok0
  rw [id0] at hs
  obtain ⟨hobs, hsim⟩ := refines a ha s (chunksOps 0 cs)
  obtain ⟨fs, fe, _, _⟩ := cmp_noflush_frame a ha s.model s.spec (sim_start s) (chunksOps 0 cs)
    (chunksOps_noflush 0 cs)
  have hl' : specAfter s (chunksOps 0 cs) = l' := by unfold specAfter; rw [hs]
  refine ⟨by rw [hobs, hs], ?_, fs, ?_, by rw [hl']; exact ok'⟩
  · show (s.model.run a (chunksOps 0 cs)).2.err = none
    rw [fe]; cases s <;> rfl
  · rw [hl', unflushed_eq, hc, c0, List.map_append]

/-- Flush of a default writer that has not called its sink yet, in a state C05 relates to a log whose
    unflushed bytes are all specified (`= bs.map some`) -/
theorem cmp_flush_default (w : Wr) (l : Log RErr) (h : WSim w l) (he : w.err = none)
    (hdc : w.disableCache = false) (hcalls : w.sink.calls = []) (bs : Bytes) (hunf : l.unflushed = bs.map some) :
    (bs = [] → w.flush.2.sink.calls = [] ∧ w.flush.1 = .ok ()) ∧
    (bs ≠ [] → w.flush.2.sink.calls = [(bs, w.sink.fail 1)] ∧
       (w.sink.fail 1 = none → w.flush.1 = .ok () ∧ w.flush.2.sunk = bs) ∧
       (∀ e, w.sink.fail 1 = some e → w.flush.1 = .err e)) := by
  have hlog : w.logical = bs := match_all_some h.content bs hunf
  have h1 : w.sink.calls.length + 1 = 1 := by rw [hcalls]; rfl
  cases hb : w.buf with
  | none =>
    have hnil : bs = [] := by rw [← hlog]; simp [Wr.logical, hb]
    rw [flush_nil w he hb]
    exact ⟨fun _ => ⟨hcalls, rfl⟩, fun hne => absurd hnil hne⟩
  | some v =>
    have hpos := h.nonempty hdc v hb
    have hlen : bs.length = v.len := by
      have h1 := Match.length_eq h.content
      rw [length_concat _ _ h.store_ok, h.wlen, hlog] at h1
      simpa [Wr.bufLen, hb] using h1
    have hne : bs ≠ [] := by intro e; rw [e] at hlen; simp at hlen; omega
    obtain ⟨heap1, _, _, _, _, _, hE, hO⟩ := flush_some w h.inv he v hb
    refine ⟨fun e => absurd e hne, fun _ => ?_⟩
    cases hf : w.sink.fail 1 with
    | some e =>
      rw [hE hdc e (by rw [h1]; exact hf)]
      refine ⟨by simp [Wr.flushedErr, hcalls, hlog], fun hn => (by cases hn), fun e' he' => ?_⟩
      injection he' with he'; rw [he']
    | none =>
      rw [hO hdc (by rw [h1]; exact hf)]
      refine ⟨by simp [Wr.flushedOk, hcalls, hlog], fun _ => ⟨rfl, ?_⟩, fun e' he' => (by cases he')⟩
      simp [Wr.sunk, Wr.flushedOk, WSink.accepted, hcalls, hlog]

/-- **DefaultWriter.**  After the chunks, Flush: nothing was written and the sink is not consulted, or
    the sink receives exactly the chunks' bytes in ONE Write call — its first — and Flush returns the
    sink's answer -/
theorem cmp_real_default (a : WAlloc) (ha : a.Sound) (fail : Nat → Option RErr) (cs : List Chunk)
    (hfull : ∀ c ∈ cs, c.Full) :
    ((Start.default fail).model.run a (chunksOps 0 cs)).1 = chunksObs 0 cs ∧
    (after a (.default fail) (chunksOps 0 cs)).err = none ∧
    (chunksBytes cs = [] → (after a (.default fail) (chunksOps 0 cs)).flush.2.sink.calls = [] ∧
       (after a (.default fail) (chunksOps 0 cs)).flush.1 = .ok ()) ∧
    (chunksBytes cs ≠ [] →
       (after a (.default fail) (chunksOps 0 cs)).flush.2.sink.calls = [(chunksBytes cs, fail 1)] ∧
       (fail 1 = none → (after a (.default fail) (chunksOps 0 cs)).flush.1 = .ok () ∧
          (after a (.default fail) (chunksOps 0 cs)).flush.2.sunk = chunksBytes cs) ∧
       (∀ e, fail 1 = some e → (after a (.default fail) (chunksOps 0 cs)).flush.1 = .err e)) := by
  obtain ⟨hobs, herr, hsink, hunf, _⟩ := cmp_real_run a ha (.default fail) cs hfull
  have hdc : (after a (.default fail) (chunksOps 0 cs)).disableCache = false := by
    have := (cmp_noflush_frame a ha (Start.default fail).model _ (sim_start _) (chunksOps 0 cs)
      (chunksOps_noflush 0 cs)).2.2.2
    show ((Start.default fail).model.run a (chunksOps 0 cs)).2.disableCache = false
    rw [this]; rfl
  simp only [Start.init, List.nil_append] at hunf
  have hf := cmp_flush_default _ _ (sim_after a ha (.default fail) (chunksOps 0 cs)) herr hdc
    (by rw [hsink]; rfl) _ hunf
  have hfail : (after a (.default fail) (chunksOps 0 cs)).sink.fail = fail := by rw [hsink]; rfl
  rw [hfail] at hf
  exact ⟨hobs, herr, hf.1, hf.2⟩

/-- **BytesWriter** over any initial slice (nil, empty, partly filled, full; any spare capacity): after
    the chunks, Flush succeeds and the target slice is the initial contents followed by exactly the
    chunks' bytes -/
theorem cmp_real_bytes (a : WAlloc) (ha : a.Sound) (s : Start) (hs : ∀ f, s ≠ .default f) (cs : List Chunk)
    (hfull : ∀ c ∈ cs, c.Full) :
    let w := after a s (chunksOps 0 cs)
    (s.model.run a (chunksOps 0 cs)).1 = chunksObs 0 cs ∧ w.err = none ∧
    w.flush.1 = .ok () ∧ w.flush.2.targetBytes = s.init ++ chunksBytes cs := by
  intro w
  obtain ⟨hobs, herr, _, hunf, _⟩ := cmp_real_run a ha s cs hfull
  obtain ⟨hok, written, hw, hm⟩ := bytesWriter_target a ha s hs (chunksOps 0 cs) (chunksOps_noflush 0 cs)
  refine ⟨hobs, herr, hok, ?_⟩
  rw [← hw, hunf] at hm
  exact match_all_some hm _ rfl

end Verif.Compose

/-
  Lemmas/SkipBin: Binary.Skip (model skipBinAt) agrees exactly with the acceptance discipline
  refBin (Lemmas/Grammar.lean) for every input: ok n iff refBin says n, otherwise an error — never a
  panic, never an out-of-bounds load.
-/
import Verif.Model.Skip
import Verif.Lemmas.Grammar
import Verif.Lemmas.TypeSize
namespace Verif

theorem load_ok (b : Bytes) (i : Nat) (h : i < b.length) : load b i = .ok b[i] := by
  unfold load; simp [h]

theorem drop_cons4 (b : Bytes) (i : Nat) (h : i + 4 ≤ b.length) :
    b.drop i = b[i] :: b[i+1] :: b[i+2] :: b[i+3] :: b.drop (i+4) := by
  rw [List.drop_eq_getElem_cons (by omega), List.drop_eq_getElem_cons (by omega),
      List.drop_eq_getElem_cons (by omega), List.drop_eq_getElem_cons (by omega)]

theorem loadI32_ok (b : Bytes) (i : Nat) (h : i + 4 ≤ b.length) :
    loadI32 b i = .ok (toI32 (rd32 (b.drop i))) := by
  unfold loadI32
  rw [drop_cons4 b i h]
  simp [load_ok b i (by omega), load_ok b (i+1) (by omega), load_ok b (i+2) (by omega),
        load_ok b (i+3) (by omega), rd32]

theorem toI32_neg_iff (n : Nat) (h : n < 4294967296) : toI32 n < 0 ↔ ¬ n < 2147483648 := by
  unfold toI32; split <;> omega

theorem toI32_toNat (n : Nat) (h : n < 2147483648) : (toI32 n).toNat = n := by
  unfold toI32; simp [h]


def Matches (x : TOut Nat) (o : Option Nat) : Prop :=
  match o with
  | some n => x = .ok n
  | none => ∃ e, x = .err e

/-- loop results: exact when the reference accepts; otherwise an error, or an offset beyond the end
    of the buffer (which the caller's final bounds check turns into an error) -/
def LoopMatches (x : TOut Nat) (o : Option Nat) (i len : Nat) : Prop :=
  match o with
  | some k => x = .ok (i + k)
  | none => (∃ e, x = .err e) ∨ (∃ j, x = .ok j ∧ j > len)

/-- how one element (key, value, list element, field value) measured at offset i relates to its
    reference `g`: either a fixed size added without a bounds check, or an exact match -/
def ElemOK (x : Nat → TOut Nat) (g : Bytes → Option Nat) (b : Bytes) : Prop :=
  (∃ s, 1 ≤ s ∧ (∀ i, x i = .ok s) ∧ (∀ bb : Bytes, g bb = if s ≤ bb.length then some s else none))
  ∨ ((∀ i, i ≤ b.length → Matches (x i) (g (b.drop i))) ∧ Good g)

theorem good_nil {g : Bytes → Option Nat} (h : Good g) : g [] = none := by
  cases hg : g [] with
  | none => rfl
  | some n => have := h [] n hg; simp at this; omega

theorem ElemOK.good {x g b} (h : ElemOK x g b) : Good g := by
  rcases h with ⟨s, hs, _, hg⟩ | ⟨_, hg⟩
  · intro bb n hn; rw [hg] at hn; split at hn <;> simp at hn; omega
  · exact hg

theorem drop_drop' (b : Bytes) (i k : Nat) : (b.drop i).drop k = b.drop (i + k) := by
  rw [List.drop_drop]

/-- one element step: from offset i, either the model fails / overshoots and the reference rejects,
    or both agree on the size -/
theorem elem_step {x g b} (h : ElemOK x g b) (i : Nat) (hi : i < b.length) :
    (∃ k, x i = .ok k ∧ 1 ≤ k ∧ ((g (b.drop i) = some k ∧ i + k ≤ b.length) ∨ (g (b.drop i) = none ∧ i + k > b.length)))
    ∨ ((∃ e, x i = .err e) ∧ g (b.drop i) = none) := by
  rcases h with ⟨s, hs, hx, hg⟩ | ⟨hm, hgood⟩
  · left
    refine ⟨s, hx i, hs, ?_⟩
    rw [hg]; simp only [List.length_drop]
    by_cases hle : s ≤ b.length - i
    · left; simp [hle]; omega
    · right; simp [hle]; omega
  · have := hm i (by omega)
    unfold Matches at this
    cases hgi : g (b.drop i) with
    | none => right; rw [hgi] at this; exact ⟨this, rfl⟩
    | some k =>
      left; rw [hgi] at this
      have hk := hgood _ k hgi
      simp only [List.length_drop] at hk
      exact ⟨k, this, hk.1, Or.inl ⟨rfl, by omega⟩⟩

theorem listLoop_matches {rec b vt vsz f} (hE : ElemOK (fun i => elemBin rec b i vt vsz) f b) :
    ∀ cnt i, LoopMatches (listLoopBin rec b vt vsz cnt i) (refN f cnt (b.drop i)) i b.length := by
  intro cnt
  induction cnt with
  | zero => intro i; simp [listLoopBin, refN, LoopMatches]
  | succ cnt ih =>
    intro i
    simp only [listLoopBin, refN]
    by_cases hi : i ≥ b.length
    · have : b.drop i = [] := List.drop_eq_nil_of_le hi
      simp [hi, this, good_nil hE.good, LoopMatches]
    · simp only [hi, if_false]
      rcases elem_step hE i (by omega) with ⟨k, hx, hk1, hcase⟩ | ⟨⟨e, hx⟩, hg⟩
      · have hx := hx
        simp only [hx, Out.bind_eq, Out.bind_ok]
        rcases hcase with ⟨hg, hle⟩ | ⟨hg, hgt⟩
        · simp only [hg, drop_drop']
          have := ih (i + k)
          unfold LoopMatches at this ⊢
          cases hr : refN f cnt (b.drop (i + k)) with
          | none => simpa [hr] using this
          | some r => simp [hr] at this ⊢; rw [this]; congr 1; omega
        · simp only [hg]
          have := ih (i + k)
          unfold LoopMatches at this ⊢
          cases hr : refN f cnt (b.drop (i + k)) with
          | none => simpa [hr] using this
          | some r => simp [hr] at this; right; exact ⟨_, this, by omega⟩
      · have hx := hx
        simp [hx, hg, LoopMatches]

theorem mapLoop_matches {rec b kt vt ksz vsz fk fv}
    (hK : ElemOK (fun i => elemBin rec b i kt ksz) fk b)
    (hV : ElemOK (fun i => elemBin rec b i vt vsz) fv b) :
    ∀ cnt i, LoopMatches (mapLoopBin rec b kt vt ksz vsz cnt i) (refKV fk fv cnt (b.drop i)) i b.length := by
  intro cnt
  induction cnt with
  | zero => intro i; simp [mapLoopBin, refKV, LoopMatches]
  | succ cnt ih =>
    intro i
    simp only [mapLoopBin, refKV]
    by_cases hi : i ≥ b.length
    · have : b.drop i = [] := List.drop_eq_nil_of_le hi
      simp [hi, this, good_nil hK.good, LoopMatches]
    · simp only [hi, if_false]
      rcases elem_step hK i (by omega) with ⟨k, hx, hk1, hcase⟩ | ⟨⟨e, hx⟩, hg⟩
      · have hx := hx
        simp only [hx, Out.bind_eq, Out.bind_ok]
        by_cases hi1 : i + k ≥ b.length
        · -- no room for the value: model fails; reference fails too
          simp only [hi1, if_true]
          rcases hcase with ⟨hg, hle⟩ | ⟨hg, hgt⟩
          · have : b.drop (i + k) = [] := List.drop_eq_nil_of_le hi1
            simp [hg, drop_drop', this, good_nil hV.good, LoopMatches]
          · simp [hg, LoopMatches]
        · simp only [hi1, if_false]
          have hg : fk (b.drop i) = some k := by
            rcases hcase with ⟨hg, _⟩ | ⟨_, hgt⟩
            · exact hg
            · omega
          simp only [hg, drop_drop']
          rcases elem_step hV (i + k) (by omega) with ⟨v, hy, hv1, hcase2⟩ | ⟨⟨e, hy⟩, hg2⟩
          · have hy := hy
            simp only [hy, Out.bind_ok]
            have := ih (i + k + v)
            rcases hcase2 with ⟨hg2, hle⟩ | ⟨hg2, hgt⟩
            · simp only [hg2]
              unfold LoopMatches at this ⊢
              rw [show k + v = k + v from rfl, ← Nat.add_assoc] 
              cases hr : refKV fk fv cnt (b.drop (i + k + v)) with
              | none => simpa [hr] using this
              | some r => simp [hr] at this ⊢; rw [this]; congr 1; omega
            · simp only [hg2]
              unfold LoopMatches at this ⊢
              cases hr : refKV fk fv cnt (b.drop (i + k + v)) with
              | none => simpa [hr] using this
              | some r => simp [hr] at this; right; exact ⟨_, this, by omega⟩
          · have hy := hy
            simp [hy, hg2, LoopMatches]
      · have hx := hx
        simp [hx, hg, LoopMatches]

theorem T_STOP_eq : T_STOP = 0 := by decide
theorem T_STRING_eq : T_STRING = TT.STRING := by decide
theorem T_STRUCT_eq : T_STRUCT = TT.STRUCT := by decide
theorem T_MAP_eq : T_MAP = TT.MAP := by decide
theorem T_SET_eq : T_SET = TT.SET := by decide
theorem T_LIST_eq : T_LIST = TT.LIST := by decide

theorem structLoop_matches {rec b} {g : UInt8 → Bytes → Option Nat}
    (hF : ∀ ft, ElemOK (fun i => elemBin rec b i ft ((fixedSize ft : Nat) : Int)) (g ft) b) :
    ∀ fuel i, b.length - i < fuel →
      Matches (structLoopBin rec b fuel i) ((refFields g fuel (b.drop i)).map (i + ·)) := by
  intro fuel
  induction fuel with
  | zero => intro i h; omega
  | succ fuel ih =>
    intro i hfuel
    simp only [structLoopBin]
    by_cases hi : i ≥ b.length
    · have : b.drop i = [] := List.drop_eq_nil_of_le hi
      simp [hi, this, refFields, Matches]
    · simp only [hi, if_false]
      have hlt : i < b.length := by omega
      rw [load_ok b i hlt]
      have hd : b.drop i = b[i] :: b.drop (i + 1) := List.drop_eq_getElem_cons hlt
      simp only [Out.bind_eq, Out.bind_ok, hd, refFields, T_STOP_eq]
      by_cases ht : b[i] = 0
      · simp [ht, Matches]
      · simp only [ht, if_false, List.length_drop]
        by_cases hi2 : i + 1 + 2 ≥ b.length
        · simp only [hi2, if_true]
          by_cases hl : b.length - (i + 1) < 2
          · simp [hl, Matches]
          · have : (b.drop (i + 1)).drop 2 = [] := by
              rw [drop_drop']; exact List.drop_eq_nil_of_le (by omega)
            simp [hl, this, good_nil (hF b[i]).good, Matches]
        · have hl : ¬ b.length - (i + 1) < 2 := by omega
          simp only [hi2, hl, if_false, typeSize_eq, Out.bind_ok, drop_drop']
          rcases elem_step (hF b[i]) (i + 1 + 2) (by omega) with ⟨k, hx, hk1, hcase⟩ | ⟨⟨e, hx⟩, hg⟩
          · have hx := hx
            simp only [hx, Out.bind_ok]
            have hih := ih (i + 1 + 2 + k) (by omega)
            rcases hcase with ⟨hg, hle⟩ | ⟨hg, hgt⟩
            · simp only [hg]
              unfold Matches at hih ⊢
              rw [show i + 1 + (2 + k) = i + 1 + 2 + k by omega]
              cases hr : refFields g fuel (b.drop (i + 1 + 2 + k)) with
              | none => simpa [hr] using hih
              | some r => simp [hr] at hih ⊢; rw [hih]; congr 1; omega
            · simp only [hg]
              have : b.drop (i + 1 + 2 + k) = [] := List.drop_eq_nil_of_le (by omega)
              rw [this] at hih
              cases fuel with
              | zero => omega
              | succ fuel' => simpa [refFields, Matches] using hih
          · have hx := hx
            simp [hx, hg, Matches]

theorem skipStrBin_matches (b : Bytes) (i : Nat) (hi : i ≤ b.length) :
    Matches (skipStrBin b i) (refStr (b.drop i)) := by
  unfold skipStrBin refStr Matches
  by_cases h4 : i + 4 ≤ b.length
  · have hl : 4 ≤ b.length - i := by omega
    simp only [h4, if_true]
    rw [loadI32_ok b i h4]
    have hlt := rd32_lt (b.drop i)
    simp only [Out.bind_eq, Out.bind_ok, List.length_drop]
    by_cases hn : rd32 (b.drop i) < 2147483648
    · have : ¬ toI32 (rd32 (b.drop i)) < 0 := by rw [toI32_neg_iff _ hlt]; simpa using hn
      simp only [this, if_false, toI32_toNat _ hn]
      by_cases hf : i + (4 + rd32 (b.drop i)) ≤ b.length
      · have : 4 + rd32 (b.drop i) ≤ b.length - i := by omega
        simp [hf, hn, this, hl]
      · have : ¬ 4 + rd32 (b.drop i) ≤ b.length - i := by omega
        simp [hf, hn, this]
    · have : toI32 (rd32 (b.drop i)) < 0 := by rw [toI32_neg_iff _ hlt]; exact hn
      simp [this, hn]
  · have hl : ¬ 4 ≤ b.length - i := by omega
    simp [h4, hl]


theorem refN_fixed (s : Nat) (hs : 1 ≤ s) (g : Bytes → Option Nat)
    (hg : ∀ bb : Bytes, g bb = if s ≤ bb.length then some s else none) :
    ∀ n (b : Bytes), refN g n b = if n * s ≤ b.length then some (n * s) else none := by
  intro n
  induction n with
  | zero => intro b; simp [refN]
  | succ n ih =>
    intro b
    simp only [refN, hg]
    by_cases h1 : s ≤ b.length
    · simp only [h1, if_true, ih, List.length_drop]
      by_cases h2 : n * s ≤ b.length - s
      · have : (n + 1) * s ≤ b.length := by rw [Nat.add_mul]; omega
        simp [h2, this, Nat.add_mul]; omega
      · have : ¬ (n + 1) * s ≤ b.length := by rw [Nat.add_mul]; omega
        simp [h2, this]
    · have : ¬ (n + 1) * s ≤ b.length := by
        rw [Nat.add_mul]; have := Nat.zero_le (n * s); omega
      simp [h1, this]

theorem refKV_fixed (k v : Nat) (hk : 1 ≤ k) (hv : 1 ≤ v) (gk gv : Bytes → Option Nat)
    (hgk : ∀ bb : Bytes, gk bb = if k ≤ bb.length then some k else none)
    (hgv : ∀ bb : Bytes, gv bb = if v ≤ bb.length then some v else none) :
    ∀ n (b : Bytes), refKV gk gv n b = if n * (k + v) ≤ b.length then some (n * (k + v)) else none := by
  intro n
  induction n with
  | zero => intro b; simp [refKV]
  | succ n ih =>
    intro b
    simp only [refKV, hgk, hgv]
    by_cases h1 : k ≤ b.length
    · simp only [h1, if_true, List.length_drop]
      by_cases h2 : v ≤ b.length - k
      · simp only [h2, if_true, ih, List.length_drop]
        by_cases h3 : n * (k + v) ≤ b.length - (k + v)
        · have : (n + 1) * (k + v) ≤ b.length := by rw [Nat.add_mul]; omega
          simp [h3, this, Nat.add_mul]; omega
        · have : ¬ (n + 1) * (k + v) ≤ b.length := by rw [Nat.add_mul]; omega
          simp [h3, this]
      · have : ¬ (n + 1) * (k + v) ≤ b.length := by
          rw [Nat.add_mul]; have := Nat.zero_le (n * (k + v)); omega
        simp [h2, this]
    · have : ¬ (n + 1) * (k + v) ≤ b.length := by
        rw [Nat.add_mul]; have := Nat.zero_le (n * (k + v)); omega
      simp [h1, this]

theorem gElem_fixed (f : UInt8 → Bytes → Option Nat) (t : UInt8) (h : 0 < fixedSize t) (bb : Bytes) :
    gElem f t bb = if fixedSize t ≤ bb.length then some (fixedSize t) else none := by
  unfold gElem; simp [h]

theorem elemOK_of {rec : Bytes → Nat → UInt8 → TOut Nat} {f : UInt8 → Bytes → Option Nat} (b : Bytes)
    (HR : ∀ bb i tt, i ≤ bb.length → Matches (rec bb i tt) (f tt (bb.drop i)))
    (hGood : ∀ t, Good (f t)) (t : UInt8) :
    ElemOK (fun i => elemBin rec b i t ((fixedSize t : Nat) : Int)) (gElem f t) b := by
  by_cases hf : 0 < fixedSize t
  · left
    refine ⟨fixedSize t, hf, ?_, gElem_fixed f t hf⟩
    intro i
    have : ((fixedSize t : Nat) : Int) > 0 := by omega
    simp only [elemBin, this, if_true, Int.toNat_natCast]
  · right
    refine ⟨?_, gElem_good hGood t⟩
    intro i hi
    have h0 : fixedSize t = 0 := by omega
    simp only [elemBin, h0, gElem]
    simp only [Int.natCast_zero, gt_iff_lt, Int.lt_irrefl, if_false, Nat.lt_irrefl, T_STRING_eq]
    by_cases hs : t = TT.STRING
    · simp only [hs, if_true]; exact skipStrBin_matches b i hi
    · simp only [hs, if_false]; exact HR b i t hi

theorem elemExact_of {rec : Bytes → Nat → UInt8 → TOut Nat} {f : UInt8 → Bytes → Option Nat} (b : Bytes)
    (HR : ∀ bb i tt, i ≤ bb.length → Matches (rec bb i tt) (f tt (bb.drop i)))
    (t : UInt8) (h0 : fixedSize t = 0) (i : Nat) (hi : i ≤ b.length) :
    Matches (elemBin rec b i t ((fixedSize t : Nat) : Int)) (gElem f t (b.drop i)) := by
  simp only [elemBin, h0, gElem]
  simp only [Int.natCast_zero, gt_iff_lt, Int.lt_irrefl, if_false, Nat.lt_irrefl, T_STRING_eq]
  by_cases hs : t = TT.STRING
  · simp only [hs, if_true]; exact skipStrBin_matches b i hi
  · simp only [hs, if_false]; exact HR b i t hi

/-- with exactly measured elements the list loop never runs past the end of the buffer -/
theorem listLoop_le {rec b vt vsz} {g : Bytes → Option Nat}
    (hx : ∀ i, i ≤ b.length → Matches (elemBin rec b i vt vsz) (g (b.drop i))) (hg : Good g) :
    ∀ cnt i j, i ≤ b.length → listLoopBin rec b vt vsz cnt i = .ok j → j ≤ b.length := by
  intro cnt
  induction cnt with
  | zero => intro i j hi h; simp [listLoopBin] at h; omega
  | succ cnt ih =>
    intro i j hi h
    simp only [listLoopBin] at h
    by_cases hge : i ≥ b.length
    · simp [hge] at h
    · simp only [hge, if_false] at h
      have hm := hx i hi
      unfold Matches at hm
      cases hgi : g (b.drop i) with
      | none =>
        rw [hgi] at hm; obtain ⟨e, he⟩ := hm
        simp [he] at h
      | some k =>
        rw [hgi] at hm
        have hk := hg _ k hgi
        simp only [List.length_drop] at hk
        simp only [hm, Out.bind_eq, Out.bind_ok] at h
        exact ih (i + k) j (by omega) h

theorem skipBinAt_matches : ∀ d (b0 : Bytes) (off : Nat) (t : UInt8), off ≤ b0.length →
    Matches (skipBinAt d b0 off t) (refBin d t (b0.drop off)) := by
  intro d
  induction d with
  | zero => intro b0 off t _; simp [skipBinAt, refBin, Matches]
  | succ d ih =>
    intro b0 off t hoff
    generalize hb : b0.drop off = b
    have hG := refBin_good d
    have hE := fun (bb : Bytes) => elemOK_of (rec := fun bb i tt => skipBinAt d bb i tt) (f := refBin d) bb
      (fun bb i tt h => ih bb i tt h) hG
    simp only [skipBinAt, hb, refBin, typeSize_eq, Out.bind_eq, Out.bind_ok]
    unfold layer
    by_cases hf : 0 < fixedSize t
    · have : ((fixedSize t : Nat) : Int) > 0 := by omega
      simp only [this, hf, if_true, Int.toNat_natCast]
      by_cases hl : fixedSize t ≤ b.length
      · have : ¬ fixedSize t > b.length := by omega
        simp [hl, this, Matches]
      · have : fixedSize t > b.length := by omega
        simp [hl, this, Matches]
    · have h0 : fixedSize t = 0 := by omega
      simp only [h0, Int.natCast_zero, gt_iff_lt, Int.lt_irrefl, Nat.lt_irrefl, if_false,
        T_STRING_eq, T_MAP_eq, T_LIST_eq, T_SET_eq, T_STRUCT_eq]
      by_cases hs : t = TT.STRING
      · simp only [hs, if_true]
        have := skipStrBin_matches b 0 (Nat.zero_le _)
        simpa using this
      · simp only [hs, if_false]
        by_cases hm : t = TT.MAP
        · subst hm
          simp only [show TT.MAP ≠ TT.STRUCT by decide, show ¬ (TT.MAP = TT.LIST ∨ TT.MAP = TT.SET) by decide,
            if_true, if_false]
          match b with
          | [] => simp [Matches]
          | [_] => simp [Matches]
          | kt :: vt :: rest =>
            have hlen : (kt :: vt :: rest).length = rest.length + 2 := by simp
            simp only [hlen]
            by_cases h6 : 6 > rest.length + 2
            · have : ¬ 4 ≤ rest.length := by omega
              simp [h6, this, Matches]
            · have h4 : 4 ≤ rest.length := by omega
              have hl0 : load (kt :: vt :: rest) 0 = .ok kt := by simp [load]
              have hl1 : load (kt :: vt :: rest) 1 = .ok vt := by simp [load]
              have hl2 : loadI32 (kt :: vt :: rest) 2 = .ok (toI32 (rd32 rest)) := by
                rw [loadI32_ok _ 2 (by simp; omega)]; simp
              simp only [h6, if_false, hl0, hl1, hl2, Out.bind_ok, h4, true_and]
              have hlt := rd32_lt rest
              by_cases hn : rd32 rest < 2147483648
              · have hnn : ¬ toI32 (rd32 rest) < 0 := by rw [toI32_neg_iff _ hlt]; simpa using hn
                simp only [hnn, hn, if_true, if_false, toI32_toNat _ hn]
                by_cases hfast : ((fixedSize kt : Nat) : Int) > 0 ∧ ((fixedSize vt : Nat) : Int) > 0
                · have hk : 1 ≤ fixedSize kt := by omega
                  have hv : 1 ≤ fixedSize vt := by omega
                  simp only [hfast, and_self, if_true, Int.toNat_natCast]
                  rw [refKV_fixed (fixedSize kt) (fixedSize vt) hk hv _ _
                    (gElem_fixed _ kt hk) (gElem_fixed _ vt hv)]
                  simp only [List.length_drop]
                  by_cases hfit : rd32 rest * (fixedSize kt + fixedSize vt) ≤ rest.length - 4
                  · have : ¬ 6 + rd32 rest * (fixedSize kt + fixedSize vt) > rest.length + 2 := by omega
                    simp [hfit, this, Matches]
                  · have : 6 + rd32 rest * (fixedSize kt + fixedSize vt) > rest.length + 2 := by omega
                    simp [hfit, this, Matches]
                · simp only [hfast, if_false]
                  have hloop := mapLoop_matches (hE (kt :: vt :: rest) kt) (hE (kt :: vt :: rest) vt) (rd32 rest) 6
                  have hd : List.drop 6 (kt :: vt :: rest) = List.drop 4 rest := by simp
                  rw [hd, hlen] at hloop
                  unfold LoopMatches at hloop
                  cases hr : refKV (gElem (refBin d) kt) (gElem (refBin d) vt) (rd32 rest) (List.drop 4 rest) with
                  | none =>
                    rw [hr] at hloop
                    rcases hloop with ⟨e, he⟩ | ⟨j, hj, hjl⟩
                    · simp [he, Matches]
                    · simp [hj, hjl, Matches]
                  | some r =>
                    rw [hr] at hloop
                    have hle := refKV_le (gElem_good hG kt) (gElem_good hG vt) _ _ _ hr
                    simp only [List.length_drop] at hle
                    have : ¬ 6 + r > rest.length + 2 := by omega
                    simp [hloop, this, Matches]
              · have hnn : toI32 (rd32 rest) < 0 := by rw [toI32_neg_iff _ hlt]; exact hn
                simp [hnn, hn, Matches]
        · simp only [hm, if_false]
          by_cases hl : t = TT.LIST ∨ t = TT.SET
          · have hns : t ≠ TT.STRUCT := by
              rcases hl with h | h <;> subst h <;> decide
            simp only [hl, hns, if_true, if_false]
            match b with
            | [] => simp [Matches]
            | et :: rest =>
              have hlen : (et :: rest).length = rest.length + 1 := by simp
              simp only [hlen]
              by_cases h5 : 5 > rest.length + 1
              · have : ¬ 4 ≤ rest.length := by omega
                simp [h5, this, Matches]
              · have h4 : 4 ≤ rest.length := by omega
                have hl0 : load (et :: rest) 0 = .ok et := by simp [load]
                have hl1 : loadI32 (et :: rest) 1 = .ok (toI32 (rd32 rest)) := by
                  rw [loadI32_ok _ 1 (by simp; omega)]; simp
                simp only [h5, if_false, hl0, hl1, Out.bind_ok, h4, true_and]
                have hlt := rd32_lt rest
                by_cases hn : rd32 rest < 2147483648
                · have hnn : ¬ toI32 (rd32 rest) < 0 := by rw [toI32_neg_iff _ hlt]; simpa using hn
                  simp only [hnn, hn, if_true, if_false, toI32_toNat _ hn]
                  by_cases hfast : ((fixedSize et : Nat) : Int) > 0
                  · have hv : 1 ≤ fixedSize et := by omega
                    simp only [hfast, if_true, Int.toNat_natCast]
                    rw [refN_fixed (fixedSize et) hv _ (gElem_fixed _ et hv)]
                    simp only [List.length_drop]
                    by_cases hfit : rd32 rest * fixedSize et ≤ rest.length - 4
                    · have : ¬ 5 + rd32 rest * fixedSize et > rest.length + 1 := by omega
                      simp [hfit, this, Matches]
                    · have : 5 + rd32 rest * fixedSize et > rest.length + 1 := by omega
                      simp [hfit, this, Matches]
                  · simp only [hfast, if_false]
                    have hloop := listLoop_matches (hE (et :: rest) et) (rd32 rest) 5
                    have hd : List.drop 5 (et :: rest) = List.drop 4 rest := by simp
                    rw [hd, hlen] at hloop
                    unfold LoopMatches at hloop
                    have h0e : fixedSize et = 0 := by omega
                    cases hr : refN (gElem (refBin d) et) (rd32 rest) (List.drop 4 rest) with
                    | none =>
                      rw [hr] at hloop
                      -- a variable-size element never overshoots: the loop result is an error
                      rcases hloop with ⟨e, he⟩ | ⟨j, hj, hjl⟩
                      · simp [he, Matches]
                      · have hx := fun i hi => elemExact_of (rec := fun bb i tt => skipBinAt d bb i tt)
                          (f := refBin d) (et :: rest) (fun bb i tt h => ih bb i tt h) et h0e i hi
                        have := listLoop_le hx (gElem_good hG et) (rd32 rest) 5 j (by simp; omega) hj
                        simp at this; omega
                    | some r =>
                      rw [hr] at hloop
                      simp [hloop, Matches]
                · have hnn : toI32 (rd32 rest) < 0 := by rw [toI32_neg_iff _ hlt]; exact hn
                  simp [hnn, hn, Matches]
          · simp only [hl, if_false]
            by_cases hst : t = TT.STRUCT
            · simp only [hst, if_true]
              have := structLoop_matches (fun ft => hE b ft) (b.length + 1) 0 (by omega)
              simpa [Matches] using this
            · have hnm : ¬ t = TT.MAP := hm
              simp [hst, hnm, Matches]

end Verif

namespace Verif

theorem defaultRecursionDepth_eq : Facts.defaultRecursionDepth = 64 := by decide

/-- Binary.Skip, whole function: exact agreement with refBin 64 on every input -/
theorem skipBin_matches (b : Bytes) (t : UInt8) :
    Matches (skipBin b t) (refBin Facts.defaultRecursionDepth t b) := by
  unfold skipBin
  by_cases h0 : b.length = 0
  · have : b = [] := List.eq_nil_of_length_eq_zero h0
    subst this
    simp [good_nil (refBin_good _ t), Matches]
  · simp only [h0, if_false]
    have := skipBinAt_matches Facts.defaultRecursionDepth b 0 t (Nat.zero_le _)
    simpa using this

end Verif

/- Lemmas/Wire: the spec's byte-level printers agree with Base's big-endian codecs; two's complement. -/
import Verif.Model.WireMsg
namespace Verif.Wire

theorem byte_eq (n : Nat) : byte n = UInt8.ofNat n := by
  unfold byte
  apply UInt8.toNat_inj.mp
  simp [UInt8.toNat_ofNat']

theorem u16_eq (n : Nat) : u16 n = be16 n := by
  simp [u16, be16, byte_eq]

theorem u32_eq (n : Nat) : u32 n = be32 n := by
  simp [u32, be32, byte_eq]

theorem u64_eq (n : Nat) : u64 n = be64 n := by
  simp [u64, be64, be32, byte_eq, Nat.div_div_eq_div_mul]

theorem twos8 (v : Int) (h : inI8 v) : twos 8 v = ofInt 8 v := by
  unfold inI8 at h; simp [twos, ofInt]; split <;> omega
theorem twos16 (v : Int) (h : inI16 v) : twos 16 v = ofInt 16 v := by
  unfold inI16 at h; simp [twos, ofInt]; split <;> omega
theorem twos32 (v : Int) (h : inI32 v) : twos 32 v = ofInt 32 v := by
  unfold inI32 at h; simp [twos, ofInt]; split <;> omega
theorem twos64 (v : Int) (h : inI64 v) : twos 64 v = ofInt 64 v := by
  unfold inI64 at h; simp [twos, ofInt]; split <;> omega

end Verif.Wire

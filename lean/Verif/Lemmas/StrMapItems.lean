/-
  Lemmas/StrMapItems: Len / Item(i) — the enumeration Item(0..Len-1) of a loaded map is a
  permutation of the loaded pairs; Item outside [0, Len) panics; the driver's one-pass enumeration
  `itemsAll` is the same list.
-/
import Verif.Lemmas.StrMapLoad
namespace Verif.SMap
open Verif

variable {V : Type}

/-- `Item(0), …, Item(Len()-1)` -/
def enumItems (m : StrMap V) : List (Out LErr (Bytes × V)) :=
  (List.range (len m)).map (fun (i : Nat) => item m (i : Int))

/-- what Item returns for an item record -/
def itemOut (data : Bytes) (e : Item V) : Out LErr (Bytes × V) :=
  match keyAt data e with
  | none => .panic "slice"
  | some k => .ok (k, e.v)

theorem item_of_lt (m : StrMap V) (i : Nat) (h : i < m.items.length) :
    item m (i : Int) = itemOut m.data m.items[i] := by
  unfold item itemOut
  have : ¬ ((i : Int) < 0) := by omega
  simp only [this, if_false, Int.toNat_natCast, List.getElem?_eq_getElem h]
  cases keyAt m.data m.items[i] <;> rfl

theorem item_out_of_range (m : StrMap V) (i : Int) (h : i < 0 ∨ i ≥ len m) :
    item m i = .panic "index" := by
  unfold item
  by_cases hneg : i < 0
  · simp [hneg]
  · simp only [hneg, if_false]
    have : m.items.length ≤ i.toNat := by unfold len at h; omega
    rw [List.getElem?_eq_none this]

theorem enumItems_eq (m : StrMap V) : enumItems m = m.items.map (itemOut m.data) := by
  unfold enumItems len
  apply List.ext_getElem
  · simp
  · intro i h1 h2
    simp only [List.length_map, List.length_range] at h1
    simp only [List.getElem_map, List.getElem_range]
    exact item_of_lt m i h1

theorem keyAtA_eq (data : Bytes) (e : Item V) : keyAtA data.toArray e = keyAt data e := by
  unfold keyAtA keyAt
  simp only [List.size_toArray]
  split
  · rw [Array.toList_extract, List.extract_eq_take_drop]
    simp
  · rfl

theorem itemsAll_eq (m : StrMap V) : itemsAll m = enumItems m := by
  rw [enumItems_eq]
  unfold itemsAll itemOut
  simp only [keyAtA_eq]
  apply List.map_congr_left
  intro e _
  cases keyAt m.data e <;> rfl

/-- the enumeration of a loaded map: every Item call succeeds and the results are a permutation of
    the loaded pairs -/
theorem Loaded.enum {h : Bytes → Nat} {kvs : List (Bytes × V)} {m : StrMap V} (hL : Loaded h kvs m) :
    ∃ l : List (Bytes × V), l.Perm kvs ∧ enumItems m = l.map .ok := by
  refine ⟨m.items.map (fun e => ((keyAt m.data e).getD [], e.v)), ?_, ?_⟩
  · have := hL.perm.map (fun (t : Option Bytes × Nat × V) => (t.1.getD [], t.2.2))
    simpa [List.map_map, Function.comp_def] using this
  · rw [enumItems_eq, List.map_map]
    apply List.map_congr_left
    intro e he
    have hmem : (keyAt m.data e, e.slot, e.v) ∈
        kvs.map (fun kv => (some kv.1, h kv.1 % two32 % m.ht.size, kv.2)) :=
      hL.perm.mem_iff.mp (List.mem_map.mpr ⟨e, he, rfl⟩)
    obtain ⟨kv, _, hkv⟩ := List.mem_map.mp hmem
    injection hkv with h1 _
    simp [itemOut, ← h1]

end Verif.SMap

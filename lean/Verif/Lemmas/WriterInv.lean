/-
  Lemmas/WriterInv: the delayed-copy invariant of the writer model (DESIGN Appendix A, WInv).

  With pending buffers (o₁,ℓ₁)…(o_k,ℓ_k) and current buffer (o, len):
    Chain      ℓ₁ ≤ … ≤ ℓ_k ≤ len
    logical    = o₁[0:ℓ₁] ++ o₂[ℓ₁:ℓ₂] ++ … ++ o[ℓ_k:len]    — what Flush will stitch and write
    Owned      a region (obj, a, n) lies entirely inside the range its object contributes
  Frame lemmas: how `logical` changes under the four kinds of memory writes (caller fill,
  WriteBinary copy, growth = nothing, Flush stitching = nothing).
-/
import Verif.Lemmas.WriterList
namespace Verif
open WLog

/-! ## doubling loops terminate with room for n (fuel n suffices) -/

theorem w_doubleUntil_spec (fuel c n : Nat) (hc : 1 ≤ c) (hf : n ≤ fuel + c) :
    n ≤ doubleUntil fuel c n ∧ c ≤ doubleUntil fuel c n := by
  induction fuel generalizing c with
  | zero => simp only [doubleUntil]; omega
  | succ f ih =>
    simp only [doubleUntil]
    split
    · have := ih (c * 2) (by omega) (by omega); omega
    · omega

theorem growCap_spec (fuel c ri n : Nat) (hc : 1 ≤ c) (hr : ri ≤ c) (hf : n ≤ fuel + (c - ri)) :
    n ≤ growCap fuel c ri n - ri ∧ c ≤ growCap fuel c ri n := by
  induction fuel generalizing c with
  | zero => simp only [growCap]; omega
  | succ f ih =>
    simp only [growCap]
    split
    · have := ih (c * 2) (by omega) (by omega) (by omega); omega
    · omega

/-- mcache's rounding gives at least the requested capacity (below 2^64, where its fuel lasts) -/
theorem pow2ceilAux_ge (fuel x n : Nat) (h : n ≤ x * 2 ^ fuel) : n ≤ pow2ceilAux fuel x n := by
  induction fuel generalizing x with
  | zero => simp only [pow2ceilAux]; simpa using h
  | succ f ih =>
    simp only [pow2ceilAux]
    split
    · assumption
    · apply ih
      rw [Nat.pow_succ] at h
      rw [Nat.mul_assoc, Nat.mul_comm 2]; exact h

theorem pow2ceil_ge (n : Nat) (h : n ≤ 2 ^ 64) : n ≤ pow2ceil n :=
  pow2ceilAux_ge 64 1 n (by simpa using h)

/-! ## the chain of parked lengths, ownership, the logical content -/

/-- lo ≤ ℓ₁ ≤ … ≤ ℓ_k ≤ hi -/
def Chain : Nat → List (Nat × Nat) → Nat → Prop
  | lo, [], hi => lo ≤ hi
  | lo, (_, l) :: ps, hi => lo ≤ l ∧ Chain l ps hi

/-- the region [a, a+n) of object o lies inside the range that o contributes to the flushed bytes:
    [ℓ_{j-1}, ℓ_j) if o is the j-th parked buffer, [ℓ_k, len) if o is the current one -/
def Owned (cur len : Nat) : Nat → List (Nat × Nat) → Nat → Nat → Nat → Prop
  | lo, [], o, a, n => o = cur ∧ lo ≤ a ∧ a + n ≤ len
  | lo, (p, l) :: ps, o, a, n => (o = p ∧ lo ≤ a ∧ a + n ≤ l) ∨ Owned cur len l ps o a n

/-- what Flush will hand to the sink: every parked buffer contributes [ℓ_{j-1}, ℓ_j), the current one the rest -/
def logicalFrom (heap : Nat → Bytes) (cur len : Nat) : Nat → List (Nat × Nat) → Bytes
  | lo, [] => gslice (heap cur) lo len
  | lo, (p, l) :: ps => gslice (heap p) lo l ++ logicalFrom heap cur len l ps

def Wr.logical (w : Wr) : Bytes :=
  match w.buf with
  | none => []
  | some v => logicalFrom w.heap v.obj v.len 0 w.pending

/-- regions in hand-out order are consecutive and disjoint: lo ≤ off₁, off₁+n₁ ≤ off₂, …, ≤ hi -/
def RChain : Nat → List WRegion → Nat → Prop
  | lo, [], hi => lo ≤ hi
  | lo, r :: rs, hi => lo ≤ r.off ∧ RChain (r.off + r.n) rs hi

theorem Chain.le {lo hi : Nat} {ps : List (Nat × Nat)} (h : Chain lo ps hi) : lo ≤ hi := by
  induction ps generalizing lo with
  | nil => exact h
  | cons p ps ih => obtain ⟨p, l⟩ := p; have := ih h.2; have := h.1; omega

theorem Chain.snoc {lo hi : Nat} {ps : List (Nat × Nat)} (h : Chain lo ps hi) (o : Nat) :
    Chain lo (ps ++ [(o, hi)]) hi := by
  induction ps generalizing lo with
  | nil => exact ⟨h, Nat.le_refl _⟩
  | cons p ps ih => obtain ⟨p, l⟩ := p; exact ⟨h.1, ih h.2⟩

theorem Chain.mono {lo hi hi' : Nat} {ps : List (Nat × Nat)} (h : Chain lo ps hi) (hh : hi ≤ hi') :
    Chain lo ps hi' := by
  induction ps generalizing lo with
  | nil => exact Nat.le_trans h hh
  | cons p ps ih => obtain ⟨p, l⟩ := p; exact ⟨h.1, ih h.2⟩

theorem RChain.le {lo hi : Nat} {rs : List WRegion} (h : RChain lo rs hi) : lo ≤ hi := by
  induction rs generalizing lo with
  | nil => exact h
  | cons r rs ih => have := ih h.2; have := h.1; omega

theorem RChain.snoc {lo hi : Nat} {rs : List WRegion} (h : RChain lo rs hi) (id o n : Nat) :
    RChain lo (rs ++ [⟨id, o, hi, n⟩]) (hi + n) := by
  induction rs generalizing lo with
  | nil => exact ⟨h, Nat.le_refl _⟩
  | cons r rs ih => exact ⟨h.1, ih h.2⟩

theorem RChain.mono {lo hi hi' : Nat} {rs : List WRegion} (h : RChain lo rs hi) (hh : hi ≤ hi') :
    RChain lo rs hi' := by
  induction rs generalizing lo with
  | nil => exact Nat.le_trans h hh
  | cons r rs ih => exact ⟨h.1, ih h.2⟩

/-- regions in an `RChain` are pairwise disjoint: an earlier one ends before a later one starts -/
theorem RChain.pairwise {lo hi : Nat} {rs : List WRegion} (h : RChain lo rs hi) :
    rs.Pairwise (fun r s => r.off + r.n ≤ s.off) := by
  induction rs generalizing lo with
  | nil => exact List.Pairwise.nil
  | cons r rs ih =>
    refine List.Pairwise.cons ?_ (ih h.2)
    have aux : ∀ (lo' : Nat) (l : List WRegion), RChain lo' l hi → ∀ s ∈ l, lo' ≤ s.off := by
      intro lo' l
      induction l generalizing lo' with
      | nil => intro _ s hs; cases hs
      | cons t l ih2 =>
        intro hc s hs
        rcases List.mem_cons.mp hs with rfl | hs
        · exact hc.1
        · have := ih2 _ hc.2 s hs; have := hc.1; omega
    exact aux _ _ h.2

/-- a region that is owned lies above `lo`, inside the written length, and its object is a buffer -/
theorem Owned.bounds {cur len lo : Nat} {ps : List (Nat × Nat)} {o a n : Nat}
    (h : Owned cur len lo ps o a n) (hc : Chain lo ps len) :
    lo ≤ a ∧ a + n ≤ len ∧ (o = cur ∨ o ∈ ps.map Prod.fst) := by
  induction ps generalizing lo with
  | nil => exact ⟨h.2.1, h.2.2, Or.inl h.1⟩
  | cons p ps ih =>
    obtain ⟨p, l⟩ := p
    rcases h with ⟨h1, h2, h3⟩ | h
    · have := hc.2.le
      exact ⟨h2, by omega, Or.inr (by simp [h1])⟩
    · obtain ⟨i1, i2, i3⟩ := ih h hc.2
      have := hc.1
      refine ⟨by omega, i2, ?_⟩
      rcases i3 with i3 | i3
      · exact Or.inl i3
      · exact Or.inr (by simp only [List.map_cons, List.mem_cons]; exact Or.inr i3)

theorem Owned.snoc {cur len lo : Nat} {ps : List (Nat × Nat)} {o a n : Nat}
    (h : Owned cur len lo ps o a n) (cur' : Nat) :
    Owned cur' len lo (ps ++ [(cur, len)]) o a n := by
  induction ps generalizing lo with
  | nil => exact Or.inl h
  | cons p ps ih =>
    obtain ⟨p, l⟩ := p
    rcases h with h | h
    · exact Or.inl h
    · exact Or.inr (ih h)

theorem Owned.mono {cur len len' lo : Nat} {ps : List (Nat × Nat)} {o a n : Nat}
    (h : Owned cur len lo ps o a n) (hh : len ≤ len') : Owned cur len' lo ps o a n := by
  induction ps generalizing lo with
  | nil => exact ⟨h.1, h.2.1, by have := h.2.2; omega⟩
  | cons p ps ih =>
    obtain ⟨p, l⟩ := p
    rcases h with h | h
    · exact Or.inl h
    · exact Or.inr (ih h)

/-- the region Malloc hands out at the end of the current buffer is owned -/
theorem Owned.last {cur len lo : Nat} {ps : List (Nat × Nat)} (hc : Chain lo ps len) (n : Nat) :
    Owned cur (len + n) lo ps cur len n := by
  induction ps generalizing lo with
  | nil => exact ⟨rfl, hc, Nat.le_refl _⟩
  | cons p ps ih => obtain ⟨p, l⟩ := p; exact Or.inr (ih hc.2)

/-! ## logical content: length and congruence -/

theorem length_logicalFrom (heap : Nat → Bytes) (cur len lo : Nat) (ps : List (Nat × Nat))
    (hc : Chain lo ps len) (hl : ∀ p ∈ ps, p.2 ≤ (heap p.1).length) (hcur : len ≤ (heap cur).length) :
    (logicalFrom heap cur len lo ps).length = len - lo := by
  induction ps generalizing lo with
  | nil => simp only [logicalFrom]; exact length_gslice _ _ _ hcur
  | cons p ps ih =>
    obtain ⟨p, l⟩ := p
    simp only [logicalFrom, List.length_append]
    rw [ih _ hc.2 (fun q hq => hl q (List.mem_cons_of_mem _ hq)),
      length_gslice _ _ _ (hl (p, l) (List.mem_cons_self ..))]
    have := hc.1; have := hc.2.le; omega

/-- `logical` only reads the current object and the parked objects -/
theorem logicalFrom_congr (heap heap' : Nat → Bytes) (cur len lo : Nat) (ps : List (Nat × Nat))
    (hcur : heap' cur = heap cur) (hp : ∀ p ∈ ps, heap' p.1 = heap p.1) :
    logicalFrom heap' cur len lo ps = logicalFrom heap cur len lo ps := by
  induction ps generalizing lo with
  | nil => simp only [logicalFrom, hcur]
  | cons p ps ih =>
    obtain ⟨p, l⟩ := p
    simp only [logicalFrom]
    rw [ih _ (fun q hq => hp q (List.mem_cons_of_mem _ hq)), hp (p, l) (List.mem_cons_self ..)]

/-! ## frame lemmas -/

/-- a store into the current object below `lo` (Flush stitching) is invisible above `lo` -/
theorem logicalFrom_write_below (heap : Nat → Bytes) (cur len lo : Nat) (ps : List (Nat × Nat))
    (x : Nat) (bs : Bytes) (hx : x + bs.length ≤ lo) (hc : Chain lo ps len)
    (hcur : len ≤ (heap cur).length) (hne : ∀ p ∈ ps, p.1 ≠ cur) :
    logicalFrom (hwrite heap cur x bs) cur len lo ps = logicalFrom heap cur len lo ps := by
  induction ps generalizing lo with
  | nil =>
    simp only [logicalFrom, hwrite_same]
    exact gslice_overwrite_out _ _ _ _ _ (Or.inl hx) (by have := hc; simp only [Chain] at this; omega)
  | cons p ps ih =>
    obtain ⟨p, l⟩ := p
    simp only [logicalFrom]
    rw [ih _ (by have := hc.1; omega) hc.2 (fun q hq => hne q (List.mem_cons_of_mem _ hq)),
      hwrite_other _ _ _ _ _ (hne (p, l) (List.mem_cons_self ..))]

/-- THE frame lemma of the delayed copy: a store inside an owned region shows up in the logical
    content at the same offset (logical position = buffer offset), and nowhere else -/
theorem logicalFrom_fill (heap : Nat → Bytes) (cur len lo : Nat) (ps : List (Nat × Nat))
    (o a n x : Nat) (bs : Bytes)
    (hown : Owned cur len lo ps o a n) (hx1 : a ≤ x) (hx2 : x + bs.length ≤ a + n)
    (hc : Chain lo ps len) (hcur : len ≤ (heap cur).length)
    (hl : ∀ p ∈ ps, p.2 ≤ (heap p.1).length)
    (hne : ∀ p ∈ ps, p.1 ≠ cur) (hnd : (ps.map Prod.fst).Nodup) :
    logicalFrom (hwrite heap o x bs) cur len lo ps
      = overwrite (logicalFrom heap cur len lo ps) (x - lo) bs := by
  induction ps generalizing lo with
  | nil =>
    obtain ⟨h1, h2, h3⟩ := hown
    subst h1
    simp only [logicalFrom, hwrite_same]
    exact gslice_overwrite_in _ _ _ _ _ (by omega) (by omega) hcur
  | cons p ps ih =>
    obtain ⟨p, l⟩ := p
    have hpl := hl (p, l) (List.mem_cons_self ..)
    have hnd' : (ps.map Prod.fst).Nodup := (List.nodup_cons.mp (by simpa using hnd)).2
    have hpn : p ∉ ps.map Prod.fst := (List.nodup_cons.mp (by simpa using hnd)).1
    have hlo := hc.1
    simp only [logicalFrom]
    rcases hown with ⟨h1, h2, h3⟩ | hown
    · -- the region lives in the parked buffer p: only p's segment changes
      subst h1
      rw [hwrite_same, gslice_overwrite_in _ _ _ _ _ (by omega) (by omega) hpl]
      rw [logicalFrom_congr heap (hwrite heap o x bs) cur len l ps
        (hwrite_other _ _ _ _ _ (fun e => hne (o, l) (List.mem_cons_self ..) e.symm))
        (fun q hq => hwrite_other _ _ _ _ _ (fun e => hpn (e ▸ List.mem_map_of_mem hq)))]
      rw [overwrite_append_left _ _ _ _ (by rw [length_gslice _ _ _ hpl]; omega)]
    · -- the region lives further right: p's segment is untouched
      obtain ⟨b1, b2, b3⟩ := hown.bounds hc.2
      have hop : o ≠ p := by
        rcases b3 with b3 | b3
        · rw [b3]; exact fun e => hne (p, l) (List.mem_cons_self ..) e.symm
        · exact fun e => hpn (e ▸ b3)
      rw [hwrite_other _ _ _ _ _ (Ne.symm hop),
        ih _ hown hc.2 (fun q hq => hl q (List.mem_cons_of_mem _ hq))
          (fun q hq => hne q (List.mem_cons_of_mem _ hq)) hnd']
      have hlen : (gslice (heap p) lo l).length = l - lo := length_gslice _ _ _ hpl
      have hll : (logicalFrom heap cur len l ps).length = len - l :=
        length_logicalFrom _ _ _ _ _ hc.2 (fun q hq => hl q (List.mem_cons_of_mem _ hq)) hcur
      have : x - lo = (gslice (heap p) lo l).length + (x - l) := by rw [hlen]; omega
      rw [this, overwrite_append_right _ _ _ _ (by rw [hll]; omega)]

/-- growth: the old buffer is parked, the new one is fresh — the logical content does not change -/
theorem logicalFrom_grow (heap heap' : Nat → Bytes) (cur len lo nw : Nat) (ps : List (Nat × Nat))
    (hh : ∀ i, i ≠ nw → heap' i = heap i) (hcur : cur ≠ nw) (hp : ∀ p ∈ ps, p.1 ≠ nw) :
    logicalFrom heap' nw len lo (ps ++ [(cur, len)]) = logicalFrom heap cur len lo ps := by
  induction ps generalizing lo with
  | nil =>
    simp only [List.nil_append, logicalFrom]
    rw [hh _ hcur, gslice_empty _ _ _ (Nat.le_refl _), List.append_nil]
  | cons p ps ih =>
    obtain ⟨p, l⟩ := p
    simp only [List.cons_append, logicalFrom]
    rw [ih _ (fun q hq => hp q (List.mem_cons_of_mem _ hq)), hh _ (hp (p, l) (List.mem_cons_self ..))]

/-- Malloc: the written length grows by n; the new bytes are whatever the current object holds there -/
theorem logicalFrom_extend (heap : Nat → Bytes) (cur len lo n : Nat) (ps : List (Nat × Nat))
    (hc : Chain lo ps len) (hcur : len + n ≤ (heap cur).length) :
    logicalFrom heap cur (len + n) lo ps
      = logicalFrom heap cur len lo ps ++ gslice (heap cur) len (len + n) := by
  induction ps generalizing lo with
  | nil =>
    simp only [logicalFrom]
    exact gslice_split _ _ _ _ hc (by omega) hcur
  | cons p ps ih =>
    obtain ⟨p, l⟩ := p
    simp only [logicalFrom]
    rw [ih _ hc.2, List.append_assoc]

/-- WriteBinary: the copy lands right after the written length -/
theorem logicalFrom_append (heap : Nat → Bytes) (cur len lo : Nat) (ps : List (Nat × Nat)) (bs : Bytes)
    (hc : Chain lo ps len) (hcur : len + bs.length ≤ (heap cur).length) (hne : ∀ p ∈ ps, p.1 ≠ cur) :
    logicalFrom (hwrite heap cur len bs) cur (len + bs.length) lo ps
      = logicalFrom heap cur len lo ps ++ bs := by
  have hlen : ((hwrite heap cur len bs) cur).length = (heap cur).length := by
    rw [hwrite_same, length_overwrite _ _ _ hcur]
  rw [logicalFrom_extend _ _ _ _ _ _ hc (by rw [hlen]; exact hcur)]
  congr 1
  · -- the old part is untouched: the copy is above len
    clear hlen
    induction ps generalizing lo with
    | nil =>
      simp only [logicalFrom, hwrite_same]
      exact gslice_overwrite_out _ _ _ _ _ (Or.inr (Nat.le_refl _)) hcur
    | cons p ps ih =>
      obtain ⟨p, l⟩ := p
      simp only [logicalFrom]
      rw [ih _ hc.2 (fun q hq => hne q (List.mem_cons_of_mem _ hq)),
        hwrite_other _ _ _ _ _ (hne (p, l) (List.mem_cons_self ..))]
  · rw [hwrite_same]; exact gslice_overwrite_exact _ _ _ hcur

end Verif

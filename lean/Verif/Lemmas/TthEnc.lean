/-
  Lemmas/TthEnc: the model's Encode on a healthy writer, in closed form.
    W.app / put_app      the writer log after handing out items; filling an earlier region changes only it
    Wrote                every writer helper advances the size by exactly the bytes it appended
    encode_raw           Encode = size error, or meta region ++ `rawInfo p` ++ zero padding, where `rawInfo`
                         is the printer WITH the encoder's 16-bit truncations (removed in Lemmas/TthRt)
-/
import Verif.Model.TTHeader
import Verif.Spec.Frame
namespace Verif.TTH

/-- the writer after handing out the items `l` (in this order) -/
def W.app (w : W) (l : List Bytes) : W := { w with items := l.reverse ++ w.items, n := w.n + l.length }

@[simp] theorem W.app_broken (w : W) (l : List Bytes) : (w.app l).broken = w.broken := rfl
@[simp] theorem W.app_n (w : W) (l : List Bytes) : (w.app l).n = w.n + l.length := rfl
@[simp] theorem W.app_dirt (w : W) (l : List Bytes) : (w.app l).dirt = w.dirt := rfl

theorem W.app_app (w : W) (l1 l2 : List Bytes) : (w.app l1).app l2 = w.app (l1 ++ l2) := by
  simp [W.app, Nat.add_assoc]

@[simp] theorem W.app_nil (w : W) : w.app [] = w := by simp [W.app]

theorem W.bytes_app (w : W) (l : List Bytes) : (w.app l).bytes = w.bytes ++ l.flatten := by
  simp [W.app, W.bytes]

/-- overwrite `v` at offset `off` -/
def poke (r : Bytes) (off : Nat) (v : Bytes) : Bytes := r.take off ++ v ++ r.drop (off + v.length)

@[simp] theorem poke_length (r : Bytes) (off : Nat) (v : Bytes) (h : off + v.length ≤ r.length) :
    (poke r off v).length = r.length := by
  simp [poke]; omega

/-- filling a region handed out earlier: only that item changes -/
theorem put_app (w : W) (r : Bytes) (l : List Bytes) (off : Nat) (v : Bytes) (h : off + v.length ≤ r.length) :
    ((w.app [r]).app l).put w.n off v = .ok ((w.app [poke r off v]).app l) := by
  unfold W.put
  have h1 : ¬ (w.n ≥ ((w.app [r]).app l).n) := by simp; omega
  have h2 : ((w.app [r]).app l).n - 1 - w.n = l.length := by simp
  have h3 : ((w.app [r]).app l).items = l.reverse ++ (r :: w.items) := by simp [W.app]
  simp only [h1, if_false, h2, h3]
  have h4 : (l.reverse ++ (r :: w.items))[l.length]? = some r := by
    rw [List.getElem?_append_right (by simp)]; simp
  simp only [h4]
  have h5 : ¬ (off + v.length > r.length) := by omega
  simp only [h5, if_false]
  congr 1
  simp only [W.app, poke]
  congr 1
  have : l.length = l.reverse.length := by simp
  rw [this, List.set_append_right _ _ (Nat.le_refl _)]
  simp

theorem malloc_ok (w : W) (hb : w.broken = false) (k : Nat) :
    w.malloc k = .ok (w.n, w.app [(List.range k).map (w.dirt w.n)]) := by
  simp [W.malloc, hb, W.app]

theorem writeBinary_ok (w : W) (hb : w.broken = false) (bs : Bytes) :
    w.writeBinary bs = .ok (bs.length, w.app [bs]) := by
  simp [W.writeBinary, hb, W.app]

/-- Malloc(k) followed by filling all k bytes -/
theorem malloc_fill (w : W) (hb : w.broken = false) (v : Bytes) :
    (w.malloc v.length).bind (fun r => r.2.put r.1 0 v) = .ok (w.app [v]) := by
  rw [malloc_ok w hb]
  simp only [Out.bind_ok]
  have := put_app w ((List.range v.length).map (w.dirt w.n)) [] 0 v (by simp)
  simp only [W.app_nil] at this
  rw [this]
  have hd : List.drop v.length ((List.range v.length).map (w.dirt w.n)) = [] := by
    apply List.drop_eq_nil_of_le; simp
  simp [poke, hd]

theorem writeByte_ok (w : W) (hb : w.broken = false) (v : Nat) : writeByte w v = .ok (w.app [[UInt8.ofNat v]]) :=
  malloc_fill w hb [UInt8.ofNat v]

theorem writeU16_ok (w : W) (hb : w.broken = false) (v : Nat) : writeU16 w v = .ok (w.app [be16 v]) :=
  malloc_fill w hb (be16 v)

/-- a length-prefixed string as the encoder writes it: the length is truncated to 16 bits -/
def rawStr2 (s : Bytes) : Bytes := be16 (s.length % 65536) ++ s

theorem writeStr2_ok (w : W) (hb : w.broken = false) (s : Bytes) :
    writeStr2 w s = .ok (s.length + 2, w.app [be16 (s.length % 65536), s]) := by
  unfold writeStr2
  rw [writeU16_ok w hb]
  simp only [Out.bind_ok]
  rw [writeBinary_ok _ (by simpa using hb)]
  simp [W.app_app]

theorem broken_err (w : W) (hb : w.broken = true) (k : Nat) : w.malloc k = .err .writer := by
  simp [W.malloc, hb]

/-! ### what the encoder writes (with the 16-bit truncations it performs) -/

def rawStrKV (kv : Bytes × Bytes) : Bytes := if kv.1 = gdprKey then [] else rawStr2 kv.1 ++ rawStr2 kv.2
def rawIntKV (kv : Nat × Bytes) : Bytes := be16 kv.1 ++ rawStr2 kv.2

/-- `strKVSize` after the token has been taken out -/
def strCount (strKV : StrMap) : Int :=
  match strKV.lookup gdprKey with
  | some _ => (strKV.length : Int) - 1
  | none => (strKV.length : Int)

def rawAcl (strKV : StrMap) : Bytes :=
  match strKV.lookup gdprKey with
  | some t => UInt8.ofNat Facts.ttInfoACLToken :: rawStr2 t
  | none => []

def rawStrSec (strKV : StrMap) : Bytes :=
  if strCount strKV > 0 then
    UInt8.ofNat Facts.ttInfoKeyValue :: (be16 (u16OfInt (strCount strKV)) ++ strKV.flatMap rawStrKV)
  else []

def rawIntSec (intKV : IntMap) : Bytes :=
  if (intKV.length : Int) > 0 then
    UInt8.ofNat Facts.ttInfoIntKeyValue :: (be16 (u16OfInt intKV.length) ++ intKV.flatMap rawIntKV)
  else []

def rawInfo (p : EncParam) : Bytes :=
  [UInt8.ofNat p.proto, 0] ++ rawAcl p.strKV ++ rawStrSec p.strKV ++ rawIntSec p.intKV

/-- "the call returned the size advanced by exactly the bytes it appended to the log" -/
def Wrote (res : Out EErr (Nat × W)) (sz : Nat) (w : W) (bytes : Bytes) : Prop :=
  ∃ L, res = .ok (sz + bytes.length, w.app L) ∧ L.flatten = bytes

theorem writeStrKVs_wrote : ∀ (kvs : StrMap) (sz : Nat) (w : W), w.broken = false →
    Wrote (writeStrKVs kvs sz w) sz w (kvs.flatMap rawStrKV) := by
  intro kvs
  induction kvs with
  | nil => intro sz w _; exact ⟨[], by simp [writeStrKVs], rfl⟩
  | cons kv rest ih =>
    intro sz w hb
    simp only [writeStrKVs, List.flatMap_cons, rawStrKV]
    by_cases hk : kv.1 = gdprKey
    · simp only [hk, if_true, List.nil_append]
      exact ih sz w hb
    · simp only [hk, if_false]
      rw [writeStr2_ok w hb]
      simp only [Out.bind_ok]
      rw [writeStr2_ok _ (by simpa using hb)]
      simp only [Out.bind_ok, W.app_app]
      obtain ⟨L, h1, h2⟩ := ih (sz + (kv.1.length + 2) + (kv.2.length + 2))
        (w.app ([be16 (kv.1.length % 65536), kv.1] ++ [be16 (kv.2.length % 65536), kv.2])) (by simpa using hb)
      refine ⟨[be16 (kv.1.length % 65536), kv.1, be16 (kv.2.length % 65536), kv.2] ++ L, ?_, ?_⟩
      · rw [h1, W.app_app]
        congr 2
        · simp [rawStr2]; omega
      · simp [h2, rawStr2]

theorem writeIntKVs_wrote : ∀ (kvs : IntMap) (sz : Nat) (w : W), w.broken = false →
    Wrote (writeIntKVs kvs sz w) sz w (kvs.flatMap rawIntKV) := by
  intro kvs
  induction kvs with
  | nil => intro sz w _; exact ⟨[], by simp [writeIntKVs], rfl⟩
  | cons kv rest ih =>
    intro sz w hb
    simp only [writeIntKVs, List.flatMap_cons, rawIntKV]
    rw [writeU16_ok w hb]
    simp only [Out.bind_ok]
    rw [writeStr2_ok _ (by simpa using hb)]
    simp only [Out.bind_ok, W.app_app]
    obtain ⟨L, h1, h2⟩ := ih (sz + 2 + (kv.2.length + 2))
      (w.app ([be16 kv.1] ++ [be16 (kv.2.length % 65536), kv.2])) (by simpa using hb)
    refine ⟨[be16 kv.1, be16 (kv.2.length % 65536), kv.2] ++ L, ?_, ?_⟩
    · rw [h1, W.app_app]
      congr 2
      · simp [rawStr2]; omega
    · simp [h2, rawStr2]

theorem Wrote.broken {res sz w bytes} (h : Wrote res sz w bytes) : ∃ x, res = .ok x ∧ x.2.broken = w.broken := by
  obtain ⟨L, h1, _⟩ := h; exact ⟨_, h1, rfl⟩

theorem writeACL_wrote (sz : Nat) (strKV : StrMap) (w : W) (hb : w.broken = false) :
    ∃ L, writeACL sz strKV w = .ok (strCount strKV, sz + (rawAcl strKV).length, w.app L) ∧
      L.flatten = rawAcl strKV := by
  unfold writeACL strCount rawAcl
  cases h : strKV.lookup gdprKey with
  | none => exact ⟨[], by simp, rfl⟩
  | some tok =>
    simp only
    rw [writeByte_ok w hb]
    simp only [Out.bind_ok]
    rw [writeStr2_ok _ (by simpa using hb)]
    simp only [Out.bind_ok, W.app_app]
    refine ⟨[[UInt8.ofNat Facts.ttInfoACLToken], be16 (tok.length % 65536), tok], ?_, ?_⟩
    · congr 3
      simp [rawStr2]; omega
    · simp [rawStr2]

theorem writeStrSection_wrote (sz : Nat) (strKV : StrMap) (w : W) (hb : w.broken = false) :
    Wrote (writeStrSection (strCount strKV) sz strKV w) sz w (rawStrSec strKV) := by
  unfold writeStrSection rawStrSec
  by_cases h : strCount strKV > 0
  · simp only [h, if_true]
    rw [writeByte_ok w hb]
    simp only [Out.bind_ok]
    rw [writeU16_ok _ (by simpa using hb)]
    simp only [Out.bind_ok, W.app_app]
    obtain ⟨L, h1, h2⟩ := writeStrKVs_wrote strKV (sz + 3)
      (w.app ([[UInt8.ofNat Facts.ttInfoKeyValue]] ++ [be16 (u16OfInt (strCount strKV))])) (by simpa using hb)
    refine ⟨[[UInt8.ofNat Facts.ttInfoKeyValue], be16 (u16OfInt (strCount strKV))] ++ L, ?_, ?_⟩
    · rw [h1, W.app_app]
      congr 2
      · simp; omega
    · simp [h2]
  · simp only [h, if_false]
    exact ⟨[], by simp, rfl⟩

theorem writeIntSection_wrote (sz : Nat) (intKV : IntMap) (w : W) (hb : w.broken = false) :
    Wrote (writeIntSection sz intKV w) sz w (rawIntSec intKV) := by
  unfold writeIntSection rawIntSec
  by_cases h : (intKV.length : Int) > 0
  · simp only [h, if_true]
    rw [writeByte_ok w hb]
    simp only [Out.bind_ok]
    rw [writeU16_ok _ (by simpa using hb)]
    simp only [Out.bind_ok, W.app_app]
    obtain ⟨L, h1, h2⟩ := writeIntKVs_wrote intKV (sz + 3)
      (w.app ([[UInt8.ofNat Facts.ttInfoIntKeyValue]] ++ [be16 (u16OfInt intKV.length)])) (by simpa using hb)
    refine ⟨[[UInt8.ofNat Facts.ttInfoIntKeyValue], be16 (u16OfInt intKV.length)] ++ L, ?_, ?_⟩
    · rw [h1, W.app_app]
      congr 2
      · simp; omega
    · simp [h2]
  · simp only [h, if_false]
    exact ⟨[], by simp, rfl⟩

theorem writePadding_wrote (sz : Nat) (w : W) (hb : w.broken = false) :
    Wrote (writePadding sz w) sz w (List.replicate ((4 - sz % 4) % 4) 0) := by
  unfold writePadding
  simp only
  rw [malloc_ok w hb]
  simp only [Out.bind_ok]
  have := put_app w ((List.range ((4 - sz % 4) % 4)).map (w.dirt w.n)) [] 0 (List.replicate ((4 - sz % 4) % 4) 0)
    (by simp)
  simp only [W.app_nil] at this
  rw [this]
  simp only [Out.bind_ok]
  refine ⟨[List.replicate ((4 - sz % 4) % 4) 0], ?_, by simp⟩
  have hd : List.drop ((4 - sz % 4) % 4) ((List.range ((4 - sz % 4) % 4)).map (w.dirt w.n)) = [] := by
    apply List.drop_eq_nil_of_le; simp
  simp [poke, hd]

theorem writeKVInfo_wrote (sz : Nat) (intKV : IntMap) (strKV : StrMap) (w : W) (hb : w.broken = false) :
    Wrote (writeKVInfo sz intKV strKV w) sz w
      (rawAcl strKV ++ rawStrSec strKV ++ rawIntSec intKV ++
        List.replicate ((4 - (sz + (rawAcl strKV ++ rawStrSec strKV ++ rawIntSec intKV).length) % 4) % 4) 0) := by
  unfold writeKVInfo
  obtain ⟨L1, h1, f1⟩ := writeACL_wrote sz strKV w hb
  rw [h1]
  simp only [Out.bind_ok]
  obtain ⟨L2, h2, f2⟩ := writeStrSection_wrote (sz + (rawAcl strKV).length) strKV (w.app L1) (by simpa using hb)
  rw [h2]
  simp only [Out.bind_ok, W.app_app]
  obtain ⟨L3, h3, f3⟩ := writeIntSection_wrote (sz + (rawAcl strKV).length + (rawStrSec strKV).length) intKV
    (w.app (L1 ++ L2)) (by simpa using hb)
  rw [h3]
  simp only [Out.bind_ok, W.app_app]
  obtain ⟨L4, h4, f4⟩ := writePadding_wrote
    (sz + (rawAcl strKV).length + (rawStrSec strKV).length + (rawIntSec intKV).length)
    (w.app (L1 ++ L2 ++ L3)) (by simpa using hb)
  rw [h4]
  have e : sz + (rawAcl strKV).length + (rawStrSec strKV).length + (rawIntSec intKV).length
      = sz + (rawAcl strKV ++ rawStrSec strKV ++ rawIntSec intKV).length := by
    simp only [List.length_append]; omega
  refine ⟨L1 ++ L2 ++ L3 ++ L4, ?_, ?_⟩
  · rw [W.app_app]
    congr 2
    simp only [List.length_append, List.length_replicate]; omega
  · simp only [List.flatten_append, f1, f2, f3, f4, e]

/-- the 14 meta bytes Encode leaves behind: the caller's length field (whatever the fresh memory held),
    magic + flags, sequence id, size/4 -/
def metaBytes (p : EncParam) (w : W) (sz : Nat) : Bytes :=
  ((List.range 14).map (w.dirt w.n)).take 4 ++ be32 ((Facts.ttMagic + p.flags) % 4294967296)
    ++ be32 (ofInt 32 p.seq) ++ be16 ((sz / 4) % 65536)

/-- header info size as Go computes it: the bytes written, padded to a multiple of 4 -/
def rawSize (p : EncParam) : Nat := (rawInfo p).length + (4 - (rawInfo p).length % 4) % 4

theorem put_app' (w : W) (r : Bytes) (l : List Bytes) (off : Nat) (v : Bytes) (h : off + v.length ≤ r.length) :
    (w.app (r :: l)).put w.n off v = .ok (w.app (poke r off v :: l)) := by
  have := put_app w r l off v h
  simpa [W.app_app] using this

/-- Encode on a healthy writer, in terms of the raw printer -/
theorem encode_raw (p : EncParam) (w : W) (hb : w.broken = false) :
    if rawSize p % 2 ^ Facts.ttEncodeSizeCheckBits > Facts.ttMaxHeaderSize then encode p w = .err .size
    else ∃ L, encode p w = .ok (w.n, w.app (metaBytes p w (rawSize p) :: L)) ∧
      L.flatten = rawInfo p ++ List.replicate ((4 - (rawInfo p).length % 4) % 4) 0 := by
  unfold encode
  simp only [Facts.ttMetaSize]
  rw [malloc_ok w hb]
  simp only [Out.bind_ok]
  have hD : ((List.range 14).map (w.dirt w.n)).length = 14 := by simp
  rw [put_app' w _ [] 4 (be32 ((Facts.ttMagic + p.flags) % 4294967296)) (by simp)]
  simp only [Out.bind_ok]
  rw [put_app' w _ [] 8 (be32 (ofInt 32 p.seq)) (by rw [poke_length _ _ _ (by simp)]; simp)]
  simp only [Out.bind_ok]
  rw [writeByte_ok _ (by simpa using hb)]
  simp only [Out.bind_ok]
  rw [writeByte_ok _ (by simpa using hb)]
  simp only [Out.bind_ok, W.app_app, List.cons_append, List.nil_append]
  obtain ⟨L, h1, f1⟩ := writeKVInfo_wrote 2 p.intKV p.strKV
    (w.app [poke (poke ((List.range 14).map (w.dirt w.n)) 4 (be32 ((Facts.ttMagic + p.flags) % 4294967296))) 8
      (be32 (ofInt 32 p.seq)), [UInt8.ofNat p.proto], [UInt8.ofNat 0]]) (by simpa using hb)
  rw [h1]
  simp only [Out.bind_ok]
  have hlen : (rawInfo p).length = 2 + (rawAcl p.strKV ++ rawStrSec p.strKV ++ rawIntSec p.intKV).length := by
    simp only [rawInfo, List.length_append, List.length_cons, List.length_nil]; omega
  have hsz : 2 + (rawAcl p.strKV ++ rawStrSec p.strKV ++ rawIntSec p.intKV ++
        List.replicate ((4 - (2 + (rawAcl p.strKV ++ rawStrSec p.strKV ++ rawIntSec p.intKV).length) % 4) % 4) 0).length
      = rawSize p := by
    simp only [rawSize, hlen, List.length_append, List.length_replicate]; omega
  rw [hsz]
  by_cases hbig : rawSize p % 2 ^ Facts.ttEncodeSizeCheckBits > Facts.ttMaxHeaderSize
  · simp only [hbig, if_true]
  · simp only [hbig, if_false, W.app_app, List.cons_append, List.nil_append]
    rw [put_app' w _ _ 12 (be16 ((rawSize p / 4) % 65536))
      (by rw [poke_length _ _ _ (by rw [poke_length _ _ _ (by simp)]; simp), poke_length _ _ _ (by simp)]; simp)]
    simp only [Out.bind_ok]
    refine ⟨[UInt8.ofNat p.proto] :: [UInt8.ofNat 0] :: L, ?_, ?_⟩
    · congr 3
    · have e : (4 - (2 + (rawAcl p.strKV ++ rawStrSec p.strKV ++ rawIntSec p.intKV).length) % 4) % 4
          = (4 - (rawInfo p).length % 4) % 4 := by rw [hlen]
      simp only [List.flatten_cons, f1, e]
      simp [rawInfo]

end Verif.TTH

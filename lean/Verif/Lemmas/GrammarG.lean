/-
  Lemmas/GrammarG: a generalised grammar layer with separate measures for struct fields (F), list/set
  elements (L) and map keys/values (K, V — which may look at both type bytes), used to express the
  acceptance disciplines of the stream skipper (BufferReader.Skip) and of SkipDecoderTpl exactly;
  each is sandwiched between refLen d and refLen (d+1).
-/
import Verif.Lemmas.Grammar
namespace Verif

/-- list/set body: element type, 4-byte count < 2^31, elements measured by L -/
def listBody (L : UInt8 → Bytes → Option Nat) (b : Bytes) : Option Nat :=
  match b with
  | et :: rest =>
    if 4 ≤ rest.length ∧ rd32 rest < 2147483648 then
      (refN (L et) (rd32 rest) (rest.drop 4)).map (5 + ·)
    else none
  | [] => none

/-- map body: key type, value type, 4-byte count < 2^31, pairs measured by K and V -/
def mapBody (K V : UInt8 → UInt8 → Bytes → Option Nat) (b : Bytes) : Option Nat :=
  match b with
  | kt :: vt :: rest =>
    if 4 ≤ rest.length ∧ rd32 rest < 2147483648 then
      (refKV (K kt vt) (V kt vt) (rd32 rest) (rest.drop 4)).map (6 + ·)
    else none
  | _ => none

def layerG (F L : UInt8 → Bytes → Option Nat) (K V : UInt8 → UInt8 → Bytes → Option Nat)
    (t : UInt8) (b : Bytes) : Option Nat :=
  if fixedSize t > 0 then
    if fixedSize t ≤ b.length then some (fixedSize t) else none
  else if t = TT.STRING then refStr b
  else if t = TT.STRUCT then refFields F (b.length + 1) b
  else if t = TT.LIST ∨ t = TT.SET then listBody L b
  else if t = TT.MAP then mapBody K V b
  else none

theorem layer_eq_layerG (E : UInt8 → Bytes → Option Nat) (t : UInt8) (b : Bytes) :
    layer E t b = layerG E E (fun kt _ => E kt) (fun _ vt => E vt) t b := by
  unfold layer layerG listBody mapBody
  split
  · rfl
  · split
    · rfl
    · split
      · rfl
      · split
        · cases b <;> rfl
        · split
          · match b with
            | [] => rfl
            | [_] => rfl
            | _ :: _ :: _ => rfl
          · rfl

theorem layerG_mono {F L F' L' : UInt8 → Bytes → Option Nat} {K V K' V' : UInt8 → UInt8 → Bytes → Option Nat}
    (hF : ∀ t, LeF (F t) (F' t)) (hL : ∀ t, LeF (L t) (L' t))
    (hK : ∀ k v, LeF (K k v) (K' k v)) (hV : ∀ k v, LeF (V k v) (V' k v)) (t : UInt8) :
    LeF (layerG F L K V t) (layerG F' L' K' V' t) := by
  intro b n hb
  unfold layerG listBody mapBody at hb ⊢
  split
  · rename_i hf; simpa [hf] using hb
  · rename_i hf
    simp only [hf, if_false] at hb
    split
    · rename_i hs; simpa [hs] using hb
    · rename_i hs
      simp only [hs, if_false] at hb
      split
      · rename_i hst
        simp only [hst, if_true] at hb
        exact refFields_mono hF _ b n hb
      · rename_i hst
        simp only [hst, if_false] at hb
        split
        · rename_i hl
          simp only [hl, if_true] at hb
          cases b with
          | nil => simp at hb
          | cons et rest =>
            simp only at hb ⊢
            split
            · rename_i hc
              simp only [hc] at hb
              cases hr : refN (L et) (rd32 rest) (rest.drop 4) with
              | none => simp [hr] at hb
              | some r =>
                simp [hr] at hb
                simp [refN_mono (hL et) _ _ _ hr, hb]
            · rename_i hc; simp [hc] at hb
        · rename_i hl
          simp only [hl, if_false] at hb
          split
          · rename_i hm
            simp only [hm, if_true] at hb
            match b, hb with
            | [], hb => simp at hb
            | [_], hb => simp at hb
            | kt :: vt :: rest, hb =>
              simp only at hb ⊢
              split
              · rename_i hc
                simp only [hc] at hb
                cases hr : refKV (K kt vt) (V kt vt) (rd32 rest) (rest.drop 4) with
                | none => simp [hr] at hb
                | some r =>
                  simp [hr] at hb
                  simp [refKV_mono (hK kt vt) (hV kt vt) _ _ _ hr, hb]
              · rename_i hc; simp [hc] at hb
          · rename_i hm; simp [hm] at hb

theorem layerG_good {F L : UInt8 → Bytes → Option Nat} {K V : UInt8 → UInt8 → Bytes → Option Nat}
    (hF : ∀ t, Good (F t)) (hL : ∀ t, Good (L t)) (hK : ∀ k v, Good (K k v)) (hV : ∀ k v, Good (V k v))
    (t : UInt8) : Good (layerG F L K V t) := by
  intro b n h
  unfold layerG listBody mapBody at h
  split at h
  · split at h
    · simp at h; omega
    · simp at h
  · split at h
    · exact refStr_good b n h
    · split at h
      · exact refFields_good hF _ b n h
      · split at h
        · cases b with
          | nil => simp at h
          | cons et rest =>
            simp only at h
            split at h
            · cases hr : refN (L et) (rd32 rest) (rest.drop 4) with
              | none => simp [hr] at h
              | some r =>
                simp [hr] at h
                have := refN_le (hL et) _ _ _ hr
                simp at this ⊢
                omega
            · simp at h
        · split at h
          · match b, h with
            | [], h => simp at h
            | [_], h => simp at h
            | kt :: vt :: rest, h =>
              simp only at h
              split at h
              · cases hr : refKV (K kt vt) (V kt vt) (rd32 rest) (rest.drop 4) with
                | none => simp [hr] at h
                | some r =>
                  simp [hr] at h
                  have := refKV_le (hK kt vt) (hV kt vt) _ _ _ hr
                  simp at this ⊢
                  omega
              · simp at h
          · simp at h

/-- the measure of a fixed-size type -/
def fixedFn (t : UInt8) (b : Bytes) : Option Nat :=
  if fixedSize t ≤ b.length then some (fixedSize t) else none

theorem fixedFn_good (t : UInt8) (h : 0 < fixedSize t) : Good (fixedFn t) := by
  intro b n hb; unfold fixedFn at hb; split at hb <;> simp at hb; omega

/-- fixed-size element measured in line (no depth), everything else through E -/
def gFix (E : UInt8 → Bytes → Option Nat) (t : UInt8) (b : Bytes) : Option Nat :=
  if fixedSize t > 0 then fixedFn t b else E t b

theorem gFix_good {E : UInt8 → Bytes → Option Nat} (h : ∀ t, Good (E t)) (t : UInt8) : Good (gFix E t) := by
  intro b n hb; unfold gFix at hb
  split at hb
  · rename_i hf; exact fixedFn_good t hf b n hb
  · exact h t b n hb

theorem gFix_mono {f g : UInt8 → Bytes → Option Nat} (h : ∀ t, LeF (f t) (g t)) (t : UInt8) :
    LeF (gFix f t) (gFix g t) := by
  intro b n hb; unfold gFix at hb ⊢
  split
  · rename_i hf; simpa [hf] using hb
  · rename_i hf; simp only [hf, if_false] at hb; exact h t b n hb

theorem gFix_layer_eq (E : UInt8 → Bytes → Option Nat) (t : UInt8) (b : Bytes) :
    gFix (layer E) t b = layer E t b := by
  unfold gFix fixedFn
  by_cases hf : fixedSize t > 0
  · simp [hf, layer]
  · simp [hf]

/-! ### SkipDecoderTpl: fixed-size list/set elements and maps whose key AND value are fixed-size are
    skipped in one step (no depth); everything else goes through Skip(.., maxdepth-1) -/

def tplK (E : UInt8 → Bytes → Option Nat) (kt vt : UInt8) : Bytes → Option Nat :=
  if fixedSize kt > 0 ∧ fixedSize vt > 0 then fixedFn kt else E kt
def tplV (E : UInt8 → Bytes → Option Nat) (kt vt : UInt8) : Bytes → Option Nat :=
  if fixedSize kt > 0 ∧ fixedSize vt > 0 then fixedFn vt else E vt

def refTpl : Nat → UInt8 → Bytes → Option Nat
  | 0, _, _ => none
  | d+1, t, b => layerG (refTpl d) (gFix (refTpl d)) (tplK (refTpl d)) (tplV (refTpl d)) t b

theorem tplK_good {E : UInt8 → Bytes → Option Nat} (h : ∀ t, Good (E t)) (k v : UInt8) : Good (tplK E k v) := by
  unfold tplK; split
  · rename_i hc; exact fixedFn_good k hc.1
  · exact h k
theorem tplV_good {E : UInt8 → Bytes → Option Nat} (h : ∀ t, Good (E t)) (k v : UInt8) : Good (tplV E k v) := by
  unfold tplV; split
  · rename_i hc; exact fixedFn_good v hc.2
  · exact h v

theorem refTpl_good : ∀ d t, Good (refTpl d t) := by
  intro d
  induction d with
  | zero => intro t b n h; simp [refTpl] at h
  | succ d ih =>
    intro t; simp only [refTpl]
    exact layerG_good ih (gFix_good ih) (tplK_good ih) (tplV_good ih) t

/-- fixedFn t ≤ layer E t for fixed t -/
theorem fixedFn_le_layer (E : UInt8 → Bytes → Option Nat) (t : UInt8) (h : fixedSize t > 0) :
    LeF (fixedFn t) (layer E t) := by
  intro b n hb; unfold fixedFn at hb; unfold layer; simpa [h] using hb

theorem refLen_le_refTpl : ∀ d t, LeF (refLen d t) (refTpl d t) := by
  intro d
  induction d with
  | zero => intro t b n h; simp [refLen] at h
  | succ d ih =>
    intro t b n h
    simp only [refLen] at h
    simp only [refTpl]
    rw [layer_eq_layerG] at h
    refine layerG_mono ih ?_ ?_ ?_ t b n h
    · intro t' b' n' h'
      cases d with
      | zero => simp [refLen] at h'
      | succ d' =>
        simp only [refLen] at h'
        rw [← gFix_layer_eq] at h'
        exact gFix_mono ih t' b' n' (by simpa [refLen] using h')
    · intro k v b' n' h'
      unfold tplK
      split
      · rename_i hc
        cases d with
        | zero => simp [refLen] at h'
        | succ d' =>
          simp only [refLen] at h'
          unfold layer at h'; unfold fixedFn; simpa [hc.1] using h'
      · exact ih k b' n' h'
    · intro k v b' n' h'
      unfold tplV
      split
      · rename_i hc
        cases d with
        | zero => simp [refLen] at h'
        | succ d' =>
          simp only [refLen] at h'
          unfold layer at h'; unfold fixedFn; simpa [hc.2] using h'
      · exact ih v b' n' h'

theorem refTpl_le_refLen : ∀ d t, LeF (refTpl d t) (refLen (d+1) t) := by
  intro d
  induction d with
  | zero => intro t b n h; simp [refTpl] at h
  | succ d ih =>
    intro t b n h
    simp only [refTpl] at h
    show layer (refLen (d+1)) t b = some n
    rw [layer_eq_layerG]
    refine layerG_mono ih ?_ ?_ ?_ t b n h
    · intro t' b' n' h'
      unfold gFix at h'
      split at h'
      · rename_i hf; simp only [refLen]; exact fixedFn_le_layer _ t' hf b' n' h'
      · exact ih t' b' n' h'
    · intro k v b' n' h'
      unfold tplK at h'
      split at h'
      · rename_i hc; simp only [refLen]; exact fixedFn_le_layer _ k hc.1 b' n' h'
      · exact ih k b' n' h'
    · intro k v b' n' h'
      unfold tplV at h'
      split at h'
      · rename_i hc; simp only [refLen]; exact fixedFn_le_layer _ v hc.2 b' n' h'
      · exact ih v b' n' h'

/-! ### BufferReader.Skip: fixed-size and string elements of lists/sets/maps are skipped in line;
    struct fields: fixed-size in line, everything else (strings too) through skipType(.., maxdepth-1) -/

def refBR : Nat → UInt8 → Bytes → Option Nat
  | 0, _, _ => none
  | d+1, t, b => layerG (gFix (refBR d)) (gElem (refBR d))
      (fun kt _ => gElem (refBR d) kt) (fun _ vt => gElem (refBR d) vt) t b

theorem refBR_good : ∀ d t, Good (refBR d t) := by
  intro d
  induction d with
  | zero => intro t b n h; simp [refBR] at h
  | succ d ih =>
    intro t; simp only [refBR]
    exact layerG_good (gFix_good ih) (gElem_good ih) (fun k _ => gElem_good ih k) (fun _ v => gElem_good ih v) t

theorem refLen_le_refBR : ∀ d t, LeF (refLen d t) (refBR d t) := by
  intro d
  induction d with
  | zero => intro t b n h; simp [refLen] at h
  | succ d ih =>
    intro t b n h
    simp only [refLen] at h
    simp only [refBR]
    rw [layer_eq_layerG] at h
    have hE : ∀ t', LeF (refLen d t') (gElem (refBR d) t') := by
      intro t' b' n' h'
      cases d with
      | zero => simp [refLen] at h'
      | succ d' =>
        simp only [refLen] at h'
        rw [← gElem_layer_eq] at h'
        exact gElem_mono ih t' b' n' (by simpa [refLen] using h')
    refine layerG_mono ?_ hE (fun k _ => hE k) (fun _ v => hE v) t b n h
    intro t' b' n' h'
    cases d with
    | zero => simp [refLen] at h'
    | succ d' =>
      simp only [refLen] at h'
      rw [← gFix_layer_eq] at h'
      exact gFix_mono ih t' b' n' (by simpa [refLen] using h')

theorem refBR_le_refLen : ∀ d t, LeF (refBR d t) (refLen (d+1) t) := by
  intro d
  induction d with
  | zero => intro t b n h; simp [refBR] at h
  | succ d ih =>
    intro t b n h
    simp only [refBR] at h
    show layer (refLen (d+1)) t b = some n
    rw [layer_eq_layerG]
    have hE : ∀ t', LeF (gElem (refBR d) t') (refLen (d+1) t') := by
      intro t' b' n' h'
      have h1 := gElem_mono ih t' b' n' h'
      simp only [refLen] at h1
      rw [gElem_layer_eq] at h1
      simpa [refLen] using h1
    refine layerG_mono ?_ hE (fun k _ => hE k) (fun _ v => hE v) t b n h
    intro t' b' n' h'
    have h1 := gFix_mono ih t' b' n' h'
    simp only [refLen] at h1
    rw [gFix_layer_eq] at h1
    simpa [refLen] using h1

end Verif

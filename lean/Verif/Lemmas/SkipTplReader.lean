/-
  Lemmas/SkipTplReader: ReaderSkipDecoder over a plain io.Reader (`readerBackend`, `readFullLoop`,
  `readerDecNext`).

  Source predicate `Delivers script slen` (decidable): whatever room ≥ 1 each `Read` is offered, the
  source hands over all of its `slen` remaining bytes before any error; an error may accompany
  only the VERY LAST byte of the stream (the io.EOF-with-final-data case), zero-byte reads must be
  error-free (there is no empty-read limit in an io.ReadFull loop; a finite script always ends).
  It is implied by C04's `Steady` (`steady_delivers`).

  Over EVERY script the back end is a weak cursor (`SkipN k` returns exactly the next `k` bytes and
  leaves the source exactly `k` bytes further, or fails): soundness and totality with no hypothesis
  on the source at all.  Over a delivering source it is an exact cursor over the unread stream: `SkipN k` returns
  exactly the next `k` bytes and leaves the source exactly `k` bytes further — also when the last
  `Read` returned its data together with an error (the F9 clause `if i >= n { err = nil }`) — and
  fails iff fewer than `k` bytes are left.  Hence ReaderSkipDecoder.Next agrees exactly with refTpl,
  returns exactly the value and reads nothing beyond it.
-/
import Verif.Lemmas.SkipTplW
import Verif.Lemmas.Reader
import Verif.Spec.Cursor
namespace Verif

def Delivers : List Resp → Nat → Bool
  | _, 0 => true
  | [], _+1 => false
  | r :: rest, slen+1 =>
    if r.k = 0 then r.err.isNone && Delivers rest (slen+1)
    else (r.err.isNone || slen = 0) && Delivers rest slen

theorem delivers_zero (s : List Resp) : Delivers s 0 = true := by
  cases s <;> rfl

theorem delivers_mono : ∀ (s : List Resp) (a b : Nat), Delivers s a = true → b ≤ a → Delivers s b = true := by
  intro s
  induction s with
  | nil =>
    intro a b h hb
    cases a with
    | zero => have : b = 0 := by omega
              subst this; rfl
    | succ a => simp [Delivers] at h
  | cons r rest ih =>
    intro a b h hb
    cases b with
    | zero => rfl
    | succ b =>
      cases a with
      | zero => omega
      | succ a =>
        simp only [Delivers] at h ⊢
        by_cases hk : r.k = 0
        · simp only [hk, if_true, Bool.and_eq_true] at h ⊢
          exact ⟨h.1, ih _ _ h.2 (by omega)⟩
        · simp only [hk, if_false, Bool.and_eq_true, Bool.or_eq_true, decide_eq_true_eq] at h ⊢
          refine ⟨?_, ih _ _ h.2 (by omega)⟩
          rcases h.1 with h1 | h1
          · exact Or.inl h1
          · exact Or.inr (by omega)

/-- C04's steady sources deliver -/
theorem steady_delivers (M : Nat) : ∀ (s : List Resp) (slen z : Nat),
    Steady M s slen z = true → Delivers s slen = true := by
  intro s
  induction s with
  | nil =>
    intro slen z h
    cases slen with
    | zero => rfl
    | succ n => simp [Steady] at h
  | cons r rest ih =>
    intro slen z h
    cases slen with
    | zero => rfl
    | succ n =>
      simp only [Steady] at h
      simp only [Delivers]
      by_cases hk : r.k = 0
      · simp only [hk, if_true, Bool.and_eq_true] at h ⊢
        exact ⟨h.1.1, ih _ _ h.2⟩
      · simp only [hk, if_false, Bool.and_eq_true] at h ⊢
        exact ⟨h.1, ih _ _ h.2⟩

/-- the read-full loop when enough bytes are left: exactly the missing bytes are appended, the
    source is exactly that much further, and still delivers — whatever error came with the last read -/
theorem readFull_ok : ∀ (fuel : Nat) (stream : Bytes) (script : List Resp) (n : Nat) (acc : Bytes),
    Delivers script stream.length = true → acc.length ≤ n → n - acc.length ≤ stream.length →
    script.length < fuel →
    ∃ e script', readFullLoop fuel ⟨stream, script⟩ n acc =
        (acc ++ stream.take (n - acc.length), e, ⟨stream.drop (n - acc.length), script'⟩) ∧
      Delivers script' (stream.length - (n - acc.length)) = true := by
  intro fuel
  induction fuel with
  | zero => intro stream script n acc _ _ _ hf; omega
  | succ fuel ih =>
    intro stream script n acc hd hacc hfit hf
    simp only [readFullLoop]
    by_cases hdone : acc.length ≥ n
    · have h0 : n - acc.length = 0 := by omega
      simp only [hdone, if_true, h0, List.take_zero, List.append_nil, List.drop_zero, Nat.sub_zero]
      exact ⟨none, script, rfl, hd⟩
    · simp only [hdone, if_false]
      generalize hneed : n - acc.length = need at hfit ⊢
      have hneed1 : 1 ≤ need := by omega
      cases hlen : stream.length with
      | zero => omega
      | succ slen =>
        rw [hlen] at hd
        cases script with
        | nil => simp [Delivers] at hd
        | cons r rest =>
          simp only [Src.read, hlen]
          generalize hdd : min (min r.k need) (slen + 1) = d
          have hd_le : d ≤ need := by omega
          have hd_le2 : d ≤ stream.length := by omega
          simp only [Delivers] at hd
          cases herr : r.err with
          | some e =>
            -- data together with an error: this must have been the very last byte
            have hk : r.k ≠ 0 := by
              intro hk; simp [hk, herr] at hd
            simp only [hk, if_false, herr, Option.isNone_some, Bool.false_or, Bool.and_eq_true,
              decide_eq_true_eq] at hd
            have hs0 : slen = 0 := hd.1
            have hneed' : need = 1 := by omega
            have hd1 : d = 1 := by omega
            subst hs0
            refine ⟨some e, rest, ?_, ?_⟩
            · simp only [hd1, hneed']
            · rw [hneed']; exact delivers_zero _
          | none =>
            simp only []
            have hlen' : (acc ++ List.take d stream).length = acc.length + d := by
              rw [List.length_append, List.length_take]; omega
            have hdel : Delivers rest (List.drop d stream).length = true := by
              rw [List.length_drop, hlen]
              by_cases hk : r.k = 0
              · simp only [hk, if_true, Bool.and_eq_true] at hd
                have : d = 0 := by omega
                rw [this]; exact hd.2
              · simp only [hk, if_false, Bool.and_eq_true] at hd
                exact delivers_mono _ _ _ hd.2 (by omega)
            obtain ⟨e, script', hx, hdel'⟩ := ih (List.drop d stream) rest n (acc ++ List.take d stream)
              hdel (by omega) (by rw [hlen', List.length_drop]; omega) (by simp at hf; omega)
            refine ⟨e, script', ?_, ?_⟩
            · rw [hx, hlen']
              have hnd : n - (acc.length + d) = need - d := by omega
              rw [hnd, List.drop_drop, List.append_assoc, ← List.take_add]
              have : d + (need - d) = need := by omega
              rw [this]
            · rw [hlen', List.length_drop] at hdel'
              have hnd : n - (acc.length + d) = need - d := by omega
              rw [hnd] at hdel'
              have : stream.length - d - (need - d) = slen + 1 - need := by omega
              rw [this] at hdel'
              exact hdel'

/-- … and when fewer bytes are left than asked for: an error, with fewer bytes than asked for -/
theorem readFull_short : ∀ (fuel : Nat) (s : Src) (n : Nat) (acc : Bytes),
    acc.length + s.stream.length < n →
    ∃ e, (readFullLoop fuel s n acc).2.1 = some e ∧ (readFullLoop fuel s n acc).1.length < n := by
  intro fuel
  induction fuel with
  | zero => intro s n acc h; exact ⟨.noProgress, rfl, by simp only [readFullLoop]; omega⟩
  | succ fuel ih =>
    intro s n acc h
    simp only [readFullLoop]
    have hdone : ¬ acc.length ≥ n := by omega
    simp only [hdone, if_false]
    have hst := Src.read_stream s (n - acc.length)
    have hlen := congrArg List.length hst
    rw [List.length_append] at hlen
    cases herr : (s.read (n - acc.length)).2.1 with
    | some e =>
      simp only []
      refine ⟨e, rfl, ?_⟩
      rw [List.length_append]; omega
    | none =>
      simp only []
      exact ih _ n _ (by rw [List.length_append]; omega)

theorem take_of_append_eq {d tl stream : Bytes} (h : d ++ tl = stream) :
    d = stream.take d.length ∧ tl = stream.drop d.length := by
  subst h; simp

/-- the read-full loop over ANY script: if it collected `n` bytes, they are exactly the next
    `n - |acc|` bytes of the stream and the source is exactly that much further; otherwise it reports
    an error -/
theorem readFull_any : ∀ (fuel : Nat) (s : Src) (n : Nat) (acc : Bytes), acc.length ≤ n →
    ((readFullLoop fuel s n acc).1.length ≥ n →
      (readFullLoop fuel s n acc).1 = acc ++ s.stream.take (n - acc.length) ∧
      (readFullLoop fuel s n acc).2.2.stream = s.stream.drop (n - acc.length) ∧
      n - acc.length ≤ s.stream.length) ∧
    ((readFullLoop fuel s n acc).1.length < n → ∃ e, (readFullLoop fuel s n acc).2.1 = some e) := by
  intro fuel
  induction fuel with
  | zero =>
    intro s n acc hacc
    simp only [readFullLoop]
    refine ⟨fun h => ?_, fun _ => ⟨_, rfl⟩⟩
    have : n - acc.length = 0 := by omega
    simp [this]
  | succ fuel ih =>
    intro s n acc hacc
    simp only [readFullLoop]
    by_cases hdone : acc.length ≥ n
    · simp only [hdone, if_true]
      refine ⟨fun _ => ?_, fun h => by omega⟩
      have : n - acc.length = 0 := by omega
      simp [this]
    · simp only [hdone, if_false]
      have hst := Src.read_stream s (n - acc.length)
      have hrl := Src.read_len s (n - acc.length)
      obtain ⟨hd1, hd2⟩ := take_of_append_eq hst
      generalize s.read (n - acc.length) = res at hst hrl hd1 hd2 ⊢
      obtain ⟨d, e, s1⟩ := res
      simp only [] at hst hrl hd1 hd2 ⊢
      have hdl : d.length ≤ s.stream.length := by
        have := congrArg List.length hst; rw [List.length_append] at this; omega
      cases e with
      | some e =>
        simp only []
        refine ⟨fun h => ?_, fun _ => ⟨e, rfl⟩⟩
        rw [List.length_append] at h
        have hlen : d.length = n - acc.length := by omega
        rw [← hlen]
        exact ⟨by rw [← hd1], hd2, hdl⟩
      | none =>
        simp only []
        have hacc' : (acc ++ d).length ≤ n := by rw [List.length_append]; omega
        obtain ⟨h1, h2⟩ := ih s1 n (acc ++ d) hacc'
        refine ⟨fun h => ?_, h2⟩
        obtain ⟨ha, hb, hc⟩ := h1 h
        rw [List.length_append] at ha hb hc
        have hsplit : n - acc.length = d.length + (n - (acc.length + d.length)) := by omega
        refine ⟨?_, ?_, ?_⟩
        · rw [ha, hsplit, ← hst, List.take_length_add_append, List.append_assoc]
        · rw [hb, hsplit, ← hst, List.drop_length_add_append]
        · have := congrArg List.length hst; rw [List.length_append] at this; omega

/-- back-end invariant during one `Next(t)`: `got` is exactly what has been read from the stream
    `S0` so far; over a live source the script still delivers -/
def ReaderP (live : Prop) (S0 : Bytes) (s : ReaderDec) : Prop :=
  (live → Delivers s.src.script s.src.stream.length = true) ∧ s.got ++ s.src.stream = S0

/-- the read-full back end is a weak cursor over the unread stream for EVERY script (exact bytes or
    an error), and an exact one over delivering scripts -/
theorem reader_cursor (live : Prop) (S0 : Bytes) (bound : Nat) :
    WCursor readerBackend (fun s => s.src.stream) (ReaderP live S0) live bound := by
  refine ⟨?_, ?_⟩
  · intro s k hp _
    obtain ⟨hd, hgot⟩ := hp
    obtain ⟨hge, hlt⟩ := readFull_any (s.src.script.length + 2) s.src k [] (Nat.zero_le _)
    simp only [List.length_nil, Nat.sub_zero, List.nil_append] at hge
    by_cases hfull : (readFullLoop (s.src.script.length + 2) s.src k []).1.length ≥ k
    · left
      obtain ⟨h1, h2, h3⟩ := hge hfull
      refine ⟨{ src := (readFullLoop (s.src.script.length + 2) s.src k []).2.2,
                got := s.got ++ s.src.stream.take k }, ?_, h3, h2, ?_, ?_⟩
      · have hlen : (List.take k s.src.stream).length ≥ k := by rw [List.length_take]; omega
        simp only [readerBackend, h1, hlen, if_true]
      · intro l
        obtain ⟨e, script', hx, hdel⟩ := readFull_ok (s.src.script.length + 2) s.src.stream s.src.script k []
          (hd l) (Nat.zero_le _) (by simpa using h3) (by omega)
        simp only [List.length_nil, Nat.sub_zero, List.nil_append] at hx hdel
        have hsrc : (⟨s.src.stream, s.src.script⟩ : Src) = s.src := rfl
        rw [hsrc] at hx
        simp only [hx, List.length_drop]
        exact hdel
      · simp only [h2, List.append_assoc, List.take_append_drop]; exact hgot
    · right
      obtain ⟨e, he⟩ := hlt (by omega)
      refine ⟨.raw e, by simp only [readerBackend, hfull, if_false, he], fun l => ?_⟩
      by_cases hk : k ≤ s.src.stream.length
      · exfalso
        obtain ⟨e', script', hx, _⟩ := readFull_ok (s.src.script.length + 2) s.src.stream s.src.script k []
          (hd l) (Nat.zero_le _) (by simpa using hk) (by omega)
        have hsrc : (⟨s.src.stream, s.src.script⟩ : Src) = s.src := rfl
        rw [hsrc] at hx
        apply hfull
        rw [hx]; simp only [List.length_nil, Nat.sub_zero, List.nil_append, List.length_take]; omega
      · omega
  · intro s _; simp [readerBackend]

/-- ReaderSkipDecoder.Next(t) over ANY source script: an error, or refTpl 64 accepts a prefix of the
    unread stream, exactly that prefix is returned and the source has been read exactly that far.
    Over a delivering script: an error only if refTpl 64 rejects; the script still delivers. -/
theorem readerDecNext_w (live : Prop) (src : Src) (t : UInt8)
    (hd : live → Delivers src.script src.stream.length = true) :
    (∃ e, readerDecNext src t = .err e ∧ (live → refTpl Facts.defaultRecursionDepth t src.stream = none)) ∨
    (∃ k src', refTpl Facts.defaultRecursionDepth t src.stream = some k ∧
      readerDecNext src t = .ok (src.stream.take k, src') ∧ src'.stream = src.stream.drop k ∧
      (live → Delivers src'.script src'.stream.length = true)) := by
  have hm := skipTplAtW (reader_cursor live src.stream tplReq) (Nat.le_refl _) Facts.defaultRecursionDepth t
    { src := src, got := [] } ⟨hd, rfl⟩
  simp only [] at hm
  rcases hm with ⟨e, hx, hnone⟩ | ⟨k, s1, hr, hx, hrem, hdel, hgot⟩
  · left; exact ⟨e, by simp [readerDecNext, hx], hnone⟩
  · right
    have hk := (refTpl_good _ t _ k hr).2
    refine ⟨k, s1.src, hr, ?_, hrem, hdel⟩
    have hrem' : s1.src.stream = src.stream.drop k := hrem
    have hg : s1.got = src.stream.take k := by
      rw [hrem'] at hgot
      have h2 : s1.got ++ List.drop k src.stream = List.take k src.stream ++ List.drop k src.stream := by
        rw [hgot, List.take_append_drop]
      exact List.append_cancel_right h2
    simp only [readerDecNext, hx, Out.bind_eq, Out.bind_ok, Out.pure_eq, hg]

/-- ReaderSkipDecoder.Next(t) over a delivering source: exactly refTpl 64 on the unread stream; the
    value's bytes are returned and the source has been read exactly that far -/
theorem readerDecNext_exact (src : Src) (t : UInt8)
    (hd : Delivers src.script src.stream.length = true) :
    match refTpl Facts.defaultRecursionDepth t src.stream with
    | some k => ∃ src', readerDecNext src t = .ok (src.stream.take k, src') ∧
        src'.stream = src.stream.drop k ∧ Delivers src'.script src'.stream.length = true
    | none => ∃ e, readerDecNext src t = .err e := by
  rcases readerDecNext_w True src t (fun _ => hd) with ⟨e, hx, hnone⟩ | ⟨k, src', hr, hx, h1, h2⟩
  · rw [hnone trivial]; exact ⟨e, hx⟩
  · rw [hr]; exact ⟨src', hx, h1, h2 trivial⟩

/-- … over ANY source script: sound and total -/
theorem readerDecNext_any (src : Src) (t : UInt8) :
    (∃ e, readerDecNext src t = .err e) ∨
    (∃ k src', refTpl Facts.defaultRecursionDepth t src.stream = some k ∧
      readerDecNext src t = .ok (src.stream.take k, src') ∧ src'.stream = src.stream.drop k) := by
  rcases readerDecNext_w False src t (fun f => f.elim) with ⟨e, hx, _⟩ | ⟨k, src', hr, hx, h1, _⟩
  · exact Or.inl ⟨e, hx⟩
  · exact Or.inr ⟨k, src', hr, hx, h1⟩

end Verif

/- Lemmas/WireMsg: ApplicationException's FastCodec, MarshalFastMsg / UnmarshalFastMsg. -/
import Verif.Lemmas.WireR
namespace Verif.Wire


theorem tstring11 : T_STRING = 11 := by decide
theorem ti32_8 : T_I32 = 8 := by decide

/-- the bytes of an ApplicationException, in the model's vocabulary -/
def appExEncM (e : AppEx) : Bytes :=
  encM (.fieldBegin 11 1) ++ encM (.str e.m) ++ encM (.fieldBegin 8 2) ++ encM (.i32 e.t) ++ encM .fieldStop

theorem appExEncM_length (e : AppEx) : (appExEncM e).length = appExBLength e := by
  simp [appExEncM, encM, appExBLength]; omega

theorem drop_drop' (b : Bytes) (i j : Nat) (x : Bytes) (h : b.drop i = x) : b.drop (i + j) = x.drop j := by
  rw [← h, List.drop_drop]

theorem step_str (fuel : Nat) (e : AppEx) (b : Bytes) (off : Nat) (m rest : Bytes) (hm : m.length < 2147483648)
    (hd : b.drop off = 11 :: (be16 (ofInt 16 1) ++ (be32 m.length ++ (m ++ rest)))) :
    appExReadLoop (fuel + 1) e b off = appExReadLoop fuel { e with m := m } b (off + 3 + (4 + m.length)) := by
  have hlen : (b.drop off).length = 3 + (4 + m.length + rest.length) := by rw [hd]; simp; omega
  have hl : b.length - off = 3 + (4 + m.length + rest.length) := by simpa using hlen
  have hd3 : b.drop (off + 3) = be32 m.length ++ (m ++ rest) := by
    rw [drop_drop' b off 3 _ hd]; simp [be16]
  rw [appExReadLoop]
  rw [if_neg (by omega), hd, binReadFieldBegin_enc 11 1 (by decide) (by decide)]
  simp only [tstop0, tstring11]
  rw [if_neg (by decide), if_neg (by omega), if_pos (by decide), hd3,
    binReadBinary_enc m rest (by simpa using hm)]

theorem step_i32 (fuel : Nat) (e : AppEx) (b : Bytes) (off : Nat) (t : Int) (rest : Bytes) (ht : inI32 t)
    (hd : b.drop off = 8 :: (be16 (ofInt 16 2) ++ (be32 (ofInt 32 t) ++ rest))) :
    appExReadLoop (fuel + 1) e b off = appExReadLoop fuel { e with t := t } b (off + 3 + 4) := by
  have hlen : (b.drop off).length = 3 + (4 + rest.length) := by rw [hd]; simp; omega
  have hl : b.length - off = 3 + (4 + rest.length) := by simpa using hlen
  have hd3 : b.drop (off + 3) = be32 (ofInt 32 t) ++ rest := by
    rw [drop_drop' b off 3 _ hd]; simp [be16]
  rw [appExReadLoop]
  rw [if_neg (by omega), hd, binReadFieldBegin_enc 8 2 (by decide) (by decide)]
  simp only [tstop0, tstring11, ti32_8]
  rw [if_neg (by decide), if_neg (by omega), if_neg (by decide), if_pos (by decide), hd3,
    binReadI32_be _ (ofInt32_lt t), toI32_ofInt t ht]

theorem step_stop (fuel : Nat) (e : AppEx) (b : Bytes) (off : Nat) (rest : Bytes)
    (hd : b.drop off = 0 :: rest) :
    appExReadLoop (fuel + 1) e b off = (e, .ok (off + 1)) := by
  have hlen : (b.drop off).length = 1 + rest.length := by rw [hd]; simp; omega
  have hl : b.length - off = 1 + rest.length := by simpa using hlen
  rw [appExReadLoop]
  rw [if_neg (by omega), hd, binReadFieldBegin_char]
  simp [tstop0]


/-- FastRead of an encoded exception, into any target struct, returns that exception -/
theorem appExRead_enc (e0 e : AppEx) (rest : Bytes) (hm : e.m.length < 2147483648) (ht : inI32 e.t) :
    appExRead e0 (appExEncM e ++ rest) = (e, .ok (appExBLength e)) := by
  unfold appExRead
  generalize hb : appExEncM e ++ rest = b
  have hlen : b.length = appExBLength e + rest.length := by subst hb; simp [appExEncM_length]
  have d0 : b.drop 0 = 11 :: (be16 (ofInt 16 1) ++ (be32 e.m.length ++ (e.m ++
      (8 :: (be16 (ofInt 16 2) ++ (be32 (ofInt 32 e.t) ++ (0 :: rest))))))) := by
    subst hb; simp [appExEncM, encM]
  have hf : b.length + 1 = (b.length - 2) + 1 + 1 + 1 := by unfold appExBLength at hlen; omega
  rw [hf, step_str _ e0 b 0 e.m _ hm d0]
  have d1 : b.drop (0 + 3 + (4 + e.m.length)) = 8 :: (be16 (ofInt 16 2) ++ (be32 (ofInt 32 e.t) ++ (0 :: rest))) := by
    have e0' : 0 + 3 + (4 + e.m.length) = 0 + (3 + (4 + e.m.length)) := by omega
    rw [e0', drop_drop' b 0 (3 + (4 + e.m.length)) _ d0]
    have : ∀ (x : Bytes), List.drop (3 + (4 + e.m.length))
        (11 :: (be16 (ofInt 16 1) ++ (be32 e.m.length ++ (e.m ++ x)))) = x := by
      intro x
      have e1 : (11 :: (be16 (ofInt 16 1) ++ (be32 e.m.length ++ (e.m ++ x)))) =
          (11 :: (be16 (ofInt 16 1) ++ be32 e.m.length ++ e.m)) ++ x := by simp
      rw [e1, List.drop_left' (by simp; omega)]
    rw [this]
  rw [step_i32 _ _ b _ e.t _ ht d1]
  have d2 : b.drop (0 + 3 + (4 + e.m.length) + 3 + 4) = 0 :: rest := by
    rw [show 0 + 3 + (4 + e.m.length) + 3 + 4 = (0 + 3 + (4 + e.m.length)) + 7 by omega,
      drop_drop' b _ 7 _ d1]
    simp [be16, be32]
  rw [step_stop _ _ b _ rest d2]
  simp [appExBLength]


/-- FastWrite into a buffer with room for BLength bytes stores exactly the encoding -/
theorem appExWrite_ok (e : AppEx) (buf : Bytes) (off : Nat) (h : off + appExBLength e ≤ buf.length) :
    appExWrite e buf off = .ok (putAt buf off (appExEncM e), appExBLength e) := by
  unfold appExBLength at h
  have w1 := write_encM buf off (.fieldBegin 11 1) (by simp [encM]; omega)
  have l1 : (putAt buf off (encM (.fieldBegin 11 1))).length = buf.length := putAt_length _ _ _ (by simp [encM]; omega)
  have w2 := write_encM (putAt buf off (encM (.fieldBegin 11 1))) (off + 3) (.str e.m) (by rw [l1]; simp [encM]; omega)
  rw [put2 buf off _ _ (off + 3) (by simp [encM]) (by simp [encM]; omega)] at w2
  have l2 : (putAt buf off (encM (.fieldBegin 11 1) ++ encM (.str e.m))).length = buf.length :=
    putAt_length _ _ _ (by simp [encM]; omega)
  have w3 := write_encM (putAt buf off (encM (.fieldBegin 11 1) ++ encM (.str e.m))) (off + (3 + (4 + e.m.length)))
    (.fieldBegin 8 2) (by rw [l2]; simp [encM]; omega)
  rw [put2 buf off _ _ _ (by simp [encM]; omega) (by simp [encM]; omega)] at w3
  have l3 : (putAt buf off (encM (.fieldBegin 11 1) ++ encM (.str e.m) ++ encM (.fieldBegin 8 2))).length = buf.length :=
    putAt_length _ _ _ (by simp [encM]; omega)
  have w4 := write_encM (putAt buf off (encM (.fieldBegin 11 1) ++ encM (.str e.m) ++ encM (.fieldBegin 8 2)))
    (off + (3 + (4 + e.m.length) + 3)) (.i32 e.t) (by rw [l3]; simp [encM]; omega)
  rw [put2 buf off _ _ _ (by simp [encM]; omega) (by simp [encM]; omega)] at w4
  have l4 : (putAt buf off (encM (.fieldBegin 11 1) ++ encM (.str e.m) ++ encM (.fieldBegin 8 2) ++
      encM (.i32 e.t))).length = buf.length := putAt_length _ _ _ (by simp [encM]; omega)
  have w5 := write_encM (putAt buf off (encM (.fieldBegin 11 1) ++ encM (.str e.m) ++ encM (.fieldBegin 8 2) ++
      encM (.i32 e.t))) (off + (3 + (4 + e.m.length) + 3 + 4)) (.i8 0) (by rw [l4]; simp [encM]; omega)
  rw [put2 buf off _ _ _ (by simp [encM]; omega) (by simp [encM]; omega)] at w5
  simp only [write, encM, List.length_cons, List.length_append, be16_length, be32_length,
    List.length_nil] at w1 w2 w3 w4 w5
  unfold appExWrite
  simp only [tstring11, ti32_8, Out.bind_eq, Out.pure_eq]
  rw [w1]
  simp only [Out.bind_ok]
  rw [w2]
  simp only [Out.bind_ok]
  rw [show off + (2 + 1 + (4 + e.m.length)) = off + (3 + (4 + e.m.length)) by omega, w3]
  simp only [Out.bind_ok]
  rw [show off + (2 + 1 + (4 + e.m.length) + (2 + 1)) = off + (3 + (4 + e.m.length) + 3) by omega, w4]
  simp only [Out.bind_ok]
  have hs : ((Facts.tSTOP : Nat) : Int) = 0 := by decide
  rw [show off + (2 + 1 + (4 + e.m.length) + (2 + 1) + 4) = off + (3 + (4 + e.m.length) + 3 + 4) by omega, hs, w5]
  simp only [Out.bind_ok]
  congr 2

/-- what the message-level theorems need of a payload codec, on a domain of values: BLength is the
    length of its encoding, FastWrite stores exactly that encoding when there is room for BLength
    bytes, FastRead of the encoding (into any target) yields the value -/
structure CodecOK {α : Type} (C : Codec α) (dom : α → Prop) (encP : α → Bytes) : Prop where
  len : ∀ x, dom x → (encP x).length = C.blength x
  write : ∀ x buf off, dom x → off + C.blength x ≤ buf.length →
    C.write x buf off = .ok (putAt buf off (encP x), C.blength x)
  read : ∀ x t, dom x → C.read t (encP x) = (x, .ok (C.blength x))

def AppEx.wf (e : AppEx) : Prop := e.m.length < 2147483648 ∧ inI32 e.t

theorem appExCodec_read : appExCodec.read = appExRead := rfl
theorem appExCodec_blength : appExCodec.blength = appExBLength := rfl
theorem appExCodec_write : appExCodec.write = appExWrite := rfl

theorem appExCodecOK : CodecOK appExCodec AppEx.wf appExEncM where
  len x _ := by rw [appExCodec_blength]; exact appExEncM_length x
  write x buf off _ h := by
    rw [appExCodec_blength] at h
    rw [appExCodec_write, appExCodec_blength]; exact appExWrite_ok x buf off h
  read x t hx := by
    have := appExRead_enc t x [] hx.1 hx.2
    rw [List.append_nil] at this
    rw [appExCodec_read, appExCodec_blength, this]

/-- MarshalFastMsg: header then payload -/
theorem marshal_ok {α} (C : Codec α) (dom : α → Prop) (encP : α → Bytes) (hC : CodecOK C dom encP)
    (d : Nat → UInt8) (method : Bytes) (typ seq : Int) (msg : α) (hm : method ≠ []) (hx : dom msg) :
    marshalFastMsg C d method typ seq msg = .ok (encM (.messageBegin method typ seq) ++ encP msg) := by
  unfold marshalFastMsg
  rw [if_neg hm]
  dsimp only
  generalize hb : (List.range (lenMessageBegin method + C.blength msg)).map d = b
  have hl : b.length = lenMessageBegin method + C.blength msg := by subst hb; simp
  unfold lenMessageBegin at hl
  have w1 := wMessageBegin_ok b 0 method typ seq (by omega)
  simp only [w1]
  have l1 : (putAt b 0 (be32 (msgHeader typ) ++ be32 method.length ++ method ++ be32 (ofInt 32 seq))).length
      = b.length := putAt_length _ _ _ (by simp; omega)
  have w2 := hC.write msg (putAt b 0 (be32 (msgHeader typ) ++ be32 method.length ++ method ++ be32 (ofInt 32 seq)))
    (12 + method.length) hx (by rw [l1]; omega)
  simp only [w2]
  have := put2 b 0 (be32 (msgHeader typ) ++ be32 method.length ++ method ++ be32 (ofInt 32 seq)) (encP msg)
    (12 + method.length) (by simp; omega) (by simp [hC.len msg hx]; omega)
  rw [this, putAt_full _ _ (by simp [hC.len msg hx]; omega)]
  simp [encM]


theorem unmarshal_plain_gen {α} (C : Codec α) (b : Bytes) (msg : α) (method : Bytes) (typ seq : Int) (i : Nat)
    (h : binReadMessageBegin b = .ok (method, typ, seq, i)) (hi : ¬ i > b.length)
    (ht : ¬ typ = ((Facts.mEXCEPTION : Nat) : Int)) :
    unmarshalFastMsg C b msg =
      match (C.read msg (b.drop i)).2 with
      | .ok _ => .ok ⟨method, seq, none, (C.read msg (b.drop i)).1⟩
      | .err e => .ok ⟨method, seq, some (.t e), (C.read msg (b.drop i)).1⟩
      | .panic s => .panic s
      | .oob => .oob := by
  unfold unmarshalFastMsg
  simp only [h, if_neg hi, if_neg ht]
  generalize (C.read msg (List.drop i b)).2 = x
  cases x <;> rfl

theorem unmarshal_exc_gen {α} (C : Codec α) (b : Bytes) (msg : α) (method : Bytes) (typ seq : Int) (i : Nat)
    (ex : AppEx) (n : Nat)
    (h : binReadMessageBegin b = .ok (method, typ, seq, i)) (hi : ¬ i > b.length)
    (ht : typ = ((Facts.mEXCEPTION : Nat) : Int))
    (hr : appExRead ⟨Facts.aeUNKNOWN, []⟩ (b.drop i) = (ex, .ok n)) :
    unmarshalFastMsg C b msg = .ok ⟨method, seq, some (.appEx ex.t ex.m), msg⟩ := by
  unfold unmarshalFastMsg
  simp only [h, if_neg hi, if_pos ht, hr]

/-- UnmarshalFastMsg on header ++ body, for a header that is not of type EXCEPTION -/
theorem unmarshal_plain {α} (C : Codec α) (method body : Bytes) (typ seq : Int) (msg : α)
    (hn : method.length < 2147483648) (hs : inI32 seq) (ht : msgType16 typ ≠ Facts.mEXCEPTION) :
    unmarshalFastMsg C (encM (.messageBegin method typ seq) ++ body) msg =
      match (C.read msg body).2 with
      | .ok _ => .ok ⟨method, seq, none, (C.read msg body).1⟩
      | .err e => .ok ⟨method, seq, some (.t e), (C.read msg body).1⟩
      | .panic s => .panic s
      | .oob => .oob := by
  have hr := binReadMessageBegin_enc method body typ seq (by simpa using hn) hs
  generalize hb : encM (.messageBegin method typ seq) ++ body = b
  have hb' : be32 (msgHeader typ) ++ be32 method.length ++ method ++ be32 (ofInt 32 seq) ++ body = b := by
    rw [← hb]; simp [encM]
  rw [hb'] at hr
  have hd : b.drop (12 + method.length) = body := by
    rw [← hb', List.drop_left' (by simp; omega)]
  have hl : ¬ 12 + method.length > b.length := by rw [← hb']; simp; omega
  have hne : ¬ ((msgType16 typ : Nat) : Int) = ((Facts.mEXCEPTION : Nat) : Int) := by
    intro h; exact ht (by exact_mod_cast h)
  rw [unmarshal_plain_gen C b msg method _ seq _ hr hl hne, hd]

/-- UnmarshalFastMsg on an EXCEPTION header followed by an encoded exception -/
theorem unmarshal_exception {α} (C : Codec α) (method : Bytes) (typ seq : Int) (ex : AppEx) (msg : α)
    (hn : method.length < 2147483648) (hs : inI32 seq) (ht : msgType16 typ = Facts.mEXCEPTION) (hx : ex.wf) :
    unmarshalFastMsg C (encM (.messageBegin method typ seq) ++ appExEncM ex) msg =
      .ok ⟨method, seq, some (.appEx ex.t ex.m), msg⟩ := by
  have hr := binReadMessageBegin_enc method (appExEncM ex) typ seq (by simpa using hn) hs
  generalize hb : encM (.messageBegin method typ seq) ++ appExEncM ex = b
  have hb' : be32 (msgHeader typ) ++ be32 method.length ++ method ++ be32 (ofInt 32 seq) ++ appExEncM ex = b := by
    rw [← hb]; simp [encM]
  rw [hb'] at hr
  have hd : b.drop (12 + method.length) = appExEncM ex := by
    rw [← hb', List.drop_left' (by simp; omega)]
  have hl : ¬ 12 + method.length > b.length := by rw [← hb']; simp; omega
  have he : ((msgType16 typ : Nat) : Int) = ((Facts.mEXCEPTION : Nat) : Int) := by rw [ht]
  have hrd := appExRead_enc ⟨Facts.aeUNKNOWN, []⟩ ex [] hx.1 hx.2
  rw [List.append_nil, ← hd] at hrd
  exact unmarshal_exc_gen C b msg method _ seq _ ex _ hr hl he hrd


theorem rd32_take (b : Bytes) (k : Nat) (h : 4 ≤ k) : rd32 (b.take k) = rd32 b := by
  obtain ⟨k', rfl⟩ : ∃ k', k = k' + 4 := ⟨k - 4, by omega⟩
  match b with
  | [] => simp
  | [_] => simp
  | [_, _] => simp
  | [_, _, _] => simp
  | a :: c :: d :: e :: rest => simp [rd32]

/-- every strict prefix of an encoded message header fails with INVALID_DATA (l = 0) -/
theorem msg_prefix_err (name : Bytes) (typ seq : Int) (hn : name.length < 2147483648) (k : Nat)
    (hk : k < 12 + name.length) :
    binReadMessageBegin ((be32 (msgHeader typ) ++ be32 name.length ++ name ++ be32 (ofInt 32 seq)).take k)
      = .err (errShort, 0) := by
  have hh : msgHeader typ < 4294967296 := by rw [msgHeader_eq]; have := msgType16_lt typ; omega
  generalize he : be32 (msgHeader typ) ++ be32 name.length ++ name ++ be32 (ofInt 32 seq) = e
  have hel : e.length = 12 + name.length := by subst he; simp; omega
  have r0 : rd32 e = msgHeader typ := by
    subst he; simp only [List.append_assoc]; exact rd32_be32 _ hh _
  have r4 : rd32 (e.drop 4) = name.length := by
    have : e.drop 4 = be32 name.length ++ (name ++ be32 (ofInt 32 seq)) := by
      subst he
      have e1 : be32 (msgHeader typ) ++ be32 name.length ++ name ++ be32 (ofInt 32 seq) =
        be32 (msgHeader typ) ++ (be32 name.length ++ (name ++ be32 (ofInt 32 seq))) := by simp
      rw [e1, List.drop_left' (by simp)]
    rw [this]; exact rd32_be32 _ (by omega) _
  have hpl : (e.take k).length = k := by simp; omega
  rw [binReadMessageBegin_char, hpl]
  by_cases h4 : k < 4
  · rw [if_pos h4]
  rw [if_neg h4, rd32_take e k (by omega), r0]
  have hv : ¬ (msgHeader typ / 65536 ≠ 0x8001) := by rw [msgHeader_eq]; have := msgType16_lt typ; omega
  rw [if_neg hv]
  by_cases h8 : k < 8
  · rw [if_pos h8]
  rw [if_neg h8]
  have : (e.take k).drop 4 = (e.drop 4).take (k - 4) := by rw [List.drop_take]
  rw [this, rd32_take _ _ (by omega), r4, if_neg (by omega), if_pos (by omega)]



theorem be32_rd32 (a c d e : UInt8) (rest : Bytes) : be32 (rd32 (a :: c :: d :: e :: rest)) = [a, c, d, e] := by
  have ha := a.toNat_lt; have hc := c.toNat_lt; have hd := d.toNat_lt; have he := e.toNat_lt
  simp only [rd32, be32]
  have e1 : UInt8.ofNat ((a.toNat * 16777216 + c.toNat * 65536 + d.toNat * 256 + e.toNat) / 16777216) = a := by
    apply UInt8.toNat_inj.mp; simp [UInt8.toNat_ofNat']; omega
  have e2 : UInt8.ofNat ((a.toNat * 16777216 + c.toNat * 65536 + d.toNat * 256 + e.toNat) / 65536) = c := by
    apply UInt8.toNat_inj.mp; simp [UInt8.toNat_ofNat']; omega
  have e3 : UInt8.ofNat ((a.toNat * 16777216 + c.toNat * 65536 + d.toNat * 256 + e.toNat) / 256) = d := by
    apply UInt8.toNat_inj.mp; simp [UInt8.toNat_ofNat']; omega
  have e4 : UInt8.ofNat (a.toNat * 16777216 + c.toNat * 65536 + d.toNat * 256 + e.toNat) = e := by
    apply UInt8.toNat_inj.mp; simp
  rw [e1, e2, e3, e4]

theorem be32_rd32_take (b : Bytes) (h : 4 ≤ b.length) : be32 (rd32 b) = b.take 4 := by
  match b, h with
  | a :: c :: d :: e :: rest, _ => rw [be32_rd32]; simp

theorem twos32_toI32 (n : Nat) (h : n < 4294967296) : twos 32 (toI32 n) = n := by
  simp [twos, toI32]; split <;> split <;> omega

/-- whatever ReadMessageBegin accepts is exactly an encoded header: the consumed bytes are the
    encoding of the returned name, type and seq -/
theorem msg_accept_exact (b name : Bytes) (typ seq : Int) (l : Nat)
    (h : binReadMessageBegin b = .ok (name, typ, seq, l)) :
    b.take l = enc (.messageBegin name typ seq) ∧ (Val.messageBegin name typ seq).wf := by
  rw [binReadMessageBegin_char] at h
  repeat' split at h
  all_goals simp at h
  rename_i h4 hv h8 hn hl
  obtain ⟨h1, h2, h3, h5⟩ := h
  have hw := rd32_lt b
  have hq := rd32_lt (b.drop (8 + rd32 (b.drop 4)))
  have hv' : rd32 b / 65536 = 0x8001 := by omega
  have hlen : name.length = rd32 (b.drop 4) := by rw [← h1]; simp; omega
  constructor
  · -- b.take l = be32 w ++ be32 n ++ name ++ be32 s
    have hty : msgType16 typ = rd32 b % 65536 := by rw [← h2]; unfold msgType16; omega
    have e0 : (0x80010000 : Nat) + msgType16 typ = rd32 b := by rw [hty]; omega
    simp only [enc, u32_eq, e0, hlen]
    rw [← h3, twos32_toI32 _ hq]
    rw [be32_rd32_take b (by omega), be32_rd32_take (b.drop 4) (by simp; omega),
      be32_rd32_take (b.drop (8 + rd32 (b.drop 4))) (by simp; omega), ← h1, ← h5]
    generalize rd32 (b.drop 4) = n at *
    have : b.take (12 + n) = b.take 4 ++ (b.drop 4).take 4 ++ (b.drop 8).take n ++ (b.drop (8 + n)).take 4 := by
      rw [show 12 + n = 4 + (4 + (n + 4)) by omega, List.take_add, List.take_add, List.take_add]
      simp [List.drop_drop, List.append_assoc]
    rw [this]
  · have hs : inI32 seq := by rw [← h3]; unfold inI32; simp [toI32]; split <;> omega
    refine ⟨by rw [hlen]; simpa using (show rd32 (b.drop 4) < 2147483648 by omega), by omega, by omega, hs⟩


end Verif.Wire

/-
  Lemmas/MemDecode: the copying decoders (C16).
  * span cache contract (as read from lang/span/span.go): a Make result has cap = len and lies either
    in a fresh Go-heap object or in the unreserved part of a span buffer, above everything handed out
    before; so successive results are pairwise disjoint, across wraps.
  * Binary.ReadBinary / ReadString: the result is disjoint from the input and from every earlier result
    and holds the bytes `buf[4:l]`, span cache on or off.
  * BufferReader.ReadBinary / ReadString: the result is a fresh Go-heap object; no reader operation,
    Release or environment step ever changes it.
  * user mutations: writes into the input, appends to / writes into a result.
-/
import Verif.Lemmas.MemReader
import Verif.Model.MemDecode
namespace Verif.Mem
open Verif Verif.Heap

/-! ## span cache -/

structure SpanInv (sp : Span) (h : Heap) : Prop where
  read_le : sp.read ≤ sp.size
  buf : ∃ x, h.obj? sp.buffer.obj = some x ∧ x.owner = .gc ∧ sp.buffer.off + sp.size ≤ x.data.length

/-- `f` does not reach into the part of span `sp`'s buffer that has not been handed out yet -/
def BelowSp (sp : Span) (f : Slice) : Prop :=
  f.obj = sp.buffer.obj → f.off + f.cap ≤ sp.buffer.off + sp.read

theorem SpanInv.of_extends {sp : Span} {h h' : Heap} (hi : SpanInv sp h) (he : Extends h h') : SpanInv sp h' :=
  ⟨hi.read_le, by obtain ⟨x, hx, r⟩ := hi.buf; exact ⟨x, he _ x hx, r⟩⟩

/-- span.Make: the result has cap = len; it is disjoint from every slice that exists and stays below
    the span's reserve line; afterwards the result itself is below the line -/
theorem span_make_ok (sp : Span) (h : Heap) (n0 : Nat) (contended : Bool) (hi : SpanInv sp h)
    (hn : n0 < 4294967296) :
    let r := sp.make h n0 contended
    r.1.len = n0 ∧ r.1.cap = n0 ∧ SpanInv r.2.1 r.2.2 ∧ Extends h r.2.2 ∧ r.2.2.faults = h.faults ∧
    r.2.2.events = h.events ∧ h.size ≤ r.2.2.size ∧
    (∃ x, r.2.2.obj? r.1.obj = some x ∧ x.owner = .gc ∧ r.1.off + r.1.cap ≤ x.data.length) ∧
    BelowSp r.2.1 r.1 ∧ r.2.1.size = sp.size ∧
    (r.2.1.buffer.obj = sp.buffer.obj ∨ r.2.1.buffer.obj = h.size) ∧
    (r.1.obj = sp.buffer.obj ∨ r.1.obj = h.size) ∧
    (∀ f : Slice, f.obj < h.size → BelowSp sp f → r.1.CapDisjoint f ∧ BelowSp r.2.1 f) := by
  have hmod : n0 % 4294967296 = n0 := Nat.mod_eq_of_lt hn
  obtain ⟨xb, hxb, hgc, hbb⟩ := hi.buf
  have hblt := obj?_lt h _ xb hxb
  unfold Span.make
  simp only [hmod]
  by_cases hfb : n0 ≥ sp.size ∨ contended = true
  · -- fallback: a fresh Go-heap object
    rw [if_pos hfb]
    obtain ⟨x, hx, hxg, hxl⟩ := gcAlloc_new h n0 n0
    refine ⟨rfl, rfl, hi.of_extends (extends_gcAlloc h n0 n0), extends_gcAlloc h n0 n0, rfl, rfl, by simp,
      ⟨x, hx, hxg, by simp [hxl]⟩, ?_, rfl, Or.inl rfl, Or.inr rfl, ?_⟩
    · intro heq; simp at heq; omega
    · intro f hf hb
      exact ⟨by unfold Slice.CapDisjoint; right; right; left; simp; omega, hb⟩
  · rw [if_neg hfb]
    have hlt : n0 < sp.size := by
      rcases Nat.lt_or_ge n0 sp.size with h1 | h1
      · exact h1
      · exact absurd (Or.inl h1) hfb
    by_cases hfast : sp.read + n0 ≤ sp.size
    · -- fast path: the next n bytes of the current buffer
      rw [if_pos hfast]
      refine ⟨rfl, rfl, ⟨hfast, xb, hxb, hgc, hbb⟩, Extends.refl h, rfl, rfl, Nat.le_refl _,
        ⟨xb, hxb, hgc, by simp; omega⟩, ?_, rfl, Or.inl rfl, Or.inl rfl, ?_⟩
      · intro _; show sp.buffer.off + sp.read + n0 ≤ sp.buffer.off + (sp.read + n0); omega
      · intro f hf hb
        refine ⟨?_, fun heq => by have := hb heq; simp; omega⟩
        unfold Slice.CapDisjoint
        by_cases heq : f.obj = sp.buffer.obj
        · have := hb heq
          right; right; right; right; simp; omega
        · right; right; left; simp; exact Ne.symm heq
    · -- slow path: a new span buffer
      rw [if_neg hfast]
      obtain ⟨x, hx, hxg, hxl⟩ := gcAlloc_new h sp.size sp.size
      refine ⟨rfl, rfl, ⟨by simp; omega, x, by simpa using hx, hxg, by simp [hxl]⟩,
        extends_gcAlloc h sp.size sp.size, rfl, rfl, by simp, ⟨x, by simpa using hx, hxg, by simp [hxl]; omega⟩, ?_, rfl,
        Or.inr rfl, Or.inr rfl, ?_⟩
      · intro _; simp
      · intro f hf _
        exact ⟨by unfold Slice.CapDisjoint; right; right; left; simp; omega,
          fun heq => by simp at heq; omega⟩

structure CacheInv (c : SpanCache) (h : Heap) : Prop where
  spans : ∀ (i : Nat) sp, c.spans[i]? = some sp → SpanInv sp h
  distinct : ∀ (i j : Nat) spi spj, i ≠ j → c.spans[i]? = some spi → c.spans[j]? = some spj →
    spi.buffer.obj ≠ spj.buffer.obj
  sizes : ∀ (i : Nat) sp, c.spans[i]? = some sp → sp.size < 4294967296
  len : c.spans.length ≤ 24

/-- `f` exists and does not reach into the unreserved part of any span buffer -/
def Below (c : SpanCache) (h : Heap) (f : Slice) : Prop :=
  f.obj < h.size ∧ ∀ (i : Nat) sp, c.spans[i]? = some sp → BelowSp sp f

theorem spanClass_lt (n k : Nat) (h : spanClass n ≤ k) : n < 2 ^ k := by
  unfold spanClass at h
  split at h
  · rename_i h0; rw [h0]; exact Nat.two_pow_pos k
  · rename_i h0
    exact (Nat.log2_lt h0).mp (by omega)

/-- span_disjoint (the span allocator contract): `spanCache.Make(n)` returns a slice with cap = len = n
    inside a Go-heap object, disjoint (capacity regions) from every existing slice that respects the
    reserve lines — in particular from every earlier result — and the cache stays well-formed with the
    new result below the lines too.  Holds on every path: size classes, fallback for small / large /
    contended requests, and the wrap to a new span buffer. -/
theorem cache_make_ok (c : SpanCache) (h : Heap) (n : Nat) (contended : Bool) (hi : CacheInv c h) :
    let r := c.make h n contended
    r.1.len = n ∧ r.1.cap = n ∧ CacheInv r.2.1 r.2.2 ∧ Extends h r.2.2 ∧ r.2.2.faults = h.faults ∧
    r.2.2.events = h.events ∧
    (∃ x, r.2.2.obj? r.1.obj = some x ∧ x.owner = .gc ∧ r.1.off + r.1.cap ≤ x.data.length) ∧
    Below r.2.1 r.2.2 r.1 ∧
    (∀ f : Slice, Below c h f → r.1.CapDisjoint f ∧ Below r.2.1 r.2.2 f) := by
  unfold SpanCache.make
  simp only []
  by_cases hout : spanClass n < minSpanClass ∨ spanClass n - minSpanClass ≥ c.spans.length
  · -- outside the size classes: dirtmake.Bytes(n, n)
    rw [if_pos hout]
    obtain ⟨x, hx, hxg, hxl⟩ := gcAlloc_new h n n
    have hext := extends_gcAlloc h n n
    refine ⟨rfl, rfl, ⟨fun i sp hs => (hi.spans i sp hs).of_extends hext, hi.distinct, hi.sizes, hi.len⟩, hext,
      rfl, rfl, ⟨x, hx, hxg, by simp [hxl]⟩, ⟨by simp, fun i sp hs heq => ?_⟩, fun f hf => ?_⟩
    · obtain ⟨y, hy, _⟩ := (hi.spans i sp hs).buf
      have := obj?_lt h _ y hy
      simp at heq; omega
    · exact ⟨by unfold Slice.CapDisjoint; right; right; left; simp; have := hf.1; omega,
        by simp; have := hf.1; omega, hf.2⟩
  · rw [if_neg hout]
    have hidx : spanClass n - minSpanClass < c.spans.length := by omega
    have hcls : minSpanClass ≤ spanClass n := by omega
    generalize hk : spanClass n - minSpanClass = k at hidx
    have hsome : c.spans[k]? = some c.spans[k] := List.getElem?_eq_getElem hidx
    rw [hsome]
    simp only []
    generalize c.spans[k] = sp at hsome
    have hn32 : n < 4294967296 := by
      have h1 := spanClass_lt n (minSpanClass + k) (by omega)
      have h2 : (2:Nat) ^ (minSpanClass + k) ≤ 2 ^ 32 :=
        Nat.pow_le_pow_right (by decide) (by have := hi.len; unfold minSpanClass; omega)
      omega
    obtain ⟨m1, m2, m3, m4, m5, m6, m7, m8, m9, m10, m11, m12, m13⟩ :=
      span_make_ok sp h n contended (hi.spans k sp hsome) hn32
    generalize sp.make h n contended = r at m1 m2 m3 m4 m5 m6 m7 m8 m9 m10 m11 m12 m13
    have hother : ∀ (j : Nat) spj, j ≠ k → c.spans[j]? = some spj → spj.buffer.obj < h.size ∧
        spj.buffer.obj ≠ sp.buffer.obj := by
      intro j spj hj hs
      obtain ⟨y, hy, _⟩ := (hi.spans j spj hs).buf
      exact ⟨obj?_lt h _ y hy, hi.distinct j k spj sp hj hs hsome⟩
    have hget : ∀ (j : Nat) spj, (c.spans.set k r.2.1)[j]? = some spj →
        (j = k ∧ spj = r.2.1) ∨ (j ≠ k ∧ c.spans[j]? = some spj) := by
      intro j spj hs
      rw [List.getElem?_set] at hs
      by_cases hjk : k = j
      · rw [if_pos hjk, if_pos hidx] at hs
        exact Or.inl ⟨hjk.symm, by cases hs; rfl⟩
      · rw [if_neg hjk] at hs
        exact Or.inr ⟨fun h' => hjk h'.symm, hs⟩
    have hbelowNew : ∀ f : Slice, f.obj < h.size → (∀ (i : Nat) spi, c.spans[i]? = some spi → BelowSp spi f) →
        ∀ (j : Nat) spj, (c.spans.set k r.2.1)[j]? = some spj → BelowSp spj f := by
      intro f hf hb j spj hs
      rcases hget j spj hs with ⟨_, rfl⟩ | ⟨_, hs'⟩
      · exact (m13 f hf (hb k sp hsome)).2
      · exact hb j spj hs'
    refine ⟨m1, m2, ⟨?_, ?_, ?_, by simp [hi.len]⟩, m4, m5, m6, m8, ⟨?_, ?_⟩, fun f hf =>
      ⟨(m13 f hf.1 (hf.2 k sp hsome)).1, Nat.lt_of_lt_of_le hf.1 m7, hbelowNew f hf.1 hf.2⟩⟩
    · intro j spj hs
      rcases hget j spj hs with ⟨_, rfl⟩ | ⟨_, hs'⟩
      · exact m3
      · exact (hi.spans j spj hs').of_extends m4
    · intro i j spi spj hij hsi hsj
      rcases hget i spi hsi with ⟨rfl, rfl⟩ | ⟨hik, hsi'⟩
      · rcases hget j spj hsj with ⟨rfl, _⟩ | ⟨hjk, hsj'⟩
        · exact absurd rfl hij
        · obtain ⟨o1, o2⟩ := hother j spj hjk hsj'
          rcases m11 with e | e <;> (rw [e]; first | exact Ne.symm o2 | omega)
      · rcases hget j spj hsj with ⟨rfl, rfl⟩ | ⟨hjk, hsj'⟩
        · obtain ⟨o1, o2⟩ := hother i spi hik hsi'
          rcases m11 with e | e <;> (rw [e]; first | exact o2 | omega)
        · exact hi.distinct i j spi spj hij hsi' hsj'
    · intro j spj hs
      rcases hget j spj hs with ⟨_, rfl⟩ | ⟨_, hs'⟩
      · rw [m10]; exact hi.sizes k sp hsome
      · exact hi.sizes j spj hs'
    · obtain ⟨x, hx, _⟩ := m8
      exact obj?_lt _ _ x hx
    · intro j spj hs
      rcases hget j spj hs with ⟨_, rfl⟩ | ⟨hjk, hs'⟩
      · exact m9
      · intro heq
        obtain ⟨o1, o2⟩ := hother j spj hjk hs'
        rcases m12 with e | e
        · rw [e] at heq; exact absurd heq.symm o2
        · rw [e] at heq; omega

/-- NewSpanCache: ten spans with ten distinct fresh buffers -/
theorem newAux_ok (size : Nat) : ∀ (k : Nat) (h : Heap),
    (SpanCache.newAux k h size).1.length = k ∧ (SpanCache.newAux k h size).2.size = h.size + k ∧
    Extends h (SpanCache.newAux k h size).2 ∧ (SpanCache.newAux k h size).2.faults = h.faults ∧
    (∀ (i : Nat) sp, (SpanCache.newAux k h size).1[i]? = some sp →
      sp.buffer.obj = h.size + i ∧ sp.buffer.off = 0 ∧ sp.read = 0 ∧ sp.size = size ∧
      ∃ x, (SpanCache.newAux k h size).2.obj? (h.size + i) = some x ∧ x.owner = .gc ∧ x.data.length = size) := by
  intro k
  induction k with
  | zero => intro h; exact ⟨rfl, rfl, Extends.refl h, rfl, fun i sp hs => by simp [SpanCache.newAux] at hs⟩
  | succ k ih =>
    intro h
    unfold SpanCache.newAux
    simp only []
    obtain ⟨a1, a2, a3, a4, a5⟩ := ih (Span.new h size).2
    have hsz : (Span.new h size).2.size = h.size + 1 := by simp [Span.new]
    obtain ⟨x, hx, hxg, hxl⟩ := gcAlloc_new h 0 size
    refine ⟨by simp [a1], by rw [a2, hsz]; omega, (extends_gcAlloc h 0 size).trans a3, a4, ?_⟩
    intro i sp hs
    cases i with
    | zero =>
      simp only [List.getElem?_cons_zero, Option.some.injEq] at hs
      subst hs
      exact ⟨rfl, rfl, rfl, rfl, x, a3 _ x hx, hxg, hxl⟩
    | succ i =>
      simp only [List.getElem?_cons_succ] at hs
      obtain ⟨b1, b2, b3, b4, y, hy, hyg, hyl⟩ := a5 i sp hs
      rw [hsz] at b1 hy
      exact ⟨by omega, b2, b3, b4, y, by rw [show h.size + (i + 1) = h.size + 1 + i by omega]; exact hy, hyg, hyl⟩

theorem cacheInv_new (h : Heap) (size : Nat) (hs : size < 4294967296) :
    CacheInv (SpanCache.new h size).1 (SpanCache.new h size).2 ∧
    ∀ f : Slice, f.obj < h.size → Below (SpanCache.new h size).1 (SpanCache.new h size).2 f := by
  unfold SpanCache.new
  simp only []
  obtain ⟨a1, a2, a3, a4, a5⟩ := newAux_ok size spanCacheSize h
  refine ⟨⟨?_, ?_, ?_, by rw [a1]; decide⟩, ?_⟩
  · intro i sp hsp
    obtain ⟨b1, b2, b3, b4, x, hx, hg, hl⟩ := a5 i sp hsp
    exact ⟨by omega, x, by rw [b1]; exact hx, hg, by omega⟩
  · intro i j spi spj hij hi hj
    rw [(a5 i spi hi).1, (a5 j spj hj).1]; omega
  · intro i sp hsp; rw [(a5 i sp hsp).2.2.2.1]; exact hs
  · intro f hf
    refine ⟨by rw [a2]; omega, fun i sp hsp heq => ?_⟩
    rw [(a5 i sp hsp).1] at heq; omega

/-! ## Binary.ReadBinary / ReadString -/

/-- the input of a decode: a slice inside an existing, not recycled object -/
def InputOK (h : Heap) (buf : Slice) : Prop :=
  buf.len ≤ buf.cap ∧ ∃ x, h.obj? buf.obj = some x ∧ buf.off + buf.cap ≤ x.data.length ∧ x.owner ≠ .freed

/-- every byte outside the slice `s` is what it was -/
def OnlyWrote (h h' : Heap) (s : Slice) : Prop :=
  ∀ o p, o < h.size → ¬(o = s.obj ∧ s.off ≤ p ∧ p < s.off + s.len) → h'.byte? o p = h.byte? o p

theorem view_of_onlyWrote {h h' : Heap} {s f : Slice} (hw : OnlyWrote h h' s) (hf : f.obj < h.size)
    (hlen : f.len ≤ f.cap) (hd : s.CapDisjoint f) (hsl : s.len ≤ s.cap) : h'.view f = h.view f := by
  unfold Heap.view
  apply bytes_congr
  intro q h1 h2
  apply hw f.obj q hf
  intro ⟨e1, e2, e3⟩
  unfold Slice.CapDisjoint at hd
  rcases hd with d | d | d | d | d
  · omega
  · omega
  · exact d e1.symm
  · omega
  · omega

/-- read_fresh + value (Binary.ReadBinary / ReadString, span cache on or off, contended or not):
    on success the result has `len ≤ cap`, lies in a Go-heap object, its capacity region is disjoint from
    the input and from every slice that respects the span reserve lines (every earlier result does);
    it holds the bytes `buf[4:l]`; nothing but the result's own bytes was written; no fault; the cache
    invariant and the reserve lines are kept (so the next decode can use this theorem again). -/
theorem binReadBinary_ok (cfg : DecCfg) (c : SpanCache) (h : Heap) (buf : Slice) (s : Slice) (l : Nat)
    (c' : SpanCache) (h' : Heap) (hc : CacheInv c h) (hin : InputOK h buf) (hb : Below c h buf)
    (hrun : binReadBinary cfg c h buf = (.ok (s, l), c', h')) :
    4 ≤ l ∧ l ≤ buf.len ∧ s.len = l - 4 ∧ s.len ≤ s.cap ∧ (cfg.spanOn = true → s.cap = s.len) ∧
    h'.view s = h.bytes buf.obj (buf.off + 4) (l - 4) ∧
    s.CapDisjoint buf ∧ (∀ f : Slice, Below c h f → s.CapDisjoint f ∧ Below c' h' f) ∧ Below c' h' s ∧
    CacheInv c' h' ∧ OnlyWrote h h' s ∧ h'.faults = h.faults ∧ h.size ≤ h'.size ∧
    ((∃ x, h'.obj? s.obj = some x ∧ x.owner = .gc ∧ s.off + s.cap ≤ x.data.length) ∧ Keeps h h') := by
  obtain ⟨hlc, xi, hxi, hbi, hfi⟩ := hin
  unfold binReadBinary at hrun
  by_cases h4 : buf.len < 4
  · rw [if_pos h4] at hrun; simp at hrun
  · rw [if_neg h4] at hrun
    simp only [] at hrun
    have hrd : (h.read buf.obj buf.off 4).2 = h := by
      unfold Heap.read; simp only []
      exact chk_read_ok h _ _ _ xi hxi (by omega) hfi
    rw [hrd] at hrun
    generalize hsz : toI32 (rd32 (h.read buf.obj buf.off 4).1) = sz at hrun
    by_cases hneg : sz < 0
    · rw [if_pos hneg] at hrun; simp at hrun
    · rw [if_neg hneg] at hrun
      generalize hn : sz.toNat = n at hrun
      by_cases hshort : buf.len < 4 + n
      · rw [if_pos hshort] at hrun; simp at hrun
      · rw [if_neg hshort] at hrun
        cases hso : cfg.spanOn
        · -- []byte(string(buf[4:l])): a fresh Go allocation
          rw [hso] at hrun
          simp only [Bool.false_eq_true, if_false, Prod.mk.injEq, Except.ok.injEq] at hrun
          obtain ⟨⟨rfl, rfl⟩, rfl, rfl⟩ := hrun
          obtain ⟨x, hx, hxg, hxl⟩ := gcAlloc_new h n (n + cfg.slack)
          have hext := extends_gcAlloc h n (n + cfg.slack)
          have hilt := obj?_lt h _ xi hxi
          have hbnd : ∀ y, (h.gcAlloc n (n + cfg.slack)).2.obj? h.size = some y → 0 + n ≤ y.data.length := by
            intro y hy; rw [hx] at hy; cases hy; omega
          have hss := sameShape_copy (h.gcAlloc n (n + cfg.slack)).2 h.size 0 buf.obj (buf.off + 4) n hbnd
          obtain ⟨x2, hx2, ho2, _, hl2⟩ := hss.obj? _ x hx
          have hold : ∀ o, o < h.size → ((h.gcAlloc n (n + cfg.slack)).2.copy h.size 0 buf.obj (buf.off + 4) n).obj? o = h.obj? o := by
            intro o ho
            rw [copy_obj?_ne _ _ _ _ _ _ o (by omega)]
            cases hy : h.obj? o with
            | some y => exact hext o y hy
            | none => have := List.getElem?_eq_none_iff.mp hy; unfold Heap.size at ho; omega
          have hExt2 : Extends h ((h.gcAlloc n (n + cfg.slack)).2.copy h.size 0 buf.obj (buf.off + 4) n) :=
            fun o y hy => by rw [hold o (obj?_lt h o y hy)]; exact hy
          simp only [gcAlloc_obj, gcAlloc_off, gcAlloc_len, gcAlloc_cap]
          refine ⟨by omega, by omega, by simp, by simp, fun hc' => by simp at hc', ?_, ?_, ?_, ?_, ?_, ?_, ?_, ?_, ?_⟩
          · simp only [Heap.view, gcAlloc_obj, gcAlloc_off, gcAlloc_len, Nat.add_sub_cancel_left]
            rw [bytes_copy _ _ _ _ _ _ xi x (hext _ xi hxi) hx (by omega) (by omega)]
            apply bytes_congr; intro q _ _; exact hext.byte? _ q xi hxi
          · unfold Slice.CapDisjoint; right; right; left; simp; omega
          · intro f hf
            exact ⟨by unfold Slice.CapDisjoint; right; right; left; simp; have := hf.1; omega,
              by rw [hss.size]; simp; have := hf.1; omega, hf.2⟩
          · refine ⟨by rw [hss.size]; simp, fun i sp hs heq => ?_⟩
            obtain ⟨y, hy, _⟩ := (hc.spans i sp hs).buf
            have := obj?_lt h _ y hy
            simp at heq; omega
          · exact ⟨fun i sp hs => (hc.spans i sp hs).of_extends hExt2, hc.distinct, hc.sizes, hc.len⟩
          · intro o p ho _
            unfold Heap.byte?; rw [hold o ho]
          · rw [copy_faults_ok _ _ _ _ _ _ xi x (hext _ xi hxi) hx (by omega) (by omega) hfi
              (by rw [hxg]; decide) (by rw [hxg]; intro hc'; cases hc')]
            rfl
          · rw [hss.size]; simp
          · exact ⟨⟨x2, hx2, by rw [ho2]; exact hxg, by simp; omega⟩, Keeps.of_extends hExt2⟩
        · -- spanCache.Copy(buf[4:l])
          rw [hso] at hrun
          simp only [if_true, Prod.mk.injEq, Except.ok.injEq] at hrun
          obtain ⟨m1, m2, m3, m4, m5, m6, ⟨xm, hxm, hxmg, hxmb⟩, m8, m9⟩ := cache_make_ok c h n cfg.contended hc
          generalize c.make h n cfg.contended = mk at hrun m1 m2 m3 m4 m5 m6 hxm hxmb m8 m9
          obtain ⟨⟨rfl, rfl⟩, rfl, rfl⟩ := hrun
          have hbnd : ∀ y, mk.2.2.obj? mk.1.obj = some y → mk.1.off + n ≤ y.data.length := by
            intro y hy; rw [hxm] at hy; cases hy; omega
          have hss := sameShape_copy mk.2.2 mk.1.obj mk.1.off buf.obj (buf.off + 4) n hbnd
          have hk := Keeps.of_sameShape hss
          obtain ⟨x2, hx2, ho2, _, hl2⟩ := hss.obj? _ xm hxm
          have hsz : h.size ≤ mk.2.2.size := (Keeps.of_extends m4).size
          refine ⟨by omega, by omega, by rw [m1]; omega, by omega, fun _ => by rw [m1, m2], ?_, (m9 buf hb).1, ?_, ?_, ?_, ?_, ?_, ?_, ?_⟩
          · simp only [Heap.view, m1, Nat.add_sub_cancel_left]
            rw [bytes_copy _ _ _ _ _ _ xi xm (m4 _ xi hxi) hxm (by omega) (by omega)]
            apply bytes_congr; intro q _ _; exact m4.byte? _ q xi hxi
          · intro f hf
            exact ⟨(m9 f hf).1, by rw [hss.size]; exact (m9 f hf).2.1, (m9 f hf).2.2⟩
          · exact ⟨by rw [hss.size]; exact m8.1, m8.2⟩
          · refine ⟨fun i sp hs => ?_, m3.distinct, m3.sizes, m3.len⟩
            obtain ⟨y, hy, hyg, hyb⟩ := (m3.spans i sp hs).buf
            obtain ⟨y', hy', hyo, _, hyl⟩ := hss.obj? _ y hy
            exact ⟨(m3.spans i sp hs).read_le, y', hy', by rw [hyo]; exact hyg, by omega⟩
          · intro o p ho hnot
            rw [byte?_copy_out mk.2.2 _ _ _ _ _ o p hbnd (by
              by_cases heq : o = mk.1.obj
              · subst heq
                right
                rcases Nat.lt_or_ge p mk.1.off with hlt | hge
                · exact Or.inl hlt
                · right
                  rcases Nat.lt_or_ge p (mk.1.off + n) with hlt2 | hge2
                  · exact absurd ⟨rfl, hge, by rw [m1]; exact hlt2⟩ hnot
                  · exact hge2
              · exact Or.inl heq)]
            cases hy : h.obj? o with
            | some y => exact m4.byte? o p y hy
            | none => have := List.getElem?_eq_none_iff.mp hy; unfold Heap.size at ho; omega
          · rw [copy_faults_ok _ _ _ _ _ _ xi xm (m4 _ xi hxi) hxm (by omega) (by omega) hfi
              (by rw [hxmg]; decide) (by rw [hxmg]; intro hc'; cases hc')]
            exact m5
          · rw [hss.size]; exact hsz
          · exact ⟨⟨x2, hx2, by rw [ho2]; exact hxmg, by omega⟩, (Keeps.of_extends m4).trans hk⟩

/-- the outcome of Binary.ReadBinary as far as it does not involve the allocator: the error, or `l` -/
def binHead (h : Heap) (buf : Slice) : Except (TErr × Nat) Nat :=
  if buf.len < 4 then .error (errShort, 0) else
  let sz := toI32 (rd32 (h.bytes buf.obj buf.off 4))
  if sz < 0 then .error (errNeg, 0) else
  if buf.len < 4 + sz.toNat then .error (errShort, 4) else .ok (4 + sz.toNat)

theorem binReadBinary_head (cfg : DecCfg) (c : SpanCache) (h : Heap) (buf : Slice) :
    (match (binReadBinary cfg c h buf).1 with
     | .ok (_, l) => Except.ok l
     | .error e => Except.error e) = binHead h buf := by
  by_cases h4 : buf.len < 4
  · have e : (binReadBinary cfg c h buf).1 = .error (errShort, 0) := by
      unfold binReadBinary; rw [if_pos h4]
    rw [e]; unfold binHead; rw [if_pos h4]
  · by_cases hneg : toI32 (rd32 (h.bytes buf.obj buf.off 4)) < 0
    · have e : (binReadBinary cfg c h buf).1 = .error (errNeg, 0) := by
        unfold binReadBinary; rw [if_neg h4]; simp only [Heap.read, hneg, ↓reduceIte]
      rw [e]; unfold binHead; rw [if_neg h4]; simp only [hneg, ↓reduceIte]
    · by_cases hshort : buf.len < 4 + (toI32 (rd32 (h.bytes buf.obj buf.off 4))).toNat
      · have e : (binReadBinary cfg c h buf).1 = .error (errShort, 4) := by
          unfold binReadBinary; rw [if_neg h4]; simp only [Heap.read, hneg, hshort, ↓reduceIte]
        rw [e]; unfold binHead; rw [if_neg h4]; simp only [hneg, hshort, ↓reduceIte]
      · have e : ∃ s, (binReadBinary cfg c h buf).1 = .ok (s, 4 + (toI32 (rd32 (h.bytes buf.obj buf.off 4))).toNat) := by
          unfold binReadBinary; rw [if_neg h4]; simp only [Heap.read, hneg, hshort, ↓reduceIte]
          cases cfg.spanOn
          · exact ⟨_, rfl⟩
          · exact ⟨_, rfl⟩
        obtain ⟨s, e⟩ := e
        rw [e]; unfold binHead; rw [if_neg h4]; simp only [hneg, hshort, ↓reduceIte]

/-- a failing Binary.ReadBinary changes nothing (the span cache is not consulted, nothing is allocated) -/
theorem binReadBinary_err (cfg : DecCfg) (c : SpanCache) (h : Heap) (buf : Slice) (e : TErr × Nat)
    (c' : SpanCache) (h' : Heap) (hin : InputOK h buf)
    (hrun : binReadBinary cfg c h buf = (.error e, c', h')) : c' = c ∧ h' = h := by
  obtain ⟨_, xi, hxi, hbi, hfi⟩ := hin
  unfold binReadBinary at hrun
  by_cases h4 : buf.len < 4
  · rw [if_pos h4] at hrun; simp only [Prod.mk.injEq] at hrun; exact ⟨hrun.2.1.symm, hrun.2.2.symm⟩
  · rw [if_neg h4] at hrun
    simp only [] at hrun
    have hrd : (h.read buf.obj buf.off 4).2 = h := by
      unfold Heap.read; simp only []
      exact chk_read_ok h _ _ _ xi hxi (by omega) hfi
    rw [hrd] at hrun
    generalize toI32 (rd32 (h.read buf.obj buf.off 4).1) = sz at hrun
    by_cases hneg : sz < 0
    · rw [if_pos hneg] at hrun; simp only [Prod.mk.injEq] at hrun; exact ⟨hrun.2.1.symm, hrun.2.2.symm⟩
    · rw [if_neg hneg] at hrun
      by_cases hshort : buf.len < 4 + sz.toNat
      · rw [if_pos hshort] at hrun; simp only [Prod.mk.injEq] at hrun; exact ⟨hrun.2.1.symm, hrun.2.2.symm⟩
      · rw [if_neg hshort] at hrun
        cases hso : cfg.spanOn <;> (rw [hso] at hrun; simp at hrun)

/-! ## reader operations never touch Go-heap objects (other than an explicit ReadBinary destination) -/

theorem assert_gckept (h : Heap) (c : Bool) : GcKept h (h.assert c) := fun o x hx _ => by
  rw [assert_obj?]; exact hx

theorem next_gckept (r : MRd) (h : Heap) (n : Int) (hi : RInv r h) : GcKept h (r.next h n).2.2 := by
  unfold MRd.next
  by_cases hneg : n < 0
  · rw [if_pos hneg]; exact GcKept.refl _
  · rw [if_neg hneg]
    cases hacq : r.acquire h n.toNat with
    | none => exact GcKept.refl _
    | some res =>
      obtain ⟨m, r1, h1⟩ := res
      obtain ⟨a, _⟩ := acquire_ok r h _ m r1 h1 hi hacq
      simp only []
      split
      · exact a.gckept
      · exact a.gckept.trans (assert_gckept _ _)

theorem peek_gckept (r : MRd) (h : Heap) (n : Int) (hi : RInv r h) : GcKept h (r.peek h n).2.2 := by
  unfold MRd.peek
  by_cases hneg : n < 0
  · rw [if_pos hneg]; exact GcKept.refl _
  · rw [if_neg hneg]
    cases hacq : r.acquire h n.toNat with
    | none => exact GcKept.refl _
    | some res =>
      obtain ⟨m, r1, h1⟩ := res
      obtain ⟨a, _⟩ := acquire_ok r h _ m r1 h1 hi hacq
      simp only []
      split
      · exact a.gckept
      · exact a.gckept.trans (assert_gckept _ _)

theorem skip_gckept (r : MRd) (h : Heap) (n : Int) (hi : RInv r h) : GcKept h (r.skip h n).2.2 := by
  unfold MRd.skip
  by_cases hneg : n < 0
  · rw [if_pos hneg]; exact GcKept.refl _
  · rw [if_neg hneg]
    cases hacq : r.acquire h n.toNat with
    | none => exact GcKept.refl _
    | some res =>
      obtain ⟨m, r1, h1⟩ := res
      obtain ⟨a, _⟩ := acquire_ok r h _ m r1 h1 hi hacq
      simp only []
      split <;> exact a.gckept

theorem release_gckept (r : MRd) (h : Heap) (hi : RInv r h) : GcKept h (r.release h).2 :=
  fun o x hx hg => (release_ok r h hi).2.1 o x hx (by rw [hg]; decide)

theorem env_gckept {h h' : Heap} (he : Env h h') : ∀ o x, h.obj? o = some x → x.owner = .gc →
    ∃ x', h'.obj? o = some x' ∧ x'.owner = .gc ∧ x'.data = x.data := fun o x hx hg => by
  obtain ⟨x', hx', ho, _, _, hd⟩ := he.keep o x hx
  exact ⟨x', hx', by rw [ho]; exact hg, hd (by rw [hg]; decide)⟩

/-- ReadBinary into a destination leaves every OTHER Go-heap object alone -/
theorem readBinary_gckept (r : MRd) (h : Heap) (bs : Slice) (hi : RInv r h) :
    ∀ o x, h.obj? o = some x → x.owner = .gc → o ≠ bs.obj → (r.readBinary h bs).2.2.obj? o = some x := by
  intro o x hx hg hne
  unfold MRd.readBinary
  cases hacq : r.acquire h bs.len with
  | none => exact hx
  | some res =>
    obtain ⟨m0, r1, h1⟩ := res
    obtain ⟨a, _⟩ := acquire_ok r h _ m0 r1 h1 hi hacq
    simp only []
    rw [copy_obj?_ne _ _ _ _ _ _ o hne, assert_obj?]
    exact a.gckept o x hx hg

/-- read_fresh + value (BufferReader.ReadBinary / ReadString): on success the result is the full slice
    (cap = len) of a Go-heap object that did not exist before the call; the reader invariant is kept and
    every older Go-heap object (every earlier result) is left alone. -/
theorem brReadBinary_ok (r : MRd) (h : Heap) (s : Slice) (e : Option TErr) (r' : MRd) (h' : Heap)
    (hi : RInv r h) (hrun : brReadBinary r h = ((some s, e), r', h')) :
    RInv r' h' ∧ h.size ≤ s.obj ∧ s.off = 0 ∧ s.cap = s.len ∧
    (∃ x, h'.obj? s.obj = some x ∧ x.owner = .gc ∧ x.data.length = s.cap) ∧ GcKept h h' := by
  unfold brReadBinary at hrun
  have hn := next_ok r h 4 hi
  have hg := next_gckept r h 4 hi
  generalize r.next h 4 = res at hrun hn hg
  obtain ⟨res1, r1, h1⟩ := res
  cases res1 with
  | ok b =>
    simp only [] at hrun
    obtain ⟨_, hlen, hread⟩ := hn.2 b rfl
    have hrd : (h1.read b.obj b.off 4).2 = h1 := by
      unfold Heap.read; simp only []
      obtain ⟨x, hx, hb, hf⟩ := hread (by rw [hlen]; decide)
      exact chk_read_ok h1 _ _ _ x hx (by rw [hlen] at hb; exact hb) hf
    rw [hrd] at hrun
    generalize toI32 (rd32 (h1.read b.obj b.off 4).1) = sz at hrun
    by_cases hneg : sz < 0
    · rw [if_pos hneg] at hrun; simp at hrun
    · rw [if_neg hneg] at hrun
      generalize sz.toNat = n at hrun
      obtain ⟨x, hx, hxg, hxl⟩ := gcAlloc_new h1 n n
      have hext := extends_gcAlloc h1 n n
      have hi1 : RInv r1 (h1.gcAlloc n n).2 := hn.1.inv.of_extends hext (by rw [gcAlloc_faults]; exact hn.1.inv.nofault)
      have hdst : GcDst (h1.gcAlloc n n).2 (h1.gcAlloc n n).1 := ⟨x, hx, hxg, by simp [hxl]⟩
      have hrb := readBinary_ok r1 _ _ hi1 hdst
      have hrg := readBinary_gckept r1 (h1.gcAlloc n n).2 (h1.gcAlloc n n).1 hi1
      generalize r1.readBinary (h1.gcAlloc n n).2 (h1.gcAlloc n n).1 = rb at hrun hrb hrg
      obtain ⟨rb1, r2, h2⟩ := rb
      have hsz1 : h.size ≤ h1.size := hn.1.keeps.size
      have hfin : RInv r2 h2 ∧ h.size ≤ (h1.gcAlloc n n).1.obj ∧ (h1.gcAlloc n n).1.off = 0 ∧
          (h1.gcAlloc n n).1.cap = (h1.gcAlloc n n).1.len ∧
          (∃ x, h2.obj? (h1.gcAlloc n n).1.obj = some x ∧ x.owner = .gc ∧ x.data.length = (h1.gcAlloc n n).1.cap) ∧
          GcKept h h2 := by
        obtain ⟨x2, hx2, ho2, _, hl2⟩ := hrb.keeps _ x hx
        refine ⟨hrb.inv, by simp; exact hsz1, rfl, rfl, ⟨x2, by simpa using hx2, by rw [ho2]; exact hxg,
          by simp [hl2, hxl]⟩, ?_⟩
        intro o y hy hyg
        have h1y := hg o y hy hyg
        exact hrg o y (hext o y h1y) hyg (by have := obj?_lt h1 o y h1y; simp; omega)
      cases rb1 with
      | none => simp at hrun
      | some p =>
        obtain ⟨m, e'⟩ := p
        cases e' with
        | none =>
          simp only [Prod.mk.injEq, Option.some.injEq] at hrun
          obtain ⟨⟨rfl, _⟩, rfl, rfl⟩ := hrun
          exact hfin
        | some e' =>
          simp only [Prod.mk.injEq, Option.some.injEq] at hrun
          obtain ⟨⟨rfl, _⟩, rfl, rfl⟩ := hrun
          exact hfin
  | fail e' =>
    cases e' with
    | some e' => simp at hrun
    | none => simp at hrun
  | nofuel => simp at hrun

/-! ## what the user does afterwards -/

/-- mutate_input (and reuse): a user write anywhere inside the capacity region of `f` leaves every slice
    whose capacity region is disjoint from `f` unchanged -/
theorem userWrite_disjoint (h : Heap) (f s : Slice) (p : Nat) (d : Bytes)
    (hp : f.off ≤ p ∧ p + d.length ≤ f.off + f.cap)
    (hf : ∀ x, h.obj? f.obj = some x → f.off + f.cap ≤ x.data.length)
    (hd : s.CapDisjoint f) (hsl : s.len ≤ s.cap) : (h.userWrite f.obj p d).view s = h.view s := by
  unfold Heap.view Heap.userWrite
  apply bytes_congr
  intro q h1 h2
  apply byte?_setData_out h f.obj p d s.obj q (fun x hx => by have := hf x hx; omega)
  unfold Slice.CapDisjoint at hd
  rcases hd with e | e | e | e | e
  · omega
  · right; omega
  · exact Or.inl e
  · right; omega
  · right; omega

/-- append_result: `append(s, d...)` writes either inside the capacity region of `s` or into a fresh
    object; a slice whose capacity region is disjoint from that of `s` is unchanged, and the appended
    slice holds the old content followed by `d` -/
theorem goAppend_ok (h : Heap) (s : Slice) (d : Bytes) (slack : Nat)
    (hs : s.len ≤ s.cap ∧ ∃ x, h.obj? s.obj = some x ∧ s.off + s.cap ≤ x.data.length) :
    (goAppend h s d slack).2.view (goAppend h s d slack).1 = h.view s ++ d ∧
    ∀ f : Slice, f.obj < h.size → f.len ≤ f.cap → f.CapDisjoint s →
      (goAppend h s d slack).2.view f = h.view f := by
  obtain ⟨hlen, x, hx, hb⟩ := hs
  unfold goAppend
  by_cases hfit : s.len + d.length ≤ s.cap
  · rw [if_pos hfit]
    simp only []
    have hbnd : ∀ y, h.obj? s.obj = some y → s.off + s.len + d.length ≤ y.data.length := by
      intro y hy; rw [hx] at hy; cases hy; omega
    refine ⟨?_, fun f _ hfl hd => ?_⟩
    · unfold Heap.view Heap.userWrite
      simp only []
      apply List.ext_getElem?; intro i
      rw [bytes_getElem?]
      by_cases hi1 : i < s.len
      · rw [if_pos (by omega), byte?_setData_out h _ _ _ _ _ hbnd (Or.inr (Or.inl (by omega))),
          List.getElem?_append_left (by rw [bytes_length h _ _ _ x hx (by omega)]; exact hi1), bytes_getElem?,
          if_pos hi1]
      · have hbl : (h.bytes s.obj s.off s.len).length = s.len := bytes_length h _ _ _ x hx (by omega)
        rw [List.getElem?_append_right (by rw [hbl]; omega), hbl]
        by_cases hi2 : i < s.len + d.length
        · rw [if_pos hi2]
          unfold Heap.byte?
          rw [setData_obj?, hx]
          simp only [Option.map_some, Option.bind_some, if_true]
          rw [splice_getElem?_in _ _ _ _ (by omega) (by omega)]
          congr 1; omega
        · rw [if_neg hi2, List.getElem?_eq_none (by omega)]
    · exact userWrite_disjoint h ⟨s.obj, s.off, s.len, s.cap⟩ f (s.off + s.len) d (by simp; omega)
        (fun y hy => by rw [hx] at hy; cases hy; exact hb) hd hfl
  · rw [if_neg hfit]
    simp only []
    obtain ⟨y, hy, hyg, hyl⟩ := gcAlloc_new h (s.len + d.length) (s.len + d.length + slack)
    have hvl : (h.view s).length = s.len := bytes_length h _ _ _ x hx (by omega)
    generalize h.view s = v at hvl ⊢
    generalize hh1 : (h.gcAlloc (s.len + d.length) (s.len + d.length + slack)).2 = h1 at hy
    have hext : Extends h h1 := by rw [← hh1]; exact extends_gcAlloc h _ _
    have hb1 : ∀ z, h1.obj? h.size = some z → 0 + v.length ≤ z.data.length := by
      intro z hz; rw [hy] at hz; cases hz; omega
    have hss1 := sameShape_setData h1 h.size 0 v hb1
    obtain ⟨y1, hy1, _, _, hyl1⟩ := hss1.obj? _ y hy
    have hb2 : ∀ z, (h1.setData h.size 0 v).obj? h.size = some z → s.len + d.length ≤ z.data.length := by
      intro z hz; rw [hy1] at hz; cases hz; omega
    refine ⟨?_, fun f hf _ _ => ?_⟩
    · simp only [Heap.view, gcAlloc_obj, gcAlloc_off, gcAlloc_len, Heap.userWrite]
      apply List.ext_getElem?; intro i
      rw [bytes_getElem?, Nat.zero_add]
      by_cases hi1 : i < s.len
      · rw [if_pos (by omega), byte?_setData_out _ _ _ _ _ _ hb2 (Or.inr (Or.inl (by omega))),
          List.getElem?_append_left (by rw [hvl]; exact hi1)]
        unfold Heap.byte?
        rw [setData_obj?, hy]
        simp only [Option.map_some, Option.bind_some, if_true]
        rw [splice_getElem?_in _ _ _ _ (by omega) (by omega)]
        simp
      · rw [List.getElem?_append_right (by rw [hvl]; omega)]
        by_cases hi2 : i < s.len + d.length
        · rw [if_pos hi2]
          unfold Heap.byte?
          rw [setData_obj?, hy1]
          simp only [Option.map_some, Option.bind_some, if_true]
          rw [splice_getElem?_in _ _ _ _ (by omega) (by omega)]
          congr 1; rw [hvl]
        · rw [if_neg hi2, List.getElem?_eq_none (by rw [hvl]; omega)]
    · simp only [Heap.view, gcAlloc_obj, Heap.userWrite]
      apply bytes_congr
      intro q _ _
      rw [byte?_setData_out _ _ _ _ _ _ hb2 (Or.inl (by omega)),
        byte?_setData_out _ _ _ _ _ _ hb1 (Or.inl (by omega))]
      cases hz : h.obj? f.obj with
      | some z => exact hext.byte? _ q z hz
      | none => have := List.getElem?_eq_none_iff.mp hz; unfold Heap.size at hf; omega

end Verif.Mem

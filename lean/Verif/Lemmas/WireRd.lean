/- Lemmas/WireRd: the reader model `Rd` (Model/Reader.lean) satisfies the cursor contract of
   Spec/WireCursor for every state and every source script, with operational liveness `Live`:
   Next/ReadBinary, whenever they succeed, hand out exactly the next bytes of the remaining stream. -/
import Verif.Lemmas.WireS
namespace Verif.Wire


/-- the representation invariant of the reader model that the content lemmas need -/
def RInv (r : Rd) : Prop := r.ri ≤ r.buf.length ∧ (r.cap = 0 → r.buf = [])

theorem pow2ceilAux_ge (fuel c n : Nat) : c ≤ pow2ceilAux fuel c n := by
  induction fuel generalizing c with
  | zero => simp [pow2ceilAux]
  | succ f ih =>
    simp only [pow2ceilAux]
    split
    · omega
    · have := ih (c * 2); omega

theorem pow2ceil_pos (n : Nat) : 0 < pow2ceil n := by
  have := pow2ceilAux_ge 64 1 n; unfold pow2ceil; omega

theorem src_read_spec (s : Src) (room : Nat) :
    (s.read room).1 ++ (s.read room).2.2.stream = s.stream ∧ (s.read room).1.length ≤ room := by
  unfold Src.read
  split
  · simp
  · rename_i r rest _
    simp only [List.take_append_drop, List.length_take, true_and]
    omega

/-- the read loop keeps the remaining stream, the cursor and the invariant; what it reports is
    buffered; it reports less than asked only with an error recorded -/
theorem readLoop_spec (fuel i : Nat) (r : Rd) (n m : Nat) (r1 : Rd) (hI : RInv r)
    (h : Rd.readLoop fuel i r n = some (m, r1)) :
    RInv r1 ∧ remaining r1 = remaining r ∧ r1.ri = r.ri ∧ m ≤ r1.buf.length - r1.ri ∧ (m < n → r1.err.isSome) := by
  induction fuel generalizing i r with
  | zero => simp [Rd.readLoop] at h
  | succ f ih =>
    rw [Rd.readLoop] at h
    split at h
    · simp at h
      obtain ⟨h1, h2⟩ := h
      subst h2
      exact ⟨hI, rfl, rfl, by simp [← h1], by intro; rfl⟩
    · have hs := src_read_spec r.src (r.cap - r.buf.length)
      generalize hres : r.src.read (r.cap - r.buf.length) = res at h hs
      obtain ⟨d, e, s'⟩ := res
      simp only at h hs
      have hI' : RInv { r with buf := r.buf ++ d, src := s' } := by
        refine ⟨by simp; have := hI.1; omega, ?_⟩
        intro hc
        simp only at hc
        have hb := hI.2 hc
        have : d.length ≤ 0 := by have := hs.2; rw [hc] at this; simpa using this
        have hd : d = [] := List.eq_nil_of_length_eq_zero (by omega)
        simp [hb, hd]
      have hrem : remaining { r with buf := r.buf ++ d, src := s' } = remaining r := by
        simp only [remaining]
        rw [List.drop_append_of_le_length hI.1, List.append_assoc, hs.1]
      cases e with
      | some err =>
        simp at h
        obtain ⟨h1, h2⟩ := h
        subst h2
        exact ⟨hI', hrem, rfl, by simp [← h1], by intro; rfl⟩
      | none =>
        simp only at h
        split at h
        · simp at h
          obtain ⟨h1, h2⟩ := h
          subst h2
          rename_i hle
          refine ⟨hI', hrem, rfl, ?_, ?_⟩
          · rw [← h1]; exact hle
          · intro hlt; omega
        · split at h
          · obtain ⟨a, b, c, d', e'⟩ := ih 0 _ hI' h
            exact ⟨a, by rw [b, hrem], by rw [c], d', e'⟩
          · obtain ⟨a, b, c, d', e'⟩ := ih (i + 1) _ hI' h
            exact ⟨a, by rw [b, hrem], by rw [c], d', e'⟩


theorem setCap_spec (r : Rd) (c : Nat) (hc : 0 < c) (hI : RInv r) :
    RInv { r with cap := c, readOnly := false } ∧
    remaining { r with cap := c, readOnly := false } = remaining r := by
  refine ⟨⟨hI.1, ?_⟩, rfl⟩
  intro h; simp at h; omega

theorem fresh_spec (r : Rd) (c : Nat) (hc : 0 < c) (h0 : r.cap = 0) (hI : RInv r) :
    RInv { r with buf := [], cap := c, readOnly := false } ∧
    remaining { r with buf := [], cap := c, readOnly := false } = remaining r := by
  have hb := hI.2 h0
  have hri : r.ri = 0 := by have := hI.1; rw [hb] at this; simpa using this
  refine ⟨⟨by simp [hri], by intro h; simp at h; omega⟩, by simp [remaining, hb]⟩

/-- phases 2 and 3 of acquireSlow, named -/
def phase2 (r : Rd) (n : Nat) : Rd :=
  if r.cap = 0 then
    let m0 := statsMax r.stats
    let m1 := if m0 < Facts.defaultBufSize then Facts.defaultBufSize else m0
    let m2 := doubleUntil 64 m1 n
    { r with buf := [], cap := pow2ceil m2, readOnly := false }
  else r
def phase3 (r1 : Rd) (n : Nat) : Rd :=
  if n > r1.cap - r1.ri then
    { r1 with cap := pow2ceil (growCap 64 (r1.cap * 2) r1.ri n), readOnly := false }
  else r1

theorem prepare_eq (r : Rd) (n : Nat) : r.prepare n = phase3 (phase2 r n) n := rfl

theorem phase2_spec (r : Rd) (n : Nat) (hI : RInv r) :
    RInv (phase2 r n) ∧ remaining (phase2 r n) = remaining r ∧ (phase2 r n).ri = r.ri := by
  unfold phase2
  by_cases hc : r.cap = 0
  · rw [if_pos hc]
    obtain ⟨a, b⟩ := fresh_spec r _ (pow2ceil_pos _) hc hI
    exact ⟨a, b, rfl⟩
  · rw [if_neg hc]; exact ⟨hI, rfl, rfl⟩

theorem phase3_spec (r1 : Rd) (n : Nat) (hI : RInv r1) :
    RInv (phase3 r1 n) ∧ remaining (phase3 r1 n) = remaining r1 ∧ (phase3 r1 n).ri = r1.ri := by
  unfold phase3
  by_cases h : n > r1.cap - r1.ri
  · rw [if_pos h]
    obtain ⟨a, b⟩ := setCap_spec r1 _ (pow2ceil_pos (growCap 64 (r1.cap * 2) r1.ri n)) hI
    exact ⟨a, b, rfl⟩
  · rw [if_neg h]; exact ⟨hI, rfl, rfl⟩

theorem prepare_spec (r : Rd) (n : Nat) (hI : RInv r) :
    RInv (r.prepare n) ∧ remaining (r.prepare n) = remaining r ∧ (r.prepare n).ri = r.ri := by
  rw [prepare_eq]
  obtain ⟨a, b, c⟩ := phase2_spec r n hI
  obtain ⟨a', b', c'⟩ := phase3_spec _ n a
  exact ⟨a', by rw [b', b], by rw [c', c]⟩

theorem acquire_spec (r : Rd) (n m : Nat) (r1 : Rd) (hI : RInv r) (h : r.acquire n = some (m, r1)) :
    RInv r1 ∧ remaining r1 = remaining r ∧ r1.ri = r.ri ∧ m ≤ r1.buf.length - r1.ri ∧ (m < n → r1.err.isSome) := by
  unfold Rd.acquire at h
  split at h
  · simp at h; obtain ⟨h1, h2⟩ := h; subst h2
    rename_i hle
    exact ⟨hI, rfl, rfl, by omega, by intro; omega⟩
  · unfold Rd.acquireSlow at h
    split at h
    · simp at h; obtain ⟨h1, h2⟩ := h; subst h2
      rename_i he
      exact ⟨hI, rfl, rfl, by omega, by intro; exact he⟩
    · obtain ⟨p1, p2, p3⟩ := prepare_spec r n hI
      obtain ⟨a, b, c, d, e⟩ := readLoop_spec _ 0 _ n m r1 p1 h
      exact ⟨a, by rw [b, p2], by rw [c, p3], d, e⟩

/-- Next, when it succeeds, hands out exactly the next n bytes of the remaining stream -/
theorem next_sound (r : Rd) (n : Nat) (bs : Bytes) (r' : Rd) (hI : RInv r) (h : r.next (n : Int) = (.ok bs, r')) :
    bs = (remaining r).take n ∧ bs.length = n ∧ remaining r' = (remaining r).drop n ∧
    r'.readLen = r.readLen + n ∧ RInv r' := by
  unfold Rd.next at h
  rw [if_neg (by omega)] at h
  simp only [Int.toNat_natCast] at h
  generalize ha : r.acquire n = a at h
  cases a with
  | none => simp at h
  | some p =>
    obtain ⟨m, r1⟩ := p
    obtain ⟨i1, i2, i3, i4, _⟩ := acquire_spec r n m r1 hI ha
    simp only at h
    split at h
    · simp at h
    · rename_i hle
      simp at h
      obtain ⟨h1, h2⟩ := h
      subst h2
      have hn : n ≤ r1.buf.length - r1.ri := by omega
      refine ⟨?_, ?_, ?_, ?_, ?_⟩
      · rw [← h1, ← i2]; simp only [remaining]
        rw [List.take_append_of_le_length (by simp; omega)]
      · rw [← h1]; simp; omega
      · rw [← i2]; simp only [remaining]
        rw [List.drop_append_of_le_length (by simp; omega), List.drop_drop]
      · simp [Rd.readLen, i3]
      · exact ⟨by simp; have := i1.1; omega, i1.2⟩

/-- ReadBinary(bs) with len(bs) = n, when it reports n bytes without error, copied exactly the next
    n bytes of the remaining stream -/
theorem readBinary_sound (r : Rd) (n : Nat) (out : Bytes) (r' : Rd) (hI : RInv r)
    (h : r.readBinary n = (some (out, n, none), r')) :
    out = (remaining r).take n ∧ remaining r' = (remaining r).drop n ∧
    r'.readLen = r.readLen + n ∧ RInv r' := by
  unfold Rd.readBinary at h
  generalize ha : r.acquire n = a at h
  cases a with
  | none => simp at h
  | some p =>
    obtain ⟨m, r1⟩ := p
    obtain ⟨i1, i2, i3, i4, _⟩ := acquire_spec r n m r1 hI ha
    simp only at h
    simp at h
    obtain ⟨⟨h1, h2, h3⟩, h4⟩ := h
    subst h4
    have hm : (if m > n then n else m) = n := by split <;> omega
    have hn : n ≤ r1.buf.length - r1.ri := by split at hm <;> omega
    refine ⟨?_, ?_, ?_, ?_⟩
    · rw [← h1, hm, ← i2]; simp only [remaining]
      rw [List.take_append_of_le_length (by simp; omega)]
    · rw [hm, ← i2]; simp only [remaining]
      rw [List.drop_append_of_le_length (by simp; omega), List.drop_drop]
    · simp [Rd.readLen, i3, hm]
    · exact ⟨by simp [hm]; have := i1.1; omega, i1.2⟩


/-- `Live r n`: however the next n bytes are asked for — in any pieces, by Next or by ReadBinary —
    every request is served (the reader state, under its source script, can still deliver n bytes) -/
inductive Live : Rd → Nat → Prop
  | mk (r : Rd) (n : Nat)
      (nextOk : ∀ k, k ≤ n → ∃ bs r1, r.next (k : Int) = (.ok bs, r1))
      (rbOk : ∀ k, k ≤ n → ∃ out r1, r.readBinary k = (some (out, k, none), r1))
      (nextLive : ∀ k bs r1, 0 < k → k ≤ n → r.next (k : Int) = (.ok bs, r1) → Live r1 (n - k))
      (rbLive : ∀ k out r1, 0 < k → k ≤ n → r.readBinary k = (some (out, k, none), r1) → Live r1 (n - k)) :
      Live r n

theorem Live.mono' {r : Rd} {N : Nat} (h : Live r N) : ∀ n, n ≤ N → Live r n := by
  induction h with
  | mk r N a b c d ihc ihd =>
    intro n hn
    refine .mk r n (fun k hk => a k (by omega)) (fun k hk => b k (by omega)) ?_ ?_
    · intro k bs r1 hk0 hk h
      exact ihc k bs r1 hk0 (by omega) h (n - k) (by omega)
    · intro k out r1 hk0 hk h
      exact ihd k out r1 hk0 (by omega) h (n - k) (by omega)

theorem next_zero (r : Rd) (bs : Bytes) (r' : Rd) (h : r.next ((0 : Nat) : Int) = (.ok bs, r')) : r' = r := by
  simp [Rd.next, Rd.acquire] at h
  rw [← h.2]

theorem readBinary_zero (r : Rd) (out : Bytes) (r' : Rd) (h : r.readBinary 0 = (some (out, 0, none), r')) :
    r' = r := by
  simp [Rd.readBinary, Rd.acquire] at h
  rw [← h.2]

/-- the reader model satisfies the cursor contract with `Live` as liveness — for every state and
    every source script -/
theorem liveCursor : Cursor remaining (fun r n => RInv r ∧ Live r n) where
  le r n h := by
    obtain ⟨hI, hl⟩ := h
    cases hl with
    | mk _ _ a b c d =>
      obtain ⟨bs, r1, h1⟩ := a n (Nat.le_refl n)
      obtain ⟨e1, e2, _⟩ := next_sound r n bs r1 hI h1
      rw [e1] at e2; simp at e2; omega
  mono r n m h := ⟨h.1, h.2.mono' n (by omega)⟩
  next r n h := by
    obtain ⟨hI, hl⟩ := h
    cases hl with
    | mk _ _ a b c d =>
      obtain ⟨bs, r1, h1⟩ := a n (Nat.le_refl n)
      obtain ⟨e1, e2, e3, e4, e5⟩ := next_sound r n bs r1 hI h1
      refine ⟨r1, by rw [h1, e1], e3, e4, ?_⟩
      intro m hm
      refine ⟨e5, ?_⟩
      by_cases hn : n = 0
      · subst hn
        have := next_zero r bs r1 h1
        subst this
        simpa using hm.2
      · cases hm.2 with
        | mk _ _ a' b' c' d' =>
          have := c' n bs r1 (by omega) (by omega) h1
          simpa using this
  readBinary r n h := by
    obtain ⟨hI, hl⟩ := h
    cases hl with
    | mk _ _ a b c d =>
      obtain ⟨out, r1, h1⟩ := b n (Nat.le_refl n)
      obtain ⟨e1, e3, e4, e5⟩ := readBinary_sound r n out r1 hI h1
      refine ⟨r1, by rw [h1, e1], e3, e4, ?_⟩
      intro m hm
      refine ⟨e5, ?_⟩
      by_cases hn : n = 0
      · subst hn
        have := readBinary_zero r out r1 h1
        subst this
        simpa using hm.2
      · cases hm.2 with
        | mk _ _ a' b' c' d' =>
          have := d' n out r1 (by omega) (by omega) h1
          simpa using this


theorem rinv_newDefault (src : Src) : RInv (Rd.newDefault src) := by
  simp [RInv, Rd.newDefault]

theorem rinv_newBytes (data : Bytes) (cap : Nat) : RInv (Rd.newBytes data cap) := by
  unfold Rd.newBytes
  split
  · refine ⟨by simp, ?_⟩
    intro h0; simp at h0; omega
  · exact rinv_newDefault _

theorem next_zero_ok (r : Rd) : r.next ((0 : Nat) : Int) = (.ok [], r) := by
  simp [Rd.next, Rd.acquire]

theorem readBinary_zero_ok (r : Rd) : r.readBinary 0 = (some ([], 0, none), r) := by
  simp [Rd.readBinary, Rd.acquire]

/-- an executable check of `Live` (exponential; for examples) -/
def liveB : Nat → Nat → Rd → Bool
  | 0, n, _ => n == 0
  | f+1, n, r =>
    (List.range (n + 1)).all (fun k =>
      (match r.next (k : Int) with
       | (.ok _, r1) => k == 0 || liveB f (n - k) r1
       | _ => false) &&
      (match r.readBinary k with
       | (some (_, m, none), r1) => m == k && (k == 0 || liveB f (n - k) r1)
       | _ => false))

theorem live_zero (r : Rd) : Live r 0 := by
  refine .mk r 0 ?_ ?_ ?_ ?_
  · intro k hk; have : k = 0 := by omega
    subst this; exact ⟨_, _, next_zero_ok r⟩
  · intro k hk; have : k = 0 := by omega
    subst this; exact ⟨_, _, readBinary_zero_ok r⟩
  · intro k _ _ h0 hk; omega
  · intro k _ _ h0 hk; omega

theorem liveB_sound (f n : Nat) (r : Rd) (h : liveB f n r = true) : Live r n := by
  induction f generalizing n r with
  | zero =>
    simp [liveB] at h; subst h; exact live_zero r
  | succ f ih =>
    simp only [liveB, List.all_eq_true, List.mem_range, Bool.and_eq_true] at h
    refine .mk r n ?_ ?_ ?_ ?_
    · intro k hk
      have := (h k (by omega)).1
      split at this
      · rename_i bs r1 he; exact ⟨bs, r1, he⟩
      · simp at this
    · intro k hk
      have := (h k (by omega)).2
      split at this
      · rename_i out m r1 he
        simp at this
        rw [this.1] at he
        exact ⟨out, r1, he⟩
      · simp at this
    · intro k bs r1 hk0 hk he
      have := (h k (by omega)).1
      rw [he] at this
      simp at this
      rcases this with h0 | hl
      · omega
      · exact ih _ _ hl
    · intro k out r1 hk0 hk he
      have := (h k (by omega)).2
      rw [he] at this
      simp at this
      rcases this with h0 | hl
      · omega
      · exact ih _ _ hl

/-- a source that delivers the bytes one at a time with an empty read in between: live for all 3 bytes -/
example : Live (Rd.newDefault ⟨[1, 2, 3, 4], [⟨1, none⟩, ⟨0, none⟩, ⟨1, none⟩, ⟨7, some .eof⟩]⟩) 3 :=
  liveB_sound 3 3 _ (by decide)

end Verif.Wire

/- Lemmas/WireR: the buffer readers read back `enc`; they never panic, never over-report; their
   failures are protocol exceptions named after the cause. -/
import Verif.Lemmas.WireW
namespace Verif.Wire


theorem toI8_ofInt (v : Int) (h : inI8 v) : toI8 (UInt8.ofNat (ofInt 8 v)).toNat = v := by
  unfold inI8 at h; simp [toI8, ofInt, UInt8.toNat_ofNat']; split <;> omega
theorem ofInt16_lt (v : Int) : ofInt 16 v < 65536 := by simp [ofInt]; omega
theorem ofInt64_lt (v : Int) : ofInt 64 v < 18446744073709551616 := by simp [ofInt]; omega
theorem toI16_ofInt (v : Int) (h : inI16 v) : toI16 (ofInt 16 v) = v := by
  unfold inI16 at h; simp [toI16, ofInt]; split <;> omega
theorem toI32_ofInt (v : Int) (h : inI32 v) : toI32 (ofInt 32 v) = v := by
  unfold inI32 at h; simp [toI32, ofInt]; split <;> omega
theorem toI64_ofInt (v : Int) (h : inI64 v) : toI64 (ofInt 64 v) = v := by
  unfold inI64 at h; simp [toI64, ofInt]; split <;> omega

theorem binReadI32_be (n : Nat) (h : n < 4294967296) (rest : Bytes) :
    binReadI32 (be32 n ++ rest) = .ok (toI32 n, 4) := by
  simp only [binReadI32, getU32, rd32_be32 n h, List.length_append, be32_length]
  rw [if_neg (by omega), if_neg (by omega)]; rfl

theorem binReadBinary_enc (s rest : Bytes) (h : s.length < 2^31) :
    binReadBinary (be32 s.length ++ (s ++ rest)) = .ok (s, 4 + s.length) := by
  have h' : s.length < 2147483648 := by simpa using h
  unfold binReadBinary
  rw [binReadI32_be _ (by omega)]
  have : toI32 s.length = (s.length : Int) := by simp [toI32]; omega
  simp [this]
  rw [if_neg (by omega), if_neg (by omega)]
  simp [be32]


theorem binReadMessageBegin_ok (b name : Bytes) (l : Nat) (seq : Int) (h4 : ¬ b.length < 4)
    (hv : ¬ (rd32 b &&& Facts.msgVersionMask ≠ Facts.msgVersion1))
    (hb : binReadBinary (b.drop 4) = .ok (name, l)) (hl : ¬ 4 + l > b.length)
    (hs : binReadI32 (b.drop (4 + l)) = .ok (seq, 4)) :
    binReadMessageBegin b = .ok (name, ((rd32 b &&& Facts.msgTypeMask : Nat) : Int), seq, 4 + l + 4) := by
  unfold binReadMessageBegin
  simp only [getU32, bFrom, if_neg h4, if_neg hv, hb, if_neg hl, hs, orErr, Out.bind_eq, Out.bind_ok,
    Out.pure_eq]

theorem binReadMessageBegin_enc (name rest : Bytes) (typ seq : Int) (hn : name.length < 2^31) (hs : inI32 seq) :
    binReadMessageBegin (be32 (msgHeader typ) ++ be32 name.length ++ name ++ be32 (ofInt 32 seq) ++ rest) =
      .ok (name, (msgType16 typ : Int), seq, 12 + name.length) := by
  have hh : msgHeader typ < 4294967296 := by rw [msgHeader_eq]; have := msgType16_lt typ; omega
  have hv : ¬ (msgHeader typ &&& Facts.msgVersionMask ≠ Facts.msgVersion1) := by
    rw [ver_test _ hh, msgHeader_eq]; have := msgType16_lt typ; omega
  have ht : msgHeader typ &&& Facts.msgTypeMask = msgType16 typ := by
    rw [and_typeMask, msgHeader_eq]; have := msgType16_lt typ; omega
  generalize hb : be32 (msgHeader typ) ++ be32 name.length ++ name ++ be32 (ofInt 32 seq) ++ rest = b
  have e0 : b = be32 (msgHeader typ) ++ (be32 name.length ++ name ++ be32 (ofInt 32 seq) ++ rest) := by
    subst hb; simp
  have hr : rd32 b = msgHeader typ := by rw [e0, rd32_be32 _ hh]
  have hlen : b.length = 12 + name.length + rest.length := by subst hb; simp; omega
  have d4 : b.drop 4 = be32 name.length ++ (name ++ (be32 (ofInt 32 seq) ++ rest)) := by
    rw [e0, List.drop_left' (by simp)]; simp
  have d8 : b.drop (4 + (4 + name.length)) = be32 (ofInt 32 seq) ++ rest := by
    have e : b = (be32 (msgHeader typ) ++ be32 name.length ++ name) ++ (be32 (ofInt 32 seq) ++ rest) := by
      subst hb; simp
    rw [e, List.drop_left' (by simp)]
  have := binReadMessageBegin_ok b name (4 + name.length) seq (by omega) (by rw [hr]; exact hv)
    (by rw [d4]; exact binReadBinary_enc name _ hn) (by omega)
    (by rw [d8, binReadI32_be _ (ofInt32_lt seq), toI32_ofInt seq hs])
  rw [this, hr, ht]
  congr 4; omega

theorem msgType16_id (typ : Int) (h0 : 0 ≤ typ) (h1 : typ < 65536) : (msgType16 typ : Int) = typ := by
  unfold msgType16; omega

theorem tstop0 : T_STOP = 0 := by decide

theorem lt31 (n : Nat) (h : n < 2^31) : n < 4294967296 := Nat.lt_of_lt_of_le h (by decide)

theorem binReadByte_enc (x : Int) (hv : inI8 x) (rest : Bytes) :
    binReadByte (UInt8.ofNat (ofInt 8 x) :: rest) = .ok (x, 1) := by
  simp [binReadByte]
  unfold inI8 at hv; simp [toI8, ofInt]; split <;> omega

theorem binReadI16_enc (x : Int) (hv : inI16 x) (rest : Bytes) :
    binReadI16 (be16 (ofInt 16 x) ++ rest) = .ok (x, 2) := by
  simp only [binReadI16, getU16, rd16_be16 _ (ofInt16_lt x), List.length_append, be16_length]
  rw [if_neg (by omega), if_neg (by omega)]
  simp [toI16_ofInt x hv]

theorem binReadI64_enc (x : Int) (hv : inI64 x) (rest : Bytes) :
    binReadI64 (be64 (ofInt 64 x) ++ rest) = .ok (x, 8) := by
  simp only [binReadI64, getU64, rd64_be64 _ (ofInt64_lt x), List.length_append, be64_length]
  rw [if_neg (by omega), if_neg (by omega)]
  simp [toI64_ofInt x hv]

theorem binReadDouble_enc (x : Nat) (hv : x < 2^64) (rest : Bytes) :
    binReadDouble (be64 x ++ rest) = .ok (x, 8) := by
  simp only [binReadDouble, getU64, rd64_be64 _ (by simpa using hv), List.length_append, be64_length]
  rw [if_neg (by omega), if_neg (by omega)]
  simp

theorem binReadFieldBegin_enc (t : UInt8) (id : Int) (ht : t ≠ 0) (hv : inI16 id) (rest : Bytes) :
    binReadFieldBegin (t :: (be16 (ofInt 16 id) ++ rest)) = .ok (t, id, 3) := by
  have ht' : ¬ t = T_STOP := by rw [tstop0]; exact ht
  simp [binReadFieldBegin, bAt, bFrom, getU16, ht', rd16_be16 _ (ofInt16_lt id)]
  rw [if_neg (by omega), if_neg (by omega)]
  simp [toI16_ofInt id hv]

theorem binReadMapBegin_enc (kt vt : UInt8) (n : Nat) (hn : n < 4294967296) (rest : Bytes) :
    binReadMapBegin (kt :: vt :: (be32 n ++ rest)) = .ok (kt, vt, n, 6) := by
  simp [binReadMapBegin, bAt, bFrom, getU32]
  rw [if_neg (by omega), if_neg (by omega)]
  simp [rd32_be32 _ hn]
  rw [if_neg (by omega)]
  try rfl

theorem binReadListBegin_enc (et : UInt8) (n : Nat) (hn : n < 4294967296) (rest : Bytes) :
    binReadListBegin (et :: (be32 n ++ rest)) = .ok (et, n, 5) := by
  simp [binReadListBegin, bAt, bFrom, getU32]
  rw [if_neg (by omega), if_neg (by omega)]
  simp [rd32_be32 _ hn]

theorem binReadSetBegin_enc (et : UInt8) (n : Nat) (hn : n < 4294967296) (rest : Bytes) :
    binReadSetBegin (et :: (be32 n ++ rest)) = .ok (et, n, 5) := by
  simp [binReadSetBegin, bAt, bFrom, getU32]
  rw [if_neg (by omega), if_neg (by omega)]
  simp [rd32_be32 _ hn]

/-- every buffer reader returns the value whose encoding it is given, and its exact length -/
theorem binRead_encM (v : Val) (hv : v.wf) (rest : Bytes) :
    binRead v.kind (encM v ++ rest) = .ok (v, (encM v).length) := by
  cases v
  case bool b => cases b <;> simp [Val.kind, binRead, mapOk, encM, binReadBool]
  case i8 x =>
    simp only [Val.wf] at hv
    simp [Val.kind, binRead, mapOk, encM, binReadByte_enc x hv]
  case i16 x =>
    simp only [Val.wf] at hv
    simp [Val.kind, binRead, mapOk, encM, binReadI16_enc x hv]
  case i32 x =>
    simp only [Val.wf] at hv
    simp [Val.kind, binRead, mapOk, encM, binReadI32_be _ (ofInt32_lt x), toI32_ofInt x hv]
  case i64 x =>
    simp only [Val.wf] at hv
    simp [Val.kind, binRead, mapOk, encM, binReadI64_enc x hv]
  case double x =>
    simp only [Val.wf] at hv
    simp [Val.kind, binRead, mapOk, encM, binReadDouble_enc x hv]
  case binary x =>
    simp only [Val.wf] at hv
    show mapOk _ (binReadBinary (be32 x.length ++ x ++ rest)) = _
    rw [List.append_assoc, binReadBinary_enc x rest hv]
    simp [mapOk, encM]
  case str x =>
    simp only [Val.wf] at hv
    show mapOk _ (binReadBinary (be32 x.length ++ x ++ rest)) = _
    rw [List.append_assoc, binReadBinary_enc x rest hv]
    simp [mapOk, encM]
  case fieldBegin t id =>
    simp only [Val.wf] at hv
    have ht' : ¬ t = T_STOP := by rw [tstop0]; exact hv.1
    simp [Val.kind, binRead, mapOk, encM, binReadFieldBegin_enc t id hv.1 hv.2, fieldVal, ht']
  case fieldStop =>
    simp [Val.kind, binRead, mapOk, encM, binReadFieldBegin, bAt, tstop0, fieldVal]
  case mapBegin kt vt n =>
    simp only [Val.wf] at hv
    simp [Val.kind, binRead, mapOk, encM, binReadMapBegin_enc kt vt n (lt31 n hv)]
  case listBegin et n =>
    simp only [Val.wf] at hv
    simp [Val.kind, binRead, mapOk, encM, binReadListBegin_enc et n (lt31 n hv)]
  case setBegin et n =>
    simp only [Val.wf] at hv
    simp [Val.kind, binRead, mapOk, encM, binReadSetBegin_enc et n (lt31 n hv)]
  case messageBegin name typ seq =>
    simp only [Val.wf] at hv
    show mapOk _ (binReadMessageBegin _) = _
    simp only [encM]
    rw [binReadMessageBegin_enc name rest typ seq hv.1 hv.2.2.2, msgType16_id typ hv.2.1 hv.2.2.1]
    simp [mapOk]; omega

/-! ## complete characterisations of the buffer readers (every byte string) -/

theorem binReadBool_char (b : Bytes) :
    binReadBool b = match b with
      | [] => .err (errShort, 0)
      | x :: _ => .ok (decide (x = 1), 1) := by
  cases b with
  | nil => simp [binReadBool]
  | cons x r => by_cases h : x = 1 <;> simp [binReadBool, h]

theorem binReadByte_char (b : Bytes) :
    binReadByte b = match b with
      | [] => .err (errShort, 0)
      | x :: _ => .ok (toI8 x.toNat, 1) := by
  cases b <;> simp [binReadByte]

theorem binReadI16_char (b : Bytes) :
    binReadI16 b = if b.length < 2 then .err (errShort, 0) else .ok (toI16 (rd16 b), 2) := by
  unfold binReadI16 getU16; split <;> simp [*]

theorem binReadI32_char (b : Bytes) :
    binReadI32 b = if b.length < 4 then .err (errShort, 0) else .ok (toI32 (rd32 b), 4) := by
  unfold binReadI32 getU32; split <;> simp [*]

theorem binReadI64_char (b : Bytes) :
    binReadI64 b = if b.length < 8 then .err (errShort, 0) else .ok (toI64 (rd64 b), 8) := by
  unfold binReadI64 getU64; split <;> simp [*]

theorem binReadDouble_char (b : Bytes) :
    binReadDouble b = if b.length < 8 then .err (errShort, 0) else .ok (rd64 b, 8) := by
  unfold binReadDouble getU64; split <;> simp [*]

theorem binReadBinary_char (b : Bytes) :
    binReadBinary b =
      if b.length < 4 then .err (errShort, 0)
      else if rd32 b ≥ 2147483648 then .err (errNeg, 0)
      else if b.length < 4 + rd32 b then .err (errShort, 4)
      else .ok ((b.drop 4).take (rd32 b), 4 + rd32 b) := by
  unfold binReadBinary
  rw [binReadI32_char]
  by_cases h4 : b.length < 4
  · simp [h4]
  · simp only [if_neg h4]
    by_cases hn : rd32 b ≥ 2147483648
    · have : toI32 (rd32 b) < 0 := by have := rd32_lt b; simp [toI32]; split <;> omega
      simp [hn, this]
    · have e : toI32 (rd32 b) = (rd32 b : Int) := by simp [toI32]; omega
      have : ¬ (toI32 (rd32 b) < 0) := by omega
      rw [if_neg this, if_neg hn, e]
      simp

theorem binReadFieldBegin_char (b : Bytes) :
    binReadFieldBegin b = match b with
      | [] => .err (errShort, 0)
      | t :: r =>
        if t = 0 then .ok (0, 0, 1)
        else if r.length < 2 then .err (errShort, 0)
        else .ok (t, toI16 (rd16 r), 3) := by
  cases b with
  | nil => simp [binReadFieldBegin]
  | cons t r =>
    by_cases ht : t = 0
    · simp [binReadFieldBegin, bAt, tstop0, ht]
    · by_cases hr : r.length < 2
      · have : r.length + 1 < 3 := by omega
        simp [binReadFieldBegin, bAt, tstop0, ht, hr, this]
      · have : ¬ r.length + 1 < 3 := by omega
        simp [binReadFieldBegin, bAt, bFrom, getU16, tstop0, ht, hr, this]

theorem binReadMapBegin_char (b : Bytes) :
    binReadMapBegin b = match b with
      | kt :: vt :: r => if r.length < 4 then .err (errShort, 0) else .ok (kt, vt, rd32 r, 6)
      | _ => .err (errShort, 0) := by
  match b with
  | [] => simp [binReadMapBegin]
  | [_] => simp [binReadMapBegin]
  | kt :: vt :: r =>
    by_cases hr : r.length < 4
    · have : r.length + 1 + 1 < 6 := by omega
      simp [binReadMapBegin, hr, this]
    · have : ¬ r.length + 1 + 1 < 6 := by omega
      have h2 : ¬ r.length + 1 + 1 < 2 := by omega
      simp [binReadMapBegin, bAt, bFrom, getU32, hr, this, h2]

theorem binReadListBegin_char (b : Bytes) :
    binReadListBegin b = match b with
      | et :: r => if r.length < 4 then .err (errShort, 0) else .ok (et, rd32 r, 5)
      | _ => .err (errShort, 0) := by
  match b with
  | [] => simp [binReadListBegin]
  | et :: r =>
    by_cases hr : r.length < 4
    · have : r.length + 1 < 5 := by omega
      simp [binReadListBegin, hr, this]
    · have : ¬ r.length + 1 < 5 := by omega
      simp [binReadListBegin, bAt, bFrom, getU32, hr, this]

theorem binReadSetBegin_char (b : Bytes) : binReadSetBegin b = binReadListBegin b := rfl


@[simp] theorem orErr_ok {α} (a : α) (e : TErr × Nat) : orErr (.ok a) e = .ok a := rfl
@[simp] theorem orErr_err {α} (e' e : TErr × Nat) : orErr (.err e' : BOut α) e = .err e := rfl

theorem binReadMessageBegin_char (b : Bytes) :
    binReadMessageBegin b =
      if b.length < 4 then .err (errShort, 0)
      else if rd32 b / 65536 ≠ 0x8001 then .err (errBadVersion, 0)
      else if b.length < 8 then .err (errShort, 0)
      else if rd32 (b.drop 4) ≥ 2147483648 then .err (errShort, 0)
      else if b.length < 8 + rd32 (b.drop 4) + 4 then .err (errShort, 0)
      else .ok ((b.drop 8).take (rd32 (b.drop 4)), ((rd32 b % 65536 : Nat) : Int),
                toI32 (rd32 (b.drop (8 + rd32 (b.drop 4)))), 12 + rd32 (b.drop 4)) := by
  unfold binReadMessageBegin
  by_cases h4 : b.length < 4
  · simp [h4]
  simp only [if_neg h4, getU32, Out.bind_eq, Out.bind_ok]
  have hv := ver_test (rd32 b) (rd32_lt b)
  by_cases hver : rd32 b / 65536 ≠ 0x8001
  · rw [if_pos (hv.mpr hver), if_pos hver]
  have hver' : ¬ (rd32 b &&& Facts.msgVersionMask ≠ Facts.msgVersion1) := fun h => hver (hv.mp h)
  simp only [if_neg hver', if_neg hver, bFrom, if_neg (show ¬ 4 > b.length by omega), and_typeMask, Out.bind_ok]
  rw [binReadBinary_char]
  have hd4 : (b.drop 4).length = b.length - 4 := by simp
  by_cases h8 : b.length < 8
  · rw [if_pos (by omega), if_pos h8]; rfl
  rw [if_neg (by omega), if_neg h8]
  by_cases hn : rd32 (b.drop 4) ≥ 2147483648
  · rw [if_pos hn, if_pos hn]; rfl
  rw [if_neg hn, if_neg hn]
  by_cases hb2 : (b.drop 4).length < 4 + rd32 (b.drop 4)
  · rw [if_pos hb2, if_pos (by omega)]; rfl
  rw [if_neg hb2]
  simp only [orErr_ok, Out.bind_ok]
  rw [if_neg (by omega)]
  simp only [Out.bind_ok]
  rw [binReadI32_char]
  have hdl : (b.drop (4 + (4 + rd32 (b.drop 4)))).length = b.length - (8 + rd32 (b.drop 4)) := by
    simp; omega
  by_cases hb : b.length < 8 + rd32 (b.drop 4) + 4
  · rw [if_pos hb, if_pos (by omega)]; rfl
  · rw [if_neg hb, if_neg (by omega)]
    simp only [orErr_ok, Out.bind_ok, Out.pure_eq, List.drop_drop]
    have e1 : 4 + (4 + rd32 (b.drop 4)) = 8 + rd32 (b.drop 4) := by omega
    rw [e1]
    congr 4
    omega


/-- what C03 asks of one decoding entry point on one input -/
def Sound {α} (x : BOut (α × Nat)) (len : Nat) : Prop :=
  match x with
  | .ok r => r.2 ≤ len
  | .err e => e.2 ≤ len
  | .panic _ => False
  | .oob => False

theorem sound_mapOk {α} (f : α → Val × Nat) (x : BOut α) (g : α → Nat) (len : Nat)
    (hf : ∀ a, (f a).2 = g a)
    (h : match x with | .ok a => g a ≤ len | .err e => e.2 ≤ len | .panic _ => False | .oob => False) :
    Sound (mapOk f x) len := by
  cases x <;> simp_all [mapOk, Sound]

theorem binRead_sound (k : Kind) (b : Bytes) : Sound (binRead k b) b.length := by
  cases k
  case bool =>
    simp only [binRead, binReadBool_char]; cases b <;> simp [mapOk, Sound]
  case i8 =>
    simp only [binRead, binReadByte_char]; cases b <;> simp [mapOk, Sound]
  case i16 =>
    simp only [binRead, binReadI16_char]; split <;> simp [mapOk, Sound]; omega
  case i32 =>
    simp only [binRead, binReadI32_char]; split <;> simp [mapOk, Sound]; omega
  case i64 =>
    simp only [binRead, binReadI64_char]; split <;> simp [mapOk, Sound]; omega
  case double =>
    simp only [binRead, binReadDouble_char]; split <;> simp [mapOk, Sound]; omega
  case binary =>
    simp only [binRead, binReadBinary_char]; repeat' split
    all_goals simp [mapOk, Sound]
    all_goals omega
  case str =>
    simp only [binRead, binReadBinary_char]; repeat' split
    all_goals simp [mapOk, Sound]
    all_goals omega
  case field =>
    simp only [binRead, binReadFieldBegin_char]
    cases b with
    | nil => simp [mapOk, Sound]
    | cons t r =>
      simp only []
      repeat' split
      all_goals simp [mapOk, Sound]
      all_goals omega
  case map =>
    simp only [binRead, binReadMapBegin_char]
    match b with
    | [] => simp [mapOk, Sound]
    | [_] => simp [mapOk, Sound]
    | kt :: vt :: r =>
      simp only []
      split <;> simp [mapOk, Sound]; omega
  case list =>
    simp only [binRead, binReadListBegin_char]
    match b with
    | [] => simp [mapOk, Sound]
    | et :: r =>
      simp only []
      split <;> simp [mapOk, Sound]; omega
  case set =>
    simp only [binRead, binReadSetBegin_char, binReadListBegin_char]
    match b with
    | [] => simp [mapOk, Sound]
    | et :: r =>
      simp only []
      split <;> simp [mapOk, Sound]; omega
  case msg =>
    simp only [binRead, binReadMessageBegin_char]; repeat' split
    all_goals simp [mapOk, Sound]
    all_goals omega


theorem errShort_id : errShort = .pe 1 := by decide
theorem errNeg_id : errNeg = .pe 2 := by decide
theorem errBadVersion_id : errBadVersion = .pe 4 := by decide

theorem mapOk_err {α} (f : α → Val × Nat) (x : BOut α) (e : TErr × Nat) :
    mapOk f x = .err e ↔ x = .err e := by
  cases x <;> simp [mapOk]

theorem binRead_err_cause (k : Kind) (b : Bytes) (e : TErr) (l : Nat) (h : binRead k b = .err (e, l)) :
    e = .pe (cause k b).typeId := by
  cases k
  case bool =>
    simp only [binRead, mapOk_err, binReadBool_char] at h
    cases b <;> simp at h; simp [cause, Cause.typeId, ← h.1, errShort_id]
  case i8 =>
    simp only [binRead, mapOk_err, binReadByte_char] at h
    cases b <;> simp at h; simp [cause, Cause.typeId, ← h.1, errShort_id]
  case i16 =>
    simp only [binRead, mapOk_err, binReadI16_char] at h
    split at h <;> simp at h; simp [cause, Cause.typeId, ← h.1, errShort_id]
  case i32 =>
    simp only [binRead, mapOk_err, binReadI32_char] at h
    split at h <;> simp at h; simp [cause, Cause.typeId, ← h.1, errShort_id]
  case i64 =>
    simp only [binRead, mapOk_err, binReadI64_char] at h
    split at h <;> simp at h; simp [cause, Cause.typeId, ← h.1, errShort_id]
  case double =>
    simp only [binRead, mapOk_err, binReadDouble_char] at h
    split at h <;> simp at h; simp [cause, Cause.typeId, ← h.1, errShort_id]
  case binary =>
    simp only [binRead, mapOk_err, binReadBinary_char] at h
    split at h
    · simp at h; rename_i h4
      have : ¬ (4 ≤ b.length ∧ rd32 b ≥ 2^31) := fun c => by omega
      simp [cause, Cause.typeId, ← h.1, errShort_id, this]
    split at h
    · simp at h; rename_i h4 hn
      have : 4 ≤ b.length ∧ rd32 b ≥ 2^31 := ⟨by omega, by simpa using hn⟩
      simp [cause, Cause.typeId, ← h.1, errNeg_id, this]
    split at h
    · simp at h; rename_i h4 hn _
      have : ¬ (4 ≤ b.length ∧ rd32 b ≥ 2^31) := fun c => hn (by simpa using c.2)
      simp [cause, Cause.typeId, ← h.1, errShort_id, this]
    · simp at h
  case str =>
    simp only [binRead, mapOk_err, binReadBinary_char] at h
    split at h
    · simp at h; rename_i h4
      have : ¬ (4 ≤ b.length ∧ rd32 b ≥ 2^31) := fun c => by omega
      simp [cause, Cause.typeId, ← h.1, errShort_id, this]
    split at h
    · simp at h; rename_i h4 hn
      have : 4 ≤ b.length ∧ rd32 b ≥ 2^31 := ⟨by omega, by simpa using hn⟩
      simp [cause, Cause.typeId, ← h.1, errNeg_id, this]
    split at h
    · simp at h; rename_i h4 hn _
      have : ¬ (4 ≤ b.length ∧ rd32 b ≥ 2^31) := fun c => hn (by simpa using c.2)
      simp [cause, Cause.typeId, ← h.1, errShort_id, this]
    · simp at h
  case field =>
    simp only [binRead, mapOk_err, binReadFieldBegin_char] at h
    cases b with
    | nil => simp at h; simp [cause, Cause.typeId, ← h.1, errShort_id]
    | cons t r =>
      simp only [] at h
      repeat' split at h
      all_goals simp at h
      simp [cause, Cause.typeId, ← h.1, errShort_id]
  case map =>
    simp only [binRead, mapOk_err, binReadMapBegin_char] at h
    have : (cause .map b).typeId = 1 := rfl
    rw [this, ← errShort_id]
    match b, h with
    | [], h => simp at h; exact h.1.symm
    | [_], h => simp at h; exact h.1.symm
    | kt :: vt :: r, h =>
      simp only [] at h
      split at h <;> simp at h; exact h.1.symm
  case list =>
    simp only [binRead, mapOk_err, binReadListBegin_char] at h
    have : (cause .list b).typeId = 1 := rfl
    rw [this, ← errShort_id]
    match b, h with
    | [], h => simp at h; exact h.1.symm
    | et :: r, h =>
      simp only [] at h
      split at h <;> simp at h; exact h.1.symm
  case set =>
    simp only [binRead, mapOk_err, binReadSetBegin_char, binReadListBegin_char] at h
    have : (cause .set b).typeId = 1 := rfl
    rw [this, ← errShort_id]
    match b, h with
    | [], h => simp at h; exact h.1.symm
    | et :: r, h =>
      simp only [] at h
      split at h <;> simp at h; exact h.1.symm
  case msg =>
    simp only [binRead, mapOk_err, binReadMessageBegin_char] at h
    split at h
    · simp at h; rename_i h4
      have : ¬ (4 ≤ b.length ∧ rd32 b / 65536 ≠ 0x8001) := fun c => by omega
      simp [cause, Cause.typeId, ← h.1, errShort_id, this]
    split at h
    · simp at h; rename_i h4 hv
      have : 4 ≤ b.length ∧ rd32 b / 65536 ≠ 0x8001 := ⟨by omega, hv⟩
      simp [cause, Cause.typeId, ← h.1, errBadVersion_id, this]
    rename_i h4 hv
    have hc : ¬ (4 ≤ b.length ∧ rd32 b / 65536 ≠ 0x8001) := fun c => hv c.2
    have : (cause .msg b).typeId = 1 := by simp [cause, hc, Cause.typeId]
    rw [this, ← errShort_id]
    repeat' split at h
    all_goals simp at h
    all_goals exact h.1.symm

end Verif.Wire

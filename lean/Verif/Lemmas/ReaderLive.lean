/-
  Lemmas/ReaderLive: liveness of the reader model.
  (A) exact characterisation: the read loop gets its `n` bytes iff the script delivers `Enough`;
  (B) steady sources (`Steady`): every request that fits into what is left is served, along histories.
-/
import Verif.Lemmas.ReaderOps
namespace Verif

theorem enough_zeros_ge (M : Nat) (s : List Resp) (need z slen : Nat) (h : z ≥ M) :
    Enough M s need z slen = false := by
  cases s <;> simp [Enough, h]

/-- (A) the read loop, entered while `need = n - buffered > 0` bytes are missing and the request
    fits the capacity, returns a count that covers `n` exactly when the script delivers enough -/
theorem readLoop_enough (fuel i : Nat) (r : Rd) (n m : Nat) (r' : Rd)
    (hfit : n ≤ r.cap - r.ri) (hri : r.ri ≤ r.buf.length) (hneed : ¬ n ≤ r.buf.length - r.ri)
    (h : Rd.readLoop fuel i r n = some (m, r')) :
    (n ≤ m ↔ Enough Facts.maxConsecutiveEmptyReads r.src.script
                (n - (r.buf.length - r.ri)) i r.src.stream.length = true) := by
  induction fuel generalizing i r with
  | zero => simp [Rd.readLoop] at h
  | succ f ih =>
    unfold Rd.readLoop at h
    split at h
    · rename_i hge
      simp only [Option.some.injEq, Prod.mk.injEq] at h
      obtain ⟨hm, _⟩ := h
      rw [enough_zeros_ge _ _ _ _ _ hge]
      simp; omega
    · rename_i hlt
      cases hsc : r.src.script with
      | nil =>
        rw [Src.read_nil _ _ hsc] at h
        simp only [Option.some.injEq, Prod.mk.injEq] at h
        obtain ⟨hm, _⟩ := h
        simp [Enough]; simp at hm; omega
      | cons x rest =>
        rw [Src.read_cons _ _ x rest hsc] at h
        simp only [] at h
        generalize hd : min (min x.k (r.cap - r.buf.length)) r.src.stream.length = d at h
        have hdle : d ≤ r.src.stream.length := by omega
        have hdl : (r.src.stream.take d).length = d := by
          simp only [List.length_take]; omega
        have hdrop : (r.src.stream.drop d).length = r.src.stream.length - d := by simp
        -- the script's own view of the same read
        have hdE : min (min x.k (n - (r.buf.length - r.ri))) r.src.stream.length
              = min d (n - (r.buf.length - r.ri)) := by omega
        clear hd hdle
        unfold Enough
        simp only [hlt, if_false, hdE]
        cases hxe : x.err with
        | some e =>
          simp only [hxe] at h
          simp only [Option.some.injEq, Prod.mk.injEq] at h
          obtain ⟨hm, _⟩ := h
          simp only [List.length_append, hdl] at hm
          simp only [Option.isSome_some, if_true]
          by_cases hc : min d (n - (r.buf.length - r.ri)) ≥ n - (r.buf.length - r.ri)
          · simp [hc]; omega
          · simp [hc]; omega
        | none =>
          simp only [hxe] at h
          simp only [List.length_append, hdl] at h
          simp only [Option.isSome_none, Bool.false_eq_true, if_false]
          split at h
          · rename_i hsat
            simp only [Option.some.injEq, Prod.mk.injEq] at h
            obtain ⟨hm, _⟩ := h
            have hc : min d (n - (r.buf.length - r.ri)) ≥ n - (r.buf.length - r.ri) := by omega
            simp [hc]; omega
          · rename_i hunsat
            have hc : ¬ min d (n - (r.buf.length - r.ri)) ≥ n - (r.buf.length - r.ri) := by omega
            have hmin : min d (n - (r.buf.length - r.ri)) = d := by omega
            have hc' : ¬ d ≥ n - (r.buf.length - r.ri) := by omega
            simp only [hmin, hc', if_false]
            split at h
            · rename_i hpos
              have := ih 0 _ (by simpa using hfit) (by simp only [List.length_append, hdl]; omega)
                (by simp only [List.length_append, hdl]; omega) h
              simp only [List.length_append, hdl, hdrop] at this
              rw [this]
              have e1 : n - (r.buf.length + d - r.ri) = n - (r.buf.length - r.ri) - d := by omega
              simp only [hpos, if_true, e1]
            · rename_i hzero
              have := ih (i+1) _ (by simpa using hfit) (by simp only [List.length_append, hdl]; omega)
                (by simp only [List.length_append, hdl]; omega) h
              simp only [List.length_append, hdl, hdrop] at this
              rw [this]
              have e1 : n - (r.buf.length + d - r.ri) = n - (r.buf.length - r.ri) - d := by omega
              simp only [hzero, if_false, e1]

/-- can `n` bytes be served?  buffered already, or (no sticky error and) the script delivers the
    missing ones before its first error / before too many empty reads -/
def Rd.canServe (r : Rd) (n : Nat) : Bool :=
  n ≤ r.buf.length - r.ri ||
  (r.err.isNone && Enough Facts.maxConsecutiveEmptyReads r.src.script
      (n - (r.buf.length - r.ri)) 0 r.src.stream.length)

/-- (A) acquire covers the request exactly when `canServe` says so -/
theorem acquire_live (r : Rd) (n m : Nat) (r' : Rd) (hinv : Inv r) (hs : r.Small n)
    (h : r.acquire n = some (m, r')) : (n ≤ m ↔ r.canServe n = true) := by
  unfold Rd.acquire at h
  unfold Rd.canServe
  split at h
  · rename_i hfast
    simp only [Option.some.injEq, Prod.mk.injEq] at h
    obtain ⟨hm, _⟩ := h
    simp [hfast]; omega
  · rename_i hslow
    unfold Rd.acquireSlow at h
    split at h
    · rename_i herr
      simp only [Option.some.injEq, Prod.mk.injEq] at h
      obtain ⟨hm, _⟩ := h
      have : r.err.isNone = false := by
        cases he : r.err with
        | none => rw [he] at herr; simp at herr
        | some e => rfl
      simp [hslow, this]; omega
    · rename_i herr
      have hnone : r.err.isNone = true := by
        cases he : r.err with
        | none => rfl
        | some e => rw [he] at herr; simp at herr
      simp only [] at h
      have hp := prepare_spec r n hinv hs
      have hri := hinv.ri_le
      have := readLoop_enough _ 0 _ n m r' hp.fits (by rw [hp.ri, hp.buf]; exact hri)
        (by rw [hp.ri, hp.buf]; exact hslow) h
      rw [hp.src, hp.buf, hp.ri] at this
      rw [this]
      simp [hslow, hnone]

theorem next_live (r : Rd) (n : Int) (hinv : Inv r) (hs : r.Small n.toNat) (hn : 0 ≤ n) :
    (∃ b, (r.next n).1 = .ok b) ↔ r.canServe n.toNat = true := by
  rcases next_cases r n hinv hs with ⟨hneg, _⟩ | ⟨_, m, r1, hacq, _, hc⟩
  · omega
  · rw [← acquire_live r _ m r1 hinv hs hacq]
    rcases hc with ⟨hgt, he⟩ | ⟨hge, he⟩
    · rw [he]; simp; omega
    · rw [he]; simp; omega

theorem peek_live (r : Rd) (n : Int) (hinv : Inv r) (hs : r.Small n.toNat) (hn : 0 ≤ n) :
    (∃ b, (r.peek n).1 = .ok b) ↔ r.canServe n.toNat = true := by
  rcases peek_cases r n hinv hs with ⟨hneg, _⟩ | ⟨_, m, r1, hacq, _, hc⟩
  · omega
  · rw [← acquire_live r _ m r1 hinv hs hacq]
    rcases hc with ⟨hgt, he⟩ | ⟨hge, he⟩
    · rw [he]; simp; omega
    · rw [he]; simp; omega

theorem skip_live (r : Rd) (n : Int) (hinv : Inv r) (hs : r.Small n.toNat) (hn : 0 ≤ n) :
    (∃ b, (r.skip n).1 = .ok b) ↔ r.canServe n.toNat = true := by
  rcases skip_cases r n hinv hs with ⟨hneg, _⟩ | ⟨_, m, r1, hacq, _, hc⟩
  · omega
  · rw [← acquire_live r _ m r1 hinv hs hacq]
    rcases hc with ⟨hgt, he⟩ | ⟨hge, he⟩
    · rw [he]; simp; omega
    · rw [he]; simp; omega

/-- ReadBinary fills the whole of `bs` exactly when `canServe` says so -/
theorem readBinary_live (r : Rd) (k : Nat) (hinv : Inv r) (hs : r.Small k) :
    (∃ b e, (r.readBinary k).1 = some (b, k, e)) ↔ r.canServe k = true := by
  obtain ⟨m, r1, hacq, _, he⟩ := readBinary_cases r k hinv hs
  rw [← acquire_live r _ m r1 hinv hs hacq, he]
  simp; omega

end Verif

/-
  Lemmas/UnknownBase: small facts shared by the unknown-field proofs (uf family).
-/
import Verif.Spec.Unknown
namespace Verif

theorem Out.bind_eq_ok {ε α β : Type} (x : Out ε α) (f : α → Out ε β) (b : β) :
    x.bind f = .ok b ↔ ∃ a, x = .ok a ∧ f a = .ok b := by
  cases x <;> simp [Out.bind]

/-! ## the regenerated type codes are the Thrift specification's -/

theorem UT.STOP_eq : UT.STOP = 0 := by decide
theorem UT.BOOL_eq : UT.BOOL = TT.BOOL := by decide
theorem UT.BYTE_eq : UT.BYTE = TT.BYTE := by decide
theorem UT.DOUBLE_eq : UT.DOUBLE = TT.DOUBLE := by decide
theorem UT.I16_eq : UT.I16 = TT.I16 := by decide
theorem UT.I32_eq : UT.I32 = TT.I32 := by decide
theorem UT.I64_eq : UT.I64 = TT.I64 := by decide
theorem UT.STRING_eq : UT.STRING = TT.STRING := by decide
theorem UT.STRUCT_eq : UT.STRUCT = TT.STRUCT := by decide
theorem UT.MAP_eq : UT.MAP = TT.MAP := by decide
theorem UT.SET_eq : UT.SET = TT.SET := by decide
theorem UT.LIST_eq : UT.LIST = TT.LIST := by decide

/-! ## Go slicing -/

theorem ufSliceFrom_ok (b : Bytes) (k : Nat) (h : k ≤ b.length) : ufSliceFrom b k = .ok (b.drop k) := by
  simp [ufSliceFrom, h]

/-! ## big-endian round trips (bytes → integer → bytes) -/

theorem be16_rd16 (b : Bytes) (h : 2 ≤ b.length) : be16 (rd16 b) = b.take 2 := by
  match b, h with
  | a :: c :: r, _ =>
    have := a.toNat_lt; have := c.toNat_lt
    simp only [rd16, be16, List.take_succ_cons, List.take_zero]
    have h1 : (a.toNat * 256 + c.toNat) / 256 = a.toNat := by omega
    rw [h1]
    congr 1
    · simp
    · congr 1
      apply UInt8.toNat.inj
      simp

theorem be32_rd32 (b : Bytes) (h : 4 ≤ b.length) : be32 (rd32 b) = b.take 4 := by
  match b, h with
  | a :: c :: d :: e :: r, _ =>
    have := a.toNat_lt; have := c.toNat_lt; have := d.toNat_lt; have := e.toNat_lt
    simp only [rd32, be32, List.take_succ_cons, List.take_zero]
    congr 1
    · apply UInt8.toNat.inj; simp [UInt8.toNat_ofNat']; omega
    congr 1
    · apply UInt8.toNat.inj; simp [UInt8.toNat_ofNat']; omega
    congr 1
    · apply UInt8.toNat.inj; simp [UInt8.toNat_ofNat']; omega
    congr 1
    · apply UInt8.toNat.inj; simp

theorem be32_mod (n : Nat) : be32 (n % 4294967296) = be32 n := by
  simp only [be32]
  congr 1
  · apply UInt8.toNat.inj; simp [UInt8.toNat_ofNat']; omega
  congr 1
  · apply UInt8.toNat.inj; simp [UInt8.toNat_ofNat']; omega
  congr 1
  · apply UInt8.toNat.inj; simp [UInt8.toNat_ofNat']; omega
  congr 1
  · apply UInt8.toNat.inj; simp [UInt8.toNat_ofNat']

theorem be64_rd64 (b : Bytes) (h : 8 ≤ b.length) : be64 (rd64 b) = b.take 8 := by
  have h1 : (rd64 b) / 4294967296 = rd32 b := by
    have := rd32_lt (b.drop 4); unfold rd64; omega
  have h2 : (rd64 b) % 4294967296 = rd32 (b.drop 4) := by
    have := rd32_lt (b.drop 4); unfold rd64; omega
  unfold be64
  rw [h1, ← be32_mod (rd64 b), h2, be32_rd32 b (by omega), be32_rd32 (b.drop 4) (by simp; omega)]
  rw [show (8 : Nat) = 4 + 4 from rfl, List.take_add]

theorem rd64_lt (b : Bytes) : rd64 b < 18446744073709551616 := by
  have := rd32_lt b; have := rd32_lt (b.drop 4); unfold rd64; omega

theorem u16_ofNat_rd16 (b : Bytes) : (UInt16.ofNat (rd16 b)).toNat = rd16 b := by
  have := rd16_lt b; simp [UInt16.toNat_ofNat']; omega
theorem u32_ofNat_rd32 (b : Bytes) : (UInt32.ofNat (rd32 b)).toNat = rd32 b := by
  have := rd32_lt b; simp [UInt32.toNat_ofNat']; omega
theorem u64_ofNat_rd64 (b : Bytes) : (UInt64.ofNat (rd64 b)).toNat = rd64 b := by
  have := rd64_lt b; simp [UInt64.toNat_ofNat']; omega

end Verif

/- Lemmas/TypeSize: the regenerated `typeToSize` table equals the grammar's fixed-size table. -/
import Verif.Model.Skip
import Verif.Spec.Grammar
namespace Verif

theorem typeToSize_length : Facts.typeToSize.length = 256 := by decide +kernel

/-- checked over the whole regenerated table: all 256 entries -/
theorem typeToSize_table :
    (List.range 256).all (fun n => Facts.typeToSize[n]? == some ((fixedSize (UInt8.ofNat n) : Nat) : Int)) = true := by
  decide +kernel

theorem typeToSize_eq_fixed (t : UInt8) : Facts.typeToSize[t.toNat]? = some ((fixedSize t : Nat) : Int) := by
  have h := typeToSize_table
  rw [List.all_eq_true] at h
  have ht : t.toNat ∈ List.range 256 := List.mem_range.mpr t.toNat_lt
  have := h _ ht
  simpa using this

theorem typeToSizeIndexUnsigned : Facts.typeToSizeIndexSigned = false := by decide

/-- `typeToSize[uint8(t)]` never panics and returns the grammar's size -/
theorem typeSize_eq (t : UInt8) : typeSize t = .ok ((fixedSize t : Nat) : Int) := by
  unfold typeSize
  simp [typeToSizeIndexUnsigned, typeToSize_eq_fixed]

end Verif

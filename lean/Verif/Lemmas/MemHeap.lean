/-
  Lemmas/MemHeap: effect of every heap primitive on the observable accessors
  (`obj?`, `byte?`, `bytes`, `faults`, `events`), used by the reader / writer / decoder invariants.
-/
import Verif.Base.Mem
namespace Verif
namespace Heap

/-! ## accessors -/

theorem byte?_of_obj? (h : Heap) (o p : Nat) (x : Obj) (hx : h.obj? o = some x) :
    h.byte? o p = x.data[p]? := by simp [byte?, hx]

theorem byte?_none_of_obj? (h : Heap) (o p : Nat) (hx : h.obj? o = none) : h.byte? o p = none := by
  simp [byte?, hx]

theorem bytes_getElem? (h : Heap) (o p n i : Nat) :
    (h.bytes o p n)[i]? = if i < n then h.byte? o (p + i) else none := by
  unfold bytes byte?
  cases hx : h.obj? o with
  | none => simp
  | some x => simp [List.getElem?_take, List.getElem?_drop]

/-- equal bytes at every position of a range give equal `bytes` -/
theorem bytes_congr (h h' : Heap) (o p n : Nat)
    (hb : ∀ q, p ≤ q → q < p + n → h'.byte? o q = h.byte? o q) : h'.bytes o p n = h.bytes o p n := by
  apply List.ext_getElem?; intro i
  rw [bytes_getElem?, bytes_getElem?]
  split
  · exact hb _ (by omega) (by omega)
  · rfl

theorem bytes_length_le (h : Heap) (o p n : Nat) : (h.bytes o p n).length ≤ n := by
  unfold bytes; split <;> simp [List.length_take]; omega

theorem bytes_length (h : Heap) (o p n : Nat) (x : Obj) (hx : h.obj? o = some x)
    (hb : p + n ≤ x.data.length) : (h.bytes o p n).length = n := by
  unfold bytes; rw [hx]; simp [List.length_take]; omega

/-! ## objects are only ever added: "h' extends h" -/

/-- every object of `h` is still there, unchanged -/
def Extends (h h' : Heap) : Prop := ∀ o x, h.obj? o = some x → h'.obj? o = some x

theorem Extends.refl (h : Heap) : Extends h h := fun _ _ hx => hx
theorem Extends.trans {a b c : Heap} (h1 : Extends a b) (h2 : Extends b c) : Extends a c :=
  fun o x hx => h2 o x (h1 o x hx)

theorem Extends.byte? {h h' : Heap} (he : Extends h h') (o p : Nat) (x : Obj) (hx : h.obj? o = some x) :
    h'.byte? o p = h.byte? o p := by
  rw [byte?_of_obj? h' o p x (he o x hx), byte?_of_obj? h o p x hx]

theorem extends_fault (h : Heap) (f : Fault) : Extends h (h.fault f) := fun _ _ hx => hx
theorem extends_assert (h : Heap) (c : Bool) : Extends h (h.assert c) := fun o x hx => by
  rw [assert_obj?]; exact hx
theorem extends_chk (h : Heap) (o p n : Nat) (w : Bool) : Extends h (h.chk o p n w) := fun o' x hx => by
  rw [chk_obj?]; exact hx
theorem extends_push (h : Heap) (y : Obj) : Extends h (h.push y) := fun o x hx => by
  rw [push_obj?_lt h y o (obj?_lt h o x hx)]; exact hx

/-! ## malloc / gcAlloc / callerAlloc -/

@[simp] theorem malloc_faults (h : Heap) (a b : Nat) : (h.malloc a b).2.faults = h.faults := rfl
@[simp] theorem malloc_size (h : Heap) (a b : Nat) : (h.malloc a b).2.size = h.size + 1 := by
  simp [malloc, size, push]
@[simp] theorem malloc_obj (h : Heap) (a b : Nat) : (h.malloc a b).1.obj = h.size := rfl
@[simp] theorem malloc_off (h : Heap) (a b : Nat) : (h.malloc a b).1.off = 0 := rfl
@[simp] theorem malloc_len (h : Heap) (a b : Nat) : (h.malloc a b).1.len = a := rfl
theorem malloc_cap (h : Heap) (a b : Nat) : (h.malloc a b).1.cap = mcap (if b > a then b else a) := rfl
theorem malloc_cap_ge (h : Heap) (a b : Nat) : a ≤ (h.malloc a b).1.cap ∧ b ≤ (h.malloc a b).1.cap := by
  rw [malloc_cap]
  have := le_mcap (if b > a then b else a)
  by_cases hba : b > a
  · rw [if_pos hba] at this ⊢; constructor <;> omega
  · rw [if_neg hba] at this ⊢; constructor <;> omega
theorem extends_malloc (h : Heap) (a b : Nat) : Extends h (h.malloc a b).2 := fun o x hx => by
  have : (h.malloc a b).2.obj? o = (h.push ⟨h.fresh (mcap (if b > a then b else a)), .live, 0⟩).obj? o := rfl
  rw [this]; exact extends_push h _ o x hx
theorem malloc_new (h : Heap) (a b : Nat) :
    ∃ x, (h.malloc a b).2.obj? h.size = some x ∧ x.owner = .live ∧ x.data.length = (h.malloc a b).1.cap := by
  refine ⟨⟨h.fresh (mcap (if b > a then b else a)), .live, 0⟩, ?_, rfl, ?_⟩
  · exact push_obj?_new h _
  · simp [malloc_cap]
theorem malloc_events (h : Heap) (a b : Nat) :
    (h.malloc a b).2.events = .malloc h.size (h.malloc a b).1.cap :: h.events := rfl

@[simp] theorem gcAlloc_faults (h : Heap) (a b : Nat) : (h.gcAlloc a b).2.faults = h.faults := rfl
@[simp] theorem gcAlloc_events (h : Heap) (a b : Nat) : (h.gcAlloc a b).2.events = h.events := rfl
@[simp] theorem gcAlloc_size (h : Heap) (a b : Nat) : (h.gcAlloc a b).2.size = h.size + 1 := by
  simp [gcAlloc, size, push]
@[simp] theorem gcAlloc_obj (h : Heap) (a b : Nat) : (h.gcAlloc a b).1.obj = h.size := rfl
@[simp] theorem gcAlloc_off (h : Heap) (a b : Nat) : (h.gcAlloc a b).1.off = 0 := rfl
@[simp] theorem gcAlloc_len (h : Heap) (a b : Nat) : (h.gcAlloc a b).1.len = a := rfl
@[simp] theorem gcAlloc_cap (h : Heap) (a b : Nat) : (h.gcAlloc a b).1.cap = b := rfl
theorem extends_gcAlloc (h : Heap) (a b : Nat) : Extends h (h.gcAlloc a b).2 := fun o x hx =>
  extends_push h _ o x hx
theorem gcAlloc_new (h : Heap) (a b : Nat) :
    ∃ x, (h.gcAlloc a b).2.obj? h.size = some x ∧ x.owner = .gc ∧ x.data.length = b := by
  refine ⟨⟨h.fresh b, .gc, 0⟩, push_obj?_new h _, rfl, by simp⟩

theorem extends_callerAlloc (h : Heap) (d : Bytes) (l w : Nat) : Extends h (h.callerAlloc d l w).2 :=
  fun o x hx => extends_push h _ o x hx

/-! ## write: only the target range of the target object changes; shape is kept -/

/-- owner, write limit and capacity of an object -/
def shape (x : Obj) : Owner × Nat × Nat := (x.owner, x.wfrom, x.data.length)

/-- same objects with the same owner / wfrom / capacity (contents may differ) -/
def SameShape (h h' : Heap) : Prop := ∀ o, (h'.obj? o).map shape = (h.obj? o).map shape

theorem SameShape.refl (h : Heap) : SameShape h h := fun _ => rfl
theorem SameShape.trans {a b c : Heap} (h1 : SameShape a b) (h2 : SameShape b c) : SameShape a c :=
  fun o => (h2 o).trans (h1 o)

theorem SameShape.obj? {h h' : Heap} (hs : SameShape h h') (o : Nat) (x : Obj) (hx : h.obj? o = some x) :
    ∃ x', h'.obj? o = some x' ∧ x'.owner = x.owner ∧ x'.wfrom = x.wfrom ∧ x'.data.length = x.data.length := by
  have := hs o
  rw [hx] at this
  cases hx' : h'.obj? o with
  | none => rw [hx'] at this; simp at this
  | some x' =>
    rw [hx'] at this; simp [shape] at this
    exact ⟨x', rfl, this.1, this.2.1, this.2.2⟩

theorem SameShape.size {h h' : Heap} (hs : SameShape h h') : h'.size = h.size := by
  rcases Nat.lt_trichotomy h'.size h.size with hlt | heq | hgt
  · have := hs h'.size
    rw [obj?_none h' _ (Nat.le_refl _)] at this
    cases hx : h.obj? h'.size with
    | none => have := List.getElem?_eq_none_iff.mp hx; unfold Heap.size at *; omega
    | some x => rw [hx] at this; simp at this
  · exact heq
  · have := hs h.size
    rw [obj?_none h _ (Nat.le_refl _)] at this
    cases hx : h'.obj? h.size with
    | none => have := List.getElem?_eq_none_iff.mp hx; unfold Heap.size at *; omega
    | some x => rw [hx] at this; simp at this

theorem sameShape_of_extends_size {h h' : Heap} (he : Extends h h') (hs : h'.size = h.size) : SameShape h h' := by
  intro o
  cases hx : h.obj? o with
  | some x => rw [he o x hx]
  | none =>
    have : h.size ≤ o := by
      unfold Heap.obj? at hx; exact List.getElem?_eq_none_iff.mp hx
    rw [obj?_none h' o (by omega)]

theorem sameShape_fault (h : Heap) (f : Fault) : SameShape h (h.fault f) := fun _ => rfl
theorem sameShape_assert (h : Heap) (c : Bool) : SameShape h (h.assert c) := fun o => by rw [assert_obj?]
theorem sameShape_chk (h : Heap) (o p n : Nat) (w : Bool) : SameShape h (h.chk o p n w) := fun o' => by
  rw [chk_obj?]

theorem sameShape_setData (h : Heap) (o p : Nat) (d : Bytes)
    (hb : ∀ x, h.obj? o = some x → p + d.length ≤ x.data.length) : SameShape h (h.setData o p d) := by
  intro o'
  rw [setData_obj?]
  cases hx : h.obj? o' with
  | none => rfl
  | some x =>
    simp only [Option.map_some]
    split
    · rename_i heq; subst heq
      simp [shape, splice_length _ _ _ (hb x hx)]
    · rfl

theorem sameShape_write (h : Heap) (o p : Nat) (d : Bytes)
    (hb : ∀ x, h.obj? o = some x → p + d.length ≤ x.data.length) : SameShape h (h.write o p d) := by
  unfold write
  exact (sameShape_chk h o p d.length true).trans
    (sameShape_setData _ o p d (fun x hx => hb x (by rwa [chk_obj?] at hx)))

/-- bytes outside the written range are untouched -/
theorem byte?_setData_out (h : Heap) (o p : Nat) (d : Bytes) (o' q : Nat)
    (hb : ∀ x, h.obj? o = some x → p + d.length ≤ x.data.length)
    (hq : o' ≠ o ∨ q < p ∨ p + d.length ≤ q) : (h.setData o p d).byte? o' q = h.byte? o' q := by
  unfold byte?
  rw [setData_obj?]
  cases hx : h.obj? o' with
  | none => rfl
  | some x =>
    simp only [Option.map_some, Option.bind_some]
    split
    · rename_i heq; subst heq
      rcases hq with hq | hq
      · exact absurd rfl hq
      · exact splice_getElem?_out _ _ _ _ (hb x hx) hq
    · rfl

theorem byte?_write_out (h : Heap) (o p : Nat) (d : Bytes) (o' q : Nat)
    (hb : ∀ x, h.obj? o = some x → p + d.length ≤ x.data.length)
    (hq : o' ≠ o ∨ q < p ∨ p + d.length ≤ q) : (h.write o p d).byte? o' q = h.byte? o' q := by
  unfold write
  rw [byte?_setData_out _ o p d o' q (fun x hx => hb x (by rwa [chk_obj?] at hx)) hq]
  unfold byte?; rw [chk_obj?]

/-- the written range holds the written bytes -/
theorem byte?_write_in (h : Heap) (o p : Nat) (d : Bytes) (q : Nat) (x : Obj)
    (hx : h.obj? o = some x) (hb : p + d.length ≤ x.data.length) (hq : p ≤ q ∧ q < p + d.length) :
    (h.write o p d).byte? o q = d[q - p]? := by
  unfold byte? write
  rw [setData_obj?, chk_obj?, hx]
  simp only [Option.map_some, Option.bind_some, if_true]
  exact splice_getElem?_in _ _ _ _ hb hq

theorem bytes_write_same (h : Heap) (o p : Nat) (d : Bytes) (x : Obj)
    (hx : h.obj? o = some x) (hb : p + d.length ≤ x.data.length) :
    (h.write o p d).bytes o p d.length = d := by
  apply List.ext_getElem?; intro i
  rw [bytes_getElem?]
  split
  · rw [byte?_write_in h o p d (p + i) x hx hb (by omega)]; congr 1; omega
  · rw [List.getElem?_eq_none (by omega)]

/-- fault log of a write that passes its check -/
theorem write_faults_ok (h : Heap) (o p : Nat) (d : Bytes) (x : Obj) (hx : h.obj? o = some x)
    (hb : p + d.length ≤ x.data.length) (hf : x.owner ≠ .freed)
    (hc : x.owner = .caller → x.wfrom ≤ p) : (h.write o p d).faults = h.faults := by
  rw [write_faults, chk_write_ok h o p d.length x hx hb hf hc]

/-! ## copy -/

theorem copy_faults_ok (h : Heap) (dst dp src sp n : Nat) (xs xd : Obj)
    (hs : h.obj? src = some xs) (hd : h.obj? dst = some xd)
    (hbs : sp + n ≤ xs.data.length) (hbd : dp + n ≤ xd.data.length)
    (hfs : xs.owner ≠ .freed) (hfd : xd.owner ≠ .freed) (hc : xd.owner = .caller → xd.wfrom ≤ dp) :
    (h.copy dst dp src sp n).faults = h.faults := by
  unfold copy
  rw [chk_read_ok h src sp n xs hs hbs hfs]
  have hl : (h.bytes src sp n).length = n := bytes_length h src sp n xs hs hbs
  rw [write_faults_ok h dst dp _ xd hd (by omega) hfd hc]

theorem copy_zero (h : Heap) (dst dp src sp : Nat) : h.copy dst dp src sp 0 = h := by
  unfold copy
  have : h.bytes src sp 0 = [] := by unfold bytes; split <;> simp
  rw [this]; simp

theorem sameShape_copy (h : Heap) (dst dp src sp n : Nat)
    (hb : ∀ x, h.obj? dst = some x → dp + n ≤ x.data.length) : SameShape h (h.copy dst dp src sp n) := by
  unfold copy
  refine (sameShape_chk h src sp n false).trans (sameShape_write _ dst dp _ ?_)
  intro x hx; rw [chk_obj?] at hx
  have := bytes_length_le h src sp n
  have := hb x hx; omega

theorem byte?_copy_out (h : Heap) (dst dp src sp n : Nat) (o' q : Nat)
    (hb : ∀ x, h.obj? dst = some x → dp + n ≤ x.data.length)
    (hq : o' ≠ dst ∨ q < dp ∨ dp + n ≤ q) : (h.copy dst dp src sp n).byte? o' q = h.byte? o' q := by
  unfold copy
  have hl := bytes_length_le h src sp n
  rw [byte?_write_out _ dst dp _ o' q
    (fun x hx => by rw [chk_obj?] at hx; have := hb x hx; omega)
    (by rcases hq with hq | hq | hq
        · exact Or.inl hq
        · exact Or.inr (Or.inl hq)
        · exact Or.inr (Or.inr (by omega)))]
  unfold byte?; rw [chk_obj?]

/-- after the copy the destination range holds what the source range held -/
theorem bytes_copy (h : Heap) (dst dp src sp n : Nat) (xs xd : Obj)
    (hs : h.obj? src = some xs) (hd : h.obj? dst = some xd)
    (hbs : sp + n ≤ xs.data.length) (hbd : dp + n ≤ xd.data.length) :
    (h.copy dst dp src sp n).bytes dst dp n = h.bytes src sp n := by
  unfold copy
  have hl : (h.bytes src sp n).length = n := bytes_length h src sp n xs hs hbs
  have := bytes_write_same (h.chk src sp n false) dst dp (h.bytes src sp n) xd (by rw [chk_obj?]; exact hd) (by omega)
  rw [hl] at this; exact this

/-! ## free -/

theorem free_cap0 (h : Heap) (s : Slice) (hc : s.cap = 0) : h.free s = h := by
  unfold free; rw [if_pos hc]

/-- freeing the full slice of a live object: no fault, the object (only) becomes freed -/
theorem free_live (h : Heap) (s : Slice) (x : Obj) (hx : h.obj? s.obj = some x) (hl : x.owner = .live)
    (hoff : s.off = 0) (hcap : s.cap = x.data.length) (hpos : s.cap > 0) :
    (h.free s).faults = h.faults ∧
    (h.free s).events = .free s.obj s.cap :: h.events ∧
    (h.free s).size = h.size ∧
    (∀ o, o ≠ s.obj → (h.free s).obj? o = h.obj? o) ∧
    (h.free s).obj? s.obj = some { x with owner := .freed } := by
  have hne : ¬ s.cap = 0 := by omega
  have hobj : ({ h with events := Ev.free s.obj s.cap :: h.events } : Heap).obj? s.obj = some x := hx
  unfold free
  rw [if_neg hne]
  simp only []
  rw [hobj]
  simp only [hl]
  rw [if_pos ⟨hoff, hcap⟩]
  refine ⟨rfl, rfl, by simp [setOwner, size], ?_, ?_⟩
  · intro o hne'
    rw [setOwner_obj?]
    show Option.map _ (h.obj? o) = _
    cases h.obj? o <;> simp [Ne.symm hne']
  · rw [setOwner_obj?]
    show Option.map _ (h.obj? s.obj) = _
    rw [hx]; simp

/-- every `free` call with a non-empty capacity is a fault unless its argument is the full slice of a
    live object (this is what makes "no fault" mean: only own, only once, never the caller's) -/
theorem free_fault_unless_live (h : Heap) (s : Slice) (hpos : s.cap > 0)
    (hnf : (h.free s).faults = h.faults) :
    ∃ x, h.obj? s.obj = some x ∧ x.owner = .live ∧ s.off = 0 ∧ s.cap = x.data.length := by
  have hne : ¬ s.cap = 0 := by omega
  unfold free at hnf
  rw [if_neg hne] at hnf
  simp only [] at hnf
  have hobj : ∀ o, ({ h with events := Ev.free s.obj s.cap :: h.events } : Heap).obj? o = h.obj? o := fun _ => rfl
  rw [hobj] at hnf
  cases hx : h.obj? s.obj with
  | none => rw [hx] at hnf; simp [fault] at hnf
  | some x =>
    rw [hx] at hnf; simp only [] at hnf
    cases ho : x.owner with
    | caller => rw [ho] at hnf; simp [fault] at hnf
    | freed => rw [ho] at hnf; simp [fault] at hnf
    | gc => rw [ho] at hnf; simp [fault] at hnf
    | live =>
      rw [ho] at hnf; simp only [] at hnf
      by_cases hc : s.off = 0 ∧ s.cap = x.data.length
      · exact ⟨x, rfl, ho, hc.1, hc.2⟩
      · rw [if_neg hc] at hnf; simp [fault, setOwner] at hnf

/-! ## objects keep owner / wfrom / capacity -/

/-- every object of `h` still exists in `h'` with the same owner, write limit and capacity -/
def Keeps (h h' : Heap) : Prop := ∀ o x, h.obj? o = some x →
  ∃ x', h'.obj? o = some x' ∧ x'.owner = x.owner ∧ x'.wfrom = x.wfrom ∧ x'.data.length = x.data.length

theorem Keeps.refl (h : Heap) : Keeps h h := fun _ x hx => ⟨x, hx, rfl, rfl, rfl⟩
theorem Keeps.trans {a b c : Heap} (h1 : Keeps a b) (h2 : Keeps b c) : Keeps a c := fun o x hx => by
  obtain ⟨y, hy, a1, a2, a3⟩ := h1 o x hx
  obtain ⟨z, hz, b1, b2, b3⟩ := h2 o y hy
  exact ⟨z, hz, b1.trans a1, b2.trans a2, b3.trans a3⟩
theorem Keeps.of_extends {h h' : Heap} (he : Extends h h') : Keeps h h' :=
  fun o x hx => ⟨x, he o x hx, rfl, rfl, rfl⟩
theorem Keeps.of_sameShape {h h' : Heap} (hs : SameShape h h') : Keeps h h' :=
  fun o x hx => hs.obj? o x hx
theorem Keeps.size {h h' : Heap} (hk : Keeps h h') : h.size ≤ h'.size := by
  rcases Nat.lt_or_ge h'.size h.size with hlt | hge
  · exfalso
    have : h'.size < h.objs.length := hlt
    obtain ⟨x', hx', _⟩ := hk h'.size (h.objs[h'.size]) (by unfold Heap.obj?; exact List.getElem?_eq_getElem this)
    have := obj?_lt h' _ x' hx'; omega
  · exact hge

/-- Go-heap objects are left exactly as they were -/
def GcKept (h h' : Heap) : Prop := ∀ o x, h.obj? o = some x → x.owner = .gc → h'.obj? o = some x

theorem GcKept.refl (h : Heap) : GcKept h h := fun _ _ hx _ => hx
theorem GcKept.trans {a b c : Heap} (h1 : GcKept a b) (h2 : GcKept b c) : GcKept a c :=
  fun o x hx hg => h2 o x (h1 o x hx hg) hg
theorem GcKept.of_extends {h h' : Heap} (he : Extends h h') : GcKept h h' := fun o x hx _ => he o x hx

/-! ## freeAll -/

theorem freeAll_ok (l : List Slice) : ∀ (h : Heap),
    (∀ s ∈ l, ∃ x, h.obj? s.obj = some x ∧ x.owner = .live ∧ s.off = 0 ∧ s.cap = x.data.length ∧ 0 < s.cap) →
    (l.map (·.obj)).Nodup →
    (h.freeAll l).faults = h.faults ∧ (h.freeAll l).size = h.size ∧
    (∀ o, (∀ s ∈ l, s.obj ≠ o) → (h.freeAll l).obj? o = h.obj? o) ∧
    (∀ s ∈ l, ∃ x, h.obj? s.obj = some x ∧ (h.freeAll l).obj? s.obj = some { x with owner := .freed }) := by
  induction l with
  | nil => intro h _ _; exact ⟨rfl, rfl, fun _ _ => rfl, fun s hs => by simp at hs⟩
  | cons a l ih =>
    intro h hl hnd
    obtain ⟨x, hx, hlive, hoff, hcap, hpos⟩ := hl a (by simp)
    obtain ⟨f1, f2, f3, f4, f5⟩ := free_live h a x hx hlive hoff hcap hpos
    simp only [List.map_cons, List.nodup_cons] at hnd
    have hl' : ∀ s ∈ l, ∃ x, (h.free a).obj? s.obj = some x ∧ x.owner = .live ∧ s.off = 0 ∧
        s.cap = x.data.length ∧ 0 < s.cap := by
      intro s hs
      obtain ⟨y, hy, rest⟩ := hl s (by simp [hs])
      have hne : s.obj ≠ a.obj := by
        intro heq; apply hnd.1; rw [← heq]; exact List.mem_map_of_mem hs
      exact ⟨y, by rw [f4 _ hne]; exact hy, rest⟩
    obtain ⟨g1, g2, g3, g4⟩ := ih (h.free a) hl' hnd.2
    have hfa : h.freeAll (a :: l) = (h.free a).freeAll l := rfl
    rw [hfa]
    refine ⟨g1.trans f1, g2.trans f3, ?_, ?_⟩
    · intro o ho
      rw [g3 o (fun s hs => ho s (by simp [hs])), f4 o (Ne.symm (ho a (by simp)))]
    · intro s hs
      simp only [List.mem_cons] at hs
      rcases hs with rfl | hs
      · refine ⟨x, hx, ?_⟩
        rw [g3 _ (fun t ht heq => hnd.1 (by rw [← heq]; exact List.mem_map_of_mem ht)), f5]
      · obtain ⟨y, hy, hy'⟩ := g4 s hs
        have hne : s.obj ≠ a.obj := by
          intro heq; apply hnd.1; rw [← heq]; exact List.mem_map_of_mem hs
        exact ⟨y, by rw [← f4 _ hne]; exact hy, hy'⟩

/-! ## the environment -/

theorem Env.refl (h : Heap) : Env h h :=
  ⟨rfl, rfl, Nat.le_refl _, fun _ x hx => ⟨x, hx, rfl, rfl, rfl, fun _ => rfl⟩⟩

/-- the co-tenant overwriting a recycled object is an environment step -/
theorem Env.overwrite (h : Heap) (o : Nat) (x : Obj) (d : Bytes) (hx : h.obj? o = some x)
    (hf : x.owner = .freed) (hd : d.length = x.data.length) : Env h (h.setData o 0 d) := by
  have hbnd : ∀ y, h.obj? o = some y → 0 + d.length ≤ y.data.length := by
    intro y hy; rw [hx] at hy; cases hy; omega
  have hss := sameShape_setData h o 0 d hbnd
  refine ⟨rfl, rfl, by rw [hss.size]; exact Nat.le_refl _, fun o' y hy => ?_⟩
  obtain ⟨y', hy', a, b, c⟩ := hss.obj? o' y hy
  refine ⟨y', hy', a, b, c, fun hnf => ?_⟩
  have hne : o' ≠ o := by
    intro heq; subst heq; rw [hx] at hy; cases hy; exact hnf hf
  rw [setData_obj?_ne h o 0 d o' hne, hy] at hy'
  cases hy'; rfl

theorem Env.byte? {h h' : Heap} (he : Env h h') (o p : Nat) (x : Obj) (hx : h.obj? o = some x)
    (hf : x.owner ≠ .freed) : h'.byte? o p = h.byte? o p := by
  obtain ⟨x', hx', _, _, _, hd⟩ := he.keep o x hx
  rw [byte?_of_obj? h' o p x' hx', byte?_of_obj? h o p x hx, hd hf]

end Heap
end Verif

/-
  Lemmas/SkipBRCauseInst: the error-exact refinement of BufferReader.Skip (Lemmas/SkipBRCause.lean) on
  concrete readers: bytes-backed readers (every byte string, every capacity), and C04's buffered reader
  over a live source (stream fully handed over, or no error seen and a steady script).
-/
import Verif.Lemmas.SkipBRCause
import Verif.Lemmas.SkipBRBytes
import Verif.Lemmas.SkipBRInst
namespace Verif

/-- the result BufferReader.Skip must have on reader `r` for the classification `o` of what `r`
    still owes: consumed extent and ReadLen, or the error of the cause -/
def SkipRes (x : TOut (Unit × Rd)) (o : CRes) (r : Rd) : Prop :=
  match o with
  | .ok n => ∃ r', x = .ok ((), r') ∧ r'.remaining = r.remaining.drop n ∧ r'.readLen = r.readLen + n
  | .error c => ∃ e, x = .err e ∧ ErrFor c e

theorem SkipRes_of {P : Rd → Prop} {x : TOut (Unit × Rd)} {o : CRes} {r : Rd} (h : CRMm P x o r) :
    SkipRes x o r := by
  cases o with
  | error c => exact h
  | ok n =>
    obtain ⟨a, r', hx, h1, h2, _⟩ := h
    exact ⟨r', hx, h1, h2⟩

theorem skipBR_dry_cause (r : Rd) (t : UInt8) (h : RdDry r) :
    SkipRes (skipBR t r) (causeStream 64 t r.remaining) r := by
  have := skipBRAt_cause (rdc_dry reqBound) (Nat.le_refl _) Facts.defaultRecursionDepth t r h
  rw [defaultRecursionDepth_eq] at this
  exact SkipRes_of this

theorem skipBR_live_cause (r : Rd) (t : UInt8) (h : RdOK r) (hl : r.Live) :
    SkipRes (skipBR t r) (causeStream 64 t r.remaining) r := by
  have := skipBRAt_cause (rdc_inst True) (by decide) Facts.defaultRecursionDepth t r ⟨h, fun _ => hl⟩
  rw [defaultRecursionDepth_eq] at this
  exact SkipRes_of this

end Verif

/-
  Lemmas/ReaderAll: the reader model passes the spec's complete judgement (`Cur.judge`: cursor
  contract + error provenance + liveness wherever the source's credit demands it) on every step of every history.
-/
import Verif.Lemmas.ReaderRefine
import Verif.Lemmas.ReaderProv
import Verif.Lemmas.ReaderSteady
import Verif.Lemmas.ReaderCredit
import Verif.Lemmas.ReaderTimely
namespace Verif

/-! ## everything together: the model passes the complete judgement (`Cur.judge`) -/

/-- the invariant of a whole history over a source with script `s0`, at cursor `c` with credit `cr` -/
structure Sim (s0 : List Resp) (cr : Credit) (c : Cur) (r : Rd) : Prop where
  abs : Abs c r
  prov : Prov s0 r
  credit : CreditInv cr r
  hi : cr.hi + r.src.stream.length ≤ c.S.length
  timely : TInv (min (prodToErr s0) c.S.length) c.S.length r

/-- the credit the judge continues with -/
def Credit.next (cr : Credit) (c : Cur) (op : ROp) (res : RRes RErr) : Credit :=
  { cr.after c op with hi := max cr.hi (servedMark c op res) }

theorem Credit.after_hi (cr : Credit) (c : Cur) (op : ROp) : (cr.after c op).hi = cr.hi := by
  unfold Credit.after
  split
  · rfl
  · split
    · rfl
    · split
      · rfl
      · split <;> rfl

theorem CreditInv.hi_irrelevant {cr : Credit} {r : Rd} (h : CreditInv cr r) (x : Nat) :
    CreditInv { cr with hi := x } r := ⟨h.all, h.plain⟩

theorem Cur.step_S {ε : Type} (c c' : Cur) (op : ROp) (res : RRes ε) (h : c.step op res = .ok c') :
    c'.S = c.S := by
  cases op <;> cases res <;> simp only [Cur.step] at h <;>
    (repeat' split at h) <;> simp_all <;> (subst h; rfl)

theorem step_judge (s0 : List Resp) (cr : Credit) (c : Cur) (r : Rd) (op : ROp)
    (h : Sim s0 cr c r) (hs : r.Small op.size) :
    ∃ c', c.judge Facts.maxConsecutiveEmptyReads s0 cr op (r.step op).1
            = .ok (c', cr.next c op (r.step op).1) ∧
      Sim s0 (cr.next c op (r.step op).1) c' (r.step op).2 ∧ c'.S = c.S := by
  obtain ⟨c', hc', habs'⟩ := step_refines c r op h.abs hs
  obtain ⟨hprov', hallowed⟩ := step_prov s0 r op h.abs.inv hs h.prov
  obtain ⟨hcred', hlive⟩ := step_credit cr c r op h.abs hs h.credit
  have hS' := Cur.step_S _ _ _ _ hc'
  obtain ⟨hT', hmono, hserved, hfail, hshort⟩ :=
    step_marks _ c c' r op h.abs hs hc' habs' (Nat.min_le_right _ _) h.timely
  have hhi := h.hi
  have htimely : timely s0 cr c op (r.step op).1 = true := by
    cases op with
    | next n =>
      cases hres : (r.step (.next n)).1 <;> simp only [timely]
      rename_i e; cases e with
      | none => rfl
      | some e =>
        by_cases hn : n < 0
        · simp [hn]
        · obtain ⟨h1, h2⟩ := hfail n e (Or.inl rfl) (by omega) hres
          have := hT'.some e h2
          simp only [hn, decide_false, Bool.false_or, Bool.and_eq_true, decide_eq_true_eq,
            Bool.or_eq_true, beq_iff_eq]
          refine ⟨by omega, ?_⟩
          by_cases he : e = .noProgress
          · exact Or.inl he
          · exact Or.inr (by have := this he; omega)
    | peek n =>
      cases hres : (r.step (.peek n)).1 <;> simp only [timely]
      rename_i e; cases e with
      | none => rfl
      | some e =>
        by_cases hn : n < 0
        · simp [hn]
        · obtain ⟨h1, h2⟩ := hfail n e (Or.inr (Or.inl rfl)) (by omega) hres
          have := hT'.some e h2
          simp only [hn, decide_false, Bool.false_or, Bool.and_eq_true, decide_eq_true_eq,
            Bool.or_eq_true, beq_iff_eq]
          refine ⟨by omega, ?_⟩
          by_cases he : e = .noProgress
          · exact Or.inl he
          · exact Or.inr (by have := this he; omega)
    | skip n =>
      cases hres : (r.step (.skip n)).1 <;> simp only [timely]
      rename_i e; cases e with
      | none => rfl
      | some e =>
        by_cases hn : n < 0
        · simp [hn]
        · obtain ⟨h1, h2⟩ := hfail n e (Or.inr (Or.inr rfl)) (by omega) hres
          have := hT'.some e h2
          simp only [hn, decide_false, Bool.false_or, Bool.and_eq_true, decide_eq_true_eq,
            Bool.or_eq_true, beq_iff_eq]
          refine ⟨by omega, ?_⟩
          by_cases he : e = .noProgress
          · exact Or.inl he
          · exact Or.inr (by have := this he; omega)
    | readBinary k =>
      cases hres : (r.step (.readBinary k)).1 <;> simp only [timely]
      rename_i b m e; cases e with
      | none => rfl
      | some e =>
        obtain ⟨h1, h2⟩ := hshort k b m e rfl hres
        have := hT'.some e h2
        simp only [Bool.and_eq_true, decide_eq_true_eq, Bool.or_eq_true, beq_iff_eq]
        refine ⟨by omega, ?_⟩
        by_cases he : e = .noProgress
        · exact Or.inl he
        · exact Or.inr (by have := this he; omega)
    | release e => cases hres : (r.step (.release e)).1 <;> simp only [timely]
    | readLen => cases hres : (r.step .readLen).1 <;> simp only [timely]
  refine ⟨c', ?_, ⟨habs', hprov', hcred'.hi_irrelevant _, ?_, by rw [hS']; exact hT'⟩, hS'⟩
  · unfold Cur.judge
    rw [hc']
    simp only []
    have hlv : (cr.must c op && !liveOk c op (r.step op).1) = false := by
      cases hm : cr.must c op with
      | false => simp
      | true => simp [hlive hm]
    split
    · rename_i e he
      simp [hallowed e he, hlv, htimely, Credit.next]
    · simp [hlv, htimely, Credit.next]
  · simp only [Credit.next, hS']
    have : max cr.hi (servedMark c op (r.step op).1) + (r.step op).2.src.stream.length ≤ c.S.length := by
      rcases Nat.le_total cr.hi (servedMark c op (r.step op).1) with hle | hle
      · rw [Nat.max_eq_right hle]; exact hserved
      · rw [Nat.max_eq_left hle]; omega
    exact this

/-- a request bound that does not mention the model state: stream and requests below 2^62 -/
theorem small_of_bounds (c : Cur) (r : Rd) (n : Nat) (h : Abs c r)
    (hS : c.S.length ≤ 4611686018427387904) (hn : n ≤ 4611686018427387904) : r.Small n := by
  obtain ⟨pre, hsp, _⟩ := h.split
  have hri := h.inv.ri_le
  have : r.buf.length ≤ c.S.length := by rw [hsp]; simp; omega
  unfold Rd.Small; omega

theorem trace_judge (s0 : List Resp) (cr : Credit) (c : Cur) (r : Rd) (ops : List ROp)
    (h : Sim s0 cr c r) (hS : c.S.length ≤ 4611686018427387904)
    (hops : ∀ op ∈ ops, op.size ≤ 4611686018427387904) :
    ∃ c' cr', c.judgeRun Facts.maxConsecutiveEmptyReads s0 cr (r.trace ops).1 = .ok (c', cr') ∧
      Sim s0 cr' c' (r.trace ops).2 := by
  induction ops generalizing c cr r with
  | nil => exact ⟨c, cr, rfl, h⟩
  | cons op ops ih =>
    have hs := small_of_bounds c r op.size h.abs hS (hops op (by simp))
    obtain ⟨c1, hc1, h1, hS1⟩ := step_judge s0 cr c r op h hs
    obtain ⟨c2, cr2, hc2, h2⟩ := ih _ c1 _ h1 (by rw [hS1]; exact hS) (fun o ho => hops o (by simp [ho]))
    refine ⟨c2, cr2, ?_, h2⟩
    simp only [Rd.trace, Cur.judgeRun, hc1]
    exact hc2

theorem smallOps_of_bounds (ops : List ROp) (c : Cur) (r : Rd) (h : Abs c r)
    (hS : c.S.length ≤ 4611686018427387904) (hops : ∀ op ∈ ops, op.size ≤ 4611686018427387904) :
    r.SmallOps ops := by
  induction ops generalizing c r with
  | nil => trivial
  | cons op ops ih =>
    have hs := small_of_bounds c r op.size h hS (hops op (by simp))
    obtain ⟨c1, hc1, h1⟩ := step_refines c r op h hs
    exact ⟨hs, ih c1 _ h1 (by rw [Cur.step_S _ _ _ _ hc1]; exact hS)
      (fun o ho => hops o (by simp [ho]))⟩

theorem Cur.run_S {ε : Type} (l : List (ROp × RRes ε)) (c c' : Cur) (h : c.run l = .ok c') :
    c'.S = c.S := by
  induction l generalizing c with
  | nil => simp [Cur.run] at h; rw [h]
  | cons x l ih =>
    obtain ⟨op, res⟩ := x
    simp only [Cur.run] at h
    split at h
    · rename_i c1 hc1
      rw [ih c1 h, Cur.step_S _ _ _ _ hc1]
    · simp at h

/-- after any history: the stream is delivered ++ remaining, `Inv` holds, ReadLen = pos - mark -/
theorem trace_delivered (c : Cur) (r : Rd) (ops : List ROp) (h : Abs c r)
    (hS : c.S.length ≤ 4611686018427387904) (hops : ∀ op ∈ ops, op.size ≤ 4611686018427387904) :
    ∃ c', c.run (r.trace ops).1 = .ok c' ∧
      c.S = c.S.take c'.pos ++ (r.trace ops).2.remaining ∧
      Inv (r.trace ops).2 ∧ (r.trace ops).2.readLen = c'.pos - c'.mark := by
  obtain ⟨c', hrun, habs⟩ := trace_refines c r ops h (smallOps_of_bounds ops c r h hS hops)
  have hS' : c'.S = c.S := Cur.run_S _ _ _ hrun
  refine ⟨c', hrun, ?_, habs.inv, ?_⟩
  · rw [← habs.rest]; unfold Cur.rest; rw [hS', List.take_append_drop]
  · unfold Rd.readLen; rw [habs.pos]; omega

end Verif

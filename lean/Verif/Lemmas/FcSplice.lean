/-
  Lemmas/FcSplice: splicing the direct writes of a segment list back into the linear buffer gives
  the copying encoding; room and length accounting of the direct writes.
-/
import Verif.Lemmas.FcWrite
namespace Verif

theorem drop_app_le {α} (P Q : List α) (n : Nat) (h : n ≤ P.length) : (P ++ Q).drop n = P.drop n ++ Q := by
  rw [List.drop_append]
  have : n - P.length = 0 := by omega
  simp [this]

/-- the core of C15: piece i lands right behind its 4-byte length header -/
theorem spliceAux_segs (thr : Nat) (w : Bool) : ∀ (sg : List Seg) (P T : Bytes) (start L : Nat),
    start ≤ P.length → L = P.length + (linSegs thr w sg).length + T.length →
    spliceAux (P ++ linSegs thr w sg ++ T) start (directsOf thr w L P.length sg)
      = P.drop start ++ encSegs sg ++ T
  | [], P, T, start, L, hs, _ => by
    simp only [linSegs_nil, List.append_nil, directsOf, spliceAux, encSegs, List.flatMap_nil]
    exact drop_app_le P T start hs
  | .fixed bs :: r, P, T, start, L, hs, hL => by
    have ih := spliceAux_segs thr w r (P ++ bs) T start L (by simp; omega)
      (by simp [linSegs_cons, Seg.lin] at hL ⊢; omega)
    simp only [linSegs_cons, Seg.lin, directsOf, encSegs_cons, Seg.enc]
    have hl : (P ++ bs).length = P.length + bs.length := by simp
    rw [hl] at ih
    have e1 : P ++ (bs ++ linSegs thr w r) ++ T = P ++ bs ++ linSegs thr w r ++ T := by simp
    rw [e1, ih, drop_app_le P bs start hs]
    simp
  | .str s :: r, P, T, start, L, hs, hL => by
    by_cases hin : inlineStr thr w s = true
    · have ih := spliceAux_segs thr w r (P ++ encStr s) T start L (by simp; omega)
        (by simp [linSegs_cons, Seg.lin, hin] at hL ⊢; omega)
      simp only [linSegs_cons, Seg.lin, directsOf, encSegs_cons, Seg.enc, hin, if_true]
      have hl : (P ++ encStr s).length = P.length + (4 + s.length) := by simp
      rw [hl] at ih
      have e1 : P ++ (encStr s ++ linSegs thr w r) ++ T = P ++ encStr s ++ linSegs thr w r ++ T := by simp
      rw [e1, ih, drop_app_le P (encStr s) start hs]
      simp
    · have hin' : inlineStr thr w s = false := by simpa using hin
      have hL' : L = P.length + (4 + (linSegs thr w r).length) + T.length := by
        simpa [linSegs_cons, Seg.lin, hin'] using hL
      have ih := spliceAux_segs thr w r (P ++ be32 s.length) T (P.length + 4) L (by simp)
        (by simp; omega)
      have hl : (P ++ be32 s.length).length = P.length + 4 := by simp
      rw [hl] at ih
      simp only [linSegs_cons, Seg.lin, directsOf, encSegs_cons, Seg.enc, hin', Bool.false_eq_true, ↓reduceIte,
        spliceAux]
      have e1 : P ++ (be32 s.length ++ linSegs thr w r) ++ T = P ++ be32 s.length ++ linSegs thr w r ++ T := by
        simp
      have hlen : (P ++ be32 s.length ++ linSegs thr w r ++ T).length = L := by simp; omega
      rw [e1, hlen]
      have hend : L - (L - P.length - 4) = P.length + 4 := by omega
      rw [hend, ih]
      -- the linear part in front of the piece
      have hfront : ((P ++ be32 s.length ++ linSegs thr w r ++ T).drop start).take (P.length + 4 - start)
          = P.drop start ++ be32 s.length := by
        rw [List.append_assoc (P ++ be32 s.length), drop_app_le (P ++ be32 s.length) _ start (by simp; omega),
          drop_app_le P _ start hs]
        rw [List.take_append_of_le_length (by simp; omega)]
        exact List.take_of_length_le (by simp; omega)
      rw [hfront]
      simp [encStr]

/-- the direct writer always has room for the piece when the buffer holds the whole encoding -/
theorem directsOf_room (thr : Nat) (w : Bool) (L : Nat) : ∀ (sg : List Seg) (off : Nat),
    off + (encSegs sg).length ≤ L → ∀ d ∈ directsOf thr w L off sg, d.1.length ≤ d.2
  | [], _, _ => by simp [directsOf]
  | .fixed bs :: r, off, h => by
    simp only [directsOf]
    exact directsOf_room thr w L r (off + bs.length) (by simp [encSegs_cons, Seg.enc] at h; omega)
  | .str s :: r, off, h => by
    simp only [encSegs_cons, Seg.enc, List.length_append, encStr_length] at h
    simp only [directsOf]
    split
    · exact directsOf_room thr w L r _ (by omega)
    · intro d hd
      rcases List.mem_cons.mp hd with rfl | hd
      · show s.length ≤ L - off - 4
        omega
      · exact directsOf_room thr w L r (off + 4) (by
          have := encStr_length s
          omega) d hd

/-- linear bytes + directly written bytes = the copying length -/
theorem lin_add_directs (thr : Nat) (w : Bool) (L : Nat) : ∀ (sg : List Seg) (off : Nat),
    (linSegs thr w sg).length + ((directsOf thr w L off sg).map (·.1.length)).sum = (encSegs sg).length
  | [], _ => by simp [linSegs, directsOf, encSegs]
  | .fixed bs :: r, off => by
    have := lin_add_directs thr w L r (off + bs.length)
    simp only [linSegs_cons, Seg.lin, directsOf, encSegs_cons, Seg.enc, List.length_append]
    omega
  | .str s :: r, off => by
    simp only [linSegs_cons, Seg.lin, directsOf, encSegs_cons, Seg.enc, List.length_append]
    split
    · have := lin_add_directs thr w L r (off + (4 + s.length))
      omega
    · have := lin_add_directs thr w L r (off + 4)
      simp only [List.map_cons, List.sum_cons, encStr_length, be32_length]
      omega

end Verif

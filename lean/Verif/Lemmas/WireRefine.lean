/- Lemmas/WireRefine: REFINEMENT of the buffer readers by the stream readers on the reader model: whenever
   a BufferReader.Read* succeeds (any state with the representation invariant, any source script), it
   returned what Binary.Read* returns on the remaining stream and consumed exactly that many bytes. -/
import Verif.Lemmas.WireRd
namespace Verif.Wire

/-- BufferReader.next on the reader model, when it returns a slice, returned exactly the next n bytes of
    the remaining stream (the `(nil, nil)` return of finding F2 cannot happen: a short acquire always has
    an error recorded) -/
theorem brNext_sound (r : Rd) (n : Nat) (bs : Bytes) (r' : Rd) (hI : RInv r)
    (h : brNext (n : Int) r = .ok (bs, r')) :
    remaining r = bs ++ remaining r' ∧ bs.length = n ∧ r'.readLen = r.readLen + n ∧ RInv r' := by
  unfold brNext at h
  generalize hn : r.next (n : Int) = res at h
  obtain ⟨x, r1⟩ := res
  cases x with
  | ok b =>
    simp at h
    obtain ⟨h1, h2⟩ := h
    subst h1; subst h2
    obtain ⟨e1, e2, e3, e4, e5⟩ := next_sound r n _ _ hI hn
    refine ⟨?_, e2, e4, e5⟩
    rw [e1, e3, List.take_append_drop]
  | fail e =>
    exfalso
    cases e with
    | some e => simp at h
    | none =>
      -- a failing Next always carries an error
      unfold Rd.next at hn
      rw [if_neg (by omega)] at hn
      simp only [Int.toNat_natCast] at hn
      generalize ha : r.acquire n = a at hn
      cases a with
      | none => simp at hn
      | some p =>
        obtain ⟨m, r2⟩ := p
        obtain ⟨_, _, _, _, i5⟩ := acquire_spec r n m r2 hI ha
        simp only at hn
        split at hn
        · rename_i hlt
          simp at hn
          have := i5 (by omega)
          rw [hn.1] at this
          simp at this
        · simp at hn
  | nofuel => simp at h


/-- BufferReader.readBinary(bs) with len(bs) = k, when it returns no error, copied exactly the next k
    bytes of the remaining stream -/
theorem brReadFull_sound (r : Rd) (k : Nat) (out : Bytes) (r' : Rd) (hI : RInv r)
    (h : brReadFull k r = .ok (out, r')) :
    remaining r = out ++ remaining r' ∧ out.length = k ∧ r'.readLen = r.readLen + k ∧ RInv r' := by
  unfold brReadFull at h
  generalize hn : r.readBinary k = res at h
  obtain ⟨x, r1⟩ := res
  cases x with
  | none => simp at h
  | some p =>
    obtain ⟨o, m, e⟩ := p
    cases e with
    | some e => simp at h
    | none =>
      simp at h
      obtain ⟨h1, h2⟩ := h
      subst h1; subst h2
      -- the reported count is k
      have hm : m = k := by
        unfold Rd.readBinary at hn
        generalize ha : r.acquire k = a at hn
        cases a with
        | none => simp at hn
        | some q =>
          obtain ⟨m0, r2⟩ := q
          obtain ⟨_, _, _, _, i5⟩ := acquire_spec r k m0 r2 hI ha
          simp at hn
          obtain ⟨⟨_, hm, he⟩, _⟩ := hn
          by_cases hlt : m0 < k
          · have := i5 hlt
            have hk : k ≤ if k < m0 then k else m0 := by
              rcases Nat.lt_or_ge (if k < m0 then k else m0) k with c | c
              · have := he c; simp_all
              · exact c
            split at hk <;> omega
          · rw [← hm]; split <;> omega
      subst hm
      obtain ⟨e1, e3, e4, e5⟩ := readBinary_sound r m _ _ hI hn
      have hl : m ≤ (remaining r).length := by
        -- m bytes were copied out of the remaining stream
        unfold Rd.readBinary at hn
        generalize ha : r.acquire m = a at hn
        cases a with
        | none => simp at hn
        | some q =>
          obtain ⟨m0, r2⟩ := q
          obtain ⟨_, i2, _, i4, i5⟩ := acquire_spec r m m0 r2 hI ha
          simp at hn
          obtain ⟨⟨_, hm, _⟩, _⟩ := hn
          rw [← i2]; simp [remaining]
          rcases Nat.lt_or_ge m m0 with c | c
          · omega
          · have := hm c; omega
      refine ⟨?_, ?_, e4, e5⟩
      · rw [e1, e3, List.take_append_drop]
      · rw [e1]; simp; omega

theorem len1 (l : Bytes) (h : l.length = 1) : ∃ a, l = [a] := by
  match l, h with | [a], _ => exact ⟨a, rfl⟩
theorem len2 (l : Bytes) (h : l.length = 2) : ∃ a b, l = [a, b] := by
  match l, h with | [a, b], _ => exact ⟨a, b, rfl⟩
theorem len4 (l : Bytes) (h : l.length = 4) : ∃ a b c d, l = [a, b, c, d] := by
  match l, h with | [a, b, c, d], _ => exact ⟨a, b, c, d, rfl⟩
theorem len5 (l : Bytes) (h : l.length = 5) : ∃ a b c d e, l = [a, b, c, d, e] := by
  match l, h with | [a, b, c, d, e], _ => exact ⟨a, b, c, d, e, rfl⟩
theorem len6 (l : Bytes) (h : l.length = 6) : ∃ a b c d e f, l = [a, b, c, d, e, f] := by
  match l, h with | [a, b, c, d, e, f], _ => exact ⟨a, b, c, d, e, f, rfl⟩
theorem len8 (l : Bytes) (h : l.length = 8) : ∃ a b c d e f g i, l = [a, b, c, d, e, f, g, i] := by
  match l, h with | [a, b, c, d, e, f, g, i], _ => exact ⟨a, b, c, d, e, f, g, i, rfl⟩

/-- what a successful stream read means: the buffer reader, run on the remaining stream, returns the
    same value with length n; the reader is left with the stream after those n bytes; ReadLen grew by n -/
def Refines {α} (r : Rd) (x : α) (r' : Rd) (y : BOut (α × Nat)) : Prop :=
  ∃ n, y = .ok (x, n) ∧ remaining r = (remaining r).take n ++ remaining r' ∧ n ≤ (remaining r).length ∧
       r'.readLen = r.readLen + n ∧ RInv r'

theorem refines_of {α} (r r' : Rd) (x : α) (bs : Bytes) (n : Nat) (y : BOut (α × Nat))
    (h1 : remaining r = bs ++ remaining r') (h2 : bs.length = n) (h3 : r'.readLen = r.readLen + n) (h4 : RInv r')
    (hy : y = .ok (x, n)) : Refines r x r' y := by
  refine ⟨n, hy, ?_, ?_, h3, h4⟩
  · rw [h1, ← h2]; simp
  · rw [h1]; simp; omega

theorem brReadI32_refines (r : Rd) (v : Int) (r' : Rd) (hI : RInv r) (h : brReadI32 r = .ok (v, r')) :
    Refines r v r' (binReadI32 (remaining r)) := by
  unfold brReadI32 at h
  cases hb : brNext 4 r with
  | ok p =>
    obtain ⟨bs, r1⟩ := p
    obtain ⟨e1, e2, e3, e4⟩ := brNext_sound r 4 bs r1 hI (by simpa using hb)
    obtain ⟨a, b, c, d, rfl⟩ := len4 bs e2
    rw [hb] at h
    simp [u32of] at h
    obtain ⟨hv, hr⟩ := h; subst hr
    refine refines_of r r1 v _ 4 _ e1 e2 e3 e4 ?_
    rw [binReadI32_char, if_neg (by rw [e1]; simp), e1, ← hv]; simp [rd32]
  | err e => rw [hb] at h; simp at h
  | panic s => rw [hb] at h; simp at h
  | oob => rw [hb] at h; simp at h


theorem brReadBool_refines (r : Rd) (v : Bool) (r' : Rd) (hI : RInv r) (h : brReadBool r = .ok (v, r')) :
    Refines r v r' (binReadBool (remaining r)) := by
  unfold brReadBool at h
  cases hb : brNext 1 r with
  | ok p =>
    obtain ⟨bs, r1⟩ := p
    obtain ⟨e1, e2, e3, e4⟩ := brNext_sound r 1 bs r1 hI (by simpa using hb)
    obtain ⟨a, rfl⟩ := len1 bs e2
    rw [hb] at h
    simp [idx] at h
    obtain ⟨hv, hr⟩ := h; subst hr
    refine refines_of r r1 v _ 1 _ e1 e2 e3 e4 ?_
    rw [binReadBool_char, e1, ← hv]; simp
  | err e => rw [hb] at h; simp at h
  | panic s => rw [hb] at h; simp at h
  | oob => rw [hb] at h; simp at h

theorem brReadByte_refines (r : Rd) (v : Int) (r' : Rd) (hI : RInv r) (h : brReadByte r = .ok (v, r')) :
    Refines r v r' (binReadByte (remaining r)) := by
  unfold brReadByte at h
  cases hb : brNext 1 r with
  | ok p =>
    obtain ⟨bs, r1⟩ := p
    obtain ⟨e1, e2, e3, e4⟩ := brNext_sound r 1 bs r1 hI (by simpa using hb)
    obtain ⟨a, rfl⟩ := len1 bs e2
    rw [hb] at h
    simp [idx] at h
    obtain ⟨hv, hr⟩ := h; subst hr
    refine refines_of r r1 v _ 1 _ e1 e2 e3 e4 ?_
    rw [binReadByte_char, e1, ← hv]; simp
  | err e => rw [hb] at h; simp at h
  | panic s => rw [hb] at h; simp at h
  | oob => rw [hb] at h; simp at h

theorem brReadI16_refines (r : Rd) (v : Int) (r' : Rd) (hI : RInv r) (h : brReadI16 r = .ok (v, r')) :
    Refines r v r' (binReadI16 (remaining r)) := by
  unfold brReadI16 at h
  cases hb : brNext 2 r with
  | ok p =>
    obtain ⟨bs, r1⟩ := p
    obtain ⟨e1, e2, e3, e4⟩ := brNext_sound r 2 bs r1 hI (by simpa using hb)
    obtain ⟨a, b, rfl⟩ := len2 bs e2
    rw [hb] at h
    simp [u16of] at h
    obtain ⟨hv, hr⟩ := h; subst hr
    refine refines_of r r1 v _ 2 _ e1 e2 e3 e4 ?_
    rw [binReadI16_char, e1, ← hv]; simp [rd16]
  | err e => rw [hb] at h; simp at h
  | panic s => rw [hb] at h; simp at h
  | oob => rw [hb] at h; simp at h

theorem brReadI64_refines (r : Rd) (v : Int) (r' : Rd) (hI : RInv r) (h : brReadI64 r = .ok (v, r')) :
    Refines r v r' (binReadI64 (remaining r)) := by
  unfold brReadI64 at h
  cases hb : brNext 8 r with
  | ok p =>
    obtain ⟨bs, r1⟩ := p
    obtain ⟨e1, e2, e3, e4⟩ := brNext_sound r 8 bs r1 hI (by simpa using hb)
    obtain ⟨a, b, c, d, e, f, g, i, rfl⟩ := len8 bs e2
    rw [hb] at h
    simp [u64of] at h
    obtain ⟨hv, hr⟩ := h; subst hr
    refine refines_of r r1 v _ 8 _ e1 e2 e3 e4 ?_
    rw [binReadI64_char, e1, ← hv]; simp [rd64, rd32]
  | err e => rw [hb] at h; simp at h
  | panic s => rw [hb] at h; simp at h
  | oob => rw [hb] at h; simp at h

theorem brReadDouble_refines (r : Rd) (v : Nat) (r' : Rd) (hI : RInv r) (h : brReadDouble r = .ok (v, r')) :
    Refines r v r' (binReadDouble (remaining r)) := by
  unfold brReadDouble at h
  cases hb : brNext 8 r with
  | ok p =>
    obtain ⟨bs, r1⟩ := p
    obtain ⟨e1, e2, e3, e4⟩ := brNext_sound r 8 bs r1 hI (by simpa using hb)
    obtain ⟨a, b, c, d, e, f, g, i, rfl⟩ := len8 bs e2
    rw [hb] at h
    simp [u64of] at h
    obtain ⟨hv, hr⟩ := h; subst hr
    refine refines_of r r1 v _ 8 _ e1 e2 e3 e4 ?_
    rw [binReadDouble_char, e1, ← hv]; simp [rd64, rd32]
  | err e => rw [hb] at h; simp at h
  | panic s => rw [hb] at h; simp at h
  | oob => rw [hb] at h; simp at h


theorem brReadMapBegin_refines (r : Rd) (v : UInt8 × UInt8 × Nat) (r' : Rd) (hI : RInv r)
    (h : brReadMapBegin r = .ok (v, r')) :
    Refines r v r' ((binReadMapBegin (remaining r)).bind fun x => .ok ((x.1, x.2.1, x.2.2.1), x.2.2.2)) := by
  unfold brReadMapBegin at h
  cases hb : brNext 6 r with
  | ok p =>
    obtain ⟨bs, r1⟩ := p
    obtain ⟨e1, e2, e3, e4⟩ := brNext_sound r 6 bs r1 hI (by simpa using hb)
    obtain ⟨a, b, c, d, e, f, rfl⟩ := len6 bs e2
    rw [hb] at h
    simp [idx, sfrom, u32of] at h
    obtain ⟨hv, hr⟩ := h; subst hr
    refine refines_of r r1 v _ 6 _ e1 e2 e3 e4 ?_
    rw [binReadMapBegin_char, e1, ← hv]; simp [rd32]
    rw [if_neg (by omega)]; rfl
  | err e => rw [hb] at h; simp at h
  | panic s => rw [hb] at h; simp at h
  | oob => rw [hb] at h; simp at h

theorem brReadListBegin_refines (r : Rd) (v : UInt8 × Nat) (r' : Rd) (hI : RInv r)
    (h : brReadListBegin r = .ok (v, r')) :
    Refines r v r' ((binReadListBegin (remaining r)).bind fun x => .ok ((x.1, x.2.1), x.2.2)) := by
  unfold brReadListBegin at h
  cases hb : brNext 5 r with
  | ok p =>
    obtain ⟨bs, r1⟩ := p
    obtain ⟨e1, e2, e3, e4⟩ := brNext_sound r 5 bs r1 hI (by simpa using hb)
    obtain ⟨a, b, c, d, e, rfl⟩ := len5 bs e2
    rw [hb] at h
    simp [idx, sfrom, u32of] at h
    obtain ⟨hv, hr⟩ := h; subst hr
    refine refines_of r r1 v _ 5 _ e1 e2 e3 e4 ?_
    rw [binReadListBegin_char, e1, ← hv]; simp [rd32]
    rw [if_neg (by omega)]; rfl
  | err e => rw [hb] at h; simp at h
  | panic s => rw [hb] at h; simp at h
  | oob => rw [hb] at h; simp at h

theorem brReadFieldBegin_refines (r : Rd) (v : UInt8 × Int) (r' : Rd) (hI : RInv r)
    (h : brReadFieldBegin r = .ok (v, r')) :
    Refines r v r' ((binReadFieldBegin (remaining r)).bind fun x => .ok ((x.1, x.2.1), x.2.2)) := by
  unfold brReadFieldBegin at h
  cases hb : brNext 1 r with
  | ok p =>
    obtain ⟨bs, r1⟩ := p
    obtain ⟨e1, e2, e3, e4⟩ := brNext_sound r 1 bs r1 hI (by simpa using hb)
    obtain ⟨t, rfl⟩ := len1 bs e2
    rw [hb] at h
    simp only [Out.bind_eq, Out.bind_ok, idx_zero] at h
    by_cases ht : t = T_STOP
    · simp [ht] at h
      obtain ⟨hv, hr⟩ := h; subst hr
      refine refines_of r r1 v _ 1 _ e1 e2 e3 e4 ?_
      rw [binReadFieldBegin_char, e1, ← hv]; simp [ht, tstop0]
    · rw [if_neg ht] at h
      cases hc : brNext 2 r1 with
      | ok q =>
        obtain ⟨cs, r2⟩ := q
        obtain ⟨f1, f2, f3, f4⟩ := brNext_sound r1 2 cs r2 e4 (by simpa using hc)
        obtain ⟨a, b, rfl⟩ := len2 cs f2
        simp only [hc, Out.bind_ok] at h
        simp [u16of] at h
        obtain ⟨hv, hr⟩ := h; subst hr
        refine refines_of r r2 v [t, a, b] 3 _ (by rw [e1, f1]; simp) rfl (by omega) f4 ?_
        rw [binReadFieldBegin_char, e1, f1, ← hv]
        have ht0 : ¬ t = 0 := by rw [← tstop0]; exact ht
        simp [ht0, rd16]
        rw [if_neg (by omega)]; rfl
      | err e => simp [hc] at h
      | panic s => simp [hc] at h
      | oob => simp [hc] at h
  | err e => rw [hb] at h; simp at h
  | panic s => rw [hb] at h; simp at h
  | oob => rw [hb] at h; simp at h


theorem toI32_nonneg (n : Nat) (hn : n < 4294967296) (h : ¬ toI32 n < 0) : n < 2147483648 ∧ (toI32 n).toNat = n := by
  unfold toI32 at *; split at h <;> simp_all <;> omega

theorem drop_of_take_append (x y : Bytes) (n : Nat) (h : x = x.take n ++ y) (_hn : n ≤ x.length) : x.drop n = y := by
  have h2 : x.take n ++ x.drop n = x.take n ++ y := by rw [List.take_append_drop]; exact h
  exact List.append_cancel_left h2

theorem brReadBinary_refines (r : Rd) (s : Bytes) (r' : Rd) (hI : RInv r) (h : brReadBinary r = .ok (s, r')) :
    Refines r s r' (binReadBinary (remaining r)) := by
  unfold brReadBinary at h
  cases hb : brReadI32 r with
  | ok p =>
    obtain ⟨sz, r1⟩ := p
    obtain ⟨n1, a1, a2, a3, a4, a5⟩ := brReadI32_refines r sz r1 hI hb
    rw [binReadI32_char] at a1
    split at a1
    · simp at a1
    rename_i h4
    simp at a1
    obtain ⟨hsz, hn1⟩ := a1; subst hn1
    simp only [hb, Out.bind_eq, Out.bind_ok] at h
    by_cases hneg : sz < 0
    · simp [hneg] at h
    · rw [if_neg hneg] at h
      obtain ⟨e1, e2, e3, e4⟩ := brReadFull_sound r1 sz.toNat s r' a5 h
      have hw := rd32_lt (remaining r)
      rw [← hsz] at hneg e2
      obtain ⟨w1, w2⟩ := toI32_nonneg _ hw hneg
      rw [w2] at e2
      have hd4 : (remaining r).drop 4 = remaining r1 := drop_of_take_append _ _ 4 a2 a3
      have hlen : (remaining r).length = 4 + (s.length + (remaining r').length) := by
        have := congrArg List.length a2
        simp [e1] at this; omega
      refine ⟨4 + rd32 (remaining r), ?_, ?_, by omega, by rw [e3, a4, ← hsz, w2]; omega, e4⟩
      · rw [binReadBinary_char, if_neg h4, if_neg (by omega), if_neg (by omega), hd4, e1, ← e2]; simp
      · have : (remaining r).take (4 + rd32 (remaining r)) = (remaining r).take 4 ++ s := by
          rw [List.take_add, hd4, e1, ← e2]; simp
        rw [this, List.append_assoc, ← e1]; exact a2
  | err e => rw [hb] at h; simp at h
  | panic s => rw [hb] at h; simp at h
  | oob => rw [hb] at h; simp at h


theorem brReadMessageBegin_refines (r : Rd) (v : Bytes × Int × Int) (r' : Rd) (hI : RInv r)
    (h : brReadMessageBegin r = .ok (v, r')) :
    Refines r v r' ((binReadMessageBegin (remaining r)).bind fun x => .ok ((x.1, x.2.1, x.2.2.1), x.2.2.2)) := by
  unfold brReadMessageBegin at h
  cases hb : brReadI32 r with
  | err e => rw [hb] at h; simp at h
  | panic s => rw [hb] at h; simp at h
  | oob => rw [hb] at h; simp at h
  | ok p =>
    obtain ⟨hd, r1⟩ := p
    obtain ⟨n1, a1, a2, a3, a4, a5⟩ := brReadI32_refines r hd r1 hI hb
    rw [binReadI32_char] at a1
    split at a1
    · simp at a1
    rename_i h4
    simp at a1
    obtain ⟨hhd, hn1⟩ := a1; subst hn1
    have hw := rd32_lt (remaining r)
    simp only [hb, Out.bind_eq, Out.bind_ok] at h
    rw [← hhd, ofInt32_toI32 _ hw] at h
    by_cases hver : rd32 (remaining r) &&& Facts.msgVersionMask ≠ Facts.msgVersion1
    · rw [if_pos hver] at h; simp at h
    rw [if_neg hver] at h
    cases hc : brReadBinary r1 with
    | err e => rw [hc] at h; simp at h
    | panic s => rw [hc] at h; simp at h
    | oob => rw [hc] at h; simp at h
    | ok q =>
      obtain ⟨name, r2⟩ := q
      obtain ⟨n2, b1, b2, b3, b4, b5⟩ := brReadBinary_refines r1 name r2 a5 hc
      simp only [hc, Out.bind_ok] at h
      cases hs : brReadI32 r2 with
      | err e => rw [hs] at h; simp at h
      | panic s => rw [hs] at h; simp at h
      | oob => rw [hs] at h; simp at h
      | ok q3 =>
        obtain ⟨seq, r3⟩ := q3
        obtain ⟨n3, c1, c2, c3, c4, c5⟩ := brReadI32_refines r2 seq r3 b5 hs
        rw [hs] at h
        simp at h
        obtain ⟨hv, hr⟩ := h; subst hr
        -- the facts of the three component reads
        rw [binReadI32_char] at c1
        split at c1
        · simp at c1
        rename_i h4'
        simp at c1
        obtain ⟨hseq, hn3⟩ := c1; subst hn3
        rw [binReadBinary_char] at b1
        repeat' split at b1
        all_goals simp at b1
        rename_i g4 gneg glen
        obtain ⟨hname, hn2⟩ := b1; subst hn2
        have d4 : (remaining r).drop 4 = remaining r1 := drop_of_take_append _ _ 4 a2 a3
        have dn : (remaining r1).drop (4 + rd32 (remaining r1)) = remaining r2 := drop_of_take_append _ _ _ b2 b3
        have hv' : ¬ (rd32 (remaining r) / 65536 ≠ 0x8001) := fun c => hver ((ver_test _ hw).mpr c)
        have hlen : (remaining r).length = 4 + (remaining r1).length := by
          have := congrArg List.length a2; simp at this; omega
        have hlen1 : (remaining r1).length = 4 + rd32 (remaining r1) + (remaining r2).length := by
          have := congrArg List.length b2; simp at this; omega
        have d8 : (remaining r).drop 8 = (remaining r1).drop 4 := by
          rw [show 8 = 4 + 4 by rfl, ← List.drop_drop, d4]
        have d8n : (remaining r).drop (8 + rd32 (remaining r1)) = remaining r2 := by
          rw [show 8 + rd32 (remaining r1) = 4 + (4 + rd32 (remaining r1)) by omega, ← List.drop_drop, d4, dn]
        refine ⟨12 + rd32 (remaining r1), ?_, ?_, by omega, by omega, c5⟩
        · rw [binReadMessageBegin_char, if_neg h4, if_neg hv', d4, if_neg (by omega), if_neg (by omega),
            if_neg (by omega), d8, d8n, hname, hseq, ← hv, and_typeMask]
          rfl
        · have : (remaining r).take (12 + rd32 (remaining r1)) =
              (remaining r).take 4 ++ ((remaining r1).take (4 + rd32 (remaining r1)) ++ (remaining r2).take 4) := by
            rw [show 12 + rd32 (remaining r1) = 4 + ((4 + rd32 (remaining r1)) + 4) by omega, List.take_add, d4,
              List.take_add, dn]
          rw [this, List.append_assoc, List.append_assoc, ← c2, ← b2]; exact a2


theorem mapRM_ok {α} (f : α → Val) (x : TOut (α × Rd)) (v : Val) (r' : Rd) (h : mapRM f x = .ok (v, r')) :
    ∃ a, x = .ok (a, r') ∧ v = f a := by
  cases x with
  | ok p => simp [mapRM] at h; exact ⟨p.1, by rw [← h.2], h.1.symm⟩
  | err e => simp [mapRM] at h
  | panic s => simp [mapRM] at h
  | oob => simp [mapRM] at h

theorem refines_conv {α} (r r' : Rd) (a : α) (f : α → Val) (Y : BOut (α × Nat)) (Z : BOut (Val × Nat))
    (h : Refines r a r' Y) (hY : ∀ n, Y = .ok (a, n) → Z = .ok (f a, n)) : Refines r (f a) r' Z := by
  obtain ⟨n, h1, h2⟩ := h
  exact ⟨n, hY n h1, h2⟩

/-- REFINEMENT: whenever a stream reader succeeds — on any reader state satisfying the representation
    invariant, under any source script — the buffer reader run on the remaining stream returns the
    same value with some length n, exactly those n bytes have been consumed, and ReadLen grew by n -/
theorem brRead_refines (k : Kind) (r : Rd) (v : Val) (r' : Rd) (hI : RInv r) (h : brRead k r = .ok (v, r')) :
    Refines r v r' (binRead k (remaining r)) := by
  cases k <;> simp only [brRead] at h <;> obtain ⟨a, ha, rfl⟩ := mapRM_ok _ _ _ _ h <;> simp only [binRead]
  · exact refines_conv r r' a _ _ _ (brReadBool_refines r a r' hI ha) (fun n hn => by simp [hn, mapOk])
  · exact refines_conv r r' a _ _ _ (brReadByte_refines r a r' hI ha) (fun n hn => by simp [hn, mapOk])
  · exact refines_conv r r' a _ _ _ (brReadI16_refines r a r' hI ha) (fun n hn => by simp [hn, mapOk])
  · exact refines_conv r r' a _ _ _ (brReadI32_refines r a r' hI ha) (fun n hn => by simp [hn, mapOk])
  · exact refines_conv r r' a _ _ _ (brReadI64_refines r a r' hI ha) (fun n hn => by simp [hn, mapOk])
  · exact refines_conv r r' a _ _ _ (brReadDouble_refines r a r' hI ha) (fun n hn => by simp [hn, mapOk])
  · exact refines_conv r r' a _ _ _ (brReadBinary_refines r a r' hI ha) (fun n hn => by simp [hn, mapOk])
  · exact refines_conv r r' a _ _ _ (brReadBinary_refines r a r' hI ha) (fun n hn => by simp [hn, mapOk])
  · refine refines_conv r r' a (fun v => fieldVal v.1 v.2) _ _ (brReadFieldBegin_refines r a r' hI ha) ?_
    intro n hn
    cases hy : binReadFieldBegin (remaining r) <;> simp [hy] at hn
    simp [mapOk, ← hn.1, ← hn.2]
  · refine refines_conv r r' a (fun v => Val.mapBegin v.1 v.2.1 v.2.2) _ _ (brReadMapBegin_refines r a r' hI ha) ?_
    intro n hn
    cases hy : binReadMapBegin (remaining r) <;> simp [hy] at hn
    simp [mapOk, ← hn.1, ← hn.2]
  · refine refines_conv r r' a (fun v => Val.listBegin v.1 v.2) _ _ (brReadListBegin_refines r a r' hI ha) ?_
    intro n hn
    cases hy : binReadListBegin (remaining r) <;> simp [hy] at hn
    simp [mapOk, ← hn.1, ← hn.2]
  · refine refines_conv r r' a (fun v => Val.setBegin v.1 v.2) _ _ (brReadListBegin_refines r a r' hI ha) ?_
    intro n hn
    cases hy : binReadListBegin (remaining r) <;> simp [hy] at hn
    simp [mapOk, binReadSetBegin_char, hy, ← hn.1, ← hn.2]
  · refine refines_conv r r' a (fun v => Val.messageBegin v.1 v.2.1 v.2.2) _ _
      (brReadMessageBegin_refines r a r' hI ha) ?_
    intro n hn
    cases hy : binReadMessageBegin (remaining r) <;> simp [hy] at hn
    simp [mapOk, ← hn.1, ← hn.2]


end Verif.Wire

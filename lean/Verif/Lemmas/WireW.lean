/- Lemmas/WireW: the three writer families produce `enc`. -/
import Verif.Lemmas.Wire
namespace Verif.Wire

/-! ## putAt -/

theorem putAt_length (buf : Bytes) (off : Nat) (bs : Bytes) (h : off + bs.length ≤ buf.length) :
    (putAt buf off bs).length = buf.length := by
  simp [putAt]; omega

theorem putAt_putAt (buf : Bytes) (off : Nat) (a b : Bytes) (h : off + a.length + b.length ≤ buf.length) :
    putAt (putAt buf off a) (off + a.length) b = putAt buf off (a ++ b) := by
  unfold putAt
  have h1 : (buf.take off).length = off := by simp; omega
  simp [List.take_append, List.drop_append, h1, List.drop_drop]
  have e1 : List.take (off + a.length) (List.take off buf) = List.take off buf := by
    rw [List.take_take]; congr 1; omega
  have e2 : List.drop (off + a.length + b.length) (List.take off buf) = [] :=
    List.drop_eq_nil_of_le (by simp; omega)
  have e3 : List.drop (off + a.length + b.length - off) a = [] := List.drop_eq_nil_of_le (by omega)
  have e4 : off + a.length + (off + a.length + b.length - off - a.length) = off + (a.length + b.length) := by
    omega
  rw [e1, e2, e3, e4]; simp

theorem putAt_zero (buf bs : Bytes) : putAt buf 0 bs = bs ++ buf.drop bs.length := by
  simp [putAt]

theorem putAt_full (buf bs : Bytes) (h : bs.length = buf.length) : putAt buf 0 bs = bs := by
  simp [putAt, h]

/-! ## primitives on a buffer that is long enough -/

theorem setB_ok (buf : Bytes) (off i : Nat) (x : UInt8) (h : off + i < buf.length) :
    setB buf off i x = .ok (putAt buf (off + i) [x]) := by
  unfold setB; rw [if_neg (by omega), if_pos (by omega)]

theorem putU16_ok (buf : Bytes) (off n : Nat) (h : off + 2 ≤ buf.length) :
    putU16 buf off n = .ok (putAt buf off (be16 n)) := by
  unfold putU16; rw [if_neg (by omega), if_neg (by omega)]

theorem putU32_ok (buf : Bytes) (off n : Nat) (h : off + 4 ≤ buf.length) :
    putU32 buf off n = .ok (putAt buf off (be32 n)) := by
  unfold putU32; rw [if_neg (by omega), if_neg (by omega)]

theorem putU64_ok (buf : Bytes) (off n : Nat) (h : off + 8 ≤ buf.length) :
    putU64 buf off n = .ok (putAt buf off (be64 n)) := by
  unfold putU64; rw [if_neg (by omega), if_neg (by omega)]

theorem copyAt_ok (buf : Bytes) (off : Nat) (src : Bytes) (h : off + src.length ≤ buf.length) :
    copyAt buf off src = .ok (putAt buf off src, src.length) := by
  unfold copyAt; rw [if_neg (by omega)]
  have : min (buf.length - off) src.length = src.length := by omega
  simp [this]

/-! ## unsigned conversions -/

theorem be32_mod (n : Nat) : be32 (n % 4294967296) = be32 n := by
  unfold be32
  have e (a b : Nat) (h : a % 256 = b % 256) : UInt8.ofNat a = UInt8.ofNat b := by
    apply UInt8.toNat_inj.mp; simp [UInt8.toNat_ofNat', h]
  rw [e (n % 4294967296 / 16777216) (n / 16777216) (by omega),
      e (n % 4294967296 / 65536) (n / 65536) (by omega),
      e (n % 4294967296 / 256) (n / 256) (by omega),
      e (n % 4294967296) n (by omega)]

theorem ofInt32_nat (n : Nat) : ofInt 32 (n : Int) = n % 4294967296 := by
  simp [ofInt]; omega

theorem ofInt32_toI32 (n : Nat) (h : n < 4294967296) : ofInt 32 (toI32 n) = n := by
  simp [ofInt, toI32]; split <;> omega

theorem ofNat_eq (a b : Nat) (h : a % 256 = b % 256) : UInt8.ofNat a = UInt8.ofNat b := by
  apply UInt8.toNat_inj.mp; simp [UInt8.toNat_ofNat', h]

/-! ## message header word -/

theorem and_typeMask (n : Nat) : n &&& Facts.msgTypeMask = n % 65536 := by
  have : Facts.msgTypeMask = 2^16 - 1 := by decide
  rw [this, Nat.and_two_pow_sub_one_eq_mod]

theorem or_version (y : Nat) (h : y < 65536) : Facts.msgVersion1 ||| y = 2147549184 + y := by
  have : Facts.msgVersion1 = 32769 <<< 16 := by decide
  rw [this, ← Nat.shiftLeft_add_eq_or_of_lt (by simpa using h)]
  simp [Nat.shiftLeft_eq]

theorem msgHeader_eq (typ : Int) : msgHeader typ = 0x80010000 + msgType16 typ := by
  unfold msgHeader msgType16
  rw [and_typeMask, or_version _ (Nat.mod_lt _ (by decide))]
  simp [ofInt]; omega

theorem msgType16_lt (typ : Int) : msgType16 typ < 65536 := by
  unfold msgType16; omega

theorem and_verMask (w : Nat) (h : w < 4294967296) : w &&& Facts.msgVersionMask = w / 65536 * 65536 := by
  have hd : (w &&& Facts.msgVersionMask) / 2^16 = w / 65536 := by
    rw [Nat.and_div_two_pow]
    have : Facts.msgVersionMask / 2^16 = 2^16 - 1 := by decide
    rw [this, Nat.and_two_pow_sub_one_eq_mod]
    omega
  have hm : (w &&& Facts.msgVersionMask) % 2^16 = 0 := by
    rw [Nat.and_mod_two_pow]
    have : Facts.msgVersionMask % 2^16 = 0 := by decide
    rw [this]; simp
  omega

/-- the version test of both readers, in arithmetic -/
theorem ver_test (w : Nat) (h : w < 4294967296) :
    (w &&& Facts.msgVersionMask ≠ Facts.msgVersion1) ↔ w / 65536 ≠ 0x8001 := by
  rw [and_verMask w h]
  have : Facts.msgVersion1 = 2147549184 := by decide
  rw [this]; omega

/-! ## in-place writers -/

theorem tstop : T_STOP = 0 := by decide

/-- `enc` in the vocabulary of the model (Base's big-endian codecs, `ofInt`) -/
def encM : Val → Bytes
  | .bool b => [if b then 1 else 0]
  | .i8 v => [UInt8.ofNat (ofInt 8 v)]
  | .i16 v => be16 (ofInt 16 v)
  | .i32 v => be32 (ofInt 32 v)
  | .i64 v => be64 (ofInt 64 v)
  | .double bits => be64 bits
  | .binary s => be32 s.length ++ s
  | .str s => be32 s.length ++ s
  | .fieldBegin t id => t :: be16 (ofInt 16 id)
  | .fieldStop => [0]
  | .mapBegin kt vt n => kt :: vt :: be32 n
  | .listBegin et n => et :: be32 n
  | .setBegin et n => et :: be32 n
  | .messageBegin name typ seq => be32 (msgHeader typ) ++ be32 name.length ++ name ++ be32 (ofInt 32 seq)

theorem enc_eq_encM (v : Val) (ha : v.args) : enc v = encM v := by
  cases v <;> simp only [Val.args] at ha <;>
    simp [enc, encM, byte_eq, u16_eq, u32_eq, u64_eq, msgHeader_eq]
  case i8 v => rw [twos8 v ha]
  case i16 v => rw [twos16 v ha]
  case i32 v => rw [twos32 v ha]
  case i64 v => rw [twos64 v ha]
  case fieldBegin t id => rw [twos16 id ha]
  case messageBegin n t s => rw [twos32 s ha.2]

theorem encM_length (v : Val) : (encM v).length = Wire.length v := by
  cases v <;> simp [encM, Wire.length, lenMessageBegin] <;> omega

/-- one in-place store chain: after storing `a` at `off`, storing `b` right behind it -/
theorem put2 (buf : Bytes) (off : Nat) (a b : Bytes) (k : Nat) (hk : k = off + a.length)
    (h : off + a.length + b.length ≤ buf.length) :
    putAt (putAt buf off a) k b = putAt buf off (a ++ b) := by
  subst hk; exact putAt_putAt buf off a b h

theorem wBinary_ok (buf : Bytes) (off : Nat) (v : Bytes) (h : off + (4 + v.length) ≤ buf.length) :
    wBinary buf off v = .ok (putAt buf off (be32 v.length ++ v), 4 + v.length) := by
  have l1 : (putAt buf off (be32 v.length)).length = buf.length := putAt_length _ _ _ (by simp; omega)
  simp only [wBinary, putU32_ok buf off _ (by omega), Out.bind_eq, Out.bind_ok,
    copyAt_ok _ (off + 4) v (by rw [l1]; omega), Out.pure_eq]
  rw [put2 buf off (be32 v.length) v (off + 4) (by simp) (by simp; omega)]

theorem wFieldBegin_ok (buf : Bytes) (off : Nat) (t : UInt8) (id : Int) (h : off + 3 ≤ buf.length) :
    wFieldBegin buf off t id = .ok (putAt buf off (t :: be16 (ofInt 16 id)), 3) := by
  have l1 : (putAt buf (off + 0) [t]).length = buf.length := putAt_length _ _ _ (by simp; omega)
  simp only [wFieldBegin, setB_ok buf off 0 t (by omega), Out.bind_eq, Out.bind_ok,
    putU16_ok _ (off + 1) _ (by rw [l1]; omega), Out.pure_eq]
  rw [put2 buf (off + 0) [t] _ (off + 1) (by simp) (by simp; omega)]; simp

theorem wMapBegin_ok (buf : Bytes) (off : Nat) (kt vt : UInt8) (size : Int) (h : off + 6 ≤ buf.length) :
    wMapBegin buf off kt vt size = .ok (putAt buf off (kt :: vt :: be32 (ofInt 32 size)), 6) := by
  have l1 : (putAt buf (off + 0) [kt]).length = buf.length := putAt_length _ _ _ (by simp; omega)
  have l2 : (putAt buf (off + 0) ([kt] ++ [vt])).length = buf.length := putAt_length _ _ _ (by simp; omega)
  simp only [wMapBegin, setB_ok buf off 0 kt (by omega), Out.bind_eq, Out.bind_ok,
    setB_ok _ off 1 vt (by rw [l1]; omega)]
  rw [put2 buf (off + 0) [kt] [vt] (off + 1) (by simp) (by simp; omega)]
  simp only [putU32_ok _ (off + 2) _ (by rw [l2]; omega), Out.bind_ok, Out.pure_eq]
  rw [put2 buf (off + 0) ([kt] ++ [vt]) _ (off + 2) (by simp) (by simp; omega)]; simp

theorem wListBegin_ok (buf : Bytes) (off : Nat) (et : UInt8) (size : Int) (h : off + 5 ≤ buf.length) :
    wListBegin buf off et size = .ok (putAt buf off (et :: be32 (ofInt 32 size)), 5) := by
  have l1 : (putAt buf (off + 0) [et]).length = buf.length := putAt_length _ _ _ (by simp; omega)
  simp only [wListBegin, setB_ok buf off 0 et (by omega), Out.bind_eq, Out.bind_ok,
    putU32_ok _ (off + 1) _ (by rw [l1]; omega), Out.pure_eq]
  rw [put2 buf (off + 0) [et] _ (off + 1) (by simp) (by simp; omega)]; simp

theorem wSetBegin_ok (buf : Bytes) (off : Nat) (et : UInt8) (size : Int) (h : off + 5 ≤ buf.length) :
    wSetBegin buf off et size = .ok (putAt buf off (et :: be32 (ofInt 32 size)), 5) := by
  have l1 : (putAt buf (off + 0) [et]).length = buf.length := putAt_length _ _ _ (by simp; omega)
  simp only [wSetBegin, setB_ok buf off 0 et (by omega), Out.bind_eq, Out.bind_ok,
    putU32_ok _ (off + 1) _ (by rw [l1]; omega), Out.pure_eq]
  rw [put2 buf (off + 0) [et] _ (off + 1) (by simp) (by simp; omega)]; simp

theorem wMessageBegin_ok (buf : Bytes) (off : Nat) (name : Bytes) (typ seq : Int)
    (h : off + (12 + name.length) ≤ buf.length) :
    wMessageBegin buf off name typ seq =
      .ok (putAt buf off (be32 (msgHeader typ) ++ be32 name.length ++ name ++ be32 (ofInt 32 seq)),
           12 + name.length) := by
  have l1 : (putAt buf off (be32 (msgHeader typ))).length = buf.length := putAt_length _ _ _ (by simp; omega)
  have l2 : (putAt buf off (be32 (msgHeader typ) ++ be32 name.length)).length = buf.length :=
    putAt_length _ _ _ (by simp; omega)
  have l3 : (putAt buf off (be32 (msgHeader typ) ++ be32 name.length ++ name)).length = buf.length :=
    putAt_length _ _ _ (by simp; omega)
  simp only [wMessageBegin, putU32_ok buf off _ (by omega), Out.bind_eq, Out.bind_ok,
    putU32_ok _ (off + 4) _ (by rw [l1]; omega)]
  rw [put2 buf off _ (be32 name.length) (off + 4) (by simp) (by simp; omega)]
  simp only [copyAt_ok _ (off + 8) name (by rw [l2]; omega), Out.bind_ok]
  rw [put2 buf off _ name (off + 8) (by simp) (by simp; omega)]
  simp only [putU32_ok _ (off + (8 + name.length)) _ (by rw [l3]; omega), Out.bind_ok, Out.pure_eq]
  rw [put2 buf off _ (be32 (ofInt 32 seq)) (off + (8 + name.length)) (by simp; omega) (by simp; omega)]
  simp; omega

theorem write_encM (buf : Bytes) (off : Nat) (v : Val) (h : off + (encM v).length ≤ buf.length) :
    write buf off v = .ok (putAt buf off (encM v), (encM v).length) := by
  cases v
  case bool b =>
    simp only [encM, List.length_singleton] at h
    cases b <;> simp [write, wBool, setB_ok buf off 0 _ (by omega), encM]
  case i8 x =>
    simp only [encM, List.length_singleton] at h
    simp [write, wByte, setB_ok buf off 0 _ (by omega), encM]
  case i16 x =>
    simp only [encM, be16_length] at h
    simp [write, wI16, putU16_ok buf off _ (by omega), encM]
  case i32 x =>
    simp only [encM, be32_length] at h
    simp [write, wI32, putU32_ok buf off _ (by omega), encM]
  case i64 x =>
    simp only [encM, be64_length] at h
    simp [write, wI64, putU64_ok buf off _ (by omega), encM]
  case double x =>
    simp only [encM, be64_length] at h
    simp [write, wDouble, putU64_ok buf off _ (by omega), encM]
  case binary x => simp only [encM, List.length_append, be32_length] at h; simp [write, encM, wBinary_ok buf off x (by omega)]
  case str x => simp only [encM, List.length_append, be32_length] at h; simp [write, encM, wBinary_ok buf off x (by omega)]
  case fieldBegin t id =>
    simp only [encM, List.length_cons, be16_length] at h
    simp [write, encM, wFieldBegin_ok buf off t id (by omega)]
  case fieldStop =>
    simp only [encM, List.length_singleton] at h
    simp [write, wFieldStop, setB_ok buf off 0 _ (by omega), encM, tstop]
  case mapBegin kt vt n =>
    simp only [encM, List.length_cons, be32_length] at h
    simp [write, encM, wMapBegin_ok buf off kt vt n (by omega), ofInt32_nat, be32_mod]
  case listBegin et n =>
    simp only [encM, List.length_cons, be32_length] at h
    simp [write, encM, wListBegin_ok buf off et n (by omega), ofInt32_nat, be32_mod]
  case setBegin et n =>
    simp only [encM, List.length_cons, be32_length] at h
    simp [write, encM, wSetBegin_ok buf off et n (by omega), ofInt32_nat, be32_mod]
  case messageBegin name typ seq =>
    simp only [encM, List.length_append, be32_length] at h
    simp [write, encM, wMessageBegin_ok buf off name typ seq (by omega)]; omega

/-! ## appending writers -/

theorem aU32_eq (buf : Bytes) (n : Nat) : aU32 buf n = buf ++ be32 n := rfl
theorem aU64_eq (buf : Bytes) (n : Nat) : aU64 buf n = buf ++ be64 n := by
  simp [aU64, be64, be32, Nat.div_div_eq_div_mul]

theorem ofInt32_lt (v : Int) : ofInt 32 v < 4294967296 := by
  simp [ofInt]; omega

theorem append_encM (buf : Bytes) (v : Val) : append buf v = buf ++ encM v := by
  cases v
  case bool b => cases b <;> simp [append, aBool, encM]
  case i8 x => simp [append, aByte, encM]
  case i16 x => simp [append, aI16, encM, be16]
  case i32 x => simp [append, aI32, aU32_eq, encM]
  case i64 x => simp [append, aI64, aU64_eq, encM]
  case double x => simp [append, aDouble, aU64_eq, encM]
  case binary x =>
    simp [append, aBinary, aI32, aU32_eq, encM, ofInt32_toI32 _ (Nat.mod_lt _ (by decide)), be32_mod]
  case str x =>
    simp [append, aBinary, aI32, aU32_eq, encM, ofInt32_toI32 _ (Nat.mod_lt _ (by decide)), be32_mod]
  case fieldBegin t id =>
    simp only [append, aFieldBegin, encM, be16]
    rw [ofNat_eq (ofInt 16 (id / 256)) (ofInt 16 id / 256) (by simp [ofInt]; omega)]
  case fieldStop => simp [append, aFieldStop, encM, tstop]
  case mapBegin kt vt n =>
    simp [append, aMapBegin, aI32, aU32_eq, encM, ofInt32_nat, ofInt32_toI32 _ (Nat.mod_lt _ (by decide)), be32_mod]
  case listBegin et n =>
    simp [append, aListBegin, aI32, aU32_eq, encM, ofInt32_nat, ofInt32_toI32 _ (Nat.mod_lt _ (by decide)), be32_mod]
  case setBegin et n =>
    simp [append, aSetBegin, aI32, aU32_eq, encM, ofInt32_nat, ofInt32_toI32 _ (Nat.mod_lt _ (by decide)), be32_mod]
  case messageBegin name typ seq =>
    simp [append, aMessageBegin, aBinary, aI32, aU32_eq, encM, ofInt32_toI32 _ (Nat.mod_lt _ (by decide)), be32_mod]


/-! ## stream writers over the writer log -/

/-- what one stream write adds to the log -/
def itemsOf : Val → List WItem
  | .binary s => [.region (be32 s.length), .payload s]
  | .str s => [.region (be32 s.length), .payload s]
  | v => [.region (encM v)]

theorem itemsOf_bytes (v : Val) : ((itemsOf v).map WItem.bytes).flatten = encM v := by
  cases v <;> simp [itemsOf, WItem.bytes, encM]

/-- Malloc on a healthy writer hands out a region of exactly n bytes -/
theorem wlMalloc_ok (w : WLog) (d : Nat → UInt8) (n : Nat) (h : w.err = none) :
    ∃ R : Bytes, R.length = n ∧ wlMalloc w (n : Int) d = .ok R := by
  exact ⟨(List.range n).map d, by simp, by simp [wlMalloc, h]⟩

theorem fill_ok (b : Bytes) : fill (.ok b) = .ok b := rfl

theorem bwI32_ok (w : WLog) (d : Nat → UInt8) (x : Int) (h : w.err = none) :
    bwI32 w d x = .ok (wlCommit w (be32 (ofInt 32 x))) := by
  obtain ⟨R, hl, hm⟩ := wlMalloc_ok w d 4 h
  simp only [Int.cast_ofNat_Int] at hm
  simp only [bwI32, hm, Out.bind_eq, Out.bind_ok, putU32_ok R 0 _ (by omega), fill_ok, Out.pure_eq]
  rw [putAt_full _ _ (by simp; omega)]

theorem bwFieldBegin_ok (w : WLog) (d : Nat → UInt8) (t : UInt8) (id : Int) (h : w.err = none) :
    bwFieldBegin w d t id = .ok (wlCommit w (t :: be16 (ofInt 16 id))) := by
  obtain ⟨R, hl, hm⟩ := wlMalloc_ok w d 3 h
  simp only [Int.cast_ofNat_Int] at hm
  have l1 : (putAt R (0 + 0) [t]).length = R.length := putAt_length _ _ _ (by simp; omega)
  have l2 (x) : (putAt R (0 + 0) ([t] ++ [x])).length = R.length := putAt_length _ _ _ (by simp; omega)
  simp only [bwFieldBegin, hm, Out.bind_eq, Out.bind_ok, setB_ok R 0 0 t (by omega), fill_ok,
    setB_ok _ 0 1 _ (by rw [l1]; omega)]
  rw [put2 R (0 + 0) [t] _ (0 + 1) (by simp) (by simp; omega)]
  rw [setB_ok _ 0 2 _ (by rw [l2]; omega)]
  simp only [fill_ok, Out.bind_ok, Out.pure_eq]
  rw [put2 R (0 + 0) _ _ (0 + 2) (by simp) (by simp; omega)]
  rw [putAt_full _ _ (by simp; omega)]
  simp only [be16]
  rw [ofNat_eq (ofInt 16 (id / 256)) (ofInt 16 id / 256) (by simp [ofInt]; omega)]; simp

theorem bwMessageBegin_ok (w : WLog) (d : Nat → UInt8) (name : Bytes) (typ seq : Int) (h : w.err = none) :
    bwMessageBegin w d name typ seq =
      .ok (wlCommit w (be32 (msgHeader typ) ++ be32 name.length ++ name ++ be32 (ofInt 32 seq))) := by
  obtain ⟨R, hl, hm⟩ := wlMalloc_ok w d (lenMessageBegin name) h
  unfold lenMessageBegin at hl
  have l1 : (putAt R 0 (be32 (msgHeader typ))).length = R.length := putAt_length _ _ _ (by simp; omega)
  have l2 : (putAt R 0 (be32 (msgHeader typ) ++ be32 name.length)).length = R.length :=
    putAt_length _ _ _ (by simp; omega)
  have l3 : (putAt R 0 (be32 (msgHeader typ) ++ be32 name.length ++ name)).length = R.length :=
    putAt_length _ _ _ (by simp; omega)
  simp only [bwMessageBegin, hm, Out.bind_eq, Out.bind_ok, putU32_ok R 0 _ (by omega), fill_ok,
    putU32_ok _ 4 _ (by rw [l1]; omega)]
  rw [put2 R 0 _ (be32 name.length) 4 (by simp) (by simp; omega)]
  simp only [copyAt_ok _ 8 name (by rw [l2]; omega), Out.bind_ok, fill_ok]
  rw [put2 R 0 _ name 8 (by simp) (by simp; omega)]
  simp only [putU32_ok _ (8 + name.length) _ (by rw [l3]; omega), Out.bind_ok, Out.pure_eq, fill_ok]
  rw [put2 R 0 _ (be32 (ofInt 32 seq)) (8 + name.length) (by simp; omega) (by simp; omega)]
  rw [putAt_full _ _ (by simp; omega)]


theorem bw1_ok (w : WLog) (d : Nat → UInt8) (x : UInt8) (h : w.err = none) :
    (do let buf ← wlMalloc w 1 d
        let b1 ← fill (setB buf 0 0 x)
        pure (wlCommit w b1) : WOut WLog) = .ok (wlCommit w [x]) := by
  obtain ⟨R, hl, hm⟩ := wlMalloc_ok w d 1 h
  simp only [Int.cast_ofNat_Int] at hm
  simp only [hm, Out.bind_eq, Out.bind_ok, setB_ok R 0 0 _ (by omega), fill_ok, Out.pure_eq]
  rw [putAt_full _ _ (by simp; omega)]

theorem bwI16_ok (w : WLog) (d : Nat → UInt8) (x : Int) (h : w.err = none) :
    bwI16 w d x = .ok (wlCommit w (be16 (ofInt 16 x))) := by
  obtain ⟨R, hl, hm⟩ := wlMalloc_ok w d 2 h
  simp only [Int.cast_ofNat_Int] at hm
  simp only [bwI16, hm, Out.bind_eq, Out.bind_ok, putU16_ok R 0 _ (by omega), fill_ok, Out.pure_eq]
  rw [putAt_full _ _ (by simp; omega)]

theorem bwU64_ok (w : WLog) (d : Nat → UInt8) (x : Nat) (h : w.err = none) :
    (do let buf ← wlMalloc w 8 d
        let b1 ← fill (putU64 buf 0 x)
        pure (wlCommit w b1) : WOut WLog) = .ok (wlCommit w (be64 x)) := by
  obtain ⟨R, hl, hm⟩ := wlMalloc_ok w d 8 h
  simp only [Int.cast_ofNat_Int] at hm
  simp only [hm, Out.bind_eq, Out.bind_ok, putU64_ok R 0 _ (by omega), fill_ok, Out.pure_eq]
  rw [putAt_full _ _ (by simp; omega)]

theorem bwBinary_ok (w : WLog) (d : Nat → UInt8) (v : Bytes) (h : w.err = none) :
    bwBinary w d v = .ok { w with items := w.items ++ [.region (be32 v.length), .payload v] } := by
  obtain ⟨R, hl, hm⟩ := wlMalloc_ok w d 4 h
  simp only [Int.cast_ofNat_Int] at hm
  simp only [bwBinary, hm, Out.bind_eq, Out.bind_ok, putU32_ok R 0 _ (by omega), fill_ok]
  rw [putAt_full _ _ (by simp; omega)]
  simp [wlWriteBinary, wlCommit, h]

theorem bwListBegin_ok (w : WLog) (d : Nat → UInt8) (et : UInt8) (size : Int) (h : w.err = none) :
    bwListBegin w d et size = .ok (wlCommit w (et :: be32 (ofInt 32 size))) := by
  obtain ⟨R, hl, hm⟩ := wlMalloc_ok w d 5 h
  simp only [Int.cast_ofNat_Int] at hm
  have l1 : (putAt R (0 + 0) [et]).length = R.length := putAt_length _ _ _ (by simp; omega)
  simp only [bwListBegin, hm, Out.bind_eq, Out.bind_ok, setB_ok R 0 0 et (by omega), fill_ok,
    putU32_ok _ 1 _ (by rw [l1]; omega), Out.pure_eq]
  rw [put2 R (0 + 0) [et] _ 1 (by simp) (by simp; omega)]
  rw [putAt_full _ _ (by simp; omega)]; simp

theorem bwSetBegin_ok (w : WLog) (d : Nat → UInt8) (et : UInt8) (size : Int) (h : w.err = none) :
    bwSetBegin w d et size = .ok (wlCommit w (et :: be32 (ofInt 32 size))) := by
  obtain ⟨R, hl, hm⟩ := wlMalloc_ok w d 5 h
  simp only [Int.cast_ofNat_Int] at hm
  have l1 : (putAt R (0 + 0) [et]).length = R.length := putAt_length _ _ _ (by simp; omega)
  simp only [bwSetBegin, hm, Out.bind_eq, Out.bind_ok, setB_ok R 0 0 et (by omega), fill_ok,
    putU32_ok _ 1 _ (by rw [l1]; omega), Out.pure_eq]
  rw [put2 R (0 + 0) [et] _ 1 (by simp) (by simp; omega)]
  rw [putAt_full _ _ (by simp; omega)]; simp

theorem bwMapBegin_ok (w : WLog) (d : Nat → UInt8) (kt vt : UInt8) (size : Int) (h : w.err = none) :
    bwMapBegin w d kt vt size = .ok (wlCommit w (kt :: vt :: be32 (ofInt 32 size))) := by
  obtain ⟨R, hl, hm⟩ := wlMalloc_ok w d 6 h
  simp only [Int.cast_ofNat_Int] at hm
  have l1 : (putAt R (0 + 0) [kt]).length = R.length := putAt_length _ _ _ (by simp; omega)
  have l2 : (putAt R (0 + 0) ([kt] ++ [vt])).length = R.length := putAt_length _ _ _ (by simp; omega)
  simp only [bwMapBegin, hm, Out.bind_eq, Out.bind_ok, setB_ok R 0 0 kt (by omega), fill_ok,
    setB_ok _ 0 1 vt (by rw [l1]; omega)]
  rw [put2 R (0 + 0) [kt] [vt] (0 + 1) (by simp) (by simp; omega)]
  simp only [putU32_ok _ 2 _ (by rw [l2]; omega), fill_ok, Out.bind_ok, Out.pure_eq]
  rw [put2 R (0 + 0) _ _ 2 (by simp) (by simp; omega)]
  rw [putAt_full _ _ (by simp; omega)]; simp

/-- every stream writer, on a healthy writer, appends exactly the items of the value -/
theorem bwWrite_encM (w : WLog) (d : Nat → UInt8) (v : Val) (h : w.err = none) :
    bwWrite w d v = .ok { w with items := w.items ++ itemsOf v } := by
  cases v
  case bool b =>
    cases b
    · have := bw1_ok w d 0 h; simpa [bwWrite, bwBool, wlCommit, itemsOf, encM] using this
    · have := bw1_ok w d 1 h; simpa [bwWrite, bwBool, wlCommit, itemsOf, encM] using this
  case i8 x =>
    have := bw1_ok w d (UInt8.ofNat (ofInt 8 x)) h
    simpa [bwWrite, bwByte, wlCommit, itemsOf, encM] using this
  case i16 x => simp [bwWrite, bwI16_ok w d _ h, wlCommit, itemsOf, encM]
  case i32 x => simp [bwWrite, bwI32_ok w d _ h, wlCommit, itemsOf, encM]
  case i64 x =>
    have := bwU64_ok w d (ofInt 64 x) h
    simpa [bwWrite, bwI64, wlCommit, itemsOf, encM] using this
  case double x =>
    have := bwU64_ok w d x h
    simpa [bwWrite, bwDouble, wlCommit, itemsOf, encM] using this
  case binary x => simp [bwWrite, bwBinary_ok w d _ h, itemsOf]
  case str x => simp [bwWrite, bwBinary_ok w d _ h, itemsOf]
  case fieldBegin t id => simp [bwWrite, bwFieldBegin_ok w d _ _ h, wlCommit, itemsOf, encM]
  case fieldStop =>
    have := bw1_ok w d 0 h
    simpa [bwWrite, bwFieldStop, wlCommit, itemsOf, encM, tstop] using this
  case mapBegin kt vt n =>
    simp [bwWrite, bwMapBegin_ok w d _ _ _ h, wlCommit, itemsOf, encM, ofInt32_nat, be32_mod]
  case listBegin et n =>
    simp [bwWrite, bwListBegin_ok w d _ _ h, wlCommit, itemsOf, encM, ofInt32_nat, be32_mod]
  case setBegin et n =>
    simp [bwWrite, bwSetBegin_ok w d _ _ h, wlCommit, itemsOf, encM, ofInt32_nat, be32_mod]
  case messageBegin name typ seq =>
    simp [bwWrite, bwMessageBegin_ok w d _ _ _ h, wlCommit, itemsOf, encM]

/-- a stream writer call on a writer with a sticky error returns that error and logs nothing -/
theorem bwWrite_failed (w : WLog) (d : Nat → UInt8) (v : Val) (e : RErr) (h : w.err = some e) :
    bwWrite w d v = .err e := by
  cases v <;> simp [bwWrite, bwBool, bwByte, bwI16, bwI32, bwI64, bwDouble, bwBinary, bwFieldBegin,
    bwFieldStop, bwMapBegin, bwListBegin, bwSetBegin, bwMessageBegin, wlMalloc, h]

/-- the round-trip domain lies inside the Go argument ranges -/
theorem wf_args (v : Val) (h : v.wf) : v.args := by
  cases v <;> simp only [Val.wf] at h <;> simp only [Val.args] <;> first | trivial | exact h | skip
  case fieldBegin t id => exact h.2
  case messageBegin n t s => exact ⟨by unfold inI32; omega, h.2.2.2⟩

end Verif.Wire
